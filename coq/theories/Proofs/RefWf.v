(* Well-formedness invariant of the reference semantics (Spec/RefSys.v): the system layer of Model/McSys.v over
   the one-list store, so := abstract_ops tleb sevent_eqb, systems  sys := @mcsys T (astore T) PS.

   Only assumption (Section RefWf):  handler_closed : every ASend m dst issued by a handler has In dst known.

   INVARIANT.   AWf A := AWfC (s_nodes A) (s_net A) (s_events A), the conjunction of
     1. Place nodes net : s_nodes, every nd_procs and n_loc are ssorted by name;
                          sget p (n_loc net) = Some n  <->  exists nd, sget n nodes = Some nd /\ shas p (nd_procs nd);
                          every name in `known` is in n_loc.
     2. AInv (s_events A)  (StoreSpecP: pending ids NoDup and below anext).
     3. EvOK : every pending (i, e) satisfies EvWf:  EMsg m src dst o : src is in n_loc and LiveP dst;
                                                     ETimer p n d    : LiveP p
               where LiveP p := p is located on an existing node that is not crashed.
     4. Disc : a crashed node is in n_drop_in and n_drop_out.
     5. Tim  : for every process p with entry pe on a non-crashed node, TimOK a p (pe_ptimers pe):
               forall n, shas n (pe_ptimers pe) = true ->
                 exists i d, sget tkey_cmp (p, n) (amap a) = Some i /\ In (i, ETimer p n d) (pend a).
   CHANGE w.r.t. the proposed clause 5 (`pending_id (s_events A) i = true` only): that clause is NOT inductive.
   Proofs/RefWfEx.v, ex_weak_clause5: a configuration satisfying clauses 1-4 and the weak clause 5 (two names of
   one process mapped to the same pending id) from which an enabled delivery panics with 99 (second cancel).
   The clause proved here says that the id the name map gives for a name in pending_timers is a pending timer
   event OF THAT PROCESS AND NAME; with NoDup ids two different (process, name) keys of pending_timers then
   never share an id.  The ghost scenario (a name set again while pending: second TimerFired event pushed, the
   old one stays pending, amap points to the new one, firing either removes the name from pe_ptimers) satisfies
   it: TimOK_push / TimOK_push_new / TimOK_apop below; concrete run: RefWfEx.ex_ghost.  A stale amap entry
   (pointing to a fired timer) is allowed as long as the name is not in pe_ptimers.
   While the events of one handler invocation are added the node already holds the FINAL process entry; the
   proof runs node_actions and add_events in lock-step (SInv: clause 5 of the running process measured against
   the pending_timers after the actions processed so far; action_step, actions_step, handle_add_ok).

   THEOREMS (Enabled A c := exists ids i cs, available so A = Ok ids /\ In i ids /\ alternatives so A i = Ok cs /\ In c cs;
             StepRes A A' := AWf A' /\ s_net A' = s_net A /\ s_mf A' = s_mf A /\ Shape (s_nodes A) (s_nodes A') /\
                             forall n, Silent n A -> Silent n A' /\ sget n (s_nodes A') = sget n (s_nodes A)):
   B1  take_choice_ok   AWf A -> Enabled A c -> exists A', take_choice ... A c = Ok A' /\ StepRes A A'
       take_choice_awf  the same in the unfolded form, conclusion AWf A'
       all_choices_ok / all_choices_spec   AWf A -> all_choices so A = Ok cs (and every c in cs is Enabled)
       steps_awf        AWf is preserved along every path of enabled steps (Steps)
   B2  cb_local_ok (proc located on the node, node not crashed; conclusion StepRes), cb_crash_ok (node exists),
       cb_mode_ok, cb_net_ok (o <> NReset, or no node is crashed).  NReset empties drop_in/drop_out, i.e. it
       reconnects crashed nodes: clause 4 fails, a message then sent to the crashed node stays pending and its
       delivery panics with 41 (RefWfEx.ex_reset), so this case is excluded.
   B3  awf_init
   B4  set_state_restore : A, A' sorted, Shape (s_nodes A) (s_nodes A') (same node names, process names, skews),
                           s_mf A' = s_mf A  ->  set_state A' (get_state A) = Ok A   (exact restore)
       set_state_awf     : AWf A -> A' sorted and of the shape of A -> set_state A' (get_state A) = Ok A'' -> AWf A''
       search_step_ok    : AWf A -> Enabled A c -> take_choice A c = Ok A1 /\ AWf A1 /\
                           search_step A c = Ok (A, get_state A1) /\ set_state A (get_state A1) = Ok A1
       expand_sys_ok     : AWf A -> expand_sys A = Ok (A, sts) /\ every st in sts: set_state A st = Ok A1, AWf A1, Steps A A1
   B5  Silent n A := node n crashed /\ no pending event touches a process located on n /\ n in drop_in, drop_out.
       cb_crash_ok : AWf A -> sget n (s_nodes A) = Some nd -> cb_apply (CbCrash n) = Ok A' /\ AWf A' /\ Silent n A' /\
                     pend (s_events A') = filter (fun ie => negb (on_node nd (snd ie))) (pend (s_events A)) /\
                     amap, anext unchanged /\
                     s_trace A' = s_trace A ++ LMcNodeCrashed n :: crash_drops (s_events A) (map fst (nd_procs nd)) /\ ...
                     (on_node_located: on_node nd e <-> some process located on n touches e;
                      crash_drops: processes in list (= name) order, per process the messages still pending that it
                      touches in id order (filter of `alive`); crash_drops_alive: = drops_of (alive a) procs, a
                      function of the id-sorted listing of the pending events only; drops_of_length: one entry
                      per removed message; cb_crash_trace: its entries are exactly the LMcMessageDropped of the
                      removed messages)
       silent_step / silent_forever : AWf A -> Silent n A -> enabled step(s) to A' -> Silent n A' and
                     sget n (s_nodes A') = sget n (s_nodes A)  (no handler of n ran: all process entries unchanged)
       net_send_dropped / silent_send_dropped : a message between different nodes whose source node is in
                     drop_out or whose destination node is in drop_in yields SDropped.
   Every statement is proved; see Print Assumptions at the end. *)
From Coq Require Import List NArith Bool Lia.
From ASV Require Import Base.Util Base.Msg Base.Log Model.Store Spec.StoreSpec Model.McSys Spec.RefSys
     Proofs.UtilP Proofs.StoreSpecP.
Import ListNotations.
Open Scope N_scope.

(* ------------------------------------------------------------------------------------------ *)
(* small facts on sorted maps keyed by N                                                       *)
(* ------------------------------------------------------------------------------------------ *)
Lemma shas_sins_N {V} k k' (v : V) l :
  shas N.compare k (sins N.compare k' v l) = N.eqb k k' || shas N.compare k l.
Proof.
  unfold shas. rewrite (sget_sins _ CmpSpec_N), is_eq_ncmp. destruct (N.eqb k k'); reflexivity.
Qed.

Lemma shas_srem_N {V} k k' (l : list (N * V)) :
  shas N.compare k (srem N.compare k' l) = negb (N.eqb k k') && shas N.compare k l.
Proof.
  unfold shas. rewrite (sget_srem _ CmpSpec_N), is_eq_ncmp. destruct (N.eqb k k'); reflexivity.
Qed.

Lemma sget_sins_N {V} k k' (v : V) l :
  sget N.compare k (sins N.compare k' v l) = if N.eqb k k' then Some v else sget N.compare k l.
Proof. rewrite (sget_sins _ CmpSpec_N), is_eq_ncmp. reflexivity. Qed.

Lemma shas_sget {V} k (l : list (N * V)) : shas N.compare k l = true <-> exists v, sget N.compare k l = Some v.
Proof.
  unfold shas. destruct (sget N.compare k l).
  - split; eauto.
  - split; [discriminate|]. intros [v H]. discriminate.
Qed.

Lemma nmem_nins x y l : nmem x (nins y l) = N.eqb x y || nmem x l.
Proof.
  destruct (nmem x (nins y l)) eqn:E.
  - apply nmem_iff, in_nins in E. destruct E as [->|E].
    + rewrite N.eqb_refl. reflexivity.
    + apply nmem_iff in E. rewrite E. symmetry. apply orb_true_r.
  - symmetry. apply orb_false_iff. apply nmem_false_iff in E. rewrite in_nins in E. split.
    + apply N.eqb_neq. intros ->. apply E. auto.
    + apply nmem_false_iff. intros H. apply E. auto.
Qed.

(* ------------------------------------------------------------------------------------------ *)
(* the abstract store operations, as equations                                                 *)
(* ------------------------------------------------------------------------------------------ *)
Section StoreOps.
  Context {T : Type}.
  Notation sevent := (sevent T).
  Notation astore := (astore T).

  Definition apush (a : astore) (e : sevent) (i : id) (nx : id) : astore :=
    {| pend := pend a ++ [(i, e)];
       amap := match e with ETimer p n _ => sins tkey_cmp (p, n) i (amap a) | _ => amap a end;
       anext := nx |}.
  Definition apop (a : astore) (i : id) : astore :=
    {| pend := aremove i (pend a); amap := amap a; anext := anext a |}.
  Definition acancel (a : astore) (p n : N) (i : id) : astore :=
    {| pend := aremove i (pend a); amap := srem tkey_cmp (p, n) (amap a); anext := anext a |}.
  Definition acproc (a : astore) (p : N) : astore :=
    {| pend := filter (fun ie => negb (touches p (snd ie))) (pend a); amap := amap a; anext := anext a |}.

  Lemma a_push_eq (a : astore) e : a_push a e = Ok (apush a e (anext a) (anext a + 1), anext a).
  Proof. reflexivity. Qed.

  Lemma a_pop_eq (a : astore) i e : lookup (pend a) i = Some e -> a_pop a i = Ok (apop a i, e).
  Proof.
    intros H. unfold a_pop, a_do. cbn [legal].
    assert (Hp : pending_id a i = true).
    { apply pending_iff. apply lookup_in in H. apply in_ids. eauto. }
    rewrite Hp. cbn [astep bind]. rewrite aget_lookup, H. reflexivity.
  Qed.

  Lemma a_push_fixed_eq (a : astore) e i :
    is_msg e = true -> ~ In i (ids (pend a)) -> i < anext a ->
    a_push_fixed a e i = Ok (apush a e i (anext a)).
  Proof.
    intros Hm Hi Hlt. unfold a_push_fixed, a_do. cbn [legal].
    apply pending_false_iff in Hi. rewrite Hm, Hi. apply N.ltb_lt in Hlt. rewrite Hlt. reflexivity.
  Qed.

  Lemma a_cancel_timer_eq (a : astore) p n i :
    sget tkey_cmp (p, n) (amap a) = Some i -> In i (ids (pend a)) ->
    a_cancel_timer a p n = Ok (acancel a p n i).
  Proof.
    intros Hg Hi. unfold a_cancel_timer, a_do. cbn [legal astep]. rewrite Hg.
    apply pending_iff in Hi. rewrite Hi. reflexivity.
  Qed.

  Lemma a_cancel_proc_eq (a : astore) p :
    a_cancel_proc a p = Ok (acproc a p, filter (fun ie => touches p (snd ie) && is_msg (snd ie)) (alive a)).
  Proof. reflexivity. Qed.

  (* AInv of the results *)
  Lemma ainv_apush_new (a : astore) e : AInv a -> AInv (apush a e (anext a) (anext a + 1)).
  Proof. intros H. apply ainv_snoc; auto; try lia. apply ainv_fresh; auto. Qed.
  Lemma ainv_apush_fixed (a : astore) e i : AInv a -> ~ In i (ids (pend a)) -> i < anext a -> AInv (apush a e i (anext a)).
  Proof. intros H Hi Hlt. apply ainv_snoc; auto; lia. Qed.
  Lemma ainv_apop (a : astore) i : AInv a -> AInv (apop a i).
  Proof. intros H. apply ainv_filter; auto. Qed.
  Lemma ainv_acancel (a : astore) p n i : AInv a -> AInv (acancel a p n i).
  Proof. intros H. apply ainv_filter; auto. Qed.
  Lemma ainv_acproc (a : astore) p : AInv a -> AInv (acproc a p).
  Proof. intros H. apply ainv_filter; auto. Qed.

  Lemma in_apush (a : astore) e i nx j e' :
    In (j, e') (pend (apush a e i nx)) <-> In (j, e') (pend a) \/ (j = i /\ e' = e).
  Proof.
    cbn [apush pend]. rewrite in_app_iff. cbn [In]. split.
    - intros [H|[H|[]]]; auto. inversion H; auto.
    - intros [H|[-> ->]]; auto.
  Qed.

  (* ---- timer bookkeeping of one process ---- *)
  Definition TimOK (a : astore) (p : N) (pt : list (N * N)) : Prop :=
    forall n, shas N.compare n pt = true ->
      exists i d, sget tkey_cmp (p, n) (amap a) = Some i /\ In (i, ETimer p n d) (pend a).

  Lemma TimOK_subset (a : astore) p pt pt' :
    (forall n, shas N.compare n pt' = true -> shas N.compare n pt = true) -> TimOK a p pt -> TimOK a p pt'.
  Proof. intros Hs H n Hn. apply H, Hs, Hn. Qed.

  Lemma TimOK_srem (a : astore) p pt n : TimOK a p pt -> TimOK a p (srem N.compare n pt).
  Proof.
    apply TimOK_subset. intros k Hk. rewrite shas_srem_N in Hk. apply andb_true_iff in Hk. tauto.
  Qed.

  Lemma TimOK_push (a : astore) e i nx q pt : TimOK a q pt -> TimOK (apush a e i nx) q pt.
  Proof.
    intros H n Hn. destruct (H n Hn) as (j & d & Hg & Hi).
    destruct e as [m src dst o|p n' d'].
    - exists j, d. cbn [apush amap]. split; auto. apply in_apush. auto.
    - destruct (is_eq (tkey_cmp (q, n) (p, n'))) eqn:E.
      + apply (is_eq_true _ CmpSpec_tkey) in E. inversion E; subst p n'.
        exists i, d'. cbn [apush amap]. rewrite (sget_sins_eq _ CmpSpec_tkey). split; auto.
        apply in_apush. auto.
      + apply (is_eq_false _ CmpSpec_tkey) in E.
        exists j, d. cbn [apush amap]. rewrite (sget_sins_neq _ CmpSpec_tkey) by congruence. split; auto.
        apply in_apush. auto.
  Qed.

  Lemma TimOK_push_new (a : astore) i nx q pt n d :
    TimOK a q pt -> TimOK (apush a (ETimer q n d) i nx) q (sins N.compare n 0 pt).
  Proof.
    intros H k Hk. rewrite shas_sins_N in Hk. destruct (N.eqb k n) eqn:E; nb.
    - subst k. exists i, d. cbn [apush amap]. rewrite (sget_sins_eq _ CmpSpec_tkey). split; auto.
      apply in_apush. auto.
    - cbn [orb] in Hk. apply (TimOK_push a (ETimer q n d) i nx q pt H k Hk).
  Qed.

  Lemma TimOK_apop (a : astore) i e q pt :
    NoDup (ids (pend a)) -> In (i, e) (pend a) ->
    (forall n d, e = ETimer q n d -> shas N.compare n pt = false) ->
    TimOK a q pt -> TimOK (apop a i) q pt.
  Proof.
    intros Hn Hi He H n Hk. destruct (H n Hk) as (j & d & Hg & Hj).
    exists j, d. cbn [apop amap pend]. split; auto.
    apply in_aremove. split; auto. cbn [fst]. intros ->.
    pose proof (nodup_inj _ _ _ _ Hn Hi Hj) as Heq. specialize (He n d Heq). congruence.
  Qed.

  Lemma TimOK_acancel (a : astore) p n i d q pt :
    NoDup (ids (pend a)) -> In (i, ETimer p n d) (pend a) ->
    (q = p -> shas N.compare n pt = false) ->
    TimOK a q pt -> TimOK (acancel a p n i) q pt.
  Proof.
    intros Hn Hi He H k Hk. destruct (H k Hk) as (j & d' & Hg & Hj).
    assert (Hne : (p, n) <> (q, k)).
    { intros Heq. inversion Heq; subst. rewrite He in Hk; auto. discriminate. }
    exists j, d'. cbn [acancel amap pend]. rewrite (sget_srem_neq _ CmpSpec_tkey) by auto. split; auto.
    apply in_aremove. split; auto. cbn [fst]. intros ->.
    pose proof (nodup_inj _ _ _ _ Hn Hi Hj) as Heq. inversion Heq; subst. apply Hne; auto.
  Qed.

  Lemma TimOK_acproc (a : astore) p q pt : q <> p -> TimOK a q pt -> TimOK (acproc a p) q pt.
  Proof.
    intros Hne H k Hk. destruct (H k Hk) as (j & d & Hg & Hj).
    exists j, d. cbn [acproc amap pend]. split; auto.
    apply filter_In. split; auto. cbn [snd touches]. apply negb_true_iff. apply N.eqb_neq. auto.
  Qed.
End StoreOps.

(* ------------------------------------------------------------------------------------------ *)
(* the invariant                                                                               *)
(* ------------------------------------------------------------------------------------------ *)
Section RefWf.
  Context {T : Type}.
  Variable tgt0 : T -> bool.
  Variable teq0 : T -> bool.
  Variable t0 : T.
  Variable clock : N -> T -> T.
  Context {PS : Type}.
  Variable handler : N -> PS -> input -> T -> (nat -> T) -> PS * list (action T).
  Variable DS : Type.
  Variable mc_rand : DS -> nat -> T.
  Variable ds_of : @mcstate T (astore T) PS -> DS.
  Variable tleb : T -> T -> bool.
  Variable sevent_eqb : (T -> T -> bool) -> sevent T -> sevent T -> bool.
  (* the only assumption on the user processes: messages are only sent to a fixed set of process names *)
  Variable known : list N.
  Hypothesis handler_closed : forall proc st inp time rand m dst,
    In (ASend m dst) (snd (handler proc st inp time rand)) -> In dst known.

  Notation so := (abstract_ops tleb sevent_eqb).
  Notation sys := (@mcsys T (astore T) PS).
  Notation node := (@mcnode T PS).
  Notation netT := (@mcnet T).
  Notation nodesT := (list (N * node)).

  (* process p is placed on an existing node that is not crashed *)
  Definition LiveP (nodes : nodesT) (net : netT) (p : N) : Prop :=
    exists nn nd, sget N.compare p (n_loc net) = Some nn /\ sget N.compare nn nodes = Some nd /\
                  nd_crashed nd = false.

  (* clause 1: sortedness, location map = actual placement, known names are located *)
  Definition Place (nodes : nodesT) (net : netT) : Prop :=
    ssorted N.compare nodes /\
    (forall nn nd, sget N.compare nn nodes = Some nd -> ssorted N.compare (nd_procs nd)) /\
    ssorted N.compare (n_loc net) /\
    (forall p nn, sget N.compare p (n_loc net) = Some nn <->
                  exists nd, sget N.compare nn nodes = Some nd /\ shas N.compare p (nd_procs nd) = true) /\
    (forall p, In p known -> shas N.compare p (n_loc net) = true).

  (* clause 3: pending events *)
  Definition EvWf (nodes : nodesT) (net : netT) (e : sevent T) : Prop :=
    match e with
    | EMsg _ src dst _ => shas N.compare src (n_loc net) = true /\ LiveP nodes net dst
    | ETimer p _ _ => LiveP nodes net p
    end.
  Definition EvOK (nodes : nodesT) (net : netT) (a : astore T) : Prop :=
    forall i e, In (i, e) (pend a) -> EvWf nodes net e.

  (* clause 4: a crashed node is disconnected *)
  Definition Disc (nodes : nodesT) (net : netT) : Prop :=
    forall nn nd, sget N.compare nn nodes = Some nd -> nd_crashed nd = true ->
                  nmem nn (n_drop_in net) = true /\ nmem nn (n_drop_out net) = true.

  (* clause 5: timer bookkeeping of the processes of non-crashed nodes *)
  Definition Tim (nodes : nodesT) (a : astore T) : Prop :=
    forall nn nd p pe, sget N.compare nn nodes = Some nd -> nd_crashed nd = false ->
                       sget N.compare p (nd_procs nd) = Some pe -> TimOK a p (pe_ptimers pe).

  Definition AWfC (nodes : nodesT) (net : netT) (a : astore T) : Prop :=
    Place nodes net /\ AInv a /\ EvOK nodes net a /\ Disc nodes net /\ Tim nodes a.
  Definition AWf (A : sys) : Prop := AWfC (s_nodes A) (s_net A) (s_events A).

  (* ---- placement facts ---- *)
  Lemma place_unique nodes net n1 nd1 n2 nd2 p :
    Place nodes net ->
    sget N.compare n1 nodes = Some nd1 -> shas N.compare p (nd_procs nd1) = true ->
    sget N.compare n2 nodes = Some nd2 -> shas N.compare p (nd_procs nd2) = true -> n1 = n2.
  Proof.
    intros (_ & _ & _ & Hl & _) H1 P1 H2 P2.
    assert (A : sget N.compare p (n_loc net) = Some n1) by (apply Hl; eauto).
    assert (B : sget N.compare p (n_loc net) = Some n2) by (apply Hl; eauto).
    congruence.
  Qed.

  Lemma place_loc_node nodes net p nn :
    Place nodes net -> sget N.compare p (n_loc net) = Some nn ->
    exists nd pe, sget N.compare nn nodes = Some nd /\ sget N.compare p (nd_procs nd) = Some pe.
  Proof.
    intros (_ & _ & _ & Hl & _) H. apply Hl in H. destruct H as (nd & H1 & H2).
    apply shas_sget in H2. destruct H2 as [pe H2]. eauto.
  Qed.

  Lemma place_known nodes net p : Place nodes net -> In p known -> exists nn, sget N.compare p (n_loc net) = Some nn.
  Proof. intros (_ & _ & _ & _ & Hk) H. apply shas_sget. auto. Qed.

  Lemma Place_upd nodes net nn nd nd' :
    Place nodes net -> sget N.compare nn nodes = Some nd ->
    (forall p, shas N.compare p (nd_procs nd') = shas N.compare p (nd_procs nd)) ->
    ssorted N.compare (nd_procs nd') ->
    Place (sins N.compare nn nd' nodes) net.
  Proof.
    intros (H1 & H2 & H3 & H4 & H5) Hg Hs Hso. split; [|split; [|split; [|split]]]; auto.
    - apply ssorted_sins; auto. apply CmpSpec_N.
    - intros n x. rewrite sget_sins_N. destruct (N.eqb n nn) eqn:E; nb.
      + intros Hx; inversion Hx; subst; auto.
      + apply H2.
    - intros p n. rewrite H4. split.
      + intros (x & Hx & Hp). rewrite sget_sins_N. destruct (N.eqb n nn) eqn:E; nb.
        * subst n. exists nd'. split; auto. rewrite Hs. congruence.
        * eauto.
      + intros (x & Hx & Hp). rewrite sget_sins_N in Hx. destruct (N.eqb n nn) eqn:E; nb.
        * subst n. inversion Hx; subst x. exists nd. split; auto. rewrite <- Hs. auto.
        * eauto.
  Qed.

  Lemma LiveP_upd nodes net nn nd nd' p :
    sget N.compare nn nodes = Some nd -> nd_crashed nd' = nd_crashed nd ->
    LiveP nodes net p -> LiveP (sins N.compare nn nd' nodes) net p.
  Proof.
    intros Hg Hc (n & x & H1 & H2 & H3). exists n. rewrite sget_sins_N.
    destruct (N.eqb n nn) eqn:E; nb.
    - subst n. exists nd'. split; auto. split; auto. congruence.
    - exists x. auto.
  Qed.

  Lemma LiveP_upd_other nodes net nn nd' p :
    sget N.compare p (n_loc net) <> Some nn ->
    LiveP nodes net p -> LiveP (sins N.compare nn nd' nodes) net p.
  Proof.
    intros Hne (n & x & H1 & H2 & H3). exists n, x. rewrite sget_sins_N.
    destruct (N.eqb n nn) eqn:E; nb; auto. subst. contradiction.
  Qed.

  Lemma EvWf_upd nodes net nn nd nd' e :
    sget N.compare nn nodes = Some nd -> nd_crashed nd' = nd_crashed nd ->
    EvWf nodes net e -> EvWf (sins N.compare nn nd' nodes) net e.
  Proof.
    intros Hg Hc. destruct e as [m src dst o|p n d]; cbn [EvWf].
    - intros [H1 H2]. split; auto. eapply LiveP_upd; eauto.
    - apply LiveP_upd with (nd := nd); auto.
  Qed.

  Lemma Disc_upd nodes net nn nd nd' :
    sget N.compare nn nodes = Some nd -> nd_crashed nd' = nd_crashed nd ->
    Disc nodes net -> Disc (sins N.compare nn nd' nodes) net.
  Proof.
    intros Hg Hc H n x. rewrite sget_sins_N. destruct (N.eqb n nn) eqn:E; nb.
    - subst n. intros Hx Hcr. inversion Hx; subst x. apply (H nn nd); auto. congruence.
    - apply H.
  Qed.

  (* ---- net_send ---- *)
  (* a pending event created on behalf of process proc *)
  Definition NewOK (net : netT) (proc : N) (e : sevent T) : Prop :=
    match e with
    | ETimer p _ _ => p = proc
    | EMsg _ src dst _ =>
      src = proc /\ exists sn dn, sget N.compare src (n_loc net) = Some sn /\ sget N.compare dst (n_loc net) = Some dn /\
                                  (sn = dn \/ (nmem sn (n_drop_out net) = false /\ nmem dn (n_drop_in net) = false))
    end.

  Lemma net_send_ok (net : netT) m src dst sn dn :
    sget N.compare src (n_loc net) = Some sn -> sget N.compare dst (n_loc net) = Some dn ->
    exists x, net_send tgt0 teq0 net m src dst = Ok x /\
              match x with
              | SEvent e => NewOK net src e /\ exists o, e = EMsg m src dst o
              | SDropped m' src' dst' => m' = m /\ src' = src /\ dst' = dst /\ sn <> dn
              end.
  Proof.
    intros Hs Hd. unfold net_send. rewrite Hs, Hd.
    destruct (N.eqb sn dn) eqn:E; nb.
    - eexists. split; [reflexivity|]. cbn [NewOK]. split; eauto. split; auto. exists sn, dn. auto.
    - destruct (negb (nmem sn (n_drop_out net))) eqn:E1; cbn [andb].
      + destruct (negb (nmem dn (n_drop_in net))) eqn:E2; cbn [andb].
        * destruct (negb (existsb (pair_eqb (sn, dn)) (n_links net))) eqn:E3.
          -- eexists. split; [reflexivity|]. cbn [NewOK]. split; eauto. split; auto. exists sn, dn.
             apply negb_true_iff in E1, E2. split; [|split]; auto.
          -- exists (SDropped m src dst). split; [reflexivity|]. repeat split; auto.
        * exists (SDropped m src dst). split; [reflexivity|]. repeat split; auto.
      + exists (SDropped m src dst). split; [reflexivity|]. repeat split; auto.
  Qed.

  (* C14, network part: a message from or to a disconnected node (other than node-local) is dropped *)
  Lemma net_send_dropped (net : netT) m src dst sn dn :
    sget N.compare src (n_loc net) = Some sn -> sget N.compare dst (n_loc net) = Some dn -> sn <> dn ->
    nmem sn (n_drop_out net) = true \/ nmem dn (n_drop_in net) = true ->
    net_send tgt0 teq0 net m src dst = Ok (SDropped m src dst).
  Proof.
    intros Hs Hd Hne H. unfold net_send. rewrite Hs, Hd.
    apply N.eqb_neq in Hne. rewrite Hne. destruct H as [H|H]; rewrite H; cbn [negb andb]; auto.
    destruct (negb (nmem sn (n_drop_out net))); reflexivity.
  Qed.

  Lemma NewOK_EvWf nodes net proc e :
    Place nodes net -> Disc nodes net -> LiveP nodes net proc -> NewOK net proc e -> EvWf nodes net e.
  Proof.
    intros HP HD HL. destruct e as [m src dst o|p n d]; cbn [NewOK EvWf].
    - intros (-> & sn & dn & Hs & Hd & Hc). split.
      + apply shas_sget. eauto.
      + destruct Hc as [->|[_ Hc]].
        * destruct HL as (n & x & H1 & H2 & H3). exists n, x. split; auto. congruence.
        * destruct (place_loc_node _ _ _ _ HP Hd) as (nd & pe & Hn & _).
          exists dn, nd. split; auto. split; auto.
          destruct (nd_crashed nd) eqn:Hcr; auto.
          destruct (HD dn nd Hn Hcr) as [H _]. congruence.
    - intros ->. auto.
  Qed.

  (* ------------------------------------------------------------------------------------------ *)
  (* add_events, in lock-step with the actions of one handler invocation                         *)
  (* ------------------------------------------------------------------------------------------ *)
  (* the invariant while the events of process proc are being added: proc's own timer bookkeeping is
     measured against pt, the pending_timers after the actions processed so far *)
  Definition SInv (nodes : nodesT) (net : netT) (proc : N) (pt : list (N * N)) (a : astore T) : Prop :=
    AInv a /\ EvOK nodes net a /\
    (forall nn nd q pe, sget N.compare nn nodes = Some nd -> nd_crashed nd = false ->
                        sget N.compare q (nd_procs nd) = Some pe -> q <> proc -> TimOK a q (pe_ptimers pe)) /\
    TimOK a proc pt.

  Definition FrameE (s s1 : sys) : Prop :=
    s_nodes s1 = s_nodes s /\ s_net s1 = s_net s /\ s_depth s1 = s_depth s /\ s_mf s1 = s_mf s.
  Definition NewEvs (net : netT) (proc : N) (a a1 : astore T) : Prop :=
    forall i e, In (i, e) (pend a1) -> In (i, e) (pend a) \/ NewOK net proc e.

  Lemma FrameE_refl s : FrameE s s.
  Proof. repeat split. Qed.
  Lemma NewEvs_refl net proc a : NewEvs net proc a a.
  Proof. intros i e H. auto. Qed.

  Lemma add_events_app (s : sys) e1 e2 :
    add_events so tgt0 teq0 s (e1 ++ e2) = do s1 <- add_events so tgt0 teq0 s e1; add_events so tgt0 teq0 s1 e2.
  Proof.
    revert s. induction e1 as [|e r IH]; intros s; cbn [app add_events].
    - reflexivity.
    - match goal with |- bind ?X _ = _ => destruct X as [s1|t] end; cbn [bind]; auto.
  Qed.

  Lemma SInv_push nodes net proc pt pt' (a : astore T) e :
    Place nodes net -> Disc nodes net -> LiveP nodes net proc ->
    SInv nodes net proc pt a -> NewOK net proc e ->
    TimOK (apush a e (anext a) (anext a + 1)) proc pt' ->
    SInv nodes net proc pt' (apush a e (anext a) (anext a + 1)) /\
    NewEvs net proc a (apush a e (anext a) (anext a + 1)).
  Proof.
    intros HP HD HL (H1 & H2 & H3 & H4) Hnew Ht. split; [split; [|split; [|split]]|]; auto.
    - apply ainv_apush_new; auto.
    - intros i e' Hi. apply in_apush in Hi. destruct Hi as [Hi|[_ ->]].
      + eapply H2; eauto.
      + eapply NewOK_EvWf; eauto.
    - intros nn nd q pe Hn Hc Hq Hne. apply TimOK_push. eapply H3; eauto.
    - intros i e' Hi. apply in_apush in Hi. destruct Hi as [Hi|[_ ->]]; auto.
  Qed.

  Lemma action_step (s : sys) proc time (p : pentry T PS) a p1 e1 l1 :
    node_action proc time p a = (p1, e1, l1) ->
    (forall m dst, a = ASend m dst -> In dst known) ->
    Place (s_nodes s) (s_net s) -> Disc (s_nodes s) (s_net s) -> LiveP (s_nodes s) (s_net s) proc ->
    SInv (s_nodes s) (s_net s) proc (pe_ptimers p) (s_events s) ->
    exists s1, add_events so tgt0 teq0 s e1 = Ok s1 /\ FrameE s s1 /\
               SInv (s_nodes s) (s_net s) proc (pe_ptimers p1) (s_events s1) /\
               NewEvs (s_net s) proc (s_events s) (s_events s1).
  Proof.
    intros Hact Hcl HP HD HL HS.
    destruct a as [m dst|m|name delay once|name]; cbn [node_action] in Hact.
    - (* ASend *)
      inversion Hact; subst p1 e1 l1; clear Hact. cbn [pe_with pe_ptimers].
      destruct HL as (sn & snd_ & Hls & Hns & Hcs).
      destruct (place_known _ _ dst HP (Hcl m dst eq_refl)) as [dn Hld].
      destruct (net_send_ok (s_net s) m proc dst sn dn Hls Hld) as (x & Hx & Hxs).
      cbn [add_events]. rewrite Hx. cbn [bind]. destruct x as [e|m' src' dst'].
      + destruct Hxs as [Hnew _]. cbn [so_push abstract_ops]. rewrite a_push_eq. cbn [bind].
        eexists. split; [reflexivity|]. cbn [sys_with s_nodes s_net s_events s_depth s_mf].
        split; [repeat split|].
        assert (HL : LiveP (s_nodes s) (s_net s) proc) by (exists sn, snd_; auto).
        apply (SInv_push _ _ _ (pe_ptimers p)); auto.
        apply TimOK_push. apply HS.
      + cbn [bind]. eexists. split; [reflexivity|]. cbn [sys_with s_nodes s_net s_events s_depth s_mf].
        split; [repeat split|]. split; auto. apply NewEvs_refl.
    - (* ALocal *)
      inversion Hact; subst p1 e1 l1; clear Hact. cbn [pe_with pe_ptimers add_events].
      exists s. split; auto. split; [apply FrameE_refl|]. split; auto. apply NewEvs_refl.
    - (* ATimerSet *)
      destruct (negb once || negb (shas N.compare name (pe_ptimers p))).
      + inversion Hact; subst p1 e1 l1; clear Hact. cbn [pe_with pe_ptimers add_events].
        cbn [so_push abstract_ops]. rewrite a_push_eq. cbn [bind].
        eexists. split; [reflexivity|]. cbn [sys_with s_nodes s_net s_events s_depth s_mf].
        split; [repeat split|].
        apply (SInv_push _ _ _ (pe_ptimers p)); auto.
        * cbn [NewOK]. reflexivity.
        * apply TimOK_push_new. apply HS.
      + inversion Hact; subst p1 e1 l1; clear Hact. cbn [pe_with pe_ptimers add_events].
        exists s. split; auto. split; [apply FrameE_refl|]. split; auto. apply NewEvs_refl.
    - (* ATimerCancel *)
      destruct (shas N.compare name (pe_ptimers p)) eqn:Hhas.
      + inversion Hact; subst p1 e1 l1; clear Hact. cbn [pe_with pe_ptimers add_events].
        destruct HS as (H1 & H2 & H3 & H4).
        destruct (H4 name Hhas) as (i & d & Hg & Hi).
        cbn [so_cancel_timer abstract_ops]. rewrite (a_cancel_timer_eq _ _ _ i Hg) by (apply in_ids; eauto).
        cbn [bind]. eexists. split; [reflexivity|]. cbn [sys_with s_nodes s_net s_events s_depth s_mf].
        split; [repeat split|]. split; [split; [|split; [|split]]|].
        * apply ainv_acancel; auto.
        * intros j e Hj. cbn [acancel pend] in Hj. apply in_aremove in Hj. eapply H2. apply Hj.
        * intros nn nd q pe Hn Hc Hq Hne. eapply TimOK_acancel; eauto.
          -- apply H1.
          -- intros; congruence.
        * eapply TimOK_acancel; eauto.
          -- apply H1.
          -- intros _. rewrite shas_srem_N, N.eqb_refl. reflexivity.
          -- apply TimOK_srem. auto.
        * intros j e Hj. cbn [acancel pend] in Hj. apply in_aremove in Hj. left. apply Hj.
      + inversion Hact; subst p1 e1 l1; clear Hact. cbn [pe_with pe_ptimers add_events].
        exists s. split; auto. split; [apply FrameE_refl|]. split; auto. apply NewEvs_refl.
  Qed.

  Lemma actions_step acts : forall (s : sys) proc time (p : pentry T PS) p' evs logs,
    node_actions proc time p acts = (p', evs, logs) ->
    (forall m dst, In (ASend m dst) acts -> In dst known) ->
    Place (s_nodes s) (s_net s) -> Disc (s_nodes s) (s_net s) -> LiveP (s_nodes s) (s_net s) proc ->
    SInv (s_nodes s) (s_net s) proc (pe_ptimers p) (s_events s) ->
    exists s1, add_events so tgt0 teq0 s evs = Ok s1 /\ FrameE s s1 /\
               SInv (s_nodes s) (s_net s) proc (pe_ptimers p') (s_events s1) /\
               NewEvs (s_net s) proc (s_events s) (s_events s1).
  Proof.
    induction acts as [|a r IH]; intros s proc time p p' evs logs Hact Hcl HP HD HL HS; cbn [node_actions] in Hact.
    - inversion Hact; subst. exists s. cbn [add_events]. split; auto. split; [apply FrameE_refl|].
      split; auto. apply NewEvs_refl.
    - destruct (node_action proc time p a) as [[p1 e1] l1] eqn:Ha.
      destruct (node_actions proc time p1 r) as [[p2 e2] l2] eqn:Hr.
      inversion Hact; subst p' evs logs; clear Hact.
      destruct (action_step s proc time p a p1 e1 l1 Ha) as (s1 & Hs1 & (Fn & Fe & Fd & Fm) & HS1 & HN1); auto.
      { intros m dst ->. apply (Hcl m dst). left; auto. }
      rewrite <- Fn, <- Fe in HP, HD, HL, HS1.
      destruct (IH s1 proc time p1 p2 e2 l2 Hr) as (s2 & Hs2 & (Gn & Ge & Gd & Gm) & HS2 & HN2); auto.
      { intros m dst Hi. apply (Hcl m dst). right; auto. }
      exists s2. rewrite add_events_app, Hs1. cbn [bind]. split; auto.
      split; [repeat split; congruence|]. rewrite Fn, Fe in HS2. split; auto.
      intros i e Hi. apply HN2 in Hi. rewrite Fe in Hi. destruct Hi as [Hi|Hi]; auto.
  Qed.

  (* ---- node_handle ---- *)
  Definition pt_after (k : hkind) (pt : list (N * N)) : list (N * N) :=
    match k with HTimer name => srem N.compare name pt | _ => pt end.

  Lemma node_handle_ok (nd : node) proc k depth ds pe :
    nd_crashed nd = false -> sget N.compare proc (nd_procs nd) = Some pe ->
    exists p2 p3 acts atime evs logs,
      node_handle t0 clock handler DS mc_rand nd proc k depth ds
      = Ok (nd_with_procs nd (sins N.compare proc p3 (nd_procs nd)), evs, logs) /\
      node_actions proc atime p2 acts = (p3, evs, logs) /\
      pe_ptimers p2 = pt_after k (pe_ptimers pe) /\
      (forall m dst, In (ASend m dst) acts -> In dst known).
  Proof.
    intros Hc Hg. unfold node_handle. rewrite Hc, Hg.
    match goal with |- context [handler ?a ?b ?c ?d ?e] => destruct (handler a b c d e) as [st' acts] eqn:Hh end.
    match goal with |- context [node_actions ?a ?b ?c ?d] =>
      destruct (node_actions a b c d) as [[p3 evs] logs] eqn:Hn end.
    eexists _, p3, acts, _, evs, logs. split; [reflexivity|]. split; [exact Hn|]. split.
    - destruct k; reflexivity.
    - intros m dst Hi. eapply handler_closed. rewrite Hh. exact Hi.
  Qed.

  (* what a handler invocation of process proc changes *)
  Definition HFrame (s s' : sys) (proc : N) : Prop :=
    exists nn nd pe p3,
      sget N.compare proc (n_loc (s_net s)) = Some nn /\ sget N.compare nn (s_nodes s) = Some nd /\
      nd_crashed nd = false /\ sget N.compare proc (nd_procs nd) = Some pe /\
      s_nodes s' = sins N.compare nn (nd_with_procs nd (sins N.compare proc p3 (nd_procs nd))) (s_nodes s) /\
      s_net s' = s_net s /\ s_mf s' = s_mf s /\ NewEvs (s_net s) proc (s_events s) (s_events s').

  Lemma shas_sins_present {V} proc (v : V) procs q :
    shas N.compare proc procs = true ->
    shas N.compare q (sins N.compare proc v procs) = shas N.compare q procs.
  Proof.
    intros H. rewrite shas_sins_N. destruct (N.eqb q proc) eqn:E; nb; auto. subst. auto.
  Qed.

  Lemma handle_add_ok (s : sys) nn nd proc pe k depth ds :
    Place (s_nodes s) (s_net s) -> Disc (s_nodes s) (s_net s) ->
    sget N.compare proc (n_loc (s_net s)) = Some nn -> sget N.compare nn (s_nodes s) = Some nd ->
    nd_crashed nd = false -> sget N.compare proc (nd_procs nd) = Some pe ->
    SInv (s_nodes s) (s_net s) proc (pt_after k (pe_ptimers pe)) (s_events s) ->
    exists nd' evs logs,
      node_handle t0 clock handler DS mc_rand nd proc k depth ds = Ok (nd', evs, logs) /\
      forall dep tr, exists s',
        add_events so tgt0 teq0 (sys_with s (sins N.compare nn nd' (s_nodes s)) (s_net s) (s_events s) dep tr) evs
        = Ok s' /\ AWf s' /\ HFrame s s' proc.
  Proof.
    intros HP HD Hloc Hnd Hcr Hpe (S1 & S2 & S3 & S4).
    destruct (node_handle_ok nd proc k depth ds pe Hcr Hpe) as (p2 & p3 & acts & atime & evs & logs & Hh & Hna & Hpt & Hcl).
    eexists _, evs, logs. split; [exact Hh|]. intros dep tr.
    set (nd' := nd_with_procs nd (sins N.compare proc p3 (nd_procs nd))).
    set (nodes2 := sins N.compare nn nd' (s_nodes s)).
    set (s2 := sys_with s nodes2 (s_net s) (s_events s) dep tr).
    assert (Hhas : shas N.compare proc (nd_procs nd) = true) by (apply shas_sget; eauto).
    assert (HP2 : Place nodes2 (s_net s)).
    { apply Place_upd with (nd := nd); auto.
      - intros q. cbn [nd' nd_with_procs nd_procs]. apply shas_sins_present; auto.
      - cbn [nd' nd_with_procs nd_procs]. apply ssorted_sins; [apply CmpSpec_N|].
        destruct HP as (_ & H & _). eapply H; eauto. }
    assert (HD2 : Disc nodes2 (s_net s)) by (apply Disc_upd with (nd := nd); auto).
    assert (Hg2 : sget N.compare nn nodes2 = Some nd').
    { unfold nodes2. rewrite sget_sins_N, N.eqb_refl. reflexivity. }
    assert (HL2 : LiveP nodes2 (s_net s) proc) by (exists nn, nd'; auto).
    assert (HS2 : SInv nodes2 (s_net s) proc (pe_ptimers p2) (s_events s)).
    { split; [|split; [|split]]; auto.
      - intros i e Hi. apply EvWf_upd with (nd := nd); auto. eapply S2; eauto.
      - intros n x q pe' Hn Hc Hq Hne. unfold nodes2 in Hn. rewrite sget_sins_N in Hn.
        destruct (N.eqb n nn) eqn:E; nb.
        + inversion Hn; subst x. cbn [nd' nd_with_procs nd_procs] in Hq.
          rewrite sget_sins_N in Hq. destruct (N.eqb q proc) eqn:E2; nb; [contradiction|].
          eapply S3; eauto.
        + eapply S3; eauto.
      - rewrite Hpt. auto. }
    destruct (actions_step acts s2 proc atime p2 p3 evs logs Hna Hcl HP2 HD2 HL2 HS2)
      as (s1 & Hs1 & (Fn & Fe & Fd & Fm) & (A1 & A2 & A3 & A4) & HN1).
    cbn [s2 sys_with s_nodes s_net s_events s_depth s_mf] in *.
    exists s1. split; [exact Hs1|]. split.
    - unfold AWf, AWfC. rewrite Fn, Fe. split; [|split; [|split; [|split]]]; auto.
      intros n x q pe' Hn Hc Hq.
      destruct (N.eqb q proc) eqn:E; nb.
      + subst q.
        assert (n = nn).
        { eapply (place_unique nodes2 (s_net s) n x nn nd' proc); eauto.
          - apply shas_sget; eauto.
          - cbn [nd' nd_with_procs nd_procs]. rewrite shas_sins_N, N.eqb_refl. reflexivity. }
        subst n. rewrite Hg2 in Hn. inversion Hn; subst x.
        cbn [nd' nd_with_procs nd_procs] in Hq. rewrite sget_sins_N, N.eqb_refl in Hq.
        inversion Hq; subst pe'. auto.
      + eapply A3; eauto.
    - exists nn, nd, pe, p3. repeat split; auto.
  Qed.

  (* ---- the invariant after popping the event that is about to be delivered to proc ---- *)
  Lemma SInv_apop nodes net (a : astore T) i e proc nn nd pe pt' :
    AWfC nodes net a -> In (i, e) (pend a) ->
    sget N.compare nn nodes = Some nd -> nd_crashed nd = false -> sget N.compare proc (nd_procs nd) = Some pe ->
    (forall q n d, e = ETimer q n d -> q = proc /\ shas N.compare n pt' = false) ->
    (forall n, shas N.compare n pt' = true -> shas N.compare n (pe_ptimers pe) = true) ->
    SInv nodes net proc pt' (apop a i).
  Proof.
    intros (HP & HA & HE & HD & HT) Hi Hn Hc Hp He Hsub. split; [|split; [|split]].
    - apply ainv_apop; auto.
    - intros j e' Hj. cbn [apop pend] in Hj. apply in_aremove in Hj. eapply HE. apply Hj.
    - intros n x q pe' Hx Hcx Hq Hne. apply (TimOK_apop a i e q _ (proj1 HA) Hi).
      + intros k d Heq. destruct (He _ _ _ Heq). contradiction.
      + eapply HT; eauto.
    - apply (TimOK_apop a i e proc _ (proj1 HA) Hi).
      + intros k d Heq. destruct (He _ _ _ Heq). auto.
      + apply (TimOK_subset a proc (pe_ptimers pe) pt' Hsub). eapply HT; eauto.
  Qed.

  Lemma deliver_ok (s : sys) proc k nn nd pe :
    Place (s_nodes s) (s_net s) -> Disc (s_nodes s) (s_net s) ->
    sget N.compare proc (n_loc (s_net s)) = Some nn -> sget N.compare nn (s_nodes s) = Some nd ->
    nd_crashed nd = false -> sget N.compare proc (nd_procs nd) = Some pe ->
    SInv (s_nodes s) (s_net s) proc (pt_after k (pe_ptimers pe)) (s_events s) ->
    exists s', deliver so tgt0 teq0 t0 clock handler DS mc_rand ds_of s proc k = Ok s' /\ AWf s' /\ HFrame s s' proc.
  Proof.
    intros HP HD Hloc Hnd Hcr Hpe HS. unfold deliver. rewrite Hloc, Hnd.
    destruct (handle_add_ok s nn nd proc pe k (s_depth s) (ds_of (get_state s)) HP HD Hloc Hnd Hcr Hpe HS)
      as (nd' & evs & logs & Hh & Hadd).
    rewrite Hh. cbn [bind]. apply Hadd.
  Qed.

  (* ---- shape: node names, process names, clock skews ---- *)
  Definition Shape (nodes nodes' : nodesT) : Prop :=
    forall nn, match sget N.compare nn nodes, sget N.compare nn nodes' with
               | Some nd, Some nd' => nd_skew nd' = nd_skew nd /\
                                      forall p, shas N.compare p (nd_procs nd') = shas N.compare p (nd_procs nd)
               | None, None => True
               | _, _ => False
               end.

  Lemma Shape_refl nodes : Shape nodes nodes.
  Proof. intros nn. destruct (sget N.compare nn nodes); auto. Qed.

  Lemma Shape_upd nodes nn nd nd' :
    sget N.compare nn nodes = Some nd -> nd_skew nd' = nd_skew nd ->
    (forall p, shas N.compare p (nd_procs nd') = shas N.compare p (nd_procs nd)) ->
    Shape nodes (sins N.compare nn nd' nodes).
  Proof.
    intros Hg Hs Hp n. rewrite sget_sins_N. destruct (N.eqb n nn) eqn:E; nb.
    - subst n. rewrite Hg. auto.
    - destruct (sget N.compare n nodes); auto.
  Qed.

  Lemma HFrame_Shape s s' proc : HFrame s s' proc -> Shape (s_nodes s) (s_nodes s').
  Proof.
    intros (nn & nd & pe & p3 & H1 & H2 & H3 & H4 & H5 & _). rewrite H5.
    apply Shape_upd with (nd := nd); auto.
    intros p. cbn [nd_with_procs nd_procs]. apply shas_sins_present. apply shas_sget. eauto.
  Qed.

  (* ---- crash silence (C14) ---- *)
  Definition SilentC (n : N) (nodes : nodesT) (net : netT) (a : astore T) : Prop :=
    (exists nd, sget N.compare n nodes = Some nd /\ nd_crashed nd = true) /\
    (forall i e p, In (i, e) (pend a) -> sget N.compare p (n_loc net) = Some n -> touches p e = false) /\
    nmem n (n_drop_in net) = true /\ nmem n (n_drop_out net) = true.
  Definition Silent (n : N) (A : sys) : Prop := SilentC n (s_nodes A) (s_net A) (s_events A).

  Lemma NewOK_untouched nodes net n proc e p :
    LiveP nodes net proc -> (exists nd, sget N.compare n nodes = Some nd /\ nd_crashed nd = true) ->
    nmem n (n_drop_in net) = true ->
    NewOK net proc e -> sget N.compare p (n_loc net) = Some n -> touches p e = false.
  Proof.
    intros (nn & nd & L1 & L2 & L3) (ndn & C1 & C2) Hdi Hnew Hp.
    assert (Hpp : proc <> p).
    { intros ->. rewrite Hp in L1. inversion L1; subst nn. congruence. }
    destruct e as [m src dst o|q k d]; cbn [NewOK touches] in *.
    - destruct Hnew as (-> & sn & dn & Hs & Hd & Hc). apply orb_false_iff. split.
      + apply N.eqb_neq. auto.
      + apply N.eqb_neq. intros ->. rewrite Hp in Hd. inversion Hd; subst dn.
        destruct Hc as [->|[_ Hc]]; [|congruence].
        rewrite Hs in L1. inversion L1; subst nn. congruence.
    - subst q. apply N.eqb_neq. auto.
  Qed.

  Lemma HFrame_Silent s s' proc n :
    HFrame s s' proc -> Silent n s -> Silent n s' /\ sget N.compare n (s_nodes s') = sget N.compare n (s_nodes s).
  Proof.
    intros (nn & nd & pe & p3 & H1 & H2 & H3 & H4 & H5 & H6 & H7 & H8) ((ndn & C1 & C2) & S2 & S3 & S4).
    assert (Hne : n <> nn) by (intros ->; congruence).
    assert (Hg : sget N.compare n (s_nodes s') = sget N.compare n (s_nodes s)).
    { rewrite H5, sget_sins_N. apply N.eqb_neq in Hne. rewrite Hne. reflexivity. }
    split; auto. unfold Silent, SilentC. rewrite Hg, H6. split; [eauto|]. split; auto.
    intros i e p Hi Hp. apply H8 in Hi. destruct Hi as [Hi|Hi].
    - eapply S2; eauto.
    - eapply (NewOK_untouched (s_nodes s)); eauto. exists nn, nd. auto.
  Qed.

  (* ---- enabled choices ---- *)
  Definition Enabled (A : sys) (c : choice) : Prop :=
    exists ids i cs, available so A = Ok ids /\ In i ids /\ alternatives so A i = Ok cs /\ In c cs.

  Definition choice_id (c : choice) : id :=
    match c with ChDeliver i | ChDrop i | ChCorrupt i | ChDup i => i end.

  Lemma aoffered_pending (a : astore T) mf i : In i (aoffered tleb a mf) -> exists e, In (i, e) (pend a).
  Proof.
    intros H. assert (Hs : In i (aoffered_set tleb a)).
    { unfold aoffered in H. destruct mf; auto.
      match type of H with context [filter ?f ?l] => destruct (filter f l) eqn:E end; auto.
      rewrite <- E in H. apply filter_In in H. apply H. }
    apply offered_exact_gen in Hs. destruct Hs as (e & pre & post & Hp & _).
    exists e. rewrite Hp. apply in_app_iff. right. left. reflexivity.
  Qed.

  Lemma enabled_inv (A : sys) c :
    AInv (s_events A) -> Enabled A c ->
    exists e, In (choice_id c, e) (pend (s_events A)) /\ lookup (pend (s_events A)) (choice_id c) = Some e /\
              match c with
              | ChDeliver _ => True
              | ChDup _ => exists m src dst d k cc, e = EMsg m src dst (Possible d k cc) /\ k <> 0
              | _ => exists m src dst o, e = EMsg m src dst o
              end.
  Proof.
    intros HA (ids & i & cs & Hav & Hi & Halt & Hc).
    unfold available in Hav. cbn [so_offered abstract_ops] in Hav. inversion Hav; subst ids; clear Hav.
    destruct (aoffered_pending _ _ _ Hi) as [e He].
    assert (Hl : lookup (pend (s_events A)) i = Some e) by (apply in_lookup; auto; apply HA).
    unfold alternatives in Halt. cbn [so_get abstract_ops] in Halt. rewrite aget_lookup, Hl in Halt.
    assert (Hcs : In c [ChDeliver i] \/
                  exists m src dst d k cc, e = EMsg m src dst (Possible d k cc) /\
                    (c = ChDrop i \/ c = ChCorrupt i \/ (c = ChDup i /\ k <> 0))).
    { destruct e as [m src dst [md|d k cc]|p n dl]; inversion Halt; subst cs; auto.
      destruct Hc as [Hc|Hc]; [left; left; auto|]. right. exists m, src, dst, d, k, cc. split; auto.
      apply in_app_iff in Hc. destruct Hc as [Hc|Hc].
      { destruct d; [|contradiction]. destruct Hc as [<-|[]]. auto. }
      apply in_app_iff in Hc. destruct Hc as [Hc|Hc].
      { destruct cc; [|contradiction]. destruct Hc as [<-|[]]. auto. }
      destruct (N.ltb 0 k) eqn:Ek; [|contradiction]. destruct Hc as [<-|[]].
      apply N.ltb_lt in Ek. right; right. split; auto. lia. }
    destruct Hcs as [[<-|[]]|(m & src & dst & d & k & cc & -> & [->|[->|[-> Hk]]])]; cbn [choice_id];
      (eexists; split; [eassumption|]; split; [eassumption|]; eauto 10).
  Qed.

  (* ---- store updates that keep the invariant ---- *)
  Lemma AWfC_apush nodes net (a : astore T) e j nx :
    AWfC nodes net a -> EvWf nodes net e -> ~ In j (ids (pend a)) -> j < nx -> anext a <= nx ->
    AWfC nodes net (apush a e j nx).
  Proof.
    intros (HP & HA & HE & HD & HT) He Hj Hlt Hle. split; [|split; [|split; [|split]]]; auto.
    - unfold apush. apply ainv_snoc; auto.
    - intros i e' Hi. apply in_apush in Hi. destruct Hi as [Hi|[_ ->]]; auto. eapply HE; eauto.
    - intros nn nd p pe Hn Hc Hp. apply TimOK_push. eapply HT; eauto.
  Qed.

  Lemma AWfC_apop_msg nodes net (a : astore T) i e :
    AWfC nodes net a -> In (i, e) (pend a) -> is_msg e = true -> AWfC nodes net (apop a i).
  Proof.
    intros (HP & HA & HE & HD & HT) Hi Hm. split; [|split; [|split; [|split]]]; auto.
    - apply ainv_apop; auto.
    - intros j e' Hj. cbn [apop pend] in Hj. apply in_aremove in Hj. eapply HE. apply Hj.
    - intros nn nd p pe Hn Hc Hp. apply (TimOK_apop a i e p _ (proj1 HA) Hi).
      + intros n d ->. discriminate.
      + eapply HT; eauto.
  Qed.

  Lemma SilentC_sub n nodes net (a a' : astore T) :
    SilentC n nodes net a ->
    (forall i e, In (i, e) (pend a') -> exists j e0, In (j, e0) (pend a) /\ forall p, touches p e = touches p e0) ->
    SilentC n nodes net a'.
  Proof.
    intros (S1 & S2 & S3 & S4) Hsub. split; [|split; [|split]]; auto.
    intros i e p Hi Hp. destruct (Hsub i e Hi) as (j & e0 & Hj & Ht). rewrite Ht. eapply S2; eauto.
  Qed.

  Lemma apop_sub (a : astore T) i :
    forall j e, In (j, e) (pend (apop a i)) -> exists j0 e0, In (j0, e0) (pend a) /\ forall p, touches p e = touches p e0.
  Proof. intros j e Hj. cbn [apop pend] in Hj. apply in_aremove in Hj. exists j, e. split; [apply Hj|auto]. Qed.

  Lemma apush_sub (a a0 : astore T) e e0 i0 j nx :
    (forall k e', In (k, e') (pend a) -> exists j0 e0, In (j0, e0) (pend a0) /\ forall p, touches p e' = touches p e0) ->
    In (i0, e0) (pend a0) -> (forall p, touches p e = touches p e0) ->
    forall k e', In (k, e') (pend (apush a e j nx)) ->
                 exists j0 e1, In (j0, e1) (pend a0) /\ forall p, touches p e' = touches p e1.
  Proof.
    intros Hsub H0 Ht k e' Hk. apply in_apush in Hk. destruct Hk as [Hk|[_ ->]]; eauto.
  Qed.

  (* ---- one step ---- *)
  Definition StepRes (A A' : sys) : Prop :=
    AWf A' /\ s_net A' = s_net A /\ s_mf A' = s_mf A /\ Shape (s_nodes A) (s_nodes A') /\
    (forall n, Silent n A -> Silent n A' /\ sget N.compare n (s_nodes A') = sget N.compare n (s_nodes A)).

  Notation apply_event' := (apply_event so tgt0 teq0 t0 clock handler DS mc_rand ds_of).
  Notation take_choice' := (take_choice so tgt0 teq0 t0 clock handler DS mc_rand ds_of).

  Lemma deliver_event_ok (A : sys) i e :
    AWf A -> In (i, e) (pend (s_events A)) ->
    exists A', apply_event' (with_events A (apop (s_events A) i)) (ApEvent e) = Ok A' /\ StepRes A A'.
  Proof.
    intros HW Hi. pose proof HW as (HP & HA & HE & HD & HT).
    pose proof (HE i e Hi) as Hwf.
    set (s0 := with_events A (apop (s_events A) i)).
    assert (Hmain : forall proc k nn nd pe,
      sget N.compare proc (n_loc (s_net A)) = Some nn -> sget N.compare nn (s_nodes A) = Some nd ->
      nd_crashed nd = false -> sget N.compare proc (nd_procs nd) = Some pe ->
      (forall q n d, e = ETimer q n d -> q = proc /\ shas N.compare n (pt_after k (pe_ptimers pe)) = false) ->
      (forall n, shas N.compare n (pt_after k (pe_ptimers pe)) = true -> shas N.compare n (pe_ptimers pe) = true) ->
      forall dep tr,
      exists A', deliver so tgt0 teq0 t0 clock handler DS mc_rand ds_of
                   (sys_with s0 (s_nodes s0) (s_net s0) (s_events s0) dep tr) proc k = Ok A' /\ StepRes A A').
    { intros proc k nn nd pe L1 L2 L3 L4 He Hsub dep tr.
      set (s1 := sys_with s0 (s_nodes s0) (s_net s0) (s_events s0) dep tr).
      destruct (deliver_ok s1 proc k nn nd pe) as (A' & Hd & HW' & HF); auto.
      { cbn [s1 s0 sys_with with_events s_nodes s_net s_events]. eapply SInv_apop; eauto. }
      exists A'. split; auto. split; auto.
      pose proof (HFrame_Shape _ _ _ HF) as Hsh.
      pose proof HF as (_ & _ & _ & _ & _ & _ & _ & _ & _ & Hnet & Hmf & _).
      split; [exact Hnet|]. split; [exact Hmf|]. split; [exact Hsh|].
      intros n Hs. apply (HFrame_Silent s1 A' proc n HF).
      unfold Silent. cbn [s1 s0 sys_with with_events s_nodes s_net s_events].
      eapply SilentC_sub; [exact Hs|]. apply apop_sub. }
    unfold apply_event. destruct e as [m src dst o|p n d]; cbn [EvWf] in Hwf.
    - destruct Hwf as (_ & nn & nd & L1 & L2 & L3).
      destruct (place_loc_node _ _ _ _ HP L1) as (nd0 & pe & G1 & G2).
      rewrite L2 in G1. inversion G1; subst nd0.
      apply (Hmain dst (HMsg m src) nn nd pe); auto.
      intros q k d Heq. discriminate.
    - destruct Hwf as (nn & nd & L1 & L2 & L3).
      destruct (place_loc_node _ _ _ _ HP L1) as (nd0 & pe & G1 & G2).
      rewrite L2 in G1. inversion G1; subst nd0.
      apply (Hmain p (HTimer n) nn nd pe); auto.
      + intros q k d' Heq. inversion Heq; subst. split; auto.
        cbn [pt_after]. rewrite shas_srem_N, N.eqb_refl. reflexivity.
      + intros k Hk. cbn [pt_after] in Hk. rewrite shas_srem_N in Hk. apply andb_true_iff in Hk. tauto.
  Qed.

  Lemma events_only_ok (A A' : sys) :
    s_nodes A' = s_nodes A -> s_net A' = s_net A -> s_mf A' = s_mf A ->
    AWf A -> AWfC (s_nodes A) (s_net A) (s_events A') ->
    (forall i e, In (i, e) (pend (s_events A')) ->
                 exists j e0, In (j, e0) (pend (s_events A)) /\ forall p, touches p e = touches p e0) ->
    StepRes A A'.
  Proof.
    intros En Ee Em HW HW' Hsub. unfold StepRes, AWf, Silent. rewrite En, Ee.
    split; [exact HW'|]. split; [reflexivity|]. split; [exact Em|].
    split; [apply Shape_refl|]. intros n Hs. split; [|reflexivity].
    eapply SilentC_sub; eauto.
  Qed.

  (* B1 *)
  Theorem take_choice_ok (A : sys) c :
    AWf A -> Enabled A c -> exists A', take_choice' A c = Ok A' /\ StepRes A A'.
  Proof.
    intros HW Hen. pose proof HW as (HP & HA & HE & HD & HT).
    destruct (enabled_inv A c HA Hen) as (e & Hi & Hl & Hc).
    assert (Hlt : choice_id c < anext (s_events A)).
    { destruct HA as [_ Hf]. rewrite Forall_forall in Hf. apply (Hf _ Hi). }
    assert (Hnotin : ~ In (choice_id c) (ids (pend (apop (s_events A) (choice_id c))))).
    { cbn [apop pend]. rewrite ids_aremove. tauto. }
    destruct c as [i|i|i|i]; cbn [choice_id] in *; cbn [take_choice so_pop abstract_ops];
      rewrite (a_pop_eq _ _ _ Hl); cbn [bind].
    - apply deliver_event_ok; auto.
    - destruct Hc as (m & src & dst & o & ->). unfold apply_event.
      eexists. split; [reflexivity|]. apply events_only_ok; auto; cbn [sys_with with_events s_events].
      + eapply AWfC_apop_msg; eauto.
      + apply apop_sub.
    - destruct Hc as (m & src & dst & o & ->).
      cbn [so_push_fixed abstract_ops]. rewrite a_push_fixed_eq; auto. cbn [bind]. unfold apply_event.
      eexists. split; [reflexivity|]. apply events_only_ok; auto; cbn [sys_with with_events s_events].
      + apply AWfC_apush; auto; cbn [apop anext]; try lia.
        * eapply AWfC_apop_msg; eauto.
        * apply (HE _ _ Hi).
      + eapply apush_sub; [apply apop_sub|exact Hi|]. reflexivity.
    - destruct Hc as (m & src & dst & d & k & cc & -> & Hk).
      apply N.eqb_neq in Hk. rewrite Hk.
      cbn [so_push_fixed so_push abstract_ops]. rewrite a_push_fixed_eq; auto. cbn [bind].
      rewrite a_push_eq. cbn [bind]. unfold apply_event.
      eexists. split; [reflexivity|].
      assert (W1 : AWfC (s_nodes A) (s_net A)
                     (apush (apop (s_events A) i) (EMsg m src dst (Possible d (N.pred k) cc)) i
                            (anext (apop (s_events A) i)))).
      { apply AWfC_apush; auto; cbn [apop anext]; try lia.
        - eapply AWfC_apop_msg; eauto.
        - apply (HE _ _ Hi). }
      apply events_only_ok; auto; cbn [sys_with with_events s_events].
      + apply AWfC_apush; auto; try lia.
        * apply (HE _ _ Hi).
        * apply ainv_fresh. apply W1.
      + eapply apush_sub; [eapply apush_sub; [apply apop_sub|exact Hi|reflexivity]|exact Hi|reflexivity].
  Qed.

  Theorem take_choice_awf (A : sys) ids i cs c :
    AWf A -> available so A = Ok ids -> In i ids -> alternatives so A i = Ok cs -> In c cs ->
    exists A', take_choice' A c = Ok A' /\ AWf A'.
  Proof.
    intros HW H1 H2 H3 H4. destruct (take_choice_ok A c HW) as (A' & Ht & HW' & _).
    - exists ids, i, cs. auto.
    - eauto.
  Qed.

  Lemma alternatives_ok (A : sys) i e :
    lookup (pend (s_events A)) i = Some e -> exists cs, alternatives so A i = Ok cs.
  Proof.
    intros Hl. unfold alternatives. cbn [so_get abstract_ops]. rewrite aget_lookup, Hl.
    destruct e as [m src dst [md|d k cc]|p n dl]; eauto.
  Qed.

  Lemma all_choices_spec (A : sys) :
    AWf A -> exists cs, all_choices so A = Ok cs /\ forall c, In c cs -> Enabled A c.
  Proof.
    intros (HP & HA & HE & HD & HT). unfold all_choices.
    assert (Hav : available so A = Ok (aoffered tleb (s_events A) (s_mf A))) by reflexivity.
    rewrite Hav. cbn [bind].
    set (go := fix go (l : list id) : result (list choice) :=
                 match l with
                 | [] => Ok []
                 | i :: r => do a <- alternatives so A i; do b <- go r; Ok (a ++ b)
                 end).
    assert (Hgo : forall l, (forall i, In i l -> In i (aoffered tleb (s_events A) (s_mf A))) ->
                            exists cs, go l = Ok cs /\ forall c, In c cs -> Enabled A c).
    { induction l as [|i r IH]; intros Hsub; cbn [go].
      - exists []. split; auto. intros c [].
      - destruct (aoffered_pending _ _ _ (Hsub i (or_introl eq_refl))) as [e He].
        assert (Hl : lookup (pend (s_events A)) i = Some e) by (apply in_lookup; auto; apply HA).
        destruct (alternatives_ok A i e Hl) as [csi Hcsi]. rewrite Hcsi. cbn [bind].
        destruct IH as (csr & Hr & Hen); [intros j Hj; apply Hsub; right; auto|].
        fold go. rewrite Hr. cbn [bind]. exists (csi ++ csr). split; auto.
        intros c Hc. apply in_app_iff in Hc. destruct Hc as [Hc|Hc]; auto.
        exists (aoffered tleb (s_events A) (s_mf A)), i, csi. split; auto. split; auto.
        apply Hsub. left; auto. }
    apply Hgo. auto.
  Qed.

  Theorem all_choices_ok (A : sys) : AWf A -> exists cs, all_choices so A = Ok cs.
  Proof. intros HW. destruct (all_choices_spec A HW) as (cs & H & _). eauto. Qed.

  (* B3 *)
  Theorem awf_init (A : sys) :
    Place (s_nodes A) (s_net A) -> s_events A = aempty ->
    (forall nn nd, sget N.compare nn (s_nodes A) = Some nd -> nd_crashed nd = false) ->
    (forall nn nd p pe, sget N.compare nn (s_nodes A) = Some nd -> sget N.compare p (nd_procs nd) = Some pe ->
                        pe_ptimers pe = []) ->
    AWf A.
  Proof.
    intros HP He Hc Hpt. unfold AWf. rewrite He. split; [|split; [|split; [|split]]]; auto.
    - apply ainv_empty.
    - intros i e [].
    - intros nn nd Hn Hcr. rewrite (Hc nn nd Hn) in Hcr. discriminate.
    - intros nn nd p pe Hn _ Hp. rewrite (Hpt nn nd p pe Hn Hp). intros n Hn'. discriminate.
  Qed.

  (* ---- B2: callback operations ---- *)
  Notation cb_apply' := (cb_apply so tgt0 teq0 t0 clock handler DS mc_rand ds_of).

  Lemma AWfC_SInv nodes net (a : astore T) nn nd proc pe :
    AWfC nodes net a -> sget N.compare nn nodes = Some nd -> nd_crashed nd = false ->
    sget N.compare proc (nd_procs nd) = Some pe -> SInv nodes net proc (pe_ptimers pe) a.
  Proof.
    intros (HP & HA & HE & HD & HT) Hn Hc Hp. split; [|split; [|split]]; auto.
    - intros n x q pe' Hx Hcx Hq _. eapply HT; eauto.
    - eapply HT; eauto.
  Qed.

  Theorem cb_local_ok (A : sys) nn proc m nd :
    AWf A -> sget N.compare proc (n_loc (s_net A)) = Some nn -> sget N.compare nn (s_nodes A) = Some nd ->
    nd_crashed nd = false ->
    exists A', cb_apply' A (CbLocal nn proc m) = Ok A' /\ StepRes A A'.
  Proof.
    intros HW Hloc Hnd Hcr. pose proof HW as (HP & HA & HE & HD & HT).
    destruct (place_loc_node _ _ _ _ HP Hloc) as (nd0 & pe & G1 & G2).
    rewrite Hnd in G1. inversion G1; subst nd0.
    cbn [cb_apply]. unfold send_local.
    set (s1 := sys_with A (s_nodes A) (s_net A) (s_events A) (s_depth A) (s_trace A ++ [LMcLocalMessageReceived m proc])).
    change (s_nodes s1) with (s_nodes A). rewrite Hnd.
    destruct (handle_add_ok s1 nn nd proc pe (HLocal m) (s_depth A) (ds_of (get_state A))) as (nd' & evs & logs & Hh & Hadd); auto.
    { cbn [pt_after]. apply (AWfC_SInv _ _ _ nn nd); auto. }
    rewrite Hh. cbn [bind].
    destruct (Hadd (s_depth s1) (s_trace s1 ++ logs)) as (A' & Ha & HW' & HF).
    exists A'. split; [exact Ha|]. split; auto.
    pose proof (HFrame_Shape _ _ _ HF) as Hsh.
    pose proof HF as (_ & _ & _ & _ & _ & _ & _ & _ & _ & Hnet & Hmf & _).
    split; [exact Hnet|]. split; [exact Hmf|]. split; [exact Hsh|].
    intros n Hs. apply (HFrame_Silent s1 A' proc n HF). exact Hs.
  Qed.

  Theorem cb_mode_ok (A : sys) mf : AWf A -> exists A', cb_apply' A (CbMode mf) = Ok A' /\ AWf A'.
  Proof. intros HW. eexists. split; [reflexivity|]. exact HW. Qed.

  Lemma net_apply_loc (net : netT) o : n_loc (net_apply net o) = n_loc net.
  Proof. destruct o; reflexivity. Qed.

  Lemma net_apply_drop_mono (net : netT) o x :
    o <> NReset ->
    (nmem x (n_drop_in net) = true -> nmem x (n_drop_in (net_apply net o)) = true) /\
    (nmem x (n_drop_out net) = true -> nmem x (n_drop_out (net_apply net o)) = true).
  Proof.
    intros Hne. destruct o; cbn [net_apply net_with_sets net_with_rates n_drop_in n_drop_out]; split; auto;
      try congruence; intros H; rewrite nmem_nins, H; apply orb_true_r.
  Qed.

  Lemma LiveP_loc nodes (net net' : netT) p : n_loc net' = n_loc net -> LiveP nodes net p -> LiveP nodes net' p.
  Proof. intros He (nn & nd & H). exists nn, nd. rewrite He. exact H. Qed.

  Lemma Place_loc nodes (net net' : netT) : n_loc net' = n_loc net -> Place nodes net -> Place nodes net'.
  Proof. intros He. unfold Place. rewrite He. auto. Qed.

  Lemma EvWf_loc nodes (net net' : netT) e : n_loc net' = n_loc net -> EvWf nodes net e -> EvWf nodes net' e.
  Proof.
    intros He. destruct e as [m src dst o|p n d]; cbn [EvWf].
    - rewrite He. intros [H1 H2]. split; auto. eapply LiveP_loc; eauto.
    - apply LiveP_loc; auto.
  Qed.

  (* NReset empties drop_incoming/drop_outgoing: it would reconnect a crashed node (clause 4 fails, and a message
     sent to a process of the crashed node would then stay pending and its delivery fails with Panic 41), so it
     is only allowed when no node is crashed. *)
  Theorem cb_net_ok (A : sys) o :
    AWf A ->
    o <> NReset \/ (forall nn nd, sget N.compare nn (s_nodes A) = Some nd -> nd_crashed nd = false) ->
    exists A', cb_apply' A (CbNet o) = Ok A' /\ AWf A' /\ s_nodes A' = s_nodes A /\ s_events A' = s_events A.
  Proof.
    intros (HP & HA & HE & HD & HT) Ho. eexists. split; [reflexivity|].
    cbn [sys_with s_nodes s_events]. split; [|split; reflexivity].
    unfold AWf. cbn [sys_with s_nodes s_net s_events].
    pose proof (net_apply_loc (s_net A) o) as Hl.
    split; [|split; [|split; [|split]]]; auto.
    - eapply Place_loc; eauto.
    - intros i e Hi. eapply EvWf_loc; eauto.
    - intros nn nd Hn Hc. destruct Ho as [Ho|Ho].
      + destruct (HD nn nd Hn Hc) as [D1 D2].
        destruct (net_apply_drop_mono (s_net A) o nn Ho) as [M1 M2]. auto.
      + rewrite (Ho nn nd Hn) in Hc. discriminate.
  Qed.

  (* ---- crash_node (B2 CbCrash, B5 first part) ---- *)
  Definition dlog (ie : id * sevent T) : logentry T :=
    match snd ie with
    | EMsg m src dst _ => LMcMessageDropped m src dst
    | ETimer pr n _ => LMcTimerFired pr n
    end.
  Fixpoint crash_store (a : astore T) (procs : list N) : astore T :=
    match procs with [] => a | p :: r => crash_store (acproc a p) r end.
  (* the trace entries of a crash: processes in the order given (name order), for each process the
     still pending messages it touches in id order (alive is sorted by id) *)
  Fixpoint crash_drops (a : astore T) (procs : list N) : list (logentry T) :=
    match procs with
    | [] => []
    | p :: r => map dlog (filter (fun ie => touches p (snd ie) && is_msg (snd ie)) (alive a))
                ++ crash_drops (acproc a p) r
    end.
  Definition touched_by (procs : list N) (e : sevent T) : bool := existsb (fun p => touches p e) procs.
  Definition on_node (nd : node) (e : sevent T) : bool := touched_by (map fst (nd_procs nd)) e.

  Lemma crash_procs_eq procs : forall (a : astore T) tr,
    crash_procs so a procs tr = Ok (crash_store a procs, tr ++ crash_drops a procs).
  Proof.
    induction procs as [|p r IH]; intros a tr; cbn [crash_procs crash_store crash_drops].
    - rewrite app_nil_r. reflexivity.
    - cbn [so_cancel_proc abstract_ops]. rewrite a_cancel_proc_eq. cbn [bind]. rewrite IH.
      rewrite <- app_assoc. reflexivity.
  Qed.

  Lemma crash_store_pend procs : forall (a : astore T),
    pend (crash_store a procs) = filter (fun ie => negb (touched_by procs (snd ie))) (pend a) /\
    amap (crash_store a procs) = amap a /\ anext (crash_store a procs) = anext a.
  Proof.
    induction procs as [|p r IH]; intros a; cbn [crash_store].
    - split; auto. unfold touched_by. cbn [existsb negb].
      induction (pend a) as [|x l IHl]; cbn [filter]; congruence.
    - destruct (IH (acproc a p)) as (H1 & H2 & H3). rewrite H1, H2, H3. cbn [acproc pend amap anext].
      split; auto. rewrite filter_filter. apply filter_ext. intros x.
      unfold touched_by. cbn [existsb]. rewrite negb_orb. reflexivity.
  Qed.

  Lemma crash_store_ainv procs : forall (a : astore T), AInv a -> AInv (crash_store a procs).
  Proof. induction procs as [|p r IH]; intros a H; cbn [crash_store]; auto. apply IH, ainv_acproc, H. Qed.

  Lemma crash_drops_complete procs : forall (a : astore T) i m src dst o,
    AInv a -> In (i, EMsg m src dst o) (pend a) -> touched_by procs (EMsg m src dst o) = true ->
    In (LMcMessageDropped m src dst) (crash_drops a procs).
  Proof.
    induction procs as [|p r IH]; intros a i m src dst o HA Hi Ht; cbn [crash_drops].
    - discriminate.
    - apply in_app_iff. destruct (touches p (EMsg m src dst o)) eqn:Hp.
      + left. apply in_map_iff. exists (i, EMsg m src dst o). split; [reflexivity|].
        apply filter_In. split.
        * rewrite alive_alive'. apply alive'_in; auto. apply HA.
        * cbn [snd]. rewrite Hp. reflexivity.
      + right. apply (IH (acproc a p) i m src dst o).
        * apply ainv_acproc; auto.
        * cbn [acproc pend]. apply filter_In. split; auto. cbn [snd]. rewrite Hp. reflexivity.
        * unfold touched_by in *. cbn [existsb] in Ht. rewrite Hp in Ht. exact Ht.
  Qed.

  Lemma crash_drops_sound procs : forall (a : astore T) l,
    AInv a -> In l (crash_drops a procs) ->
    exists i m src dst o, l = LMcMessageDropped m src dst /\ In (i, EMsg m src dst o) (pend a) /\
                          touched_by procs (EMsg m src dst o) = true.
  Proof.
    induction procs as [|p r IH]; intros a l HA Hl; cbn [crash_drops] in Hl.
    - contradiction.
    - apply in_app_iff in Hl. destruct Hl as [Hl|Hl].
      + apply in_map_iff in Hl. destruct Hl as ([i e] & <- & Hf). apply filter_In in Hf.
        destruct Hf as [Hin Hte]. cbn [snd] in Hte. apply andb_true_iff in Hte. destruct Hte as [Ht Hm].
        rewrite alive_alive' in Hin. apply (proj1 (alive'_in _ _ _ (proj1 HA))) in Hin.
        destruct e as [m src dst o|q n d]; [|discriminate].
        exists i, m, src, dst, o. split; [reflexivity|]. split; auto.
        unfold touched_by. cbn [existsb]. rewrite Ht. reflexivity.
      + destruct (IH (acproc a p) l (ainv_acproc a p HA) Hl) as (i & m & src & dst & o & E1 & E2 & E3).
        exists i, m, src, dst, o. split; auto. split.
        * cbn [acproc pend] in E2. apply filter_In in E2. apply E2.
        * unfold touched_by in *. cbn [existsb]. rewrite E3. apply orb_true_r.
  Qed.

  Lemma on_node_located nodes net n nd e :
    Place nodes net -> sget N.compare n nodes = Some nd ->
    (on_node nd e = true <-> exists p, sget N.compare p (n_loc net) = Some n /\ touches p e = true).
  Proof.
    intros (_ & _ & _ & Hl & _) Hn. unfold on_node, touched_by. rewrite existsb_exists. split.
    - intros (p & Hp & Ht). exists p. split; auto. apply Hl. exists nd. split; auto.
      apply (shas_in _ CmpSpec_N). auto.
    - intros (p & Hp & Ht). exists p. split; auto. apply Hl in Hp. destruct Hp as (nd0 & G1 & G2).
      rewrite Hn in G1. inversion G1; subst nd0. apply (shas_in _ CmpSpec_N). auto.
  Qed.

  Theorem cb_crash_ok (A : sys) n nd :
    AWf A -> sget N.compare n (s_nodes A) = Some nd ->
    exists A', cb_apply' A (CbCrash n) = Ok A' /\ AWf A' /\ Silent n A' /\
      pend (s_events A') = filter (fun ie => negb (on_node nd (snd ie))) (pend (s_events A)) /\
      amap (s_events A') = amap (s_events A) /\ anext (s_events A') = anext (s_events A) /\
      s_trace A' = s_trace A ++ LMcNodeCrashed n :: crash_drops (s_events A) (map fst (nd_procs nd)) /\
      s_nodes A' = sins N.compare n {| nd_procs := nd_procs nd; nd_skew := nd_skew nd; nd_crashed := true |} (s_nodes A) /\
      s_net A' = net_apply (s_net A) (NDisconnect n) /\ s_depth A' = s_depth A /\ s_mf A' = s_mf A.
  Proof.
    intros HW Hn. pose proof HW as (HP & HA & HE & HD & HT).
    cbn [cb_apply]. unfold crash_node. rewrite Hn, crash_procs_eq. cbn [bind].
    set (procs := map fst (nd_procs nd)).
    set (nd' := {| nd_procs := nd_procs nd; nd_skew := nd_skew nd; nd_crashed := true |}).
    set (a' := crash_store (s_events A) procs).
    set (net' := net_apply (s_net A) (NDisconnect n)).
    destruct (crash_store_pend procs (s_events A)) as (Ep & Em & Ex). fold a' in Ep, Em, Ex.
    assert (Hloc : n_loc net' = n_loc (s_net A)) by reflexivity.
    assert (Hnotloc : forall e p, on_node nd e = false -> touches p e = true ->
                                  sget N.compare p (n_loc (s_net A)) <> Some n).
    { intros e p Hon Ht Hp.
      assert (on_node nd e = true) by (apply (on_node_located _ _ _ _ e HP Hn); eauto). congruence. }
    assert (Hin' : forall i e, In (i, e) (pend a') -> In (i, e) (pend (s_events A)) /\ on_node nd e = false).
    { intros i e Hi. rewrite Ep in Hi. apply filter_In in Hi. destruct Hi as [H1 H2].
      cbn [snd] in H2. apply negb_true_iff in H2. auto. }
    eexists. split; [reflexivity|]. cbn [sys_with s_nodes s_net s_events s_depth s_mf s_trace].
    split; [|split; [|repeat split; auto]].
    - (* AWf *)
      unfold AWf. cbn [sys_with s_nodes s_net s_events]. split; [|split; [|split; [|split]]].
      + apply (Place_loc _ (s_net A)); auto. apply Place_upd with (nd := nd); auto.
        destruct HP as (_ & H & _). apply (H n nd Hn).
      + apply crash_store_ainv; auto.
      + intros i e Hi. destruct (Hin' i e Hi) as [Hi0 Hon]. pose proof (HE i e Hi0) as Hwf.
        apply (EvWf_loc _ (s_net A)); auto.
        destruct e as [m src dst o|p k d]; cbn [EvWf] in *.
        * destruct Hwf as [H1 H2]. split; auto. apply LiveP_upd_other; auto.
          apply (Hnotloc (EMsg m src dst o)); auto. cbn [touches]. rewrite N.eqb_refl. apply orb_true_r.
        * apply LiveP_upd_other; auto.
          apply (Hnotloc (ETimer p k d)); auto. cbn [touches]. apply N.eqb_refl.
      + intros n' x. rewrite sget_sins_N. destruct (N.eqb n' n) eqn:E; nb.
        * subst n'. intros _ _. cbn [net' net_apply net_with_sets n_drop_in n_drop_out].
          rewrite !nmem_nins, N.eqb_refl. auto.
        * intros Hx Hc. destruct (HD n' x Hx Hc) as [D1 D2].
          cbn [net' net_apply net_with_sets n_drop_in n_drop_out]. rewrite !nmem_nins, D1, D2, !orb_true_r. auto.
      + intros n' x q pe. rewrite sget_sins_N. destruct (N.eqb n' n) eqn:E; nb.
        * intros Hx Hc. inversion Hx; subst x. discriminate.
        * intros Hx Hc Hq k Hk. destruct (HT n' x q pe Hx Hc Hq k Hk) as (j & d & G1 & G2).
          exists j, d. rewrite Em. split; auto. rewrite Ep. apply filter_In. split; auto.
          cbn [snd]. apply negb_true_iff. unfold on_node, touched_by. apply existsb_false_iff.
          intros p Hp. cbn [touches]. apply N.eqb_neq. intros ->.
          apply E. apply (place_unique _ _ n' x n nd p HP); auto.
          -- apply shas_sget; eauto.
          -- apply (shas_in _ CmpSpec_N). auto.
    - (* Silent *)
      unfold Silent, SilentC. cbn [sys_with s_nodes s_net s_events]. split; [|split; [|split]].
      + exists nd'. rewrite sget_sins_N, N.eqb_refl. auto.
      + intros i e p Hi Hp. destruct (Hin' i e Hi) as [_ Hon].
        destruct (touches p e) eqn:Ht; auto. exfalso. apply (Hnotloc e p Hon Ht). rewrite <- Hloc. exact Hp.
      + cbn [net' net_apply net_with_sets n_drop_in]. rewrite nmem_nins, N.eqb_refl. reflexivity.
      + cbn [net' net_apply net_with_sets n_drop_out]. rewrite nmem_nins, N.eqb_refl. reflexivity.
    - rewrite <- app_assoc. reflexivity.
  Qed.

  (* ---- the dropped-message entries of a crash in terms of the id-sorted listing `alive` of the pending events ---- *)
  Lemma lookup_filter (L : list (id * sevent T)) f k :
    NoDup (ids L) ->
    lookup (filter f L) k = match lookup L k with Some e => if f (k, e) then Some e else None | None => None end.
  Proof.
    unfold lookup, ids. induction L as [|[j e] r IH]; intros Hn; cbn [filter find map fst]; auto.
    inversion Hn as [|? ? Hj Hr]; subst. specialize (IH Hr).
    destruct (N.eqb j k) eqn:E; nb.
    - subst j. cbn [snd].
      assert (Hnone : find (fun p => N.eqb (fst p) k) r = None).
      { destruct (find (fun p => N.eqb (fst p) k) r) as [[k' e']|] eqn:F; auto.
        apply find_some in F. destruct F as [F1 F2]. cbn in F2. nb. subst k'.
        exfalso. apply Hj. apply in_map_iff. exists (k, e'). auto. }
      destruct (f (k, e)) eqn:Ef.
      + cbn [find fst]. rewrite N.eqb_refl. reflexivity.
      + rewrite IH, Hnone. reflexivity.
    - destruct (f (j, e)); auto. cbn [find fst]. apply N.eqb_neq in E. rewrite E. auto.
  Qed.

  Lemma sget_filter_sorted {V} (l : list (N * V)) f k :
    ssorted N.compare l ->
    sget N.compare k (filter f l) =
    match sget N.compare k l with Some v => if f (k, v) then Some v else None | None => None end.
  Proof.
    induction l as [|[k0 v0] r IH]; intros Hs; cbn [filter sget]; auto.
    apply ssorted_inv in Hs. destruct Hs as [Hf Hs]. specialize (IH Hs).
    destruct (is_eq (N.compare k k0)) eqn:E.
    - apply (is_eq_true _ CmpSpec_N) in E. subst k0. destruct (f (k, v0)).
      + cbn [sget]. rewrite (is_eq_refl _ CmpSpec_N). reflexivity.
      + apply (sget_lt_none N.compare). rewrite Forall_forall in *. intros q Hq. apply filter_In in Hq. apply Hf, Hq.
    - destruct (f (k0, v0)); auto. cbn [sget]. rewrite E. auto.
  Qed.

  Lemma alive'_filter (L : list (id * sevent T)) f :
    NoDup (ids L) -> alive' (filter f L) = filter f (alive' L).
  Proof.
    intros Hn. apply (ssorted_ext _ CmpSpec_N).
    - apply alive'_sorted.
    - apply ssorted_filter, alive'_sorted.
    - intros k. rewrite alive'_sget by (apply NoDup_map_filter; auto).
      rewrite sget_filter_sorted by apply alive'_sorted. rewrite alive'_sget by auto. apply lookup_filter; auto.
  Qed.

  Fixpoint drops_of (L : list (id * sevent T)) (procs : list N) : list (logentry T) :=
    match procs with
    | [] => []
    | p :: r => map dlog (filter (fun ie => touches p (snd ie) && is_msg (snd ie)) L)
                ++ drops_of (filter (fun ie => negb (touches p (snd ie))) L) r
    end.

  Lemma crash_drops_alive procs : forall (a : astore T), AInv a -> crash_drops a procs = drops_of (alive a) procs.
  Proof.
    induction procs as [|p r IH]; intros a HA; cbn [crash_drops drops_of]; auto.
    rewrite IH by (apply ainv_acproc; auto). f_equal. f_equal.
    rewrite !alive_alive'. cbn [acproc pend]. apply alive'_filter. apply HA.
  Qed.

  (* every touched message is logged exactly once *)
  Lemma drops_of_length procs : forall L,
    length (drops_of L procs) = length (filter (fun ie => is_msg (snd ie) && touched_by procs (snd ie)) L).
  Proof.
    induction procs as [|p r IH]; intros L; cbn [drops_of].
    - unfold touched_by. cbn [existsb]. induction L as [|x l IHl]; cbn [filter]; auto.
      rewrite andb_false_r. auto.
    - rewrite app_length, map_length, IH. unfold touched_by. cbn [existsb].
      induction L as [|x l IHl]; cbn [filter]; auto.
      destruct (touches p (snd x)); cbn [negb andb orb].
      + destruct (is_msg (snd x)); cbn [length andb]; lia.
      + cbn [filter]. destruct (is_msg (snd x) && existsb (fun q => touches q (snd x)) r); cbn [length]; lia.
  Qed.

  (* every message the crash removes is logged as dropped, and nothing else is *)
  Corollary cb_crash_trace (A : sys) n nd :
    AWf A -> sget N.compare n (s_nodes A) = Some nd ->
    (forall i m src dst o, In (i, EMsg m src dst o) (pend (s_events A)) -> on_node nd (EMsg m src dst o) = true ->
                           In (LMcMessageDropped m src dst) (crash_drops (s_events A) (map fst (nd_procs nd)))) /\
    (forall l, In l (crash_drops (s_events A) (map fst (nd_procs nd))) ->
               exists i m src dst o, l = LMcMessageDropped m src dst /\ In (i, EMsg m src dst o) (pend (s_events A)) /\
                                     on_node nd (EMsg m src dst o) = true).
  Proof.
    intros (HP & HA & _) Hn. split.
    - intros i m src dst o Hi Hon. eapply crash_drops_complete; eauto.
    - intros l Hl. apply crash_drops_sound; auto.
  Qed.

  (* ---- B5, second part: a silent node stays silent ---- *)
  Theorem silent_step (A A' : sys) c n :
    AWf A -> Silent n A -> Enabled A c -> take_choice' A c = Ok A' ->
    AWf A' /\ Silent n A' /\ sget N.compare n (s_nodes A') = sget N.compare n (s_nodes A).
  Proof.
    intros HW HS Hen Ht. destruct (take_choice_ok A c HW Hen) as (A1 & Ht1 & HW1 & _ & _ & _ & Hsil).
    rewrite Ht in Ht1. inversion Ht1; subst A1. destruct (Hsil n HS). auto.
  Qed.

  (* paths of enabled steps *)
  Inductive Steps : sys -> sys -> Prop :=
  | steps_refl : forall A, Steps A A
  | steps_cons : forall A c A1 A2, Enabled A c -> take_choice' A c = Ok A1 -> Steps A1 A2 -> Steps A A2.

  Theorem steps_awf (A A' : sys) : AWf A -> Steps A A' -> AWf A'.
  Proof.
    intros HW Hs. induction Hs as [|A c A1 A2 Hen Ht Hs IH]; auto.
    destruct (take_choice_ok A c HW Hen) as (A1' & Ht1 & HW1 & _). rewrite Ht in Ht1. inversion Ht1; subst. auto.
  Qed.

  Theorem silent_forever (A A' : sys) n :
    AWf A -> Silent n A -> Steps A A' ->
    Silent n A' /\ sget N.compare n (s_nodes A') = sget N.compare n (s_nodes A).
  Proof.
    intros HW HS Hs. induction Hs as [|A c A1 A2 Hen Ht Hs IH]; auto.
    destruct (silent_step A A1 c n HW HS Hen Ht) as (HW1 & HS1 & Hg1).
    destruct (IH HW1 HS1) as [HS2 Hg2]. split; auto. congruence.
  Qed.

  Theorem silent_send_dropped (A : sys) n m src dst sn dn :
    Silent n A -> sget N.compare src (n_loc (s_net A)) = Some sn -> sget N.compare dst (n_loc (s_net A)) = Some dn ->
    sn <> dn -> sn = n \/ dn = n ->
    net_send tgt0 teq0 (s_net A) m src dst = Ok (SDropped m src dst).
  Proof.
    intros (_ & _ & Hi & Ho) Hs Hd Hne Hn. apply (net_send_dropped _ m src dst sn dn); auto.
    destruct Hn as [->| ->]; auto.
  Qed.

  (* ------------------------------------------------------------------------------------------ *)
  (* B4: get_state / set_state                                                                   *)
  (* ------------------------------------------------------------------------------------------ *)
  Lemma proc_set_state_id (old st : pentry T PS) : proc_set_state old st = st.
  Proof. destruct st; reflexivity. Qed.

  Lemma procs_set_state_spec (tp : list (N * pentry T PS)) : forall l cur,
    (forall p pe, In (p, pe) l -> sget N.compare p tp = Some pe) ->
    (forall p, shas N.compare p cur = shas N.compare p tp) ->
    exists res, procs_set_state cur l = Ok res /\
                (forall p, In p (map fst l) -> sget N.compare p res = sget N.compare p tp) /\
                (forall p, ~ In p (map fst l) -> sget N.compare p res = sget N.compare p cur) /\
                (ssorted N.compare cur -> ssorted N.compare res).
  Proof.
    induction l as [|[name st] r IH]; intros cur Hin Hsh; cbn [procs_set_state].
    - exists cur. split; auto. split; [intros p []|]. split; auto.
    - assert (Hst : sget N.compare name tp = Some st) by (apply Hin; left; auto).
      assert (Hc : shas N.compare name cur = true) by (rewrite Hsh; apply shas_sget; eauto).
      apply shas_sget in Hc. destruct Hc as [old Hold]. rewrite Hold, proc_set_state_id.
      destruct (IH (sins N.compare name st cur)) as (res & Hr & R1 & R2 & R3).
      { intros p pe Hp. apply Hin. right; auto. }
      { intros p. rewrite shas_sins_N, Hsh. destruct (N.eqb p name) eqn:E; nb; auto.
        subst. symmetry. apply shas_sget. eauto. }
      exists res. split; auto. split; [|split].
      + intros p Hp. cbn [map fst In] in Hp.
        destruct (in_dec N.eq_dec p (map fst r)) as [Hi|Hi]; auto.
        destruct Hp as [<-|Hp]; [|contradiction].
        rewrite (R2 _ Hi), sget_sins_N, N.eqb_refl. auto.
      + intros p Hp. cbn [map fst In] in Hp. rewrite R2 by tauto. rewrite sget_sins_N.
        destruct (N.eqb p name) eqn:E; nb; auto. subst. tauto.
      + intros Hs. apply R3. apply ssorted_sins; auto. apply CmpSpec_N.
  Qed.

  Lemma procs_restore (tp cur : list (N * pentry T PS)) :
    ssorted N.compare tp -> ssorted N.compare cur ->
    (forall p, shas N.compare p cur = shas N.compare p tp) ->
    procs_set_state cur tp = Ok tp.
  Proof.
    intros Ht Hc Hsh. destruct (procs_set_state_spec tp tp cur) as (res & Hr & R1 & R2 & R3); auto.
    { intros p pe Hp. apply (sget_in _ CmpSpec_N); auto. }
    rewrite Hr. f_equal. apply (ssorted_ext _ CmpSpec_N); auto.
    intros k. destruct (in_dec N.eq_dec k (map fst tp)) as [Hi|Hi]; auto.
    rewrite (R2 _ Hi).
    assert (Hn : sget N.compare k tp = None) by (apply (sget_none_iff _ CmpSpec_N); auto).
    rewrite Hn. specialize (Hsh k). unfold shas in Hsh. rewrite Hn in Hsh.
    destruct (sget N.compare k cur); auto. discriminate.
  Qed.

  Definition ProcsSorted (nodes : nodesT) : Prop :=
    forall nn nd, sget N.compare nn nodes = Some nd -> ssorted N.compare (nd_procs nd).

  Lemma Shape_sym nodes nodes' : Shape nodes nodes' -> Shape nodes' nodes.
  Proof.
    intros H nn. specialize (H nn).
    destruct (sget N.compare nn nodes), (sget N.compare nn nodes'); auto.
    destruct H as [H1 H2]. split; auto.
  Qed.

  Lemma nodes_set_state_spec (tn : nodesT) : forall l cur,
    (forall nn nd, In (nn, nd) l -> sget N.compare nn tn = Some nd) ->
    ProcsSorted tn -> ProcsSorted cur -> Shape tn cur ->
    exists res, nodes_set_state cur (map (fun p => (fst p, node_get_state (snd p))) l) = Ok res /\
                (forall k, In k (map fst l) -> sget N.compare k res = sget N.compare k tn) /\
                (forall k, ~ In k (map fst l) -> sget N.compare k res = sget N.compare k cur) /\
                (ssorted N.compare cur -> ssorted N.compare res).
  Proof.
    induction l as [|[name nd] r IH]; intros cur Hin Hpt Hpc Hsh; cbn [map nodes_set_state fst snd].
    - exists cur. split; auto. split; [intros p []|]. split; auto.
    - assert (Hnd : sget N.compare name tn = Some nd) by (apply Hin; left; auto).
      pose proof (Hsh name) as Hs. rewrite Hnd in Hs.
      destruct (sget N.compare name cur) as [nd'|] eqn:Hcur; [|contradiction]. destruct Hs as [Hsk Hpr].
      unfold node_set_state. cbn [node_get_state ns_procs ns_crashed].
      rewrite procs_restore; auto; [|apply (Hpt _ _ Hnd)|apply (Hpc _ _ Hcur)]. cbn [bind].
      assert (Heq : {| nd_procs := nd_procs nd; nd_skew := nd_skew nd'; nd_crashed := nd_crashed nd |} = nd).
      { rewrite Hsk. destruct nd; reflexivity. }
      rewrite Heq.
      destruct (IH (sins N.compare name nd cur)) as (res & Hr & R1 & R2 & R3); auto.
      { intros p pe Hp. apply Hin. right; auto. }
      { intros n x. rewrite sget_sins_N. destruct (N.eqb n name) eqn:E; nb.
        - intros Hx; inversion Hx; subst. apply (Hpt _ _ Hnd).
        - apply Hpc. }
      { intros n. rewrite sget_sins_N. destruct (N.eqb n name) eqn:E; nb.
        - subst n. rewrite Hnd. auto.
        - apply Hsh. }
      exists res. split; auto. split; [|split].
      + intros p Hp. cbn [In] in Hp.
        destruct (in_dec N.eq_dec p (map fst r)) as [Hi|Hi]; auto.
        destruct Hp as [<-|Hp]; [|contradiction].
        rewrite (R2 _ Hi), sget_sins_N, N.eqb_refl. auto.
      + intros p Hp. cbn [In] in Hp. rewrite R2 by tauto. rewrite sget_sins_N.
        destruct (N.eqb p name) eqn:E; nb; auto. subst. tauto.
      + intros Hs. apply R3. apply ssorted_sins; auto. apply CmpSpec_N.
  Qed.

  (* restoring the saved state of A into any system A' of the same shape gives back A *)
  Theorem set_state_restore (A A' : sys) :
    ssorted N.compare (s_nodes A) -> ProcsSorted (s_nodes A) ->
    ssorted N.compare (s_nodes A') -> ProcsSorted (s_nodes A') ->
    Shape (s_nodes A) (s_nodes A') -> s_mf A' = s_mf A ->
    set_state A' (get_state A) = Ok A.
  Proof.
    intros Hs Hp Hs' Hp' Hsh Hmf. unfold set_state. cbn [get_state st_nodes st_net st_events st_depth st_trace].
    destruct (nodes_set_state_spec (s_nodes A) (s_nodes A) (s_nodes A')) as (res & Hr & R1 & R2 & R3); auto.
    { intros nn nd Hi. apply (sget_in _ CmpSpec_N); auto. }
    rewrite Hr. cbn [bind].
    assert (res = s_nodes A).
    { apply (ssorted_ext _ CmpSpec_N); auto. intros k.
      destruct (in_dec N.eq_dec k (map fst (s_nodes A))) as [Hi|Hi]; auto.
      rewrite (R2 _ Hi).
      assert (Hn : sget N.compare k (s_nodes A) = None) by (apply (sget_none_iff _ CmpSpec_N); auto).
      rewrite Hn. specialize (Hsh k). rewrite Hn in Hsh.
      destruct (sget N.compare k (s_nodes A')); auto. contradiction. }
    subst res. unfold sys_with. rewrite Hmf. destruct A; reflexivity.
  Qed.

  Lemma AWf_sorted (A : sys) : AWf A -> ssorted N.compare (s_nodes A) /\ ProcsSorted (s_nodes A).
  Proof. intros ((H1 & H2 & _) & _). auto. Qed.

  Notation search_step' := (search_step so tgt0 teq0 t0 clock handler DS mc_rand ds_of).
  Notation steps_of' := (steps_of so tgt0 teq0 t0 clock handler DS mc_rand ds_of).
  Notation expand_sys' := (expand_sys so tgt0 teq0 t0 clock handler DS mc_rand ds_of).

  (* search_step: the threaded system is restored exactly; the reported state is the state of an AWf system
     and can be loaded back into A *)
  Theorem search_step_ok (A : sys) c :
    AWf A -> Enabled A c ->
    exists A1, take_choice' A c = Ok A1 /\ AWf A1 /\
               search_step' A c = Ok (A, get_state A1) /\ set_state A (get_state A1) = Ok A1.
  Proof.
    intros HW Hen. destruct (take_choice_ok A c HW Hen) as (A1 & Ht & HW1 & Hnet & Hmf & Hsh & _).
    destruct (AWf_sorted A HW) as [S1 S2]. destruct (AWf_sorted A1 HW1) as [S3 S4].
    exists A1. split; auto. split; auto. split.
    - unfold search_step. rewrite Ht. cbn [bind]. rewrite set_state_restore; auto.
    - apply set_state_restore; auto. apply Shape_sym; auto.
  Qed.

  Lemma steps_of_ok (A : sys) : forall cs,
    AWf A -> (forall c, In c cs -> Enabled A c) ->
    exists sts, steps_of' A cs = Ok (A, sts) /\
                forall st, In st sts -> exists A1, set_state A st = Ok A1 /\ AWf A1 /\ Steps A A1.
  Proof.
    induction cs as [|c r IH]; intros HW Hen; cbn [steps_of].
    - exists []. split; auto. intros st [].
    - destruct (search_step_ok A c HW (Hen c (or_introl eq_refl))) as (A1 & Ht & HW1 & Hss & Hset).
      rewrite Hss. cbn [bind].
      destruct IH as (sts & Hr & Hsts); auto. { intros c' Hc'. apply Hen. right; auto. }
      rewrite Hr. cbn [bind]. exists (get_state A1 :: sts). split; auto.
      intros st [<-|Hst]; auto. exists A1. split; auto. split; auto.
      apply (steps_cons A c A1 A1); [apply Hen; left; auto|exact Ht|apply steps_refl].
  Qed.

  Theorem expand_sys_ok (A : sys) :
    AWf A ->
    exists sts, expand_sys' A = Ok (A, sts) /\
                forall st, In st sts -> exists A1, set_state A st = Ok A1 /\ AWf A1 /\ Steps A A1.
  Proof.
    intros HW. unfold expand_sys. destruct (all_choices_spec A HW) as (cs & Hcs & Hen).
    rewrite Hcs. cbn [bind]. apply steps_of_ok; auto.
  Qed.

  (* B4 in the form "AWf depends only on the saved state and the shape" *)
  Theorem set_state_awf (A A' A'' : sys) :
    AWf A -> ssorted N.compare (s_nodes A') -> ProcsSorted (s_nodes A') ->
    Shape (s_nodes A) (s_nodes A') -> set_state A' (get_state A) = Ok A'' -> AWf A''.
  Proof.
    intros HW S3 S4 Hsh Hset. destruct (AWf_sorted A HW) as [S1 S2].
    set (B := {| s_nodes := s_nodes A; s_net := s_net A; s_events := s_events A; s_depth := s_depth A;
                 s_mf := s_mf A'; s_trace := s_trace A |}).
    assert (HB : set_state A' (get_state B) = Ok B) by (apply set_state_restore; auto).
    assert (Hg : get_state B = get_state A) by reflexivity.
    rewrite Hg, Hset in HB. inversion HB; subst A''. exact HW.
  Qed.
End RefWf.

Print Assumptions take_choice_ok.
Print Assumptions take_choice_awf.
Print Assumptions all_choices_ok.
Print Assumptions steps_awf.
Print Assumptions awf_init.
Print Assumptions cb_local_ok.
Print Assumptions cb_crash_ok.
Print Assumptions cb_crash_trace.
Print Assumptions cb_mode_ok.
Print Assumptions cb_net_ok.
Print Assumptions silent_step.
Print Assumptions silent_forever.
Print Assumptions silent_send_dropped.
Print Assumptions set_state_restore.
Print Assumptions set_state_awf.
Print Assumptions search_step_ok.
Print Assumptions expand_sys_ok.
