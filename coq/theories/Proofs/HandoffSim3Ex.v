(* C04, stage 3: the hypotheses of Proofs/HandoffSim3.v are satisfiable with a corruption rate > 0: two nodes over
   integer time, corruption rate 1 (every cross-node send is corrupted), a corrupted message in flight at the hand-off,
   and handlers that keep sending a message containing a quoted string (which corruption changes). *)
From Coq Require Import List NArith ZArith Bool Lia.
From ASV Require Import Base.Util Base.Msg Base.Log Model.Store Spec.StoreSpec Model.McSys Spec.RefSys
     Model.Sim Spec.TimeLaws Spec.SimSpec Model.Snapshot
     Proofs.UtilP Proofs.StoreSpecP Proofs.RefWf Proofs.SimTimeP Proofs.SimBaseP Proofs.SnapshotP Proofs.FateAgree
     Proofs.HandoffSimBase Proofs.HandoffSim Proofs.HandoffSim2 Proofs.HandoffSim3.
Import ListNotations.

Module Handoff3Ex.
  Definition mq : msg := {| tip := [1]; data := [34; 97; 34] |}.       (* data: "a" *)
  Definition mc : msg := {| tip := [1]; data := [34; 34] |}.           (* data: ""  *)
  Definition mp : msg := {| tip := [2]; data := [] |}.
  Lemma corrupt_mq : corrupt_msg mq = mc.
  Proof. vm_compute. reflexivity. Qed.
  Lemma corrupt_mc : corrupt_msg mc = mc.
  Proof. vm_compute. reflexivity. Qed.

  Definition hS (p : N) (st : unit) (i : input) (t : Z) (r : nat -> Z) : unit * list (action Z) * nat :=
    match i with
    | InLocal m => (tt, [ASend mq 6; ATimerSet 1 3%Z true], O)
    | InMsg m from => (tt, [ALocal m; ASend mq 5], O)
    | InTimer n => (tt, [ASend mq 6; ALocal mp], O)
    end.
  Definition hM (p : N) (st : unit) (i : input) (t : Z) (r : nat -> Z) : unit * list (action Z) :=
    fst (hS p st i 0%Z (fun _ => 0%Z)).
  Definition dr : nat -> Z := fun _ => 0%Z.
  Definition script : list (@sop Z) :=
    [YAddNode 1; YAddNode 2; YAddProcess 5 1; YAddProcess 6 2; YNet (SSetCorrupt 1%Z); YSendLocal 5 mp].
  Definition rets : list sret := [RetUnit; RetUnit; RetUnit; RetUnit; RetUnit; RetUnit].
  Definition s0 : @simsys Z unit :=
    match run_ops z_ops hS (fun _ => tt) dr (fun l => l) 5 (sys0 z_ops) script with Ok (s, _) => s | Panic _ => sys0 z_ops end.
  Definition soR := abstract_ops Z.leb (fun _ _ _ => true).
  Definition mr0 : @mcsys Z (astore Z) unit :=
    match snapshot z_ops soR s0 with
    | Ok m => m
    | Panic _ => {| s_nodes := []; s_net := snap_net s0; s_events := aempty; s_depth := 0; s_mf := false; s_trace := [] |}
    end.

  Lemma s0_run : run_ops z_ops hS (fun _ => tt) dr (fun l => l) 5 (sys0 z_ops) script = Ok (s0, rets).
  Proof. vm_compute. reflexivity. Qed.
  Lemma s0_reachable : Reachable z_ops hS (fun _ => tt) dr (fun l => l) s0.
  Proof. exists 5%nat, script, rets. exact s0_run. Qed.
  Lemma s0_installed : Installed s0.
  Proof.
    apply (registered_no_recover z_ops hS (fun _ => tt) dr (fun l => l) 5 script s0 _ s0_run).
    intros n H. cbn [script In] in H. repeat (destruct H as [H|H]; [discriminate|]). exact H.
  Qed.
  Lemma s0_snapshot : snapshot z_ops soR s0 = Ok mr0.
  Proof. vm_compute. reflexivity. Qed.
  (* the message in flight is the CORRUPTED copy of mq *)
  Lemma s0_live : map (fun e => (q_time e, c_of_q e)) (q_live (y_q s0)) = [(1%Z, CMsg mc 5 6); (3%Z, CTimer 5 1)].
  Proof. vm_compute. reflexivity. Qed.
  Lemma s0_rate : sn_corrupt (y_net s0) = 1%Z.
  Proof. vm_compute. reflexivity. Qed.

  Definition nocrash_b (s : @simsys Z unit) : bool := forallb (fun p => negb (sd_crashed (snd p))) (y_nodes s).
  Lemma nocrash_b_sound (s : @simsys Z unit) : nocrash_b s = true -> NoCrash s.
  Proof.
    intros F nn nd H. apply (sget_some_in N.compare CmpSpec_N) in H. unfold nocrash_b in F.
    rewrite forallb_forall in F. specialize (F _ H). cbn [snd] in F. apply negb_true_iff in F. exact F.
  Qed.
  Lemma s0_no_crash : NoCrash s0.
  Proof. apply nocrash_b_sound. vm_compute. reflexivity. Qed.

  (* every message the handlers send is mq *)
  Lemma sent_is_mq m s d : Sent hM m s d -> m = mq.
  Proof.
    intros (st & inp & t & r & Hin). unfold hM in Hin. destruct inp; cbn [hS fst snd In] in Hin;
      repeat (destruct Hin as [Hin|Hin]; [try discriminate; inversion Hin; reflexivity|]); contradiction.
  Qed.
  Lemma stable_mc s d : Stable hM mc s d.
  Proof. intros st inp t r _. exact corrupt_mc. Qed.

  Definition inflight_b (s : @simsys Z unit) : bool :=
    forallb (fun e => match q_data e with QMsg _ m _ _ _ _ => msg_eqb m mc | QTimer _ _ => true end) (q_live (y_q s)).
  Lemma inflight_sound (s : @simsys Z unit) : inflight_b s = true -> SnapCorrOK hM s.
  Proof.
    intros F e mid m src sn dst dn He Hd. right. unfold inflight_b in F. rewrite forallb_forall in F. specialize (F e He).
    cbv beta in F. rewrite Hd in F. apply msg_eqb_true in F. subst m. apply stable_mc.
  Qed.

  Lemma s0_corrside : CorrSide z_ops (mc_gt0 z_ops) hM s0.
  Proof.
    intros _. split; [vm_compute; reflexivity|]. split.
    - intros m s d Hs. rewrite (sent_is_mq m s d Hs), corrupt_mq. apply stable_mc.
    - apply inflight_sound. vm_compute. reflexivity.
  Qed.

  Theorem example_steps3 : forall k sk r,
    sim_op z_ops hS (fun _ => tt) dr (fun l => l) 10 s0 (YSteps k) = Ok (sk, r) ->
    exists m, RefWf.Steps (mc_gt0 z_ops) (mc_eq0 z_ops) 0%Z (fun _ sk => sk) hM unit (fun _ _ => 0%Z) (fun _ => tt) Z.leb
                          (fun _ _ _ => true) mr0 m /\ ProjEq sk m.
  Proof.
    intros k sk r H.
    apply (C04_stage3_steps z_ops hS (fun _ => tt) dr (fun l => l) (mc_gt0 z_ops) (mc_eq0 z_ops) 0%Z (fun _ sk => sk) hM unit
             (fun _ _ => 0%Z) (fun _ => tt) (fun _ _ _ => true) z_laws (proj2 z_sub_laws)) with (s0 := s0) (fuel := 10%nat) (k := k) (r := r).
    - intros i. split; reflexivity.
    - intros r0 x H1 H2. apply (below_rate_nonzero z_ops z_laws r0 x H1 H2).
    - intros proc st inp t1 r1 t2 r2. unfold hM. destruct inp; reflexivity.
    - exact s0_reachable.
    - exact s0_installed.
    - right. exact s0_no_crash.
    - exact s0_corrside.
    - exact s0_snapshot.
    - intros proc st inp time rand m dst Hin. clear H.
      assert (K : known_of s0 = [5; 6]) by (vm_compute; reflexivity). rewrite K. clear K.
      unfold hM in Hin. destruct inp; cbn [hS fst snd In] in Hin;
        repeat (destruct Hin as [Hin|Hin]; [try discriminate; inversion Hin; subst; cbn [In]; tauto|]); contradiction.
    - apply stepof_once. intros proc st inp t r0 n d once Hin. unfold hM in Hin. destruct inp; cbn [hS fst snd In] in Hin;
        repeat (destruct Hin as [Hin|Hin]; [try discriminate; inversion Hin; reflexivity|]); contradiction.
    - exact H.
  Qed.
  (* the continuation really delivers corrupted copies: after four steps process 5 has received "" from process 6 *)
  Lemma example_run : exists sk, sim_op z_ops hS (fun _ => tt) dr (fun l => l) 10 s0 (YSteps 4) = Ok (sk, RetBool true).
  Proof. eexists. vm_compute. reflexivity. Qed.
End Handoff3Ex.

Print Assumptions Handoff3Ex.example_steps3.
