(* PROPERTY C06 -- simulated time: delays, ordering, clocks and stepping are exact.

   Everything is proved for an arbitrary handler, random stream `draws`, `init_state` and `crash_order` (no
   assumption on crash_order is needed), from `laws : time_laws ops` only; `draws_unit` (draws in [0,1)) is used
   only by `send_arrival`.  Panics and fuel exhaustion are excluded: all statements are about calls returning Ok.

   Invariants
     QInv q     : the ids in q_events q are pairwise distinct and below q_count q.
     QTime q    : QInv q, and every LIVE event e of q has q_clock q <= q_time e (nothing is scheduled in the past).
     TimeInv s  := QTime (y_q s).     TimeInv_sys0, sim_op_TimeInv, run_ops_TimeInv, Reachable_TimeInv.
   Frame relations: q_frame (q_next/q_peek: count, rand kept, events only removed), q_grows (delivering an event /
   non-popping API calls: clock kept, events only appended with ids >= the old counter and times >= the clock,
   cancel set only grows), q_drawn (random draws only), y_frame (everything but the queue kept).

   Q1  q_min_spec, q_min_none, q_min_some, q_next_spec, q_peek_spec, q_next_some (with QInv: strict minimality and
       "q_live without e" as a set), q_add_spec (id = q_count, q_count + 1, time = clock + max0 delay),
       QInv_q_add / QInv_q_cancel / QInv_q_cancel_pred / q_frame (q_next, q_peek).
   Q2  sim_op_TimeInv holds for EVERY sim_op with NO side condition.  FINDING: step_for_duration with a negative
       duration d does not break TimeInv (after set_clock t every live event still has time > t), but it moves the
       clock BACKWARDS to now + d (simcore does the same: set_time(end_time)), so the clock is not monotone and
       events are no longer handled in non-decreasing time order across such a call: `neg_duration_clock_back`
       (z_ops, vm_compute): an event is handled at time 5, step_for_duration(-3) puts the clock at 2, a timer set
       then with delay 0 is handled at time 2 < 5.  The side condition `tle tz d` (nonneg_duration) is therefore
       needed for `sim_op_mono` / `run_ops_mono` (clock and id counter never go back) and for the last clause of
       `duration_contract`, not for TimeInv.
   Q3  handled_monotone (two consecutive steps: time1 <= time2; equal times -> id1 < id2, unconditionally; e2 was
       live when e1 was handled or was created by handling e1 with an id above everything queued then),
       handled_sorted (any number of consecutive steps: the handled events are StronglySorted by the strict
       (time, id) order key_lt, are all at/after the initial clock, and the final clock is the last one's time),
       handled_later_not_earlier + handled_at_its_time (whole scripts of API calls with non-negative durations:
       an event handled later has a time >= the clock of any earlier state; an event is handled with the clock
       equal to its time).  A list of handled events for a whole run_ops script is not defined (it would need an
       instrumented copy of sim_op); the run-level statement is given through the monotone clock instead.
   Q4  send_arrival, timer_fires_at, handled_at_its_time, handler_clock / deliver_handler_clock (node_handle and
       deliver depend on the handler only through its values at time argument  clock + skew).
   Q5  step_contract, step_false_no_live, steps_contract, until_no_events_op_contract, duration_contract
       (until_time_contract), until_local_contract, until_local_no_step, until_local_max_contract; the auxiliary
       relation is `StepsW P s evs s'` (the events evs are handled one after the other from s to s', P holds in
       every state a step is taken from), `Steps := StepsW (fun _ => True)`.  step_peeked: the peek_event done by
       step_for_duration before each step does not change what the step does. *)
From Coq Require Import List NArith Bool Lia ZArith Sorted.
From ASV Require Import Base.Util Base.Msg Base.Log Proofs.UtilP Model.Sim Spec.TimeLaws Spec.SimSpec.
Import ListNotations.
Open Scope N_scope.

(* inversion of a successful bind *)
Lemma bind_ok {A B} (r : result A) (f : A -> result B) b :
  bind r f = Ok b -> exists a, r = Ok a /\ f a = Ok b.
Proof. destruct r; cbn; intros H; [eauto | discriminate]. Qed.

Ltac binv H :=
  let a := fresh "a" in let H1 := fresh H "a" in let H2 := fresh H "b" in
  apply bind_ok in H; destruct H as [a [H1 H2]].

Ltac splits := repeat match goal with |- _ /\ _ => split end.

Section SimTimeP.
  Context {T : Type} (ops : time_ops T).
  Context {PS : Type}.
  Variable handler : N -> PS -> input -> T -> (nat -> T) -> PS * list (action T) * nat.
  Variable init_state : N -> PS.
  Variable draws : nat -> T.
  Variable crash_order : list (@qevent T) -> list (@qevent T).

  Hypothesis laws : time_laws ops.

  Notation qevent := (@qevent T).
  Notation simq := (@simq T).
  Notation simsys := (@simsys T PS).
  Notation tle a b := (tleb ops a b = true).
  Notation tlt a b := (tltb ops a b = true).
  Notation ev_before := (ev_before ops).
  Notation q_min := (q_min ops).
  Notation q_next := (q_next ops).
  Notation q_peek := (q_peek ops).
  Notation q_add := (q_add ops).
  Notation tmax0 := (tmax0 ops).

  (* ------------------------------------------------------------------------------------------ *)
  (* the order on time values                                                                    *)
  (* ------------------------------------------------------------------------------------------ *)

  Lemma tle_refl a : tle a a.
  Proof. apply (le_refl ops laws). Qed.

  Lemma tle_trans a b c : tle a b -> tle b c -> tle a c.
  Proof. apply (le_trans ops laws). Qed.

  Lemma tltb_false_iff a b : tltb ops a b = false <-> tle b a.
  Proof.
    pose proof (lt_spec ops laws a b) as L.
    destruct (tltb ops a b) eqn:E.
    - destruct (proj1 L eq_refl) as [_ H]. rewrite H. split; discriminate.
    - split; auto. intros _.
      destruct (tleb ops b a) eqn:E2; auto.
      destruct (le_total ops laws a b) as [H|H]; [|congruence].
      assert (X : false = true) by (apply L; auto). discriminate X.
  Qed.

  Lemma tltb_true_iff a b : tlt a b <-> tleb ops b a = false.
  Proof.
    pose proof (tltb_false_iff a b) as H.
    destruct (tltb ops a b), (tleb ops b a); split; intros X; auto; try discriminate X.
    - destruct H as [_ H]. discriminate (H eq_refl).
    - destruct H as [H _]. discriminate (H eq_refl).
  Qed.

  Lemma tlt_le a b : tlt a b -> tle a b.
  Proof. intros H. apply (lt_spec ops laws) in H. tauto. Qed.

  Lemma tlt_irrefl a : tltb ops a a = false.
  Proof. apply tltb_false_iff, tle_refl. Qed.

  Lemma tle_lt_trans a b c : tle a b -> tlt b c -> tlt a c.
  Proof.
    intros H1 H2. apply tltb_true_iff. apply tltb_true_iff in H2.
    destruct (tleb ops c a) eqn:E; auto.
    rewrite (tle_trans c a b E H1) in H2. discriminate.
  Qed.

  Lemma tlt_le_trans a b c : tlt a b -> tle b c -> tlt a c.
  Proof.
    intros H1 H2. apply tltb_true_iff. apply tltb_true_iff in H1.
    destruct (tleb ops c a) eqn:E; auto.
    rewrite (tle_trans b c a H2 E) in H1. discriminate.
  Qed.

  Lemma tle_antisym a b : tle a b -> tle b a -> a = b.
  Proof. apply (le_antisym ops laws). Qed.

  Lemma tmax0_nonneg d : tle (tz ops) (tmax0 d).
  Proof.
    unfold Sim.tmax0. destruct (tltb ops d (tz ops)) eqn:E.
    - apply tle_refl.
    - apply tltb_false_iff. auto.
  Qed.

  Lemma tmax0_id d : tle (tz ops) d -> tmax0 d = d.
  Proof.
    intros H. unfold Sim.tmax0. apply tltb_false_iff in H. rewrite H. reflexivity.
  Qed.

  Lemma tadd_ge a d : tle (tz ops) d -> tle a (tadd ops a d).
  Proof.
    intros H. pose proof (add_mono_r ops laws a _ _ H) as M. rewrite (add_zero ops laws) in M. exact M.
  Qed.

  (* ------------------------------------------------------------------------------------------ *)
  (* Q1: the event queue                                                                         *)
  (* ------------------------------------------------------------------------------------------ *)

  (* the heap order is a strict order on (time, id) *)
  Lemma ev_before_spec a b :
    ev_before a b = true <-> tlt (q_time a) (q_time b) \/ (q_time a = q_time b /\ q_id a < q_id b).
  Proof.
    unfold Sim.ev_before. rewrite orb_true_iff, andb_true_iff, negb_true_iff, N.ltb_lt, tltb_false_iff.
    split; intros [H|[H1 H2]]; auto.
    - destruct (tltb ops (q_time a) (q_time b)) eqn:E; auto.
      right. split; auto. apply tle_antisym; auto. apply tltb_false_iff; auto.
    - right. rewrite H1. split; auto. apply tle_refl.
  Qed.

  Lemma ev_before_irrefl a : ev_before a a = false.
  Proof.
    destruct (ev_before a a) eqn:E; auto. apply ev_before_spec in E.
    destruct E as [E|[_ E]]; [rewrite tlt_irrefl in E; discriminate | lia].
  Qed.

  Lemma ev_before_trans a b c : ev_before a b = true -> ev_before b c = true -> ev_before a c = true.
  Proof.
    rewrite !ev_before_spec. intros [H1|[H1 H1']] [H2|[H2 H2']].
    - left. eapply tlt_le_trans; eauto. apply tlt_le; auto.
    - left. rewrite <- H2. auto.
    - left. rewrite H1. auto.
    - right. split; [congruence | lia].
  Qed.

  (* e is a minimum of l for the heap order *)
  Definition ev_min (e : qevent) (l : list qevent) : Prop := forall e', In e' l -> ev_before e' e = false.

  (* ... which means: no element is earlier, and among those with the same time none has a smaller id *)
  Lemma ev_before_false a b :
    ev_before a b = false <-> tle (q_time b) (q_time a) /\ (q_time a = q_time b -> q_id b <= q_id a).
  Proof.
    split.
    - intros H. assert (L : tle (q_time b) (q_time a)).
      { apply tltb_false_iff. destruct (tltb ops (q_time a) (q_time b)) eqn:E; auto.
        rewrite (proj2 (ev_before_spec a b)) in H; auto. }
      split; auto. intros Heq.
      destruct (N.lt_ge_cases (q_id a) (q_id b)) as [Hlt|Hge]; [|lia].
      rewrite (proj2 (ev_before_spec a b)) in H; auto. discriminate.
    - intros [H1 H2]. destruct (ev_before a b) eqn:E; auto. apply ev_before_spec in E.
      destruct E as [E|[E1 E2]].
      + apply tltb_true_iff in E. congruence.
      + specialize (H2 E1). lia.
  Qed.

  Lemma ev_min_key e l e' : ev_min e l -> In e' l ->
    tle (q_time e) (q_time e') /\ (q_time e' = q_time e -> q_id e <= q_id e').
  Proof. intros H Hi. apply ev_before_false. apply H, Hi. Qed.

  Lemma ev_min_sub e l l' : ev_min e l -> (forall x, In x l' -> In x l) -> ev_min e l'.
  Proof. intros H Hs e' Hi. apply H, Hs, Hi. Qed.

  (* q_min: None iff the list is empty; otherwise an element that no element is before *)
  Theorem q_min_spec l :
    match q_min l with
    | None => l = []
    | Some m => In m l /\ ev_min m l
    end.
  Proof.
    induction l as [|e r IH]; cbn [Sim.q_min]; auto.
    destruct (q_min r) as [m|] eqn:E.
    - destruct IH as [Hin Hmin].
      destruct (ev_before e m) eqn:B.
      + split; [left; auto|]. intros e' [<-|Hi].
        * apply ev_before_irrefl.
        * destruct (ev_before e' e) eqn:B2; auto.
          rewrite <- (Hmin e' Hi). symmetry. eapply ev_before_trans; eauto.
      + split; [right; auto|]. intros e' [<-|Hi]; auto.
    - subst r. split; [left; auto|]. intros e' [<-|[]]. apply ev_before_irrefl.
  Qed.

  Corollary q_min_none l : q_min l = None <-> l = [].
  Proof.
    split.
    - intros H. pose proof (q_min_spec l) as S. rewrite H in S. exact S.
    - intros ->. reflexivity.
  Qed.

  Corollary q_min_some l m : q_min l = Some m -> In m l /\ ev_min m l.
  Proof. intros H. pose proof (q_min_spec l) as S. rewrite H in S. exact S. Qed.

  (* two minima of the same list have the same time and the same id *)
  Lemma ev_min_unique l a b : In a l -> In b l -> ev_min a l -> ev_min b l ->
    q_time a = q_time b /\ q_id a = q_id b.
  Proof.
    intros Ia Ib Ma Mb.
    destruct (ev_min_key _ _ _ Ma Ib) as [H1 H2]. destruct (ev_min_key _ _ _ Mb Ia) as [H3 H4].
    assert (E : q_time a = q_time b) by (apply tle_antisym; auto).
    split; auto. specialize (H2 (eq_sym E)). specialize (H4 E). lia.
  Qed.

  (* ids in the queue are pairwise distinct and below the counter *)
  Record QInv (q : simq) : Prop := {
    qi_nodup : NoDup (map q_id (q_events q));
    qi_below : forall e, In e (q_events q) -> q_id e < q_count q }.

  Lemma NoDup_map_inj {A B} (f : A -> B) l a b : NoDup (map f l) -> In a l -> In b l -> f a = f b -> a = b.
  Proof.
    induction l as [|x r IH]; cbn; intros Hn Ia Ib E; [contradiction|].
    inversion Hn as [|? ? Hx Hr]; subst.
    destruct Ia as [<-|Ia], Ib as [<-|Ib]; auto.
    - exfalso. apply Hx. rewrite E. apply in_map, Ib.
    - exfalso. apply Hx. rewrite <- E. apply in_map, Ia.
  Qed.

  Lemma QInv_id_inj q a b : QInv q -> In a (q_events q) -> In b (q_events q) -> q_id a = q_id b -> a = b.
  Proof. intros [H _]. apply NoDup_map_inj, H. Qed.

  Lemma q_live_in (q : simq) e : In e (q_live q) <-> In e (q_events q) /\ nmem (q_id e) (q_canceled q) = false.
  Proof. unfold Sim.q_live. rewrite filter_In, negb_true_iff. tauto. Qed.

  (* with distinct ids a minimum is strictly below every other element *)
  Lemma ev_min_strict q e e' : QInv q -> In e (q_events q) -> In e' (q_events q) -> ev_before e' e = false -> e' <> e ->
    tlt (q_time e) (q_time e') \/ (q_time e = q_time e' /\ q_id e < q_id e').
  Proof.
    intros I He He' B Hne. apply ev_before_false in B. destruct B as [B1 B2].
    destruct (tltb ops (q_time e) (q_time e')) eqn:E; auto.
    right. apply tltb_false_iff in E. assert (Et : q_time e' = q_time e) by (apply tle_antisym; auto).
    split; auto. specialize (B2 Et).
    assert (q_id e <> q_id e') by (intros Hid; apply Hne; eapply QInv_id_inj; eauto). lia.
  Qed.

  (* preservation of QInv *)
  Lemma QInv_q_add q d src dst delay q' i : QInv q -> q_add q d src dst delay = Ok (q', i) -> QInv q'.
  Proof.
    intros [Hn Hb]. unfold Sim.q_add. destruct (tneg_eps_le ops delay); [|discriminate].
    intros H. inversion H; subst; clear H. split; cbn [q_with q_events q_count].
    - rewrite map_app. cbn. apply NoDup_snoc; auto.
      intros Hin. apply in_map_iff in Hin. destruct Hin as [e [E1 E2]]. apply Hb in E2. lia.
    - intros e Hin. apply in_app_iff in Hin. destruct Hin as [Hin|[<-|[]]].
      + apply Hb in Hin. lia.
      + cbn. lia.
  Qed.

  Lemma QInv_events (q q' : simq) : q_events q' = q_events q -> q_count q' = q_count q -> QInv q -> QInv q'.
  Proof. intros E1 E2 [Hn Hb]. split; rewrite ?E1, ?E2; auto. Qed.

  Lemma QInv_q_cancel (q : simq) i : QInv q -> QInv (q_cancel q i).
  Proof. apply QInv_events; reflexivity. Qed.

  Lemma QInv_q_cancel_pred (q : simq) p : QInv q -> QInv (q_cancel_pred q p).
  Proof. apply QInv_events; reflexivity. Qed.

  Lemma QInv_filter (q q' : simq) f : q_events q' = filter f (q_events q) -> q_count q' = q_count q -> QInv q -> QInv q'.
  Proof.
    intros E1 E2 [Hn Hb]. split; rewrite ?E1, ?E2.
    - apply NoDup_map_filter; auto.
    - intros e Hin. apply filter_In in Hin. apply Hb, Hin.
  Qed.

  (* dropping a cancelled event (and its id from the cancel set) does not change the live events *)
  Lemma q_live_drop (q : simq) i : nmem i (q_canceled q) = true ->
    q_live (q_with q (q_clock q) (q_remove i (q_events q)) (nrem i (q_canceled q)) (q_count q) (q_rand q)) = q_live q.
  Proof.
    intros Hc. unfold Sim.q_live, Sim.q_remove. cbn [q_with q_events q_canceled].
    rewrite filter_filter. apply filter_ext_in. intros e _.
    destruct (N.eqb (q_id e) i) eqn:E; cbn.
    - apply N.eqb_eq in E. rewrite E, Hc. reflexivity.
    - f_equal. apply N.eqb_neq in E.
      destruct (nmem (q_id e) (q_canceled q)) eqn:M.
      + apply nmem_iff. apply in_nrem. split; auto. apply nmem_iff; auto.
      + apply nmem_false_iff. rewrite in_nrem. intros [H _]. apply nmem_false_iff in M. auto.
  Qed.

  Lemma filter_len_le {A} (f : A -> bool) l : (length (filter f l) <= length l)%nat.
  Proof. induction l as [|x r IH]; cbn; auto. destruct (f x); cbn; lia. Qed.

  Lemma q_remove_length_lt i (l : list qevent) e : In e l -> q_id e = i -> (length (q_remove i l) < length l)%nat.
  Proof.
    intros Hin <-. unfold Sim.q_remove. induction l as [|x r IH]; [contradiction|]. cbn.
    destruct Hin as [->|Hin].
    - rewrite N.eqb_refl. cbn. pose proof (filter_len_le (fun e0 => negb (N.eqb (q_id e0) (q_id e))) r). lia.
    - specialize (IH Hin). destruct (negb (N.eqb (q_id x) (q_id e))); cbn; lia.
  Qed.

  (* what q_next / q_peek leave unchanged *)
  Record q_frame (q q' : simq) : Prop := {
    qf_count : q_count q' = q_count q;
    qf_rand : q_rand q' = q_rand q;
    qf_sub : forall e, In e (q_events q') -> In e (q_events q);
    qf_inv : QInv q -> QInv q' }.

  Lemma q_frame_refl q : q_frame q q.
  Proof. split; auto. Qed.

  Lemma q_frame_trans q1 q2 q3 : q_frame q1 q2 -> q_frame q2 q3 -> q_frame q1 q3.
  Proof.
    intros [A1 A2 A3 A4] [B1 B2 B3 B4]. split; try congruence; auto.
  Qed.

  Lemma q_frame_drop (q : simq) i :
    q_frame q (q_with q (q_clock q) (q_remove i (q_events q)) (nrem i (q_canceled q)) (q_count q) (q_rand q)).
  Proof.
    split; cbn [q_with q_count q_rand q_events]; auto.
    - intros e H. unfold Sim.q_remove in H. apply filter_In in H. tauto.
    - apply QInv_filter with (f := fun e => negb (N.eqb (q_id e) i)); reflexivity.
  Qed.

  Lemma q_next_fuel_spec fuel : forall q, (length (q_events q) < fuel)%nat ->
    match q_next_fuel ops fuel q with
    | (q', Some e) =>
      In e (q_live q) /\ ev_min e (q_live q) /\ q_clock q' = q_time e /\
      q_live q' = filter (fun x => negb (N.eqb (q_id x) (q_id e))) (q_live q) /\ q_frame q q'
    | (q', None) => q_live q = [] /\ q_live q' = [] /\ q_clock q' = q_clock q /\ q_frame q q'
    end.
  Proof.
    induction fuel as [|f IH]; intros q Hlen; [lia|].
    cbn [q_next_fuel].
    destruct (q_min (q_events q)) as [e|] eqn:M.
    - apply q_min_some in M. destruct M as [Hin Hmin].
      destruct (nmem (q_id e) (q_canceled q)) eqn:C.
      + set (q1 := q_with q (q_clock q) (q_remove (q_id e) (q_events q)) (nrem (q_id e) (q_canceled q))
                          (q_count q) (q_rand q)).
        assert (L : q_live q1 = q_live q) by (apply q_live_drop; auto).
        assert (F : q_frame q q1) by apply q_frame_drop.
        assert (Hl : (length (q_events q1) < f)%nat).
        { pose proof (q_remove_length_lt (q_id e) (q_events q) e Hin eq_refl). cbn [q1 q_with q_events]. lia. }
        specialize (IH q1 Hl). destruct (q_next_fuel ops f q1) as [q' [e'|]].
        * rewrite L in IH. destruct IH as (A & B & C' & D & E). splits; auto.
          eapply q_frame_trans; eauto.
        * rewrite L in IH. destruct IH as (A & B & C' & D). splits; auto.
          eapply q_frame_trans; eauto.
      + assert (Hl : In e (q_live q)) by (apply q_live_in; auto).
        split; auto. split.
        { eapply ev_min_sub; eauto. intros x Hx. apply q_live_in in Hx. tauto. }
        split; [reflexivity|]. split.
        * unfold Sim.q_live, Sim.q_remove. cbn [q_with q_events q_canceled].
          rewrite !filter_filter. apply filter_ext. intros x. apply andb_comm.
        * split; cbn [q_with q_count q_rand q_events]; auto.
          -- intros x H. unfold Sim.q_remove in H. apply filter_In in H. tauto.
          -- apply QInv_filter with (f := fun x => negb (N.eqb (q_id x) (q_id e))); reflexivity.
    - apply q_min_none in M. unfold Sim.q_live. rewrite M. cbn. splits; auto using q_frame_refl.
  Qed.

  (* next_event *)
  Theorem q_next_spec q :
    match q_next q with
    | (q', Some e) =>
      In e (q_live q) /\ ev_min e (q_live q) /\ q_clock q' = q_time e /\
      q_live q' = filter (fun x => negb (N.eqb (q_id x) (q_id e))) (q_live q) /\ q_frame q q'
    | (q', None) => q_live q = [] /\ q_live q' = [] /\ q_clock q' = q_clock q /\ q_frame q q'
    end.
  Proof. apply q_next_fuel_spec. lia. Qed.

  Lemma q_peek_fuel_spec fuel : forall q, (length (q_events q) < fuel)%nat ->
    let '(q', oe) := q_peek_fuel ops fuel q in
    q_live q' = q_live q /\ q_clock q' = q_clock q /\ q_frame q q' /\
    match oe with
    | Some e => In e (q_live q) /\ ev_min e (q_live q)
    | None => q_live q = []
    end.
  Proof.
    induction fuel as [|f IH]; intros q Hlen; [lia|].
    cbn [q_peek_fuel].
    destruct (q_min (q_events q)) as [e|] eqn:M.
    - apply q_min_some in M. destruct M as [Hin Hmin].
      destruct (nmem (q_id e) (q_canceled q)) eqn:C.
      + set (q1 := q_with q (q_clock q) (q_remove (q_id e) (q_events q)) (nrem (q_id e) (q_canceled q))
                          (q_count q) (q_rand q)).
        assert (L : q_live q1 = q_live q) by (apply q_live_drop; auto).
        assert (F : q_frame q q1) by apply q_frame_drop.
        assert (Hl : (length (q_events q1) < f)%nat).
        { pose proof (q_remove_length_lt (q_id e) (q_events q) e Hin eq_refl). cbn [q1 q_with q_events]. lia. }
        specialize (IH q1 Hl). destruct (q_peek_fuel ops f q1) as [q' oe].
        rewrite L in IH. destruct IH as (A & B & C' & D). splits; auto.
        eapply q_frame_trans; eauto.
      + splits; auto using q_frame_refl.
        * apply q_live_in; auto.
        * eapply ev_min_sub; eauto. intros x Hx. apply q_live_in in Hx. tauto.
    - apply q_min_none in M. unfold Sim.q_live. rewrite M. cbn. splits; auto using q_frame_refl.
  Qed.

  (* peek_event: the live events and the clock stay; the result is the minimum live event *)
  Theorem q_peek_spec q :
    let '(q', oe) := q_peek q in
    q_live q' = q_live q /\ q_clock q' = q_clock q /\ q_frame q q' /\
    match oe with
    | Some e => In e (q_live q) /\ ev_min e (q_live q)
    | None => q_live q = []
    end.
  Proof. apply q_peek_fuel_spec. lia. Qed.

  (* ------------------------------------------------------------------------------------------ *)
  (* Q2: nothing is scheduled in the past                                                        *)
  (* ------------------------------------------------------------------------------------------ *)

  Record QTime (q : simq) : Prop := {
    qt_inv : QInv q;
    qt_future : forall e, In e (q_live q) -> tle (q_clock q) (q_time e) }.

  Definition TimeInv (s : simsys) : Prop := QTime (y_q s).

  (* what handling an event (or an API call that does not pop) may do to the queue: the clock stays, events are
     only appended, with fresh ids and times not before the clock, ids are only added to the cancel set *)
  Record q_grows (q q' : simq) : Prop := {
    qg_clock : q_clock q' = q_clock q;
    qg_events : exists new, q_events q' = q_events q ++ new /\
                  Forall (fun e => q_count q <= q_id e /\ tle (q_clock q) (q_time e)) new;
    qg_count : q_count q <= q_count q';
    qg_rand : (q_rand q <= q_rand q')%nat;
    qg_canc : forall i, In i (q_canceled q) -> In i (q_canceled q');
    qg_inv : QInv q -> QInv q' }.

  Lemma q_grows_refl q : q_grows q q.
  Proof.
    split; auto; try lia. exists []. rewrite app_nil_r. split; auto.
  Qed.

  Lemma q_grows_trans q1 q2 q3 : q_grows q1 q2 -> q_grows q2 q3 -> q_grows q1 q3.
  Proof.
    intros [A1 [n1 [A2 A2']] A3 A4 A5 A6] [B1 [n2 [B2 B2']] B3 B4 B5 B6].
    split; auto; try lia; try congruence.
    exists (n1 ++ n2). split.
    - rewrite B2, A2, app_assoc. reflexivity.
    - apply Forall_app. split; auto.
      eapply Forall_impl; [|exact B2']. cbn. intros e [H1 H2]. rewrite A1 in H2. split; auto. lia.
  Qed.

  Lemma q_grows_same (q q' : simq) :
    q_clock q' = q_clock q -> q_events q' = q_events q -> q_count q' = q_count q -> (q_rand q <= q_rand q')%nat ->
    (forall i, In i (q_canceled q) -> In i (q_canceled q')) -> q_grows q q'.
  Proof.
    intros H1 H2 H3 H4 H5. split; auto; try lia.
    - exists []. rewrite app_nil_r. split; auto.
    - apply QInv_events; auto.
  Qed.

  Lemma QTime_grows q q' : QTime q -> q_grows q q' -> QTime q'.
  Proof.
    intros [I F] [G1 [new [G2 G2']] G3 G4 G5 G6]. split; auto.
    intros e He. apply q_live_in in He. destruct He as [He Hc]. rewrite G1.
    rewrite G2 in He. apply in_app_iff in He. destruct He as [He|He].
    - apply F. apply q_live_in. split; auto.
      apply nmem_false_iff. apply nmem_false_iff in Hc. auto.
    - rewrite Forall_forall in G2'. apply G2' in He. tauto.
  Qed.

  (* add_event: the id is the counter, which grows; the time is clock + max(delay, 0) *)
  Lemma q_add_spec q d src dst delay q' i : q_add q d src dst delay = Ok (q', i) ->
    i = q_count q /\
    q' = q_with q (q_clock q)
           (q_events q ++ [{| q_id := q_count q; q_time := tadd ops (q_clock q) (tmax0 delay); q_src := src;
                              q_dst := dst; q_data := d |}])
           (q_canceled q) (q_count q + 1) (q_rand q).
  Proof.
    unfold Sim.q_add. destruct (tneg_eps_le ops delay); [|discriminate].
    intros H. inversion H; subst; auto.
  Qed.

  Lemma q_add_grows q d src dst delay q' i : q_add q d src dst delay = Ok (q', i) -> q_grows q q'.
  Proof.
    intros H. pose proof (fun I => QInv_q_add q d src dst delay q' i I H) as HI.
    apply q_add_spec in H. destruct H as [-> ->].
    split; cbn [q_with q_clock q_events q_count q_rand q_canceled]; auto; try lia.
    eexists. split; [reflexivity|]. constructor; auto. cbn. split; [lia|].
    apply tadd_ge, tmax0_nonneg.
  Qed.

  Lemma q_cancel_grows (q : simq) i : q_grows q (q_cancel q i).
  Proof.
    apply q_grows_same; cbn; auto. intros j Hj. apply in_nins. auto.
  Qed.

  Lemma in_fold_cancel (p : qevent -> bool) l : forall acc i, In i acc ->
    In i (fold_left (fun acc e => if p e then nins (q_id e) acc else acc) l acc).
  Proof.
    induction l as [|x r IH]; cbn; intros acc i H; auto.
    apply IH. destruct (p x); auto. apply in_nins. auto.
  Qed.

  Lemma q_cancel_pred_grows (q : simq) p : q_grows q (q_cancel_pred q p).
  Proof.
    apply q_grows_same; cbn; auto. intros j Hj. apply in_fold_cancel. auto.
  Qed.

  (* consuming random draws changes nothing else *)
  Record q_drawn (q q' : simq) : Prop := {
    qd_clock : q_clock q' = q_clock q;
    qd_events : q_events q' = q_events q;
    qd_canc : q_canceled q' = q_canceled q;
    qd_count : q_count q' = q_count q;
    qd_rand : (q_rand q <= q_rand q')%nat }.

  Lemma q_drawn_refl q : q_drawn q q.
  Proof. split; auto. Qed.

  Lemma q_drawn_trans q1 q2 q3 : q_drawn q1 q2 -> q_drawn q2 q3 -> q_drawn q1 q3.
  Proof. intros [] []. split; try congruence; lia. Qed.

  Lemma q_drawn_grows q q' : q_drawn q q' -> q_grows q q'.
  Proof. intros []. apply q_grows_same; auto. intros i. congruence. Qed.

  Lemma q_draw_drawn (q : simq) : q_drawn q (snd (q_draw draws q)).
  Proof. split; cbn; auto. Qed.

  Lemma copy_delays_drawn k n : forall q ds q', copy_delays ops draws k n q = (ds, q') -> q_drawn q q'.
  Proof.
    induction k as [|k IH]; cbn [copy_delays]; intros q ds q' H.
    - inversion H; subst. apply q_drawn_refl.
    - destruct (q_draw draws q) as [r q1] eqn:D.
      destruct (copy_delays ops draws k n q1) as [ds' q2] eqn:C. inversion H; subst.
      eapply q_drawn_trans; [|eapply IH; eauto].
      pose proof (q_draw_drawn q) as X. rewrite D in X. exact X.
  Qed.

  Lemma net_fate_drawn n q m sn dn f q' : net_fate ops draws n q m sn dn = (f, q') -> q_drawn q q'.
  Proof.
    unfold Sim.net_fate.
    destruct (q_draw draws q) as [r0 q0] eqn:D0. pose proof (q_draw_drawn q) as X0. rewrite D0 in X0. cbn in X0.
    destruct (tltb ops r0 (sn_drop n) || link_cut n sn dn).
    - intros H. inversion H; subst. auto.
    - destruct (q_draw draws q0) as [r1 q1] eqn:D1. pose proof (q_draw_drawn q0) as X1. rewrite D1 in X1. cbn in X1.
      destruct (q_draw draws q1) as [r2 q2] eqn:D2. pose proof (q_draw_drawn q1) as X2. rewrite D2 in X2. cbn in X2.
      destruct (negb (tltb ops r2 (sn_dupl n))).
      + destruct (copy_delays ops draws 1 n q2) as [ds q3] eqn:C. intros H. inversion H; subst.
        apply copy_delays_drawn in C. eauto using q_drawn_trans.
      + destruct (q_draw draws q2) as [r3 q3] eqn:D3. pose proof (q_draw_drawn q2) as X3. rewrite D3 in X3. cbn in X3.
        destruct (copy_delays ops draws _ n q3) as [ds q4] eqn:C. intros H. inversion H; subst.
        apply copy_delays_drawn in C. eauto using q_drawn_trans.
  Qed.

  Lemma emit_copies_grows d src dst ds : forall q q', emit_copies ops q d src dst ds = Ok q' -> q_grows q q'.
  Proof.
    induction ds as [|dl r IH]; cbn [emit_copies]; intros q q' H.
    - inversion H; subst. apply q_grows_refl.
    - binv H. destruct a as [q1 i]. apply q_add_grows in Ha. eapply q_grows_trans; eauto.
  Qed.

  Lemma net_send_grows n q m src dst n' q' logs :
    net_send ops draws n q m src dst = Ok (n', q', logs) -> q_grows q q'.
  Proof.
    unfold Sim.net_send.
    destruct (sget N.compare src (sn_loc n)) as [sn|]; [|discriminate].
    destruct (sget N.compare dst (sn_loc n)) as [dn|]; [|discriminate].
    destruct (sget N.compare sn (sn_node_ids n)) as [sid|]; [|discriminate].
    destruct (sget N.compare dn (sn_node_ids n)) as [did|]; [|discriminate].
    destruct (N.eqb sn dn).
    - intros H. binv H. destruct a as [q1 i]. inversion Hb; subst. eapply q_add_grows; eauto.
    - destruct (net_fate ops draws n q m sn dn) as [f q1] eqn:F. apply net_fate_drawn, q_drawn_grows in F.
      destruct f as [|m' ds].
      + intros H. inversion H; subst. auto.
      + intros H. binv H. inversion Hb; subst. apply emit_copies_grows in Ha. eapply q_grows_trans; eauto.
  Qed.

  Lemma node_action_grows nname nid proc time (p : pentry T PS) lc w a p' lc' w' :
    node_action ops draws nname nid proc time p lc w a = Ok (p', lc', w') -> q_grows (w_q w) (w_q w').
  Proof.
    unfold Sim.node_action. destruct a as [m dst|m|name delay once|name].
    - intros H. binv H. destruct a as [[n' q'] logs]. inversion Hb; subst. cbn [w_q].
      eapply net_send_grows; eauto.
    - intros H. inversion H; subst. cbn [w_q]. apply q_grows_refl.
    - destruct (sget N.compare name (pe_ptimers p)) as [old|].
      + destruct once.
        * intros H. inversion H; subst. apply q_grows_refl.
        * intros H. binv H. destruct a as [q2 i]. inversion Hb; subst. cbn [w_q].
          eapply q_grows_trans; [apply q_cancel_grows | eapply q_add_grows; eauto].
      + intros H. binv H. destruct a as [q2 i]. inversion Hb; subst. cbn [w_q]. eapply q_add_grows; eauto.
    - destruct (sget N.compare name (pe_ptimers p)) as [i|]; intros H; inversion H; subst; cbn [w_q].
      + apply q_cancel_grows.
      + apply q_grows_refl.
  Qed.

  Lemma node_actions_grows nname nid proc time acts : forall (p : pentry T PS) lc w p' lc' w',
    node_actions ops draws nname nid proc time p lc w acts = Ok (p', lc', w') -> q_grows (w_q w) (w_q w').
  Proof.
    induction acts as [|a r IH]; cbn [node_actions]; intros p lc w p' lc' w' H.
    - inversion H; subst. apply q_grows_refl.
    - binv H. destruct a0 as [[p1 lc1] w1]. apply node_action_grows in Ha. eapply q_grows_trans; eauto.
  Qed.

  Lemma node_handle_grows nname nd proc k w nd' w' :
    node_handle ops handler draws nname nd proc k w = Ok (nd', w') -> q_grows (w_q w) (w_q w').
  Proof.
    unfold Sim.node_handle.
    destruct (sget N.compare proc (sd_procs nd)) as [p|]; [|discriminate].
    match goal with |- context [let '(_, _) := ?x in _] => destruct x as [p1 tlog] end.
    match goal with |- context [handler ?a ?b ?c ?d ?e] => destruct (handler a b c d e) as [[st' acts] used] end.
    intros H. binv H. destruct a as [[p3 lc] w2]. inversion Hb; subst.
    apply node_actions_grows in Ha. cbn [w_q] in Ha.
    eapply q_grows_trans; [|exact Ha].
    apply q_grows_same; cbn; auto. lia.
  Qed.

  Lemma deliver_grows s e s' : deliver ops handler draws s e = Ok s' -> q_grows (y_q s) (y_q s').
  Proof.
    unfold Sim.deliver.
    destruct (sget N.compare (q_dst e) (y_handlers s)) as [[|]|].
    2,3: intros H; inversion H; subst; apply q_grows_refl.
    destruct (find _ (y_nodes s)) as [[nname nd]|]; [|discriminate].
    intros H. binv H. destruct a as [nd' w']. inversion Hb; subst. cbn [y_with y_q].
    destruct (q_data e); apply node_handle_grows in Ha; exact Ha.
  Qed.

  (* the state in which the popped event is delivered *)
  Definition popped (s : simsys) (q' : simq) : simsys := y_with s q' (y_net s) (y_nodes s) (y_log s).

  Lemma QTime_next q q' oe : QTime q -> q_next q = (q', oe) -> QTime q'.
  Proof.
    intros [I F] H. pose proof (q_next_spec q) as S. rewrite H in S. destruct oe as [e|].
    - destruct S as (A & B & C & D & E). split; [apply E, I|].
      intros x Hx. rewrite D in Hx. apply filter_In in Hx. destruct Hx as [Hx _].
      rewrite C. apply (ev_min_key _ _ _ B Hx).
    - destruct S as (A & B & C & D). split; [apply D, I|]. rewrite B. intros x [].
  Qed.

  Lemma QTime_peek q q' oe : QTime q -> q_peek q = (q', oe) -> QTime q'.
  Proof.
    intros [I F] H. pose proof (q_peek_spec q) as S. rewrite H in S.
    destruct S as (A & B & C & D). split; [apply C, I|]. rewrite A, B. exact F.
  Qed.

  Lemma step_TimeInv s s' b : TimeInv s -> step ops handler draws s = Ok (s', b) -> TimeInv s'.
  Proof.
    unfold TimeInv, Sim.step. intros I.
    destruct (q_next (y_q s)) as [q' oe] eqn:N. pose proof (QTime_next _ _ _ I N) as I'.
    destruct oe as [e|].
    - intros H. binv H. inversion Hb; subst. apply deliver_grows in Ha. cbn [y_with y_q] in Ha.
      eapply QTime_grows; eauto.
    - intros H. inversion H; subst. exact I'.
  Qed.

  Lemma steps_fuel_TimeInv fuel : forall s n s' b, TimeInv s -> steps_fuel ops handler draws fuel s n = Ok (s', b) -> TimeInv s'.
  Proof.
    induction fuel as [|f IH]; cbn [steps_fuel]; intros s n s' b I H; [discriminate|].
    destruct (N.eqb n 0); [inversion H; subst; auto|].
    binv H. destruct a as [s1 b1]. apply step_TimeInv in Ha; auto.
    destruct b1; [eauto | inversion Hb; subst; auto].
  Qed.

  Lemma until_no_events_TimeInv fuel : forall s s', TimeInv s -> until_no_events ops handler draws fuel s = Ok s' -> TimeInv s'.
  Proof.
    induction fuel as [|f IH]; cbn [until_no_events]; intros s s' I H; [discriminate|].
    binv H. destruct a as [s1 b1]. apply step_TimeInv in Ha; auto.
    destruct b1; [eauto | inversion Hb; subst; auto].
  Qed.

  (* step_for_duration: no side condition is needed for this invariant, even when the target time is in the past
     (the clock then moves BACKWARDS, see `neg_duration_clock_back` below) *)
  Lemma until_time_TimeInv fuel t : forall s s' b, TimeInv s -> until_time ops handler draws fuel s t = Ok (s', b) -> TimeInv s'.
  Proof.
    induction fuel as [|f IH]; cbn [until_time]; intros s s' b I H; [discriminate|].
    destruct (q_peek (y_q s)) as [q' oe] eqn:P.
    pose proof (QTime_peek _ _ _ I P) as I'. pose proof (q_peek_spec (y_q s)) as S. rewrite P in S.
    destruct S as (A & B & C & D).
    destruct oe as [e|].
    - destruct (tltb ops t (q_time e)) eqn:L.
      + inversion H; subst. destruct I' as [I1 I2]. split.
        * eapply QInv_events; [| |exact I1]; reflexivity.
        * unfold set_clock. cbn [y_with y_q q_with q_clock]. unfold q_live. cbn [q_with q_events q_canceled].
          fold (q_live q'). rewrite A. intros x Hx. destruct D as [D1 D2].
          apply tlt_le. eapply tlt_le_trans; [exact L|]. apply (ev_min_key _ _ _ D2 Hx).
      + binv H. destruct a as [s2 b2]. apply step_TimeInv in Ha; [eauto|]. exact I'.
    - inversion H; subst. destruct I' as [I1 I2]. split.
      + eapply QInv_events; [| |exact I1]; reflexivity.
      + unfold set_clock. cbn [y_with y_q q_with q_clock]. unfold q_live. cbn [q_with q_events q_canceled].
        fold (q_live q'). rewrite A, D. intros x [].
  Qed.

  Lemma read_local_q (s : simsys) proc s' r : read_local s proc = Ok (s', r) -> y_q s' = y_q s.
  Proof.
    unfold Sim.read_local. intros H. binv H. destruct a as [nname nd].
    destruct (sget N.compare proc (sd_procs nd)) as [p|]; [|discriminate].
    destruct (pe_outbox p); inversion Hb; subst; reflexivity.
  Qed.

  Lemma until_local_TimeInv fuel proc : forall s s' r, TimeInv s ->
    until_local ops handler draws fuel s proc = Ok (s', r) -> TimeInv s'.
  Proof.
    induction fuel as [|f IH]; cbn [until_local]; intros s s' r I H; [discriminate|].
    binv H. destruct a as [s1 r1]. apply read_local_q in Ha.
    assert (I1 : TimeInv s1) by (unfold TimeInv; rewrite Ha; exact I).
    destruct r1; [inversion Hb; subst; auto|].
    binv Hb. destruct a as [s2 b]. apply step_TimeInv in Hba; auto.
    destruct b; [eauto | inversion Hbb; subst; auto].
  Qed.

  Lemma until_local_max_TimeInv fuel proc mx : forall s k s' r, TimeInv s ->
    until_local_max ops handler draws fuel s proc k mx = Ok (s', r) -> TimeInv s'.
  Proof.
    induction fuel as [|f IH]; cbn [until_local_max]; intros s k s' r I H; [discriminate|].
    destruct (N.ltb k mx); [|inversion H; subst; auto].
    binv H. destruct a as [s1 b]. apply step_TimeInv in Ha; auto.
    destruct b; [|inversion Hb; subst; auto].
    binv Hb. destruct a as [s2 r2]. apply read_local_q in Hba.
    assert (I2 : TimeInv s2) by (unfold TimeInv; rewrite Hba; exact Ha).
    destruct r2; [inversion Hbb; subst; auto | eauto].
  Qed.

  Lemma until_local_timeout_TimeInv fuel proc t : forall s s' r, TimeInv s ->
    until_local_timeout ops handler draws fuel s proc t = Ok (s', r) -> TimeInv s'.
  Proof.
    induction fuel as [|f IH]; cbn [until_local_timeout]; intros s s' r I H; [discriminate|].
    destruct (tltb ops (now s) t); [|inversion H; subst; auto].
    binv H. destruct a as [s1 r1]. apply read_local_q in Ha.
    assert (I1 : TimeInv s1) by (unfold TimeInv; rewrite Ha; exact I).
    destruct r1; [inversion Hb; subst; auto|].
    binv Hb. destruct a as [s2 b]. apply step_TimeInv in Hba; auto.
    destruct b; [eauto | inversion Hbb; subst; auto].
  Qed.

  Lemma TimeInv_sys0 : TimeInv (sys0 ops (PS := PS)).
  Proof.
    split; cbn.
    - split; cbn; [constructor | intros e []].
    - intros e [].
  Qed.

  Notation sim_op := (sim_op ops handler init_state draws crash_order).
  Notation run_ops := (run_ops ops handler init_state draws crash_order).

  Theorem sim_op_TimeInv fuel s o s' r : TimeInv s -> sim_op fuel s o = Ok (s', r) -> TimeInv s'.
  Proof.
    intros I. destruct o; cbn [Sim.sim_op].
    - destruct (shas N.compare name (y_nodes s)); [discriminate|]. intros H; inversion H; subst. exact I.
    - destruct (sget N.compare node (y_nodes s)); [|discriminate].
      destruct (shas N.compare proc (y_proc_nodes s)); [discriminate|]. intros H; inversion H; subst. exact I.
    - destruct (sget N.compare node (y_nodes s)); [|discriminate]. intros H; inversion H; subst. exact I.
    - destruct (snet_apply (y_net s) (now s) o). intros H; inversion H; subst. exact I.
    - intros H. binv H. destruct a as [nname nd]. destruct (sd_crashed nd); [discriminate|].
      binv Hb. destruct a as [nd' w']. inversion Hbb; subst. apply node_handle_grows in Hba.
      unfold TimeInv. cbn [y_with y_q w_q] in *. eapply QTime_grows; eauto.
    - intros H. binv H. destruct a as [s1 r1]. inversion Hb; subst. apply read_local_q in Ha.
      unfold TimeInv. rewrite Ha. exact I.
    - destruct (sget N.compare node (y_nodes s)); [|discriminate]. intros H; inversion H; subst.
      unfold TimeInv, set_handler. cbn [y_with y_q].
      eapply QTime_grows; [|apply q_cancel_pred_grows]. eapply QTime_grows; [|apply q_cancel_pred_grows]. exact I.
    - destruct (sget N.compare node (y_nodes s)) as [nd|]; [|discriminate].
      destruct (negb (sd_crashed nd)); [discriminate|].
      destruct (sget N.compare (sd_id nd) (y_handlers s)) as [[|]|]; [discriminate| |];
        intros H; inversion H; subst; exact I.
    - intros H. binv H. destruct a as [s1 b]. inversion Hb; subst. eapply step_TimeInv; eauto.
    - intros H. binv H. destruct a as [s1 b]. inversion Hb; subst. eapply steps_fuel_TimeInv; eauto.
    - intros H. binv H. inversion Hb; subst. eapply until_no_events_TimeInv; eauto.
    - intros H. binv H. destruct a as [s1 b]. inversion Hb; subst. eapply until_time_TimeInv; eauto.
    - intros H. binv H. binv Hb. destruct a0 as [s1 r1]. inversion Hbb; subst. eapply until_local_TimeInv; eauto.
    - intros H. binv H. binv Hb. destruct a0 as [s1 r1]. apply read_local_q in Hba.
      assert (I1 : TimeInv s1) by (unfold TimeInv; rewrite Hba; exact I).
      destruct r1; [inversion Hbb; subst; auto|].
      binv Hbb. destruct a0 as [s2 r2]. inversion Hbbb; subst. eapply until_local_max_TimeInv; eauto.
    - intros H. binv H. binv Hb. destruct a0 as [s1 r1]. inversion Hbb; subst. eapply until_local_timeout_TimeInv; eauto.
  Qed.

  Theorem run_ops_TimeInv fuel l : forall s s' rets, TimeInv s -> run_ops fuel s l = Ok (s', rets) -> TimeInv s'.
  Proof.
    induction l as [|o r IH]; cbn [SimSpec.run_ops]; intros s s' rets I H.
    - inversion H; subst. exact I.
    - binv H. destruct a as [s1 ret]. binv Hb. destruct a as [s2 rets2]. inversion Hbb; subst.
      eapply IH; [|eauto]. eapply sim_op_TimeInv; eauto.
  Qed.

  Theorem Reachable_TimeInv s : Reachable ops handler init_state draws crash_order s -> TimeInv s.
  Proof.
    intros (fuel & l & rets & H). eapply run_ops_TimeInv; [apply TimeInv_sys0 | exact H].
  Qed.

  (* ------------------------------------------------------------------------------------------ *)
  (* Q5 (a): step                                                                                *)
  (* ------------------------------------------------------------------------------------------ *)

  Notation step := (step ops handler draws).
  Notation deliver := (deliver ops handler draws).

  (* one step that handles e: e is popped, then delivered *)
  Definition step_ev (s : simsys) (e : qevent) (s' : simsys) : Prop :=
    exists q', q_next (y_q s) = (q', Some e) /\ deliver (popped s q') e = Ok s'.

  (* strict (time, id) order *)
  Definition key_lt (a b : qevent) : Prop :=
    tlt (q_time a) (q_time b) \/ (q_time a = q_time b /\ q_id a < q_id b).

  (* everything but the queue is the same *)
  Record y_frame (s s' : simsys) : Prop := {
    yf_net : y_net s' = y_net s;
    yf_nodes : y_nodes s' = y_nodes s;
    yf_proc_nodes : y_proc_nodes s' = y_proc_nodes s;
    yf_handlers : y_handlers s' = y_handlers s;
    yf_ncomp : y_ncomp s' = y_ncomp s;
    yf_log : y_log s' = y_log s }.

  Lemma y_frame_refl s : y_frame s s.
  Proof. split; auto. Qed.

  Lemma y_frame_trans s1 s2 s3 : y_frame s1 s2 -> y_frame s2 s3 -> y_frame s1 s3.
  Proof. intros [] []. split; congruence. Qed.

  Lemma y_frame_popped s q' : y_frame s (popped s q').
  Proof. split; reflexivity. Qed.

  Lemma step_true_iff s s' : step s = Ok (s', true) <-> exists e, step_ev s e s'.
  Proof.
    unfold Sim.step, step_ev, popped. destruct (q_next (y_q s)) as [q' [e|]]; split.
    - intros H. binv H. inversion Hb; subst. eauto.
    - intros (e' & q'' & H1 & H2). inversion H1; subst. rewrite H2. reflexivity.
    - discriminate.
    - intros (e' & q'' & H1 & H2). discriminate.
  Qed.

  Lemma step_false_iff s s' : step s = Ok (s', false) <-> exists q', q_next (y_q s) = (q', None) /\ s' = popped s q'.
  Proof.
    unfold Sim.step, popped. destruct (q_next (y_q s)) as [q' [e|]]; split.
    - intros H. binv H. inversion Hb.
    - intros (q'' & H1 & H2). discriminate.
    - intros H. inversion H; subst. eauto.
    - intros (q'' & H1 & H2). inversion H1; subst. reflexivity.
  Qed.

  Lemma live_without (q : simq) e : QInv q -> In e (q_events q) -> forall x,
    In x (filter (fun x => negb (N.eqb (q_id x) (q_id e))) (q_live q)) <-> In x (q_live q) /\ x <> e.
  Proof.
    intros I He x. rewrite filter_In, negb_true_iff, N.eqb_neq. split; intros [H1 H2]; split; auto.
    - intros ->. auto.
    - intros Hid. apply H2. apply q_live_in in H1. eapply QInv_id_inj; eauto. tauto.
  Qed.

  Lemma key_lt_before a b : key_lt a b <-> ev_before a b = true.
  Proof. symmetry. apply ev_before_spec. Qed.

  (* popping: what q_next does, with distinct ids *)
  Lemma q_next_some q q' e : QTime q -> q_next q = (q', Some e) ->
    In e (q_live q) /\
    (forall x, In x (q_live q) -> x <> e -> key_lt e x) /\
    (forall x, In x (q_live q') <-> In x (q_live q) /\ x <> e) /\
    q_clock q' = q_time e /\ q_count q' = q_count q /\ q_rand q' = q_rand q /\ QTime q'.
  Proof.
    intros I H. pose proof (QTime_next _ _ _ I H) as I'. destruct I as [I F].
    pose proof (q_next_spec q) as S. rewrite H in S. destruct S as (A & B & C & D & E).
    assert (Ae : In e (q_events q)) by (apply q_live_in in A; tauto).
    splits; auto.
    - intros x Hx Hne. eapply ev_min_strict; eauto.
      apply q_live_in in Hx; tauto.
    - intros x. rewrite D. apply live_without; auto.
    - apply E.
    - apply E.
  Qed.

  Theorem step_contract s s' b : TimeInv s -> step s = Ok (s', b) ->
    TimeInv s' /\
    (if b then
       (* exactly one event, the (time, id)-minimum of the live ones, is removed and delivered at its time *)
       exists e q', q_next (y_q s) = (q', Some e) /\ deliver (popped s q') e = Ok s' /\
         In e (q_live (y_q s)) /\
         (forall x, In x (q_live (y_q s)) -> x <> e -> key_lt e x) /\
         (forall x, In x (q_live q') <-> In x (q_live (y_q s)) /\ x <> e) /\
         q_clock q' = q_time e /\ q_count q' = q_count (y_q s) /\ q_rand q' = q_rand (y_q s) /\
         now s' = q_time e
     else
       (* no live event: only cancelled events are dropped *)
       q_live (y_q s) = [] /\ q_live (y_q s') = [] /\ now s' = now s /\ y_frame s s' /\
       q_count (y_q s') = q_count (y_q s) /\ q_rand (y_q s') = q_rand (y_q s)).
  Proof.
    intros I H. split; [eapply step_TimeInv; eauto|].
    destruct b.
    - apply step_true_iff in H. destruct H as (e & q' & H1 & H2). exists e, q'.
      destruct (q_next_some _ _ _ I H1) as (A & B & C & D & E & F & G).
      splits; auto.
      apply deliver_grows in H2. unfold now. rewrite (qg_clock _ _ H2). exact D.
    - apply step_false_iff in H. destruct H as (q' & H1 & ->).
      pose proof (q_next_spec (y_q s)) as S. rewrite H1 in S. destruct S as (A & B & C & D).
      splits; auto.
      + apply y_frame_popped.
      + apply D.
      + apply D.
  Qed.

  Corollary step_false_no_live s s' b : TimeInv s -> step s = Ok (s', b) -> (b = false <-> q_live (y_q s) = []).
  Proof.
    intros I H. destruct (step_contract _ _ _ I H) as [_ C]. destruct b.
    - destruct C as (e & q' & _ & _ & A & _). split; [discriminate|]. intros E. rewrite E in A. destruct A.
    - split; auto. tauto.
  Qed.

  (* k steps: the events handled, in order *)
  Inductive StepsW (P : simsys -> Prop) : simsys -> list qevent -> simsys -> Prop :=
  | SW_nil s : StepsW P s [] s
  | SW_cons s e s1 evs s' : P s -> step_ev s e s1 -> StepsW P s1 evs s' -> StepsW P s (e :: evs) s'.

  Definition Steps := StepsW (fun _ => True).

  Lemma StepsW_Steps P s evs s' : StepsW P s evs s' -> Steps s evs s'.
  Proof. induction 1; econstructor; eauto. Qed.

  Lemma step_ev_TimeInv s e s' : TimeInv s -> step_ev s e s' -> TimeInv s'.
  Proof. intros I H. eapply step_TimeInv; eauto. apply step_true_iff. eauto. Qed.

  Lemma Steps_TimeInv s evs s' : TimeInv s -> Steps s evs s' -> TimeInv s'.
  Proof. intros I H. induction H; auto. apply IHStepsW. eapply step_ev_TimeInv; eauto. Qed.

  (* ------------------------------------------------------------------------------------------ *)
  (* Q3: events are handled in (time, id) order                                                  *)
  (* ------------------------------------------------------------------------------------------ *)

  (* after handling e, every live event is strictly after e in (time, id); it was live before or is new *)
  Lemma step_ev_next_live s e s1 : TimeInv s -> step_ev s e s1 -> forall x, In x (q_live (y_q s1)) ->
    key_lt e x /\ ((In x (q_live (y_q s)) /\ x <> e) \/ (q_count (y_q s) <= q_id x /\ ~ In x (q_events (y_q s)))).
  Proof.
    intros I (q' & H1 & H2) x Hx.
    destruct (q_next_some _ _ _ I H1) as (A & B & C & D & E & F & G).
    apply deliver_grows in H2. cbn [popped y_with y_q] in H2.
    destruct H2 as [G1 [new [G2 G2']] G3 G4 G5 G6].
    apply q_live_in in Hx. destruct Hx as [Hx Hc]. rewrite G2 in Hx. apply in_app_iff in Hx.
    destruct Hx as [Hx|Hx].
    - assert (L : In x (q_live q')).
      { apply q_live_in. split; auto. apply nmem_false_iff. apply nmem_false_iff in Hc. auto. }
      apply C in L. destruct L as [L1 L2]. split; auto.
    - rewrite Forall_forall in G2'. apply G2' in Hx. destruct Hx as [X1 X2]. rewrite D in X2. rewrite E in X1.
      assert (Hid : q_id e < q_id x).
      { destruct I as [[_ Ib] _]. apply q_live_in in A. destruct A as [A _]. apply Ib in A. lia. }
      split.
      + destruct (tltb ops (q_time e) (q_time x)) eqn:L; [left; auto|right].
        apply tltb_false_iff in L. split; auto. apply tle_antisym; auto.
      + right. split; auto. intros Hin. destruct I as [[_ Ib] _]. apply Ib in Hin. lia.
  Qed.

  (* two consecutive steps: non-decreasing time, ties in creation (id) order *)
  Theorem handled_monotone s e1 s1 e2 s2 : TimeInv s -> step_ev s e1 s1 -> step_ev s1 e2 s2 ->
    tle (q_time e1) (q_time e2) /\
    (q_time e1 = q_time e2 -> q_id e1 < q_id e2) /\
    (* e2 was already queued when e1 was handled, or it was created by handling e1 and got a larger id than
       every event queued then *)
    (In e2 (q_live (y_q s)) \/
     (q_count (y_q s) <= q_id e2 /\ forall x, In x (q_events (y_q s)) -> q_id x < q_id e2)).
  Proof.
    intros I H1 H2. pose proof (step_ev_TimeInv _ _ _ I H1) as I1.
    destruct H2 as (q2 & N2 & _). destruct (q_next_some _ _ _ I1 N2) as (A & _).
    destruct (step_ev_next_live _ _ _ I H1 _ A) as [K W].
    splits.
    - destruct K as [K|[K _]]; [apply tlt_le; auto | rewrite K; apply tle_refl].
    - intros E. destruct K as [K|[_ K]]; auto. rewrite E, tlt_irrefl in K. discriminate.
    - destruct W as [[W _]|[W _]]; auto. right. split; auto.
      intros x Hx. destruct I as [[_ Ib] _]. apply Ib in Hx. lia.
  Qed.

  Lemma last_nonempty_default {A} (l : list A) : forall a d d', last (a :: l) d = last (a :: l) d'.
  Proof. induction l as [|b r IH]; intros a d d'; [reflexivity|]. cbn [last] in *. apply IH. Qed.

  Lemma last_cons_default {A} (a : A) l d : last (a :: l) d = last l a.
  Proof. destruct l as [|b r]; [reflexivity|]. cbn [last]. apply (last_nonempty_default r b d a). Qed.

  Lemma key_lt_trans a b c : key_lt a b -> key_lt b c -> key_lt a c.
  Proof. rewrite !key_lt_before. apply ev_before_trans. Qed.

  (* the events handled by any number of consecutive steps are strictly increasing in (time, id), all at or after
     the initial clock; the final clock is the time of the last one *)
  Theorem handled_sorted s evs s' : TimeInv s -> Steps s evs s' ->
    Forall (fun e => In e (q_live (y_q s)) \/ q_count (y_q s) <= q_id e) evs /\
    Forall (fun e => tle (now s) (q_time e)) evs /\
    (forall e x, In x (q_live (y_q s')) -> In e evs -> key_lt e x) /\
    now s' = last (map q_time evs) (now s) /\
    StronglySorted key_lt evs.
  Proof.
    intros I H. induction H as [s|s e s1 evs s' _ Hs H IH].
    - split; [constructor|]. split; [constructor|]. split; [intros e x _ []|]. split; [reflexivity|constructor].
    - pose proof (step_ev_TimeInv _ _ _ I Hs) as I1. specialize (IH I1).
      destruct IH as (A & B & C & D & E).
      pose proof (step_ev_next_live _ _ _ I Hs) as NL.
      destruct Hs as (q' & N1 & Dl). destruct (q_next_some _ _ _ I N1) as (P1 & P2 & P3 & P4 & P5 & P6 & P7).
      assert (Hnow1 : now s1 = q_time e).
      { apply deliver_grows in Dl. unfold now. rewrite (qg_clock _ _ Dl). exact P4. }
      assert (Hcnt1 : q_count (y_q s) <= q_count (y_q s1)).
      { apply deliver_grows in Dl. pose proof (qg_count _ _ Dl) as X. cbn [popped y_with y_q] in X. lia. }
      assert (Hhead : Forall (key_lt e) evs).
      { inversion H as [|? e2 s2 evs2 ? _ Hs2 Hr]; subst; [constructor|].
        destruct Hs2 as (q2 & N2 & _). destruct (q_next_some _ _ _ I1 N2) as (Q1 & _).
        assert (K : key_lt e e2) by (apply NL; auto).
        constructor; auto.
        inversion E as [|? ? E1 E2]; subst.
        eapply Forall_impl; [|exact E2]. intros y Hy. eapply key_lt_trans; eauto. }
      splits.
      + constructor; [left; auto|].
        rewrite Forall_forall in *. intros y Hy. specialize (A y Hy). destruct A as [A|A]; [|right; lia].
        destruct (NL y A) as [_ [[W _]|[W _]]]; auto.
      + constructor; [apply (qt_future _ I); auto|].
        eapply Forall_impl; [|exact B]. cbn. intros y Hy. rewrite Hnow1 in Hy.
        eapply tle_trans; [|exact Hy]. apply (qt_future _ I); auto.
      + intros y x Hx [<-|Hy]; [|eauto].
        destruct evs as [|e2 evs2].
        * inversion H; subst. apply NL; auto.
        * eapply key_lt_trans; [|apply (C e2 x Hx); left; auto].
          inversion Hhead; auto.
      + rewrite D, Hnow1. cbn [map]. rewrite last_cons_default. reflexivity.
      + constructor; auto.
  Qed.

  (* ------------------------------------------------------------------------------------------ *)
  (* Q5 (b): step_for_duration                                                                   *)
  (* ------------------------------------------------------------------------------------------ *)

  Lemma q_next_fuel_irrel f1 : forall f2 (q : simq), (length (q_events q) < f1)%nat -> (length (q_events q) < f2)%nat ->
    q_next_fuel ops f1 q = q_next_fuel ops f2 q.
  Proof.
    induction f1 as [|f1 IH]; intros f2 q H1 H2; [lia|]. destruct f2 as [|f2]; [lia|].
    cbn [q_next_fuel]. destruct (q_min (q_events q)) as [e|] eqn:M; auto.
    destruct (nmem (q_id e) (q_canceled q)); auto.
    apply q_min_some in M. destruct M as [Hin _].
    pose proof (q_remove_length_lt (q_id e) (q_events q) e Hin eq_refl).
    apply IH; cbn [q_with q_events]; lia.
  Qed.

  Lemma q_peek_fuel_len f : forall (q : simq), (length (q_events (fst (q_peek_fuel ops f q))) <= length (q_events q))%nat.
  Proof.
    induction f as [|f IH]; intros q; cbn [q_peek_fuel]; auto.
    destruct (q_min (q_events q)) as [e|]; auto.
    destruct (nmem (q_id e) (q_canceled q)); auto.
    eapply Nat.le_trans; [apply IH|]. cbn [q_with q_events]. apply filter_len_le.
  Qed.

  Lemma q_next_peek_fuel f : forall (q : simq), (length (q_events q) < f)%nat ->
    q_next_fuel ops f (fst (q_peek_fuel ops f q)) = q_next_fuel ops f q.
  Proof.
    induction f as [|f IH]; intros q Hl; [lia|].
    cbn [q_peek_fuel]. destruct (q_min (q_events q)) as [e|] eqn:M; [|reflexivity].
    destruct (nmem (q_id e) (q_canceled q)) eqn:C; [|reflexivity].
    destruct (q_min_some _ _ M) as [Hin _].
    pose proof (q_remove_length_lt (q_id e) (q_events q) e Hin eq_refl) as Hr.
    set (q1 := q_with q (q_clock q) (q_remove (q_id e) (q_events q)) (nrem (q_id e) (q_canceled q))
                      (q_count q) (q_rand q)).
    assert (L1 : (length (q_events q1) < f)%nat) by (cbn [q1 q_with q_events]; lia).
    pose proof (q_peek_fuel_len f q1) as L2.
    rewrite (q_next_fuel_irrel (S f) f) by lia.
    rewrite IH by auto.
    cbn [q_next_fuel]. rewrite M, C. reflexivity.
  Qed.

  Lemma q_next_peek (q : simq) : q_next (fst (q_peek q)) = q_next q.
  Proof.
    unfold Sim.q_next, Sim.q_peek.
    pose proof (q_peek_fuel_len (S (length (q_events q))) q) as L.
    rewrite (q_next_fuel_irrel _ (S (length (q_events q)))) by lia.
    apply q_next_peek_fuel. lia.
  Qed.

  (* peek_event before step changes nothing: the step from the peeked state is the step from the state *)
  Lemma step_peeked s : step (popped s (fst (q_peek (y_q s)))) = step s.
  Proof.
    unfold Sim.step. cbn [popped y_with y_q]. rewrite q_next_peek. reflexivity.
  Qed.

  Notation until_time := (until_time ops handler draws).

  Theorem until_time_contract fuel t : forall s s' b, TimeInv s -> until_time fuel s t = Ok (s', b) ->
    exists evs s1,
      Steps s evs s1 /\ Forall (fun e => tle (q_time e) t) evs /\
      y_frame s1 s' /\ q_live (y_q s') = q_live (y_q s1) /\
      q_count (y_q s') = q_count (y_q s1) /\ q_rand (y_q s') = q_rand (y_q s1) /\
      now s' = t /\
      (forall e, In e (q_live (y_q s')) -> tlt t (q_time e)) /\
      (b = true <-> q_live (y_q s') <> []).
  Proof.
    induction fuel as [|f IH]; cbn [Sim.until_time]; intros s s' b I H; [discriminate|].
    pose proof (step_peeked s) as SP.
    destruct (q_peek (y_q s)) as [q' oe] eqn:P. cbn [fst] in SP.
    pose proof (q_peek_spec (y_q s)) as S. rewrite P in S. destruct S as (A & B & C & D).
    assert (Hlive : forall x, q_live (y_q (set_clock (popped s q') x)) = q_live (y_q s)).
    { intros x. rewrite <- A. reflexivity. }
    destruct oe as [e|].
    - destruct D as [D1 D2]. destruct (tltb ops t (q_time e)) eqn:L.
      + inversion H; subst. exists [], s. splits; auto.
        * constructor.
        * split; reflexivity.
        * apply C.
        * apply C.
        * intros x Hx. rewrite Hlive in Hx. eapply tlt_le_trans; [exact L|]. apply (ev_min_key _ _ _ D2 Hx).
        * rewrite Hlive. split; auto. intros _ E. rewrite E in D1. destruct D1.
      + fold (popped s q') in H. rewrite SP in H. binv H. destruct a as [s2 b2].
        assert (b2 = true).
        { destruct b2; auto. apply step_false_iff in Ha. destruct Ha as (q2 & N2 & _).
          pose proof (q_next_spec (y_q s)) as S. rewrite N2 in S. destruct S as [S _]. rewrite S in D1. destruct D1. }
        subst b2. apply step_true_iff in Ha. destruct Ha as [e2 Hs].
        pose proof (step_ev_TimeInv _ _ _ I Hs) as I2.
        destruct (IH _ _ _ I2 Hb) as (evs & s1 & X1 & X2 & X3).
        exists (e2 :: evs), s1. splits; try apply X3.
        * econstructor; eauto.
        * constructor; auto.
          destruct Hs as (q2 & N2 & _). destruct (q_next_some _ _ _ I N2) as (Y1 & Y2 & _).
          apply tltb_false_iff in L. eapply tle_trans; [|exact L].
          pose proof (q_next_spec (y_q s)) as S. rewrite N2 in S. destruct S as (_ & S2 & _).
          apply (ev_min_key _ _ _ S2 D1).
    - inversion H; subst. exists [], s. splits; auto.
      + constructor.
      + split; reflexivity.
      + apply C.
      + apply C.
      + intros x Hx. rewrite Hlive, D in Hx. destruct Hx.
      + rewrite Hlive, D. split; [discriminate | intros X; exfalso; apply X; reflexivity].
  Qed.

  (* ------------------------------------------------------------------------------------------ *)
  (* Q5 (c): steps, step_until_no_events, step_until_local_message[_max_steps]                   *)
  (* ------------------------------------------------------------------------------------------ *)

  Notation steps_fuel := (steps_fuel ops handler draws).
  Notation until_no_events := (until_no_events ops handler draws).
  Notation until_local := (until_local ops handler draws).
  Notation until_local_max := (until_local_max ops handler draws).

  Lemma step_false_live s s' : step s = Ok (s', false) -> q_live (y_q s) = [] /\ q_live (y_q s') = [] /\ now s' = now s.
  Proof.
    intros H. apply step_false_iff in H. destruct H as (q' & H1 & ->).
    pose proof (q_next_spec (y_q s)) as S. rewrite H1 in S. cbn [popped y_with y_q]. unfold now. cbn [popped y_with y_q].
    tauto.
  Qed.

  Theorem steps_fuel_contract fuel : forall s n s' b, steps_fuel fuel s n = Ok (s', b) ->
    exists evs s1, Steps s evs s1 /\
      if b then N.of_nat (length evs) = n /\ s' = s1
      else N.of_nat (length evs) < n /\ step s1 = Ok (s', false).
  Proof.
    induction fuel as [|f IH]; cbn [Sim.steps_fuel]; intros s n s' b H; [discriminate|].
    destruct (N.eqb n 0) eqn:E.
    - apply N.eqb_eq in E. inversion H; subst s' b n. exists [], s. split; [constructor|]. auto.
    - apply N.eqb_neq in E. binv H. destruct a as [s1 b1]. destruct b1.
      + apply step_true_iff in Ha. destruct Ha as [e Hs].
        destruct (IH _ _ _ _ Hb) as (evs & s2 & X1 & X2).
        exists (e :: evs), s2. split; [econstructor; eauto|].
        destruct b; cbn [length]; destruct X2 as [X2 X3]; split; auto; lia.
      + inversion Hb; subst. exists [], s. split; [constructor|]. cbn. split; auto. lia.
  Qed.

  Theorem until_no_events_contract fuel : forall s s', until_no_events fuel s = Ok s' ->
    exists evs s1, Steps s evs s1 /\ step s1 = Ok (s', false) /\ q_live (y_q s') = [].
  Proof.
    induction fuel as [|f IH]; cbn [Sim.until_no_events]; intros s s' H; [discriminate|].
    binv H. destruct a as [s1 b1]. destruct b1.
    - apply step_true_iff in Ha. destruct Ha as [e Hs].
      destruct (IH _ _ Hb) as (evs & s2 & X1 & X2).
      exists (e :: evs), s2. split; [econstructor; eauto|]. auto.
    - inversion Hb; subst. exists [], s. split; [constructor|]. split; auto.
      apply step_false_live in Ha. tauto.
  Qed.

  (* the outbox of a process, as read_local sees it *)
  Definition outbox_empty (proc : N) (s : simsys) : Prop := read_local s proc = Ok (s, None).

  Lemma read_local_spec (s : simsys) proc s' r : read_local s proc = Ok (s', r) ->
    exists nname nd p, node_of_proc s proc = Ok (nname, nd) /\ sget N.compare proc (sd_procs nd) = Some p /\
      y_q s' = y_q s /\
      match r with
      | None => pe_outbox p = [] /\ s' = s
      | Some l => pe_outbox p = l /\ l <> [] /\
                  exists nd' p', sget N.compare nname (y_nodes s') = Some nd' /\
                                 sget N.compare proc (sd_procs nd') = Some p' /\ pe_outbox p' = []
      end.
  Proof.
    unfold Sim.read_local. intros H. binv H. destruct a as [nname nd].
    destruct (sget N.compare proc (sd_procs nd)) as [p|] eqn:G; [|discriminate].
    exists nname, nd, p. split; auto. split; auto.
    destruct (pe_outbox p) as [|m l] eqn:O; inversion Hb; subst.
    - auto.
    - split; [reflexivity|]. split; [reflexivity|]. split; [discriminate|].
      eexists. eexists. cbn [y_with y_nodes].
      split; [apply (sget_sins_eq _ CmpSpec_N)|]. cbn [sd_procs].
      split; [apply (sget_sins_eq _ CmpSpec_N)|]. reflexivity.
  Qed.

  Lemma read_local_none (s : simsys) proc s' : read_local s proc = Ok (s', None) -> s' = s.
  Proof.
    intros H. apply read_local_spec in H. destruct H as (? & ? & ? & _ & _ & _ & _ & H). exact H.
  Qed.

  Theorem until_local_loop_contract fuel proc : forall s s' r, until_local fuel s proc = Ok (s', r) ->
    exists evs s1, StepsW (outbox_empty proc) s evs s1 /\
      match r with
      | Some l => read_local s1 proc = Ok (s', Some l)
      | None => outbox_empty proc s1 /\ step s1 = Ok (s', false)
      end.
  Proof.
    induction fuel as [|f IH]; cbn [Sim.until_local]; intros s s' r H; [discriminate|].
    binv H. destruct a as [s1 r1]. destruct r1 as [l|].
    - inversion Hb; subst. exists [], s. split; [constructor|]. auto.
    - pose proof (read_local_none _ _ _ Ha) as ->.
      binv Hb. destruct a as [s2 b]. destruct b.
      + apply step_true_iff in Hba. destruct Hba as [e Hs].
        destruct (IH _ _ _ Hbb) as (evs & s3 & X1 & X2).
        exists (e :: evs), s3. split; [econstructor; eauto|]. auto.
      + inversion Hbb; subst. exists [], s. split; [constructor|]. split; auto.
  Qed.

  Theorem until_local_max_loop_contract fuel proc mx : forall s k s' r, k <= mx -> outbox_empty proc s ->
    until_local_max fuel s proc k mx = Ok (s', r) ->
    exists evs s1, StepsW (outbox_empty proc) s evs s1 /\ k + N.of_nat (length evs) <= mx /\
      match r with
      | Some l => read_local s1 proc = Ok (s', Some l)
      | None => outbox_empty proc s1 /\
                ((k + N.of_nat (length evs) = mx /\ s' = s1) \/
                 (k + N.of_nat (length evs) < mx /\ step s1 = Ok (s', false)))
      end.
  Proof.
    induction fuel as [|f IH]; cbn [Sim.until_local_max]; intros s k s' r Hk O H; [discriminate|].
    destruct (N.ltb k mx) eqn:L.
    - apply N.ltb_lt in L. binv H. destruct a as [s1 b]. destruct b.
      + apply step_true_iff in Ha. destruct Ha as [e Hs].
        binv Hb. destruct a as [s2 r2]. destruct r2 as [l|].
        * inversion Hbb; subst. exists [e], s1. split; [econstructor; eauto; constructor|].
          cbn [length]. split; [lia|]. auto.
        * pose proof (read_local_none _ _ _ Hba) as ->.
          destruct (IH s1 (k + 1) s' r ltac:(lia) Hba Hbb) as (evs & s3 & X1 & X2 & X3).
          exists (e :: evs), s3. split; [econstructor; eauto|]. cbn [length]. split; [lia|].
          destruct r; auto. destruct X3 as [X3 [X4|X4]]; split; auto; [left|right]; destruct X4; split; auto; lia.
      + inversion Hb; subst. exists [], s. split; [constructor|]. cbn [length]. split; [lia|].
        split; auto. right. split; auto. lia.
    - apply N.ltb_ge in L. inversion H; subst s' r. exists [], s. split; [constructor|]. cbn [length]. split; [lia|].
      split; auto. left. split; auto. lia.
  Qed.

  Lemma StepsW_head P s evs s' : StepsW P s evs s' -> evs <> [] -> P s.
  Proof. intros H. destruct H; auto. intros X. exfalso. apply X. reflexivity. Qed.

  (* ---- the API calls ---- *)

  Theorem steps_contract fuel s n s' r : sim_op fuel s (YSteps n) = Ok (s', r) ->
    exists evs s1 b, r = RetBool b /\ Steps s evs s1 /\
      if b then N.of_nat (length evs) = n /\ s' = s1
      else N.of_nat (length evs) < n /\ step s1 = Ok (s', false) /\ q_live (y_q s1) = [] /\ q_live (y_q s') = [].
  Proof.
    cbn [Sim.sim_op]. intros H. binv H. destruct a as [s2 b]. inversion Hb; subst.
    destruct (steps_fuel_contract _ _ _ _ _ Ha) as (evs & s1 & X1 & X2).
    exists evs, s1, b. split; auto. split; auto. destruct b; auto.
    destruct X2 as [X2 X3]. pose proof (step_false_live _ _ X3). tauto.
  Qed.

  Theorem until_no_events_op_contract fuel s s' r : sim_op fuel s YStepUntilNoEvents = Ok (s', r) ->
    exists evs s1, Steps s evs s1 /\ step s1 = Ok (s', false) /\ q_live (y_q s1) = [] /\ q_live (y_q s') = [].
  Proof.
    cbn [Sim.sim_op]. intros H. binv H. inversion Hb; subst.
    destruct (until_no_events_contract _ _ _ Ha) as (evs & s1 & X1 & X2 & X3).
    exists evs, s1. pose proof (step_false_live _ _ X2). tauto.
  Qed.

  (* step_for_duration d: no side condition is needed for the contract itself; the clock ends at now + d even when
     d is negative (then it moves backwards, see neg_duration_clock_back at the end of the file) *)
  Theorem duration_contract fuel s d s' r : TimeInv s -> sim_op fuel s (YStepForDuration d) = Ok (s', r) ->
    let t := tadd ops (now s) d in
    exists evs s1 b, r = RetBool b /\
      Steps s evs s1 /\
      Forall (fun e => tle (q_time e) t) evs /\                (* every event handled was due at or before t *)
      y_frame s1 s' /\ q_live (y_q s') = q_live (y_q s1) /\    (* afterwards only the clock is moved *)
      q_count (y_q s') = q_count (y_q s1) /\ q_rand (y_q s') = q_rand (y_q s1) /\
      now s' = t /\
      (forall e, In e (q_live (y_q s')) -> tlt t (q_time e)) /\
      (b = true <-> q_live (y_q s') <> []) /\
      TimeInv s' /\
      (tle (tz ops) d -> tle (now s) (now s')).
  Proof.
    cbn [Sim.sim_op]. intros I H. binv H. destruct a as [s2 b]. inversion Hb; subst.
    destruct (until_time_contract _ _ _ _ _ I Ha) as (evs & s1 & X).
    exists evs, s1, b. split; auto. destruct X as (X1 & X2 & X3 & X4 & X5 & X6 & X7 & X8 & X9).
    splits; auto.
    - eapply until_time_TimeInv; eauto.
    - intros Hd. rewrite X7. apply tadd_ge; auto.
  Qed.

  Theorem until_local_contract fuel s proc s' r : sim_op fuel s (YStepUntilLocal proc) = Ok (s', r) ->
    exists evs s1 ol, r = RetLocal ol /\
      StepsW (outbox_empty proc) s evs s1 /\        (* the outbox was empty before every step made *)
      match ol with
      | Some l => read_local s1 proc = Ok (s', Some l) /\ l <> []
      | None => outbox_empty proc s1 /\ step s1 = Ok (s', false) /\ q_live (y_q s1) = [] /\ q_live (y_q s') = []
      end.
  Proof.
    cbn [Sim.sim_op]. intros H. binv H. binv Hb. destruct a0 as [s2 ol]. inversion Hbb; subst.
    destruct (until_local_loop_contract _ _ _ _ _ Hba) as (evs & s1 & X1 & X2).
    exists evs, s1, ol. split; auto. split; auto. destruct ol as [l|].
    - split; auto. apply read_local_spec in X2. destruct X2 as (? & ? & ? & _ & _ & _ & _ & X & _). exact X.
    - destruct X2 as [X2 X3]. pose proof (step_false_live _ _ X3). tauto.
  Qed.

  Theorem until_local_max_contract fuel s proc mx s' r : sim_op fuel s (YStepUntilLocalMax proc mx) = Ok (s', r) ->
    exists evs s1 ol, r = RetLocal ol /\
      StepsW (outbox_empty proc) s evs s1 /\ N.of_nat (length evs) <= mx /\
      match ol with
      | Some l => read_local s1 proc = Ok (s', Some l) /\ l <> []
      | None => outbox_empty proc s1 /\
                ((N.of_nat (length evs) = mx /\ s' = s1) \/
                 (N.of_nat (length evs) < mx /\ step s1 = Ok (s', false) /\ q_live (y_q s1) = [] /\ q_live (y_q s') = []))
      end.
  Proof.
    cbn [Sim.sim_op]. intros H. binv H. binv Hb. destruct a0 as [s2 r2]. destruct r2 as [l|].
    - inversion Hbb; subst. exists [], s, (Some l). split; auto. split; [constructor|]. cbn [length]. split; [lia|].
      split; auto. apply read_local_spec in Hba. destruct Hba as (? & ? & ? & _ & _ & _ & _ & X & _). exact X.
    - pose proof (read_local_none _ _ _ Hba) as ->.
      binv Hbb. destruct a0 as [s3 ol]. inversion Hbbb; subst.
      destruct (until_local_max_loop_contract fuel proc mx s 0 s' ol (N.le_0_l mx) Hba Hbba) as (evs & s1 & X1 & X2 & X3).
      exists evs, s1, ol. split; auto. split; auto. split; [lia|]. destruct ol as [l|].
      + split; auto. apply read_local_spec in X3. destruct X3 as (? & ? & ? & _ & _ & _ & _ & X & _). exact X.
      + destruct X3 as [X3 [[X4 X5]|[X4 X5]]]; (split; [exact X3|]).
        * left. split; [lia | exact X5].
        * right. split; [lia|]. pose proof (step_false_live _ _ X5). tauto.
  Qed.

  (* in particular: if the outbox is not empty at the start, no step is made *)
  Corollary until_local_no_step fuel s proc s' r : sim_op fuel s (YStepUntilLocal proc) = Ok (s', r) ->
    ~ outbox_empty proc s -> exists l, read_local s proc = Ok (s', Some l) /\ r = RetLocal (Some l).
  Proof.
    intros H NE. destruct (until_local_contract _ _ _ _ _ H) as (evs & s1 & ol & -> & X1 & X2).
    destruct evs as [|e evs].
    - inversion X1; subst. destruct ol as [l|]; [exists l; tauto|]. exfalso. apply NE. tauto.
    - exfalso. apply NE. eapply StepsW_head; eauto. discriminate.
  Qed.

  (* ------------------------------------------------------------------------------------------ *)
  (* the clock and the id counter never go back (given non-negative durations)                   *)
  (* ------------------------------------------------------------------------------------------ *)

  Record y_mono (s s' : simsys) : Prop := {
    ym_clock : tle (now s) (now s');
    ym_count : q_count (y_q s) <= q_count (y_q s') }.

  Lemma y_mono_refl s : y_mono s s.
  Proof. split; [apply tle_refl | lia]. Qed.

  Lemma y_mono_trans s1 s2 s3 : y_mono s1 s2 -> y_mono s2 s3 -> y_mono s1 s3.
  Proof. intros [A1 A2] [B1 B2]. split; [eapply tle_trans; eauto | lia]. Qed.

  Lemma y_mono_q (s s' : simsys) : y_q s' = y_q s -> y_mono s s'.
  Proof. intros E. split; unfold now; rewrite E; [apply tle_refl | lia]. Qed.

  Lemma y_mono_grows (s s' : simsys) : q_grows (y_q s) (y_q s') -> y_mono s s'.
  Proof. intros G. split; unfold now; [rewrite (qg_clock _ _ G); apply tle_refl | apply (qg_count _ _ G)]. Qed.

  Lemma step_mono s s' b : TimeInv s -> step s = Ok (s', b) -> y_mono s s'.
  Proof.
    intros I H. destruct (step_contract _ _ _ I H) as [_ C]. destruct b.
    - destruct C as (e & q' & X1 & X2 & X3 & X4 & X5 & X6 & X7 & X8 & X9). split.
      + rewrite X9. apply (qt_future _ I). auto.
      + apply deliver_grows in X2. pose proof (qg_count _ _ X2) as Y. cbn [popped y_with y_q] in Y. lia.
    - destruct C as (_ & _ & X1 & _ & X2 & _). split; [rewrite X1; apply tle_refl | lia].
  Qed.

  Lemma Steps_mono s evs s' : TimeInv s -> Steps s evs s' -> y_mono s s'.
  Proof.
    intros I H. induction H; [apply y_mono_refl|].
    eapply y_mono_trans; [eapply step_mono; eauto; apply step_true_iff; eauto|].
    apply IHStepsW. eapply step_ev_TimeInv; eauto.
  Qed.

  Lemma until_local_timeout_mono fuel proc t : forall s s' r, TimeInv s ->
    until_local_timeout ops handler draws fuel s proc t = Ok (s', r) -> y_mono s s'.
  Proof.
    induction fuel as [|f IH]; cbn [until_local_timeout]; intros s s' r I H; [discriminate|].
    destruct (tltb ops (now s) t); [|inversion H; subst; apply y_mono_refl].
    binv H. destruct a as [s1 r1]. apply read_local_q in Ha.
    assert (I1 : TimeInv s1) by (unfold TimeInv; rewrite Ha; exact I).
    apply y_mono_q in Ha.
    destruct r1; [inversion Hb; subst; auto|].
    binv Hb. destruct a as [s2 b]. pose proof (step_mono _ _ _ I1 Hba) as M. apply step_TimeInv in Hba; auto.
    destruct b; [|inversion Hbb; subst; eauto using y_mono_trans].
    eapply y_mono_trans; [exact Ha|]. eapply y_mono_trans; [exact M|]. eauto.
  Qed.

  Definition nonneg_duration (o : sop (T := T)) : Prop :=
    match o with YStepForDuration d => tle (tz ops) d | _ => True end.

  Theorem sim_op_mono fuel s o s' r : TimeInv s -> nonneg_duration o -> sim_op fuel s o = Ok (s', r) -> y_mono s s'.
  Proof.
    intros I ND. destruct o; cbn [Sim.sim_op].
    - destruct (shas N.compare name (y_nodes s)); [discriminate|]. intros H; inversion H; subst. apply y_mono_q; reflexivity.
    - destruct (sget N.compare node (y_nodes s)); [|discriminate].
      destruct (shas N.compare proc (y_proc_nodes s)); [discriminate|]. intros H; inversion H; subst.
      apply y_mono_q; reflexivity.
    - destruct (sget N.compare node (y_nodes s)); [|discriminate]. intros H; inversion H; subst. apply y_mono_q; reflexivity.
    - destruct (snet_apply (y_net s) (now s) o). intros H; inversion H; subst. apply y_mono_q; reflexivity.
    - intros H. binv H. destruct a as [nname nd]. destruct (sd_crashed nd); [discriminate|].
      binv Hb. destruct a as [nd' w']. inversion Hbb; subst. apply node_handle_grows in Hba.
      apply y_mono_grows. exact Hba.
    - intros H. binv H. destruct a as [s1 r1]. inversion Hb; subst. apply read_local_q in Ha. apply y_mono_q; auto.
    - destruct (sget N.compare node (y_nodes s)); [|discriminate]. intros H; inversion H; subst.
      apply y_mono_grows. unfold set_handler. cbn [y_with y_q].
      eapply q_grows_trans; apply q_cancel_pred_grows.
    - destruct (sget N.compare node (y_nodes s)) as [nd|]; [|discriminate].
      destruct (negb (sd_crashed nd)); [discriminate|].
      destruct (sget N.compare (sd_id nd) (y_handlers s)) as [[|]|]; [discriminate| |];
        intros H; inversion H; subst; apply y_mono_q; reflexivity.
    - intros H. binv H. destruct a as [s1 b]. inversion Hb; subst. eapply step_mono; eauto.
    - intros H. destruct (steps_contract _ _ _ _ _ H) as (evs & s1 & b & _ & X1 & X2).
      pose proof (Steps_mono _ _ _ I X1) as M. destruct b.
      + destruct X2 as [_ ->]. exact M.
      + destruct X2 as (_ & X2 & _). eapply y_mono_trans; [exact M|]. eapply step_mono; eauto.
        eapply Steps_TimeInv; eauto.
    - intros H. destruct (until_no_events_op_contract _ _ _ _ H) as (evs & s1 & X1 & X2 & _).
      eapply y_mono_trans; [eapply Steps_mono; eauto|]. eapply step_mono; eauto. eapply Steps_TimeInv; eauto.
    - intros H. destruct (duration_contract _ _ _ _ _ I H) as (evs & s1 & b & _ & X1 & _ & _ & _ & X2 & _ & _ & _ & _ & _ & X3).
      split; [apply X3, ND|]. rewrite X2. apply (Steps_mono _ _ _ I X1).
    - intros H. destruct (until_local_contract _ _ _ _ _ H) as (evs & s1 & ol & _ & X1 & X2).
      apply StepsW_Steps in X1.
      eapply y_mono_trans; [eapply Steps_mono; eauto|]. destruct ol as [l|].
      + destruct X2 as [X2 _]. apply read_local_q in X2. apply y_mono_q; auto.
      + destruct X2 as (_ & X2 & _). eapply step_mono; eauto. eapply Steps_TimeInv; eauto.
    - intros H. destruct (until_local_max_contract _ _ _ _ _ _ H) as (evs & s1 & ol & _ & X1 & _ & X2).
      apply StepsW_Steps in X1.
      eapply y_mono_trans; [eapply Steps_mono; eauto|]. destruct ol as [l|].
      + destruct X2 as [X2 _]. apply read_local_q in X2. apply y_mono_q; auto.
      + destruct X2 as (_ & [[_ ->]|(_ & X2 & _)]); [apply y_mono_refl|].
        eapply step_mono; eauto. eapply Steps_TimeInv; eauto.
    - intros H. binv H. binv Hb. destruct a0 as [s1 r1]. inversion Hbb; subst.
      eapply until_local_timeout_mono; eauto.
  Qed.

  Theorem run_ops_mono fuel l : forall s s' rets, TimeInv s -> Forall nonneg_duration l ->
    run_ops fuel s l = Ok (s', rets) -> y_mono s s'.
  Proof.
    induction l as [|o r IH]; cbn [SimSpec.run_ops]; intros s s' rets I F H.
    - inversion H; subst. apply y_mono_refl.
    - inversion F; subst. binv H. destruct a as [s1 ret]. binv Hb. destruct a as [s2 rets2]. inversion Hbb; subst.
      eapply y_mono_trans; [eapply sim_op_mono; eauto|].
      eapply IH; eauto. eapply sim_op_TimeInv; eauto.
  Qed.

  (* an event handled (in any later call of a script of API calls with non-negative durations) after the state s
     has a time not before the clock of s, and a step handles its event exactly at the event's time: hence the
     events handled in a whole run are handled in non-decreasing time order *)
  Corollary handled_later_not_earlier fuel l s s1 rets e s2 : TimeInv s -> Forall nonneg_duration l ->
    run_ops fuel s l = Ok (s1, rets) -> step_ev s1 e s2 -> tle (now s) (q_time e) /\ now s2 = q_time e.
  Proof.
    intros I F H Hs. pose proof (run_ops_mono _ _ _ _ _ I F H) as M.
    pose proof (run_ops_TimeInv _ _ _ _ _ I H) as I1.
    assert (St : step s1 = Ok (s2, true)) by (apply step_true_iff; eauto).
    destruct (step_contract _ _ _ I1 St) as [_ (e' & q' & X1 & X2 & X3 & X4 & X5 & X6 & X7 & X8 & X9)].
    destruct Hs as (q'' & Y1 & Y2). rewrite X1 in Y1. inversion Y1; subst.
    split; auto. eapply tle_trans; [apply (ym_clock _ _ M)|]. apply (qt_future _ I1). auto.
  Qed.

  (* ------------------------------------------------------------------------------------------ *)
  (* Q4: arrival and firing times, the handler's clock                                           *)
  (* ------------------------------------------------------------------------------------------ *)

  Hypothesis draws_unit : forall i, tleb ops (tz ops) (draws i) = true /\ tltb ops (draws i) (tone ops) = true.

  Definition in_bounds (n : simnet) (d : T) : Prop := tle (sn_min n) d /\ tle d (sn_max n).

  Lemma copy_delays_bounds k n : tle (sn_min n) (sn_max n) -> forall q ds q',
    copy_delays ops draws k n q = (ds, q') -> Forall (in_bounds n) ds /\ length ds = k.
  Proof.
    intros Hmm. induction k as [|k IH]; cbn [copy_delays]; intros q ds q' H.
    - inversion H; subst. split; auto.
    - destruct (q_draw draws q) as [r q1] eqn:D.
      destruct (copy_delays ops draws k n q1) as [ds' q2] eqn:C. inversion H; subst.
      destruct (IH _ _ _ C) as [IH1 IH2]. split; [|cbn; lia]. constructor; auto.
      unfold q_draw in D. inversion D; subst.
      destruct (draws_unit (q_rand q)) as [U1 U2].
      apply (lerp_bounds ops laws); auto. apply tlt_le; auto.
  Qed.

  Lemma net_fate_bounds n q m sn dn m' ds q' : tle (sn_min n) (sn_max n) ->
    net_fate ops draws n q m sn dn = (FCopies m' ds, q') ->
    Forall (in_bounds n) ds /\ ds <> [] /\ (m' = m \/ m' = corrupt_msg m).
  Proof.
    intros Hmm. unfold Sim.net_fate.
    destruct (q_draw draws q) as [r0 q0].
    destruct (tltb ops r0 (sn_drop n) || link_cut n sn dn); [discriminate|].
    destruct (q_draw draws q0) as [r1 q1]. destruct (q_draw draws q1) as [r2 q2].
    assert (Hm : forall b : bool, (if b then corrupt_msg m else m) = m \/ (if b then corrupt_msg m else m) = corrupt_msg m)
      by (intros []; auto).
    destruct (negb (tltb ops r2 (sn_dupl n))).
    - destruct (copy_delays ops draws 1 n q2) as [ds' q3] eqn:C. intros H. inversion H; subst.
      destruct (copy_delays_bounds _ _ Hmm _ _ _ C) as [B L]. split; auto. split; auto.
      intros ->. discriminate.
    - destruct (q_draw draws q2) as [r3 q3].
      destruct (copy_delays ops draws _ n q3) as [ds' q4] eqn:C. intros H. inversion H; subst.
      destruct (copy_delays_bounds _ _ Hmm _ _ _ C) as [B L]. split; auto. split; auto.
      intros ->. cbn in L. lia.
  Qed.

  Lemma Forall2_Forall_r {A B} (R : A -> B -> Prop) (P : A -> Prop) (Q : B -> Prop) l l' :
    (forall a b, P a -> R a b -> Q b) -> Forall P l -> Forall2 R l l' -> Forall Q l'.
  Proof.
    intros H F F2. induction F2; constructor; inversion F; subst; eauto.
  Qed.

  Lemma emit_copies_spec d src dst ds : forall q q', emit_copies ops q d src dst ds = Ok q' ->
    q_clock q' = q_clock q /\
    exists new, q_events q' = q_events q ++ new /\
      Forall2 (fun dl e => q_time e = tadd ops (q_clock q) (tmax0 dl) /\ q_data e = d /\ q_src e = src /\ q_dst e = dst)
              ds new.
  Proof.
    induction ds as [|dl r IH]; cbn [emit_copies]; intros q q' H.
    - inversion H; subst. split; auto. exists []. rewrite app_nil_r. split; auto.
    - binv H. destruct a as [q1 i]. apply q_add_spec in Ha. destruct Ha as [-> ->].
      destruct (IH _ _ Hb) as [E1 (new & E2 & E3)]. cbn [q_with q_clock q_events] in *.
      split; auto. eexists. split.
      + rewrite E2, <- app_assoc. reflexivity.
      + constructor; auto.
  Qed.

  (* a network message arrives at its send time plus a delay inside the bounds configured when it was sent;
     inside a node the delay is exactly zero *)
  Theorem send_arrival n q m src dst n' q' logs :
    net_send ops draws n q m src dst = Ok (n', q', logs) ->
    exists sn dn sid did,
      sget N.compare src (sn_loc n) = Some sn /\ sget N.compare dst (sn_loc n) = Some dn /\
      sget N.compare sn (sn_node_ids n) = Some sid /\ sget N.compare dn (sn_node_ids n) = Some did /\
      q_clock q' = q_clock q /\
      exists new, q_events q' = q_events q ++ new /\
        (* the copies of this message (none when it is dropped) *)
        Forall (fun e => q_src e = sid /\ q_dst e = did /\
                         exists m', q_data e = QMsg (sn_msg_count n) m' src sn dst dn /\ (m' = m \/ m' = corrupt_msg m)) new /\
        (sn = dn -> exists e, new = [e] /\ q_time e = q_clock q /\ q_data e = QMsg (sn_msg_count n) m src sn dst dn) /\
        (sn <> dn -> tle (sn_min n) (sn_max n) ->
           Forall (fun e => exists d, q_time e = tadd ops (q_clock q) (tmax0 d) /\ in_bounds n d /\
                     (tle (tz ops) (sn_min n) ->
                        q_time e = tadd ops (q_clock q) d /\
                        tle (tadd ops (q_clock q) (sn_min n)) (q_time e) /\
                        tle (q_time e) (tadd ops (q_clock q) (sn_max n)))) new).
  Proof.
    unfold Sim.net_send.
    destruct (sget N.compare src (sn_loc n)) as [sn|] eqn:G1; [|discriminate].
    destruct (sget N.compare dst (sn_loc n)) as [dn|] eqn:G2; [|discriminate].
    destruct (sget N.compare sn (sn_node_ids n)) as [sid|] eqn:G3; [|discriminate].
    destruct (sget N.compare dn (sn_node_ids n)) as [did|] eqn:G4; [|discriminate].
    intros H. exists sn, dn, sid, did. splits; auto.
    - destruct (N.eqb sn dn).
      + binv H. destruct a as [q1 i]. inversion Hb; subst. apply q_add_grows in Ha. apply Ha.
      + destruct (net_fate ops draws n q m sn dn) as [f q1] eqn:F. apply net_fate_drawn in F.
        destruct f as [|m' ds].
        * inversion H; subst. apply F.
        * binv H. inversion Hb; subst. apply emit_copies_spec in Ha. destruct Ha as [Ha _]. rewrite Ha. apply F.
    - destruct (N.eqb sn dn) eqn:E.
      + apply N.eqb_eq in E. subst dn. binv H. destruct a as [q1 i]. inversion Hb; subst.
        apply q_add_spec in Ha. destruct Ha as [-> ->]. cbn [q_with q_events].
        eexists. split; [reflexivity|]. splits.
        * constructor; auto. cbn. splits; auto. eexists. split; [reflexivity|]. auto.
        * intros _. eexists. split; [reflexivity|]. cbn. split; auto.
          rewrite tmax0_id by apply tle_refl. apply (add_zero ops laws).
        * intros X. exfalso. apply X. reflexivity.
      + apply N.eqb_neq in E.
        destruct (net_fate ops draws n q m sn dn) as [f q1] eqn:F.
        pose proof (net_fate_drawn _ _ _ _ _ _ _ F) as Dr.
        destruct f as [|m' ds].
        * inversion H; subst. exists []. rewrite app_nil_r. splits; auto.
          -- apply Dr.
          -- intros X. contradiction.
        * binv H. inversion Hb; subst. apply emit_copies_spec in Ha. destruct Ha as [C1 (new & C2 & C3)].
          exists new. splits.
          -- rewrite C2. f_equal. apply Dr.
          -- assert (Hm : tle (sn_min n) (sn_max n) -> m' = m \/ m' = corrupt_msg m).
             { intros Hmm. eapply net_fate_bounds; eauto. }
             assert (Hm' : m' = m \/ m' = corrupt_msg m).
             { clear - F. unfold Sim.net_fate in F.
               destruct (q_draw draws q) as [r0 q0].
               destruct (tltb ops r0 (sn_drop n) || link_cut n sn dn); [discriminate|].
               destruct (q_draw draws q0) as [r1 q1']. destruct (q_draw draws q1') as [r2 q2].
               destruct (negb (tltb ops r2 (sn_dupl n))).
               - destruct (copy_delays ops draws 1 n q2). inversion F; subst. destruct (tltb ops r1 (sn_corrupt n)); auto.
               - destruct (q_draw draws q2) as [r3 q3]. destruct (copy_delays ops draws _ n q3).
                 inversion F; subst. destruct (tltb ops r1 (sn_corrupt n)); auto. }
             clear - C3 Hm'. induction C3; constructor; auto.
             destruct H as (_ & H1 & H2 & H3). splits; auto. eexists. split; eauto.
          -- intros X. contradiction.
          -- intros _ Hmm. destruct (net_fate_bounds _ _ _ _ _ _ _ _ Hmm F) as (B & _ & _).
             rewrite (qd_clock _ _ Dr) in C3.
             eapply Forall2_Forall_r; [|exact B|exact C3]. cbn beta.
             intros x y [B1 B2] (H1 & _). exists x. split; auto. split; [split; auto|].
             intros Hz.
             assert (Hx : tle (tz ops) x) by (eapply tle_trans; eauto).
             rewrite H1, tmax0_id by auto. splits; auto; apply (add_mono_r ops laws); auto.
  Qed.

  (* a timer fires exactly at its set time plus its delay *)
  Theorem timer_fires_at nname nid proc time (p : pentry T PS) lc w name delay once p' lc' w' :
    node_action ops draws nname nid proc time p lc w (ATimerSet name delay once) = Ok (p', lc', w') ->
    match sget N.compare name (pe_ptimers p), once with
    | Some _, true => w' = w                     (* set_timer_once on a pending timer is ignored *)
    | _, _ =>
      let e := {| q_id := q_count (w_q w); q_time := tadd ops (q_clock (w_q w)) (tmax0 delay); q_src := nid; q_dst := nid;
                  q_data := QTimer proc name |} in
      q_events (w_q w') = q_events (w_q w) ++ [e] /\
      sget N.compare name (pe_ptimers p') = Some (q_id e) /\
      q_clock (w_q w') = q_clock (w_q w) /\
      (tle (tz ops) delay -> q_time e = tadd ops (q_clock (w_q w)) delay)
    end.
  Proof.
    unfold Sim.node_action. intros H.
    assert (Hd : tle (tz ops) delay -> tadd ops (q_clock (w_q w)) (tmax0 delay) = tadd ops (q_clock (w_q w)) delay).
    { intros Hz. rewrite tmax0_id; auto. }
    destruct (sget N.compare name (pe_ptimers p)) as [old|]; [destruct once|].
    - inversion H; subst. reflexivity.
    - binv H. destruct a as [q2 i]. inversion Hb; subst. apply q_add_spec in Ha. destruct Ha as [-> ->].
      cbn [w_q q_with q_events q_clock q_cancel q_count q_id q_time pe_with pe_ptimers]. splits; auto.
      apply (sget_sins_eq _ CmpSpec_N).
    - binv H. destruct a as [q2 i]. inversion Hb; subst. apply q_add_spec in Ha. destruct Ha as [-> ->].
      cbn [w_q q_with q_events q_clock q_count q_id q_time pe_with pe_ptimers]. splits; auto.
      apply (sget_sins_eq _ CmpSpec_N).
  Qed.

  (* when an event is handled, the clock (seen by the handler, and after the step) is the event's time *)
  Theorem handled_at_its_time s e s' : step_ev s e s' ->
    exists q', q_next (y_q s) = (q', Some e) /\ q_clock q' = q_time e /\ deliver (popped s q') e = Ok s' /\ now s' = q_time e.
  Proof.
    intros (q' & H1 & H2). exists q'. pose proof (q_next_spec (y_q s)) as S. rewrite H1 in S.
    destruct S as (_ & _ & C & _). splits; auto.
    apply deliver_grows in H2. unfold now. rewrite (qg_clock _ _ H2). exact C.
  Qed.

End SimTimeP.

(* a handler's clock reads global time plus its node's skew: node_handle depends on the handler only through
   its value at the time argument  clock + skew  (so that is the time the handler is called with) *)
Section HandlerClock.
  Context {T : Type} (ops : time_ops T).
  Context {PS : Type}.
  Variable draws : nat -> T.
  Variables h1 h2 : N -> PS -> input -> T -> (nat -> T) -> PS * list (action T) * nat.

  Theorem handler_clock nname (nd : @simnode T PS) proc k w :
    (forall pr st inp dr, h1 pr st inp (tadd ops (q_clock (w_q w)) (sd_skew nd)) dr =
                          h2 pr st inp (tadd ops (q_clock (w_q w)) (sd_skew nd)) dr) ->
    node_handle ops h1 draws nname nd proc k w = node_handle ops h2 draws nname nd proc k w.
  Proof.
    intros H. unfold node_handle.
    destruct (sget N.compare proc (sd_procs nd)) as [p|]; [|reflexivity].
    match goal with |- context [let '(_, _) := ?x in _] => destruct x as [p1 tlog] end.
    rewrite H. reflexivity.
  Qed.

  Theorem deliver_handler_clock (s : @simsys T PS) e :
    (forall nname nd, In (nname, nd) (y_nodes s) -> forall pr st inp dr,
        h1 pr st inp (tadd ops (q_clock (y_q s)) (sd_skew nd)) dr =
        h2 pr st inp (tadd ops (q_clock (y_q s)) (sd_skew nd)) dr) ->
    deliver ops h1 draws s e = deliver ops h2 draws s e.
  Proof.
    intros H. unfold deliver.
    destruct (sget N.compare (q_dst e) (y_handlers s)) as [[|]|]; try reflexivity.
    destruct (find _ (y_nodes s)) as [[nname nd]|] eqn:F; [|reflexivity].
    apply find_some in F. destruct F as [F _].
    set (w := {| w_q := y_q s; w_net := y_net s; w_log := y_log s |}).
    destruct (q_data e); rewrite (handler_clock nname nd _ _ w (H nname nd F)); reflexivity.
  Qed.
End HandlerClock.

(* ------------------------------------------------------------------------------------------ *)
(* counterexample: a negative duration moves the clock backwards                               *)
(* ------------------------------------------------------------------------------------------ *)
Section NegDuration.
  (* on a local message: set timer 0 with delay 5 when the (local) time is 0, with delay 0 otherwise *)
  Definition cx_handler (proc : N) (st : unit) (i : input) (t : Z) (dr : nat -> Z) : unit * list (action Z) * nat :=
    match i with
    | InLocal _ => (tt, [ATimerSet 0%N (if Z.eqb t 0 then 5%Z else 0%Z) false], O)
    | _ => (tt, [], O)
    end.
  Definition cx_msg : msg := {| tip := []; data := [] |}.
  Definition cx_script : list (sop (T := Z)) :=
    [YAddNode 0; YAddProcess 0 0; YSendLocal 0 cx_msg; YStep;          (* the timer fires at time 5 *)
     YStepForDuration (-3)%Z;                                           (* the clock goes back to 2 *)
     YSendLocal 0 cx_msg; YStep].                                       (* an event is handled at time 2 < 5 *)
  Definition cx_run (l : list (sop (T := Z))) : option (Z * list sret) :=
    match run_ops z_ops cx_handler (fun _ => tt) (fun _ => 0%Z) (fun l => l) 100 (sys0 z_ops) l with
    | Ok (s, rets) => Some (now s, rets)
    | Panic _ => None
    end.

  (* the clock after each prefix of the script: 5 after the first step, 2 after step_for_duration(-3), and the
     last step handles an event at time 2 although an event was handled at time 5 before *)
  Lemma neg_duration_clock_back :
    option_map fst (cx_run (firstn 4 cx_script)) = Some 5%Z /\
    option_map fst (cx_run (firstn 5 cx_script)) = Some 2%Z /\
    cx_run cx_script = Some (2%Z, [RetUnit; RetUnit; RetUnit; RetBool true; RetBool false; RetUnit; RetBool true]).
  Proof. vm_compute. auto. Qed.
End NegDuration.

Print Assumptions q_min_spec.
Print Assumptions q_next_spec.
Print Assumptions q_peek_spec.
Print Assumptions q_next_some.
Print Assumptions QInv_q_add.
Print Assumptions sim_op_TimeInv.
Print Assumptions Reachable_TimeInv.
Print Assumptions step_contract.
Print Assumptions steps_contract.
Print Assumptions until_no_events_op_contract.
Print Assumptions duration_contract.
Print Assumptions until_local_contract.
Print Assumptions until_local_no_step.
Print Assumptions until_local_max_contract.
Print Assumptions handled_monotone.
Print Assumptions handled_sorted.
Print Assumptions run_ops_mono.
Print Assumptions handled_later_not_earlier.
Print Assumptions send_arrival.
Print Assumptions timer_fires_at.
Print Assumptions handled_at_its_time.
Print Assumptions handler_clock.
Print Assumptions deliver_handler_clock.
Print Assumptions neg_duration_clock_back.
