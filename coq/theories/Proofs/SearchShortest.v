(* T9: the error reported by Bfs is at minimal depth (counter-example minimality), for every visited mode.
   Uses the definitions and basic lemmas of Proofs/SearchCorrect.v. *)
From Coq Require Import List NArith Arith Bool Lia.
From ASV Require Import Base.Util Model.Search Proofs.SearchCorrect.
Import ListNotations.

#[local] Arguments ss_visited {St} _.
#[local] Arguments ss_statuses {St} _.
#[local] Arguments ss_collected {St} _.
#[local] Arguments ss_checked {St} _.

Section SearchShortest.
  Variable St : Type.
  Variable veq : St -> St -> bool.
  Variable expand : St -> result (list St).
  Variable enabled_ok : St -> result unit.
  Variable no_events : St -> result bool.
  Variable p_collect : St -> bool.
  Variable p_inv : St -> option N.
  Variable p_goal : St -> option N.
  Variable p_prune : St -> option N.
  Variable debug : bool.

  Local Notation vkS := (vk St no_events p_inv p_goal p_prune).
  Local Notation ReachNS := (ReachN St expand no_events p_inv p_goal p_prune).
  Local Notation closedCS := (closedC St veq expand no_events p_inv p_goal p_prune).
  Local Notation sstateT := (sstate St).
  Local Notation memV := (Search.mem St veq).
  Local Notation checkS := (check_state St veq no_events p_collect p_inv p_goal p_prune debug).

  Hypothesis veq_refl : forall s, veq s s = true.
  Hypothesis veq_sym : forall s t, veq s t = true -> veq t s = true.
  Hypothesis veq_trans : forall s t u, veq s t = true -> veq t u = true -> veq s u = true.
  Hypothesis vk_compat : forall s t, veq s t = true -> vkS s = vkS t.
  Hypothesis expand_compat : forall s t l, veq s t = true -> expand s = Ok l ->
    exists l', expand t = Ok l' /\ (forall x, In x l -> exists y, In y l' /\ veq x y = true).

  Variable vm : vmode.
  Local Notation mk := (mark_visited St veq vm).
  Local Notation addN := (add_new St veq vm).
  Local Notation bfsM := (bfs St veq expand no_events p_collect p_inv p_goal p_prune debug vm).
  Local Notation runM := (run_strategy St veq expand enabled_ok no_events p_collect p_inv p_goal p_prune debug vm).
  Local Notation css := (check_state_spec St veq no_events p_collect p_inv p_goal p_prune debug).

  Variable s0 : St.

  Definition NoErr (x : St) : Prop := forall m, vkS x <> Ok (VErr m).
  (* s is an error state at depth n and no state at a smaller depth is an error state *)
  Definition Shortest (m : N) (s : St) : Prop :=
    exists n, ReachNS s0 n s /\ vkS s = Ok (VErr m) /\
              forall k x, (k < n)%nat -> ReachNS s0 k x -> NoErr x.

  Lemma ReachN_0 x : ReachNS s0 O x -> x = s0.
  Proof. intros H. inversion H. reflexivity. Qed.
  Lemma ReachN_S n x : ReachNS s0 (S n) x ->
    exists p l, ReachNS s0 n p /\ vkS p = Ok VGo /\ expand p = Ok l /\ In x l.
  Proof. intros H. inversion H as [|n' p l x' Hp Hv He Hi]; subst. exists p, l. auto. Qed.

  (* ================= visited set enabled ================= *)
  Section Vis.
    Hypothesis vm_on : vm <> VDisabled.

    Definition Fresh (n : nat) (x : St) : Prop :=
      forall k y, (k < n)%nat -> ReachNS s0 k y -> veq x y = false.

    Record LInv (d : nat) (Q1 Q2 : list St) (ss : sstateT) : Prop := {
      l_q1 : forall x, In x Q1 -> ReachNS s0 d x /\ Fresh d x;
      l_q2 : forall x, In x Q2 -> ReachNS s0 (S d) x /\ Fresh (S d) x;
      l_marked : forall k x, (k <= d)%nat -> ReachNS s0 k x ->
                             exists v, In v (ss_visited ss) /\ veq x v = true;
      l_cover : forall v, In v (ss_visited ss) -> In v (Q1 ++ Q2) \/ In v (ss_checked ss);
      l_chk : forall c, In c (ss_checked ss) -> closedCS (ss_visited ss) c }.

    Lemma level_up d Q2 ss : LInv d [] Q2 ss -> LInv (S d) Q2 [] ss.
    Proof.
      intros L. split.
      - exact (l_q2 _ _ _ _ L).
      - intros x [].
      - intros k x Hk Hx. assert (Hk' : (k <= d)%nat \/ k = S d) by lia. destruct Hk' as [Hk'| ->].
        { exact (l_marked _ _ _ _ L k x Hk' Hx). }
        destruct (ReachN_S _ _ Hx) as (p & l & Hp & Hvp & Hep & Hin).
        destruct (l_marked _ _ _ _ L d p (le_n d) Hp) as (v & Hv & Epv).
        destruct (l_cover _ _ _ _ L v Hv) as [Hq|Hc].
        + cbn [app] in Hq. destruct (l_q2 _ _ _ _ L v Hq) as [_ Hf].
          apply veq_sym in Epv. rewrite (Hf d p ltac:(lia) Hp) in Epv. discriminate.
        + destruct (l_chk _ _ _ _ L v Hc) as [Hfin|(_ & l' & He' & Hl')].
          { rewrite <- (vk_compat _ _ Epv), Hvp in Hfin. discriminate. }
          destruct (expand_compat _ _ _ Epv Hep) as (l'' & He'' & Hcov).
          rewrite He' in He''. injection He'' as <-.
          destruct (Hcov x Hin) as (y' & Hy' & E1). destruct (Hl' y' Hy') as (v' & Hv' & E2).
          exists v'. split; [exact Hv'|]. eapply veq_trans; eauto.
      - rewrite app_nil_r. exact (l_cover _ _ _ _ L).
      - exact (l_chk _ _ _ _ L).
    Qed.

    Lemma bfs_vis_shortest fuel : forall q ss d Q1 Q2,
      q = Q1 ++ Q2 -> LInv d Q1 Q2 ss ->
      match bfsM fuel q ss with
      | OErr m s _ => Shortest m s
      | _ => True
      end.
    Proof.
      induction fuel as [|f IH]; intros q ss d Q1 Q2 Eq L; cbn [bfs]; [exact I|].
      destruct q as [|s q']; [exact I|].
      assert (N : exists d' Q1' Q2', q' = Q1' ++ Q2' /\ LInv d' (s :: Q1') Q2' ss).
      { destruct Q1 as [|s1 Q1'].
        - cbn [app] in Eq. subst Q2. exists (S d), q', []. split; [rewrite app_nil_r; reflexivity|].
          apply level_up, L.
        - cbn [app] in Eq. injection Eq as <- ->. exists d, Q1', Q2. split; [reflexivity|exact L]. }
      clear d Q1 Q2 Eq L. destruct N as (d & Q1 & Q2 & Eq & L).
      destruct (checkS ss s) as [[ss1 v]|t] eqn:Ec; [|exact I].
      apply css in Ec as (Hvk & HV & HC & _).
      destruct (l_q1 _ _ _ _ L s (or_introl eq_refl)) as [Hrs Hfs].
      destruct v as [m| |].
      - exists d. split; [exact Hrs|]. split; [exact Hvk|].
        intros k x Hk Hx m' Hm'.
        destruct (l_marked _ _ _ _ L k x ltac:(lia) Hx) as (v & Hv & Exv).
        destruct (l_cover _ _ _ _ L v Hv) as [Hq|Hc].
        + apply veq_sym in Exv. apply in_app_or in Hq as [Hq|Hq].
          * destruct (l_q1 _ _ _ _ L v Hq) as [_ Hf]. rewrite (Hf k x Hk Hx) in Exv. discriminate.
          * destruct (l_q2 _ _ _ _ L v Hq) as [_ Hf]. rewrite (Hf k x ltac:(lia) Hx) in Exv. discriminate.
        + rewrite (vk_compat _ _ Exv) in Hm'.
          destruct (closedC_ok _ _ _ _ _ _ _ _ _ (l_chk _ _ _ _ L v Hc)) as [H|H]; congruence.
      - apply (IH q' ss1 d Q1 Q2 Eq). split.
        + intros x Hx. apply (l_q1 _ _ _ _ L). now right.
        + exact (l_q2 _ _ _ _ L).
        + rewrite HV. exact (l_marked _ _ _ _ L).
        + rewrite HV, HC. intros v Hv. destruct (l_cover _ _ _ _ L v Hv) as [[<-|Hq]|Hc].
          * right. now left.
          * now left.
          * right. now right.
        + rewrite HV, HC. intros c [<-|Hc]; [now left|apply (l_chk _ _ _ _ L), Hc].
      - destruct (expand s) as [succs|t] eqn:Ee; [|exact I].
        destruct (addN succs ss1 q') as [ss2 q2] eqn:Ea.
        destruct (add_new_vis St veq veq_refl vm vm_on _ _ _ _ _ Ea) as (nq & A & Bq & Cq & D & F & G & K).
        rewrite HV in *. rewrite HC in K.
        apply (IH q2 ss2 d Q1 (Q2 ++ nq)); [rewrite A, Eq, app_assoc; reflexivity|]. split.
        + intros x Hx. apply (l_q1 _ _ _ _ L). now right.
        + intros x Hx. apply in_app_or in Hx as [Hx|Hx]; [exact (l_q2 _ _ _ _ L x Hx)|]. split.
          * eapply RNS; eauto.
          * intros k y Hk Hy. destruct (veq x y) eqn:Exy; [|reflexivity]. exfalso.
            destruct (l_marked _ _ _ _ L k y ltac:(lia) Hy) as (v & Hv & Eyv).
            pose proof (proj1 (mem_false St veq x _) (Cq x Hx) v Hv) as Hxv.
            rewrite (veq_trans _ _ _ Exy Eyv) in Hxv. discriminate.
        + intros k x Hk Hx. destruct (l_marked _ _ _ _ L k x Hk Hx) as (v & Hv & E).
          exists v. split; [apply D, Hv|exact E].
        + rewrite K. intros v Hv. destruct (F v Hv) as [Hv0|Hv0].
          * destruct (l_cover _ _ _ _ L v Hv0) as [[<-|Hq]|Hc].
            -- right. now left.
            -- left. apply in_app_or in Hq as [Hq|Hq]; apply in_or_app; [now left|right; apply in_or_app; now left].
            -- right. now right.
          * left. apply in_or_app. right. apply in_or_app. now right.
        + rewrite K. intros c [<-|Hc].
          * right. split; [exact Hvk|]. exists succs. split; [exact Ee|exact G].
          * eapply closedC_mono; [exact D|]. apply (l_chk _ _ _ _ L), Hc.
    Qed.

    Lemma bfs_vis_shortest_start fuel :
      match bfsM fuel [s0] (mk (ss_empty St) s0) with
      | OErr m s _ => Shortest m s
      | _ => True
      end.
    Proof.
      apply (bfs_vis_shortest fuel [s0] _ O [s0] []); [reflexivity|].
      rewrite (mk_on St veq vm vm_on). cbn. split; cbn.
      - intros x [<-|[]]. split; [constructor|]. intros k y Hk. lia.
      - intros x [].
      - intros k x Hk Hx. assert (k = O) by lia. subst k. apply ReachN_0 in Hx. subst x.
        exists s0. split; [now left|apply veq_refl].
      - intros v [<-|[]]. left. now left.
      - intros c [].
    Qed.
  End Vis.

  (* ================= visited set disabled ================= *)
  Section Tree.
    Hypothesis vm_off : vm = VDisabled.

    Record TL (d : nat) (Q1 Q2 : list St) (ss : sstateT) : Prop := {
      t_q1 : forall x, In x Q1 -> ReachNS s0 d x;
      t_q2 : forall x, In x Q2 -> ReachNS s0 (S d) x;
      t_lt : forall k x, (k < d)%nat -> ReachNS s0 k x -> In x (ss_checked ss);
      t_eq : forall x, ReachNS s0 d x -> In x Q1 \/ In x (ss_checked ss);
      t_next : forall x, ReachNS s0 (S d) x ->
                 In x Q2 \/ exists p l, In p Q1 /\ vkS p = Ok VGo /\ expand p = Ok l /\ In x l;
      t_chk : forall c, In c (ss_checked ss) -> NoErr c }.

    Lemma tlevel_up d Q2 ss : TL d [] Q2 ss -> TL (S d) Q2 [] ss.
    Proof.
      intros T. split.
      - exact (t_q2 _ _ _ _ T).
      - intros x [].
      - intros k x Hk Hx. assert (Hk' : (k < d)%nat \/ k = d) by lia. destruct Hk' as [Hk'| ->].
        + exact (t_lt _ _ _ _ T k x Hk' Hx).
        + destruct (t_eq _ _ _ _ T x Hx) as [[]|H]. exact H.
      - intros x Hx. destruct (t_next _ _ _ _ T x Hx) as [H|(p & l & [] & _)]. now left.
      - intros x Hx. destruct (ReachN_S _ _ Hx) as (p & l & Hp & Hvp & Hep & Hin).
        right. exists p, l. split; [|auto].
        destruct (t_next _ _ _ _ T p Hp) as [H|(p' & l' & [] & _)]. exact H.
      - exact (t_chk _ _ _ _ T).
    Qed.

    Lemma bfs_tree_shortest fuel : forall q ss d Q1 Q2,
      q = Q1 ++ Q2 -> TL d Q1 Q2 ss ->
      match bfsM fuel q ss with
      | OErr m s _ => Shortest m s
      | _ => True
      end.
    Proof.
      induction fuel as [|f IH]; intros q ss d Q1 Q2 Eq T; cbn [bfs]; [exact I|].
      destruct q as [|s q']; [exact I|].
      assert (N : exists d' Q1' Q2', q' = Q1' ++ Q2' /\ TL d' (s :: Q1') Q2' ss).
      { destruct Q1 as [|s1 Q1'].
        - cbn [app] in Eq. subst Q2. exists (S d), q', []. split; [rewrite app_nil_r; reflexivity|].
          apply tlevel_up, T.
        - cbn [app] in Eq. injection Eq as <- ->. exists d, Q1', Q2. split; [reflexivity|exact T]. }
      clear d Q1 Q2 Eq T. destruct N as (d & Q1 & Q2 & Eq & T).
      destruct (checkS ss s) as [[ss1 v]|t] eqn:Ec; [|exact I].
      apply css in Ec as (Hvk & HV & HC & _).
      pose proof (t_q1 _ _ _ _ T s (or_introl eq_refl)) as Hrs.
      destruct v as [m| |].
      - exists d. split; [exact Hrs|]. split; [exact Hvk|].
        intros k x Hk Hx. apply (t_chk _ _ _ _ T), (t_lt _ _ _ _ T k x Hk Hx).
      - apply (IH q' ss1 d Q1 Q2 Eq). split.
        + intros x Hx. apply (t_q1 _ _ _ _ T). now right.
        + exact (t_q2 _ _ _ _ T).
        + rewrite HC. intros k x Hk Hx. right. exact (t_lt _ _ _ _ T k x Hk Hx).
        + rewrite HC. intros x Hx. destruct (t_eq _ _ _ _ T x Hx) as [[<-|H]|H];
            [right; now left|now left|right; now right].
        + intros x Hx. destruct (t_next _ _ _ _ T x Hx) as [H|(p & l & [<-|Hp] & Hvp & Hep & Hin)].
          * now left.
          * congruence.
          * right. exists p, l. auto.
        + rewrite HC. intros c [<-|Hc]; [intros m' Hm'; congruence|apply (t_chk _ _ _ _ T), Hc].
      - destruct (expand s) as [succs|t] eqn:Ee; [|exact I].
        rewrite (add_new_off St veq vm vm_off).
        apply (IH (q' ++ succs) ss1 d Q1 (Q2 ++ succs)); [rewrite Eq, app_assoc; reflexivity|]. split.
        + intros x Hx. apply (t_q1 _ _ _ _ T). now right.
        + intros x Hx. apply in_app_or in Hx as [Hx|Hx]; [exact (t_q2 _ _ _ _ T x Hx)|].
          eapply RNS; eauto.
        + rewrite HC. intros k x Hk Hx. right. exact (t_lt _ _ _ _ T k x Hk Hx).
        + rewrite HC. intros x Hx. destruct (t_eq _ _ _ _ T x Hx) as [[<-|H]|H];
            [right; now left|now left|right; now right].
        + intros x Hx. destruct (t_next _ _ _ _ T x Hx) as [H|(p & l & [<-|Hp] & Hvp & Hep & Hin)].
          * left. apply in_or_app. now left.
          * left. apply in_or_app. right. congruence.
          * right. exists p, l. auto.
        + rewrite HC. intros c [<-|Hc]; [intros m' Hm'; congruence|apply (t_chk _ _ _ _ T), Hc].
    Qed.

    Lemma bfs_tree_shortest_start fuel :
      match bfsM fuel [s0] (mk (ss_empty St) s0) with
      | OErr m s _ => Shortest m s
      | _ => True
      end.
    Proof.
      apply (bfs_tree_shortest fuel [s0] _ O [s0] []); [reflexivity|].
      rewrite (mk_off St veq vm vm_off). split; cbn.
      - intros x [<-|[]]. constructor.
      - intros x [].
      - intros k x Hk. lia.
      - intros x Hx. apply ReachN_0 in Hx. auto.
      - intros x Hx. destruct (ReachN_S _ _ Hx) as (p & l & Hp & Hvp & Hep & Hin).
        apply ReachN_0 in Hp. subst p. right. exists s0, l. auto.
      - intros c [].
    Qed.
  End Tree.

  (* T9 *)
  Theorem bfs_shortest fuel m s ss' :
    runM Bfs fuel s0 (mk (ss_empty St) s0) = OErr m s ss' ->
    exists n, ReachNS s0 n s /\ vkS s = Ok (VErr m) /\
              forall k x, (k < n)%nat -> ReachNS s0 k x -> forall m', vkS x <> Ok (VErr m').
  Proof.
    cbn [run_strategy]. intros H. destruct (vm_dec vm) as [Hoff|Hon].
    - pose proof (bfs_tree_shortest_start Hoff fuel) as G. rewrite H in G. exact G.
    - pose proof (bfs_vis_shortest_start Hon fuel) as G. rewrite H in G. exact G.
  Qed.
End SearchShortest.

Print Assumptions bfs_shortest.

(* Sanity check (non-vacuity, and why T9 is a Bfs-only property):
   0 -> [1;2], 1 -> [3], 2 and 3 violate the invariant (messages 2 and 3).
   Bfs reports state 2 (depth 1); Dfs reports state 3 (depth 2) although 2 is an error state at depth 1. *)
Module ExampleShortest.
  Definition ex_expand (n : N) : result (list N) :=
    Ok (match n with 0 => [1; 2] | 1 => [3] | _ => [] end).
  Definition ex_inv (n : N) : option N := if (2 <=? n) then Some n else None.
  Definition ex_run (vm : vmode) (st : strategy) : outcome N :=
    run_strategy N N.eqb ex_expand (fun _ => Ok tt) (fun _ => Ok false) (fun _ => false)
      ex_inv (fun _ => None) (fun _ => None) false vm st 10 0 (mark_visited N N.eqb vm (ss_empty N) 0).
  Definition err_of (o : outcome N) : option (N * N) :=
    match o with OErr m s _ => Some (m, s) | _ => None end.
  Goal err_of (ex_run VFull Bfs) = Some (2, 2) /\ err_of (ex_run VFull Dfs) = Some (3, 3)
       /\ err_of (ex_run VDisabled Bfs) = Some (2, 2) /\ err_of (ex_run VDisabled Dfs) = Some (3, 3).
  Proof. vm_compute. auto. Qed.
End ExampleShortest.
