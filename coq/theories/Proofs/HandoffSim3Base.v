(* C04, stage 3, part 1: the event relation with fault budgets and a corruption DEBT.  While the checker executes one
   delivery step (all actions of a handler at once) the simulator may have corrupted some of the sends; the checker
   converts the corresponding number of pending copies (ChCorrupt on the oldest identical pending event) right
   after that step.  The debt is the list of copies still to be converted. *)
From Coq Require Import List NArith Bool Lia Permutation Sorted.
From ASV Require Import Base.Util Base.Msg Base.Log Model.Store Spec.StoreSpec Model.McSys Spec.RefSys
     Model.Sim Spec.TimeLaws Spec.SimSpec
     Proofs.UtilP Proofs.StoreSpecP Proofs.RefWf Proofs.SimTimeP Proofs.SimBaseP Proofs.HandoffSimBase Proofs.HandoffSim2Base.
Import ListNotations.

Lemma msg_eq_dec (a b : msg) : {a = b} + {a <> b}.
Proof. decide equality; apply list_eq_dec, N.eq_dec. Qed.
Lemma content_eq_dec (a b : content) : {a = b} + {a <> b}.
Proof. decide equality; try apply N.eq_dec; apply msg_eq_dec. Qed.

(* permutations of concatenations, by counting *)
Ltac perm_count :=
  apply (Permutation_count_occ content_eq_dec); intros zz;
  repeat match goal with
         | P : Permutation ?a ?b |- _ => pose proof (proj1 (Permutation_count_occ content_eq_dec a b) P zz); clear P
         end;
  rewrite ?count_occ_app in *; lia.

Lemma map_repeat' {A B} (f : A -> B) x n : map f (repeat x n) = repeat (f x) n.
Proof. induction n; cbn; congruence. Qed.

Definition debt_unit := (msg * N * N)%type.
Definition dm (u : debt_unit) : content := let '(m, s, d) := u in CMsg m s d.
Definition dc (u : debt_unit) : content := let '(m, s, d) := u in CMsg (corrupt_msg m) s d.

Section EvRel3.
  Context {T : Type} (ops : time_ops T).
  Hypothesis laws : time_laws ops.
  Notation qevent := (@qevent T).
  Notation sevent := (sevent T).
  Notation pendl := (list (id * sevent)).
  Notation tle a b := (tleb ops a b = true).
  Notation c_of_q := (@c_of_q T).
  Notation c_of_s := (@c_of_s T).
  Notation c_of_p := (@c_of_p T).
  Notation expand := (@expand T).
  Notation pot := (@pot T).

  Definition PermD (lv : list qevent) (L : pendl) (debt : list debt_unit) : Prop :=
    exists extra, Forall is_cmsg extra /\
                  Permutation (map c_of_q lv ++ extra ++ map dm debt) (expand L ++ map dc debt).

  Record EvR3 (lv : list qevent) (clk : T) (L : pendl) (debt : list debt_unit) : Prop := {
    e3_perm : PermD lv L debt;
    e3_bound : forall i p n d e, In (i, ETimer p n d) L -> In e lv -> q_data e = QTimer p n ->
                 tle (q_time e) (tadd ops clk (tmax0 ops d));
    e3_order : forall i1 i2 p n1 n2 d1 d2 e1 e2,
                 In (i2, ETimer p n2 d2) L -> In (i1, ETimer p n1 d1) (before i2 L) -> tle d1 d2 ->
                 In e1 lv -> In e2 lv -> q_data e1 = QTimer p n1 -> q_data e2 = QTimer p n2 ->
                 key_lt ops e1 e2 }.

  Lemma is_cmsg_dm u : is_cmsg (dm u).
  Proof. destruct u as [[m s] d]. exact I. Qed.
  Lemma is_cmsg_dc u : is_cmsg (dc u).
  Proof. destruct u as [[m s] d]. exact I. Qed.
  Lemma not_cmsg_in l p n : Forall is_cmsg l -> ~ In (CTimer p n) l.
  Proof. intros H Hi. rewrite Forall_forall in H. exact (H _ Hi). Qed.
  Lemma forall_cmsg_map {A} (f : A -> content) l : (forall x, is_cmsg (f x)) -> Forall is_cmsg (map f l).
  Proof. intros H. apply Forall_forall. intros c Hc. apply in_map_iff in Hc. destruct Hc as (x & <- & _). apply H. Qed.

  Lemma permd_timer_back lv L debt i p n d :
    PermD lv L debt -> In (i, ETimer p n d) L -> exists e, In e lv /\ q_data e = QTimer p n.
  Proof.
    intros (extra & Hx & HP) Hi.
    assert (H : In (CTimer p n) (expand L ++ map dc debt)).
    { apply in_app_iff. left. apply in_expand. exists (i, ETimer p n d). auto. }
    apply (Permutation_in _ (Permutation_sym HP)) in H. apply in_app_iff in H. destruct H as [H|H].
    - apply in_map_iff in H. destruct H as (e & He & Hin). exists e. split; [exact Hin|]. apply c_of_q_timer. exact He.
    - exfalso. apply in_app_iff in H. destruct H as [H|H].
      + eapply not_cmsg_in; eauto.
      + eapply not_cmsg_in; [|exact H]. apply forall_cmsg_map. apply is_cmsg_dm.
  Qed.
  (* a simulator event is matched by a pending event of the same content, unless it is a corrupted copy not yet converted *)
  Lemma permd_fwd lv L debt e :
    PermD lv L debt -> In e lv -> (exists i x, In (i, x) L /\ c_of_s x = c_of_q e) \/ In (c_of_q e) (map dc debt).
  Proof.
    intros (extra & Hx & HP) He.
    assert (H : In (c_of_q e) (map c_of_q lv ++ extra ++ map dm debt)) by (apply in_app_iff; left; apply in_map; exact He).
    apply (Permutation_in _ HP) in H. apply in_app_iff in H. destruct H as [H|H]; [left|right; exact H].
    apply in_expand in H. destruct H as ([i x] & Hin & Hc). exists i, x. auto.
  Qed.
  (* a unit of the debt is a pending copy, unless it is itself the corruption of another unit *)
  Lemma permd_debt_in lv L debt u :
    PermD lv L debt -> In u debt -> In (dm u) (expand L) \/ In (dm u) (map dc debt).
  Proof.
    intros (extra & Hx & HP) Hu.
    assert (H : In (dm u) (map c_of_q lv ++ extra ++ map dm debt)).
    { apply in_app_iff. right. apply in_app_iff. right. apply in_map. exact Hu. }
    apply (Permutation_in _ HP) in H. apply in_app_iff in H. exact H.
  Qed.

  Lemma EvR3_clock lv clk clk' L debt : tle clk clk' -> EvR3 lv clk L debt -> EvR3 lv clk' L debt.
  Proof.
    intros Hc [P B O]. constructor; auto.
    intros i p n d e Hi He Hd. eapply (le_trans ops laws); [eapply B; eauto|].
    apply (add_mono_l ops laws). exact Hc.
  Qed.

  (* ---- a send; [corrupted]: the simulator's copies carry the corrupted payload ---- *)
  Lemma EvR3_push_msgs lv clk L debt news i m src dst o (corrupted : bool) :
    EvR3 lv clk L debt ->
    (forall e, In e news -> c_of_q e = CMsg (if corrupted then corrupt_msg m else m) src dst) -> ~ In i (ids L) ->
    (length news <= pot (EMsg m src dst o))%nat ->
    EvR3 (lv ++ news) clk (L ++ [(i, EMsg m src dst o)])
         (if corrupted then debt ++ repeat (m, src, dst) (length news) else debt).
  Proof.
    intros [(extra & Hx & P) B O] Hc Hi Hlen.
    assert (Hnt : forall e p n, In e news -> q_data e <> QTimer p n).
    { intros e p n He Hd. apply c_of_q_timer in Hd. rewrite (Hc e He) in Hd. discriminate. }
    constructor.
    - set (c := CMsg m src dst). set (k := length news). set (pt := pot (EMsg m src dst o)) in *.
      exists (extra ++ repeat c (pt - k)). split.
      { apply Forall_app. split; [exact Hx|]. apply Forall_forall. intros y Hy. apply repeat_spec in Hy. subst y. exact I. }
      rewrite map_app, (map_const_repeat c_of_q _ news Hc), expand_app, expand_one. fold k. cbn [c_of_s]. fold c pt.
      replace pt with (k + (pt - k))%nat at 2 by lia. rewrite repeat_app.
      destruct corrupted.
      + rewrite !map_app, !map_repeat'. cbn [dm dc]. subst c. perm_count.
      + subst c. perm_count.
    - intros j p n d e' Hj He' Hd. apply in_app_iff in Hj. destruct Hj as [Hj|[Hj|[]]]; [|discriminate].
      apply in_app_iff in He'. destruct He' as [He'|He']; [eauto|]. exfalso. eapply Hnt; eauto.
    - intros i1 i2 p n1 n2 d1 d2 e1 e2 H2 H1 Hd H1' H2' D1 D2.
      apply in_app_iff in H2. destruct H2 as [H2|[H2|[]]]; [|discriminate].
      rewrite before_app_in in H1 by (apply in_ids; eauto).
      apply in_app_iff in H1'. destruct H1' as [H1'|H1']; [|exfalso; eapply Hnt; eauto].
      apply in_app_iff in H2'. destruct H2' as [H2'|H2']; [|exfalso; eapply Hnt; eauto].
      eapply O; eauto.
  Qed.

  (* ---- a new timer on both sides ---- *)
  Lemma EvR3_push_timer lv clk L debt e i p n d :
    EvR3 lv clk L debt -> q_data e = QTimer p n -> q_time e = tadd ops clk (tmax0 ops d) ->
    (forall x, In x lv -> q_id x < q_id e) ->
    (forall x, In x lv -> q_data x <> QTimer p n) ->
    ~ In i (ids L) ->
    EvR3 (lv ++ [e]) clk (L ++ [(i, ETimer p n d)]) debt.
  Proof.
    intros [P B O] Hd Ht Hid Hfresh Hi.
    assert (HfreshL : forall j d', ~ In (j, ETimer p n d') L).
    { intros j d' Hj. destruct (permd_timer_back _ _ _ _ _ _ _ P Hj) as (x & Hx & Hdx). eapply Hfresh; eauto. }
    destruct P as (extra & Hx & P).
    constructor.
    - exists extra. split; [exact Hx|]. rewrite map_app, expand_app, expand_one. cbn [map c_of_s pot repeat].
      apply c_of_q_timer in Hd. rewrite Hd. perm_count.
    - intros j p' n' d' e' Hj He' Hd'.
      apply in_app_iff in Hj. apply in_app_iff in He'.
      destruct Hj as [Hj|[Hj|[]]]; destruct He' as [He'|[<-|[]]].
      + eauto.
      + rewrite Hd in Hd'. inversion Hd'; subst p' n'. exfalso. eapply HfreshL; eauto.
      + inversion Hj; subst p' n' d'. exfalso. eapply Hfresh; eauto.
      + inversion Hj; subst. rewrite Ht. apply (le_refl ops laws).
    - intros i1 i2 p' n1 n2 d1 d2 e1 e2 H2 H1 Hle H1' H2' D1 D2.
      apply in_app_iff in H2. destruct H2 as [H2|[H2|[]]].
      + rewrite before_app_in in H1 by (apply in_ids; eauto).
        apply in_app_iff in H1'. destruct H1' as [H1'|[<-|[]]].
        2:{ rewrite Hd in D1. inversion D1; subst p' n1. exfalso. eapply HfreshL. eapply before_incl; eauto. }
        apply in_app_iff in H2'. destruct H2' as [H2'|[<-|[]]].
        2:{ rewrite Hd in D2. inversion D2; subst p' n2. exfalso. eapply HfreshL; eauto. }
        eapply O; eauto.
      + inversion H2; subst i2 p' n2 d2. clear H2.
        rewrite (before_split L i (ETimer p n d) [] Hi) in H1.
        apply in_app_iff in H2'. destruct H2' as [H2'|[<-|[]]]; [exfalso; eapply Hfresh; eauto|].
        apply in_app_iff in H1'. destruct H1' as [H1'|[<-|[]]].
        2:{ rewrite Hd in D1. inversion D1; subst n1. exfalso. eapply HfreshL; eauto. }
        apply (key_lt_of_le_id ops laws); [|apply Hid; exact H1'].
        rewrite Ht. eapply (le_trans ops laws); [eapply B; eauto|].
        apply (add_mono_r ops laws). apply (tmax0_mono ops laws). exact Hle.
  Qed.

  (* ---- one matched pair removed on both sides ---- *)
  Lemma EvR3_remove lv clk clk' L debt e i x :
    EvR3 lv clk L debt -> NoDup (map (@q_id T) lv) -> NoDup (ids L) ->
    In e lv -> In (i, x) L -> c_of_s x = c_of_q e -> pot x = 1%nat -> tle clk clk' ->
    EvR3 (filter (fun y => negb (N.eqb (q_id y) (q_id e))) lv) clk' (aremove i L) debt.
  Proof.
    intros R Hn1 Hn2 He Hx Hc Hp Hclk. apply (EvR3_clock _ _ _ _ _ Hclk) in R. destruct R as [(extra & Hex & P) B O].
    destruct (filter_id_split (@q_id T) lv e Hn1 He) as (l1 & l2 & E1 & E2).
    destruct (filter_id_split (@fst id sevent) L (i, x) Hn2 Hx) as (m1 & m2 & F1 & F2).
    cbn [fst] in F2. assert (F3 : aremove i L = m1 ++ m2) by exact F2.
    constructor.
    - exists extra. split; [exact Hex|]. rewrite E2, F3. rewrite E1, F1 in P.
      rewrite map_app, expand_app. rewrite map_app, expand_app, expand_cons in P.
      change (map c_of_q (e :: l2)) with ([c_of_q e] ++ map c_of_q l2) in P.
      rewrite Hp, Hc in P. change (repeat (c_of_q e) 1) with [c_of_q e] in P. perm_count.
    - intros j p n d e' Hj He' Hd. apply in_aremove in Hj. apply filter_In in He'.
      destruct Hj as [Hj _]. destruct He' as [He' _]. eapply B; eauto.
    - intros i1 i2 p n1 n2 d1 d2 e1 e2 H2 H1 Hle H1' H2' D1 D2.
      apply in_aremove in H2. destruct H2 as [H2 Hne]. cbn [fst] in Hne.
      rewrite before_aremove in H1 by (intros E; apply Hne; symmetry; exact E).
      apply in_aremove in H1. apply filter_In in H1', H2'. destruct H1 as [H1 _]. destruct H1' as [H1' _].
      destruct H2' as [H2' _]. eapply O; eauto.
  Qed.

  (* ---- the checker replaces a pending message by two (split) or by one with another payload (corrupt): the
          timer part of the relation only needs that the new events are messages at the end of the list ---- *)
  Lemma timers_moved lv clk L debt i (news : pendl) :
    EvR3 lv clk L debt -> (forall j x, In (j, x) news -> exists m s d o, x = EMsg m s d o) ->
    (forall j p n d e, In (j, ETimer p n d) (aremove i L ++ news) -> In e lv -> q_data e = QTimer p n ->
                       tle (q_time e) (tadd ops clk (tmax0 ops d))) /\
    (forall i1 i2 p n1 n2 d1 d2 e1 e2,
       In (i2, ETimer p n2 d2) (aremove i L ++ news) -> In (i1, ETimer p n1 d1) (before i2 (aremove i L ++ news)) -> tle d1 d2 ->
       In e1 lv -> In e2 lv -> q_data e1 = QTimer p n1 -> q_data e2 = QTimer p n2 -> key_lt ops e1 e2).
  Proof.
    intros [_ B O] Hn.
    assert (Htm : forall i0 p n d, In (i0, ETimer p n d) (aremove i L ++ news) -> In (i0, ETimer p n d) L /\ i0 <> i).
    { intros i0 p n d H. apply in_app_iff in H. destruct H as [H|H]; [apply in_aremove in H; exact H|].
      destruct (Hn _ _ H) as (m & s & dd & o & X). discriminate. }
    split.
    - intros j p n d e Hj He Hd. apply Htm in Hj. eapply B; eauto. apply Hj.
    - intros i1 i2 p n1 n2 d1 d2 e1 e2 H2 H1 Hle H1' H2' D1 D2.
      apply Htm in H2. destruct H2 as [H2 Hne].
      assert (Hin2 : In i2 (ids (aremove i L))) by (apply ids_aremove; split; [apply in_ids; eauto|exact Hne]).
      rewrite before_app_in in H1 by exact Hin2.
      rewrite before_aremove in H1 by (intros E; apply Hne; symmetry; exact E).
      apply in_aremove in H1. eapply O; eauto. apply H1.
  Qed.

  Lemma EvR3_split lv clk L debt i j m src dst dd k cc :
    EvR3 lv clk L debt -> NoDup (ids L) -> In (i, EMsg m src dst (Possible dd k cc)) L -> k <> 0 ->
    EvR3 lv clk ((aremove i L ++ [(i, EMsg m src dst (Possible dd (N.pred k) cc))]) ++ [(j, EMsg m src dst (Possible dd 0 cc))]) debt.
  Proof.
    intros R Hn Hi Hk. rewrite <- app_assoc.
    destruct (timers_moved lv clk L debt i
                ([(i, EMsg m src dst (Possible dd (N.pred k) cc))] ++ [(j, EMsg m src dst (Possible dd 0 cc))]) R) as [B' O'].
    { intros j0 x [H|[H|[]]]; inversion H; subst; eauto. }
    destruct R as [(extra & Hex & P) _ _].
    destruct (filter_id_split (@fst id sevent) L _ Hn Hi) as (m1 & m2 & F1 & F2).
    cbn [fst] in F2. assert (F3 : aremove i L = m1 ++ m2) by exact F2.
    constructor; [|exact B'|exact O'].
    exists extra. split; [exact Hex|].
    rewrite F1, expand_app, expand_cons in P. rewrite F3, !expand_app, !expand_one. cbn [c_of_s pot] in *.
    set (c := CMsg m src dst) in *. rewrite N2Nat.inj_pred. change (N.to_nat 0) with 0%nat.
    assert (Hk' : N.to_nat k <> 0%nat) by lia.
    replace (S (N.to_nat k)) with (S (Nat.pred (N.to_nat k)) + 1)%nat in P by lia. rewrite repeat_app in P.
    perm_count.
  Qed.

  (* ---- the checker corrupts a pending unit copy: one unit of the debt is paid ---- *)
  Lemma EvR3_pay lv clk L debt i m src dst dd cc :
    EvR3 lv clk L ((m, src, dst) :: debt) -> NoDup (ids L) -> In (i, EMsg m src dst (Possible dd 0 cc)) L ->
    EvR3 lv clk (aremove i L ++ [(i, EMsg (corrupt_msg m) src dst (Possible dd 0 false))]) debt.
  Proof.
    intros R Hn Hi.
    destruct (timers_moved lv clk L _ i [(i, EMsg (corrupt_msg m) src dst (Possible dd 0 false))] R) as [B' O'].
    { intros j0 x [H|[]]; inversion H; subst; eauto. }
    destruct R as [(extra & Hex & P) _ _].
    destruct (filter_id_split (@fst id sevent) L _ Hn Hi) as (m1 & m2 & F1 & F2).
    cbn [fst] in F2. assert (F3 : aremove i L = m1 ++ m2) by exact F2.
    constructor; [|exact B'|exact O'].
    exists extra. split; [exact Hex|].
    rewrite F1, expand_app, expand_cons in P. rewrite F3, !expand_app, !expand_one. cbn [c_of_s pot] in *.
    change (N.to_nat 0) with 0%nat in *.
    change (map dm ((m, src, dst) :: debt)) with ([CMsg m src dst] ++ map dm debt) in P.
    change (map dc ((m, src, dst) :: debt)) with ([CMsg (corrupt_msg m) src dst] ++ map dc debt) in P.
    change (repeat (CMsg m src dst) 1) with [CMsg m src dst] in P.
    change (repeat (CMsg (corrupt_msg m) src dst) 1) with [CMsg (corrupt_msg m) src dst].
    perm_count.
  Qed.

  (* ---- who is offered ---- *)
  Variable tlebS : T -> T -> bool.
  Hypothesis tlebS_eq : tlebS = tleb ops.

  (* the oldest pending message of a non-empty identical group is offered *)
  Lemma oldest_offered (L : pendl) m src dst :
    NoDup (ids L) -> In (CMsg m src dst) (expand L) ->
    exists i o, In (i, EMsg m src dst o) L /\ In i (offset tlebS L).
  Proof.
    intros Hn Hin. apply in_expand in Hin. destruct Hin as ([i0 x0] & Hi0 & Hc0). unfold HandoffSimBase.c_of_p in Hc0. cbn [snd] in Hc0.
    set (g := fun ie : id * sevent => match snd ie with
                                      | EMsg m' s' d' _ => msg_eqb m' m && N.eqb s' src && N.eqb d' dst
                                      | ETimer _ _ _ => false
                                      end).
    assert (Hex : existsb g L = true).
    { apply existsb_exists. exists (i0, x0). split; [exact Hi0|]. unfold g. cbn [snd].
      destruct x0; cbn in Hc0; [|discriminate]. inversion Hc0; subst.
      rewrite (proj2 (msg_eqb_true m m) eq_refl), !N.eqb_refl. reflexivity. }
    destruct (first_match g L Hex) as (l1 & [i x] & l2 & EL & Gx & Hl1).
    unfold g in Gx. cbn [snd] in Gx. destruct x as [m' s' d' o|]; [|discriminate].
    apply andb_true_iff in Gx. destruct Gx as [Gx G3]. apply andb_true_iff in Gx. destruct Gx as [G1 G2].
    apply msg_eqb_true in G1. apply N.eqb_eq in G2, G3. subst m' s' d'.
    assert (Hin : In (i, EMsg m src dst o) L) by (rewrite EL; apply in_app_iff; right; left; reflexivity).
    exists i, o. split; [exact Hin|]. apply offset_iff; [exact Hn|]. exists (EMsg m src dst o). split; [exact Hin|].
    assert (Hb : before i L = l1).
    { rewrite EL. apply before_split. rewrite EL in Hn. unfold ids in Hn. rewrite map_app in Hn. cbn [map fst] in Hn.
      apply NoDup_remove_2 in Hn. intros H. apply Hn. apply in_app_iff. left. exact H. }
    rewrite Hb. apply existsb_false_iff. intros [j y] Hy. specialize (Hl1 _ Hy). unfold g in Hl1. cbn [snd] in Hl1.
    unfold wb, withheld_by. cbn [snd]. destruct y as [m1 s1 dd1 o1|p1 n1 d1]; cbn [same_group blocks orb].
    - rewrite Hl1. reflexivity.
    - reflexivity.
  Qed.

  Lemma min_timer_offered3 lv clk L debt e p n :
    EvR3 lv clk L debt -> NoDup (ids L) -> In e lv -> q_data e = QTimer p n ->
    (forall x, In x lv -> x <> e -> key_lt ops e x) ->
    exists i d, In (i, ETimer p n d) L /\ In i (offset tlebS L).
  Proof.
    intros [P B O] Hn He Hd Hmin.
    destruct (permd_fwd _ _ _ _ P He) as [(i & x & Hi & Hc)|Hbad].
    2:{ exfalso. apply c_of_q_timer in Hd. rewrite Hd in Hbad. eapply not_cmsg_in; [|exact Hbad].
        apply forall_cmsg_map. apply is_cmsg_dc. }
    apply c_of_q_timer in Hd. rewrite Hd in Hc. apply c_of_s_timer in Hc. destruct Hc as [d ->].
    apply c_of_q_timer in Hd.
    exists i, d. split; [exact Hi|]. apply offset_iff; [exact Hn|]. exists (ETimer p n d). split; [exact Hi|].
    apply existsb_false_iff. intros [i1 x1] H1. unfold wb, withheld_by. cbn [snd].
    destruct x1 as [m1 s1 dd1 o1|p1 n1 d1]; [reflexivity|]. cbn [same_group blocks orb].
    destruct (N.eqb p1 p) eqn:Ep; [|reflexivity]. apply N.eqb_eq in Ep. subst p1. cbn [andb].
    destruct (tlebS d1 d) eqn:El; [|reflexivity]. exfalso. rewrite tlebS_eq in El.
    destruct (permd_timer_back _ _ _ _ _ _ _ P (before_incl _ _ _ H1)) as (e1 & He1 & Hd1).
    pose proof (O _ _ _ _ _ _ _ _ _ Hi H1 El He1 He Hd1 Hd) as K.
    destruct (Hmin e1 He1) as [K'|K'].
    - intros ->. eapply key_lt_irrefl; eauto.
    - eapply key_lt_asym; eauto. left. exact K'.
    - eapply key_lt_asym; eauto. right. exact K'.
  Qed.

  (* with no debt outstanding, a live message of the simulator has a pending identical message *)
  Lemma live_msg_pending lv clk L e m src dst :
    EvR3 lv clk L [] -> In e lv -> c_of_q e = CMsg m src dst -> In (CMsg m src dst) (expand L).
  Proof.
    intros [P _ _] He Hc. destruct (permd_fwd _ _ _ _ P He) as [(i & x & Hi & Hx)|[]].
    apply in_expand. exists (i, x). split; [exact Hi|]. unfold HandoffSimBase.c_of_p. cbn [snd]. congruence.
  Qed.
End EvRel3.
