(* C18 relay theorem: the framework relays exactly the sends, local sends and timer operations a Python handler
   issued, with the same arguments and in issue order within each kind. *)
From ASV Require Import Base.Util Base.Msg Base.Log Model.PyBridge.

Section PyBridgeP.
  Context {T : Type}.
  Variable tneg1 : T.
  Variable tlt0 : T -> bool.
  Hypothesis neg1_negative : tlt0 tneg1 = true.

  Notation py_run := (py_run tneg1 tlt0).
  Notation relay := (relay tlt0).

  Lemma relay_step : forall c k c',
      py_call tneg1 tlt0 c k = Some c' ->
      map (fun p => ASend (fst p) (snd p)) (py_sent c') = map (fun p => ASend (T := T) (fst p) (snd p)) (py_sent c) ++ sends_of [k] /\
      map (fun m => ALocal m) (py_local c') = map (fun m => ALocal (T := T) m) (py_local c) ++ locals_of [k] /\
      map (decode_timer tlt0) (py_timers c') = map (decode_timer tlt0) (py_timers c) ++ timers_of [k].
  Proof.
    intros c k c' H. destruct k as [m d | m | n d | n d | n]; cbn [py_call] in H.
    - injection H as <-. cbn. rewrite map_app, !app_nil_r. auto.
    - injection H as <-. cbn. rewrite map_app, !app_nil_r. auto.
    - destruct (tlt0 d) eqn:E; [discriminate|]. injection H as <-. cbn. rewrite map_app, !app_nil_r. cbn. rewrite E. auto.
    - destruct (tlt0 d) eqn:E; [discriminate|]. injection H as <-. cbn. rewrite map_app, !app_nil_r. cbn. rewrite E. auto.
    - injection H as <-. cbn. rewrite map_app, !app_nil_r. cbn. rewrite neg1_negative. auto.
  Qed.

  Lemma flat_map_app_single {A B} (f : A -> list B) l x : flat_map f (l ++ [x]) = flat_map f l ++ f x.
  Proof. rewrite flat_map_app. cbn. rewrite app_nil_r. reflexivity. Qed.

  Lemma py_run_gen : forall ks c c' pre,
      py_run c ks = Some c' ->
      map (fun p => ASend (fst p) (snd p)) (py_sent c) = sends_of pre ->
      map (fun m => ALocal m) (py_local c) = locals_of pre ->
      map (decode_timer tlt0) (py_timers c) = timers_of (T := T) pre ->
      map (fun p => ASend (fst p) (snd p)) (py_sent c') = sends_of (pre ++ ks) /\
      map (fun m => ALocal m) (py_local c') = locals_of (pre ++ ks) /\
      map (decode_timer tlt0) (py_timers c') = timers_of (T := T) (pre ++ ks).
  Proof.
    induction ks as [|k r IH]; intros c c' pre H H1 H2 H3.
    - cbn in H. injection H as <-. rewrite app_nil_r. auto.
    - cbn [PyBridge.py_run] in H. destruct (py_call tneg1 tlt0 c k) as [c1|] eqn:E; [|discriminate].
      destruct (relay_step c k c1 E) as (A & B & C).
      replace (pre ++ k :: r) with ((pre ++ [k]) ++ r) by (rewrite <- app_assoc; reflexivity).
      apply (IH c1 c' (pre ++ [k]) H).
      + rewrite A, H1. unfold sends_of. rewrite flat_map_app. reflexivity.
      + rewrite B, H2. unfold locals_of. rewrite flat_map_app. reflexivity.
      + rewrite C, H3. unfold timers_of. rewrite flat_map_app. reflexivity.
  Qed.

  (* the relay theorem *)
  Theorem relay_spec : forall ks c,
      py_run (pyctx0 (T := T)) ks = Some c -> relay c = sends_of ks ++ locals_of ks ++ timers_of ks.
  Proof.
    intros ks c H. destruct (py_run_gen ks pyctx0 c [] H eq_refl eq_refl eq_refl) as (A & B & C).
    unfold PyBridge.relay. rewrite A, B, C. reflexivity.
  Qed.

  (* a handler that issues a negative delay is stopped by the Python Context (ValueError), nothing is relayed *)
  Theorem negative_delay_raises : forall c n d, tlt0 d = true ->
      py_call tneg1 tlt0 c (PySetTimer n d) = None /\ py_call tneg1 tlt0 c (PySetTimerOnce n d) = None.
  Proof. intros c n d H. cbn. rewrite H. auto. Qed.

  (* the (name, delay, once) encoding decodes to the operation that was issued *)
  Theorem decode_encode : forall n d,
      tlt0 d = false ->
      decode_timer tlt0 (n, d, false) = ATimerSet n d false /\ decode_timer tlt0 (n, d, true) = ATimerSet n d true /\
      decode_timer tlt0 (n, tneg1, false) = ATimerCancel (T := T) n.
  Proof. intros n d H. cbn. rewrite H, neg1_negative. auto. Qed.
End PyBridgeP.

Print Assumptions relay_spec.
Print Assumptions negative_delay_raises.
Print Assumptions decode_encode.
