(* The real-time fact behind the timer-order reduction (C13, C04): if timer A is set no later than timer B of the
   same process and A's delay is less than or equal to B's, then A's firing time is less than or equal to B's;
   with ties resolved in creation order A fires first.  Over any ordered time algebra with monotone addition
   (instances: rationals, reals; IEEE binary64 addition with round-to-nearest is monotone on finite values). *)
From Coq Require Import List NArith Lia.

Section TimerOrder.
  Variable T : Type.
  Variable tle : T -> T -> Prop.
  Variable tadd : T -> T -> T.
  Hypothesis tle_trans : forall a b c, tle a b -> tle b c -> tle a c.
  Hypothesis tadd_mono_l : forall a b c, tle a b -> tle (tadd a c) (tadd b c).
  Hypothesis tadd_mono_r : forall a b c, tle b c -> tle (tadd a b) (tadd a c).

  (* a timer instance: creation stamp (= event id order), set time, delay *)
  Record timer := { stamp : N; set_at : T; delay : T }.
  Definition fires_at (x : timer) : T := tadd (set_at x) (delay x).
  (* the simulator's queue order: (time, creation stamp) lexicographic *)
  Definition before (x y : timer) : Prop :=
    tle (fires_at x) (fires_at y) /\ (tle (fires_at y) (fires_at x) -> (stamp x < stamp y)%N).

  (* the checker's blocking rule: x was created earlier and has delay <= *)
  Definition blocks (x y : timer) : Prop := (stamp x < stamp y)%N /\ tle (delay x) (delay y).

  Lemma blocker_fires_first : forall x y, tle (set_at x) (set_at y) -> blocks x y -> before x y.
  Proof.
    intros x y Hs [Hst Hd]. split.
    - unfold fires_at. eapply tle_trans; [apply tadd_mono_l; exact Hs | apply tadd_mono_r; exact Hd].
    - intros _. exact Hst.
  Qed.

  (* hence in an execution that handles timers in queue order, when y fires no blocker of y is still pending:
     any still-pending x that blocks y would have to fire before y *)
  Lemma fired_timer_unblocked : forall (pending : list timer) y,
      In y pending ->
      (forall x, In x pending -> (stamp x < stamp y)%N -> tle (set_at x) (set_at y)) ->   (* set in creation order *)
      (forall x, In x pending -> x <> y -> before y x) ->                                (* y is the queue minimum *)
      (forall x y', before x y' -> before y' x -> x = y') ->                             (* the queue order is strict *)
      forall x, In x pending -> ~ blocks x y.
  Proof.
    intros pending y Hy Hset Hmin Hstrict x Hx Hb.
    assert (Hxy : before x y) by (apply blocker_fires_first; [apply Hset; [exact Hx | exact (proj1 Hb)] | exact Hb]).
    destruct (N.eq_dec (stamp x) (stamp y)) as [E|NE].
    - destruct Hb as [Hlt _]. lia.
    - assert (x <> y) by (intros ->; apply NE; reflexivity).
      specialize (Hmin x Hx H). specialize (Hstrict x y Hxy Hmin). contradiction.
  Qed.
End TimerOrder.

Print Assumptions blocker_fires_first.
Print Assumptions fired_timer_unblocked.
