(* The per-process event log of model checking (src/mc/node.rs ProcessEntry.event_log) tells exactly the network
   deliveries the process was invoked for - on EVERY state the checker can reach or restore.

   This is the invariant behind the monitor C09:event_log_restored (harness/src/mc.rs, line XLOG): the harness's
   table-driven process records every invocation in its own state; on every explored state the deliveries in the
   framework's event log must be the deliveries the process recorded.  Proved here for an arbitrary handler that
   records its deliveries (`handler_records`), an arbitrary store interface, clock, random source:

     node_handle_inv, deliver_inv, apply_event_inv, send_local_inv, crash_node_inv, cb_apply_inv, cb_run_inv,
     take_choice_inv                 every operation of the system layer keeps the invariant SysInv
     get_state_inv / set_state_inv   a saved state of a system with the invariant has it (StateInv); restoring ANY
                                     state that has it gives a system that has it (BFS jumps, start states)
     search_step_inv, steps_of_inv, expand_sys_inv
                                     one expansion: the system afterwards and every successor state handed to the
                                     predicates have it

   The model-checking event log does not record timer firings and local messages (only the actions they cause), so
   the statement is about network deliveries; that is what the code does (McNode::on_timer_fired /
   on_local_message_received push no entry). *)
From Coq Require Import List NArith Bool Lia.
From ASV Require Import Base.Util Base.Msg Base.Log Model.Store Model.McSys Proofs.UtilP.
Import ListNotations.
Open Scope N_scope.

Local Ltac binv H :=
  match type of H with
  | bind ?r _ = Ok _ => let E := fresh "E" in destruct r eqn:E; cbn [bind] in H; [|discriminate H]
  | Ok _ = Ok _ => inversion H; subst; clear H
  | Panic _ = Ok _ => discriminate H
  | (let '(_, _) := ?p in _) = Ok _ => destruct p
  end.

Local Notation sgetN := (sget N.compare).
Local Notation sinsN := (sins N.compare).

Section PairInv.
  Context {V : Type} (P : N -> V -> Prop).
  Definition AllP (l : list (N * V)) : Prop := Forall (fun kv => P (fst kv) (snd kv)) l.

  Lemma AllP_sins k v l : P k v -> AllP l -> AllP (sinsN k v l).
  Proof.
    unfold AllP. intros Hv Hl. rewrite Forall_forall in *. intros q Hq.
    apply in_sins in Hq. destruct Hq as [->|Hq]; auto.
  Qed.

  Lemma AllP_sget k v l : AllP l -> sgetN k l = Some v -> P k v.
  Proof.
    unfold AllP. intros Hl Hg. apply (sget_some_in _ CmpSpec_N) in Hg. rewrite Forall_forall in Hl.
    apply (Hl (k, v)). exact Hg.
  Qed.
End PairInv.

Section LogAgree.
  Context {T : Type}.
  Context {SE : Type} (so : @store_ops T SE).
  Variable tgt0 : T -> bool.
  Variable teq0 : T -> bool.
  Variable t0 : T.
  Variable clock : N -> T -> T.
  Context {PS : Type}.
  Variable handler : N -> PS -> input -> T -> (nat -> T) -> PS * list (action T).
  Variable DS : Type.
  Variable mc_rand : DS -> nat -> T.
  Variable ds_of : @mcstate T SE PS -> DS.

  (* which processes keep a record, and the record: one key (of message and sender) per network delivery, oldest first *)
  Variable tracks : N -> bool.
  Context {K : Type}.
  Variable dkey : msg -> N -> K.
  Variable rec : PS -> list K.
  Hypothesis handler_records : forall proc st i time rnd,
    tracks proc = true ->
    rec (fst (handler proc st i time rnd)) = rec st ++ match i with InMsg m from => [dkey m from] | _ => [] end.

  Local Notation mcsys := (@mcsys T SE PS).
  Local Notation mcstate := (@mcstate T SE PS).
  Local Notation mcnode := (@mcnode T PS).
  Local Notation mcnodestate := (@mcnodestate T PS).
  Local Notation pentry := (pentry T PS).

  Local Notation node_handleM := (node_handle t0 clock handler DS mc_rand).
  Local Notation add_eventsM := (add_events so tgt0 teq0 (PS := PS)).
  Local Notation deliverM := (deliver so tgt0 teq0 t0 clock handler DS mc_rand ds_of).
  Local Notation apply_eventM := (apply_event so tgt0 teq0 t0 clock handler DS mc_rand ds_of).
  Local Notation send_localM := (send_local so tgt0 teq0 t0 clock handler DS mc_rand ds_of).
  Local Notation crash_nodeM := (crash_node so (PS := PS)).
  Local Notation cb_applyM := (cb_apply so tgt0 teq0 t0 clock handler DS mc_rand ds_of).
  Local Notation cb_runM := (cb_run so tgt0 teq0 t0 clock handler DS mc_rand ds_of).
  Local Notation take_choiceM := (take_choice so tgt0 teq0 t0 clock handler DS mc_rand ds_of).
  Local Notation search_stepM := (search_step so tgt0 teq0 t0 clock handler DS mc_rand ds_of).
  Local Notation steps_ofM := (steps_of so tgt0 teq0 t0 clock handler DS mc_rand ds_of).
  Local Notation expand_sysM := (expand_sys so tgt0 teq0 t0 clock handler DS mc_rand ds_of).

  (* the deliveries an event log tells *)
  Definition log_deliveries (ev : list (T * pevent T)) : list K :=
    flat_map (fun e => match snd e with PMessageReceived m src _ => [dkey m src] | _ => [] end) ev.

  Definition LogAgree (proc : N) (p : pentry) : Prop :=
    tracks proc = true -> log_deliveries (pe_evlog p) = rec (pe_state p).

  Definition NodeInv (nd : mcnode) : Prop := AllP LogAgree (nd_procs nd).
  Definition SysInv (s : mcsys) : Prop := AllP (fun _ nd => NodeInv nd) (s_nodes s).
  Definition NodeStateInv (ns : mcnodestate) : Prop := AllP LogAgree (ns_procs ns).
  Definition StateInv (st : mcstate) : Prop := AllP (fun _ ns => NodeStateInv ns) (st_nodes st).

  Lemma log_deliveries_app a b : log_deliveries (a ++ b) = log_deliveries a ++ log_deliveries b.
  Proof. unfold log_deliveries. apply flat_map_app. Qed.

  (* actions add no delivery to the log and leave the process state alone *)
  Lemma node_action_keeps proc time (p : pentry) a p' evs logs :
    node_action proc time p a = (p', evs, logs) ->
    log_deliveries (pe_evlog p') = log_deliveries (pe_evlog p) /\ pe_state p' = pe_state p.
  Proof.
    unfold node_action. intros H.
    assert (Hl : log_deliveries (pe_evlog p ++ [(time, action_event proc a)]) = log_deliveries (pe_evlog p)).
    { rewrite log_deliveries_app. destruct a; cbn; apply app_nil_r. }
    destruct a as [m dst|m|name delay once|name].
    - inversion H; subst. cbn [pe_evlog pe_state pe_with]. auto.
    - inversion H; subst. cbn [pe_evlog pe_state pe_with]. auto.
    - destruct (negb once || negb (shas N.compare name (pe_ptimers p))); inversion H; subst;
        cbn [pe_evlog pe_state pe_with]; auto.
    - destruct (shas N.compare name (pe_ptimers p)); inversion H; subst; cbn [pe_evlog pe_state pe_with]; auto.
  Qed.

  Lemma node_actions_keeps proc time acts : forall (p p' : pentry) evs logs,
    node_actions proc time p acts = (p', evs, logs) ->
    log_deliveries (pe_evlog p') = log_deliveries (pe_evlog p) /\ pe_state p' = pe_state p.
  Proof.
    induction acts as [|a r IH]; intros p p' evs logs H; cbn [node_actions] in H.
    - inversion H; subst. auto.
    - destruct (node_action proc time p a) as [[p1 e1] l1] eqn:E1.
      destruct (node_actions proc time p1 r) as [[p2 e2] l2] eqn:E2.
      inversion H; subst. apply node_action_keeps in E1. apply IH in E2.
      destruct E1 as [A1 B1]. destruct E2 as [A2 B2]. split; congruence.
  Qed.

  Theorem node_handle_inv nd proc k depth ds nd' evs logs :
    node_handleM nd proc k depth ds = Ok (nd', evs, logs) -> NodeInv nd -> NodeInv nd'.
  Proof.
    intros H Hi. unfold node_handle in H.
    destruct (nd_crashed nd); [discriminate|].
    destruct (sgetN proc (nd_procs nd)) as [p|] eqn:Eg; [|discriminate].
    cbv zeta in H.
    match type of H with context [handler ?a ?b ?c ?d ?e] => pose proof (handler_records a b c d e) as Hh;
      destruct (handler a b c d e) as [st' acts] eqn:Eh end.
    match type of H with context [node_actions ?a ?b ?c ?d] => destruct (node_actions a b c d) as [[p3 evs0] logs0] eqn:Ea end.
    inversion H; subst. unfold NodeInv, nd_with_procs. cbn [nd_procs].
    apply AllP_sins; [|exact Hi].
    pose proof (AllP_sget _ _ _ _ Hi Eg) as Hp.
    apply node_actions_keeps in Ea. destruct Ea as [Al As]. cbn [pe_evlog pe_state pe_with] in Al, As.
    unfold LogAgree in *. intros Ht. specialize (Hp Ht). specialize (Hh Ht). cbn [fst] in Hh.
    rewrite Al, As, Hh.
    destruct k as [m from|name|m]; cbn [pe_evlog pe_state pe_with] in *.
    - rewrite log_deliveries_app. cbn. rewrite Hp. reflexivity.
    - rewrite app_nil_r. exact Hp.
    - rewrite app_nil_r. exact Hp.
  Qed.

  Lemma add_events_nodes evs : forall s s', add_eventsM s evs = Ok s' -> s_nodes s' = s_nodes s.
  Proof.
    induction evs as [|e r IH]; intros s s' H; cbn [add_events] in H.
    - binv H. auto.
    - binv H. apply IH in H. rewrite H. clear H IH.
      destruct e as [m src dst|p n d|p n].
      + binv E. destruct a0 as [ev|m' src' dst'].
        * binv E. binv E. binv E. auto.
        * binv E. auto.
      + binv E. binv E. binv E. auto.
      + binv E. binv E. auto.
  Qed.

  Theorem deliver_inv s proc k s' : deliverM s proc k = Ok s' -> SysInv s -> SysInv s'.
  Proof.
    intros H Hi. unfold deliver in H.
    destruct (sgetN proc (n_loc (s_net s))) as [nname|]; [|discriminate].
    destruct (sgetN nname (s_nodes s)) as [nd|] eqn:Eg; [|discriminate].
    binv H. destruct a as [[nd' evs] logs]. apply add_events_nodes in H.
    cbn [s_nodes sys_with] in H. unfold SysInv. rewrite H.
    apply AllP_sins; [|exact Hi].
    eapply node_handle_inv; eauto. exact (AllP_sget _ _ _ _ Hi Eg).
  Qed.

  Theorem apply_event_inv s a s' : apply_eventM s a = Ok s' -> SysInv s -> SysInv s'.
  Proof.
    intros H Hi. unfold apply_event in H.
    destruct a as [[m src dst o|p n d]|m src dst|m src dst|m cm src dst].
    - exact (deliver_inv _ _ _ _ H Hi).
    - exact (deliver_inv _ _ _ _ H Hi).
    - binv H. exact Hi.
    - binv H. exact Hi.
    - binv H. exact Hi.
  Qed.

  Theorem send_local_inv s node proc m s' : send_localM s node proc m = Ok s' -> SysInv s -> SysInv s'.
  Proof.
    intros H Hi. unfold send_local in H. cbn [s_nodes s_net s_events s_depth s_trace sys_with] in H.
    destruct (sgetN node (s_nodes s)) as [nd|] eqn:Eg; [|discriminate].
    binv H. destruct a as [[nd' evs] logs]. apply add_events_nodes in H.
    cbn [s_nodes sys_with] in H. unfold SysInv. rewrite H.
    apply AllP_sins; [|exact Hi].
    eapply node_handle_inv; eauto. exact (AllP_sget _ _ _ _ Hi Eg).
  Qed.

  Theorem crash_node_inv s node s' : crash_nodeM s node = Ok s' -> SysInv s -> SysInv s'.
  Proof.
    intros H Hi. unfold crash_node in H.
    destruct (sgetN node (s_nodes s)) as [nd|] eqn:Eg; [|discriminate].
    binv H. destruct a as [st tr']. binv H. unfold SysInv. cbn [s_nodes sys_with].
    apply AllP_sins; [|exact Hi].
    exact (AllP_sget _ _ _ _ Hi Eg).
  Qed.

  Theorem cb_apply_inv s o s' : cb_applyM s o = Ok s' -> SysInv s -> SysInv s'.
  Proof.
    intros H Hi. destruct o as [node proc m|node|mf|o']; cbn [cb_apply] in H.
    - exact (send_local_inv _ _ _ _ _ H Hi).
    - exact (crash_node_inv _ _ _ H Hi).
    - binv H. exact Hi.
    - binv H. exact Hi.
  Qed.

  Theorem cb_run_inv ops : forall s s', cb_runM s ops = Ok s' -> SysInv s -> SysInv s'.
  Proof.
    induction ops as [|o r IH]; intros s s' H Hi; cbn [cb_run] in H.
    - binv H. exact Hi.
    - binv H. eapply IH; eauto. eapply cb_apply_inv; eauto.
  Qed.

  Theorem take_choice_inv s c s' : take_choiceM s c = Ok s' -> SysInv s -> SysInv s'.
  Proof.
    intros H Hi. destruct c as [i|i|i|i]; cbn [take_choice] in H.
    - binv H. destruct a as [st e]. eapply apply_event_inv; eauto.
    - binv H. destruct a as [st e]. destruct e as [m src dst o|p n d]; [|discriminate].
      eapply apply_event_inv; eauto.
    - binv H. destruct a as [st e]. destruct e as [m src dst o|p n d]; [|discriminate].
      binv H. eapply apply_event_inv; eauto.
    - binv H. destruct a as [st e]. destruct e as [m src dst o|p n d]; [|discriminate].
      repeat (match type of H with
              | bind ?r _ = Ok _ => let E := fresh "E" in destruct r eqn:E; cbn [bind] in H; [|discriminate H]
              | (let '(_, _) := ?p in _) = Ok _ => destruct p
              | (match ?o with _ => _ end) = Ok _ => destruct o
              end);
      try discriminate; try (eapply apply_event_inv; eauto).
  Qed.

  (* ---------------- saving and restoring ---------------- *)
  Theorem get_state_inv s : SysInv s -> StateInv (get_state s).
  Proof.
    unfold SysInv, StateInv, AllP, get_state. cbn [st_nodes]. intros H.
    rewrite Forall_map. eapply Forall_impl; [|exact H]. intros [k nd] Hn. exact Hn.
  Qed.

  Lemma procs_set_state_inv sts : forall ps r,
    procs_set_state ps sts = Ok r -> AllP LogAgree ps -> AllP LogAgree sts -> AllP LogAgree r.
  Proof.
    induction sts as [|[name st] rest IH]; intros ps r H Hp Hs; cbn [procs_set_state] in H.
    - binv H. exact Hp.
    - destruct (sgetN name ps) as [old|]; [|discriminate].
      inversion Hs as [|x l Hx Hl]; subst. cbn [fst snd] in Hx.
      eapply IH; [exact H| |exact Hl].
      apply AllP_sins; [|exact Hp].
      unfold LogAgree, proc_set_state in *. cbn [pe_evlog pe_state pe_with]. exact Hx.
  Qed.

  Lemma nodes_set_state_inv sts : forall nodes r,
    nodes_set_state nodes sts = Ok r ->
    AllP (fun _ nd => NodeInv nd) nodes -> AllP (fun _ ns => NodeStateInv ns) sts -> AllP (fun _ nd => NodeInv nd) r.
  Proof.
    induction sts as [|[name ns] rest IH]; intros nodes r H Hn Hs; cbn [nodes_set_state] in H.
    - binv H. exact Hn.
    - destruct (sgetN name nodes) as [nd|] eqn:Eg; [|discriminate].
      binv H. inversion Hs as [|x l Hx Hl]; subst. cbn [fst snd] in Hx.
      eapply IH; [exact H| |exact Hl].
      apply AllP_sins; [|exact Hn].
      unfold node_set_state in E. binv E. binv E. unfold NodeInv. cbn [nd_procs].
      eapply procs_set_state_inv; eauto. exact (AllP_sget _ _ _ _ Hn Eg).
  Qed.

  (* restoring ANY state that has the invariant - an ancestor, a sibling, a state of another branch, a start state *)
  Theorem set_state_inv s st s' : set_state s st = Ok s' -> SysInv s -> StateInv st -> SysInv s'.
  Proof.
    intros H Hi Hs. unfold set_state in H. binv H. binv H. unfold SysInv. cbn [s_nodes sys_with].
    eapply nodes_set_state_inv; eauto.
  Qed.

  (* ---------------- one expansion of the search ---------------- *)
  Theorem search_step_inv s c s2 st : search_stepM s c = Ok (s2, st) -> SysInv s -> SysInv s2 /\ StateInv st.
  Proof.
    intros H Hi. unfold search_step in H. binv H. binv H. binv H.
    pose proof (take_choice_inv _ _ _ E Hi) as H1. split.
    - eapply set_state_inv; eauto. apply get_state_inv. exact Hi.
    - apply get_state_inv. exact H1.
  Qed.

  Theorem steps_of_inv cs : forall s s2 sts,
    steps_ofM s cs = Ok (s2, sts) -> SysInv s -> SysInv s2 /\ Forall StateInv sts.
  Proof.
    induction cs as [|c r IH]; intros s s2 sts H Hi; cbn [steps_of] in H.
    - binv H. auto.
    - binv H. destruct a as [s1 st]. binv H. destruct a as [s3 sts']. binv H.
      apply search_step_inv in E; auto. destruct E as [A B].
      apply IH in E0; auto. destruct E0 as [C D]. auto.
  Qed.

  Theorem expand_sys_inv s s2 sts : expand_sysM s = Ok (s2, sts) -> SysInv s -> SysInv s2 /\ Forall StateInv sts.
  Proof.
    intros H Hi. unfold expand_sys in H. binv H. eapply steps_of_inv; eauto.
  Qed.
End LogAgree.

(* ---------------- the harness's table-driven process records its deliveries ---------------- *)
From ASV Require Import Model.Script.

Section ScriptRecords.
  Context {T : Type}.
  Variable progs : list (N * prog T).

  Definition script_prog (proc : N) : prog T :=
    match sget N.compare proc progs with Some p => p | None => inert end.
  (* a stateless process keeps no history *)
  Definition script_tracks (proc : N) : bool := negb (pg_stateless (script_prog proc)).
  Definition is_delivery_key (k : list N) : bool := match k with 1 :: _ => true | _ => false end.
  (* what harness/src/mc.rs compares with the event log: the keys of the recorded invocations that are deliveries *)
  Definition script_rec (st : pstate T) : list (list N) := filter is_delivery_key (map (@he_key T) (ps_hist st)).
  Definition script_dkey (m : msg) (from : N) : list N := input_key (InMsg m from).

  Theorem script_handler_records : forall proc st i time rnd,
    script_tracks proc = true ->
    script_rec (fst (progs_handler progs proc st i time rnd))
    = script_rec st ++ match i with InMsg m from => [script_dkey m from] | _ => [] end.
  Proof.
    intros proc st i time rnd Ht. unfold progs_handler, script_tracks, script_prog in *.
    destruct (match sget N.compare proc progs with Some p => p | None => inert end) as [cap rows rectime nd sl].
    cbn [pg_stateless] in Ht. destruct sl; [discriminate|].
    unfold script_handler. cbn [pg_stateless pg_cap pg_rows pg_rectime pg_ndraws].
    assert (Hk : filter is_delivery_key [input_key i] = match i with InMsg m from => [script_dkey m from] | _ => [] end).
    { destruct i; reflexivity. }
    destruct (N.ltb (ps_idx st) cap); cbn [fst ps_hist]; unfold script_rec; cbn [ps_hist];
      rewrite map_app, filter_app; cbn [map he_key]; rewrite Hk; reflexivity.
  Qed.
End ScriptRecords.
