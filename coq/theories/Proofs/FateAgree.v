(* C12 (last clause): every fate the simulator's network can draw for a send is one the model checker's
   classification of the same send permits, with the same corrupted payload and within the copy budget. *)
From ASV Require Import Base.Util Base.Msg Base.Log Model.Store Model.McSys Model.Sim Spec.TimeLaws Proofs.McNetP Proofs.SimNetP.
From Coq Require Import Lia PeanoNat.

Section FateAgree.
  Context {T : Type} (ops : time_ops T).
  Hypothesis laws : time_laws ops.
  Variable draws : nat -> T.
  Hypothesis draws_unit : forall i, tleb ops (tz ops) (draws i) = true /\ tltb ops (draws i) (tone ops) = true.

  (* the checker's tests on rates, written with the simulator's comparisons *)
  Definition mc_gt0 (x : T) : bool := tltb ops (tz ops) x.                              (* rate > 0. *)
  Definition mc_eq0 (x : T) : bool := tleb ops x (tz ops) && tleb ops (tz ops) x.       (* rate == 0. *)

  Lemma below_rate_positive : forall r x, tleb ops (tz ops) r = true -> tltb ops r x = true -> mc_gt0 x = true.
  Proof.
    intros r x H0 Hlt. unfold mc_gt0. apply (lt_spec ops laws) in Hlt as [Hle Hnle].
    apply (lt_spec ops laws). split.
    - eapply (le_trans ops laws); eassumption.
    - destruct (tleb ops x (tz ops)) eqn:E; [|reflexivity].
      rewrite (le_trans ops laws _ _ _ E H0) in Hnle. discriminate.
  Qed.

  Lemma below_rate_nonzero : forall r x, tleb ops (tz ops) r = true -> tltb ops r x = true -> mc_eq0 x = false.
  Proof.
    intros r x H0 Hlt. pose proof (below_rate_positive r x H0 Hlt) as Hp. unfold mc_gt0 in Hp.
    apply (lt_spec ops laws) in Hp as [_ Hn]. unfold mc_eq0. rewrite Hn. reflexivity.
  Qed.

  (* same settings on both sides *)
  Variable sn_net : @simnet T.
  Variable mc_net : @mcnet T.
  Hypothesis same_drop : n_drop mc_net = sn_drop sn_net.
  Hypothesis same_dupl : n_dupl mc_net = sn_dupl sn_net.
  Hypothesis same_corrupt : n_corrupt mc_net = sn_corrupt sn_net.
  Hypothesis same_cut : forall a b, McNetP.cut mc_net a b = link_cut sn_net a b.

  Theorem sim_fate_permitted : forall q m src dst sn dn f q',
      sget N.compare src (n_loc mc_net) = Some sn -> sget N.compare dst (n_loc mc_net) = Some dn -> N.eqb sn dn = false ->
      net_fate ops draws sn_net q m sn dn = (f, q') ->
      match f with
      | FDropped =>
        (* the checker drops unconditionally, or offers the loss as an alternative *)
        McSys.net_send mc_gt0 mc_eq0 mc_net m src dst = Ok (SDropped m src dst) \/
        exists k c, McSys.net_send mc_gt0 mc_eq0 mc_net m src dst = Ok (SEvent (EMsg m src dst (Possible true k c)))
      | FCopies m' ds =>
        exists d k c, McSys.net_send mc_gt0 mc_eq0 mc_net m src dst = Ok (SEvent (EMsg m src dst (Possible d k c))) /\
                      (m' = m \/ (m' = corrupt_msg m /\ c = true)) /\           (* corruption only if permitted *)
                      (length ds <= 1 + N.to_nat k)%nat /\                       (* copies within the budget *)
                      (length ds <= 3)%nat /\ k = (if mc_eq0 (n_dupl mc_net) then 0 else McSys.dupl_count)
      end.
  Proof.
    intros q m src dst sn dn f q' Hs Hd Hne Hf.
    pose proof (net_fate_spec ops draws sn_net q m sn dn f q' Hf) as (_ & Hcut & Hdr & Hdropped & Hcopies).
    rewrite (net_send_classify mc_gt0 mc_eq0 mc_net m src dst sn dn Hs Hd). rewrite Hne. rewrite same_cut.
    destruct f as [|m' ds].
    - destruct (Hdropped eq_refl) as [[Hc|Hlt] _].
      + left. rewrite Hc. reflexivity.
      + destruct (link_cut sn_net sn dn); [left; reflexivity|]. right.
        rewrite same_drop. rewrite (below_rate_positive _ _ (proj1 (draws_unit _)) Hlt). eauto.
    - destruct (Hcopies m' ds eq_refl) as (Hnc & _ & _ & Hm & Hlen & Hdup & _).
      rewrite Hnc. do 3 eexists. split; [reflexivity|]. split; [|split; [|split]].
      + destruct Hm as [->|[-> Hlt]]; [left; reflexivity|]. right. split; [reflexivity|].
        rewrite same_corrupt. exact (below_rate_positive _ _ (proj1 (draws_unit _)) Hlt).
      + destruct (Compare_dec.le_gt_dec (length ds) 1) as [Hle|Hgt]; [lia|].
        specialize (Hdup Hgt). rewrite same_dupl.
        rewrite (below_rate_nonzero _ _ (proj1 (draws_unit _)) Hdup). unfold McSys.dupl_count. cbn. lia.
      + lia.
      + reflexivity.
  Qed.
End FateAgree.

Print Assumptions sim_fate_permitted.
