(* End-to-end statements about the model of the model checker, obtained by composing
     Proofs/SysLift.v  (the concrete model, over the code's pending-event store, simulates the reference semantics),
     Proofs/RefWf.v    (well-formed reference configurations never fail and stay well-formed; crash silence),
     Proofs/Restore.v  (every exploration step restores the system exactly).

   Part 1 (Section Trace, generic over the store interface `so`):
     M4  add_events_trace, deliver_trace, apply_event_trace, take_choice_trace, search_step_trace:
         the trace of the system after a choice is the trace before it, followed by applied_log of the event the
         choice applies (applied_of), followed by the log entries of the handler invocation; the depth grows by 1.
         take_choice_trace_log / choice_log: that first entry spelled out (McMessageReceived / McTimerFired of the
         popped event for a delivery; McMessageDropped / Corrupted / Duplicated of the popped message otherwise).
         pop_get / take_choice_trace_concrete: for the concrete store the popped event is the entry of `evs`;
         csteps_trace: along a path of the concrete model the trace only grows, the depth never decreases.
     all_choices_in : membership in all_choices = available id + alternative of that id.

   Part 2 (Section McCompose; so1 := concrete_ops tleb store_eqb, so2 := abstract_ops tleb sevent_eqb,
           Rel := SysR (R tleb), WF := AWf known; assumptions: H_ds and handler_closed only):
     M1  step_bisim       one-step bisimulation + absence of panics
     M2  expand_bisim     expand_sys on both sides: exact restore, related successor lists, every successor is the
                          saved state of a well-formed configuration one enabled step away
     M3  CSteps, csteps_ref, steps_conc, csteps_no_panic
     M5  csteps_silent, crash_bisim (and cb_local_bisim, cb_mode_bisim, cb_net_bisim)
     M6  init_related, init_related_awf, init_sound (corollary: from an initial pair everything above applies) *)
From Coq Require Import List NArith Bool Lia.
From ASV Require Import Base.Util Base.Msg Base.Log Model.Store Spec.StoreSpec Model.McSys Spec.RefSys
     Proofs.UtilP Proofs.StoreSpecP Proofs.StoreRefine Proofs.SysLift Proofs.RefWf Proofs.Restore.
Import ListNotations.
Open Scope N_scope.

(* ---------------------------------------------------------------------------------------------------- *)
(* Part 1: facts that hold for every instance of the store interface                                     *)
(* ---------------------------------------------------------------------------------------------------- *)
Section Trace.
  Context {T SE : Type} (so : @store_ops T SE).
  Variable tgt0 : T -> bool.
  Variable teq0 : T -> bool.
  Variable t0 : T.
  Variable clock : N -> T -> T.
  Context {PS : Type}.
  Variable handler : N -> PS -> input -> T -> (nat -> T) -> PS * list (action T).
  Variable DS : Type.
  Variable mc_rand : DS -> nat -> T.
  Variable ds_of : @mcstate T SE PS -> DS.

  Notation sys := (@mcsys T SE PS).
  Notation add_events' := (add_events so tgt0 teq0 (PS := PS)).
  Notation deliver' := (deliver so tgt0 teq0 t0 clock handler DS mc_rand ds_of).
  Notation apply_event' := (apply_event so tgt0 teq0 t0 clock handler DS mc_rand ds_of).
  Notation take_choice' := (take_choice so tgt0 teq0 t0 clock handler DS mc_rand ds_of).
  Notation search_step' := (search_step so tgt0 teq0 t0 clock handler DS mc_rand ds_of).

  Ltac sysproj_in H := cbn [s_nodes s_net s_events s_depth s_mf s_trace sys_with with_events] in H.

  Lemma add_events_trace evs : forall (s s' : sys),
    add_events' s evs = Ok s' -> exists more, s_trace s' = s_trace s ++ more /\ s_depth s' = s_depth s.
  Proof.
    induction evs as [|e r IH]; intros s s' H; cbn [add_events] in H.
    - apply ok_inj in H. subst s'. exists []. rewrite app_nil_r. split; reflexivity.
    - bind_inv H s1 E.
      assert (H1 : exists more, s_trace s1 = s_trace s ++ more /\ s_depth s1 = s_depth s).
      { destruct e as [ms src dst|p n d|p n].
        - bind_inv E x En. destruct x as [ev|m' src' dst'].
          + bind_inv E y Ep. destruct y as [st j]. apply ok_inj in E. subst s1.
            exists []. rewrite app_nil_r. split; reflexivity.
          + apply ok_inj in E. subst s1. eexists. split; reflexivity.
        - bind_inv E y Ep. destruct y as [st j]. apply ok_inj in E. subst s1.
          exists []. rewrite app_nil_r. split; reflexivity.
        - bind_inv E st Ep. apply ok_inj in E. subst s1.
          exists []. rewrite app_nil_r. split; reflexivity. }
      destruct H1 as (m1 & Ht1 & Hd1). destruct (IH _ _ H) as (m2 & Ht2 & Hd2).
      exists (m1 ++ m2). rewrite Ht2, Ht1, Hd2, Hd1, app_assoc. split; reflexivity.
  Qed.

  Lemma deliver_trace (s s' : sys) proc k :
    deliver' s proc k = Ok s' -> exists more, s_trace s' = s_trace s ++ more /\ s_depth s' = s_depth s.
  Proof.
    intros H. unfold deliver in H.
    destruct (sget N.compare proc (n_loc (s_net s))) as [nname|]; [|discriminate H].
    destruct (sget N.compare nname (s_nodes s)) as [nd|]; [|discriminate H].
    bind_inv H x E. destruct x as [[nd' evs] logs].
    destruct (add_events_trace _ _ _ H) as (more & Ht & Hd). sysproj_in Ht. sysproj_in Hd.
    exists (logs ++ more). rewrite Ht, Hd, app_assoc. split; reflexivity.
  Qed.

  (* the event a step applies is logged first, then whatever the handler invocation logs *)
  Lemma apply_event_trace (s s' : sys) a :
    apply_event' s a = Ok s' ->
    exists more, s_trace s' = s_trace s ++ applied_log a :: more /\ s_depth s' = s_depth s + 1.
  Proof.
    intros H. unfold apply_event in H. cbv zeta in H.
    assert (Hd : forall proc k, deliver' (sys_with s (s_nodes s) (s_net s) (s_events s) (s_depth s + 1)
                                                   (s_trace s ++ [applied_log a])) proc k = Ok s' ->
                 exists more, s_trace s' = s_trace s ++ applied_log a :: more /\ s_depth s' = s_depth s + 1).
    { intros proc k Hk. destruct (deliver_trace _ _ _ _ Hk) as (more & Ht & Hdp). sysproj_in Ht. sysproj_in Hdp.
      exists more. rewrite Ht, Hdp, <- app_assoc. split; reflexivity. }
    destruct a as [[m src dst o|p n d]|m src dst|m src dst|m cm src dst].
    - eapply Hd; exact H.
    - eapply Hd; exact H.
    - apply ok_inj in H. subst s'. exists []. split; reflexivity.
    - apply ok_inj in H. subst s'. exists []. split; reflexivity.
    - apply ok_inj in H. subst s'. exists []. split; reflexivity.
  Qed.

  (* what McSystem::apply_event is called with when choice c is taken and e is the event popped for it *)
  Definition applied_of (c : choice) (e : sevent T) : option (applied (T := T)) :=
    match c, e with
    | ChDeliver _, _ => Some (ApEvent e)
    | ChDrop _, EMsg m src dst _ => Some (ApDropped m src dst)
    | ChCorrupt _, EMsg m src dst _ => Some (ApCorrupted m (corrupt_msg m) src dst)
    | ChDup _, EMsg m src dst _ => Some (ApDuplicated m src dst)
    | _, _ => None
    end.

  (* the log entry itself, spelled out: a delivery logs McMessageReceived / McTimerFired of the popped event,
     drop / corrupt / duplicate log the corresponding entry for the popped message *)
  Definition choice_log (c : choice) (e : sevent T) : option (logentry T) :=
    match c, e with
    | ChDeliver _, EMsg m src dst _ => Some (LMcMessageReceived m src dst)
    | ChDeliver _, ETimer p n _ => Some (LMcTimerFired p n)
    | ChDrop _, EMsg m src dst _ => Some (LMcMessageDropped m src dst)
    | ChCorrupt _, EMsg m src dst _ => Some (LMcMessageCorrupted m (corrupt_msg m) src dst)
    | ChDup _, EMsg m src dst _ => Some (LMcMessageDuplicated m src dst)
    | _, _ => None
    end.

  Lemma applied_of_log c e a : applied_of c e = Some a -> choice_log c e = Some (applied_log a).
  Proof.
    destruct c as [i|i|i|i], e as [m src dst o|p n d]; cbn [applied_of choice_log]; intros H;
      try discriminate H; inversion H; reflexivity.
  Qed.

  (* M4 *)
  Theorem take_choice_trace (s s' : sys) c :
    take_choice' s c = Ok s' ->
    exists st e a more,
      so_pop so (s_events s) (choice_id c) = Ok (st, e) /\ applied_of c e = Some a /\
      s_trace s' = s_trace s ++ applied_log a :: more /\ s_depth s' = s_depth s + 1.
  Proof.
    intros H.
    destruct c as [i|i|i|i]; cbn [take_choice choice_id] in *; bind_inv H x E; destruct x as [st e].
    - destruct (apply_event_trace _ _ _ H) as (more & Ht & Hd). sysproj_in Ht. sysproj_in Hd.
      exists st, e, (ApEvent e), more. split; [reflexivity|]. split; [reflexivity|]. split; assumption.
    - destruct e as [m src dst o|p n d]; [|discriminate H].
      destruct (apply_event_trace _ _ _ H) as (more & Ht & Hd). sysproj_in Ht. sysproj_in Hd.
      exists st, (EMsg m src dst o), (ApDropped m src dst), more.
      split; [reflexivity|]. split; [reflexivity|]. split; assumption.
    - destruct e as [m src dst o|p n d]; [|discriminate H].
      cbv zeta in H. bind_inv H st' E2.
      destruct (apply_event_trace _ _ _ H) as (more & Ht & Hd). sysproj_in Ht. sysproj_in Hd.
      exists st, (EMsg m src dst o), (ApCorrupted m (corrupt_msg m) src dst), more.
      split; [reflexivity|]. split; [reflexivity|]. split; assumption.
    - destruct e as [m src dst [md|d k cc]|p n d]; try discriminate H.
      destruct (N.eqb k 0); [discriminate H|].
      bind_inv H sta E2. bind_inv H y E3. destruct y as [stb j].
      destruct (apply_event_trace _ _ _ H) as (more & Ht & Hd). sysproj_in Ht. sysproj_in Hd.
      exists st, (EMsg m src dst (Possible d k cc)), (ApDuplicated m src dst), more.
      split; [reflexivity|]. split; [reflexivity|]. split; assumption.
  Qed.

  (* the same for the state that search_step reports: "the trace a state carries extends its parent's trace by
     the log entries of exactly that step" *)
  Corollary search_step_trace (s s'' : sys) c st :
    search_step' s c = Ok (s'', st) ->
    exists sto e a more,
      so_pop so (s_events s) (choice_id c) = Ok (sto, e) /\ applied_of c e = Some a /\
      st_trace st = s_trace s ++ applied_log a :: more /\ st_depth st = s_depth s + 1.
  Proof.
    intros H. destruct (search_step_state so tgt0 teq0 t0 clock handler DS mc_rand ds_of _ _ _ _ H) as (s1 & Ht & ->).
    cbn [get_state st_trace st_depth]. apply take_choice_trace. exact Ht.
  Qed.

  Corollary take_choice_trace_log (s s' : sys) c :
    take_choice' s c = Ok s' ->
    exists st e l more,
      so_pop so (s_events s) (choice_id c) = Ok (st, e) /\ choice_log c e = Some l /\
      s_trace s' = s_trace s ++ l :: more /\ s_depth s' = s_depth s + 1.
  Proof.
    intros H. destruct (take_choice_trace s s' c H) as (st & e & a & more & Hp & Ha & Ht & Hd).
    exists st, e, (applied_log a), more. split; [exact Hp|]. split; [apply applied_of_log; exact Ha|].
    split; [exact Ht|exact Hd].
  Qed.

  (* membership in all_choices *)
  Lemma all_choices_in (s : sys) cs c :
    all_choices so s = Ok cs ->
    (In c cs <-> exists ids i ci, available so s = Ok ids /\ In i ids /\ alternatives so s i = Ok ci /\ In c ci).
  Proof.
    unfold all_choices. intros H. bind_inv H idl E.
    assert (Hgo : forall l cs0,
      (fix go (l : list id) : result (list choice) :=
         match l with
         | [] => Ok []
         | i :: r => do a <- alternatives so s i; do b <- go r; Ok (a ++ b)
         end) l = Ok cs0 ->
      (In c cs0 <-> exists i ci, In i l /\ alternatives so s i = Ok ci /\ In c ci)).
    { induction l as [|i r IH]; intros cs0 H0.
      - apply ok_inj in H0. subst cs0. split; [intros []|]. intros (i & ci & [] & _).
      - bind_inv H0 a Ea. bind_inv H0 b Eb. apply ok_inj in H0. subst cs0.
        rewrite in_app_iff, (IH b eq_refl). split.
        + intros [Hc|(j & cj & Hj & Haj & Hcj)].
          * exists i, a. split; [left; reflexivity|]. split; assumption.
          * exists j, cj. split; [right; assumption|]. split; assumption.
        + intros (j & cj & [Hj|Hj] & Haj & Hcj).
          * subst j. rewrite Ea in Haj. apply ok_inj in Haj. subst cj. left. assumption.
          * right. exists j, cj. split; [assumption|]. split; assumption. }
    rewrite (Hgo idl cs H). split.
    - intros (i & ci & Hi & Ha & Hc). exists idl, i, ci. split; [reflexivity|]. split; [assumption|]. split; assumption.
    - intros (ids & i & ci & Hav & Hi & Ha & Hc). apply ok_inj in Hav. subst ids.
      exists i, ci. split; [assumption|]. split; assumption.
  Qed.
End Trace.

(* the concrete store: the popped event is the entry of the event map *)
Lemma pop_get {T} (s : store T) i st e : pop s i = Ok (st, e) -> sget N.compare i (evs s) = Some e.
Proof.
  unfold pop. destruct (sget N.compare i (evs s)) as [e0|]; [|discriminate].
  destruct e0 as [m src dst o|p n d]; cbv zeta.
  - intros H. bind_inv H x E. destruct x as [s2 nxt]. destruct nxt as [j|]; apply ok_inj in H; inversion H; reflexivity.
  - intros H. bind_inv H x E. destruct x as [s2 unb]. apply ok_inj in H. inversion H; reflexivity.
Qed.

(* ---------------------------------------------------------------------------------------------------- *)
(* Part 2: the concrete model against the reference semantics                                            *)
(* ---------------------------------------------------------------------------------------------------- *)
Section McCompose.
  Context {T : Type} (tleb : T -> T -> bool).
  Variable store_eqb : (T -> T -> bool) -> store T -> store T -> bool.
  Variable sevent_eqb : (T -> T -> bool) -> sevent T -> sevent T -> bool.
  Variable tgt0 : T -> bool.
  Variable teq0 : T -> bool.
  Variable t0 : T.
  Variable clock : N -> T -> T.
  Context {PS : Type}.
  Variable handler : N -> PS -> input -> T -> (nat -> T) -> PS * list (action T).
  Variable DS : Type.
  Variable mc_rand : DS -> nat -> T.
  Variable ds_of1 : @mcstate T (store T) PS -> DS.
  Variable ds_of2 : @mcstate T (astore T) PS -> DS.
  Hypothesis H_ds : forall st1 st2, StR (R tleb) st1 st2 -> ds_of1 st1 = ds_of2 st2.
  Variable known : list N.
  Hypothesis handler_closed : forall proc st inp time rand m dst,
    In (ASend m dst) (snd (handler proc st inp time rand)) -> In dst known.

  Notation soC := (concrete_ops tleb store_eqb).
  Notation soR := (abstract_ops tleb sevent_eqb).
  Notation csys := (@mcsys T (store T) PS).
  Notation rsys := (@mcsys T (astore T) PS).
  Notation Rel := (SysR (PS := PS) (R tleb)).
  Notation RelSt := (StR (PS := PS) (R tleb)).
  Notation WF := (AWf (PS := PS) known).
  Notation En := (Enabled (PS := PS) tleb sevent_eqb).
  Notation takeC := (take_choice soC tgt0 teq0 t0 clock handler DS mc_rand ds_of1).
  Notation takeR := (take_choice soR tgt0 teq0 t0 clock handler DS mc_rand ds_of2).
  Notation expandC := (expand_sys soC tgt0 teq0 t0 clock handler DS mc_rand ds_of1).
  Notation expandR := (expand_sys soR tgt0 teq0 t0 clock handler DS mc_rand ds_of2).
  Notation searchC := (search_step soC tgt0 teq0 t0 clock handler DS mc_rand ds_of1).
  Notation searchR := (search_step soR tgt0 teq0 t0 clock handler DS mc_rand ds_of2).
  Notation cbC := (cb_apply soC tgt0 teq0 t0 clock handler DS mc_rand ds_of1).
  Notation cbR := (cb_apply soR tgt0 teq0 t0 clock handler DS mc_rand ds_of2).
  Notation RSteps := (Steps tgt0 teq0 t0 clock handler DS mc_rand ds_of2 tleb sevent_eqb).

  (* ---------------- M1 ---------------- *)
  (* the working form: additionally every listed choice is Enabled in the sense of RefWf *)
  Lemma step_bisim_en (s : csys) (A : rsys) :
    Rel s A -> WF A ->
    exists cs, all_choices soC s = Ok cs /\ all_choices soR A = Ok cs /\
      (forall c, En A c <-> In c cs) /\
      forall c, In c cs ->
        exists s' A', takeC s c = Ok s' /\ takeR A c = Ok A' /\ Rel s' A' /\ WF A' /\ StepRes known A A'.
  Proof.
    intros HR HW.
    destruct (all_choices_spec tleb sevent_eqb known A HW) as (cs & Hcs & Hen).
    exists cs. split; [|split; [|split]].
    - exact (concrete_simulates_reference_all_choices tleb store_eqb sevent_eqb s A cs HR Hcs).
    - exact Hcs.
    - intros c. split; [|apply Hen]. intros Hc. apply (all_choices_in soR A cs c Hcs). exact Hc.
    - intros c Hc.
      destruct (take_choice_ok tgt0 teq0 t0 clock handler DS mc_rand ds_of2 tleb sevent_eqb known handler_closed
                  A c HW (Hen c Hc)) as (A' & Ht & Hres).
      destruct (concrete_simulates_reference_take_choice tleb store_eqb sevent_eqb tgt0 teq0 t0 clock handler DS
                  mc_rand ds_of1 ds_of2 H_ds s A c A' HR Ht) as (s' & Hs & HR').
      exists s', A'. split; [exact Hs|]. split; [exact Ht|]. split; [exact HR'|]. split; [apply Hres|exact Hres].
  Qed.

  Theorem step_bisim (s : csys) (A : rsys) :
    Rel s A -> WF A ->
    exists cs, all_choices soC s = Ok cs /\ all_choices soR A = Ok cs /\
      forall c, In c cs -> exists s' A', takeC s c = Ok s' /\ takeR A c = Ok A' /\ Rel s' A' /\ WF A'.
  Proof.
    intros HR HW. destruct (step_bisim_en s A HR HW) as (cs & H1 & H2 & _ & H4).
    exists cs. split; [exact H1|]. split; [exact H2|].
    intros c Hc. destruct (H4 c Hc) as (s' & A' & Ha & Hb & Hc' & Hd & _).
    exists s', A'. split; [exact Ha|]. split; [exact Hb|]. split; [exact Hc'|exact Hd].
  Qed.

  (* ---------------- M2 ---------------- *)
  Lemma rel_wf_sys (s : csys) (A : rsys) : Rel s A -> WF A -> wf_sys s.
  Proof.
    intros HR ((Hs & Hp & _) & _). unfold wf_sys, wf_nodes, procs_wf. rewrite (SysR_nodes _ _ _ HR).
    split; [exact Hs|]. apply Forall_forall. intros [k nd] Hin. cbn [snd].
    apply (Hp k nd). apply (sget_in _ CmpSpec_N); assumption.
  Qed.

  (* what expand_sys reports about one successor *)
  Definition Succ (A : rsys) (st : @mcstate T (astore T) PS) : Prop :=
    exists c A1, En A c /\ takeR A c = Ok A1 /\ WF A1 /\ st = get_state A1.

  Lemma steps_of_succ (A : rsys) : forall cs,
    WF A -> (forall c, In c cs -> En A c) ->
    exists sts, steps_of soR tgt0 teq0 t0 clock handler DS mc_rand ds_of2 A cs = Ok (A, sts) /\ Forall (Succ A) sts.
  Proof.
    induction cs as [|c r IH]; intros HW Hen; cbn [steps_of].
    - exists []. split; [reflexivity|constructor].
    - destruct (search_step_ok tgt0 teq0 t0 clock handler DS mc_rand ds_of2 tleb sevent_eqb known handler_closed
                  A c HW (Hen c (or_introl eq_refl))) as (A1 & Ht & HW1 & Hss & _).
      rewrite Hss. cbn [bind].
      destruct (IH HW) as (sts & Hr & Hsts). { intros c' Hc'. apply Hen. right. exact Hc'. }
      rewrite Hr. cbn [bind]. exists (get_state A1 :: sts). split; [reflexivity|].
      constructor; [|exact Hsts]. exists c, A1. split; [apply Hen; left; reflexivity|].
      split; [exact Ht|]. split; [exact HW1|reflexivity].
  Qed.

  Theorem expand_bisim (s : csys) (A : rsys) :
    Rel s A -> WF A ->
    exists l1 l2, expandC s = Ok (s, l1) /\ expandR A = Ok (A, l2) /\ Forall2 RelSt l1 l2 /\ Forall (Succ A) l2.
  Proof.
    intros HR HW.
    destruct (all_choices_spec tleb sevent_eqb known A HW) as (cs & Hcs & Hen).
    destruct (steps_of_succ A cs HW Hen) as (l2 & Hst & Hsucc).
    assert (HeR : expandR A = Ok (A, l2)).
    { unfold expand_sys. rewrite Hcs. cbn [bind]. exact Hst. }
    destruct (concrete_simulates_reference_expand_sys tleb store_eqb sevent_eqb tgt0 teq0 t0 clock handler DS
                mc_rand ds_of1 ds_of2 H_ds s A A l2 HR HeR) as (s1 & l1 & HeC & _ & HF).
    assert (Hs1 : s1 = s).
    { apply (expand_sys_restores soC tgt0 teq0 t0 clock handler DS mc_rand ds_of1 s s1 l1); [|exact HeC].
      apply (rel_wf_sys s A HR HW). }
    subst s1. exists l1, l2. split; [exact HeC|]. split; [exact HeR|]. split; [exact HF|exact Hsucc].
  Qed.

  (* one exploration step, both sides: the system is restored exactly and the reported states are related *)
  Theorem search_step_bisim (s : csys) (A : rsys) cs c :
    Rel s A -> WF A -> all_choices soC s = Ok cs -> In c cs ->
    exists s1 A1, takeC s c = Ok s1 /\ takeR A c = Ok A1 /\ Rel s1 A1 /\ WF A1 /\
                  searchC s c = Ok (s, get_state s1) /\ searchR A c = Ok (A, get_state A1) /\
                  RelSt (get_state s1) (get_state A1).
  Proof.
    intros HR HW Hcs Hc. destruct (step_bisim_en s A HR HW) as (cs' & H1 & H2 & H3 & _).
    rewrite Hcs in H1. apply ok_inj in H1. subst cs'.
    destruct (search_step_ok tgt0 teq0 t0 clock handler DS mc_rand ds_of2 tleb sevent_eqb known handler_closed
                A c HW (proj2 (H3 c) Hc)) as (A1 & Ht & HW1 & Hss & _).
    destruct (concrete_simulates_reference_search_step tleb store_eqb sevent_eqb tgt0 teq0 t0 clock handler DS
                mc_rand ds_of1 ds_of2 H_ds s A c A (get_state A1) HR Hss) as (s2 & st1 & HsC & _ & HRst).
    assert (Hs2 : s2 = s).
    { apply (search_step_restores soC tgt0 teq0 t0 clock handler DS mc_rand ds_of1 s c s2 st1); [|exact HsC].
      apply (rel_wf_sys s A HR HW). }
    subst s2.
    destruct (search_step_state soC tgt0 teq0 t0 clock handler DS mc_rand ds_of1 s c s st1 HsC) as (s1 & HtC & ->).
    destruct (concrete_simulates_reference_take_choice tleb store_eqb sevent_eqb tgt0 teq0 t0 clock handler DS
                mc_rand ds_of1 ds_of2 H_ds s A c A1 HR Ht) as (s1' & HtC' & HR1).
    rewrite HtC in HtC'. apply ok_inj in HtC'. subst s1'.
    exists s1, A1. split; [exact HtC|]. split; [exact Ht|]. split; [exact HR1|]. split; [exact HW1|].
    split; [exact HsC|]. split; [exact Hss|exact HRst].
  Qed.

  (* ---------------- M3 ---------------- *)
  (* paths of the concrete model: an enabled choice is a member of all_choices, a step is take_choice *)
  Inductive CSteps : csys -> csys -> Prop :=
  | csteps_refl : forall s, CSteps s s
  | csteps_cons : forall s cs c s1 s2,
      all_choices soC s = Ok cs -> In c cs -> takeC s c = Ok s1 -> CSteps s1 s2 -> CSteps s s2.

  (* every path of the model of the checker is a path of the reference semantics *)
  Theorem csteps_ref (s s' : csys) (A : rsys) :
    Rel s A -> WF A -> CSteps s s' -> exists A', RSteps A A' /\ Rel s' A' /\ WF A'.
  Proof.
    intros HR HW Hs. revert A HR HW. induction Hs as [s|s cs c s1 s2 Hcs Hc Ht Hs IH]; intros A HR HW.
    - exists A. split; [apply steps_refl|]. split; [exact HR|exact HW].
    - destruct (step_bisim_en s A HR HW) as (cs' & H1 & H2 & H3 & H4).
      rewrite Hcs in H1. apply ok_inj in H1. subst cs'.
      destruct (H4 c Hc) as (s1' & A1 & HtC & HtR & HR1 & HW1 & _).
      rewrite Ht in HtC. apply ok_inj in HtC. subst s1'.
      destruct (IH A1 HR1 HW1) as (A' & Hst & HR' & HW').
      exists A'. split; [|split; [exact HR'|exact HW']].
      apply (steps_cons tgt0 teq0 t0 clock handler DS mc_rand ds_of2 tleb sevent_eqb A c A1 A'); [apply (proj2 (H3 c) Hc)|exact HtR|exact Hst].
  Qed.

  (* every execution of the reference semantics is explored *)
  Theorem steps_conc (s : csys) (A A' : rsys) :
    Rel s A -> WF A -> RSteps A A' -> exists s', CSteps s s' /\ Rel s' A'.
  Proof.
    intros HR HW Hs. revert s HR HW. induction Hs as [A|A c A1 A2 Hen Ht Hs IH]; intros s HR HW.
    - exists s. split; [apply csteps_refl|exact HR].
    - destruct (step_bisim_en s A HR HW) as (cs & H1 & H2 & H3 & H4).
      pose proof (proj1 (H3 c) Hen) as Hc.
      destruct (H4 c Hc) as (s1 & A1' & HtC & HtR & HR1 & HW1 & _).
      rewrite Ht in HtR. apply ok_inj in HtR. subst A1'.
      destruct (IH s1 HR1 HW1) as (s' & Hcs & HR').
      exists s'. split; [|exact HR']. apply (csteps_cons s cs c s1 s' H1 Hc HtC Hcs).
  Qed.

  (* no panic anywhere along a path of the concrete model *)
  Theorem csteps_no_panic (s s' : csys) (A : rsys) :
    Rel s A -> WF A -> CSteps s s' ->
    exists cs, all_choices soC s' = Ok cs /\ forall c, In c cs -> exists s'', takeC s' c = Ok s''.
  Proof.
    intros HR HW Hs. destruct (csteps_ref s s' A HR HW Hs) as (A' & _ & HR' & HW').
    destruct (step_bisim s' A' HR' HW') as (cs & H1 & _ & H3).
    exists cs. split; [exact H1|]. intros c Hc. destruct (H3 c Hc) as (s'' & A'' & Ht & _). exists s''. exact Ht.
  Qed.

  (* and expand_sys, as the checker calls it, succeeds and restores the system at every state of such a path *)
  Corollary csteps_expand_ok (s s' : csys) (A : rsys) :
    Rel s A -> WF A -> CSteps s s' -> exists l, expandC s' = Ok (s', l).
  Proof.
    intros HR HW Hs. destruct (csteps_ref s s' A HR HW Hs) as (A' & _ & HR' & HW').
    destruct (expand_bisim s' A' HR' HW') as (l1 & l2 & H1 & _). exists l1. exact H1.
  Qed.

  Lemma csteps_trans (s1 s2 s3 : csys) : CSteps s1 s2 -> CSteps s2 s3 -> CSteps s1 s3.
  Proof.
    intros H12 H23. induction H12 as [s|s cs c sa sb Hcs Hc Ht Hs IH]; [exact H23|].
    apply (csteps_cons s cs c sa s3 Hcs Hc Ht). apply IH. exact H23.
  Qed.

  (* ---------------- M4 for the concrete model ---------------- *)
  Theorem take_choice_trace_concrete (s s' : csys) c :
    takeC s c = Ok s' ->
    exists e a more,
      sget N.compare (choice_id c) (evs (s_events s)) = Some e /\ applied_of c e = Some a /\
      s_trace s' = s_trace s ++ applied_log a :: more /\ s_depth s' = s_depth s + 1.
  Proof.
    intros H. destruct (take_choice_trace soC tgt0 teq0 t0 clock handler DS mc_rand ds_of1 s s' c H)
      as (st & e & a & more & Hp & Ha & Ht & Hd).
    exists e, a, more. split; [|split; [exact Ha|split; [exact Ht|exact Hd]]].
    cbn [so_pop concrete_ops] in Hp. apply (pop_get _ _ _ _ Hp).
  Qed.

  (* along a path the trace only grows and the depth counts the steps *)
  Theorem csteps_trace (s s' : csys) :
    CSteps s s' -> exists more, s_trace s' = s_trace s ++ more /\ s_depth s <= s_depth s'.
  Proof.
    intros Hs. induction Hs as [s|s cs c s1 s2 Hcs Hc Ht Hs IH].
    - exists []. rewrite app_nil_r. split; [reflexivity|lia].
    - destruct (take_choice_trace_concrete s s1 c Ht) as (e & a & m1 & _ & _ & Ht1 & Hd1).
      destruct IH as (m2 & Ht2 & Hd2).
      exists ((applied_log a :: m1) ++ m2). rewrite Ht2, Ht1, app_assoc. split; [reflexivity|lia].
  Qed.

  (* ---------------- M5 ---------------- *)
  (* the reference-side notion transported along SysR: what it says about the concrete system *)
  Definition CSilent (n : N) (s : csys) : Prop :=
    (exists nd, sget N.compare n (s_nodes s) = Some nd /\ nd_crashed nd = true) /\
    (forall i e p, In (i, e) (evs (s_events s)) -> sget N.compare p (n_loc (s_net s)) = Some n -> touches p e = false) /\
    nmem n (n_drop_in (s_net s)) = true /\ nmem n (n_drop_out (s_net s)) = true.

  Lemma silent_concrete (s : csys) (A : rsys) n : Rel s A -> Silent n A -> CSilent n s.
  Proof.
    intros HR (S1 & S2 & S3 & S4). unfold CSilent.
    rewrite (SysR_nodes _ _ _ HR), (SysR_net _ _ _ HR). split; [exact S1|]. split; [|split; [exact S3|exact S4]].
    intros i e p Hi Hp. pose proof (SysR_events _ _ _ HR) as He.
    rewrite (R_evs _ _ _ He), alive_alive' in Hi. apply (alive'_in _ _ _ (R_nodup _ _ _ He)) in Hi.
    apply (S2 i e p Hi Hp).
  Qed.

  Theorem csteps_silent (s s' : csys) (A : rsys) n :
    Rel s A -> WF A -> Silent n A -> CSteps s s' ->
    sget N.compare n (s_nodes s') = sget N.compare n (s_nodes s) /\ CSilent n s'.
  Proof.
    intros HR HW HS Hs. destruct (csteps_ref s s' A HR HW Hs) as (A' & Hst & HR' & HW').
    destruct (silent_forever tgt0 teq0 t0 clock handler DS mc_rand ds_of2 tleb sevent_eqb known handler_closed
                A A' n HW HS Hst) as (HS' & Hg).
    split.
    - rewrite (SysR_nodes _ _ _ HR'), (SysR_nodes _ _ _ HR). exact Hg.
    - apply (silent_concrete s' A' n HR' HS').
  Qed.

  (* lifting one callback operation *)
  Lemma cb_lift (s : csys) (A A' : rsys) o :
    Rel s A -> cbR A o = Ok A' -> exists s', cbC s o = Ok s' /\ Rel s' A'.
  Proof.
    apply (cb_apply_lift soC soR (R tleb) tgt0 teq0 t0 clock handler DS mc_rand ds_of1 ds_of2
             (c_push tleb store_eqb sevent_eqb) (c_cancel_timer tleb store_eqb sevent_eqb)
             (c_cancel_proc tleb store_eqb sevent_eqb) H_ds).
  Qed.

  (* the crash itself *)
  Theorem crash_bisim (s : csys) (A : rsys) n nd :
    Rel s A -> WF A -> sget N.compare n (s_nodes s) = Some nd ->
    exists s' A', cbC s (CbCrash n) = Ok s' /\ cbR A (CbCrash n) = Ok A' /\ Rel s' A' /\ WF A' /\
                  Silent n A' /\ CSilent n s' /\
                  s_trace s' = s_trace s ++ LMcNodeCrashed n :: crash_drops (s_events A) (map fst (nd_procs nd)) /\
                  s_nodes s' = sins N.compare n {| nd_procs := nd_procs nd; nd_skew := nd_skew nd; nd_crashed := true |}
                                    (s_nodes s) /\
                  s_net s' = net_apply (s_net s) (NDisconnect n) /\ s_depth s' = s_depth s /\ s_mf s' = s_mf s.
  Proof.
    intros HR HW Hn. rewrite (SysR_nodes _ _ _ HR) in Hn.
    destruct (cb_crash_ok tgt0 teq0 t0 clock handler DS mc_rand ds_of2 tleb sevent_eqb known A n nd HW Hn)
      as (A' & Hcb & HW' & HS' & _ & _ & _ & Htr & Hnodes & Hnet & Hdep & Hmf).
    destruct (cb_lift s A A' (CbCrash n) HR Hcb) as (s' & HcbC & HR').
    exists s', A'. split; [exact HcbC|]. split; [exact Hcb|]. split; [exact HR'|]. split; [exact HW'|].
    split; [exact HS'|]. split; [apply (silent_concrete s' A' n HR' HS')|].
    rewrite (SysR_trace _ _ _ HR'), (SysR_nodes _ _ _ HR'), (SysR_net _ _ _ HR'), (SysR_depth _ _ _ HR'),
            (SysR_mf _ _ _ HR'), (SysR_trace _ _ _ HR), (SysR_nodes _ _ _ HR), (SysR_net _ _ _ HR),
            (SysR_depth _ _ _ HR), (SysR_mf _ _ _ HR).
    split; [exact Htr|]. split; [exact Hnodes|]. split; [exact Hnet|]. split; [exact Hdep|exact Hmf].
  Qed.

  (* after a crash: whatever the concrete model explores, the crashed node's entry never changes again *)
  Corollary crash_then_silent (s s1 s' : csys) (A : rsys) n nd :
    Rel s A -> WF A -> sget N.compare n (s_nodes s) = Some nd -> cbC s (CbCrash n) = Ok s1 -> CSteps s1 s' ->
    sget N.compare n (s_nodes s') = Some {| nd_procs := nd_procs nd; nd_skew := nd_skew nd; nd_crashed := true |} /\
    CSilent n s'.
  Proof.
    intros HR HW Hn Hcb Hs.
    destruct (crash_bisim s A n nd HR HW Hn) as (s1' & A1 & HcbC & _ & HR1 & HW1 & HS1 & _ & _ & Hnodes & _).
    rewrite Hcb in HcbC. apply ok_inj in HcbC. subst s1'.
    destruct (csteps_silent s1 s' A1 n HR1 HW1 HS1 Hs) as (Hg & HCS).
    split; [|exact HCS]. rewrite Hg, Hnodes, sget_sins_N, N.eqb_refl. reflexivity.
  Qed.

  (* the other callback operations *)
  Theorem cb_local_bisim (s : csys) (A : rsys) nn proc m nd :
    Rel s A -> WF A -> sget N.compare proc (n_loc (s_net s)) = Some nn -> sget N.compare nn (s_nodes s) = Some nd ->
    nd_crashed nd = false ->
    exists s' A', cbC s (CbLocal nn proc m) = Ok s' /\ cbR A (CbLocal nn proc m) = Ok A' /\ Rel s' A' /\ WF A'.
  Proof.
    intros HR HW Hloc Hnd Hcr. rewrite (SysR_net _ _ _ HR) in Hloc. rewrite (SysR_nodes _ _ _ HR) in Hnd.
    destruct (cb_local_ok tgt0 teq0 t0 clock handler DS mc_rand ds_of2 tleb sevent_eqb known handler_closed
                A nn proc m nd HW Hloc Hnd Hcr) as (A' & Hcb & HW' & _).
    destruct (cb_lift s A A' _ HR Hcb) as (s' & HcbC & HR').
    exists s', A'. split; [exact HcbC|]. split; [exact Hcb|]. split; [exact HR'|exact HW'].
  Qed.

  Theorem cb_mode_bisim (s : csys) (A : rsys) mf :
    Rel s A -> WF A -> exists s' A', cbC s (CbMode mf) = Ok s' /\ cbR A (CbMode mf) = Ok A' /\ Rel s' A' /\ WF A'.
  Proof.
    intros HR HW.
    destruct (cb_mode_ok tgt0 teq0 t0 clock handler DS mc_rand ds_of2 tleb sevent_eqb known A mf HW) as (A' & Hcb & HW').
    destruct (cb_lift s A A' _ HR Hcb) as (s' & HcbC & HR').
    exists s', A'. split; [exact HcbC|]. split; [exact Hcb|]. split; [exact HR'|exact HW'].
  Qed.

  Theorem cb_net_bisim (s : csys) (A : rsys) o :
    Rel s A -> WF A ->
    o <> NReset \/ (forall nn nd, sget N.compare nn (s_nodes s) = Some nd -> nd_crashed nd = false) ->
    exists s' A', cbC s (CbNet o) = Ok s' /\ cbR A (CbNet o) = Ok A' /\ Rel s' A' /\ WF A'.
  Proof.
    intros HR HW Ho. rewrite (SysR_nodes _ _ _ HR) in Ho.
    destruct (cb_net_ok tgt0 teq0 t0 clock handler DS mc_rand ds_of2 tleb sevent_eqb known A o HW Ho)
      as (A' & Hcb & HW' & _).
    destruct (cb_lift s A A' _ HR Hcb) as (s' & HcbC & HR').
    exists s', A'. split; [exact HcbC|]. split; [exact Hcb|]. split; [exact HR'|exact HW'].
  Qed.

  (* ---------------- M6 ---------------- *)
  Definition init_sys {SE} (so : @store_ops T SE) nodes net depth mf trace : @mcsys T SE PS :=
    {| s_nodes := nodes; s_net := net; s_events := so_empty so; s_depth := depth; s_mf := mf; s_trace := trace |}.

  Lemma init_related nodes net depth mf trace :
    Rel (init_sys soC nodes net depth mf trace) (init_sys soR nodes net depth mf trace).
  Proof.
    constructor; cbn [init_sys s_nodes s_net s_depth s_mf s_trace s_events]; try reflexivity.
    apply (c_empty tleb store_eqb sevent_eqb).
  Qed.

  (* non-vacuity: related, well-formed pairs exist for every sensible initial placement *)
  Theorem init_related_awf nodes net depth mf trace :
    Place known nodes net ->
    (forall nn nd, sget N.compare nn nodes = Some nd -> nd_crashed nd = false) ->
    (forall nn nd p pe, sget N.compare nn nodes = Some nd -> sget N.compare p (nd_procs nd) = Some pe ->
                        pe_ptimers pe = []) ->
    Rel (init_sys soC nodes net depth mf trace) (init_sys soR nodes net depth mf trace) /\
    WF (init_sys soR nodes net depth mf trace).
  Proof.
    intros HP Hc Hpt. split; [apply init_related|].
    apply (awf_init known (init_sys soR nodes net depth mf trace)).
    - exact HP.
    - reflexivity.
    - exact Hc.
    - exact Hpt.
  Qed.

  (* everything together, from an initial system: along every path the concrete model explores, nothing panics,
     expand_sys restores the system exactly, and the path is an execution of the reference semantics *)
  Corollary init_sound nodes net depth mf trace s' :
    Place known nodes net ->
    (forall nn nd, sget N.compare nn nodes = Some nd -> nd_crashed nd = false) ->
    (forall nn nd p pe, sget N.compare nn nodes = Some nd -> sget N.compare p (nd_procs nd) = Some pe ->
                        pe_ptimers pe = []) ->
    CSteps (init_sys soC nodes net depth mf trace) s' ->
    (exists A', RSteps (init_sys soR nodes net depth mf trace) A' /\ Rel s' A' /\ WF A') /\
    (exists cs, all_choices soC s' = Ok cs /\ forall c, In c cs -> exists s'', takeC s' c = Ok s'') /\
    (exists l, expandC s' = Ok (s', l)).
  Proof.
    intros HP Hc Hpt Hs. destruct (init_related_awf nodes net depth mf trace HP Hc Hpt) as (HR & HW).
    split; [|split].
    - apply (csteps_ref _ _ _ HR HW Hs).
    - apply (csteps_no_panic _ _ _ HR HW Hs).
    - apply (csteps_expand_ok _ _ _ HR HW Hs).
  Qed.
End McCompose.

Print Assumptions take_choice_trace.
Print Assumptions take_choice_trace_log.
Print Assumptions search_step_trace.
Print Assumptions all_choices_in.
Print Assumptions step_bisim.
Print Assumptions expand_bisim.
Print Assumptions search_step_bisim.
Print Assumptions csteps_ref.
Print Assumptions steps_conc.
Print Assumptions csteps_no_panic.
Print Assumptions csteps_expand_ok.
Print Assumptions take_choice_trace_concrete.
Print Assumptions csteps_trace.
Print Assumptions csteps_silent.
Print Assumptions crash_bisim.
Print Assumptions crash_then_silent.
Print Assumptions cb_local_bisim.
Print Assumptions cb_mode_bisim.
Print Assumptions cb_net_bisim.
Print Assumptions init_related.
Print Assumptions init_related_awf.
Print Assumptions init_sound.
