(* The state equality of the checker's visited-state cache (McState::eq; Model/McRun.v mcstate_eqb) is a bisimulation
   on the model of the checker (Model/McSys.v, Model/McRun.v) -- under side conditions, made precise here.
   Concrete instance throughout:  so := concrete_ops tleb (@store_eqb T),  T, PS, DS arbitrary,  veq := mcstate_eqb so teqb ps_eqb.

   SIDE CONDITIONS
     (a) clock_independent   forall p st inp t t' r, handler p st inp t r = handler p st inp t' r
     (b) ds_respects         forall a b, veq a b = true -> ds_of a = ds_of b
     (c) teqb_spec, ps_eqb_spec   teqb a b = true <-> a = b,   ps_eqb a b = true <-> a = b
     (d) PtDet st            forall nn ns p e, sget nn (st_nodes st) = Some ns -> ns_crashed ns = false ->
                               sget p (ns_procs ns) = Some e ->
                               forall n, shas n (pe_ptimers e) = true <-> exists i d, In (i, ETimer p n d) (evs (st_events st))
                             (lookup form; PtDet_In: on sorted maps it is the membership form "every process of every
                              non-crashed node")
     (e) st_net st1 = st_net st2  (s_net s1 = s_net s2)
   and, for the PRESERVATION of (d) only:
     Placed s                forall nn nd p, sget nn (s_nodes s) = Some nd -> shas p (nd_procs nd) = true ->
                               sget p (n_loc (s_net s)) = Some nn        (a process name lives on one node: the located one)
     StoreOK st              (exists a, R tleb st a)  /\  TmapDet st,   R = the refinement relation of Proofs/StoreRefine.v,
     TmapDet st              forall i p n d, In (i, ETimer p n d) (evs st) -> sget tkey_cmp (p, n) (tmap st) = Some i
                             (the name map points to every pending timer event; hence at most one per (process, name))
     no_override_step s c    for c = ChDeliver i, with e the event popped, (proc, k) = target e, nd the (non-crashed) node of
                             proc, p its entry:  no_override_acts proc _ (run_entry ..) (run_acts ..) = true, i.e. walking the
                             handler's actions through node_action, no ATimerSet n _ false meets n in pe_ptimers at that moment.
     StInv s := Placed s /\ StoreOK (s_events s) /\ PtDet (get_state s);   StInvSt st: the same on a state.

   RESULTS (E1..E5 of the task)
   E1  mcstate_eqb_spec        (c) |- veq a b = true <-> st_eq a b, where
                                 st_eq a b := st_events a = st_events b /\ keyrel ns_eq (st_nodes a) (st_nodes b)
                                 ns_eq x y := ns_crashed x = ns_crashed y /\ keyrel pe_eq (ns_procs x) (ns_procs y)
                                 pe_eq p q := pe_state p = pe_state q /\ pe_outbox p = pe_outbox q
                                 (keyrel R l l' of Proofs/Restore.v: same names in the same order, values related by R;
                                  mcstate_eqb_spec_unfolded spells it out with Forall2);   store_eqb_eq: store_eqb teqb a b = true <-> a = b
       mcstate_eqb_refl / _sym / _trans     (c) |- veq is an equivalence relation
   E2  take_choice_eq          (a)(b)(c) |- wf_sys s1 -> wf_sys s2 -> same_frame s1 s2 -> s_net s1 = s_net s2 ->
                                 veq (get_state s1) (get_state s2) = true -> PtDet (get_state s1) -> PtDet (get_state s2) ->
                                 take_choice s1 c = Ok s1' ->
                                 exists s2', take_choice s2 c = Ok s2' /\ veq (get_state s1') (get_state s2') = true /\
                                             s_net s1' = s_net s2' /\ same_frame s1' s2'
                               No well-formedness of the store is needed for this part (the stores are Leibniz-equal by E1,
                               so every store operation returns equal results); wf_sys/same_frame are used only to hand
                               same_frame back.  Core: take_choice_sys_eq (sys_eq, sys_agree: no wf at all).
       take_choice_inv         StInv s -> no_override_step s c -> take_choice s c = Ok s' -> StInv s' /\ s_net s' = s_net s
                               (no hypothesis on the handler: one-sided; this is the PtDet-preservation clause)
       take_choice_eq_inv      E2 + StInv s1, StInv s2, no_override_step on both sides |- also wf_sys, StInv of both results
       take_choice_eq_inv'     the same with no_override_step s1 c only (no_override_step_eq: under the hypotheses of E2
                               the side condition transfers to the other side)
       StInv_init              Placed s, empty store, all pe_ptimers empty |- StInv s
   E3  mc_expand_eq            (a)(b)(c) |- wf_sys sys0 -> state_fits sys0 st1 -> state_fits sys0 st2 -> st_net st1 = st_net st2 ->
                                 veq st1 st2 = true -> PtDet st1 -> PtDet st2 -> mc_expand sys0 st1 = Ok l1 ->
                                 exists l2, mc_expand sys0 st2 = Ok l2 /\ Forall2 (fun x y => veq x y = true) l1 l2
       mc_expand_compat        the same with the conclusion of SearchCorrect.expand_compat
       mc_expand_inv           wf_sys sys0 -> state_fits sys0 st -> StInvSt st -> (every step out of st is no_override_step) ->
                                 mc_expand sys0 st = Ok l -> Forall (fun x => StInvSt x /\ st_net x = st_net st /\ state_fits sys0 x) l
                               (so the hypotheses of mc_expand_eq hold again for all successors: the conditional
                                compatibility can be iterated along runs without overrides)
   E4  state_based pr          each of pr_collect / pr_inv / pr_goal / pr_prune gives equal results on veq-equal states
       verdict_compat          (c) |- state_based pr -> veq a b = true -> the four predicates, mc_no_events, mc_enabled_ok sys0
                               and SearchCorrect.vk (the pure verdict of check_state) agree on a and b
                               (mc_no_events_compat, mc_enabled_ok_compat: no condition on pr)
   E5  Witness.clock_dependence_refutes_bisim   (a) is necessary (finding F14): T := N, clock depth skew := depth,
                               PS := list N, handler records its time; two veq-equal states at depths 0 and 1 with the
                               same network; delivering the pending message yields veq-different successors.
                               All other hypotheses of E2 hold there (no timers at all; ds_of constant).
       Witness.ptimers_dependence_refutes_bisim, Witness.expand_compat_fails_without_PtDet   (d) is necessary: with a
                               clock-independent handler (set_timer_once 7), two veq-equal states with the same store
                               (timer 7 pending) that differ in pe_ptimers have veq-different successors.

   STATEMENTS THAT ARE FALSE AS FIRST PROPOSED, AND WHAT IS PROVED INSTEAD
     * "mcstate_eqb is a bisimulation" / SearchCorrect.expand_compat for ALL states: false (the two witnesses).  It holds on the
       states satisfying (d) with equal networks that fit sys0 (mc_expand_eq), and that set is closed under mc_expand as long
       as no step overrides a pending timer (mc_expand_inv); so SearchCorrect has to be used relative to that invariant.
     * PtDet alone is not inductive: preservation needs, besides R for the store, TmapDet (cancel_timer cancels the id the
       NAME MAP gives, so the map must point to the pending event of that name) and Placed (a second entry with the same
       process name on another node would see the timer events of the running one).  Both are themselves preserved
       (take_choice_inv), hold initially (StInv_init), and with the override excluded TmapDet makes the timer event of a
       (process, name) unique.  With an override (finding F10) the old TimerFired event stays in the store: after either
       event fires the name leaves pe_ptimers while an event of that name is still pending, i.e. PtDet fails.
   No Admitted, no axioms (Print Assumptions at the end). *)
From Coq Require Import List NArith Bool Lia.
From ASV Require Import Base.Util Base.Msg Base.Log Model.Store Spec.StoreSpec Model.McSys Model.Search Model.McRun
     Proofs.UtilP Proofs.StoreSpecP Proofs.StoreRefine Proofs.Restore Proofs.SearchCorrect.
Import ListNotations.
Open Scope N_scope.

Local Ltac binv H :=
  match type of H with
  | bind ?r _ = Ok _ => let E := fresh "E" in destruct r eqn:E; cbn [bind] in H; [|discriminate H]
  | Ok _ = Ok _ => inversion H; subst; clear H
  | Panic _ = Ok _ => discriminate H
  | (let '(_, _) := ?p in _) = Ok _ => destruct p
  end.

Local Notation sgetN := (sget N.compare).
Local Notation sinsN := (sins N.compare).
Local Notation sremN := (srem N.compare).
Local Notation shasN := (shas N.compare).
Local Notation ssortedN := (ssorted N.compare).

(* ------------------------------------------------------------------------------------------ *)
(* boolean equality tests that reflect Leibniz equality                                        *)
(* ------------------------------------------------------------------------------------------ *)
Lemma list_eqb_cons {A} (eqb : A -> A -> bool) a x b y :
  list_eqb eqb (a :: x) (b :: y) = eqb a b && list_eqb eqb x y.
Proof. reflexivity. Qed.

Lemma list_eqb_Forall2 {A} (eqb : A -> A -> bool) (R : A -> A -> Prop) :
  (forall a b, eqb a b = true <-> R a b) -> forall x y, list_eqb eqb x y = true <-> Forall2 R x y.
Proof.
  intros H. induction x as [|a x IH]; intros [|b y].
  - cbn. split; auto.
  - cbn. split; [discriminate|]. intros F. inversion F.
  - cbn. split; [discriminate|]. intros F. inversion F.
  - rewrite list_eqb_cons, andb_true_iff, H, IH. split.
    + intros [H1 H2]. constructor; auto.
    + intros F. inversion F; subst. auto.
Qed.

Lemma Forall2_eq_iff {A} (x y : list A) : Forall2 eq x y <-> x = y.
Proof.
  split.
  - induction 1; congruence.
  - intros ->. induction y; constructor; auto.
Qed.

Lemma list_eqb_eq {A} (eqb : A -> A -> bool) :
  (forall a b, eqb a b = true <-> a = b) -> forall x y, list_eqb eqb x y = true <-> x = y.
Proof. intros H x y. rewrite (list_eqb_Forall2 eqb eq H). apply Forall2_eq_iff. Qed.

Lemma pairN_eqb_iff {A} (e : A -> A -> bool) (x y : N * A) :
  pairN_eqb e x y = true <-> fst x = fst y /\ e (snd x) (snd y) = true.
Proof. unfold pairN_eqb. rewrite andb_true_iff, N.eqb_eq. reflexivity. Qed.

Lemma pairN_eqb_eq {A} (e : A -> A -> bool) :
  (forall a b, e a b = true <-> a = b) -> forall x y : N * A, pairN_eqb e x y = true <-> x = y.
Proof.
  intros H [k a] [k' b]. rewrite pairN_eqb_iff, H. cbn [fst snd]. split.
  - intros [-> ->]. reflexivity.
  - intros E. inversion E. auto.
Qed.

Lemma pair_eqb_eq (a b : N * N) : pair_eqb a b = true <-> a = b.
Proof.
  destruct a as [a1 a2], b as [b1 b2]. unfold pair_eqb. cbn [fst snd]. rewrite andb_true_iff, !N.eqb_eq. split.
  - intros [-> ->]. reflexivity.
  - intros E. inversion E. auto.
Qed.

Lemma keyrel_list_eqb {A} (e : A -> A -> bool) (R : A -> A -> Prop) :
  (forall a b, e a b = true <-> R a b) ->
  forall x y : list (N * A), list_eqb (pairN_eqb e) x y = true <-> keyrel R x y.
Proof.
  intros H x y. unfold keyrel. apply list_eqb_Forall2. intros a b. rewrite pairN_eqb_iff, H. reflexivity.
Qed.

(* more on keyrel *)
Lemma keyrel_sym_gen {V} (R : V -> V -> Prop) l l' : (forall a b, R a b -> R b a) -> keyrel R l l' -> keyrel R l' l.
Proof. intros Hs H. apply keyrel_flip in H. eapply keyrel_impl; [|exact H]. cbn. auto. Qed.

Lemma keyrel_map {V W V' W'} (R : V -> W -> Prop) (R' : V' -> W' -> Prop) (f : V -> V') (g : W -> W') l l' :
  (forall a b, R a b -> R' (f a) (g b)) ->
  keyrel R l l' -> keyrel R' (map (fun p => (fst p, f (snd p))) l) (map (fun p => (fst p, g (snd p))) l').
Proof.
  intros Hi. induction 1 as [|p q l l' [Hk HR] _ IH]; cbn [map]; constructor; auto.
  cbn [fst snd]. split; auto.
Qed.

Lemma keyrel_unmap {V W V' W'} (R : V -> W -> Prop) (R' : V' -> W' -> Prop) (f : V -> V') (g : W -> W') l l' :
  (forall a b, R' (f a) (g b) -> R a b) ->
  keyrel R' (map (fun p => (fst p, f (snd p))) l) (map (fun p => (fst p, g (snd p))) l') -> keyrel R l l'.
Proof.
  intros Hi. revert l'. induction l as [|p l IH]; intros [|q l'] H; cbn [map] in H; inversion H; subst.
  - constructor.
  - constructor; [|apply IH; auto]. cbn [fst snd] in *. destruct H3. split; auto.
Qed.

Lemma keyrel_sins2 {V W} (R : V -> W -> Prop) k v w l l' :
  keyrel R l l' -> R v w -> keyrel R (sinsN k v l) (sinsN k w l').
Proof.
  intros H Hv. induction H as [|[k1 v1] [k2 w2] l l' [Hk HR] Hrest IH]; cbn [sins].
  - constructor; auto.
  - cbn [fst snd] in Hk, HR. subst k2. destruct (N.compare k k1).
    + constructor; [split; auto|exact Hrest].
    + constructor; [split; auto|]. constructor; [split; auto|exact Hrest].
    + constructor; [split; auto|exact IH].
Qed.

Section EqBisim.
  Context {T : Type}.
  Variable tleb : T -> T -> bool.
  Variable teqb : T -> T -> bool.
  Variable tgt0 : T -> bool.
  Variable teq0 : T -> bool.
  Variable t0 : T.
  Variable clock : N -> T -> T.
  Context {PS : Type}.
  Variable ps_eqb : PS -> PS -> bool.
  Variable handler : N -> PS -> input -> T -> (nat -> T) -> PS * list (action T).
  Variable DS : Type.
  Variable mc_rand : DS -> nat -> T.
  Variable ds_of : @mcstate T (store T) PS -> DS.

  Notation so := (concrete_ops tleb (@store_eqb T)).
  Notation mcsys := (@mcsys T (store T) PS).
  Notation mcstate := (@mcstate T (store T) PS).
  Notation mcnode := (@mcnode T PS).
  Notation mcnodestate := (@mcnodestate T PS).
  Notation pentry := (pentry T PS).
  Notation mcnet := (@mcnet T).
  Notation nevent := (@nevent T).
  Notation veq := (mcstate_eqb so teqb ps_eqb).

  (* side condition (c) *)
  Hypothesis teqb_spec : forall a b, teqb a b = true <-> a = b.
  Hypothesis ps_eqb_spec : forall a b, ps_eqb a b = true <-> a = b.

  (* ---------------------------------------------------------------------------------------- *)
  (* E1: what the equality test decides                                                        *)
  (* ---------------------------------------------------------------------------------------- *)
  Lemma dopts_eqb_eq (a b : dopts T) : dopts_eqb teqb a b = true <-> a = b.
  Proof.
    destruct a as [x|d1 k1 c1], b as [y|d2 k2 c2]; cbn [dopts_eqb].
    - rewrite teqb_spec. split; [intros ->; auto|intros E; inversion E; auto].
    - split; discriminate.
    - split; discriminate.
    - rewrite !andb_true_iff, !Bool.eqb_true_iff, N.eqb_eq. split.
      + intros [[-> ->] ->]. reflexivity.
      + intros E. inversion E. auto.
  Qed.

  Lemma sevent_eqb_eq (a b : sevent T) : sevent_eqb teqb a b = true <-> a = b.
  Proof.
    destruct a as [m1 s1 d1 o1|p1 n1 d1], b as [m2 s2 d2 o2|p2 n2 d2]; cbn [sevent_eqb].
    - rewrite !andb_true_iff, msg_eqb_true, !N.eqb_eq, dopts_eqb_eq. split.
      + intros [[[-> ->] ->] ->]. reflexivity.
      + intros E. inversion E. auto.
    - split; discriminate.
    - split; discriminate.
    - rewrite !andb_true_iff, !N.eqb_eq, teqb_spec. split.
      + intros [[-> ->] ->]. reflexivity.
      + intros E. inversion E. auto.
  Qed.

  Lemma tinfo_eqb_eq (a b : tinfo T) : tinfo_eqb teqb a b = true <-> a = b.
  Proof.
    destruct a as [p1 d1 b1], b as [p2 d2 b2]. unfold tinfo_eqb. cbn [ti_proc ti_delay ti_blockers].
    rewrite !andb_true_iff, N.eqb_eq, teqb_spec, (list_eqb_eq N.eqb N.eqb_eq). split.
    - intros [[-> ->] ->]. reflexivity.
    - intros E. inversion E. auto.
  Qed.

  Theorem store_eqb_eq (a b : store T) : store_eqb teqb a b = true <-> a = b.
  Proof.
    unfold store_eqb. rewrite !andb_true_iff.
    rewrite (list_eqb_eq _ (pairN_eqb_eq _ sevent_eqb_eq)).
    rewrite (list_eqb_eq (fun x y : N * N * N => pair_eqb (fst x) (fst y) && N.eqb (snd x) (snd y))).
    2:{ intros [k1 v1] [k2 v2]. cbn [fst snd]. rewrite andb_true_iff, pair_eqb_eq, N.eqb_eq. split.
        - intros [-> ->]. reflexivity.
        - intros E. inversion E. auto. }
    rewrite (list_eqb_eq N.eqb N.eqb_eq).
    rewrite (list_eqb_eq _ (pairN_eqb_eq _ tinfo_eqb_eq)).
    rewrite (list_eqb_eq (fun x y : mkey * list N => is_eq (mkey_cmp (fst x) (fst y)) && list_eqb N.eqb (snd x) (snd y))).
    2:{ intros [k1 v1] [k2 v2]. cbn [fst snd].
        rewrite andb_true_iff, (is_eq_true _ CmpSpec_mkey), (list_eqb_eq N.eqb N.eqb_eq). split.
        - intros [-> ->]. reflexivity.
        - intros E. inversion E. auto. }
    rewrite (list_eqb_eq _ (pairN_eqb_eq _ (list_eqb_eq N.eqb N.eqb_eq))).
    rewrite N.eqb_eq.
    destruct a, b. cbn [Store.evs Store.tmap Store.avail Store.r_timers Store.r_msgs Store.r_ptimers Store.next]. split.
    - intros [[[[[[-> ->] ->] ->] ->] ->] ->]. reflexivity.
    - intros E. inversion E. repeat split; reflexivity.
  Qed.

  (* the equality-relevant projection, as relations *)
  Definition pe_eq (a b : pentry) : Prop := pe_state a = pe_state b /\ pe_outbox a = pe_outbox b.
  Definition ns_eq (a b : mcnodestate) : Prop :=
    ns_crashed a = ns_crashed b /\ keyrel pe_eq (ns_procs a) (ns_procs b).
  (* keyrel R l l' : same names in the same order, values pairwise related by R (Proofs/Restore.v) *)
  Definition st_eq (a b : mcstate) : Prop :=
    st_events a = st_events b /\ keyrel ns_eq (st_nodes a) (st_nodes b).

  Lemma pentry_eqb_iff (a b : pentry) : pentry_eqb ps_eqb a b = true <-> pe_eq a b.
  Proof.
    unfold pentry_eqb, pe_eq. rewrite andb_true_iff, ps_eqb_spec, (list_eqb_eq _ msg_eqb_true). reflexivity.
  Qed.

  Lemma nodestate_eqb_iff (a b : mcnodestate) : nodestate_eqb ps_eqb a b = true <-> ns_eq a b.
  Proof.
    unfold nodestate_eqb, ns_eq. rewrite andb_true_iff, Bool.eqb_true_iff, (keyrel_list_eqb _ _ pentry_eqb_iff).
    split; intros [H1 H2]; split; assumption.
  Qed.

  Theorem mcstate_eqb_spec (a b : mcstate) : veq a b = true <-> st_eq a b.
  Proof.
    unfold mcstate_eqb, st_eq. cbn [so_eqb concrete_ops].
    rewrite andb_true_iff, store_eqb_eq, (keyrel_list_eqb _ _ nodestate_eqb_iff). reflexivity.
  Qed.

  (* the unfolded reading of E1 *)
  Theorem mcstate_eqb_spec_unfolded (a b : mcstate) :
    veq a b = true <->
    st_events a = st_events b /\
    Forall2 (fun x y : N * mcnodestate =>
               fst x = fst y /\ ns_crashed (snd x) = ns_crashed (snd y) /\
               Forall2 (fun p q : N * pentry =>
                          fst p = fst q /\ pe_state (snd p) = pe_state (snd q) /\ pe_outbox (snd p) = pe_outbox (snd q))
                       (ns_procs (snd x)) (ns_procs (snd y)))
            (st_nodes a) (st_nodes b).
  Proof. rewrite mcstate_eqb_spec. reflexivity. Qed.

  Lemma pe_eq_refl a : pe_eq a a.
  Proof. split; reflexivity. Qed.
  Lemma pe_eq_sym a b : pe_eq a b -> pe_eq b a.
  Proof. intros [H1 H2]. split; auto. Qed.
  Lemma pe_eq_trans a b c : pe_eq a b -> pe_eq b c -> pe_eq a c.
  Proof. intros [H1 H2] [H3 H4]. split; congruence. Qed.

  Lemma ns_eq_refl a : ns_eq a a.
  Proof. split; [reflexivity|]. apply keyrel_refl, pe_eq_refl. Qed.
  Lemma ns_eq_sym a b : ns_eq a b -> ns_eq b a.
  Proof. intros [H1 H2]. split; auto. apply keyrel_sym_gen; auto. apply pe_eq_sym. Qed.
  Lemma ns_eq_trans a b c : ns_eq a b -> ns_eq b c -> ns_eq a c.
  Proof.
    intros [H1 H2] [H3 H4]. split; [congruence|]. eapply keyrel_trans; [|exact H2|exact H4]. apply pe_eq_trans.
  Qed.

  Lemma st_eq_refl a : st_eq a a.
  Proof. split; [reflexivity|]. apply keyrel_refl, ns_eq_refl. Qed.
  Lemma st_eq_sym a b : st_eq a b -> st_eq b a.
  Proof. intros [H1 H2]. split; auto. apply keyrel_sym_gen; auto. apply ns_eq_sym. Qed.
  Lemma st_eq_trans a b c : st_eq a b -> st_eq b c -> st_eq a c.
  Proof.
    intros [H1 H2] [H3 H4]. split; [congruence|]. eapply keyrel_trans; [|exact H2|exact H4]. apply ns_eq_trans.
  Qed.

  (* mcstate_eqb is an equivalence relation *)
  Theorem mcstate_eqb_refl a : veq a a = true.
  Proof. apply mcstate_eqb_spec, st_eq_refl. Qed.
  Theorem mcstate_eqb_sym a b : veq a b = true -> veq b a = true.
  Proof. rewrite !mcstate_eqb_spec. apply st_eq_sym. Qed.
  Theorem mcstate_eqb_trans a b c : veq a b = true -> veq b c = true -> veq a c = true.
  Proof. rewrite !mcstate_eqb_spec. apply st_eq_trans. Qed.


  (* ---------------------------------------------------------------------------------------- *)
  (* E2: one transition                                                                        *)
  (* ---------------------------------------------------------------------------------------- *)
  Local Notation node_handleM := (node_handle t0 clock handler DS mc_rand).
  Local Notation add_eventsM := (add_events so tgt0 teq0 (PS := PS)).
  Local Notation deliverM := (deliver so tgt0 teq0 t0 clock handler DS mc_rand ds_of).
  Local Notation apply_eventM := (apply_event so tgt0 teq0 t0 clock handler DS mc_rand ds_of).
  Local Notation take_choiceM := (take_choice so tgt0 teq0 t0 clock handler DS mc_rand ds_of).
  Local Notation search_stepM := (search_step so tgt0 teq0 t0 clock handler DS mc_rand ds_of).
  Local Notation steps_ofM := (steps_of so tgt0 teq0 t0 clock handler DS mc_rand ds_of).
  Local Notation expand_sysM := (expand_sys so tgt0 teq0 t0 clock handler DS mc_rand ds_of).
  Local Notation mc_expandM := (mc_expand so tgt0 teq0 t0 clock handler DS mc_rand ds_of).

  (* side condition (a): the handlers do not look at the clock *)
  Definition clock_independent : Prop :=
    forall p st inp t t' r, handler p st inp t r = handler p st inp t' r.
  (* side condition (b): the random stream is a function of the equality-relevant projection *)
  Definition ds_respects : Prop := forall a b : mcstate, veq a b = true -> ds_of a = ds_of b.

  (* the two entries answer every "is this timer name pending" query alike *)
  Definition PtAgree (a b : pentry) : Prop :=
    forall n, shasN n (pe_ptimers a) = shasN n (pe_ptimers b).
  Definition pe_rel (a b : pentry) : Prop := pe_eq a b /\ PtAgree a b.

  Lemma shas_sins_N' {V} k k' (v : V) l : shasN k (sinsN k' v l) = N.eqb k k' || shasN k l.
  Proof. unfold shas. rewrite (sget_sins _ CmpSpec_N), is_eq_ncmp. destruct (N.eqb k k'); reflexivity. Qed.
  Lemma shas_srem_N' {V} k k' (l : list (N * V)) : shasN k (sremN k' l) = negb (N.eqb k k') && shasN k l.
  Proof. unfold shas. rewrite (sget_srem _ CmpSpec_N), is_eq_ncmp. destruct (N.eqb k k'); reflexivity. Qed.

  Lemma PtAgree_sins a b n v pa pb :
    PtAgree a b -> pe_ptimers pa = sinsN n v (pe_ptimers a) -> pe_ptimers pb = sinsN n v (pe_ptimers b) -> PtAgree pa pb.
  Proof. intros H Ha Hb k. rewrite Ha, Hb, !shas_sins_N', (H k). reflexivity. Qed.
  Lemma PtAgree_srem a b n pa pb :
    PtAgree a b -> pe_ptimers pa = sremN n (pe_ptimers a) -> pe_ptimers pb = sremN n (pe_ptimers b) -> PtAgree pa pb.
  Proof. intros H Ha Hb k. rewrite Ha, Hb, !shas_srem_N', (H k). reflexivity. Qed.
  Lemma PtAgree_same a b pa pb :
    PtAgree a b -> pe_ptimers pa = pe_ptimers a -> pe_ptimers pb = pe_ptimers b -> PtAgree pa pb.
  Proof. intros H Ha Hb k. rewrite Ha, Hb. apply H. Qed.

  (* one action: same events, related entries; the time stamps (event log only) may differ *)
  Lemma node_action_rel proc t t' (p q : pentry) a :
    pe_rel p q ->
    pe_rel (fst (fst (node_action proc t p a))) (fst (fst (node_action proc t' q a))) /\
    snd (fst (node_action proc t p a)) = snd (fst (node_action proc t' q a)).
  Proof.
    intros [[Hs Ho] Hp].
    destruct a as [m dst|m|n d once|n]; cbn [node_action]; try rewrite <- (Hp n);
      try destruct (negb once || negb (shasN n (pe_ptimers p)));
      try destruct (shasN n (pe_ptimers p)); cbn [fst snd];
      (split; [split; [split|]|]); cbn [pe_with pe_state pe_outbox]; auto; try congruence;
      solve [ apply (PtAgree_same p q); [exact Hp|reflexivity|reflexivity]
            | eapply (PtAgree_sins p q); [exact Hp|reflexivity|reflexivity]
            | eapply (PtAgree_srem p q); [exact Hp|reflexivity|reflexivity] ].
  Qed.

  Lemma node_actions_cons proc t (p : pentry) a r :
    node_actions proc t p (a :: r) =
    (fst (fst (node_actions proc t (fst (fst (node_action proc t p a))) r)),
     snd (fst (node_action proc t p a)) ++ snd (fst (node_actions proc t (fst (fst (node_action proc t p a))) r)),
     snd (node_action proc t p a) ++ snd (node_actions proc t (fst (fst (node_action proc t p a))) r)).
  Proof.
    cbn [node_actions]. destruct (node_action proc t p a) as [[p1 e1] l1]. cbn [fst snd].
    destruct (node_actions proc t p1 r) as [[p2 e2] l2]. reflexivity.
  Qed.

  Lemma node_actions_rel proc t t' acts : forall (p q : pentry),
    pe_rel p q ->
    pe_rel (fst (fst (node_actions proc t p acts))) (fst (fst (node_actions proc t' q acts))) /\
    snd (fst (node_actions proc t p acts)) = snd (fst (node_actions proc t' q acts)).
  Proof.
    induction acts as [|a r IH]; intros p q H.
    - cbn [node_actions fst snd]. auto.
    - rewrite !node_actions_cons. cbn [fst snd].
      destruct (node_action_rel proc t t' p q a H) as [H1 H2].
      destruct (IH _ _ H1) as [H3 H4]. split; auto. rewrite H2, H4. reflexivity.
  Qed.

  (* node_handle in projection form *)
  Definition pre_entry (proc : N) (k : hkind) (p : pentry) : pentry :=
    match k with
    | HMsg m from =>
      pe_with p (pe_state p) (pe_evlog p ++ [(t0, PMessageReceived m from proc)]) (pe_outbox p) (pe_ptimers p)
              (pe_sent p) (pe_recv p + 1)
    | HTimer name =>
      pe_with p (pe_state p) (pe_evlog p) (pe_outbox p) (sremN name (pe_ptimers p)) (pe_sent p) (pe_recv p)
    | HLocal _ => p
    end.
  Definition hk_input (k : hkind) : input :=
    match k with HMsg m from => InMsg m from | HTimer name => InTimer name | HLocal m => InLocal m end.
  Definition hk_atime (k : hkind) (depth : N) : T := match k with HLocal _ => clock depth t0 | _ => t0 end.
  (* the entry the handler's actions are applied to, and the actions *)
  Definition run_entry (proc : N) (k : hkind) (p : pentry) (time : T) (ds : DS) : pentry :=
    let p1 := pre_entry proc k p in
    pe_with p1 (fst (handler proc (pe_state p1) (hk_input k) time (mc_rand ds)))
            (pe_evlog p1) (pe_outbox p1) (pe_ptimers p1) (pe_sent p1) (pe_recv p1).
  Definition run_acts (proc : N) (k : hkind) (p : pentry) (time : T) (ds : DS) : list (action T) :=
    snd (handler proc (pe_state (pre_entry proc k p)) (hk_input k) time (mc_rand ds)).

  Lemma node_handle_unfold (nd : mcnode) proc k depth ds :
    node_handleM nd proc k depth ds =
    if nd_crashed nd then Panic 41 else
    match sgetN proc (nd_procs nd) with
    | None => Panic 42
    | Some p =>
      let time := clock depth (nd_skew nd) in
      let x := node_actions proc (hk_atime k depth) (run_entry proc k p time ds) (run_acts proc k p time ds) in
      Ok (nd_with_procs nd (sinsN proc (fst (fst x)) (nd_procs nd)), snd (fst x), snd x)
    end.
  Proof.
    unfold node_handle. destruct (nd_crashed nd); [reflexivity|].
    destruct (sgetN proc (nd_procs nd)) as [p|]; [|reflexivity].
    unfold run_entry, run_acts, hk_atime.
    destruct k as [m from|name|m]; cbn [pre_entry hk_input]; cbv zeta;
      (destruct (handler proc _ _ _ _) as [st' acts]); cbn [fst snd];
      (destruct (node_actions proc _ _ acts) as [[p3 e3] l3]); reflexivity.
  Qed.

  Lemma pre_entry_rel proc k p q : pe_rel p q -> pe_rel (pre_entry proc k p) (pre_entry proc k q).
  Proof.
    intros [[Hs Ho] Hp]. destruct k as [m from|name|m]; cbn [pre_entry].
    - split; [split|]; cbn [pe_with pe_state pe_outbox]; auto.
    - split; [split|]; cbn [pe_with pe_state pe_outbox]; auto.
      eapply (PtAgree_srem p q); [exact Hp|reflexivity|reflexivity].
    - split; [split|]; auto.
  Qed.

  Hypothesis Hclock : clock_independent.

  Lemma run_rel proc k p q t t' ds :
    pe_rel p q ->
    pe_rel (run_entry proc k p t ds) (run_entry proc k q t' ds) /\ run_acts proc k p t ds = run_acts proc k q t' ds.
  Proof.
    intros H. destruct (pre_entry_rel proc k p q H) as [[Hs Ho] Hp]. unfold run_entry, run_acts. cbv zeta.
    rewrite <- Hs. rewrite (Hclock proc _ _ t t'). split; auto.
    split; [split|]; cbn [pe_with pe_state pe_outbox]; auto.
  Qed.

  Definition nd_eq (a b : mcnode) : Prop := nd_crashed a = nd_crashed b /\ keyrel pe_eq (nd_procs a) (nd_procs b).
  (* PtAgree for the processes of a node that is not crashed *)
  Definition nd_agree (a b : mcnode) : Prop :=
    nd_crashed a = false -> forall p e1 e2, sgetN p (nd_procs a) = Some e1 -> sgetN p (nd_procs b) = Some e2 -> PtAgree e1 e2.

  Lemma node_handle_eq (nd1 nd2 : mcnode) proc k d1 d2 ds nd1' evl logs1 :
    nd_eq nd1 nd2 -> nd_agree nd1 nd2 ->
    node_handleM nd1 proc k d1 ds = Ok (nd1', evl, logs1) ->
    exists nd2' logs2, node_handleM nd2 proc k d2 ds = Ok (nd2', evl, logs2) /\ nd_eq nd1' nd2'.
  Proof.
    intros [Hc Hk] Ha H. rewrite node_handle_unfold in *. rewrite <- Hc.
    destruct (nd_crashed nd1) eqn:Ec; [discriminate|].
    destruct (sgetN proc (nd_procs nd1)) as [p|] eqn:Ep; [|discriminate].
    destruct (keyrel_sget _ _ _ _ _ Hk Ep) as (q & Eq & Hpq). rewrite Eq.
    assert (Hrel : pe_rel p q) by (split; [exact Hpq|eapply Ha; eauto]).
    cbv zeta in *.
    destruct (run_rel proc k p q (clock d1 (nd_skew nd1)) (clock d2 (nd_skew nd2)) ds Hrel) as [Hr Hacts].
    rewrite <- Hacts.
    destruct (node_actions_rel proc (hk_atime k d1) (hk_atime k d2) (run_acts proc k p (clock d1 (nd_skew nd1)) ds) _ _ Hr)
      as [[Hr3 _] He].
    binv H. rewrite He. eexists. eexists. split; [reflexivity|].
    unfold nd_eq, nd_with_procs. cbn [nd_crashed nd_procs]. split; [congruence|].
    apply keyrel_sins2; auto.
  Qed.

  (* add_events only reads the network and the store *)
  Fixpoint add_ev_st (net : mcnet) (st : store T) (evl : list nevent) : result (store T) :=
    match evl with
    | [] => Ok st
    | e :: r =>
      do st1 <-
        match e with
        | NEMsg m src dst =>
          do x <- net_send tgt0 teq0 net m src dst;
          match x with
          | SEvent ev => do (st', _) <- push tleb st ev; Ok st'
          | SDropped _ _ _ => Ok st
          end
        | NETimer p n d => do (st', _) <- push tleb st (ETimer p n d); Ok st'
        | NECancel p n => cancel_timer st p n
        end;
      add_ev_st net st1 r
    end.

  Lemma add_events_char evl : forall s : mcsys,
    match add_ev_st (s_net s) (s_events s) evl with
    | Ok st' => exists tr', add_eventsM s evl = Ok (sys_with s (s_nodes s) (s_net s) st' (s_depth s) tr')
    | Panic t => add_eventsM s evl = Panic t
    end.
  Proof.
    induction evl as [|e r IH]; intros s; cbn [add_ev_st add_events].
    - exists (s_trace s). destruct s; reflexivity.
    - destruct e as [m src dst|p n d|p n].
      + destruct (net_send tgt0 teq0 (s_net s) m src dst) as [[ev|m' src' dst']|t]; cbn [bind]; [| |reflexivity].
        * cbn [so_push concrete_ops]. destruct (push tleb (s_events s) ev) as [[st1 i1]|t]; cbn [bind]; [|reflexivity].
          specialize (IH (sys_with s (s_nodes s) (s_net s) st1 (s_depth s) (s_trace s))).
          cbn [s_net s_events s_nodes s_depth s_trace sys_with] in IH. exact IH.
        * specialize (IH (sys_with s (s_nodes s) (s_net s) (s_events s) (s_depth s)
                                   (s_trace s ++ [LMcMessageDropped m' src' dst']))).
          cbn [s_net s_events s_nodes s_depth s_trace sys_with] in IH. exact IH.
      + cbn [so_push concrete_ops]. destruct (push tleb (s_events s) (ETimer p n d)) as [[st1 i1]|t]; cbn [bind]; [|reflexivity].
        specialize (IH (sys_with s (s_nodes s) (s_net s) st1 (s_depth s) (s_trace s))).
        cbn [s_net s_events s_nodes s_depth s_trace sys_with] in IH. exact IH.
      + cbn [so_cancel_timer concrete_ops]. destruct (cancel_timer (s_events s) p n) as [st1|t]; cbn [bind]; [|reflexivity].
        specialize (IH (sys_with s (s_nodes s) (s_net s) st1 (s_depth s) (s_trace s))).
        cbn [s_net s_events s_nodes s_depth s_trace sys_with] in IH. exact IH.
  Qed.


  (* systems related on what the equality sees (plus the network, which McState::eq ignores) *)
  Definition sys_eq (s1 s2 : mcsys) : Prop :=
    s_events s1 = s_events s2 /\ s_net s1 = s_net s2 /\ keyrel nd_eq (s_nodes s1) (s_nodes s2).
  Definition sys_agree (s1 s2 : mcsys) : Prop :=
    forall nn nd1 nd2, sgetN nn (s_nodes s1) = Some nd1 -> sgetN nn (s_nodes s2) = Some nd2 -> nd_agree nd1 nd2.

  Lemma sys_eq_st_eq s1 s2 : sys_eq s1 s2 -> st_eq (get_state s1) (get_state s2).
  Proof.
    intros (Hev & Hnet & Hn). split; [exact Hev|]. unfold get_state. cbn [st_nodes].
    eapply keyrel_map; [|exact Hn]. intros a b H. exact H.
  Qed.

  Lemma st_eq_sys_eq s1 s2 : st_eq (get_state s1) (get_state s2) -> s_net s1 = s_net s2 -> sys_eq s1 s2.
  Proof.
    intros [Hev Hn] Hnet. split; [exact Hev|]. split; [exact Hnet|].
    unfold get_state in Hn. cbn [st_nodes] in Hn.
    eapply keyrel_unmap; [|exact Hn]. intros a b H. exact H.
  Qed.

  Lemma sys_eq_veq s1 s2 : sys_eq s1 s2 -> veq (get_state s1) (get_state s2) = true.
  Proof. intros H. apply mcstate_eqb_spec, sys_eq_st_eq, H. Qed.

  Hypothesis Hds : ds_respects.

  Lemma deliver_eq s1 s2 proc k s1' :
    sys_eq s1 s2 -> sys_agree s1 s2 -> deliverM s1 proc k = Ok s1' ->
    exists s2', deliverM s2 proc k = Ok s2' /\ sys_eq s1' s2'.
  Proof.
    intros He Hag H. pose proof (Hds _ _ (sys_eq_veq _ _ He)) as Hd.
    destruct He as (Hev & Hnet & Hn).
    unfold deliver in *. rewrite <- Hd, <- Hnet, <- Hev.
    destruct (sgetN proc (n_loc (s_net s1))) as [nname|]; [|discriminate].
    destruct (sgetN nname (s_nodes s1)) as [nd1|] eqn:E1; [|discriminate].
    destruct (keyrel_sget _ _ _ _ _ Hn E1) as (nd2 & E2 & Hnd). rewrite E2.
    binv H. destruct a as [[nd1' evl] logs1].
    destruct (node_handle_eq nd1 nd2 proc k (s_depth s1) (s_depth s2) _ nd1' evl logs1 Hnd (Hag _ _ _ E1 E2) E)
      as (nd2' & logs2 & H2 & Hnd').
    rewrite H2. cbn [bind].
    pose proof (add_events_char evl (sys_with s1 (sinsN nname nd1' (s_nodes s1)) (s_net s1) (s_events s1) (s_depth s1)
                                              (s_trace s1 ++ logs1))) as C1.
    pose proof (add_events_char evl (sys_with s2 (sinsN nname nd2' (s_nodes s2)) (s_net s1) (s_events s1) (s_depth s2)
                                              (s_trace s2 ++ logs2))) as C2.
    cbn [s_net s_events s_nodes s_depth sys_with] in C1, C2.
    destruct (add_ev_st (s_net s1) (s_events s1) evl) as [st'|t].
    - destruct C1 as [tr1 C1]. destruct C2 as [tr2 C2]. rewrite C1 in H. binv H. rewrite C2.
      eexists. split; [reflexivity|].
      unfold sys_eq. cbn [s_net s_events s_nodes sys_with]. split; [|split]; auto.
      apply keyrel_sins2; auto.
    - rewrite C1 in H. discriminate.
  Qed.

  Lemma apply_event_eq s1 s2 a s1' :
    sys_eq s1 s2 -> sys_agree s1 s2 -> apply_eventM s1 a = Ok s1' ->
    exists s2', apply_eventM s2 a = Ok s2' /\ sys_eq s1' s2'.
  Proof.
    intros He Ha H. unfold apply_event in *. cbv zeta in *.
    assert (He' : sys_eq (sys_with s1 (s_nodes s1) (s_net s1) (s_events s1) (s_depth s1 + 1) (s_trace s1 ++ [applied_log a]))
                         (sys_with s2 (s_nodes s2) (s_net s2) (s_events s2) (s_depth s2 + 1) (s_trace s2 ++ [applied_log a]))).
    { destruct He as (H1 & H2 & H3). split; [|split]; auto. }
    destruct a as [[m src dst o|p n d]|m src dst|m src dst|m cm src dst].
    - eapply deliver_eq; eauto.
    - eapply deliver_eq; eauto.
    - binv H. eexists. split; [reflexivity|exact He'].
    - binv H. eexists. split; [reflexivity|exact He'].
    - binv H. eexists. split; [reflexivity|exact He'].
  Qed.

  Lemma with_events_eq s1 s2 st :
    sys_eq s1 s2 -> sys_agree s1 s2 ->
    sys_eq (with_events s1 st) (with_events s2 st) /\ sys_agree (with_events s1 st) (with_events s2 st).
  Proof. intros (H1 & H2 & H3) Ha. split; [split; [|split]; auto|exact Ha]. Qed.

  Lemma take_choice_sys_eq s1 s2 c s1' :
    sys_eq s1 s2 -> sys_agree s1 s2 -> take_choiceM s1 c = Ok s1' ->
    exists s2', take_choiceM s2 c = Ok s2' /\ sys_eq s1' s2'.
  Proof.
    intros He Ha H. pose proof (fun st => with_events_eq s1 s2 st He Ha) as W.
    destruct He as (Hev & Hnet & Hn).
    destruct c as [i|i|i|i]; cbn [take_choice so_pop so_push so_push_fixed concrete_ops] in *; rewrite <- Hev;
      binv H; destruct a as [st e]; cbn [bind].
    - destruct (W st) as [W1 W2]. eapply apply_event_eq; eauto.
    - destruct e as [m src dst o|p n d]; [|discriminate].
      destruct (W st) as [W1 W2]. eapply apply_event_eq; eauto.
    - destruct e as [m src dst o|p n d]; [|discriminate]. binv H.
      destruct (W a) as [W1 W2]. eapply apply_event_eq; eauto.
    - destruct e as [m src dst [x|d k c]|p n d]; try discriminate.
      destruct (N.eqb k 0); [discriminate|]. binv H. cbn [bind]. binv H. destruct a0 as [st2 i2]. cbn [bind].
      destruct (W st2) as [W1 W2]. eapply apply_event_eq; eauto.
  Qed.

  (* side condition (d): pe_ptimers is determined by the store *)
  Definition PtDet (st : mcstate) : Prop :=
    forall nn ns p e, sgetN nn (st_nodes st) = Some ns -> ns_crashed ns = false -> sgetN p (ns_procs ns) = Some e ->
      forall n, shasN n (pe_ptimers e) = true <-> exists i d, In (i, ETimer p n d) (evs (st_events st)).

  (* on sorted maps (BTreeMap; wf_sys) the lookups are memberships: "every process of every non-crashed node" *)
  Lemma PtDet_In (st : mcstate) :
    ssortedN (st_nodes st) -> (forall nn ns, In (nn, ns) (st_nodes st) -> ssortedN (ns_procs ns)) ->
    (PtDet st <->
     forall nn ns p e, In (nn, ns) (st_nodes st) -> ns_crashed ns = false -> In (p, e) (ns_procs ns) ->
       forall n, shasN n (pe_ptimers e) = true <-> exists i d, In (i, ETimer p n d) (evs (st_events st))).
  Proof.
    intros Hs Hp. split.
    - intros H nn ns p e Hi Hc Hj. apply (H nn ns p e); auto.
      + apply (sget_in _ CmpSpec_N); auto.
      + apply (sget_in _ CmpSpec_N); eauto.
    - intros H nn ns p e Hi Hc Hj. apply (sget_some_in _ CmpSpec_N) in Hi. apply (sget_some_in _ CmpSpec_N) in Hj.
      apply (H nn ns p e); auto.
  Qed.

  Lemma sget_get_state (s : mcsys) nn :
    sgetN nn (st_nodes (get_state s)) = option_map node_get_state (sgetN nn (s_nodes s)).
  Proof. unfold get_state. cbn [st_nodes]. apply sget_map_snd. Qed.

  Lemma PtDet_agree s1 s2 : sys_eq s1 s2 -> PtDet (get_state s1) -> PtDet (get_state s2) -> sys_agree s1 s2.
  Proof.
    intros (Hev & Hnet & Hn) P1 P2 nn nd1 nd2 E1 E2 Hc p e1 e2 G1 G2 n.
    destruct (keyrel_sget _ _ _ _ _ Hn E1) as (nd2' & E2' & [Hcc _]).
    assert (nd2' = nd2) by congruence. subst nd2'.
    apply eq_true_iff_eq.
    rewrite (P1 nn (node_get_state nd1) p e1), (P2 nn (node_get_state nd2) p e2); auto.
    - unfold get_state. cbn [st_events]. rewrite Hev. reflexivity.
    - rewrite sget_get_state, E2. reflexivity.
    - cbn [node_get_state ns_crashed]. congruence.
    - rewrite sget_get_state, E1. reflexivity.
  Qed.

  Theorem take_choice_eq s1 s2 c s1' :
    wf_sys s1 -> wf_sys s2 -> same_frame s1 s2 -> s_net s1 = s_net s2 ->
    veq (get_state s1) (get_state s2) = true -> PtDet (get_state s1) -> PtDet (get_state s2) ->
    take_choiceM s1 c = Ok s1' ->
    exists s2', take_choiceM s2 c = Ok s2' /\ veq (get_state s1') (get_state s2') = true /\
                s_net s1' = s_net s2' /\ same_frame s1' s2'.
  Proof.
    intros W1 W2 Hf Hnet Heq P1 P2 H.
    apply mcstate_eqb_spec in Heq. pose proof (st_eq_sys_eq _ _ Heq Hnet) as He.
    destruct (take_choice_sys_eq s1 s2 c s1' He (PtDet_agree _ _ He P1 P2) H) as (s2' & H2 & He').
    exists s2'. split; [exact H2|]. split; [apply sys_eq_veq; exact He'|]. split; [apply He'|].
    destruct (take_choice_frame _ _ _ _ _ _ _ _ _ _ _ _ H W1) as [_ F1].
    destruct (take_choice_frame _ _ _ _ _ _ _ _ _ _ _ _ H2 W2) as [_ F2].
    eapply same_frame_trans; [apply same_frame_sym; exact F1|]. eapply same_frame_trans; [exact Hf|exact F2].
  Qed.

  (* ---------------------------------------------------------------------------------------- *)
  (* E3: the successor lists                                                                   *)
  (* ---------------------------------------------------------------------------------------- *)
  Lemma all_choices_eq (s1 s2 : mcsys) :
    s_events s1 = s_events s2 -> s_mf s1 = s_mf s2 -> all_choices so s1 = all_choices so s2.
  Proof.
    intros He Hm. unfold all_choices, available. rewrite He, Hm.
    destruct (so_offered so (s_events s2) (s_mf s2)) as [ids|t]; cbn [bind]; [|reflexivity].
    induction ids as [|i r IH]; [reflexivity|].
    rewrite IH. unfold alternatives. rewrite He. reflexivity.
  Qed.

  Lemma steps_of_eq cs : forall s1 s2 r1 l1,
    wf_sys s1 -> wf_sys s2 -> sys_eq s1 s2 -> sys_agree s1 s2 ->
    steps_ofM s1 cs = Ok (r1, l1) ->
    exists l2, steps_ofM s2 cs = Ok (s2, l2) /\ Forall2 (fun x y => veq x y = true) l1 l2.
  Proof.
    induction cs as [|c r IH]; intros s1 s2 r1 l1 W1 W2 He Ha H; cbn [steps_of] in *.
    - binv H. exists []. split; [reflexivity|constructor].
    - binv H. destruct a as [s1a st]. binv H. destruct a as [s1b sts]. binv H.
      pose proof (search_step_restores _ _ _ _ _ _ _ _ _ _ _ _ _ W1 E) as Hr. subst s1a.
      destruct (search_step_state _ _ _ _ _ _ _ _ _ _ _ _ _ E) as (s1' & Ht & ->).
      destruct (take_choice_sys_eq s1 s2 c s1' He Ha Ht) as (s2' & Ht2 & He').
      destruct (take_choice_frame _ _ _ _ _ _ _ _ _ _ _ _ Ht2 W2) as [W2' F2].
      destruct (IH s1 s2 _ _ W1 W2 He Ha E0) as (l2 & Hl2 & HF).
      exists (get_state s2' :: l2). split.
      + unfold search_step. rewrite Ht2. cbn [bind]. rewrite (set_get_state s2 s2') by auto. cbn [bind].
        rewrite Hl2. reflexivity.
      + constructor; [apply sys_eq_veq; exact He'|exact HF].
  Qed.

  Theorem mc_expand_eq sys0 st1 st2 l1 :
    wf_sys sys0 -> state_fits sys0 st1 -> state_fits sys0 st2 ->
    st_net st1 = st_net st2 -> veq st1 st2 = true -> PtDet st1 -> PtDet st2 ->
    mc_expandM sys0 st1 = Ok l1 ->
    exists l2, mc_expandM sys0 st2 = Ok l2 /\ Forall2 (fun x y => veq x y = true) l1 l2.
  Proof.
    intros W0 F1 F2 Hnet Heq P1 P2 H.
    destruct (set_state_fits sys0 st1 W0 F1) as (s1 & S1 & G1 & Fr1 & W1).
    destruct (set_state_fits sys0 st2 W0 F2) as (s2 & S2 & G2 & Fr2 & W2).
    assert (Hn : s_net s1 = s_net s2).
    { rewrite <- G1, <- G2 in Hnet. exact Hnet. }
    assert (He : sys_eq s1 s2).
    { apply st_eq_sys_eq; auto. rewrite G1, G2. apply mcstate_eqb_spec. exact Heq. }
    assert (Ha : sys_agree s1 s2).
    { apply PtDet_agree; auto; [rewrite G1|rewrite G2]; auto. }
    clear G1 G2 P1 P2 Heq Hnet F1 F2.
    unfold mc_expand in *. rewrite S1 in H. rewrite S2. cbn [bind] in *.
    binv H. destruct a as [r1 l]. binv H.
    unfold expand_sys in *. binv E.
    assert (Hm : s_mf s1 = s_mf s2).
    { apply same_frame_mf in Fr1. apply same_frame_mf in Fr2. congruence. }
    rewrite <- (all_choices_eq s1 s2 (proj1 He) Hm), E0. cbn [bind].
    destruct (steps_of_eq a s1 s2 r1 l1 W1 W2 He Ha E) as (l2 & Hl2 & HF).
    rewrite Hl2. cbn [bind]. exists l2. auto.
  Qed.

  (* the expand_compat hypothesis of Proofs/SearchCorrect.v, for the states the side conditions hold of *)
  Corollary mc_expand_compat sys0 st1 st2 l1 :
    wf_sys sys0 -> state_fits sys0 st1 -> state_fits sys0 st2 ->
    st_net st1 = st_net st2 -> veq st1 st2 = true -> PtDet st1 -> PtDet st2 ->
    mc_expandM sys0 st1 = Ok l1 ->
    exists l2, mc_expandM sys0 st2 = Ok l2 /\ (forall x, In x l1 -> exists y, In y l2 /\ veq x y = true).
  Proof.
    intros W0 F1 F2 Hnet Heq P1 P2 H.
    destruct (mc_expand_eq sys0 st1 st2 l1 W0 F1 F2 Hnet Heq P1 P2 H) as (l2 & H2 & HF).
    exists l2. split; [exact H2|]. clear H H2.
    induction HF as [|x y l l' Hxy _ IH]; intros z Hz; [contradiction|].
    destruct Hz as [<-|Hz].
    - exists y. split; [left; reflexivity|exact Hxy].
    - destruct (IH z Hz) as (y' & Hy & Hv). exists y'. split; [right; exact Hy|exact Hv].
  Qed.

  (* ---------------------------------------------------------------------------------------- *)
  (* E4: verdicts                                                                              *)
  (* ---------------------------------------------------------------------------------------- *)
  Notation preds := (@preds T (store T) PS).
  Definition state_based (pr : preds) : Prop :=
    (forall a b, veq a b = true -> pr_collect pr a = pr_collect pr b) /\
    (forall a b, veq a b = true -> pr_inv pr a = pr_inv pr b) /\
    (forall a b, veq a b = true -> pr_goal pr a = pr_goal pr b) /\
    (forall a b, veq a b = true -> pr_prune pr a = pr_prune pr b).

  Lemma veq_events a b : veq a b = true -> st_events a = st_events b.
  Proof. intros H. apply mcstate_eqb_spec in H. apply H. Qed.

  Theorem mc_no_events_compat a b : veq a b = true -> mc_no_events so a = mc_no_events so b.
  Proof. intros H. unfold mc_no_events. rewrite (veq_events _ _ H). reflexivity. Qed.

  Theorem mc_enabled_ok_compat (sys0 : mcsys) a b : veq a b = true -> mc_enabled_ok so sys0 a = mc_enabled_ok so sys0 b.
  Proof. intros H. unfold mc_enabled_ok. rewrite (veq_events _ _ H). reflexivity. Qed.

  Theorem verdict_compat (pr : preds) (sys0 : mcsys) a b :
    state_based pr -> veq a b = true ->
    pr_collect pr a = pr_collect pr b /\ pr_inv pr a = pr_inv pr b /\ pr_goal pr a = pr_goal pr b /\
    pr_prune pr a = pr_prune pr b /\
    mc_no_events so a = mc_no_events so b /\ mc_enabled_ok so sys0 a = mc_enabled_ok so sys0 b /\
    vk mcstate (mc_no_events so) (pr_inv pr) (pr_goal pr) (pr_prune pr) a =
    vk mcstate (mc_no_events so) (pr_inv pr) (pr_goal pr) (pr_prune pr) b.
  Proof.
    intros (Hc & Hi & Hg & Hp) H.
    split; [apply Hc; exact H|]. split; [apply Hi; exact H|]. split; [apply Hg; exact H|].
    split; [apply Hp; exact H|]. split; [apply mc_no_events_compat; exact H|].
    split; [apply mc_enabled_ok_compat; exact H|].
    unfold vk. rewrite (Hi _ _ H), (Hg _ _ H), (Hp _ _ H), (mc_no_events_compat _ _ H). reflexivity.
  Qed.


  (* ---------------------------------------------------------------------------------------- *)
  (* PtDet is preserved by steps that do not override a pending timer                          *)
  (* ---------------------------------------------------------------------------------------- *)
  Notation astore := (astore T).
  Notation pendl := (list (id * sevent T)).

  Local Ltac bdes H x E :=
    match type of H with
    | bind ?r _ = Ok _ => destruct r as [x|] eqn:E; cbn [bind] in H; [|discriminate H]
    end.

  (* a TimerFired event of process p for the name n is pending *)
  Definition HasT (st : store T) (p n : N) : Prop := exists i d, In (i, ETimer p n d) (evs st).
  (* the name map of the store points to every pending timer event (hence at most one per (process, name)) *)
  Definition TmapDet (st : store T) : Prop :=
    forall i p n d, In (i, ETimer p n d) (evs st) -> sget tkey_cmp (p, n) (tmap st) = Some i.
  Definition StoreOK (st : store T) : Prop := (exists a, R tleb st a) /\ TmapDet st.

  (* the same on the one-list specification *)
  Definition HasTL (L : pendl) (p n : N) : Prop := exists i d, In (i, ETimer p n d) L.
  Definition TmapDetA (a : astore) : Prop :=
    forall i p n d, In (i, ETimer p n d) (pend a) -> sget tkey_cmp (p, n) (amap a) = Some i.
  Definition PtOKA (a : astore) (proc : N) (pt : list (N * N)) : Prop :=
    forall n, shasN n pt = true <-> HasTL (pend a) proc n.

  Lemma evs_in st a i e : R tleb st a -> (In (i, e) (evs st) <-> In (i, e) (pend a)).
  Proof. intros HR. rewrite (R_evs _ _ _ HR), alive_alive'. apply alive'_in. apply (R_nodup _ _ _ HR). Qed.

  Lemma HasT_A st a p n : R tleb st a -> (HasT st p n <-> HasTL (pend a) p n).
  Proof.
    intros HR. unfold HasT, HasTL. split; intros (i & d & H); exists i, d; apply (evs_in _ _ _ _ HR); exact H.
  Qed.

  Lemma TmapDet_A st a : R tleb st a -> (TmapDet st <-> TmapDetA a).
  Proof.
    intros HR. unfold TmapDet, TmapDetA. rewrite (R_tmap _ _ _ HR). split; intros H i p n d Hi.
    - apply (H i p n d). apply (evs_in _ _ _ _ HR). exact Hi.
    - apply (H i p n d). apply (evs_in _ _ _ _ HR). exact Hi.
  Qed.

  (* the store operations, inverted *)
  Lemma pop_inv (st : store T) i st' e : pop st i = Ok (st', e) -> sgetN i (evs st) = Some e.
  Proof.
    unfold pop. destruct (sgetN i (evs st)) as [e0|]; [|discriminate].
    destruct e0 as [m src dst o|p n d]; intros H.
    - bdes H x E. destruct x as [s2 nxt]. destruct nxt; binv H; reflexivity.
    - bdes H x E. destruct x as [s2 unb]. binv H. reflexivity.
  Qed.

  Lemma pop_A st a i st' e : R tleb st a -> pop st i = Ok (st', e) ->
    In (i, e) (pend a) /\ R tleb st' {| pend := aremove i (pend a); amap := amap a; anext := anext a |}.
  Proof.
    intros HR H.
    assert (Hi : In (i, e) (pend a)).
    { apply (evs_in _ _ _ _ HR). apply (sget_some_in _ CmpSpec_N). eapply pop_inv; eauto. }
    split; [exact Hi|]. destruct (pop_R tleb st a i e HR Hi) as (s' & H1 & H2).
    rewrite H1 in H. inversion H; subst. exact H2.
  Qed.

  Lemma push_A st a e st' i : R tleb st a -> push tleb st e = Ok (st', i) ->
    i = anext a /\ R tleb st' (fst (astep a (OPush e))).
  Proof.
    intros HR H. destruct (push_R tleb st a e HR) as (s' & H1 & H2). rewrite H1 in H. inversion H; subst. auto.
  Qed.

  Lemma push_fixed_A st a e i st' : R tleb st a -> legal a (OPushFixed e i) = true ->
    push_fixed tleb st e i = Ok st' -> R tleb st' (fst (astep a (OPushFixed e i))).
  Proof.
    intros HR Hl H. destruct (push_fixed_step_R tleb st a e i HR Hl) as (s' & H1 & H2).
    rewrite H1 in H. inversion H; subst. auto.
  Qed.

  Lemma cancel_A st a p n st' : R tleb st a -> legal a (OCancelTimer p n) = true ->
    cancel_timer st p n = Ok st' -> R tleb st' (fst (astep a (OCancelTimer p n))).
  Proof.
    intros HR Hl H. destruct (cancel_timer_R tleb st a p n HR Hl) as (s' & H1 & H2).
    rewrite H1 in H. inversion H; subst. auto.
  Qed.

  (* pending timers after the list operations *)
  Lemma HasTL_snoc_msg (L : pendl) i m s d o q k : HasTL (L ++ [(i, EMsg m s d o)]) q k <-> HasTL L q k.
  Proof.
    unfold HasTL. split; intros (j & d' & H); exists j, d'.
    - apply in_app_iff in H. destruct H as [H|[H|[]]]; [exact H|discriminate H].
    - apply in_app_iff. left. exact H.
  Qed.

  Lemma HasTL_snoc_timer (L : pendl) i p n d q k :
    HasTL (L ++ [(i, ETimer p n d)]) q k <-> HasTL L q k \/ (q = p /\ k = n).
  Proof.
    unfold HasTL. split.
    - intros (j & d' & H). apply in_app_iff in H. destruct H as [H|[H|[]]].
      + left. exists j, d'. exact H.
      + right. inversion H. auto.
    - intros [(j & d' & H)|[-> ->]].
      + exists j, d'. apply in_app_iff. left. exact H.
      + exists i, d. apply in_app_iff. right. left. reflexivity.
  Qed.

  Lemma HasTL_aremove (a : astore) i ei q k :
    NoDup (ids (pend a)) -> TmapDetA a -> In (i, ei) (pend a) ->
    (HasTL (aremove i (pend a)) q k <-> HasTL (pend a) q k /\ forall d, ei <> ETimer q k d).
  Proof.
    intros Hn HT Hi. unfold HasTL. split.
    - intros (j & d' & H). apply in_aremove in H. cbn [fst] in H. destruct H as [H Hne]. split.
      + exists j, d'. exact H.
      + intros d ->. apply Hne. pose proof (HT _ _ _ _ H) as A. pose proof (HT _ _ _ _ Hi) as B. congruence.
    - intros [(j & d' & H) Hne]. exists j, d'. apply in_aremove. cbn [fst]. split; [exact H|].
      intros ->. apply (Hne d'). eapply nodup_inj; eauto.
  Qed.

  Lemma net_send_msg net m src dst ev :
    net_send tgt0 teq0 net m src dst = Ok (SEvent ev) -> exists m' s' d' o', ev = EMsg m' s' d' o'.
  Proof.
    unfold net_send. destruct (sgetN src (n_loc net)) as [sn|]; [|discriminate].
    destruct (sgetN dst (n_loc net)) as [dn|]; [|discriminate].
    destruct (N.eqb sn dn).
    - intros H. inversion H. eauto.
    - destruct (_ && _); intros H; inversion H. eauto.
  Qed.

  (* add_ev_st on the (at most one) event an action produces *)
  Lemma add_ev_st_nil net st st1 : add_ev_st net st [] = Ok st1 -> st1 = st.
  Proof. cbn [add_ev_st]. intros H. inversion H. reflexivity. Qed.

  Lemma add_ev_st_msg net st m src dst st1 :
    add_ev_st net st [NEMsg m src dst] = Ok st1 ->
    st1 = st \/ exists m' s' d' o' i, push tleb st (EMsg m' s' d' o') = Ok (st1, i).
  Proof.
    cbn [add_ev_st]. intros H. bdes H x E. binv H. bdes E y E1. destruct y as [ev|m' s' d'].
    - bdes E z E2. destruct z as [st' i]. binv E.
      destruct (net_send_msg _ _ _ _ _ E1) as (m' & s' & d' & o' & ->). right. eauto 10.
    - binv E. auto.
  Qed.

  Lemma add_ev_st_timer net st p n d st1 :
    add_ev_st net st [NETimer p n d] = Ok st1 -> exists i, push tleb st (ETimer p n d) = Ok (st1, i).
  Proof.
    cbn [add_ev_st]. intros H. bdes H x E. binv H. bdes E z E2. destruct z as [st' i]. binv E. eauto.
  Qed.

  Lemma add_ev_st_cancel net st p n st1 :
    add_ev_st net st [NECancel p n] = Ok st1 -> cancel_timer st p n = Ok st1.
  Proof. cbn [add_ev_st]. intros H. bdes H x E. binv H. reflexivity. Qed.

  Lemma add_ev_st_app net e1 : forall st e2,
    add_ev_st net st (e1 ++ e2) = (do st1 <- add_ev_st net st e1; add_ev_st net st1 e2).
  Proof.
    induction e1 as [|e r IH]; intros st e2; cbn [app add_ev_st bind]; [reflexivity|].
    destruct (match e with
              | NEMsg m src dst =>
                do x <- net_send tgt0 teq0 net m src dst;
                match x with
                | SEvent ev => do (st', _) <- push tleb st ev; Ok st'
                | SDropped _ _ _ => Ok st
                end
              | NETimer p n d => do (st', _) <- push tleb st (ETimer p n d); Ok st'
              | NECancel p n => cancel_timer st p n
              end) as [st1|t]; cbn [bind]; [apply IH|reflexivity].
  Qed.

  (* set_timer (override) on a name that is pending: the step the model is NOT claimed to handle (finding F10) *)
  Definition overrides (p : pentry) (a : action T) : bool :=
    match a with ATimerSet n _ false => shasN n (pe_ptimers p) | _ => false end.
  Fixpoint no_override_acts (proc : N) (t : T) (p : pentry) (acts : list (action T)) : bool :=
    match acts with
    | [] => true
    | a :: r => negb (overrides p a) && no_override_acts proc t (fst (fst (node_action proc t p a))) r
    end.

  Definition StepOut (a a1 : astore) (proc : N) (pt1 : list (N * N)) (st1 : store T) : Prop :=
    R tleb st1 a1 /\ TmapDetA a1 /\ PtOKA a1 proc pt1 /\
    (forall q n, q <> proc -> (HasTL (pend a1) q n <-> HasTL (pend a) q n)).

  Lemma StepOut_same a proc pt pt1 st :
    R tleb st a -> TmapDetA a -> PtOKA a proc pt -> (forall n, shasN n pt1 = shasN n pt) -> StepOut a a proc pt1 st.
  Proof.
    intros HR HT HP Hs. split; [exact HR|]. split; [exact HT|]. split.
    - intros n. rewrite Hs. apply HP.
    - intros q n _. reflexivity.
  Qed.

  Lemma action_step net proc t (p : pentry) act st a st1 :
    R tleb st a -> TmapDetA a -> PtOKA a proc (pe_ptimers p) -> overrides p act = false ->
    add_ev_st net st (snd (fst (node_action proc t p act))) = Ok st1 ->
    exists a1, StepOut a a1 proc (pe_ptimers (fst (fst (node_action proc t p act)))) st1.
  Proof.
    intros HR HT HP Hov H. destruct act as [m dst|m|n d once|n]; cbn [node_action] in *.
    - (* ASend *)
      cbn [fst snd pe_with pe_ptimers] in *. apply add_ev_st_msg in H.
      destruct H as [->|(m' & s' & d' & o' & i & H)].
      + exists a. apply (StepOut_same a proc (pe_ptimers p)); auto.
      + destruct (push_A _ _ _ _ _ HR H) as [-> HR1]. cbn [astep fst] in HR1.
        eexists. split; [exact HR1|]. split; [|split].
        * intros j p' n' d0 Hin. cbn [pend amap] in *. apply in_app_iff in Hin.
          destruct Hin as [Hin|[Hin|[]]]; [eapply HT; eauto|discriminate Hin].
        * intros k. cbn [pend]. rewrite HasTL_snoc_msg. apply HP.
        * intros q k _. cbn [pend]. apply HasTL_snoc_msg.
    - (* ALocal *)
      cbn [fst snd pe_with pe_ptimers] in *. apply add_ev_st_nil in H. subst st1.
      exists a. apply (StepOut_same a proc (pe_ptimers p)); auto.
    - (* ATimerSet *)
      destruct (negb once || negb (shasN n (pe_ptimers p))) eqn:Ec; cbn [fst snd pe_with pe_ptimers] in *.
      + assert (Hno : shasN n (pe_ptimers p) = false).
        { destruct once; cbn [overrides] in Hov; [|exact Hov]. cbn [negb orb] in Ec. apply negb_true_iff in Ec. exact Ec. }
        assert (HnoT : ~ HasTL (pend a) proc n).
        { intros Hh. apply HP in Hh. congruence. }
        apply add_ev_st_timer in H. destruct H as [i H].
        destruct (push_A _ _ _ _ _ HR H) as [-> HR1]. cbn [astep fst] in HR1.
        eexists. split; [exact HR1|]. split; [|split].
        * intros j p' n' d0 Hin. cbn [pend amap] in *. apply in_app_iff in Hin.
          destruct Hin as [Hin|[Hin|[]]].
          -- rewrite (sget_sins_neq _ CmpSpec_tkey); [eapply HT; eauto|].
             intros Heq. inversion Heq; subst. apply HnoT. exists j, d0. exact Hin.
          -- inversion Hin; subst. apply (sget_sins_eq _ CmpSpec_tkey).
        * intros k. cbn [pend]. rewrite HasTL_snoc_timer, shas_sins_N', orb_true_iff, N.eqb_eq, (HP k).
          split; [intros [H0|H0]; [right; split; [reflexivity|exact H0]|left; exact H0]
                 |intros [H0|[_ H0]]; [right; exact H0|left; exact H0]].
        * intros q k Hq. cbn [pend]. rewrite HasTL_snoc_timer.
          split; [intros [H0|[H0 _]]; [exact H0|contradiction]|intros H0; left; exact H0].
      + apply add_ev_st_nil in H. subst st1. exists a. apply (StepOut_same a proc (pe_ptimers p)); auto.
    - (* ATimerCancel *)
      destruct (shasN n (pe_ptimers p)) eqn:Es; cbn [fst snd pe_with pe_ptimers] in *.
      + pose proof (proj1 (HP n) Es) as (i & d0 & Hi).
        pose proof (HT _ _ _ _ Hi) as Hm.
        assert (Hl : legal a (OCancelTimer proc n) = true).
        { cbn [legal]. rewrite Hm. apply pending_iff. apply in_ids. eauto. }
        apply add_ev_st_cancel in H.
        pose proof (cancel_A _ _ _ _ _ HR Hl H) as HR1. cbn [astep] in HR1. rewrite Hm in HR1. cbn [fst] in HR1.
        pose proof (R_nodup _ _ _ HR) as Hnd.
        eexists. split; [exact HR1|]. split; [|split].
        * intros j p' n' d1 Hin. cbn [pend amap] in *. apply in_aremove in Hin. cbn [fst] in Hin.
          destruct Hin as [Hin Hne]. pose proof (HT _ _ _ _ Hin) as Hj.
          rewrite (sget_srem_neq _ CmpSpec_tkey); [exact Hj|].
          intros Heq. inversion Heq; subst. congruence.
        * intros k. cbn [pend]. rewrite (HasTL_aremove a i _ proc k Hnd HT Hi), shas_srem_N', andb_true_iff, negb_true_iff,
            N.eqb_neq, (HP k).
          split.
          -- intros [Hk Hh]. split; [exact Hh|]. intros d Heq. inversion Heq. congruence.
          -- intros [Hh Hk]. split; [|exact Hh]. intros ->. apply (Hk d0). reflexivity.
        * intros q k Hq. cbn [pend]. rewrite (HasTL_aremove a i _ q k Hnd HT Hi). split; [intros [H0 _]; exact H0|].
          intros Hh. split; [exact Hh|]. intros d Heq. inversion Heq. congruence.
      + apply add_ev_st_nil in H. subst st1. exists a. apply (StepOut_same a proc (pe_ptimers p)); auto.
  Qed.


  Lemma actions_step net proc t acts : forall (p : pentry) st a st1,
    R tleb st a -> TmapDetA a -> PtOKA a proc (pe_ptimers p) -> no_override_acts proc t p acts = true ->
    add_ev_st net st (snd (fst (node_actions proc t p acts))) = Ok st1 ->
    exists a1, StepOut a a1 proc (pe_ptimers (fst (fst (node_actions proc t p acts)))) st1.
  Proof.
    induction acts as [|act r IH]; intros p st a st1 HR HT HP Hno H.
    - cbn [node_actions fst snd] in *. apply add_ev_st_nil in H. subst st1.
      exists a. apply (StepOut_same a proc (pe_ptimers p)); auto.
    - rewrite node_actions_cons in *. cbn [fst snd] in *. cbn [no_override_acts] in Hno.
      apply andb_true_iff in Hno. destruct Hno as [Hov Hno]. apply negb_true_iff in Hov.
      rewrite add_ev_st_app in H. bdes H st0 E.
      destruct (action_step net proc t p act st a st0 HR HT HP Hov E) as (a0 & HR0 & HT0 & HP0 & HO0).
      destruct (IH _ _ _ _ HR0 HT0 HP0 Hno H) as (a1 & HR1 & HT1 & HP1 & HO1).
      exists a1. split; [exact HR1|]. split; [exact HT1|]. split; [exact HP1|].
      intros q n Hq. rewrite (HO1 q n Hq). apply HO0. exact Hq.
  Qed.

  (* ---------------- the system layer ---------------- *)
  (* every process of every node is where the location map says (in particular: on one node only) *)
  Definition Placed (s : mcsys) : Prop :=
    forall nn nd p, sgetN nn (s_nodes s) = Some nd -> shasN p (nd_procs nd) = true ->
                    sgetN p (n_loc (s_net s)) = Some nn.

  (* PtDet against the specification store, optionally leaving out one process name *)
  Definition PtDetA (nodes : list (N * mcnode)) (a : astore) (skip : option N) : Prop :=
    forall nn nd p e, sgetN nn nodes = Some nd -> nd_crashed nd = false -> sgetN p (nd_procs nd) = Some e ->
      Some p <> skip -> PtOKA a p (pe_ptimers e).

  Lemma PtDet_A s a : R tleb (s_events s) a -> (PtDet (get_state s) <-> PtDetA (s_nodes s) a None).
  Proof.
    intros HR. split.
    - intros H nn nd p e Hs Hc Hg _ n. rewrite <- (HasT_A _ _ p n HR).
      apply (H nn (node_get_state nd) p e); auto.
      rewrite sget_get_state, Hs. reflexivity.
    - intros H nn ns p e Hs Hc Hg n. rewrite sget_get_state in Hs.
      destruct (sgetN nn (s_nodes s)) as [nd|] eqn:E; [|discriminate]. cbn [option_map] in Hs. inversion Hs; subst ns.
      cbn [node_get_state ns_crashed ns_procs] in Hc, Hg.
      assert (Hne : Some p <> None) by discriminate.
      rewrite (H nn nd p e E Hc Hg Hne n). symmetry. apply (HasT_A _ _ p n HR).
  Qed.

  Lemma sget_sins_N' {V} k k' (v : V) l : sgetN k (sinsN k' v l) = if N.eqb k k' then Some v else sgetN k l.
  Proof. rewrite (sget_sins _ CmpSpec_N), is_eq_ncmp. reflexivity. Qed.

  Lemma sget_shas {V} k (v : V) l : sgetN k l = Some v -> shasN k l = true.
  Proof. unfold shas. intros ->. reflexivity. Qed.

  Lemma deliver_ok s proc k s' : deliverM s proc k = Ok s' ->
    exists nname nd p st' tr',
      sgetN proc (n_loc (s_net s)) = Some nname /\ sgetN nname (s_nodes s) = Some nd /\ nd_crashed nd = false /\
      sgetN proc (nd_procs nd) = Some p /\
      let time := clock (s_depth s) (nd_skew nd) in
      let ds := ds_of (get_state s) in
      let x := node_actions proc (hk_atime k (s_depth s)) (run_entry proc k p time ds) (run_acts proc k p time ds) in
      add_ev_st (s_net s) (s_events s) (snd (fst x)) = Ok st' /\
      s' = sys_with s (sinsN nname (nd_with_procs nd (sinsN proc (fst (fst x)) (nd_procs nd))) (s_nodes s))
                    (s_net s) st' (s_depth s) tr'.
  Proof.
    intros H. unfold deliver in H.
    destruct (sgetN proc (n_loc (s_net s))) as [nname|] eqn:El; [|discriminate].
    destruct (sgetN nname (s_nodes s)) as [nd|] eqn:En; [|discriminate].
    rewrite node_handle_unfold in H.
    destruct (nd_crashed nd) eqn:Ec; [discriminate|].
    destruct (sgetN proc (nd_procs nd)) as [p|] eqn:Ep; [|discriminate].
    cbv zeta in H. cbn [bind] in H.
    match type of H with add_events _ _ _ ?S ?evl = _ => pose proof (add_events_char evl S) as C end.
    cbn [s_net s_events s_nodes s_depth sys_with] in C.
    match type of C with match ?X with _ => _ end => destruct X as [st'|t] eqn:Ea end.
    - destruct C as [tr' C]. rewrite C in H. binv H.
      exists nname, nd, p, st', tr'. cbv zeta. split; [reflexivity|]. repeat (split; [assumption|]). reflexivity.
    - rewrite C in H. discriminate.
  Qed.

  Lemma deliver_inv s a proc k s' :
    Placed s -> R tleb (s_events s) a -> TmapDetA a -> PtDetA (s_nodes s) a (Some proc) ->
    (forall nn nd p, sgetN proc (n_loc (s_net s)) = Some nn -> sgetN nn (s_nodes s) = Some nd -> nd_crashed nd = false ->
       sgetN proc (nd_procs nd) = Some p ->
       PtOKA a proc (pe_ptimers (pre_entry proc k p)) /\
       no_override_acts proc (hk_atime k (s_depth s))
         (run_entry proc k p (clock (s_depth s) (nd_skew nd)) (ds_of (get_state s)))
         (run_acts proc k p (clock (s_depth s) (nd_skew nd)) (ds_of (get_state s))) = true) ->
    deliverM s proc k = Ok s' ->
    Placed s' /\ s_net s' = s_net s /\
    exists a', R tleb (s_events s') a' /\ TmapDetA a' /\ PtDetA (s_nodes s') a' None.
  Proof.
    intros HPl HR HT HX Hp H.
    destruct (deliver_ok _ _ _ _ H) as (nname & nd & p & st' & tr' & El & En & Ec & Ep & Hrest).
    cbv zeta in Hrest. destruct Hrest as [Ea ->].
    destruct (Hp nname nd p El En Ec Ep) as [HP Hno].
    assert (HP' : PtOKA a proc (pe_ptimers (run_entry proc k p (clock (s_depth s) (nd_skew nd)) (ds_of (get_state s)))))
      by exact HP.
    destruct (actions_step _ _ _ _ _ _ _ _ HR HT HP' Hno Ea) as (a1 & HR1 & HT1 & HP1 & HO1).
    cbn [s_nodes s_net s_events sys_with].
    split; [|split; [reflexivity|]].
    - intros nn ndx p' Hs Hh. cbn [s_nodes s_net sys_with] in *. rewrite sget_sins_N' in Hs.
      destruct (N.eqb nn nname) eqn:Eq.
      + apply N.eqb_eq in Eq. subst nn. inversion Hs; subst ndx. cbn [nd_procs nd_with_procs] in Hh.
        rewrite shas_sins_N' in Hh. apply orb_true_iff in Hh. destruct Hh as [Hh|Hh].
        * apply N.eqb_eq in Hh. subst p'. exact El.
        * apply (HPl nname nd p'); auto.
      + apply (HPl nn ndx p'); auto.
    - exists a1. split; [exact HR1|]. split; [exact HT1|].
      intros nn ndx p' e Hs Hc Hg _. rewrite sget_sins_N' in Hs.
      assert (Hold : forall nn0 nd0, sgetN nn0 (s_nodes s) = Some nd0 -> nd_crashed nd0 = false ->
                                     sgetN p' (nd_procs nd0) = Some e -> p' <> proc -> PtOKA a1 p' (pe_ptimers e)).
      { intros nn0 nd0 H1 H2 H3 H4 n. rewrite (HO1 p' n H4). apply (HX nn0 nd0 p' e H1 H2 H3). congruence. }
      destruct (N.eqb nn nname) eqn:Eq.
      + apply N.eqb_eq in Eq. subst nn. inversion Hs; subst ndx. cbn [nd_procs nd_crashed nd_with_procs] in Hc, Hg.
        rewrite sget_sins_N' in Hg. destruct (N.eqb p' proc) eqn:Epp.
        * apply N.eqb_eq in Epp. subst p'. inversion Hg; subst e. exact HP1.
        * apply N.eqb_neq in Epp. apply (Hold nname nd); auto.
      + apply (Hold nn ndx); auto. intros ->.
        pose proof (HPl nn ndx proc Hs (sget_shas _ _ _ Hg)) as Hl. rewrite El in Hl. inversion Hl; subst.
        rewrite N.eqb_refl in Eq. discriminate.
  Qed.

  (* operations that neither add nor remove timer events *)
  Definition TSame (a a' : astore) : Prop :=
    amap a' = amap a /\ forall i p n d, In (i, ETimer p n d) (pend a') <-> In (i, ETimer p n d) (pend a).

  Lemma TSame_trans a b c : TSame a b -> TSame b c -> TSame a c.
  Proof.
    intros [H1 H2] [H3 H4]. split; [congruence|]. intros i p n d. rewrite H4. apply H2.
  Qed.

  Lemma TSame_TmapDetA a a' : TSame a a' -> TmapDetA a -> TmapDetA a'.
  Proof. intros [H1 H2] HT i p n d Hi. rewrite H1. apply (HT i p n d). apply H2. exact Hi. Qed.

  Lemma TSame_HasTL a a' q n : TSame a a' -> (HasTL (pend a') q n <-> HasTL (pend a) q n).
  Proof. intros [_ H2]. unfold HasTL. split; intros (i & d & H); exists i, d; apply H2; exact H. Qed.

  Lemma TSame_PtDetA nodes a a' : TSame a a' -> PtDetA nodes a None -> PtDetA nodes a' None.
  Proof.
    intros HS H nn nd p e Hs Hc Hg Hne n. rewrite (TSame_HasTL a a' p n HS). apply (H nn nd p e); auto.
  Qed.

  Lemma TSame_aremove_msg (a : astore) i m src dst o :
    NoDup (ids (pend a)) -> In (i, EMsg m src dst o) (pend a) ->
    TSame a {| pend := aremove i (pend a); amap := amap a; anext := anext a |}.
  Proof.
    intros Hn Hi. split; [reflexivity|]. intros j p n d. cbn [pend]. rewrite in_aremove. cbn [fst].
    split; [intros [H0 _]; exact H0|].
    intros H. split; [exact H|]. intros ->. pose proof (nodup_inj _ _ _ _ Hn Hi H) as Heq. discriminate Heq.
  Qed.

  Lemma TSame_snoc_msg (a : astore) i m src dst o nx :
    TSame a {| pend := pend a ++ [(i, EMsg m src dst o)]; amap := amap a; anext := nx |}.
  Proof.
    split; [reflexivity|]. intros j p n d. cbn [pend]. rewrite in_app_iff. split.
    - intros [H|[H|[]]]; [exact H|discriminate H].
    - auto.
  Qed.

  (* the invariant *)
  Definition StInv (s : mcsys) : Prop := Placed s /\ StoreOK (s_events s) /\ PtDet (get_state s).

  Lemma StInv_intro s a : Placed s -> R tleb (s_events s) a -> TmapDetA a -> PtDetA (s_nodes s) a None -> StInv s.
  Proof.
    intros HPl HR HT HD. split; [exact HPl|]. split.
    - split; [exists a; exact HR|]. apply (TmapDet_A _ _ HR). exact HT.
    - apply (PtDet_A _ _ HR). exact HD.
  Qed.

  Definition target (e : sevent T) : N * hkind :=
    match e with EMsg m src dst _ => (dst, HMsg m src) | ETimer p n _ => (p, HTimer n) end.

  (* side condition on a step: no set_timer (override) for a name of the running process that is still pending *)
  Definition no_override_step (s : mcsys) (c : choice) : Prop :=
    forall i e st' nn nd p,
      c = ChDeliver i -> pop (s_events s) i = Ok (st', e) ->
      sgetN (fst (target e)) (n_loc (s_net s)) = Some nn -> sgetN nn (s_nodes s) = Some nd -> nd_crashed nd = false ->
      sgetN (fst (target e)) (nd_procs nd) = Some p ->
      let proc := fst (target e) in
      let k := snd (target e) in
      let depth := s_depth s + 1 in
      let time := clock depth (nd_skew nd) in
      let ds := ds_of (get_state (sys_with s (s_nodes s) (s_net s) st' depth (s_trace s ++ [sevent_log e]))) in
      no_override_acts proc (hk_atime k depth) (run_entry proc k p time ds) (run_acts proc k p time ds) = true.

  Lemma legal_push_fixed_back (a : astore) i e e' :
    NoDup (ids (pend a)) -> Forall (fun p => fst p < anext a) (pend a) -> In (i, e) (pend a) -> is_msg e' = true ->
    legal {| pend := aremove i (pend a); amap := amap a; anext := anext a |} (OPushFixed e' i) = true.
  Proof.
    intros Hn Hlt Hi Hm. cbn [legal anext]. rewrite Hm. cbn [andb].
    apply andb_true_iff. split.
    - apply negb_true_iff. apply pending_false_iff. cbn [pend]. intros Hin. apply ids_aremove in Hin. destruct Hin as [_ Hne]. apply Hne. reflexivity.
    - apply N.ltb_lt. rewrite Forall_forall in Hlt. apply (Hlt (i, e) Hi).
  Qed.

  Theorem take_choice_inv s c s' :
    StInv s -> no_override_step s c -> take_choiceM s c = Ok s' -> StInv s' /\ s_net s' = s_net s.
  Proof.
    intros (HPl & [[a HR] HTc] & HPd) Hno H.
    pose proof (proj1 (TmapDet_A _ _ HR) HTc) as HT. pose proof (proj1 (PtDet_A _ _ HR) HPd) as HD.
    pose proof (R_nodup _ _ _ HR) as Hnd. pose proof (R_lt _ _ _ HR) as Hlt.
    destruct c as [i|i|i|i]; cbn [take_choice so_pop so_push so_push_fixed concrete_ops] in H;
      bdes H x E; destruct x as [st e]; destruct (pop_A _ _ _ _ _ HR E) as [Hi HRp].
    - (* deliver *)
      assert (HTp : TmapDetA {| pend := aremove i (pend a); amap := amap a; anext := anext a |}).
      { intros j p n d Hin. cbn [pend amap] in *. apply in_aremove in Hin. apply (HT j p n d), Hin. }
      assert (Hd : deliverM (sys_with (with_events s st) (s_nodes s) (s_net s) st (s_depth s + 1) (s_trace s ++ [sevent_log e]))
                            (fst (target e)) (snd (target e)) = Ok s').
      { destruct e; exact H. }
      set (S1 := sys_with (with_events s st) (s_nodes s) (s_net s) st (s_depth s + 1) (s_trace s ++ [sevent_log e])) in *.
      assert (HX : PtDetA (s_nodes S1) {| pend := aremove i (pend a); amap := amap a; anext := anext a |}
                          (Some (fst (target e)))).
      { (* the other processes *)
        intros nn nd p' e' Hs Hc Hg Hne n. cbn [pend]. rewrite (HasTL_aremove a i e p' n Hnd HT Hi).
        assert (Hne0 : Some p' <> None) by discriminate.
        rewrite (HD nn nd p' e' Hs Hc Hg Hne0 n). split; [|tauto].
        intros Hh. split; [exact Hh|]. intros d ->. apply Hne. reflexivity. }
      destruct (deliver_inv S1 _ (fst (target e)) (snd (target e)) s' HPl HRp HTp HX) as (HPl' & Hnet' & a' & HR' & HT' & HD').
      + (* the process that runs *)
        intros nn nd p El En Ec Ep. cbn [S1 s_nodes s_net s_depth sys_with with_events] in El, En. split.
        * intros n. cbn [pend]. rewrite (HasTL_aremove a i e (fst (target e)) n Hnd HT Hi).
          assert (Hne0 : Some (fst (target e)) <> None) by discriminate.
          pose proof (HD nn nd (fst (target e)) p En Ec Ep Hne0) as HA.
          destruct e as [m src dst o|p0 n0 d0]; cbn [target fst snd pre_entry pe_with pe_ptimers] in *.
          -- rewrite (HA n). split; [|tauto]. intros Hh. split; [exact Hh|]. intros d Heq. discriminate Heq.
          -- rewrite shas_srem_N', andb_true_iff, negb_true_iff, N.eqb_neq, (HA n). split.
             ++ intros [Hk Hh]. split; [exact Hh|]. intros d Heq. inversion Heq. congruence.
             ++ intros [Hh Hk]. split; [|exact Hh]. intros ->. apply (Hk d0). reflexivity.
        * exact (Hno i e st nn nd p eq_refl E El En Ec Ep).
      + exact Hd.
      + split; [|exact Hnet']. eapply StInv_intro; eauto.
    - (* drop *)
      destruct e as [m src dst o|p n d]; [|discriminate]. unfold apply_event in H. binv H.
      split; [|reflexivity].
      pose proof (TSame_aremove_msg a i m src dst o Hnd Hi) as HS.
      eapply StInv_intro; [exact HPl|exact HRp|exact (TSame_TmapDetA a _ HS HT)|exact (TSame_PtDetA _ a _ HS HD)].
    - (* corrupt *)
      destruct e as [m src dst o|p n d]; [|discriminate]. bdes H st2 E2. unfold apply_event in H. binv H.
      split; [|reflexivity].
      pose proof (TSame_aremove_msg a i m src dst o Hnd Hi) as HS.
      match type of E2 with push_fixed _ _ ?e' _ = _ =>
        pose proof (push_fixed_A _ _ e' i _ HRp (legal_push_fixed_back a i _ e' Hnd Hlt Hi eq_refl) E2) as HR2 end.
      cbn [astep fst pend amap anext] in HR2.
      match type of HR2 with R _ _ ?a2 => assert (HS2 : TSame a a2) end.
      { eapply TSame_trans; [exact HS|]. apply (TSame_snoc_msg {| pend := aremove i (pend a); amap := amap a; anext := anext a |}). }
      eapply StInv_intro; [exact HPl|exact HR2|exact (TSame_TmapDetA a _ HS2 HT)|exact (TSame_PtDetA _ a _ HS2 HD)].
    - (* duplicate *)
      destruct e as [m src dst [x|d k c]|p n d]; try discriminate.
      destruct (N.eqb k 0); [discriminate|]. bdes H st1 E1. bdes H y E2. destruct y as [st2 i2].
      unfold apply_event in H. binv H. split; [|reflexivity].
      pose proof (TSame_aremove_msg a i m src dst _ Hnd Hi) as HS.
      match type of E1 with push_fixed _ _ ?e' _ = _ =>
        pose proof (push_fixed_A _ _ e' i _ HRp (legal_push_fixed_back a i _ e' Hnd Hlt Hi eq_refl) E1) as HR1 end.
      cbn [astep fst pend amap anext] in HR1.
      destruct (push_A _ _ _ _ _ HR1 E2) as [_ HR2]. cbn [astep fst pend amap anext] in HR2.
      match type of HR2 with R _ _ ?a2 => assert (HS2 : TSame a a2) end.
      { match type of HR1 with R _ _ ?a1 => apply (TSame_trans a a1) end.
        - eapply TSame_trans; [exact HS|].
          apply (TSame_snoc_msg {| pend := aremove i (pend a); amap := amap a; anext := anext a |}).
        - match goal with |- TSame ?b _ => apply (TSame_snoc_msg b) end. }
      eapply StInv_intro; [exact HPl|exact HR2|exact (TSame_TmapDetA a _ HS2 HT)|exact (TSame_PtDetA _ a _ HS2 HD)].
  Qed.


  (* E2, complete: the successors are equal again and satisfy the invariant again *)
  Theorem take_choice_eq_inv s1 s2 c s1' :
    wf_sys s1 -> wf_sys s2 -> same_frame s1 s2 -> s_net s1 = s_net s2 ->
    veq (get_state s1) (get_state s2) = true -> StInv s1 -> StInv s2 ->
    no_override_step s1 c -> no_override_step s2 c ->
    take_choiceM s1 c = Ok s1' ->
    exists s2', take_choiceM s2 c = Ok s2' /\ veq (get_state s1') (get_state s2') = true /\
                s_net s1' = s_net s2' /\ same_frame s1' s2' /\ wf_sys s1' /\ wf_sys s2' /\ StInv s1' /\ StInv s2'.
  Proof.
    intros W1 W2 Hf Hnet Heq I1 I2 N1 N2 H.
    destruct (take_choice_eq s1 s2 c s1' W1 W2 Hf Hnet Heq (proj2 (proj2 I1)) (proj2 (proj2 I2)) H)
      as (s2' & H2 & Heq' & Hnet' & Hf').
    exists s2'. split; [exact H2|]. split; [exact Heq'|]. split; [exact Hnet'|]. split; [exact Hf'|].
    split; [apply (take_choice_frame _ _ _ _ _ _ _ _ _ _ _ _ H W1)|].
    split; [apply (take_choice_frame _ _ _ _ _ _ _ _ _ _ _ _ H2 W2)|].
    split; [apply (take_choice_inv _ _ _ I1 N1 H)|apply (take_choice_inv _ _ _ I2 N2 H2)].
  Qed.

  (* the side condition on the step needs to be checked on one side only *)
  Lemma no_override_acts_rel proc t t' acts : forall (p q : pentry),
    pe_rel p q -> no_override_acts proc t p acts = no_override_acts proc t' q acts.
  Proof.
    induction acts as [|a r IH]; intros p q H; cbn [no_override_acts]; [reflexivity|].
    destruct (node_action_rel proc t t' p q a H) as [H1 _]. rewrite (IH _ _ H1). f_equal. f_equal.
    destruct a as [m dst|m|n d once|n]; cbn [overrides]; try reflexivity.
    destruct once; [reflexivity|]. apply H.
  Qed.

  Lemma no_override_step_eq s1 s2 c :
    sys_eq s1 s2 -> sys_agree s1 s2 -> no_override_step s1 c -> no_override_step s2 c.
  Proof.
    intros He Ha H i e st' nn nd2 p2 Hc Hpop El En Ec Ep. cbv zeta.
    destruct He as (Hev & Hnet & Hn).
    rewrite <- Hev in Hpop. rewrite <- Hnet in El.
    destruct (keyrel_sget_r _ _ _ _ _ Hn En) as (nd1 & En1 & [Hcr Hk]).
    destruct (keyrel_sget_r _ _ _ _ _ Hk Ep) as (p1 & Ep1 & Hpe).
    assert (Ec1 : nd_crashed nd1 = false) by congruence.
    assert (Hrel : pe_rel p1 p2) by (split; [exact Hpe|eapply (Ha nn nd1 nd2); eauto]).
    pose proof (H i e st' nn nd1 p1 Hc Hpop El En1 Ec1 Ep1) as H1. cbv zeta in H1.
    assert (Hd : ds_of (get_state (sys_with s1 (s_nodes s1) (s_net s1) st' (s_depth s1 + 1) (s_trace s1 ++ [sevent_log e]))) =
                 ds_of (get_state (sys_with s2 (s_nodes s2) (s_net s2) st' (s_depth s2 + 1) (s_trace s2 ++ [sevent_log e])))).
    { apply Hds, sys_eq_veq. split; [reflexivity|]. split; [exact Hnet|exact Hn]. }
    rewrite <- Hd.
    destruct (run_rel (fst (target e)) (snd (target e)) p1 p2 (clock (s_depth s1 + 1) (nd_skew nd1))
                      (clock (s_depth s2 + 1) (nd_skew nd2))
                      (ds_of (get_state (sys_with s1 (s_nodes s1) (s_net s1) st' (s_depth s1 + 1) (s_trace s1 ++ [sevent_log e]))))
                      Hrel) as [Hr Hacts].
    rewrite <- Hacts.
    rewrite <- (no_override_acts_rel _ (hk_atime (snd (target e)) (s_depth s1 + 1)) _ _ _ _ Hr). exact H1.
  Qed.

  Corollary take_choice_eq_inv' s1 s2 c s1' :
    wf_sys s1 -> wf_sys s2 -> same_frame s1 s2 -> s_net s1 = s_net s2 ->
    veq (get_state s1) (get_state s2) = true -> StInv s1 -> StInv s2 ->
    no_override_step s1 c ->
    take_choiceM s1 c = Ok s1' ->
    exists s2', take_choiceM s2 c = Ok s2' /\ veq (get_state s1') (get_state s2') = true /\
                s_net s1' = s_net s2' /\ same_frame s1' s2' /\ wf_sys s1' /\ wf_sys s2' /\ StInv s1' /\ StInv s2'.
  Proof.
    intros W1 W2 Hf Hnet Heq I1 I2 N1 H.
    apply (take_choice_eq_inv s1 s2 c s1'); auto.
    apply mcstate_eqb_spec in Heq. pose proof (st_eq_sys_eq _ _ Heq Hnet) as He.
    apply (no_override_step_eq s1 s2 c He); auto.
    apply PtDet_agree; auto; [apply I1|apply I2].
  Qed.

  (* the invariant holds initially: empty store, no pending timer names *)
  Lemma StInv_init s :
    Placed s -> s_events s = empty ->
    (forall nn nd p e, sgetN nn (s_nodes s) = Some nd -> sgetN p (nd_procs nd) = Some e -> pe_ptimers e = []) ->
    StInv s.
  Proof.
    intros HPl He Hpt. apply (StInv_intro s aempty); auto.
    - rewrite He. apply R_empty.
    - intros i p n d [].
    - intros nn nd p e Hs Hc Hg _ n. rewrite (Hpt nn nd p e Hs Hg). cbn. split; [discriminate|].
      intros (i & d & []).
  Qed.


  (* ---------------- the invariant on states, and along mc_expand ---------------- *)
  Definition PlacedSt (st : mcstate) : Prop :=
    forall nn ns p, sgetN nn (st_nodes st) = Some ns -> shasN p (ns_procs ns) = true ->
                    sgetN p (n_loc (st_net st)) = Some nn.
  Definition StInvSt (st : mcstate) : Prop := PlacedSt st /\ StoreOK (st_events st) /\ PtDet st.

  Lemma StInv_state s : StInv s <-> StInvSt (get_state s).
  Proof.
    unfold StInv, StInvSt. cbn [get_state st_events].
    assert (HP : Placed s <-> PlacedSt (get_state s)).
    { split.
      - intros H nn ns p Hs Hh. rewrite sget_get_state in Hs.
        destruct (sgetN nn (s_nodes s)) as [nd|] eqn:E; [|discriminate]. cbn [option_map] in Hs. inversion Hs; subst ns.
        apply (H nn nd p); auto.
      - intros H nn nd p Hs Hh. apply (H nn (node_get_state nd) p); [|exact Hh].
        rewrite sget_get_state, Hs. reflexivity. }
    rewrite HP. reflexivity.
  Qed.

  Lemma steps_of_inv cs : forall s r l,
    wf_sys s -> StInv s -> (forall c, In c cs -> no_override_step s c) -> steps_ofM s cs = Ok (r, l) ->
    Forall (fun x => StInvSt x /\ st_net x = s_net s /\ state_fits s x) l.
  Proof.
    induction cs as [|c cs IH]; intros s r l W I Hno H; cbn [steps_of] in H.
    - binv H. constructor.
    - bdes H x E. destruct x as [s1a st]. bdes H y E0. destruct y as [s1b sts]. binv H.
      pose proof (search_step_restores _ _ _ _ _ _ _ _ _ _ _ _ _ W E) as Hr. subst s1a.
      destruct (search_step_state _ _ _ _ _ _ _ _ _ _ _ _ _ E) as (s1' & Ht & ->).
      destruct (take_choice_inv _ _ _ I (Hno c (or_introl eq_refl)) Ht) as [I' Hnet'].
      destruct (take_choice_frame _ _ _ _ _ _ _ _ _ _ _ _ Ht W) as [W' F'].
      constructor.
      + split; [apply StInv_state; exact I'|]. split; [exact Hnet'|].
        apply frame_state_fits. apply frame_nomf_sym. apply same_frame_nomf. exact F'.
      + apply (IH s r sts W I); auto. intros c' Hc'. apply Hno. right. exact Hc'.
  Qed.

  (* every successor of a state satisfying the invariant satisfies it again (and fits, and has the same network),
     provided no step out of the state overrides a pending timer *)
  Theorem mc_expand_inv sys0 st l :
    wf_sys sys0 -> state_fits sys0 st -> StInvSt st ->
    (forall s1 c, set_state sys0 st = Ok s1 -> no_override_step s1 c) ->
    mc_expandM sys0 st = Ok l ->
    Forall (fun x => StInvSt x /\ st_net x = st_net st /\ state_fits sys0 x) l.
  Proof.
    intros W0 F0 I Hno H.
    destruct (set_state_fits sys0 st W0 F0) as (s1 & S1 & G1 & Fr1 & W1).
    assert (I1 : StInv s1) by (apply StInv_state; rewrite G1; exact I).
    assert (Hn : s_net s1 = st_net st) by (rewrite <- G1; reflexivity).
    unfold mc_expand in H. rewrite S1 in H. cbn [bind] in H. bdes H x E. destruct x as [r1 l1]. binv H.
    unfold expand_sys in E. bdes E cs Ec.
    pose proof (steps_of_inv cs s1 r1 l W1 I1 (fun c _ => Hno s1 c S1) E) as HF.
    eapply Forall_impl; [|exact HF]. cbn beta. intros x (A & B & C). split; [exact A|]. split; [congruence|].
    eapply state_fits_frame; [|exact C]. apply frame_nomf_sym. apply same_frame_nomf. exact Fr1.
  Qed.

End EqBisim.


(* ------------------------------------------------------------------------------------------ *)
(* E5: refutation witnesses -- the side conditions are necessary                               *)
(* ------------------------------------------------------------------------------------------ *)
Module Witness.
  (* T := N, the clock is the depth, the process state is the list of the times the handler was given *)
  Definition PSw := list N.
  Definition clk (depth skew : N) : N := depth.
  Definition so_w := concrete_ops N.leb (@store_eqb N).
  Definition veq_w := mcstate_eqb so_w N.eqb (list_eqb N.eqb) (PS := PSw).
  Definition ds_w (st : @mcstate N (store N) PSw) : unit := tt.
  Definition rnd_w (_ : unit) (_ : nat) : N := 0.
  Definition net_w : @mcnet N :=
    {| n_corrupt := 0; n_dupl := 0; n_drop := 0; n_drop_in := []; n_drop_out := []; n_links := [];
       n_loc := [(1, 0)]; n_maxdelay := 0 |}.
  Definition pe_w (pt : list (N * N)) : pentry N PSw :=
    {| pe_state := []; pe_evlog := []; pe_outbox := []; pe_ptimers := pt; pe_sent := 0; pe_recv := 0 |}.
  Definition nd_w (pt : list (N * N)) : @mcnode N PSw :=
    {| nd_procs := [(1, pe_w pt)]; nd_skew := 0; nd_crashed := false |}.
  Definition msg_w : msg := {| tip := [77]; data := [] |}.
  Definition pushes (l : list (sevent N)) : store N :=
    fold_left (fun st e => match push N.leb st e with Ok (st', _) => st' | Panic _ => st end) l empty.
  Definition sys_w (st : store N) (pt : list (N * N)) (depth : N) : @mcsys N (store N) PSw :=
    {| s_nodes := [(0, nd_w pt)]; s_net := net_w; s_events := st; s_depth := depth; s_mf := false; s_trace := [] |}.

  (* (a) is necessary (finding F14): a handler that records the time it is given *)
  Definition h_clock (p : N) (st : PSw) (inp : input) (t : N) (r : nat -> N) : PSw * list (action N) := (t :: st, []).
  Definition step_clock := take_choice so_w (N.ltb 0) (N.eqb 0) 0 clk h_clock unit rnd_w ds_w.
  Definition st_msg : store N := pushes [EMsg msg_w 1 1 (NoFailures 0)].
  Definition sA := sys_w st_msg [] 0.
  Definition sB := sys_w st_msg [] 1.

  (* two equal states at depths 0 and 1; the message is delivered in both; the successors are different *)
  Example clock_dependence_refutes_bisim :
    veq_w (get_state sA) (get_state sB) = true /\ s_net sA = s_net sB /\
    exists a' b', step_clock sA (ChDeliver 0) = Ok a' /\ step_clock sB (ChDeliver 0) = Ok b' /\
                  veq_w (get_state a') (get_state b') = false.
  Proof.
    split; [vm_compute; reflexivity|]. split; [reflexivity|].
    destruct (step_clock sA (ChDeliver 0)) as [a'|] eqn:EA; [|vm_compute in EA; discriminate EA].
    destruct (step_clock sB (ChDeliver 0)) as [b'|] eqn:EB; [|vm_compute in EB; discriminate EB].
    exists a', b'. split; [reflexivity|]. split; [reflexivity|].
    vm_compute in EA. vm_compute in EB. inversion EA; subst a'. inversion EB; subst b'. vm_compute. reflexivity.
  Qed.

  (* ... and the handler is indeed the only hypothesis of E2 that fails here *)
  Example witness_handler_not_clock_independent : ~ clock_independent h_clock.
  Proof. intros H. specialize (H 0 [] (InTimer 0) 0 1 (fun _ => 0)). discriminate H. Qed.
  Example witness_ds_respects : ds_respects N.leb N.eqb (list_eqb N.eqb) unit ds_w.
  Proof. intros a b _. reflexivity. Qed.

  (* (d) is necessary: equal states (same store: one pending timer 7 of process 1) that differ in pe_ptimers;
     the handler calls set_timer_once 7, which is ignored where the name is pending *)
  Definition h_once (p : N) (st : PSw) (inp : input) (t : N) (r : nat -> N) : PSw * list (action N) :=
    (st, [ATimerSet 7 5 true]).
  Definition step_once := take_choice so_w (N.ltb 0) (N.eqb 0) 0 clk h_once unit rnd_w ds_w.
  Definition st_tm : store N := pushes [ETimer 1 7 5; EMsg msg_w 1 1 (NoFailures 0)].
  Definition sC := sys_w st_tm [(7, 0)] 0.     (* PtDet holds *)
  Definition sD := sys_w st_tm [] 0.           (* PtDet fails: the pending timer 7 is not in pe_ptimers *)

  Example ptimers_dependence_refutes_bisim :
    veq_w (get_state sC) (get_state sD) = true /\ s_net sC = s_net sD /\
    exists a' b', step_once sC (ChDeliver 1) = Ok a' /\ step_once sD (ChDeliver 1) = Ok b' /\
                  veq_w (get_state a') (get_state b') = false.
  Proof.
    split; [vm_compute; reflexivity|]. split; [reflexivity|].
    destruct (step_once sC (ChDeliver 1)) as [a'|] eqn:EA; [|vm_compute in EA; discriminate EA].
    destruct (step_once sD (ChDeliver 1)) as [b'|] eqn:EB; [|vm_compute in EB; discriminate EB].
    exists a', b'. split; [reflexivity|]. split; [reflexivity|].
    vm_compute in EA. vm_compute in EB. inversion EA; subst a'. inversion EB; subst b'. vm_compute. reflexivity.
  Qed.

  (* consequently the UNCONDITIONAL hypothesis expand_compat of Proofs/SearchCorrect.v is false for the checker's
     graph, even with clock-independent handlers: some successor of sC has no equal successor of sD *)
  Definition expand_once := mc_expand so_w (N.ltb 0) (N.eqb 0) 0 clk h_once unit rnd_w ds_w.
  Example witness_h_once_clock_independent : clock_independent h_once.
  Proof. intros p st inp t t' r. reflexivity. Qed.
  Example expand_compat_fails_without_PtDet :
    veq_w (get_state sC) (get_state sD) = true /\
    exists lC lD, expand_once sC (get_state sC) = Ok lC /\ expand_once sC (get_state sD) = Ok lD /\
                  exists x, In x lC /\ forall y, In y lD -> veq_w x y = false.
  Proof.
    split; [vm_compute; reflexivity|].
    destruct (expand_once sC (get_state sC)) as [lC|] eqn:EA; [|vm_compute in EA; discriminate EA].
    destruct (expand_once sC (get_state sD)) as [lD|] eqn:EB; [|vm_compute in EB; discriminate EB].
    exists lC, lD. split; [reflexivity|]. split; [reflexivity|].
    assert (Hb : existsb (fun x => forallb (fun y => negb (veq_w x y)) lD) lC = true).
    { vm_compute in EA. vm_compute in EB. inversion EA; subst lC. inversion EB; subst lD. vm_compute. reflexivity. }
    apply existsb_exists in Hb. destruct Hb as (x & Hx & Hall). exists x. split; [exact Hx|].
    intros y Hy. rewrite forallb_forall in Hall. apply negb_true_iff. apply Hall. exact Hy.
  Qed.
End Witness.

Print Assumptions mcstate_eqb_spec.
Print Assumptions mcstate_eqb_refl.
Print Assumptions mcstate_eqb_sym.
Print Assumptions mcstate_eqb_trans.
Print Assumptions take_choice_eq.
Print Assumptions mc_expand_eq.
Print Assumptions mc_expand_compat.
Print Assumptions verdict_compat.
Print Assumptions take_choice_inv.
Print Assumptions take_choice_eq_inv.
Print Assumptions take_choice_eq_inv'.
Print Assumptions StInv_init.
Print Assumptions mc_expand_inv.
Print Assumptions Witness.clock_dependence_refutes_bisim.
Print Assumptions Witness.ptimers_dependence_refutes_bisim.
Print Assumptions Witness.expand_compat_fails_without_PtDet.
