(* C04, part 1: the relation between the live queue events of a simulator state and the pending events of a
   reference-semantics configuration (content-preserving matching + the timer-order invariant), and its
   preservation by the elementary queue / store operations.  Used by Proofs/HandoffSim.v. *)
From Coq Require Import List NArith Bool Lia Permutation Sorted.
From ASV Require Import Base.Util Base.Msg Base.Log Model.Store Spec.StoreSpec Model.McSys Spec.RefSys
     Model.Sim Spec.TimeLaws Spec.SimSpec
     Proofs.UtilP Proofs.StoreSpecP Proofs.RefWf Proofs.SimTimeP Proofs.SimBaseP.
Import ListNotations.

(* ---------------- generic list facts ---------------- *)
Lemma first_match {A} (g : A -> bool) l :
  existsb g l = true ->
  exists l1 x l2, l = l1 ++ x :: l2 /\ g x = true /\ forall y, In y l1 -> g y = false.
Proof.
  induction l as [|a r IH]; cbn [existsb]; intros H; [discriminate|].
  destruct (g a) eqn:Ga.
  - exists [], a, r. split; [reflexivity|]. split; [exact Ga|]. intros y [].
  - cbn [orb] in H. destruct (IH H) as (l1 & x & l2 & E & Gx & Hl). exists (a :: l1), x, l2.
    split; [rewrite E; reflexivity|]. split; [exact Gx|]. intros y [<-|Hy]; auto.
Qed.

Lemma perm_remove {A B C} (f : A -> C) (g : B -> C) l1 x l2 m1 y m2 :
  Permutation (map f (l1 ++ x :: l2)) (map g (m1 ++ y :: m2)) -> f x = g y ->
  Permutation (map f (l1 ++ l2)) (map g (m1 ++ m2)).
Proof.
  rewrite !map_app. cbn [map]. intros H E. rewrite E in H. eapply Permutation_app_inv. exact H.
Qed.

Lemma map_eq_two {A B} (f : A -> B) l X x1 Y x2 Z :
  map f l = X ++ x1 :: Y ++ x2 :: Z ->
  exists l0 e1 l2 e2 l3, l = l0 ++ e1 :: l2 ++ e2 :: l3 /\ f e1 = x1 /\ f e2 = x2.
Proof.
  intros H. apply map_eq_app in H. destruct H as (l0 & r0 & -> & _ & H).
  apply map_eq_cons in H. destruct H as (e1 & r1 & -> & H1 & H).
  apply map_eq_app in H. destruct H as (l2 & r2 & -> & _ & H).
  apply map_eq_cons in H. destruct H as (e2 & l3 & -> & H2 & _).
  exists l0, e1, l2, e2, l3. auto.
Qed.

Lemma filter_id_split {A} (f : A -> N) l e :
  NoDup (map f l) -> In e l ->
  exists l1 l2, l = l1 ++ e :: l2 /\ filter (fun x => negb (N.eqb (f x) (f e))) l = l1 ++ l2.
Proof. apply NoDup_filter_split. Qed.

(* ---------------- contents ---------------- *)
Inductive content := CMsg (m : msg) (src dst : N) | CTimer (p n : N).

Section EvRel.
  Context {T : Type} (ops : time_ops T).
  Hypothesis laws : time_laws ops.
  Notation qevent := (@qevent T).
  Notation sevent := (sevent T).
  Notation pendl := (list (id * sevent)).
  Notation tle a b := (tleb ops a b = true).

  Definition c_of_q (e : qevent) : content :=
    match q_data e with QMsg _ m src _ dst _ => CMsg m src dst | QTimer p n => CTimer p n end.
  Definition c_of_s (x : sevent) : content :=
    match x with EMsg m s d _ => CMsg m s d | ETimer p n _ => CTimer p n end.
  Definition c_of_p (ie : id * sevent) : content := c_of_s (snd ie).

  Lemma c_of_q_timer e p n : c_of_q e = CTimer p n <-> q_data e = QTimer p n.
  Proof.
    unfold c_of_q. destruct (q_data e); split; intros H; try discriminate; inversion H; reflexivity.
  Qed.
  Lemma c_of_s_timer x p n : c_of_s x = CTimer p n <-> exists d, x = ETimer p n d.
  Proof.
    destruct x; cbn; split; intros H; try discriminate.
    - destruct H as [d H]. discriminate.
    - inversion H. eauto.
    - destruct H as [d' H]. inversion H. reflexivity.
  Qed.

  (* lv: live queue events; clk: the simulator's clock; L: the pending list of the reference store *)
  Record EvR (lv : list qevent) (clk : T) (L : pendl) : Prop := {
    er_perm : Permutation (map c_of_q lv) (map c_of_p L);
    (* a pending timer's simulator event fires no later than "now + the delay the checker knows" *)
    er_bound : forall i p n d e, In (i, ETimer p n d) L -> In e lv -> q_data e = QTimer p n ->
                 tle (q_time e) (tadd ops clk (tmax0 ops d));
    (* the timer-order invariant: a pending timer that withholds a later one really fires first *)
    er_order : forall i1 i2 p n1 n2 d1 d2 e1 e2,
                 In (i2, ETimer p n2 d2) L -> In (i1, ETimer p n1 d1) (before i2 L) -> tle d1 d2 ->
                 In e1 lv -> In e2 lv -> q_data e1 = QTimer p n1 -> q_data e2 = QTimer p n2 ->
                 key_lt ops e1 e2 }.

  Lemma perm_timer_back lv L i p n d :
    Permutation (map c_of_q lv) (map c_of_p L) -> In (i, ETimer p n d) L ->
    exists e, In e lv /\ q_data e = QTimer p n.
  Proof.
    intros HP Hi.
    assert (H : In (CTimer p n) (map c_of_p L)).
    { apply in_map_iff. exists (i, ETimer p n d). split; [reflexivity|exact Hi]. }
    apply (Permutation_in _ (Permutation_sym HP)) in H. apply in_map_iff in H.
    destruct H as (e & He & Hin). exists e. split; [exact Hin|]. apply c_of_q_timer. exact He.
  Qed.
  Lemma perm_fwd lv L e :
    Permutation (map c_of_q lv) (map c_of_p L) -> In e lv -> exists i x, In (i, x) L /\ c_of_s x = c_of_q e.
  Proof.
    intros HP He.
    assert (H : In (c_of_q e) (map c_of_q lv)) by (apply in_map; exact He).
    apply (Permutation_in _ HP) in H. apply in_map_iff in H. destruct H as ([i x] & Hx & Hin).
    exists i, x. split; [exact Hin|exact Hx].
  Qed.

  Lemma tmax0_mono d1 d2 : tle d1 d2 -> tle (tmax0 ops d1) (tmax0 ops d2).
  Proof.
    intros H. unfold tmax0.
    destruct (tltb ops d1 (tz ops)) eqn:E1; destruct (tltb ops d2 (tz ops)) eqn:E2.
    - apply (le_refl ops laws).
    - apply (tltb_false_iff ops laws) in E2. exact E2.
    - apply (tltb_false_iff ops laws) in E1. apply (lt_spec ops laws) in E2. destruct E2 as [_ E2].
      rewrite (le_trans ops laws _ _ _ E1 H) in E2. discriminate.
    - exact H.
  Qed.

  Lemma key_lt_of_le_id (a b : qevent) : tle (q_time a) (q_time b) -> q_id a < q_id b -> key_lt ops a b.
  Proof.
    intros H Hid. unfold key_lt. destruct (tleb ops (q_time b) (q_time a)) eqn:E.
    - right. split; [apply (le_antisym ops laws); auto|exact Hid].
    - left. apply (lt_spec ops laws). auto.
  Qed.
  Lemma key_lt_irrefl (a : qevent) : ~ key_lt ops a a.
  Proof. intros H. apply (key_lt_before ops laws) in H. rewrite (ev_before_irrefl ops laws) in H. discriminate. Qed.
  Lemma key_lt_asym (a b : qevent) : key_lt ops a b -> key_lt ops b a -> False.
  Proof. intros H1 H2. apply (key_lt_irrefl a). eapply (key_lt_trans ops laws); eauto. Qed.

  (* ---- the relation depends on the live list and the clock only; the clock may advance ---- *)
  Lemma EvR_clock lv clk clk' L : tle clk clk' -> EvR lv clk L -> EvR lv clk' L.
  Proof.
    intros Hc [P B O]. constructor; auto.
    intros i p n d e Hi He Hd. eapply (le_trans ops laws); [eapply B; eauto|].
    apply (add_mono_l ops laws). exact Hc.
  Qed.

  (* ---- a new message on both sides ---- *)
  Lemma EvR_push_msg lv clk L e i m src dst o :
    EvR lv clk L -> c_of_q e = CMsg m src dst -> ~ In i (ids L) ->
    EvR (lv ++ [e]) clk (L ++ [(i, EMsg m src dst o)]).
  Proof.
    intros [P B O] Hc Hi.
    assert (Hnt : forall p n, q_data e <> QTimer p n).
    { intros p n Hd. apply c_of_q_timer in Hd. congruence. }
    constructor.
    - rewrite !map_app. apply Permutation_app; [exact P|]. cbn. rewrite Hc. reflexivity.
    - intros j p n d e' Hj He' Hd. apply in_app_iff in Hj. destruct Hj as [Hj|[Hj|[]]]; [|discriminate].
      apply in_app_iff in He'. destruct He' as [He'|[<-|[]]]; [eauto|]. exfalso. eapply Hnt; eauto.
    - intros i1 i2 p n1 n2 d1 d2 e1 e2 H2 H1 Hd H1' H2' D1 D2.
      apply in_app_iff in H2. destruct H2 as [H2|[H2|[]]]; [|discriminate].
      rewrite before_app_in in H1 by (apply in_ids; eauto).
      apply in_app_iff in H1'. destruct H1' as [H1'|[<-|[]]]; [|exfalso; eapply Hnt; eauto].
      apply in_app_iff in H2'. destruct H2' as [H2'|[<-|[]]]; [|exfalso; eapply Hnt; eauto].
      eapply O; eauto.
  Qed.

  (* ---- a new timer on both sides ---- *)
  Lemma EvR_push_timer lv clk L e i p n d :
    EvR lv clk L -> q_data e = QTimer p n -> q_time e = tadd ops clk (tmax0 ops d) ->
    (forall x, In x lv -> q_id x < q_id e) ->
    (forall x, In x lv -> q_data x <> QTimer p n) ->
    ~ In i (ids L) ->
    EvR (lv ++ [e]) clk (L ++ [(i, ETimer p n d)]).
  Proof.
    intros [P B O] Hd Ht Hid Hfresh Hi.
    assert (HfreshL : forall j d', ~ In (j, ETimer p n d') L).
    { intros j d' Hj. destruct (perm_timer_back _ _ _ _ _ _ P Hj) as (x & Hx & Hdx). eapply Hfresh; eauto. }
    constructor.
    - rewrite !map_app. apply Permutation_app; [exact P|]. cbn. unfold c_of_p. cbn.
      apply c_of_q_timer in Hd. rewrite Hd. reflexivity.
    - intros j p' n' d' e' Hj He' Hd'.
      apply in_app_iff in Hj. apply in_app_iff in He'.
      destruct Hj as [Hj|[Hj|[]]]; destruct He' as [He'|[<-|[]]].
      + eauto.
      + rewrite Hd in Hd'. inversion Hd'; subst p' n'. exfalso. eapply HfreshL; eauto.
      + inversion Hj; subst p' n' d'. exfalso. eapply Hfresh; eauto.
      + inversion Hj; subst. rewrite Ht. apply (le_refl ops laws).
    - intros i1 i2 p' n1 n2 d1 d2 e1 e2 H2 H1 Hle H1' H2' D1 D2.
      apply in_app_iff in H2. destruct H2 as [H2|[H2|[]]].
      + rewrite before_app_in in H1 by (apply in_ids; eauto).
        apply in_app_iff in H1'. destruct H1' as [H1'|[<-|[]]].
        2:{ rewrite Hd in D1. inversion D1; subst p' n1. exfalso. eapply HfreshL. eapply before_incl; eauto. }
        apply in_app_iff in H2'. destruct H2' as [H2'|[<-|[]]].
        2:{ rewrite Hd in D2. inversion D2; subst p' n2. exfalso. eapply HfreshL; eauto. }
        eapply O; eauto.
      + inversion H2; subst i2 p' n2 d2. clear H2.
        rewrite (before_split L i (ETimer p n d) [] Hi) in H1.
        apply in_app_iff in H2'. destruct H2' as [H2'|[<-|[]]]; [exfalso; eapply Hfresh; eauto|].
        apply in_app_iff in H1'. destruct H1' as [H1'|[<-|[]]].
        2:{ rewrite Hd in D1. inversion D1; subst n1. exfalso. eapply HfreshL; eauto. }
        apply key_lt_of_le_id; [|apply Hid; exact H1'].
        rewrite Ht. eapply (le_trans ops laws); [eapply B; eauto|].
        apply (add_mono_r ops laws). apply tmax0_mono. exact Hle.
  Qed.

  (* ---- one matched pair removed on both sides (pop / cancel) ---- *)
  Lemma EvR_remove lv clk clk' L e i x :
    EvR lv clk L -> NoDup (map (@q_id T) lv) -> NoDup (ids L) ->
    In e lv -> In (i, x) L -> c_of_s x = c_of_q e -> tle clk clk' ->
    EvR (filter (fun y => negb (N.eqb (q_id y) (q_id e))) lv) clk' (aremove i L).
  Proof.
    intros R Hn1 Hn2 He Hx Hc Hclk. apply (EvR_clock _ _ _ _ Hclk) in R. destruct R as [P B O].
    destruct (filter_id_split (@q_id T) lv e Hn1 He) as (l1 & l2 & E1 & E2).
    destruct (filter_id_split (@fst id sevent) L (i, x) Hn2 Hx) as (m1 & m2 & F1 & F2).
    cbn [fst] in F2. assert (F3 : aremove i L = m1 ++ m2) by exact F2.
    assert (Hs1 : forall y, In y (filter (fun y => negb (N.eqb (q_id y) (q_id e))) lv) -> In y lv).
    { intros y Hy. apply filter_In in Hy. tauto. }
    constructor.
    - rewrite E2, F3. rewrite E1, F1 in P. eapply perm_remove; [exact P|]. symmetry. exact Hc.
    - intros j p n d e' Hj He' Hd. apply in_aremove in Hj. eapply B; eauto. apply Hj.
    - intros i1 i2 p n1 n2 d1 d2 e1 e2 H2 H1 Hle H1' H2' D1 D2.
      apply in_aremove in H2. destruct H2 as [H2 Hne]. cbn [fst] in Hne.
      rewrite before_aremove in H1 by (intros E; apply Hne; symmetry; exact E).
      apply in_aremove in H1. eapply O; eauto. apply H1.
  Qed.

  (* ---- who is offered ---- *)
  Variable tlebS : T -> T -> bool.   (* = tleb ops; kept separate for readability of [withheld_by] *)
  Hypothesis tlebS_eq : tlebS = tleb ops.

  (* the simulator's minimal live event, if a timer, is matched by a pending timer that nothing withholds *)
  Lemma min_timer_offered lv clk L e p n :
    EvR lv clk L -> NoDup (ids L) -> In e lv -> q_data e = QTimer p n ->
    (forall x, In x lv -> x <> e -> key_lt ops e x) ->
    exists i d, In (i, ETimer p n d) L /\ In i (offset tlebS L).
  Proof.
    intros [P B O] Hn He Hd Hmin.
    destruct (perm_fwd _ _ _ P He) as (i & x & Hi & Hc).
    apply c_of_q_timer in Hd. rewrite Hd in Hc. apply c_of_s_timer in Hc. destruct Hc as [d ->].
    apply c_of_q_timer in Hd.
    exists i, d. split; [exact Hi|]. apply offset_iff; [exact Hn|]. exists (ETimer p n d). split; [exact Hi|].
    apply existsb_false_iff. intros [i1 x1] H1. unfold wb, withheld_by. cbn [snd].
    destruct x1 as [m1 s1 dd1 o1|p1 n1 d1]; [reflexivity|]. cbn [same_group blocks orb].
    destruct (N.eqb p1 p) eqn:Ep; [|reflexivity]. apply N.eqb_eq in Ep. subst p1. cbn [andb].
    destruct (tlebS d1 d) eqn:El; [|reflexivity]. exfalso. rewrite tlebS_eq in El.
    destruct (perm_timer_back _ _ _ _ _ _ P (before_incl _ _ _ H1)) as (e1 & He1 & Hd1).
    pose proof (O _ _ _ _ _ _ _ _ _ Hi H1 El He1 He Hd1 Hd) as K.
    destruct (Hmin e1 He1) as [K'|K'].
    - intros ->. eapply key_lt_irrefl; eauto.
    - eapply key_lt_asym; [exact K|]. left. exact K'.
    - eapply key_lt_asym; [exact K|]. right. exact K'.
  Qed.

  (* a message: the OLDEST pending identical message is offered *)
  Lemma min_msg_offered lv clk L e m src dst :
    EvR lv clk L -> NoDup (ids L) -> In e lv -> c_of_q e = CMsg m src dst ->
    exists i o, In (i, EMsg m src dst o) L /\ In i (offset tlebS L).
  Proof.
    intros [P _ _] Hn He Hc.
    destruct (perm_fwd _ _ _ P He) as (i0 & x0 & Hi0 & Hc0). rewrite Hc in Hc0.
    set (g := fun ie : id * sevent => match snd ie with
                                      | EMsg m' s' d' _ => msg_eqb m' m && N.eqb s' src && N.eqb d' dst
                                      | ETimer _ _ _ => false
                                      end).
    assert (Hex : existsb g L = true).
    { apply existsb_exists. exists (i0, x0). split; [exact Hi0|]. unfold g. cbn [snd].
      destruct x0; cbn in Hc0; [|discriminate]. inversion Hc0; subst.
      rewrite (proj2 (msg_eqb_true m m) eq_refl), !N.eqb_refl. reflexivity. }
    destruct (first_match g L Hex) as (l1 & [i x] & l2 & EL & Gx & Hl1).
    unfold g in Gx. cbn [snd] in Gx. destruct x as [m' s' d' o|]; [|discriminate].
    apply andb_true_iff in Gx. destruct Gx as [Gx G3]. apply andb_true_iff in Gx. destruct Gx as [G1 G2].
    apply msg_eqb_true in G1. apply N.eqb_eq in G2, G3. subst m' s' d'.
    assert (Hin : In (i, EMsg m src dst o) L) by (rewrite EL; apply in_app_iff; right; left; reflexivity).
    exists i, o. split; [exact Hin|]. apply offset_iff; [exact Hn|]. exists (EMsg m src dst o). split; [exact Hin|].
    assert (Hb : before i L = l1).
    { rewrite EL. apply before_split. rewrite EL in Hn. unfold ids in Hn. rewrite map_app in Hn. cbn [map fst] in Hn.
      apply NoDup_remove_2 in Hn. intros H. apply Hn. apply in_app_iff. left. exact H. }
    rewrite Hb. apply existsb_false_iff. intros [j y] Hy. specialize (Hl1 _ Hy). unfold g in Hl1. cbn [snd] in Hl1.
    unfold wb, withheld_by. cbn [snd]. destruct y as [m1 s1 dd1 o1|p1 n1 d1]; cbn [same_group blocks orb].
    - rewrite Hl1. reflexivity.
    - reflexivity.
  Qed.
End EvRel.
