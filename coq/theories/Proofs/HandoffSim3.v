(* C04, stage 3: message corruption.  The simulator decides corruption once per send (all copies of one send carry the
   same payload); the checker corrupts pending copies individually (ChCorrupt).  Strategy of the simulation: right
   after the delivery step in which a handler sent a message that the simulator corrupted into k copies, the checker
   converts k unit copies of the identical pending group (the OLDEST ones: split with ChDup until the oldest stands for
   one copy, then ChCorrupt) - an exchange argument on identical messages.  This needs every pending message of that
   group to be corruptible; the side condition [CorrSide] below guarantees it (finding F13 shows that some side
   condition is necessary).  Built on stages 1 and 2 (Proofs/HandoffSim.v, Proofs/HandoffSim2.v). *)
From Coq Require Import List NArith Bool Lia Permutation Sorted.
From ASV Require Import Base.Util Base.Msg Base.Log Model.Store Spec.StoreSpec Model.McSys Spec.RefSys
     Model.Sim Spec.TimeLaws Spec.SimSpec Model.Snapshot
     Proofs.UtilP Proofs.StoreSpecP Proofs.RefWf Proofs.SimTimeP Proofs.SimBaseP Proofs.SimTimerP Proofs.SimNetP
     Proofs.SimCrashP Proofs.SnapshotP Proofs.HandoffSimBase Proofs.HandoffSim2Base Proofs.HandoffSim3Base
     Proofs.HandoffSim Proofs.HandoffSim2.
Import ListNotations.

(* ================================================================================================ *)
(* 1. Simulator side: a send in general                                                             *)
(* ================================================================================================ *)
Section Sim3.
  Context {T : Type} (ops : time_ops T).
  Variable draws : nat -> T.
  Hypothesis laws : time_laws ops.
  Hypothesis draws_unit : forall i, tleb ops (tz ops) (draws i) = true /\ tltb ops (draws i) (tone ops) = true.
  Notation simnet := (@simnet T).
  Notation simq := (@simq T).

  (* some rate is exceeded by a draw: the fault can happen *)
  Definition Possible_rate (x : T) : Prop := exists r, tleb ops (tz ops) r = true /\ tltb ops r x = true.

  Lemma net_send_gen (n : simnet) (q : simq) m src dst n' q' logs :
    net_send ops draws n q m src dst = Ok (n', q', logs) ->
    exists sn dn did c z news (corrupted : bool),
      sget N.compare src (sn_loc n) = Some sn /\ sget N.compare dst (sn_loc n) = Some dn /\
      sget N.compare dn (sn_node_ids n) = Some did /\
      n' = net_bump n c z /\
      q_events q' = q_events q ++ news /\ q_canceled q' = q_canceled q /\ q_clock q' = q_clock q /\
      (forall e, In e news -> q_data e = QMsg (sn_msg_count n) (if corrupted then corrupt_msg m else m) src sn dst dn /\
                              q_dst e = did /\ q_count q <= q_id e) /\
      (length news <= 3)%nat /\
      (news <> [] -> sn <> dn -> link_cut n sn dn = false) /\
      ((1 < length news)%nat -> sn <> dn /\ Possible_rate (sn_dupl n)) /\
      (corrupted = true -> sn <> dn /\ Possible_rate (sn_corrupt n)).
  Proof.
    intros H.
    destruct (SimBaseP.net_send_spec ops draws _ _ _ _ _ _ _ _ H) as (sn & dn & sid & did & news0 & L1 & L2 & L3 & L4 & _).
    destruct (N.eqb_spec sn dn) as [->|Hne].
    - rewrite (net_send_same_node ops draws laws n q m src dst dn sid L1 L2 L3) in H. hinv H.
      eexists dn, dn, did, _, _, [_], false. cbn [q_with q_events q_canceled q_clock length].
      split; [exact L1|]. split; [exact L2|]. split; [exact L4|]. split; [reflexivity|]. split; [reflexivity|].
      split; [reflexivity|]. split; [reflexivity|]. split.
      + intros e [<-|[]]. cbn [q_data q_dst q_id]. rewrite L3 in L4. hinv L4. split; [reflexivity|]. split; [reflexivity|]. lia.
      + split; [lia|]. split; [intros _ X; exfalso; apply X; reflexivity|]. split; [intros X; lia|discriminate].
    - pose proof (net_send_cross_node ops draws n q m src dst sn dn sid did n' q' logs L1 L2 Hne L3 L4 H) as [Hn' X].
      cbv zeta in X.
      destruct (net_fate ops draws n q m sn dn) as [f q1] eqn:Ef.
      pose proof (net_fate_spec ops draws n q m sn dn f q1 Ef) as S. cbv zeta in S.
      destruct S as ((S1 & S2 & S3 & S4) & _ & _ & _ & Sc).
      destruct f as [|m' ds].
      + destruct X as (_ & -> & X). exists sn, dn, did, true, (msg_size m), [], false.
        rewrite app_nil_r. split; [exact L1|]. split; [exact L2|]. split; [exact L4|]. split; [exact Hn'|].
        split; [exact X|]. split; [exact S3|]. split; [exact S1|]. split; [intros e []|].
        split; [cbn; lia|]. split; [intros X0; exfalso; apply X0; reflexivity|]. cbn [length].
        split; [intros X0; lia|discriminate].
      + destruct X as [_ ->].
        destruct (Sc m' ds eq_refl) as (C1 & _ & C3 & _ & C5 & C6 & _).
        exists sn, dn, did, true, (msg_size m),
               (mk_copies ops (q_clock q) (q_count q) (QMsg (sn_msg_count n) m' src sn dst dn) sid did ds),
               (tltb ops (draws (q_rand q + 1)) (sn_corrupt n)).
        cbn [q_with q_events q_canceled q_clock]. rewrite mk_copies_length.
        split; [exact L1|]. split; [exact L2|]. split; [exact L4|]. split; [exact Hn'|]. split; [reflexivity|].
        split; [reflexivity|]. split; [reflexivity|]. split.
        * intros e He. apply mk_copies_in in He. destruct He as (D1 & _ & D3 & D4 & _). rewrite <- C3.
          split; [exact D1|]. split; [exact D3|]. lia.
        * split; [lia|]. split; [intros _ _; exact C1|]. split.
          -- intros Hl. split; [exact Hne|]. exists (draws (q_rand q + 2)). split; [apply draws_unit|]. apply C6. exact Hl.
          -- intros Hc. split; [exact Hne|]. exists (draws (q_rand q + 1)). split; [apply draws_unit|exact Hc].
  Qed.

  Lemma not_possible_zero : ~ Possible_rate (tz ops).
  Proof.
    intros (r & H1 & H2). apply (lt_spec ops laws) in H2. destruct H2 as [_ H2]. rewrite H1 in H2. discriminate.
  Qed.
End Sim3.

(* ================================================================================================ *)
(* 2. The relation                                                                                  *)
(* ================================================================================================ *)
Section Cross3.
  Context {T : Type} (ops : time_ops T).
  Context {PS : Type}.
  Variable handlerS : N -> PS -> input -> T -> (nat -> T) -> PS * list (action T) * nat.
  Variable init_state : N -> PS.
  Variable draws : nat -> T.
  Variable crash_order : list (@qevent T) -> list (@qevent T).
  Variable tgt0 : T -> bool.
  Variable teq0 : T -> bool.
  Variable t0 : T.
  Variable clock : N -> T -> T.
  Variable handlerM : N -> PS -> input -> T -> (nat -> T) -> PS * list (action T).
  Variable DS : Type.
  Variable mc_rand : DS -> nat -> T.
  Variable ds_of : @mcstate T (astore T) PS -> DS.
  Variable sevent_eqb : (T -> T -> bool) -> sevent T -> sevent T -> bool.
  Variable known : list N.
  Variable crashed0 : N -> bool.       (* the nodes that are crashed at the hand-off (and stay so) *)
  Variable rate : T.                   (* the corruption rate (it does not change during the continuation) *)
  Hypothesis laws : time_laws ops.
  Hypothesis draws_unit : forall i, tleb ops (tz ops) (draws i) = true /\ tltb ops (draws i) (tone ops) = true.
  Hypothesis teq0_sound : forall r x, tleb ops (tz ops) r = true -> tltb ops r x = true -> teq0 x = false.
  Notation simsys := (@simsys T PS).
  Notation simnode := (@simnode T PS).
  Notation simnet := (@simnet T).
  Notation simq := (@simq T).
  Notation qevent := (@qevent T).
  Notation pentry := (pentry T PS).
  Notation mcnode := (@mcnode T PS).
  Notation mcnet := (@mcnet T).
  Notation so := (abstract_ops (tleb ops) sevent_eqb).
  Notation rsys := (@mcsys T (astore T) PS).
  Notation sys_action := (sys_action ops draws).
  Notation sys_actions := (sys_actions ops draws).
  Notation tle a b := (tleb ops a b = true).
  Notation EvR3 := (EvR3 ops).
  Notation PeR := (@PeR T PS).
  Notation NodesR := (@NodesR T PS).
  Notation TLoc := (@TLoc T PS).
  Notation mc_pre := (@mc_pre T PS t0).
  Notation dlv := (@dlv T).
  Notation dlive := (@dlive T PS).
  Notation mc_cutb := (@mc_cutb T).
  Notation CrashAgree := (@CrashAgree T PS crashed0).
  Notation CanCorrupt := (Possible_rate ops rate).

  (* process [s] may send message [m] to [d] *)
  Definition Sent (m : msg) (s d : N) : Prop := exists st inp t r, In (ASend m d) (snd (handlerM s st inp t r)).
  (* whenever [s] sends [m] to [d], corruption leaves the payload unchanged *)
  Definition Stable (m : msg) (s d : N) : Prop :=
    forall st inp t r, In (ASend m d) (snd (handlerM s st inp t r)) -> corrupt_msg m = m.

  (* if corruption can happen: the checker's test "rate > 0." says so, and no process sends, to one destination, both
     a message and a further corruptible message that equals its corruption *)
  Hypothesis tgt0_sound : CanCorrupt -> tgt0 rate = true.
  Hypothesis img_stable : CanCorrupt -> forall m s d, Sent m s d -> Stable (corrupt_msg m) s d.

  Definition NetR3 (sn : simnet) (mn : mcnet) : Prop :=
    n_loc mn = sn_loc sn /\ n_dupl mn = sn_dupl sn /\ sn_corrupt sn = rate /\ n_corrupt mn = rate /\
    (forall a b, crashed0 a = false -> crashed0 b = false -> mc_cutb mn a b = true -> link_cut sn a b = true) /\
    (forall b, crashed0 b = true -> nmem b (n_drop_in mn) = true).

  (* every pending message that could withhold a copy the checker has to corrupt is corruptible itself *)
  Definition EvOKc (netM : mcnet) (x : sevent T) : Prop :=
    match x with
    | EMsg m s d o => (exists a, sget N.compare s (n_loc netM) = Some a /\ sget N.compare d (n_loc netM) = Some a) \/
                      (exists dd k, o = Possible dd k true) \/ Stable m s d
    | ETimer _ _ _ => True
    end.
  Definition MInv (netM : mcnet) (L : list (id * sevent T)) : Prop :=
    CanCorrupt -> forall i x, In (i, x) L -> EvOKc netM x.
  Definition DebtOK (netM : mcnet) (u : debt_unit) : Prop :=
    let '(m, s, d) := u in
    corrupt_msg m <> m /\ Sent m s d /\ CanCorrupt /\
    exists a b, sget N.compare s (n_loc netM) = Some a /\ sget N.compare d (n_loc netM) = Some b /\ a <> b.

  Lemma evokc_budget netM m s d dd k cc dd' k' :
    EvOKc netM (EMsg m s d (Possible dd k cc)) -> EvOKc netM (EMsg m s d (Possible dd' k' cc)).
  Proof.
    intros [H|[(a & b & E)|H]]; [left; exact H| |right; right; exact H].
    right. left. inversion E; subst. eauto.
  Qed.

  Lemma live_cancel_in3 (q : simq) i e : In e (q_live (q_cancel q i)) <-> In e (q_live q) /\ q_id e <> i.
  Proof. rewrite q_live_cancel, filter_In, negb_true_iff, N.eqb_neq. tauto. Qed.

  Record HRel3 (nn proc : N) (s : simsys) (pM : pentry) (a : astore T) (netM : mcnet) (debt : list debt_unit) : Prop := {
    h3_base : BaseInv s;
    h3_timer : TimerInv s;
    h3_tloc : TLoc s;
    h3_netr : NetR3 (y_net s) netM;
    h3_crash : CrashAgree s;
    h3_proc : exists nd p, sget N.compare nn (y_nodes s) = Some nd /\ sd_crashed nd = false /\
                           sget N.compare proc (sd_procs nd) = Some p /\ PeR p pM;
    h3_ev : EvR3 (dlive s) (q_clock (y_q s)) (pend a) debt;
    h3_ainv : AInv a;
    h3_timok : TimOK a proc (pe_ptimers pM);
    h3_minv : MInv netM (pend a);
    h3_debt : Forall (DebtOK netM) debt }.

  Lemma minv_push netM L i x : MInv netM L -> (CanCorrupt -> EvOKc netM x) -> MInv netM (L ++ [(i, x)]).
  Proof.
    intros H Hx G j y Hj. apply in_app_iff in Hj. destruct Hj as [Hj|[Hj|[]]]; [exact (H G j y Hj)|]. hinv Hj. exact (Hx G).
  Qed.
  Lemma minv_aremove netM L i : MInv netM L -> MInv netM (aremove i L).
  Proof. intros H G j y Hj. apply in_aremove in Hj. exact (H G j y (proj1 Hj)). Qed.

  (* ---------------------------------------------------------------------------------------------- *)
  (* one action                                                                                      *)
  (* ---------------------------------------------------------------------------------------------- *)
  Lemma action_sim3 nn proc atime (s : simsys) (pM : pentry) (mX : rsys) debt act s' pM' e1 l1 mX' :
    HRel3 nn proc s pM (s_events mX) (s_net mX) debt ->
    (forall n d once, act = ATimerSet n d once -> once = true \/ shas N.compare n (pe_ptimers pM) = false) ->
    (forall m dst, act = ASend m dst -> Sent m proc dst) ->
    sys_action s nn proc act = Ok s' ->
    McSys.node_action proc atime pM act = (pM', e1, l1) ->
    add_events so tgt0 teq0 mX e1 = Ok mX' ->
    (exists debt', HRel3 nn proc s' pM' (s_events mX') (s_net mX') debt') /\
    s_nodes mX' = s_nodes mX /\ s_net mX' = s_net mX /\ s_mf mX' = s_mf mX /\ SFr nn proc s s'.
  Proof.
    intros [B TI TL NR CA (nd & p & Hnd & Hcr & Hp & PR) EV AI TOK MI DK] Honce Hsent Hsa Hma Hadd.
    pose proof (base_sys_action ops handlerS init_state draws s nn nd proc act s' B Hnd Hsa) as B'.
    pose proof (timer_sys_action ops handlerS init_state draws s nn nd proc act s' B TI Hnd Hcr Hsa) as TI'.
    destruct (sys_action_inv ops draws s nn proc act s' Hsa) as (nd0 & p0 & p' & lc' & w' & Hnd0 & Hp0 & Hna & ->).
    rewrite Hnd in Hnd0. hinv Hnd0. rewrite Hp in Hp0. hinv Hp0.
    pose proof (SFr_put s nn nd0 proc p' lc' w' Hnd) as HF.
    pose proof (crash_agree_put crashed0 s nn nd0 proc p' lc' w' CA Hnd) as CA'.
    destruct PR as (R1 & R2 & R3 & R4 & R5).
    pose proof (base_canc_lt s B) as Hcl.
    assert (Hdl : dlive (put_proc s nn nd0 proc p' lc' w') = filter (dlv (y_handlers s)) (q_live (w_q w'))) by reflexivity.
    destruct act as [m dst|m|n d once|n].
    - (* ---- send ---- *)
      cbn [Sim.node_action] in Hna.
      destruct (Sim.net_send ops draws (w_net (world_of s)) (w_q (world_of s)) m proc dst) as [[[n' q'] logs]|] eqn:Ens;
        cbn [bind] in Hna; [|discriminate]. hinv Hna. cbn [world_of w_net w_q] in Ens.
      pose proof NR as (NL & ND & NCs & NCm & NCut & NCr).
      destruct (net_send_gen ops draws laws draws_unit _ _ _ _ _ _ _ _ Ens)
        as (sn & dn & did & c & z & news & corrupted & L1 & L2 & L4 & -> & Q1 & Q2 & Q3 & Q5 & Q6 & Q7 & Q8 & Q9).
      assert (Hsn : sn = nn).
      { pose proof (bi_loc _ B _ _ (bi_proc_fwd _ B _ _ _ _ Hnd Hp)) as Hl. rewrite Hl in L1. hinv L1. reflexivity. }
      subst sn.
      assert (Hcn : crashed0 nn = false) by (rewrite <- (CA _ _ Hnd); exact Hcr).
      assert (Hlive : q_live q' = q_live (y_q s) ++ news).
      { apply q_live_app; auto. intros e He. apply (Q5 e He). }
      assert (Hdn : forall e, In e news -> dlv (y_handlers s) e = negb (crashed0 dn)).
      { intros e He. apply (dlv_node crashed0 s e dn did B CA L4). apply (Q5 e He). }
      (* the copies really carry another payload *)
      set (bc := if corrupted then (if msg_eq_dec (corrupt_msg m) m then false else true) else false).
      assert (Hcont : forall e, In e news -> c_of_q e = CMsg (if bc then corrupt_msg m else m) proc dst).
      { intros e He. unfold c_of_q. rewrite (proj1 (Q5 e He)). unfold bc. destruct corrupted; [|reflexivity].
        destruct (msg_eq_dec (corrupt_msg m) m) as [E|E]; [rewrite E|]; reflexivity. }
      cbn [McSys.node_action] in Hma. hinv Hma.
      cbn [add_events] in Hadd. rewrite <- NL in L1, L2.
      rewrite (mc_net_send_cases tgt0 teq0 _ m proc dst nn dn L1 L2) in Hadd. cbn [bind] in Hadd.
      match type of B' with BaseInv ?sx => set (sX := sx) in * end.
      match goal with |- context [HRel3 nn proc sX ?pmx _ _ _] => set (pMX := pmx) in * end.
      assert (Hcommon : forall a' debt', AInv a' -> TimOK a' proc (pe_ptimers pM) -> MInv (s_net mX) (pend a') ->
                Forall (DebtOK (s_net mX)) debt' ->
                EvR3 (filter (dlv (y_handlers s)) (q_live q')) (q_clock (y_q s)) (pend a') debt' ->
                HRel3 nn proc sX pMX a' (s_net mX) debt').
      { intros a' debt' AI' TOK' MI' DK' EV'. unfold sX, pMX.
        constructor; [exact B'|exact TI'| |exact NR|exact CA'| | |exact AI'|exact TOK'|exact MI'|exact DK'].
        - apply tloc_put with (p := p0); auto. cbn [w_q]. intros e pp k He Hd. rewrite Hlive in He.
          apply in_app_iff in He. destruct He as [He|He]; [|rewrite (proj1 (Q5 e He)) in Hd; discriminate].
          split; [|auto]. intros ->. cbn [Sim.pe_with pe_ptimers]. apply (tloc_proc s nn nd0 proc p0 e k B TL Hnd Hp He Hd).
        - match goal with |- context [put_proc s nn nd0 proc ?pp ?lc ?w] => destruct (put_self s nn nd0 proc pp lc w) as [X1 X2] end.
          eexists _, _. split; [exact X1|]. split; [exact Hcr|]. split; [exact X2|].
          unfold HandoffSim.PeR, Sim.pe_with, McSys.pe_with; cbn [pe_state pe_outbox pe_ptimers pe_sent pe_recv]. repeat split; auto; congruence.
        - unfold HandoffSim2.dlive. cbn [put_proc y_with y_q y_handlers w_q]. rewrite Q3. exact EV'. }
      destruct (N.eqb nn dn) eqn:Esd.
      + (* same node: one copy, NoFailures, never corrupted *)
        apply N.eqb_eq in Esd. subst dn.
        assert (Hbc : bc = false).
        { unfold bc. destruct corrupted; [|reflexivity]. destruct (Q9 eq_refl) as [X _]. exfalso. apply X. reflexivity. }
        cbn [bind so_push abstract_ops] in Hadd. rewrite a_push_eq in Hadd. cbn [bind] in Hadd. hinv Hadd.
        cbn [sys_with s_nodes s_net s_events s_mf]. split; [|auto]. exists debt.
        apply Hcommon; auto.
        * apply ainv_apush_new. exact AI.
        * apply TimOK_push. exact TOK.
        * apply minv_push; [exact MI|]. intros _. left. exists nn. auto.
        * rewrite Hlive, (filter_app_all _ _ _ (negb (crashed0 nn)) Hdn), Hcn. cbn [negb apush pend].
          rewrite Hbc in Hcont.
          apply EvR3_push_msgs with (corrupted := false); auto.
          -- apply ainv_fresh. exact AI.
          -- cbn [pot]. destruct news as [|x [|y r]]; cbn [length]; try lia. exfalso.
             destruct Q8 as [X _]; [cbn; lia|]. apply X. reflexivity.
      + destruct (mc_cutb (s_net mX) nn dn) eqn:Ecut; cbn [negb] in Hadd.
        * (* the checker drops the message at once *)
          cbn [bind] in Hadd. hinv Hadd. cbn [sys_with s_nodes s_net s_events s_mf]. split; [|auto]. exists debt.
          apply Hcommon; auto.
          rewrite Hlive. destruct (crashed0 dn) eqn:Ecd.
          -- rewrite (filter_app_all _ _ _ false) by (intros e He; rewrite (Hdn e He); reflexivity). rewrite app_nil_r. exact EV.
          -- assert (Hn0 : news = []).
             { destruct news as [|x r]; [reflexivity|]. exfalso.
               assert (Hc1 : link_cut (y_net s) nn dn = false).
               { apply Q7; [discriminate|]. apply N.eqb_neq. exact Esd. }
               rewrite (NCut nn dn Hcn Ecd Ecut) in Hc1. discriminate. }
             rewrite Hn0, app_nil_r. exact EV.
        * (* a pending message with its fault budget *)
          cbn [bind so_push abstract_ops] in Hadd. rewrite a_push_eq in Hadd. cbn [bind] in Hadd. hinv Hadd.
          cbn [sys_with s_nodes s_net s_events s_mf]. split; [|auto].
          assert (Ecd : crashed0 dn = false).
          { destruct (crashed0 dn) eqn:E; [|reflexivity]. unfold HandoffSim2.mc_cutb in Ecut. rewrite (NCr dn E) in Ecut.
            rewrite orb_true_r in Ecut. discriminate. }
          exists (if bc then debt ++ repeat (m, proc, dst) (length news) else debt).
          apply Hcommon.
          -- apply ainv_apush_new. exact AI.
          -- apply TimOK_push. exact TOK.
          -- apply minv_push; [exact MI|]. intros G. right. left. rewrite NCm, (tgt0_sound G). eauto.
          -- destruct bc eqn:Ebc; [|exact DK]. apply Forall_app. split; [exact DK|]. apply Forall_forall.
             intros u Hu. apply repeat_spec in Hu. subst u. unfold bc in Ebc. destruct corrupted; [|discriminate].
             destruct (msg_eq_dec (corrupt_msg m) m) as [E|E]; [discriminate|]. destruct (Q9 eq_refl) as [_ G]. rewrite NCs in G.
             cbn [DebtOK]. split; [exact E|]. split; [apply (Hsent m dst eq_refl)|]. split; [exact G|].
             exists nn, dn. split; [exact L1|]. split; [exact L2|]. apply N.eqb_neq. exact Esd.
          -- rewrite Hlive, (filter_app_all _ _ _ (negb (crashed0 dn)) Hdn), Ecd. cbn [negb apush pend].
             apply EvR3_push_msgs; auto.
             ++ apply ainv_fresh. exact AI.
             ++ cbn [pot]. destruct (Compare_dec.lt_dec 1 (length news)) as [Hl|Hl]; [|lia].
                destruct (Q8 Hl) as (_ & r & Hr1 & Hr2). rewrite ND, (teq0_sound r _ Hr1 Hr2). cbn. lia.
    - (* ---- local message ---- *)
      cbn [Sim.node_action] in Hna. hinv Hna. cbn [McSys.node_action] in Hma. hinv Hma.
      cbn [add_events] in Hadd. hinv Hadd. split; [|auto]. exists debt.
      constructor; [exact B'|exact TI'| |exact NR|exact CA'| |exact EV|exact AI|exact TOK|exact MI|exact DK].
      + apply tloc_put with (p := p0); auto. cbn [w_q world_of]. intros e pp k He Hd. split; [|auto].
        intros ->. cbn [Sim.pe_with pe_ptimers]. apply (tloc_proc s nn nd0 proc p0 e k B TL Hnd Hp He Hd).
      + match goal with |- context [put_proc s nn nd0 proc ?pp ?lc ?w] => destruct (put_self s nn nd0 proc pp lc w) as [X1 X2] end.
        eexists _, _. split; [exact X1|]. split; [exact Hcr|]. split; [exact X2|].
        unfold HandoffSim.PeR, Sim.pe_with, McSys.pe_with; cbn [pe_state pe_outbox pe_ptimers pe_sent pe_recv]. repeat split; auto; congruence.
    - (* ---- set timer ---- *)
      cbn [Sim.node_action] in Hna. cbn [McSys.node_action] in Hma.
      destruct (sget N.compare n (pe_ptimers p0)) as [old|] eqn:Eo.
      + assert (Hs : shas N.compare n (pe_ptimers pM) = true) by (rewrite <- R3; unfold shas; rewrite Eo; reflexivity).
        destruct (Honce n d once eq_refl) as [->|Hx]; [|rewrite Hs in Hx; discriminate].
        hinv Hna. rewrite Hs in Hma. cbn [negb orb] in Hma. hinv Hma. cbn [add_events] in Hadd. hinv Hadd. split; [|auto]. exists debt.
        constructor; [exact B'|exact TI'| |exact NR|exact CA'| |exact EV|exact AI|exact TOK|exact MI|exact DK].
        * apply tloc_put with (p := p0); auto. cbn [w_q world_of]. intros e pp k He Hd. split; [|auto].
          intros ->. cbn [Sim.pe_with pe_ptimers]. apply (tloc_proc s nn nd0 proc p0 e k B TL Hnd Hp He Hd).
        * match goal with |- context [put_proc s nn nd0 proc ?pp ?lc ?w] => destruct (put_self s nn nd0 proc pp lc w) as [X1 X2] end.
          eexists _, _. split; [exact X1|]. split; [exact Hcr|]. split; [exact X2|].
          unfold HandoffSim.PeR, Sim.pe_with, McSys.pe_with; cbn [pe_state pe_outbox pe_ptimers pe_sent pe_recv]. repeat split; auto.
      + destruct (q_add ops (w_q (world_of s)) (QTimer proc n) (sd_id nd0) (sd_id nd0) d) as [[q2 i]|] eqn:Eq;
          cbn [bind] in Hna; [|discriminate]. hinv Hna. cbn [world_of w_q] in Eq.
        destruct (q_add_live ops _ _ _ _ _ _ _ Hcl Eq) as (-> & Hlive & Hcnt & Hcan & Hclk).
        assert (Hs : shas N.compare n (pe_ptimers pM) = false) by (rewrite <- R3; unfold shas; rewrite Eo; reflexivity).
        rewrite Hs in Hma. cbn [negb] in Hma. rewrite orb_true_r in Hma. hinv Hma.
        cbn [add_events bind so_push abstract_ops] in Hadd. rewrite a_push_eq in Hadd. cbn [bind] in Hadd. hinv Hadd.
        cbn [sys_with s_nodes s_net s_events s_mf]. split; [|auto]. exists debt.
        assert (Hfresh : forall x, In x (q_live (y_q s)) -> q_data x <> QTimer proc n).
        { intros x Hx Hd. rewrite (tloc_proc s nn nd0 proc p0 x n B TL Hnd Hp Hx Hd) in Eo. discriminate. }
        constructor; [exact B'|exact TI'| |exact NR|exact CA'| | | | | |exact DK].
        * apply tloc_put with (p := p0); auto. cbn [w_q]. intros e pp k He Hd. rewrite Hlive in He.
          apply in_app_iff in He. cbn [Sim.pe_with pe_ptimers]. destruct He as [He|[<-|[]]].
          -- split; [|auto]. intros ->. rewrite sgetN_sins. destruct (N.eqb_spec k n) as [->|Hkn].
             ++ exfalso. eapply Hfresh; eauto.
             ++ apply (tloc_proc s nn nd0 proc p0 e k B TL Hnd Hp He Hd).
          -- cbn [mk_ev q_data] in Hd. hinv Hd. split; [|intros X; contradiction]. intros _.
             rewrite sgetN_sins, N.eqb_refl. reflexivity.
        * match goal with |- context [put_proc s nn nd0 proc ?pp ?lc ?w] => destruct (put_self s nn nd0 proc pp lc w) as [X1 X2] end.
          eexists _, _. split; [exact X1|]. split; [exact Hcr|]. split; [exact X2|].
          unfold HandoffSim.PeR, Sim.pe_with, McSys.pe_with; cbn [pe_state pe_outbox pe_ptimers pe_sent pe_recv]. repeat split; auto.
          intros k. rewrite !shas_sins_N, R3. reflexivity.
        * rewrite Hdl. cbn [put_proc y_with y_q w_q apush pend]. rewrite Hlive, Hclk.
          rewrite (filter_app_all _ _ _ true).
          2:{ intros e [<-|[]]. apply (dlv_own s _ nn nd0 B Hnd Hcr). reflexivity. }
          apply EvR3_push_timer; auto.
          -- intros x Hx. apply filter_In in Hx. cbn [mk_ev q_id]. apply (live_lt s x B (proj1 Hx)).
          -- intros x Hx. apply filter_In in Hx. apply Hfresh. apply Hx.
          -- apply ainv_fresh. exact AI.
        * apply ainv_apush_new. exact AI.
        * cbn [McSys.pe_with pe_ptimers]. apply TimOK_push_new. exact TOK.
        * cbn [apush pend]. apply minv_push; [exact MI|]. intros _. exact I.
    - (* ---- cancel timer ---- *)
      cbn [Sim.node_action] in Hna. cbn [McSys.node_action] in Hma.
      destruct (sget N.compare n (pe_ptimers p0)) as [i|] eqn:Ei.
      + hinv Hna.
        assert (Hs : shas N.compare n (pe_ptimers pM) = true) by (rewrite <- R3; unfold shas; rewrite Ei; reflexivity).
        rewrite Hs in Hma. hinv Hma.
        destruct (TOK n Hs) as (j & dj & Hg & Hj).
        cbn [add_events bind so_cancel_timer abstract_ops] in Hadd.
        rewrite (a_cancel_timer_eq _ _ _ j Hg) in Hadd by (apply in_ids; eauto). cbn [bind] in Hadd. hinv Hadd.
        cbn [sys_with s_nodes s_net s_events s_mf]. split; [|auto]. exists debt.
        destruct (ti_pending_live _ TI _ _ _ _ _ _ Hnd Hcr Hp Ei) as (ev & Hev & Hid & Hdat & _ & Hdst).
        constructor; [exact B'|exact TI'| |exact NR|exact CA'| | | | | |exact DK].
        * apply tloc_put with (p := p0); auto. cbn [w_q world_of]. intros e pp k He Hd.
          apply live_cancel_in3 in He. destruct He as [He Hne]. split; [|auto]. intros ->.
          cbn [Sim.pe_with pe_ptimers]. rewrite sgetN_srem.
          pose proof (tloc_proc s nn nd0 proc p0 e k B TL Hnd Hp He Hd) as Hk.
          destruct (N.eqb_spec k n) as [->|Hkn]; [|exact Hk]. exfalso. congruence.
        * match goal with |- context [put_proc s nn nd0 proc ?pp ?lc ?w] => destruct (put_self s nn nd0 proc pp lc w) as [X1 X2] end.
          eexists _, _. split; [exact X1|]. split; [exact Hcr|]. split; [exact X2|].
          unfold HandoffSim.PeR, Sim.pe_with, McSys.pe_with; cbn [pe_state pe_outbox pe_ptimers pe_sent pe_recv]. repeat split; auto.
          intros k. rewrite !shas_srem_N, R3. reflexivity.
        * rewrite Hdl. cbn [put_proc y_with y_q w_q world_of acancel pend]. rewrite q_live_cancel. cbn [q_cancel q_with q_clock].
          rewrite filter_filter_comm. rewrite <- Hid.
          apply EvR3_remove with (clk := q_clock (y_q s)) (x := ETimer proc n dj); auto.
          -- apply NoDup_map_filter. apply q_live_nodup. apply (qw_nodup _ _ (bi_q _ B)).
          -- apply AI.
          -- apply filter_In. split; [exact Hev|]. apply (dlv_own s ev nn nd0 B Hnd Hcr Hdst).
          -- cbn. symmetry. apply c_of_q_timer. exact Hdat.
          -- apply (le_refl ops laws).
        * apply ainv_acancel. exact AI.
        * cbn [McSys.pe_with pe_ptimers]. eapply TimOK_acancel; eauto.
          -- apply AI.
          -- intros _. rewrite shas_srem_N, N.eqb_refl. reflexivity.
          -- apply TimOK_srem. exact TOK.
        * cbn [acancel pend]. apply minv_aremove. exact MI.
      + hinv Hna.
        assert (Hs : shas N.compare n (pe_ptimers pM) = false) by (rewrite <- R3; unfold shas; rewrite Ei; reflexivity).
        rewrite Hs in Hma. hinv Hma. cbn [add_events] in Hadd. hinv Hadd. split; [|auto]. exists debt.
        constructor; [exact B'|exact TI'| |exact NR|exact CA'| |exact EV|exact AI|exact TOK|exact MI|exact DK].
        * apply tloc_put with (p := p0); auto. cbn [w_q world_of]. intros e pp k He Hd. split; [|auto].
          intros ->. cbn [Sim.pe_with pe_ptimers]. apply (tloc_proc s nn nd0 proc p0 e k B TL Hnd Hp He Hd).
        * match goal with |- context [put_proc s nn nd0 proc ?pp ?lc ?w] => destruct (put_self s nn nd0 proc pp lc w) as [X1 X2] end.
          eexists _, _. split; [exact X1|]. split; [exact Hcr|]. split; [exact X2|].
          unfold HandoffSim.PeR, Sim.pe_with, McSys.pe_with; cbn [pe_state pe_outbox pe_ptimers pe_sent pe_recv]. repeat split; auto.
  Qed.

  Lemma actions_sim3 nn proc atime acts : forall (s : simsys) (pM : pentry) (mX : rsys) debt s' pM' evs logs mX',
    HRel3 nn proc s pM (s_events mX) (s_net mX) debt ->
    ofree (pe_ptimers pM) acts ->
    (forall m dst, In (ASend m dst) acts -> Sent m proc dst) ->
    sys_actions s nn proc acts = Ok s' ->
    McSys.node_actions proc atime pM acts = (pM', evs, logs) ->
    add_events so tgt0 teq0 mX evs = Ok mX' ->
    (exists debt', HRel3 nn proc s' pM' (s_events mX') (s_net mX') debt') /\
    s_nodes mX' = s_nodes mX /\ s_net mX' = s_net mX /\ s_mf mX' = s_mf mX /\ SFr nn proc s s'.
  Proof.
    induction acts as [|a r IH]; intros s pM mX debt s' pM' evs logs mX' HR Hof Hsent Hs Hm Hadd.
    - cbn [SimBaseP.sys_actions] in Hs. hinv Hs. cbn [McSys.node_actions] in Hm. hinv Hm.
      cbn [add_events] in Hadd. hinv Hadd. split; [exists debt; exact HR|]. split; [reflexivity|]. split; [reflexivity|]. split; [reflexivity|]. apply SFr_refl.
    - cbn [SimBaseP.sys_actions] in Hs.
      destruct (sys_action s nn proc a) as [s1|] eqn:Es1; cbn [bind] in Hs; [|discriminate].
      cbn [McSys.node_actions] in Hm.
      destruct (McSys.node_action proc atime pM a) as [[p1 e1] l1] eqn:Ea.
      destruct (McSys.node_actions proc atime p1 r) as [[p2 e2] l2] eqn:Er. inversion Hm; subst pM' evs logs; clear Hm.
      rewrite add_events_app in Hadd.
      destruct (add_events so tgt0 teq0 mX e1) as [m1|] eqn:Em1; cbn [bind] in Hadd; [|discriminate].
      destruct Hof as [Hof1 Hof2].
      destruct (action_sim3 nn proc atime s pM mX debt a s1 p1 e1 l1 m1 HR Hof1) as ((debt1 & HR1) & N1 & N2 & N3 & F1); auto.
      { intros m dst ->. apply Hsent. left. reflexivity. }
      assert (Hp1 : pe_ptimers p1 = pt_step (pe_ptimers pM) a).
      { pose proof (mc_action_ptimers proc atime pM a) as X. rewrite Ea in X. exact X. }
      rewrite <- Hp1 in Hof2.
      destruct (IH s1 p1 m1 debt1 s' p2 e2 l2 mX' HR1 Hof2) as (HR2 & M1 & M2 & M3 & F2); auto.
      { intros m dst Hi. apply Hsent. right. exact Hi. }
      split; [exact HR2|]. split; [congruence|]. split; [congruence|]. split; [congruence|]. eapply SFr_trans; eauto.
  Qed.

  (* ---------------------------------------------------------------------------------------------- *)
  (* 3. one step of the simulator                                                                    *)
  (* ---------------------------------------------------------------------------------------------- *)
  Hypothesis handler_closed : forall proc st inp time rand m dst,
    In (ASend m dst) (snd (handlerM proc st inp time rand)) -> In dst known.
  Hypothesis handler_agree : forall proc st inp t1 r1 t2 r2,
    handlerM proc st inp t1 r1 = fst (handlerS proc st inp t2 r2).

  Notation Reachable := (Reachable ops handlerS init_state draws crash_order).
  Notation step := (step ops handlerS draws).
  Notation RSteps := (RefWf.Steps tgt0 teq0 t0 clock handlerM DS mc_rand ds_of (tleb ops) sevent_eqb).
  Notation take := (take_choice so tgt0 teq0 t0 clock handlerM DS mc_rand ds_of).
  Notation StepOF := (StepOF ops handlerM).

  (* the relation between the steps ([debt] = []) and while the checker pays the debt of the last step *)
  Record Rel3D (s : simsys) (m : rsys) (debt : list debt_unit) : Prop := {
    r3_reach : Reachable s;
    r3_awf : AWf known m;
    r3_mf : s_mf m = false;
    r3_netr : NetR3 (y_net s) (s_net m);
    r3_crash : CrashAgree s;
    r3_nodes : NodesR (y_nodes s) (s_nodes m);
    r3_ev : EvR3 (dlive s) (q_clock (y_q s)) (pend (s_events m)) debt;
    r3_minv : MInv (s_net m) (pend (s_events m));
    r3_debt : Forall (DebtOK (s_net m)) debt }.
  Definition Rel3 (s : simsys) (m : rsys) : Prop := Rel3D s m [].

  Lemma deliver_sim3 (s : simsys) (m : rsys) q' e s' nn nd p st' acts used i x m' :
    Rel3 s m -> StepOF s ->
    q_next ops (y_q s) = (q', Some e) ->
    sget N.compare nn (y_nodes s) = Some nd -> sd_crashed nd = false -> sd_id nd = q_dst e ->
    sget N.compare (fst (ev_kind e)) (sd_procs nd) = Some p ->
    handlerS (fst (ev_kind e)) (pe_state (fst (pre_pe nn (fst (ev_kind e)) (q_clock q') p (snd (ev_kind e)))))
             (k_input (snd (ev_kind e))) (tadd ops (q_clock q') (sd_skew nd))
             (fun j => draws (q_rand q' + j)%nat) = (st', acts, used) ->
    sys_actions (pre_state (with_q s q') nn nd (fst (ev_kind e)) p (snd (ev_kind e)) st' used) nn (fst (ev_kind e)) acts = Ok s' ->
    In (i, x) (pend (s_events m)) -> c_of_s x = c_of_q e -> pot x = 1%nat ->
    take m (ChDeliver i) = Ok m' ->
    exists debt,
      NodesR (y_nodes s') (s_nodes m') /\ EvR3 (dlive s') (q_clock (y_q s')) (pend (s_events m')) debt /\
      NetR3 (y_net s') (s_net m') /\ s_mf m' = s_mf m /\ CrashAgree s' /\
      MInv (s_net m') (pend (s_events m')) /\ Forall (DebtOK (s_net m')) debt.
  Proof.
    intros [HR HW Hmf NR CA ND EV MI _] HOF Hnext Hnd Hcr Hid Hp Hh Hacts Hix Hc Hpot Htake.
    pose proof (reachable_base ops handlerS init_state draws crash_order s HR) as B.
    pose proof (timer_reachable ops handlerS init_state draws crash_order s HR) as TI.
    pose proof (tloc_reachable ops handlerS init_state draws crash_order s HR) as TL.
    pose proof (Reachable_TimeInv ops handlerS init_state draws crash_order laws s HR) as TM.
    pose proof (qw_nodup _ _ (bi_q _ B)) as Hnodup.
    destruct (SimBaseP.q_next_spec ops (y_q s) q' (Some e) Hnodup Hnext) as [Hsh _].
    destruct (q_next_some ops handlerS init_state draws laws (y_q s) q' e TM Hnext) as (He & Hmin & Hl & Hclk & _).
    pose proof (SimTimeP.q_next_spec ops handlerS init_state draws laws (y_q s)) as Hq. rewrite Hnext in Hq.
    destruct Hq as (_ & _ & _ & Hlive & _).
    pose proof (qt_future _ _ TM e He) as Hfut.
    pose proof (HOF q' e nn nd p) as HOFe.
    destruct HW as (HP & HA & HE & HD & HT).
    set (proc := fst (ev_kind e)) in *. set (kS := snd (ev_kind e)) in *.
    cbn [take_choice so_pop abstract_ops] in Htake.
    rewrite (a_pop_eq _ i x (in_lookup _ _ _ (proj1 HA) Hix)) in Htake. cbn [bind] in Htake.
    destruct (apply_event_kind ops tgt0 teq0 t0 clock handlerM DS mc_rand ds_of sevent_eqb
                (with_events m (apop (s_events m) i)) e x Hc) as [Hap Hkind].
    rewrite Hap in Htake. clear Hap. fold proc kS in Htake, Hkind.
    cbn [with_events sys_with s_nodes s_net s_events s_depth s_trace] in Htake.
    assert (Hloc : sget N.compare proc (n_loc (s_net m)) = Some nn).
    { destruct NR as [-> _]. apply (bi_loc _ B). apply (bi_proc_fwd _ B _ _ _ _ Hnd Hp). }
    pose proof (ND nn) as NDn. rewrite Hnd in NDn.
    destruct (sget N.compare nn (s_nodes m)) as [ndM|] eqn:HndM; [|contradiction]. destruct NDn as (C1 & C2 & PRs).
    pose proof (PRs proc) as PRp. rewrite Hp in PRp.
    destruct (sget N.compare proc (nd_procs ndM)) as [pM|] eqn:HpM; [|contradiction].
    assert (HcM : nd_crashed ndM = false) by congruence.
    match type of Htake with McSys.deliver _ _ _ _ _ _ _ _ _ ?m1 _ _ = _ =>
      destruct (mc_deliver_inv ops tgt0 teq0 t0 clock handlerM DS mc_rand ds_of sevent_eqb m1 proc (mk_of kS) nn ndM pM m'
                  Hloc HndM HcM HpM Htake)
        as (time & rand & stM & actsM & atime & p3 & evs & logs & EhM & En & Hadd) end.
    cbn [sys_with s_nodes s_net s_events s_depth s_trace] in Hadd.
    pose proof (handler_agree proc (pe_state pM) (mk_input (mk_of kS)) time rand
                  (tadd ops (q_clock q') (sd_skew nd)) (fun j => draws (q_rand q' + j)%nat)) as HAg.
    rewrite EhM, mk_input_of in HAg.
    assert (Hst : pe_state pM = pe_state (fst (pre_pe nn proc (q_clock q') p kS))).
    { rewrite pre_pe_state. symmetry. apply PRp. }
    rewrite Hst, Hh in HAg. cbn [fst] in HAg. hinv HAg.
    specialize (HOFe time rand Hnext Hnd Hid Hp).
    assert (Hsp : pe_state p = pe_state pM) by apply PRp.
    rewrite Hsp, <- mk_input_of, EhM in HOFe. cbn [snd] in HOFe.
    assert (Hsent : forall mm dd, In (ASend mm dd) acts -> Sent mm proc dd).
    { intros mm dd Hi. exists (pe_state pM), (mk_input (mk_of kS)), time, rand. rewrite EhM. exact Hi. }
    set (s1 := pre_state (with_q s q') nn nd proc p kS st' used) in *.
    set (p2M := McSys.pe_with (mc_pre proc (mk_of kS) pM) st' (pe_evlog (mc_pre proc (mk_of kS) pM))
                              (pe_outbox (mc_pre proc (mk_of kS) pM)) (pe_ptimers (mc_pre proc (mk_of kS) pM))
                              (pe_sent (mc_pre proc (mk_of kS) pM)) (pe_recv (mc_pre proc (mk_of kS) pM))) in *.
    set (ndM' := nd_with_procs ndM (sins N.compare proc p3 (nd_procs ndM))) in *.
    match type of Hadd with add_events _ _ _ ?mm _ = _ => set (mX := mm) in * end.
    assert (B1 : BaseInv (with_q s q')) by (apply base_with_q_shrink; auto).
    pose proof (pre_per t0 nn proc (q_clock q') p pM kS st' PRp) as PRpre. fold p2M in PRpre.
    assert (Hdlv : dlv (y_handlers s) e = true) by (apply (dlv_own s e nn nd B Hnd Hcr); symmetry; exact Hid).
    assert (HR1 : HRel3 nn proc s1 p2M (s_events mX) (s_net mX) []).
    { constructor.
      - apply (base_pre_state handlerS init_state); auto.
      - apply (timer_deliver ops handlerS init_state draws crash_order s q' e nn nd p st' used B TI Hnext Hnd Hcr); auto.
      - apply tloc_pre; auto.
      - exact NR.
      - unfold s1, pre_state. apply crash_agree_put; [exact CA|exact Hnd].
      - unfold s1, pre_state.
        match goal with |- context [put_proc ?ss nn nd proc ?pp ?lc ?w] => destruct (put_self ss nn nd proc pp lc w) as [X1 X2] end.
        eexists _, _. split; [exact X1|]. split; [exact Hcr|]. split; [exact X2|]. exact PRpre.
      - cbn [mX sys_with s_events apop pend]. unfold HandoffSim2.dlive, s1, pre_state. cbn [put_proc y_with y_q y_handlers w_q with_q].
        change (q_live (q_used q' used)) with (q_live q'). change (q_clock (q_used q' used)) with (q_clock q').
        rewrite Hlive, Hclk, filter_filter_comm.
        apply EvR3_remove with (clk := q_clock (y_q s)) (x := x); auto.
        + apply NoDup_map_filter. apply q_live_nodup. exact Hnodup.
        + apply HA.
        + apply filter_In. split; [exact He|exact Hdlv].
      - cbn [mX sys_with s_events]. apply ainv_apop. exact HA.
      - cbn [mX sys_with s_events]. unfold p2M, McSys.pe_with. cbn [pe_ptimers].
        pose proof (HT nn ndM proc pM HndM HcM HpM) as TOK.
        destruct kS as [mid msg from fn|name|msg] eqn:Ek; cbn [mk_of HandoffSim.mc_pre McSys.pe_with pe_ptimers].
        + apply (TimOK_apop _ i x proc _ (proj1 HA) Hix); auto.
          intros n0 d0 Hx. destruct (Hkind _ _ _ Hx) as [_ Hk]. discriminate.
        + apply (TimOK_apop _ i x proc _ (proj1 HA) Hix); [|apply TimOK_srem; exact TOK].
          intros n0 d0 Hx. destruct (Hkind _ _ _ Hx) as [_ Hk]. hinv Hk. rewrite shas_srem_N, N.eqb_refl. reflexivity.
        + apply (TimOK_apop _ i x proc _ (proj1 HA) Hix); auto.
          intros n0 d0 Hx. destruct (Hkind _ _ _ Hx) as [_ Hk]. discriminate.
      - cbn [mX sys_with s_events s_net apop pend]. apply minv_aremove. exact MI.
      - constructor. }
    assert (Hof2 : ofree (pe_ptimers p2M) acts).
    { eapply ofree_ext; [|exact HOFe]. intros n0. destruct PRpre as (_ & _ & R3 & _). apply R3. }
    destruct (actions_sim3 nn proc atime acts s1 p2M mX [] s' p3 evs logs m' HR1 Hof2 Hsent Hacts En Hadd)
      as ((debt & HR2) & N1 & N2 & N3 & F2).
    cbn [mX sys_with s_nodes s_net s_mf] in N1, N2, N3.
    assert (F1 : SFr nn proc (with_q s q') s1) by (apply SFr_put; exact Hnd).
    pose proof (SFr_trans _ _ _ _ _ F1 F2) as [FO FN]. cbn [with_q y_with y_nodes] in FO, FN.
    destruct HR2 as [_ _ _ NR2 CA2 (nd2 & pfin & Hnd2 & Hcr2 & Hp2 & PR2) EV2 _ _ MI2 DK2].
    destruct (FN nd Hnd) as (nd2' & Hnd2' & Fc & Fs & Fq). rewrite Hnd2 in Hnd2'. hinv Hnd2'.
    exists debt.
    split; [|split; [exact EV2|split; [exact NR2|split; [exact N3|split; [exact CA2|split; [exact MI2|exact DK2]]]]]].
    intros y. rewrite N1, sget_sins_N. destruct (N.eqb_spec y nn) as [->|Hy].
    - rewrite Hnd2. cbn [ndM' nd_with_procs nd_crashed nd_skew nd_procs]. split; [congruence|]. split; [congruence|].
      intros q. rewrite sget_sins_N. destruct (N.eqb_spec q proc) as [->|Hq].
      + rewrite Hp2. exact PR2.
      + rewrite (Fq q Hq). apply PRs.
    - rewrite (FO y Hy). apply ND.
  Qed.


  (* ---- the checker's corruption step, unfolded ---- *)
  Lemma take_corrupt (m : rsys) i msg src dst dd k cc :
    AInv (s_events m) -> In (i, EMsg msg src dst (Possible dd k cc)) (pend (s_events m)) ->
    exists m1, take m (ChCorrupt i) = Ok m1 /\ s_nodes m1 = s_nodes m /\ s_net m1 = s_net m /\ s_mf m1 = s_mf m /\
      pend (s_events m1) = aremove i (pend (s_events m)) ++ [(i, EMsg (corrupt_msg msg) src dst (Possible dd k false))].
  Proof.
    intros HA Hi. cbn [take_choice so_pop so_push_fixed abstract_ops].
    rewrite (a_pop_eq _ i _ (in_lookup _ _ _ (proj1 HA) Hi)). cbn [bind].
    rewrite a_push_fixed_eq.
    - cbn [bind apply_event]. eexists. split; [reflexivity|].
      cbn [sys_with with_events s_nodes s_net s_mf s_events apush apop pend]. auto.
    - reflexivity.
    - cbn [apop pend]. intros X. apply ids_aremove in X. destruct X as [_ X]. apply X. reflexivity.
    - cbn [apop anext]. destruct HA as [_ HF]. rewrite Forall_forall in HF. apply (HF _ Hi).
  Qed.

  Lemma enabled_of (m : rsys) i x c :
    AInv (s_events m) -> s_mf m = false -> In (i, x) (pend (s_events m)) -> In i (offset (tleb ops) (pend (s_events m))) ->
    (forall cs, alternatives so m i = Ok cs -> In c cs) ->
    Enabled (tleb ops) sevent_eqb m c.
  Proof.
    intros HA Hmf Hix Hoff Hc.
    assert (Hlk : lookup (pend (s_events m)) i = Some x) by (apply in_lookup; [apply HA|exact Hix]).
    assert (Hal : exists cs, alternatives so m i = Ok cs).
    { unfold alternatives. cbn [so_get abstract_ops]. rewrite aget_lookup, Hlk.
      destruct x as [mm ss dd [md|cd du cc]|pp nn0 dd]; eexists; reflexivity. }
    destruct Hal as (cs & Hal). exists (offset (tleb ops) (pend (s_events m))), i, cs.
    split; [|split; [exact Hoff|split; [exact Hal|exact (Hc cs Hal)]]].
    unfold available. cbn [so_offered abstract_ops]. unfold aoffered. rewrite Hmf. reflexivity.
  Qed.

  (* splitting the oldest pending message of a non-empty identical group until it stands for exactly one copy *)
  Lemma unit_ready : forall n (m : rsys) (s : simsys) debt msg src dst,
    (budget (pend (s_events m)) <= n)%nat -> Rel3D s m debt -> In (CMsg msg src dst) (expand (pend (s_events m))) ->
    exists m1 i o, RSteps m m1 /\ Rel3D s m1 debt /\ In (i, EMsg msg src dst o) (pend (s_events m1)) /\
                   In i (offset (tleb ops) (pend (s_events m1))) /\ pot (EMsg msg src dst o) = 1%nat.
  Proof.
    induction n as [|n IH]; intros m s debt msg src dst Hb HRl Hin; pose proof HRl as [HR HW Hmf NR CA ND EV MI DK];
      pose proof HW as (_ & HA & _);
      destruct (oldest_offered (tleb ops) _ msg src dst (proj1 HA) Hin) as (i & o & Hi & Hoff).
    - exists m, i, o. split; [apply steps_refl|]. split; [exact HRl|]. split; [exact Hi|]. split; [exact Hoff|].
      pose proof (budget_in _ _ _ Hi). pose proof (pot_pos (EMsg msg src dst o)). lia.
    - destruct (PeanoNat.Nat.eq_dec (pot (EMsg msg src dst o)) 1) as [Hp1|Hp1].
      + exists m, i, o. split; [apply steps_refl|]. split; [exact HRl|]. auto.
      + destruct o as [md|dd k cc]; [exfalso; apply Hp1; reflexivity|].
        assert (Hk : k <> 0) by (intros ->; apply Hp1; reflexivity).
        assert (HEn : Enabled (tleb ops) sevent_eqb m (ChDup i)).
        { apply (enabled_of m i _ (ChDup i) HA Hmf Hi Hoff). intros cs Hcs.
          unfold alternatives in Hcs. cbn [so_get abstract_ops] in Hcs. rewrite aget_lookup, (in_lookup _ _ _ (proj1 HA) Hi) in Hcs.
          injection Hcs as <-. cbn [app In]. right. apply in_or_app. right. apply in_or_app. right.
          assert (Hlt : N.ltb 0 k = true) by (apply N.ltb_lt; lia). rewrite Hlt. left. reflexivity. }
        destruct (take_choice_ok tgt0 teq0 t0 clock handlerM DS mc_rand ds_of (tleb ops) sevent_eqb known handler_closed m
                    (ChDup i) HW HEn) as (m1 & Htake & HW1 & _).
        destruct (take_dup ops tgt0 teq0 t0 clock handlerM DS mc_rand ds_of sevent_eqb m i msg src dst dd k cc HA Hi Hk)
          as (m1' & Htake' & N1 & N2 & N3 & N4).
        rewrite Htake in Htake'. hinv Htake'.
        assert (HR1 : Rel3D s m1' debt).
        { constructor; [exact HR|exact HW1|congruence|rewrite N2; exact NR|exact CA|rewrite N1; exact ND| | |rewrite N2; exact DK].
          - rewrite N4. apply EvR3_split; auto. apply HA.
          - rewrite N2, N4. intros G j y Hj. apply in_app_iff in Hj. destruct Hj as [Hj|[Hj|[]]].
            + apply in_app_iff in Hj. destruct Hj as [Hj|[Hj|[]]].
              * apply in_aremove in Hj. exact (MI G j y (proj1 Hj)).
              * hinv Hj. exact (evokc_budget _ _ _ _ _ _ _ _ _ (MI G _ _ Hi)).
            + hinv Hj. exact (evokc_budget _ _ _ _ _ _ _ _ _ (MI G _ _ Hi)). }
        assert (Hb1 : (budget (pend (s_events m1')) <= n)%nat).
        { rewrite N4. pose proof (budget_split (pend (s_events m)) i (anext (s_events m)) msg src dst dd k cc (proj1 HA) Hi Hk) as Hbs.
          rewrite <- Hbs in Hb. apply le_S_n. exact Hb. }
        assert (Hin1 : In (CMsg msg src dst) (expand (pend (s_events m1')))).
        { rewrite N4. apply in_expand. exists (anext (s_events m), EMsg msg src dst (Possible dd 0 cc)). split; [|reflexivity].
          apply in_app_iff. right. left. reflexivity. }
        destruct (IH m1' s debt msg src dst Hb1 HR1 Hin1) as (m2 & i2 & o2 & Hst & HR2 & X).
        exists m2, i2, o2. split; [|split; [exact HR2|exact X]].
        eapply steps_cons; [exact HEn|exact Htake|exact Hst].
  Qed.

  (* one unit of the debt: the oldest identical pending copy is corrupted *)
  Lemma pay_one (s : simsys) (m : rsys) u debt :
    Rel3D s m (u :: debt) -> exists m1, RSteps m m1 /\ Rel3D s m1 debt.
  Proof.
    intros HRl. pose proof HRl as [HR HW Hmf NR CA ND EV MI DK].
    destruct u as [[msg src] dst]. inversion DK as [|? ? DKu DKr]; subst.
    destruct DKu as (Hne & Hs & G & a & b & La & Lb & Hab).
    assert (Hin : In (CMsg msg src dst) (expand (pend (s_events m)))).
    { destruct (permd_debt_in _ _ _ (msg, src, dst) (e3_perm _ _ _ _ _ EV) (or_introl eq_refl)) as [H|H]; [exact H|].
      exfalso. apply in_map_iff in H. destruct H as ([[m2 s2] d2] & Hc & Hu). cbn [dc dm] in Hc. hinv Hc.
      assert (Hu' : DebtOK (s_net m) (m2, src, dst)) by (rewrite Forall_forall in DK; apply DK; exact Hu).
      destruct Hu' as (_ & Hs2 & _). apply Hne. destruct Hs as (st & inp & t & r & Hi).
      exact (img_stable G m2 src dst Hs2 st inp t r Hi). }
    destruct (unit_ready (budget (pend (s_events m))) m s _ msg src dst (le_n _) HRl Hin)
      as (m1 & i & o & Hst & HRl1 & Hi & Hoff & Hpot).
    clear HR HW Hmf NR CA ND EV MI DK DKr La Lb Hin.
    pose proof HRl1 as [HR HW Hmf NR CA ND EV MI DK]. pose proof HW as (_ & HA & _).
    inversion DK as [|? ? DKu DKr]; subst. destruct DKu as (_ & _ & _ & a' & b' & La & Lb & Hab').
    (* the oldest copy is corruptible *)
    assert (Ho : exists dd, o = Possible dd 0 true).
    { destruct (MI G i _ Hi) as [(c & Hc1 & Hc2)|[(dd & k & ->)|Hstab]].
      - exfalso. rewrite La in Hc1. rewrite Lb in Hc2. apply Hab'. congruence.
      - exists dd. cbn [pot] in Hpot. f_equal. lia.
      - exfalso. apply Hne. destruct Hs as (st & inp & t & r & Hsi). exact (Hstab st inp t r Hsi). }
    destruct Ho as (dd & ->).
    assert (HEn : Enabled (tleb ops) sevent_eqb m1 (ChCorrupt i)).
    { apply (enabled_of m1 i _ (ChCorrupt i) HA Hmf Hi Hoff). intros cs Hcs.
      unfold alternatives in Hcs. cbn [so_get abstract_ops] in Hcs. rewrite aget_lookup, (in_lookup _ _ _ (proj1 HA) Hi) in Hcs.
      injection Hcs as <-. cbn [app In]. right. apply in_or_app. right. left. reflexivity. }
    destruct (take_choice_ok tgt0 teq0 t0 clock handlerM DS mc_rand ds_of (tleb ops) sevent_eqb known handler_closed m1
                (ChCorrupt i) HW HEn) as (m2 & Htake & HW2 & _).
    destruct (take_corrupt m1 i msg src dst dd 0 true HA Hi) as (m2' & Htake' & N1 & N2 & N3 & N4).
    rewrite Htake in Htake'. hinv Htake'.
    exists m2'. split.
    - eapply rsteps_trans2; [exact Hst|]. eapply steps_cons; [exact HEn|exact Htake|apply steps_refl].
    - constructor; [exact HR|exact HW2|congruence|rewrite N2; exact NR|exact CA|rewrite N1; exact ND| | |rewrite N2; exact DKr].
      + rewrite N4. apply EvR3_pay with (cc := true); auto. apply HA.
      + rewrite N2, N4. intros G' j y Hj. apply in_app_iff in Hj. destruct Hj as [Hj|[Hj|[]]].
        * apply in_aremove in Hj. exact (MI G' j y (proj1 Hj)).
        * hinv Hj. right. right. apply (img_stable G' msg src dst Hs).
  Qed.


  Lemma pay_all (s : simsys) : forall debt (m : rsys), Rel3D s m debt -> exists m1, RSteps m m1 /\ Rel3 s m1.
  Proof.
    induction debt as [|u debt IH]; intros m HR.
    - exists m. split; [apply steps_refl|exact HR].
    - destruct (pay_one s m u debt HR) as (m1 & Hst & HR1). destruct (IH m1 HR1) as (m2 & Hst2 & HR2).
      exists m2. split; [|exact HR2]. eapply rsteps_trans2; eauto.
  Qed.

  Lemma ready3 (s : simsys) (m : rsys) e :
    Rel3 s m -> In e (dlive s) -> (forall y, In y (dlive s) -> y <> e -> key_lt ops e y) ->
    exists m1 i x, RSteps m m1 /\ Rel3 s m1 /\ In (i, x) (pend (s_events m1)) /\
                   In i (offset (tleb ops) (pend (s_events m1))) /\ c_of_s x = c_of_q e /\ pot x = 1%nat.
  Proof.
    intros HRl He Hmin. pose proof HRl as [HR HW Hmf NR CA ND EV MI DK]. pose proof HW as (_ & HA & _).
    destruct (q_data e) as [mid msg src sn dst dn|pp n] eqn:Ed.
    - assert (Hc : c_of_q e = CMsg msg src dst) by (unfold c_of_q; rewrite Ed; reflexivity).
      pose proof (live_msg_pending ops _ _ _ e msg src dst EV He Hc) as Hin.
      destruct (unit_ready (budget (pend (s_events m))) m s [] msg src dst (le_n _) HRl Hin)
        as (m1 & i & o & Hst & HR1 & Hi & Hoff & Hpot).
      exists m1, i, (EMsg msg src dst o). rewrite Hc. auto 10.
    - destruct (min_timer_offered3 ops laws (tleb ops) eq_refl _ _ _ _ e pp n EV (proj1 HA) He Ed Hmin) as (i & d & Hi & Ho).
      exists m, i, (ETimer pp n d). split; [apply steps_refl|]. split; [exact HRl|]. split; [exact Hi|]. split; [exact Ho|].
      split; [symmetry; apply c_of_q_timer; exact Ed|reflexivity].
  Qed.

  Theorem step_sim3 (s : simsys) (m : rsys) s' b :
    Rel3 s m -> StepOF s -> step s = Ok (s', b) -> exists m', RSteps m m' /\ Rel3 s' m'.
  Proof.
    intros HRl HOF Hs. pose proof HRl as [HR HW Hmf NR CA ND EV MI DK].
    pose proof (reachable_base ops handlerS init_state draws crash_order s HR) as B.
    pose proof (Reachable_TimeInv ops handlerS init_state draws crash_order laws s HR) as TM.
    pose proof (reachable_step ops handlerS init_state draws crash_order s s' b HR Hs) as HR'.
    destruct (step_contract ops handlerS init_state draws crash_order laws s s' b TM Hs) as [_ C].
    destruct b.
    - destruct C as (e & q' & Hnext & Hdel & He & Hmin & _ & Hclk & _).
      destruct (live_dst_node ops handlerS init_state draws crash_order s e HR He) as (name & nd0 & G1 & G2 & G3).
      pose proof (SimTimeP.q_next_spec ops handlerS init_state draws laws (y_q s)) as Hq. rewrite Hnext in Hq.
      destruct Hq as (_ & _ & _ & Hlive & _).
      destruct (sd_crashed nd0) eqn:Ecr; cbn [negb] in G3.
      + unfold deliver in Hdel. cbn [popped y_with y_handlers] in Hdel. rewrite G3 in Hdel. hinv Hdel.
        exists m. split; [apply steps_refl|]. constructor; auto.
        unfold HandoffSim2.dlive. cbn [popped y_with y_q y_handlers]. rewrite Hlive, filter_filter_comm, Hclk.
        rewrite filter_id_in.
        * apply (EvR3_clock ops laws _ (q_clock (y_q s))); [apply (qt_future _ _ TM e He)|exact EV].
        * intros y Hy. apply filter_In in Hy. destruct Hy as [Hy Hd]. apply negb_true_iff, N.eqb_neq. intros E.
          rewrite (live_id_inj s y e B Hy He E) in Hd. unfold HandoffSim2.dlv in Hd. rewrite G3 in Hd. discriminate.
      + destruct (deliver_decomp ops handlerS draws s q' e s' B G3 Hdel)
          as (nn & nd & p & st' & acts & used & D1 & D2 & D3 & D4 & D5 & D6).
        assert (Hed : In e (dlive s)).
        { apply filter_In. split; [exact He|]. unfold HandoffSim2.dlv. rewrite G3. reflexivity. }
        destruct (ready3 s m e HRl Hed) as (m1 & i & x & Hst1 & HRl1 & Hix & Hoff & Hc & Hpot).
        { intros y Hy Hne. apply filter_In in Hy. apply Hmin; tauto. }
        pose proof HRl1 as [_ HW1 Hmf1 _ _ _ _ _ _]. pose proof HW1 as (_ & HA1 & _).
        assert (HEn : Enabled (tleb ops) sevent_eqb m1 (ChDeliver i)).
        { apply (enabled_of m1 i x (ChDeliver i) HA1 Hmf1 Hix Hoff). intros cs Hcs.
          unfold alternatives in Hcs. cbn [so_get abstract_ops] in Hcs. rewrite aget_lookup, (in_lookup _ _ _ (proj1 HA1) Hix) in Hcs.
          destruct x as [mm ss dd [md|cd du cc]|pp nn0 dd]; injection Hcs as <-; left; reflexivity. }
        destruct (take_choice_ok tgt0 teq0 t0 clock handlerM DS mc_rand ds_of (tleb ops) sevent_eqb known handler_closed m1
                    (ChDeliver i) HW1 HEn) as (m' & Htake & HW' & _).
        destruct (deliver_sim3 s m1 q' e s' nn nd p st' acts used i x m' HRl1 HOF Hnext D1 D2 D3 D4 D5 D6 Hix Hc Hpot Htake)
          as (debt & R1 & R2 & R3 & R4 & R5 & R6 & R7).
        assert (HRD : Rel3D s' m' debt) by (constructor; auto; congruence).
        destruct (pay_all s' debt m' HRD) as (m2 & Hst2 & HR2).
        exists m2. split; [|exact HR2].
        eapply rsteps_trans2; [exact Hst1|]. eapply steps_cons; [exact HEn|exact Htake|exact Hst2].
    - destruct C as (L1 & L2 & Hnow & [F1 F2 _ F4 _ _] & _). exists m. split; [apply steps_refl|].
      constructor; auto.
      + rewrite F1. exact NR.
      + unfold HandoffSim2.CrashAgree. rewrite F2. exact CA.
      + rewrite F2. exact ND.
      + unfold HandoffSim2.dlive. unfold now in Hnow. rewrite L2, Hnow. unfold HandoffSim2.dlive in EV. rewrite L1 in EV. exact EV.
  Qed.


  (* ---------------------------------------------------------------------------------------------- *)
  (* 4. the snapshot                                                                                 *)
  (* ---------------------------------------------------------------------------------------------- *)
  Hypothesis sub_add_le : forall t c d, tle (tsub ops t c) d -> tle t (tadd ops c d).

  Lemma tmax0_ge3 d : tle d (tmax0 ops d).
  Proof.
    unfold tmax0. destruct (tltb ops d (tz ops)) eqn:E; [|apply (le_refl ops laws)].
    apply (lt_spec ops laws) in E. tauto.
  Qed.

  (* the messages in flight at the hand-off (they become NoFailures events, which the checker cannot corrupt) stay
     within one node, or are never sent again in a form that corruption changes *)
  Definition SnapCorrOK (s : simsys) : Prop :=
    forall e mid m src sn dst dn, In e (q_live (y_q s)) -> q_data e = QMsg mid m src sn dst dn ->
      (exists a, sget N.compare src (sn_loc (y_net s)) = Some a /\ sget N.compare dst (sn_loc (y_net s)) = Some a) \/
      Stable m src dst.

  Theorem rel_snapshot3 (s : simsys) (mr : rsys) :
    Reachable s -> Installed s -> Routed s \/ NoCrash s -> sn_corrupt (y_net s) = rate ->
    (CanCorrupt -> SnapCorrOK s) ->
    (forall x, crashed0 x = match sget N.compare x (y_nodes s) with Some nd => sd_crashed nd | None => false end) ->
    known = known_of s ->
    snapshot ops so s = Ok mr -> Rel3 s mr.
  Proof.
    intros HR HI Hor Hcor Hsc Hc0 Hk Hsnap.
    pose proof (reachable_base ops handlerS init_state draws crash_order s HR) as B.
    pose proof (timers_unique_reachable ops handlerS init_state draws crash_order s HR) as TU.
    destruct (snapshot_awf ops handlerS init_state draws crash_order (tleb ops) sevent_eqb s HR HI) as (mr' & Hs' & HW).
    rewrite Hsnap in Hs'. hinv Hs'. rewrite <- Hk in HW.
    destruct (snapshot_nodes ops so s mr' Hsnap) as (Hnodes & _ & Hmf & _ & Hnet).
    destruct (snapshot_pend_order ops sevent_eqb laws s mr' Hsnap) as (Hpend & Hsorted & _).
    pose proof HW as (_ & HA & _).
    pose proof (snap_faithful ops handlerS init_state draws crash_order s HR Hor) as SF.
    assert (Hcases : forall e, In e (q_dump ops (y_q s)) -> snap_of ops s e = [] \/ exists y, snap_of ops s e = [y]).
    { intros e He. apply in_q_dump in He. destruct (SF e He) as [S1 S2].
      destruct (dlv (y_handlers s) e); [right|left; auto]. destruct (S1 eq_refl) as (x & Hx & _). eauto. }
    assert (CAs : CrashAgree s).
    { intros x nd Hx. rewrite Hc0, Hx. reflexivity. }
    destruct (snapshot_net s) as (N1 & N2 & N3 & _ & N5 & N6 & _). cbv zeta in *.
    constructor; auto.
    - (* network *)
      rewrite Hnet.
      split; [exact N6|]. split; [exact N2|]. split; [exact Hcor|]. split; [congruence|]. split.
      + intros a b Ha Hb Hcut. unfold HandoffSim2.mc_cutb in Hcut. unfold link_cut.
        destruct (snapshot_net_mem s a (bi_nodes_sorted _ B)) as [_ Hao].
        destruct (snapshot_net_mem s b (bi_nodes_sorted _ B)) as [Hbi _].
        rewrite Hc0 in Ha, Hb. rewrite Ha in Hao. rewrite Hb in Hbi. rewrite orb_false_r in Hao, Hbi.
        rewrite Hao, Hbi, N5 in Hcut. exact Hcut.
      + intros b Hb. destruct (snapshot_net_mem s b (bi_nodes_sorted _ B)) as [Hbi _]. rewrite Hc0 in Hb.
        rewrite Hbi, Hb. apply orb_true_r.
    - (* nodes *)
      intros nn. rewrite Hnodes, sget_snap_nodes. destruct (sget N.compare nn (y_nodes s)) as [nd|]; cbn [option_map]; [|exact I].
      cbn [snap_node nd_crashed nd_skew nd_procs]. split; [reflexivity|]. split; [reflexivity|].
      intros q. destruct (sget N.compare q (sd_procs nd)); [apply PeR_refl|exact I].
    - (* events *)
      constructor.
      + exists []. split; [constructor|]. cbn [map]. rewrite !app_nil_r.
        assert (Hp1 : forall ie, In ie (pend (s_events mr')) -> pot (snd ie) = 1%nat).
        { intros [i x] Hi. destruct (snapshot_pend_origin ops (tleb ops) sevent_eqb s mr' i x Hsnap Hi) as (e & _ & Hx).
          apply snap_of_msg in Hx. destruct x as [mm ss dd o|pp n d]; [|reflexivity]. destruct Hx as [-> _]. reflexivity. }
        rewrite (expand_pot1 _ Hp1).
        assert (E : map c_of_p (pend (s_events mr')) = map c_of_q (filter (dlv (y_handlers s)) (q_dump ops (y_q s)))).
        { unfold c_of_p. rewrite <- (map_map snd c_of_s), Hpend.
          assert (Hall : forall e, In e (q_dump ops (y_q s)) -> In e (q_live (y_q s))) by (intros e; apply in_q_dump).
          clear Hpend Hsorted Hcases. induction (q_dump ops (y_q s)) as [|a r IH]; [reflexivity|]. cbn [flat_map filter].
          destruct (SF a (Hall a (or_introl eq_refl))) as [S1 S2]. rewrite map_app.
          rewrite IH by (intros e He; apply Hall; right; exact He).
          destruct (dlv (y_handlers s) a).
          - destruct (S1 eq_refl) as (x & Hx & Hc). rewrite Hx. cbn [map app]. rewrite Hc. reflexivity.
          - rewrite (S2 eq_refl). reflexivity. }
        rewrite E. apply Permutation_map. apply Permutation_filter. apply Permutation_sym. apply q_dump_perm.
      + intros i p n d e Hi He Hd. apply filter_In in He. destruct He as [He _].
        destruct (snapshot_timer_future ops handlerS init_state draws crash_order laws (tleb ops) sevent_eqb s mr' i p n d HR Hsnap Hi)
          as (eA & HA1 & HA2 & -> & _).
        rewrite (TU e eA p n He HA1 Hd HA2). apply sub_add_le. apply tmax0_ge3.
      + intros i1 i2 p n1 n2 d1 d2 e1 e2 H2 H1 _ He1 He2 D1 D2.
        apply filter_In in He1, He2. destruct He1 as [He1 _]. destruct He2 as [He2 _].
        destruct (split_at _ i2 _ (proj1 HA) H2) as [post Hsplit].
        apply in_split in H1. destruct H1 as (L0 & L2 & HL). rewrite HL in Hsplit.
        assert (Hm : map snd (pend (s_events mr')) =
                     map snd L0 ++ ETimer p n1 d1 :: map snd L2 ++ ETimer p n2 d2 :: map snd post).
        { rewrite Hsplit. rewrite <- app_assoc. cbn [app]. rewrite !map_app. cbn [map snd]. rewrite !map_app. reflexivity. }
        rewrite Hpend in Hm.
        destruct (flat_map_split2 (snap_of ops s) _ _ _ _ _ _ Hcases Hm) as (l0 & a1 & l2 & a2 & l3 & Hd & S1 & S2).
        assert (Hin1 : In a1 (q_dump ops (y_q s))) by (rewrite Hd; apply in_app_iff; right; left; reflexivity).
        assert (Hin2 : In a2 (q_dump ops (y_q s))).
        { rewrite Hd. apply in_app_iff. right. right. apply in_app_iff. right. left. reflexivity. }
        pose proof (snap_of_msg ops s a1 (ETimer p n1 d1)) as M1. rewrite S1 in M1. destruct (M1 (or_introl eq_refl)) as [M1d _].
        pose proof (snap_of_msg ops s a2 (ETimer p n2 d2)) as M2. rewrite S2 in M2. destruct (M2 (or_introl eq_refl)) as [M2d _].
        apply in_q_dump in Hin1, Hin2.
        rewrite (TU e1 a1 p n1 He1 Hin1 D1 M1d), (TU e2 a2 p n2 He2 Hin2 D2 M2d).
        rewrite Hd in Hsorted. apply strongly_sorted_mid in Hsorted.
        assert (Hle : key_le ops a1 a2).
        { rewrite Forall_forall in Hsorted. apply Hsorted. apply in_app_iff. right. left. reflexivity. }
        apply (key_le_spec ops laws) in Hle. destruct Hle as [Ht Hids].
        pose proof (q_dump_nodup ops (y_q s) (qw_nodup _ _ (bi_q _ B))) as Hnd. rewrite Hd in Hnd.
        apply NoDup_map_two in Hnd.
        unfold key_lt. destruct (tleb ops (q_time a2) (q_time a1)) eqn:E.
        * right. assert (Heq : q_time a1 = q_time a2) by (apply (le_antisym ops laws); auto).
          split; [exact Heq|]. specialize (Hids Heq). lia.
        * left. apply (lt_spec ops laws). auto.
    - (* the pending messages of the snapshot *)
      intros G i x Hi. destruct (snapshot_pend_origin ops (tleb ops) sevent_eqb s mr' i x Hsnap Hi) as (e & He & Hx).
      apply snap_of_msg in Hx. destruct x as [mm ss dd o|pp n d]; [|exact I].
      destruct Hx as (_ & (mid & sn & dn0 & Hd) & _). rewrite Hnet. cbn [EvOKc]. rewrite N6.
      destruct (Hsc G e _ _ _ _ _ _ He Hd) as [H|H]; [left; exact H|right; right; exact H].
  Qed.

  (* ---------------------------------------------------------------------------------------------- *)
  (* 5. runs                                                                                         *)
  (* ---------------------------------------------------------------------------------------------- *)
  Notation Matched := (Matched ops tgt0 teq0 t0 clock handlerM DS mc_rand ds_of sevent_eqb).
  Notation SimRunOF := (SimRunOF ops handlerS draws handlerM).

  Theorem run_sim3 (s : simsys) l : SimRunOF s l -> forall m, Rel3 s m -> Matched m l.
  Proof.
    induction 1 as [s|s s1 b l HOF Hs Hrun IH]; intros m HR; [constructor|].
    destruct (step_sim3 s m s1 b HR HOF Hs) as (m1 & Hst & HR1).
    apply matched_cons with (m1 := m1); auto. apply (r3_nodes _ _ _ HR1).
  Qed.

  Theorem steps_fuel_sim3 fuel : (forall s, StepOF s) -> forall (s : simsys) n s' b m,
    Rel3 s m -> steps_fuel ops handlerS draws fuel s n = Ok (s', b) -> exists m', RSteps m m' /\ Rel3 s' m'.
  Proof.
    intros HOF. induction fuel as [|f IH]; intros s n s' b m HR H; cbn [steps_fuel] in H; [discriminate|].
    destruct (N.eqb n 0).
    - hinv H. exists m. split; [apply steps_refl|exact HR].
    - destruct (step s) as [[s1 b1]|] eqn:Es; cbn [bind] in H; [|discriminate].
      destruct (step_sim3 s m s1 b1 HR (HOF s) Es) as (m1 & Hst & HR1). destruct b1.
      + destruct (IH s1 (n - 1) s' b m1 HR1 H) as (m' & Hst' & HR'). exists m'. split; [|exact HR'].
        eapply rsteps_trans2; eauto.
      + hinv H. exists m1. auto.
  Qed.

End Cross3.

(* ================================================================================================ *)
(* 6. C04, stage 3                                                                                  *)
(* ================================================================================================ *)
Section Main3.
  Context {T : Type} (ops : time_ops T).
  Context {PS : Type}.
  Variable handlerS : N -> PS -> input -> T -> (nat -> T) -> PS * list (action T) * nat.
  Variable init_state : N -> PS.
  Variable draws : nat -> T.
  Variable crash_order : list (@qevent T) -> list (@qevent T).
  Variable tgt0 : T -> bool.
  Variable teq0 : T -> bool.
  Variable t0 : T.
  Variable clock : N -> T -> T.
  Variable handlerM : N -> PS -> input -> T -> (nat -> T) -> PS * list (action T).
  Variable DS : Type.
  Variable mc_rand : DS -> nat -> T.
  Variable ds_of : @mcstate T (astore T) PS -> DS.
  Variable sevent_eqb : (T -> T -> bool) -> sevent T -> sevent T -> bool.
  Notation simsys := (@simsys T PS).
  Notation rsys := (@mcsys T (astore T) PS).
  Notation so := (abstract_ops (tleb ops) sevent_eqb).
  Notation Reachable := (Reachable ops handlerS init_state draws crash_order).
  Notation RSteps := (RefWf.Steps tgt0 teq0 t0 clock handlerM DS mc_rand ds_of (tleb ops) sevent_eqb).
  Notation Matched := (Matched ops tgt0 teq0 t0 clock handlerM DS mc_rand ds_of sevent_eqb).
  Notation SimRunOF' := (SimRunOF ops handlerS draws handlerM).
  Notation StepOF' := (StepOF ops handlerM).

  (* the side condition on corruption.  It is vacuous when the corruption rate is 0 (stage 2).  Otherwise:
     - the checker's test "corruption rate > 0." is true (the exact comparison FateAgree.mc_gt0 satisfies this);
     - no process sends, to one destination, a message m and also a message equal to corrupt(m) that corruption
       would change again (a corrupted copy the checker has produced can no longer be corrupted, so it must not
       stand in front of an identical message that still has to be);
     - a message in flight at the hand-off (it becomes a NoFailures event) stays within one node, or its
       sender never sends an identical message that corruption changes (finding F13). *)
  Definition CorrSide (s0 : simsys) : Prop :=
    Possible_rate ops (sn_corrupt (y_net s0)) ->
    tgt0 (sn_corrupt (y_net s0)) = true /\
    (forall m s d, Sent handlerM m s d -> Stable handlerM (corrupt_msg m) s d) /\
    SnapCorrOK handlerM s0.

  Hypothesis laws : time_laws ops.
  Hypothesis sub_add_le : forall t c d, tleb ops (tsub ops t c) d = true -> tleb ops t (tadd ops c d) = true.
  Hypothesis draws_unit : forall i, tleb ops (tz ops) (draws i) = true /\ tltb ops (draws i) (tone ops) = true.
  Hypothesis teq0_sound : forall r x, tleb ops (tz ops) r = true -> tltb ops r x = true -> teq0 x = false.
  Hypothesis handler_agree : forall proc st inp t1 r1 t2 r2,
    handlerM proc st inp t1 r1 = fst (handlerS proc st inp t2 r2).

  Variable s0 : simsys.
  Variable m0 : rsys.
  Hypothesis s0_reachable : Reachable s0.
  Hypothesis s0_installed : Installed s0.
  Hypothesis s0_routed : Routed s0 \/ NoCrash s0.
  Hypothesis s0_corruption : CorrSide s0.
  Hypothesis s0_snapshot : snapshot ops so s0 = Ok m0.
  Hypothesis handler_closed : forall proc st inp time rand m dst,
    In (ASend m dst) (snd (handlerM proc st inp time rand)) -> In dst (known_of s0).

  Notation Rel3' := (Rel3 ops handlerS init_state draws crash_order handlerM (known_of s0) (crashed_at s0) (sn_corrupt (y_net s0))).

  Lemma rel_start3 : Rel3' s0 m0.
  Proof.
    apply (rel_snapshot3 ops handlerS init_state draws crash_order handlerM sevent_eqb (known_of s0) (crashed_at s0)
             (sn_corrupt (y_net s0)) laws sub_add_le); auto.
    intros G. apply (s0_corruption G).
  Qed.

  Theorem C04_stage3 (l : list simsys) : SimRunOF' s0 l -> Matched m0 l.
  Proof.
    intros Hrun.
    apply (run_sim3 ops handlerS init_state draws crash_order tgt0 teq0 t0 clock handlerM DS mc_rand ds_of sevent_eqb
             (known_of s0) (crashed_at s0) (sn_corrupt (y_net s0)) laws draws_unit teq0_sound) with (s := s0); auto.
    - intros G. apply (s0_corruption G).
    - intros G. apply (s0_corruption G).
    - exact rel_start3.
  Qed.

  Theorem C04_stage3_once (l : list simsys) :
    (forall proc st inp t r n d once, In (ATimerSet n d once) (snd (handlerM proc st inp t r)) -> once = true) ->
    SimRun ops handlerS draws s0 l -> Matched m0 l.
  Proof. intros Ho Hrun. apply C04_stage3. apply run_of_once; auto. Qed.

  Theorem C04_stage3_steps fuel k (sk : simsys) r :
    (forall s, StepOF' s) ->
    sim_op ops handlerS init_state draws crash_order fuel s0 (YSteps k) = Ok (sk, r) ->
    exists m, RSteps m0 m /\ ProjEq sk m.
  Proof.
    cbn [Sim.sim_op]. intros HOF H.
    destruct (steps_fuel ops handlerS draws fuel s0 k) as [[s' b]|] eqn:E; cbn [bind] in H; [|discriminate]. hinv H.
    destruct (steps_fuel_sim3 ops handlerS init_state draws crash_order tgt0 teq0 t0 clock handlerM DS mc_rand ds_of sevent_eqb
                (known_of s0) (crashed_at s0) (sn_corrupt (y_net s0)) laws draws_unit teq0_sound) with (fuel := fuel) (s := s0) (n := k) (s' := sk) (b := b) (m := m0)
      as (m & Hst & HR); auto.
    - intros G. apply (s0_corruption G).
    - intros G. apply (s0_corruption G).
    - exact rel_start3.
    - exists m. split; [exact Hst|]. destruct HR as [_ _ _ _ _ Hn _ _ _]. exact Hn.
  Qed.
End Main3.

(* stage 2 is the special case "corruption rate 0" *)
Section Stage2FromStage3.
  Context {T : Type} (ops : time_ops T).
  Context {PS : Type}.
  Variable handlerM : N -> PS -> input -> T -> (nat -> T) -> PS * list (action T).
  Variable tgt0 : T -> bool.
  Hypothesis laws : time_laws ops.
  Lemma corrside_rate0 (s0 : @simsys T PS) : sn_corrupt (y_net s0) = tz ops -> CorrSide ops tgt0 handlerM s0.
  Proof. intros E G. rewrite E in G. destruct (not_possible_zero ops laws G). Qed.
End Stage2FromStage3.


(* the statement of C04_stage2 (Proofs/HandoffSim2.v), derived from C04_stage3 *)
Theorem C04_stage2_from_stage3 :
  forall (T : Type) (ops : time_ops T) (PS : Type)
    (handlerS : N -> PS -> input -> T -> (nat -> T) -> PS * list (action T) * nat) (init_state : N -> PS)
    (draws : nat -> T) (crash_order : list (@qevent T) -> list (@qevent T)) (tgt0 teq0 : T -> bool) (t0 : T) (clock : N -> T -> T)
    (handlerM : N -> PS -> input -> T -> (nat -> T) -> PS * list (action T)) (DS : Type) (mc_rand : DS -> nat -> T)
    (ds_of : @mcstate T (astore T) PS -> DS) (sevent_eqb : (T -> T -> bool) -> sevent T -> sevent T -> bool),
  time_laws ops ->
  (forall t c d : T, tleb ops (tsub ops t c) d = true -> tleb ops t (tadd ops c d) = true) ->
  (forall i : nat, tleb ops (tz ops) (draws i) = true /\ tltb ops (draws i) (tone ops) = true) ->
  (forall r x : T, tleb ops (tz ops) r = true -> tltb ops r x = true -> teq0 x = false) ->
  (forall proc st inp t1 r1 t2 r2, handlerM proc st inp t1 r1 = fst (handlerS proc st inp t2 r2)) ->
  forall (s0 : @simsys T PS) (m0 : @mcsys T (astore T) PS),
  Reachable ops handlerS init_state draws crash_order s0 ->
  Installed s0 ->
  Routed s0 \/ NoCrash s0 ->
  sn_corrupt (y_net s0) = tz ops ->
  snapshot ops (abstract_ops (tleb ops) sevent_eqb) s0 = Ok m0 ->
  (forall proc st inp time rand m dst, In (ASend m dst) (snd (handlerM proc st inp time rand)) -> In dst (known_of s0)) ->
  forall l, SimRunOF ops handlerS draws handlerM s0 l -> Matched ops tgt0 teq0 t0 clock handlerM DS mc_rand ds_of sevent_eqb m0 l.
Proof.
  intros T ops PS handlerS init_state draws crash_order tgt0 teq0 t0 clock handlerM DS mc_rand ds_of sevent_eqb
         laws sal du ts ha s0 m0 HR HI Hro Hc Hs Hcl l Hrun.
  eapply (C04_stage3 ops handlerS init_state draws crash_order tgt0 teq0 t0 clock handlerM DS mc_rand ds_of sevent_eqb
            laws sal du ts ha s0 m0 HR HI Hro); eauto.
  apply corrside_rate0; auto.
Qed.

Print Assumptions C04_stage3.
Print Assumptions C04_stage3_once.
Print Assumptions C04_stage3_steps.
Print Assumptions corrside_rate0.
Print Assumptions C04_stage2_from_stage3.
