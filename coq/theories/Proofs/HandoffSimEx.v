(* C04: the hypotheses of Proofs/HandoffSim.v are satisfiable (an instance over integer time). *)
From Coq Require Import List NArith ZArith Bool Lia.
From ASV Require Import Base.Util Base.Msg Base.Log Model.Store Spec.StoreSpec Model.McSys Spec.RefSys
     Model.Sim Spec.TimeLaws Spec.SimSpec Model.Snapshot
     Proofs.UtilP Proofs.StoreSpecP Proofs.RefWf Proofs.SimTimeP Proofs.SimBaseP Proofs.SnapshotP
     Proofs.HandoffSimBase Proofs.HandoffSim.
Import ListNotations.

(* ================================================================================================ *)
(* 7. the hypotheses are satisfiable: a two-node system with a message in flight and a pending timer *)
(* ================================================================================================ *)
Module HandoffEx.
  Import ZArith.
  Definition m0 : msg := {| tip := [1]; data := [] |}.
  Definition hS (p : N) (st : unit) (i : input) (t : Z) (r : nat -> Z) : unit * list (action Z) * nat :=
    match i with
    | InLocal m => (tt, [ASend m 6; ATimerSet 1 3%Z true], O)
    | InMsg m from => (tt, [ALocal m; ATimerSet 1 5%Z true], O)
    | InTimer n => (tt, [ATimerCancel 2; ALocal m0; ASend m0 5], O)
    end.
  Definition hM (p : N) (st : unit) (i : input) (t : Z) (r : nat -> Z) : unit * list (action Z) :=
    fst (hS p st i 0%Z (fun _ => 0%Z)).
  Definition dr : nat -> Z := fun _ => 0%Z.
  Definition script : list (@sop Z) := [YAddNode 1; YAddNode 2; YAddProcess 5 1; YAddProcess 6 2; YSendLocal 5 m0].
  Definition run l := run_ops z_ops hS (fun _ => tt) dr (fun l => l) 5 (sys0 z_ops) l.
  Definition s0 : @simsys Z unit := match run script with Ok (s, _) => s | Panic _ => sys0 z_ops end.
  Definition soR := abstract_ops Z.leb (fun _ _ _ => true).
  Definition mr0 : @mcsys Z (astore Z) unit :=
    match snapshot z_ops soR s0 with
    | Ok m => m
    | Panic _ => {| s_nodes := []; s_net := snap_net s0; s_events := aempty; s_depth := 0; s_mf := false; s_trace := [] |}
    end.

  Lemma s0_run : run_ops z_ops hS (fun _ => tt) dr (fun l => l) 5 (sys0 z_ops) script
                  = Ok (s0, [RetUnit; RetUnit; RetUnit; RetUnit; RetUnit]).
  Proof. vm_compute. reflexivity. Qed.
  Lemma s0_reachable : Reachable z_ops hS (fun _ => tt) dr (fun l => l) s0.
  Proof. exists 5%nat, script, [RetUnit; RetUnit; RetUnit; RetUnit; RetUnit]. exact s0_run. Qed.
  Lemma s0_installed : Installed s0.
  Proof.
    apply (registered_no_recover z_ops hS (fun _ => tt) dr (fun l => l) 5 script s0 _ s0_run).
    intros n H. cbn in H. repeat (destruct H as [H|H]; [discriminate|]). exact H.
  Qed.
  Lemma s0_snapshot : snapshot z_ops soR s0 = Ok mr0.
  Proof. vm_compute. reflexivity. Qed.
  (* a message to process 6 and the timer (5, 1) are in flight *)
  Lemma s0_live : map (fun e => (q_time e, c_of_q e)) (q_live (y_q s0)) = [(1%Z, CMsg m0 5 6); (3%Z, CTimer 5 1)].
  Proof. vm_compute. reflexivity. Qed.
  Lemma s0_no_crash : NoCrash s0.
  Proof.
    intros nn nd H. apply (sget_some_in N.compare CmpSpec_N) in H.
    assert (F : forallb (fun p => negb (sd_crashed (snd p))) (y_nodes s0) = true) by (vm_compute; reflexivity).
    rewrite forallb_forall in F. specialize (F _ H). cbn [snd] in F. apply negb_true_iff in F. exact F.
  Qed.
  Lemma s0_fault_free : NetFF z_ops (y_net s0).
  Proof.
    split; [vm_compute; reflexivity|]. split; [vm_compute; reflexivity|]. split; [vm_compute; reflexivity|].
    intros a b. unfold link_cut.
    assert (E1 : sn_drop_out (y_net s0) = []) by (vm_compute; reflexivity).
    assert (E2 : sn_drop_in (y_net s0) = []) by (vm_compute; reflexivity).
    assert (E3 : sn_links (y_net s0) = []) by (vm_compute; reflexivity).
    rewrite E1, E2, E3. reflexivity.
  Qed.

  (* the first three steps of the continued simulation (message, timer, the message the timer's handler sends) are
     matched by the reference semantics from the snapshot *)
  Theorem example_steps : forall k sk r,
    sim_op z_ops hS (fun _ => tt) dr (fun l => l) 10 s0 (YSteps k) = Ok (sk, r) ->
    exists m, RefWf.Steps (Z.ltb 0) (Z.eqb 0) 0%Z (fun _ sk => sk) hM unit (fun _ _ => 0%Z) (fun _ => tt) Z.leb
                          (fun _ _ _ => true) mr0 m /\ ProjEq sk m.
  Proof.
    intros k sk r H.
    apply (C04_stage1_steps z_ops hS (fun _ => tt) dr (fun l => l) (Z.ltb 0) (Z.eqb 0) 0%Z (fun _ sk => sk) hM unit
             (fun _ _ => 0%Z) (fun _ => tt) (fun _ _ _ => true) z_laws (proj2 z_sub_laws)) with (s0 := s0) (fuel := 10%nat) (k := k) (r := r).
    - intros i. split; reflexivity.
    - intros proc st inp t1 r1 t2 r2. unfold hM. destruct inp; reflexivity.
    - intros proc st inp t r0 n d once Hin. unfold hM in Hin. destruct inp; cbn in Hin;
        repeat (destruct Hin as [Hin|Hin]; [try discriminate; inversion Hin; reflexivity|]); contradiction.
    - exact s0_reachable.
    - exact s0_installed.
    - exact s0_no_crash.
    - exact s0_fault_free.
    - exact s0_snapshot.
    - intros proc st inp time rand m dst Hin.
      assert (K : known_of s0 = [5; 6]) by (vm_compute; reflexivity). rewrite K.
      clear H K. unfold hM in Hin. destruct inp; cbn [hS fst snd In] in Hin;
        repeat (destruct Hin as [Hin|Hin]; [try discriminate; inversion Hin; subst; cbn [In]; tauto|]); contradiction.
    - exact H.
  Qed.
  (* and the run is not trivial: three steps handle three events *)
  Lemma example_three_steps : exists sk, sim_op z_ops hS (fun _ => tt) dr (fun l => l) 10 s0 (YSteps 3) = Ok (sk, RetBool true).
  Proof. eexists. vm_compute. reflexivity. Qed.
End HandoffEx.

Print Assumptions HandoffEx.example_steps.
