(* C04, last sentence: "Model checking therefore never declares safe a system that the simulator can break."

   Composition of
     (A) Proofs/HandoffSim2.v  - every override-free continuation of the simulator from the hand-off state is matched,
         state by state, along one path of the reference semantics from the snapshot, and
     (B) Proofs/McSearch.v, Proofs/McSearchRef.v - a run of the checker that returns ROk has evaluated the predicates on
         (a representative of) every state of the reference semantics' graph up to the first goal / prune state.

   1. Fine  : step_sim2_fine = HandoffSim2.step_sim2 with the shape of the checker's path made explicit: one simulator
              step is answered by split (ChDup) steps, which leave the nodes untouched (NSteps), followed by at most one
              further step (Step01).  Hence the first state at which the search stops has the nodes of a state that is
              matched with a simulator state.
   2. Proj  : the process-visible projection (per node: crash flag; per process: user state, local outbox, sent / received
              counters) of a simulator state (proj_of_sim) and of a checker state (proj_of_mc); they coincide for
              ProjEq-related states (NodesR_proj; uses the sortedness invariants of both engines).
   3. Walk  : run_walk: the search (SearchCorrect.Reach over mc_expand) follows the simulator's run; it can only stop at
              a state with verdict VFinal (goal / prune), which is matched with a strictly earlier state of the run.
   4. Main  : C04_handoff_safe (reference snapshot m0 explicit); snapshot_StInv (the EqBisim invariant holds of the snapshot,
              so it is no hypothesis here).
      Final : C04_safe, C04_safe_plain (no goal / prune predicates: the invariant holds at EVERY state the simulation
              passes through, the hand-off state included), C04_breakable_never_ok (contrapositive: no run of the checker
              returns ROk if some continuation of the simulation violates the invariant before any goal / prune state),
              C04_safe_once (static set_timer_once condition: no override-freedom hypotheses left, any run of steps),
              C04_safe_steps (through the API: the state after steps(k)).
      Core  : core_based_state_based: predicates on crash flags / user states / outboxes are state based.
   Satisfiability of the hypotheses, with a checker run that does return ROk: Proofs/HandoffSafeEx.v.

   Hypotheses (all explicit): those of C04_stage2 (time laws, draws in [0,1), the rate == 0 test, same clock- and
   draw-independent user code in both engines, s0 Reachable / Installed / Routed or NoCrash / corruption rate 0,
   messages only to located processes), those of C03 (ds_of agrees on both stores and respects the checker's equality,
   the equality tests reflect equality, state-based predicates, override-freedom of the explored steps - F10),
   pv_based (invariant / goal / prune are functions of the projection), and the run itself: `run` on the snapshot with an
   empty preliminary callback, any strategy / visited mode / fuel, result ROk.
   Not covered: continuations that use the simulator API other than step (crash, recover, network changes, local
   messages after the hand-off); predicates that look at pending timers, event logs, the network, the trace or time;
   results RFuel / RPanic (nothing is claimed); the converse (an RErr is not claimed to be reproducible in the simulator). *)
From Coq Require Import List NArith Bool Lia Permutation Sorted.
From ASV Require Import Base.Util Base.Msg Base.Log Model.Store Spec.StoreSpec Model.McSys Spec.RefSys Model.Search Model.McRun
     Model.Sim Spec.TimeLaws Spec.SimSpec Model.Snapshot
     Proofs.UtilP Proofs.StoreSpecP Proofs.StoreRefine Proofs.SysLift Proofs.RefWf Proofs.Restore Proofs.McCompose
     Proofs.SearchCorrect Proofs.SearchRel Proofs.EqBisim Proofs.McSearch Proofs.McSearchRef
     Proofs.SimTimeP Proofs.SimBaseP Proofs.SimTimerP Proofs.SimNetP Proofs.SimCrashP Proofs.SnapshotP
     Proofs.HandoffSimBase Proofs.HandoffSim2Base Proofs.HandoffSim Proofs.HandoffSim2.
Import ListNotations.
Open Scope N_scope.

(* ================================================================================================ *)
(* 1. the shape of the checker's answer to one simulator step                                        *)
(* ================================================================================================ *)
Section Fine.
  Context {T : Type} (ops : time_ops T).
  Context {PS : Type}.
  Variable handlerS : N -> PS -> input -> T -> (nat -> T) -> PS * list (action T) * nat.
  Variable init_state : N -> PS.
  Variable draws : nat -> T.
  Variable crash_order : list (@qevent T) -> list (@qevent T).
  Variable tgt0 : T -> bool.
  Variable teq0 : T -> bool.
  Variable t0 : T.
  Variable clock : N -> T -> T.
  Variable handlerM : N -> PS -> input -> T -> (nat -> T) -> PS * list (action T).
  Variable DS : Type.
  Variable mc_rand : DS -> nat -> T.
  Variable ds_of : @mcstate T (astore T) PS -> DS.
  Variable sevent_eqb : (T -> T -> bool) -> sevent T -> sevent T -> bool.
  Variable known : list N.
  Variable crashed0 : N -> bool.
  Hypothesis laws : time_laws ops.
  Hypothesis draws_unit : forall i, tleb ops (tz ops) (draws i) = true /\ tltb ops (draws i) (tone ops) = true.
  Hypothesis teq0_sound : forall r x, tleb ops (tz ops) r = true -> tltb ops r x = true -> teq0 x = false.
  Hypothesis handler_closed : forall proc st inp time rand m dst,
    In (ASend m dst) (snd (handlerM proc st inp time rand)) -> In dst known.
  Hypothesis handler_agree : forall proc st inp t1 r1 t2 r2,
    handlerM proc st inp t1 r1 = fst (handlerS proc st inp t2 r2).

  Notation simsys := (@simsys T PS).
  Notation so := (abstract_ops (tleb ops) sevent_eqb).
  Notation rsys := (@mcsys T (astore T) PS).
  Notation Reachable := (Reachable ops handlerS init_state draws crash_order).
  Notation step := (step ops handlerS draws).
  Notation RSteps := (RefWf.Steps tgt0 teq0 t0 clock handlerM DS mc_rand ds_of (tleb ops) sevent_eqb).
  Notation take := (take_choice so tgt0 teq0 t0 clock handlerM DS mc_rand ds_of).
  Notation En := (Enabled (PS := PS) (tleb ops) sevent_eqb).
  Notation Rel2 := (Rel2 ops handlerS init_state draws crash_order known crashed0).
  Notation StepOF := (StepOF ops handlerM).
  Notation dlive := (@dlive T PS).

  (* enabled steps that leave the nodes (process states, outboxes, counters, crash flags) untouched *)
  Inductive NSteps : rsys -> rsys -> Prop :=
  | nsteps_refl : forall A, NSteps A A
  | nsteps_cons : forall A c A1 A2, En A c -> take A c = Ok A1 -> s_nodes A1 = s_nodes A -> NSteps A1 A2 -> NSteps A A2.

  Lemma NSteps_Steps A A' : NSteps A A' -> RSteps A A'.
  Proof. induction 1; [apply steps_refl|eapply steps_cons; eauto]. Qed.
  Lemma NSteps_nodes A A' : NSteps A A' -> s_nodes A' = s_nodes A.
  Proof. induction 1; congruence. Qed.

  (* at most one enabled step *)
  Definition Step01 (A A' : rsys) : Prop := A' = A \/ exists c, En A c /\ take A c = Ok A'.

  Lemma Step01_Steps A A' : Step01 A A' -> RSteps A A'.
  Proof. intros [->|(c & He & Ht)]; [apply steps_refl|]. eapply steps_cons; eauto. apply steps_refl. Qed.

  (* HandoffSim2.split_ready with the path made explicit *)
  Lemma split_ready_fine : forall n (m : rsys) (s : simsys) e msg src dst,
    (budget (pend (s_events m)) <= n)%nat -> Rel2 s m -> In e (dlive s) -> c_of_q e = CMsg msg src dst ->
    exists m1 i x, NSteps m m1 /\ Rel2 s m1 /\ In (i, x) (pend (s_events m1)) /\
                   In i (offset (tleb ops) (pend (s_events m1))) /\ c_of_s x = c_of_q e /\ pot x = 1%nat.
  Proof.
    induction n as [|n IH]; intros m s e msg src dst Hb HRl He Hc; pose proof HRl as [HR HW Hmf NR CA ND EV];
      pose proof HW as (_ & HA & _);
      destruct (min_msg_offered2 ops (tleb ops) _ _ _ e msg src dst EV (proj1 HA) He Hc) as (i & o & Hi & Hoff).
    - exists m, i, (EMsg msg src dst o). split; [apply nsteps_refl|]. split; [exact HRl|]. split; [exact Hi|].
      split; [exact Hoff|]. split; [rewrite Hc; reflexivity|].
      pose proof (budget_in _ _ _ Hi). pose proof (pot_pos (EMsg msg src dst o)). lia.
    - destruct (PeanoNat.Nat.eq_dec (pot (EMsg msg src dst o)) 1) as [Hp1|Hp1].
      + exists m, i, (EMsg msg src dst o). split; [apply nsteps_refl|]. split; [exact HRl|]. split; [exact Hi|].
        split; [exact Hoff|]. split; [rewrite Hc; reflexivity|exact Hp1].
      + destruct o as [md|dd k cc]; [exfalso; apply Hp1; reflexivity|].
        assert (Hk : k <> 0) by (intros ->; apply Hp1; reflexivity).
        assert (HEn : En m (ChDup i)).
        { exists (offset (tleb ops) (pend (s_events m))), i.
          eexists. split; [|split; [exact Hoff|split]].
          - unfold available. cbn [so_offered abstract_ops]. unfold aoffered. rewrite Hmf. reflexivity.
          - unfold alternatives. cbn [so_get abstract_ops]. rewrite aget_lookup, (in_lookup _ _ _ (proj1 HA) Hi). reflexivity.
          - apply in_app_iff. right. apply in_app_iff. right. apply in_app_iff. right.
            assert (Hlt : N.ltb 0 k = true) by (apply N.ltb_lt; lia). rewrite Hlt. left. reflexivity. }
        destruct (take_choice_ok tgt0 teq0 t0 clock handlerM DS mc_rand ds_of (tleb ops) sevent_eqb known handler_closed m
                    (ChDup i) HW HEn) as (m1 & Htake & HW1 & _).
        destruct (take_dup ops tgt0 teq0 t0 clock handlerM DS mc_rand ds_of sevent_eqb m i msg src dst dd k cc HA Hi Hk)
          as (m1' & Htake' & N1 & N2 & N3 & N4).
        rewrite Htake in Htake'. hinv Htake'.
        assert (HR1 : Rel2 s m1').
        { constructor; [exact HR|exact HW1|congruence|rewrite N2; exact NR|exact CA|rewrite N1; exact ND|].
          rewrite N4. apply EvR2_split; auto. apply HA. }
        assert (Hb1 : (budget (pend (s_events m1')) <= n)%nat).
        { rewrite N4. pose proof (budget_split (pend (s_events m)) i (anext (s_events m)) msg src dst dd k cc (proj1 HA) Hi Hk) as Hbs.
          rewrite <- Hbs in Hb. apply le_S_n. exact Hb. }
        destruct (IH m1' s e msg src dst Hb1 HR1 He Hc) as (m2 & i2 & x2 & Hst & HR2 & X).
        exists m2, i2, x2. split; [|split; [exact HR2|exact X]].
        eapply nsteps_cons; [exact HEn|exact Htake|exact N1|exact Hst].
  Qed.

  Lemma ready_fine (s : simsys) (m : rsys) e :
    Rel2 s m -> In e (dlive s) -> (forall y, In y (dlive s) -> y <> e -> key_lt ops e y) ->
    exists m1 i x, NSteps m m1 /\ Rel2 s m1 /\ In (i, x) (pend (s_events m1)) /\
                   In i (offset (tleb ops) (pend (s_events m1))) /\ c_of_s x = c_of_q e /\ pot x = 1%nat.
  Proof.
    intros HRl He Hmin. destruct (q_data e) as [mid msg src sn dst dn|pp n] eqn:Ed.
    - assert (Hc : c_of_q e = CMsg msg src dst) by (unfold c_of_q; rewrite Ed; reflexivity).
      eapply split_ready_fine; eauto.
    - pose proof HRl as [HR HW Hmf NR CA ND EV]. pose proof HW as (_ & HA & _).
      destruct (min_timer_offered2 ops laws (tleb ops) eq_refl _ _ _ e pp n EV (proj1 HA) He Ed Hmin) as (i & d & Hi & Ho).
      exists m, i, (ETimer pp n d). split; [apply nsteps_refl|]. split; [exact HRl|]. split; [exact Hi|]. split; [exact Ho|].
      split; [symmetry; apply c_of_q_timer; exact Ed|reflexivity].
  Qed.

  (* HandoffSim2.step_sim2 with the path made explicit: node-preserving steps (the splits), then at most one step
     (the delivery / timer firing; none when the simulator discards an event for a crashed node or only advances
     its clock) *)
  Theorem step_sim2_fine (s : simsys) (m : rsys) s' b :
    Rel2 s m -> StepOF s -> step s = Ok (s', b) ->
    exists m1 m', NSteps m m1 /\ Step01 m1 m' /\ Rel2 s' m'.
  Proof.
    intros HRl HOF Hs. pose proof HRl as [HR HW Hmf NR CA ND EV].
    pose proof (reachable_base ops handlerS init_state draws crash_order s HR) as B.
    pose proof (Reachable_TimeInv ops handlerS init_state draws crash_order laws s HR) as TM.
    pose proof (reachable_step ops handlerS init_state draws crash_order s s' b HR Hs) as HR'.
    destruct (step_contract ops handlerS init_state draws crash_order laws s s' b TM Hs) as [_ C].
    destruct b.
    - destruct C as (e & q' & Hnext & Hdel & He & Hmin & _ & Hclk & _).
      destruct (live_dst_node ops handlerS init_state draws crash_order s e HR He) as (name & nd0 & G1 & G2 & G3).
      pose proof (SimTimeP.q_next_spec ops handlerS init_state draws laws (y_q s)) as Hq. rewrite Hnext in Hq.
      destruct Hq as (_ & _ & _ & Hlive & _).
      destruct (sd_crashed nd0) eqn:Ecr; cbn [negb] in G3.
      + unfold deliver in Hdel. cbn [popped y_with y_handlers] in Hdel. rewrite G3 in Hdel. hinv Hdel.
        exists m, m. split; [apply nsteps_refl|]. split; [left; reflexivity|]. constructor; auto.
        unfold HandoffSim2.dlive. cbn [popped y_with y_q y_handlers]. rewrite Hlive, filter_filter_comm, Hclk.
        rewrite filter_id_in.
        * apply (EvR2_clock ops laws _ (q_clock (y_q s))); [apply (qt_future _ _ TM e He)|exact EV].
        * intros y Hy. apply filter_In in Hy. destruct Hy as [Hy Hd]. apply negb_true_iff, N.eqb_neq. intros E.
          rewrite (live_id_inj s y e B Hy He E) in Hd. unfold dlv in Hd. rewrite G3 in Hd. discriminate.
      + destruct (deliver_decomp ops handlerS draws s q' e s' B G3 Hdel)
          as (nn & nd & p & st' & acts & used & D1 & D2 & D3 & D4 & D5 & D6).
        assert (Hed : In e (dlive s)).
        { apply filter_In. split; [exact He|]. unfold dlv. rewrite G3. reflexivity. }
        destruct (ready_fine s m e HRl Hed) as (m1 & i & x & Hst1 & HRl1 & Hix & Hoff & Hc & Hpot).
        { intros y Hy Hne. apply filter_In in Hy. apply Hmin; tauto. }
        pose proof HRl1 as [_ HW1 Hmf1 _ _ _ _]. pose proof HW1 as (_ & HA1 & _).
        assert (HEn : En m1 (ChDeliver i)).
        { exists (offset (tleb ops) (pend (s_events m1))), i.
          assert (Hlk : lookup (pend (s_events m1)) i = Some x) by (apply in_lookup; [apply HA1|exact Hix]).
          assert (Hal : exists cs, alternatives so m1 i = Ok cs /\ In (ChDeliver i) cs).
          { unfold alternatives. cbn [so_get abstract_ops]. rewrite aget_lookup, Hlk.
            destruct x as [mm ss dd [md|cd du cc]|pp nn0 dd]; eexists; (split; [reflexivity|]); left; reflexivity. }
          destruct Hal as (cs & Hal & Hin). exists cs. split; [|split; [exact Hoff|split; [exact Hal|exact Hin]]].
          unfold available. cbn [so_offered abstract_ops]. unfold aoffered. rewrite Hmf1. reflexivity. }
        destruct (take_choice_ok tgt0 teq0 t0 clock handlerM DS mc_rand ds_of (tleb ops) sevent_eqb known handler_closed m1
                    (ChDeliver i) HW1 HEn) as (m' & Htake & HW' & _).
        destruct (deliver_sim2 ops handlerS init_state draws crash_order tgt0 teq0 t0 clock handlerM DS mc_rand ds_of sevent_eqb
                    known crashed0 laws draws_unit teq0_sound handler_agree
                    s m1 q' e s' nn nd p st' acts used i x m' HRl1 HOF Hnext D1 D2 D3 D4 D5 D6 Hix Hc Hpot Htake)
          as (R1 & R2 & R3 & R4 & R5).
        exists m1, m'. split; [exact Hst1|]. split.
        * right. exists (ChDeliver i). split; [exact HEn|exact Htake].
        * constructor; auto. congruence.
    - destruct C as (L1 & L2 & Hnow & [F1 F2 _ F4 _ _] & _). exists m, m. split; [apply nsteps_refl|].
      split; [left; reflexivity|].
      constructor; auto.
      + rewrite F1. exact NR.
      + unfold CrashAgree. rewrite F2. exact CA.
      + rewrite F2. exact ND.
      + unfold HandoffSim2.dlive. unfold now in Hnow. rewrite L2, Hnow. unfold HandoffSim2.dlive in EV. rewrite L1 in EV. exact EV.
  Qed.
End Fine.

(* ================================================================================================ *)
(* 2. the process-visible projection                                                                 *)
(* ================================================================================================ *)
(* two sorted association lists whose lookups agree after mapping the values are equal after the mapping *)
Lemma sorted_map_ext {V W X} (f : V -> X) (g : W -> X) (l1 : list (N * V)) (l2 : list (N * W)) :
  ssorted N.compare l1 -> ssorted N.compare l2 ->
  (forall k, match sget N.compare k l1, sget N.compare k l2 with
             | Some a, Some b => f a = g b
             | None, None => True
             | _, _ => False
             end) ->
  map (fun p => (fst p, f (snd p))) l1 = map (fun p => (fst p, g (snd p))) l2.
Proof.
  revert l2. induction l1 as [|[k1 v1] r1 IH]; intros [|[k2 v2] r2] H1 H2 Hg; auto.
  - specialize (Hg k2). cbn in Hg. rewrite (cmp_refl _ CmpSpec_N) in Hg. destruct Hg.
  - specialize (Hg k1). cbn in Hg. rewrite (cmp_refl _ CmpSpec_N) in Hg. destruct Hg.
  - apply ssorted_inv in H1. destruct H1 as [Hf1 Hs1].
    apply ssorted_inv in H2. destruct H2 as [Hf2 Hs2].
    destruct (N.compare k1 k2) eqn:E.
    + apply N.compare_eq_iff in E. subst k2.
      pose proof (Hg k1) as Hk. cbn in Hk. rewrite (cmp_refl _ CmpSpec_N) in Hk. cbn in Hk.
      cbn [map fst snd]. rewrite Hk. f_equal.
      apply IH; auto. intros k.
      destruct (is_eq (N.compare k k1)) eqn:Ek.
      * apply (is_eq_true _ CmpSpec_N) in Ek. subst. rewrite !sget_lt_none; auto.
      * specialize (Hg k). cbn in Hg. rewrite Ek in Hg. exact Hg.
    + exfalso. specialize (Hg k1). cbn in Hg. rewrite (cmp_refl _ CmpSpec_N), E in Hg. cbn in Hg.
      rewrite sget_lt_none in Hg; [destruct Hg|].
      rewrite Forall_forall in *. intros q Hq. eapply (cmp_lt_trans _ CmpSpec_N); eauto.
    + exfalso. apply (cmp_gt_lt _ CmpSpec_N) in E.
      specialize (Hg k2). cbn in Hg. rewrite (cmp_refl _ CmpSpec_N), E in Hg. cbn in Hg.
      rewrite sget_lt_none in Hg; [destruct Hg|].
      rewrite Forall_forall in *. intros q Hq. eapply (cmp_lt_trans _ CmpSpec_N); eauto.
Qed.

Section Proj.
  Context {T PS : Type}.
  Notation pentry := (pentry T PS).

  (* what a predicate may look at: per node the crash flag, per process the user state, the local outbox and the
     two message counters *)
  Definition pv_entry : Type := PS * list msg * N * N.
  Definition pv_node : Type := bool * list (N * pv_entry).
  Definition projection : Type := list (N * pv_node).

  Definition pv_of_pe (pe : pentry) : pv_entry := (pe_state pe, pe_outbox pe, pe_sent pe, pe_recv pe).
  Definition pv_procs (ps : list (N * pentry)) : list (N * pv_entry) := map (fun q => (fst q, pv_of_pe (snd q))) ps.

  Definition pv_of_simnode (nd : @simnode T PS) : pv_node := (sd_crashed nd, pv_procs (sd_procs nd)).
  Definition pv_of_mcnode (nd : @mcnode T PS) : pv_node := (nd_crashed nd, pv_procs (nd_procs nd)).
  Definition pv_of_nodestate (ns : @mcnodestate T PS) : pv_node := (ns_crashed ns, pv_procs (ns_procs ns)).

  Definition proj_of_sim (s : @simsys T PS) : projection := map (fun p => (fst p, pv_of_simnode (snd p))) (y_nodes s).
  Definition proj_of_mc {SE} (st : @mcstate T SE PS) : projection :=
    map (fun p => (fst p, pv_of_nodestate (snd p))) (st_nodes st).
  Definition proj_of_nodes (l : list (N * @mcnode T PS)) : projection := map (fun p => (fst p, pv_of_mcnode (snd p))) l.

  Lemma proj_get_state {SE} (s : @mcsys T SE PS) : proj_of_mc (get_state s) = proj_of_nodes (s_nodes s).
  Proof.
    unfold proj_of_mc, proj_of_nodes. cbn [get_state st_nodes]. rewrite map_map. apply map_ext. intros [k nd]. reflexivity.
  Qed.

  Lemma PeR_pv (a b : pentry) : PeR a b -> pv_of_pe a = pv_of_pe b.
  Proof. intros (H1 & H2 & _ & H4 & H5). unfold pv_of_pe. congruence. Qed.

  Lemma ProcsR_pv (ps ps' : list (N * pentry)) :
    ssorted N.compare ps -> ssorted N.compare ps' -> ProcsR ps ps' -> pv_procs ps = pv_procs ps'.
  Proof.
    intros S1 S2 H. apply sorted_map_ext; auto. intros k. specialize (H k).
    destruct (sget N.compare k ps), (sget N.compare k ps'); auto. apply PeR_pv. exact H.
  Qed.

  (* the simulator state and a checker configuration with ProjEq nodes have the same projection *)
  Lemma NodesR_proj (sn : list (N * @simnode T PS)) (mn : list (N * @mcnode T PS)) :
    ssorted N.compare sn -> (forall nn nd, sget N.compare nn sn = Some nd -> ssorted N.compare (sd_procs nd)) ->
    ssorted N.compare mn -> (forall nn nd, sget N.compare nn mn = Some nd -> ssorted N.compare (nd_procs nd)) ->
    NodesR sn mn ->
    map (fun p => (fst p, pv_of_simnode (snd p))) sn = proj_of_nodes mn.
  Proof.
    intros S1 P1 S2 P2 H. apply sorted_map_ext; auto. intros k. specialize (H k).
    destruct (sget N.compare k sn) as [nd|] eqn:E1, (sget N.compare k mn) as [nd'|] eqn:E2; auto.
    destruct H as (Hc & _ & Hp). unfold pv_of_simnode, pv_of_mcnode. rewrite Hc. f_equal.
    apply ProcsR_pv; eauto.
  Qed.
End Proj.

(* ================================================================================================ *)
(* 3. the search follows the simulator's run up to the first goal / prune state                      *)
(* ================================================================================================ *)
Section Walk.
  Context {T : Type} (ops : time_ops T).
  Context {PS : Type}.
  Variable handlerS : N -> PS -> input -> T -> (nat -> T) -> PS * list (action T) * nat.
  Variable init_state : N -> PS.
  Variable draws : nat -> T.
  Variable crash_order : list (@qevent T) -> list (@qevent T).
  Variable tgt0 : T -> bool.
  Variable teq0 : T -> bool.
  Variable t0 : T.
  Variable clock : N -> T -> T.
  Variable handlerM : N -> PS -> input -> T -> (nat -> T) -> PS * list (action T).
  Variable DS : Type.
  Variable mc_rand : DS -> nat -> T.
  Variable ds_of : @mcstate T (store T) PS -> DS.      (* the checker's ctx.rand() seed, on the code's store *)
  Variable ds_of2 : @mcstate T (astore T) PS -> DS.    (* the same on the reference store *)
  Variable sevent_eqb : (T -> T -> bool) -> sevent T -> sevent T -> bool.
  Variable known : list N.
  Variable crashed0 : N -> bool.
  Hypothesis laws : time_laws ops.
  Hypothesis draws_unit : forall i, tleb ops (tz ops) (draws i) = true /\ tltb ops (draws i) (tone ops) = true.
  Hypothesis teq0_sound : forall r x, tleb ops (tz ops) r = true -> tltb ops r x = true -> teq0 x = false.
  Hypothesis handler_closed : forall proc st inp time rand m dst,
    In (ASend m dst) (snd (handlerM proc st inp time rand)) -> In dst known.
  Hypothesis handler_agree : forall proc st inp t1 r1 t2 r2,
    handlerM proc st inp t1 r1 = fst (handlerS proc st inp t2 r2).
  Hypothesis H_ds : forall st1 st2, StR (R (tleb ops)) st1 st2 -> ds_of st1 = ds_of2 st2.

  Notation tle := (tleb ops).
  Notation simsys := (@simsys T PS).
  Notation soC := (concrete_ops tle (@store_eqb T)).
  Notation soR := (abstract_ops tle sevent_eqb).
  Notation csys := (@mcsys T (store T) PS).
  Notation rsys := (@mcsys T (astore T) PS).
  Notation cstate := (@mcstate T (store T) PS).
  Notation Rel := (SysR (PS := PS) (R tle)).
  Notation WF := (AWf (PS := PS) known).
  Notation En := (Enabled (PS := PS) tle sevent_eqb).
  Notation takeR := (take_choice soR tgt0 teq0 t0 clock handlerM DS mc_rand ds_of2).
  Notation Reachable := (Reachable ops handlerS init_state draws crash_order).
  Notation Rel2 := (Rel2 ops handlerS init_state draws crash_order known crashed0).
  Notation NSteps := (NSteps ops tgt0 teq0 t0 clock handlerM DS mc_rand ds_of2 sevent_eqb).
  Notation Step01 := (Step01 ops tgt0 teq0 t0 clock handlerM DS mc_rand ds_of2 sevent_eqb).
  Notation SimRunOF := (SimRunOF ops handlerS draws handlerM).
  Notation preds := (@preds T (store T) PS).

  Variable pr : preds.
  Variable sys0 : csys.                   (* the system the search runs on *)
  Hypothesis wf0 : wf_sys sys0.

  Local Notation expM := (mc_expand soC tgt0 teq0 t0 clock handlerM DS mc_rand ds_of sys0).
  Local Notation vkM := (vk cstate (mc_no_events soC) (pr_inv pr) (pr_goal pr) (pr_prune pr)).
  Local Notation ReachS := (Reach cstate expM (mc_no_events soC) (pr_inv pr) (pr_goal pr) (pr_prune pr) (get_state sys0)).

  (* what the ROk verdict provides: every reached state was evaluated and is not bad *)
  Hypothesis HOK : forall x, ReachS x -> vkM x = Ok VFinal \/ vkM x = Ok VGo.

  (* the search reaches the saved state of a system sB with these nodes, and stops there: goal or prune *)
  Definition StopAt (nodes : list (N * @mcnode T PS)) : Prop :=
    exists sB : csys, s_nodes sB = nodes /\ wf_sys sB /\ ReachS (get_state sB) /\ vkM (get_state sB) = Ok VFinal.

  Definition Follows (sA : csys) (A : rsys) : Prop :=
    Rel sA A /\ WF A /\ same_frame sys0 sA /\ ReachS (get_state sA).

  Lemma one_walk (A A1 : rsys) c sA :
    Follows sA A -> En A c -> takeR A c = Ok A1 -> (exists sA1, Follows sA1 A1) \/ StopAt (s_nodes A).
  Proof.
    intros (HR & HW & F & Hr) Hen Ht. destruct (HOK _ Hr) as [Hv|Hv].
    - right. exists sA. split; [exact (SysR_nodes _ _ _ HR)|]. split; [exact (rel_wf_sys tle known sA A HR HW)|]. auto.
    - left. destruct (ref_step_reach tle sevent_eqb tgt0 teq0 t0 clock handlerM DS mc_rand ds_of ds_of2 H_ds known
                        handler_closed pr sys0 wf0 sA A A1 c HR HW F Hr Hv Hen Ht) as (s1 & P1 & P2 & P3 & P4).
      exists s1. split; [exact P1|]. split; [exact P2|]. split; [exact P3|exact P4].
  Qed.

  Lemma nsteps_walk (A A1 : rsys) : NSteps A A1 ->
    forall sA, Follows sA A -> (exists sA1, Follows sA1 A1) \/ StopAt (s_nodes A).
  Proof.
    induction 1 as [A|A c A1 A2 Hen Ht Hn Hs IH]; intros sA HF.
    - left. exists sA. exact HF.
    - destruct (one_walk A A1 c sA HF Hen Ht) as [(sA1 & HF1)|Hst]; [|right; exact Hst].
      destruct (IH sA1 HF1) as [Hl|Hst]; [left; exact Hl|right]. rewrite <- Hn. exact Hst.
  Qed.

  Lemma step01_walk (A A1 : rsys) sA :
    Step01 A A1 -> Follows sA A -> (exists sA1, Follows sA1 A1) \/ StopAt (s_nodes A).
  Proof.
    intros [->|(c & Hen & Ht)] HF; [left; exists sA; exact HF|]. exact (one_walk A A1 c sA HF Hen Ht).
  Qed.

  (* the simulator state y is matched with a state of the search that satisfies P *)
  Definition Hit (P : cstate -> Prop) (y : simsys) : Prop :=
    exists sB : csys, Reachable y /\ NodesR (y_nodes y) (s_nodes sB) /\ wf_sys sB /\ ReachS (get_state sB) /\ P (get_state sB).

  Lemma Follows_hit x m sX : Rel2 x m -> Follows sX m -> Hit (fun _ => True) x.
  Proof.
    intros H2 (HR & HW & _ & Hr). exists sX. split; [exact (r2_reach _ _ _ _ _ _ _ _ _ H2)|].
    split; [rewrite (SysR_nodes _ _ _ HR); exact (r2_nodes _ _ _ _ _ _ _ _ _ H2)|].
    split; [exact (rel_wf_sys tle known sX m HR HW)|]. split; [exact Hr|exact I].
  Qed.

  Lemma StopAt_hit y m : Rel2 y m -> StopAt (s_nodes m) -> Hit (fun st => vkM st = Ok VFinal) y.
  Proof.
    intros H2 (sB & Hn & W & Hr & Hv). exists sB. split; [exact (r2_reach _ _ _ _ _ _ _ _ _ H2)|].
    split; [rewrite Hn; exact (r2_nodes _ _ _ _ _ _ _ _ _ H2)|]. auto.
  Qed.

  (* every state of the run is matched with a reached state of the search, unless the search stopped at (a state
     matched with) a strictly earlier state of the run *)
  Theorem run_walk (s : simsys) l : SimRunOF s l ->
    forall m sC, Rel2 s m -> Follows sC m ->
    forall l1 x l2, l = l1 ++ x :: l2 ->
      Hit (fun _ => True) x \/ exists y, In y (s :: l1) /\ Hit (fun st => vkM st = Ok VFinal) y.
  Proof.
    induction 1 as [s|s s1 b l HOF Hs Hrun IH]; intros m sC H2 HF l1 x l2 El.
    - destruct l1; discriminate El.
    - destruct (step_sim2_fine ops handlerS init_state draws crash_order tgt0 teq0 t0 clock handlerM DS mc_rand ds_of2
                  sevent_eqb known crashed0 laws draws_unit teq0_sound handler_closed handler_agree s m s1 b H2 HOF Hs)
        as (ma & m' & Hn & H01 & H2').
      assert (Hstop : StopAt (s_nodes m) -> exists y, In y (s :: l1) /\ Hit (fun st => vkM st = Ok VFinal) y).
      { intros Hst. exists s. split; [left; reflexivity|]. exact (StopAt_hit s m H2 Hst). }
      destruct (nsteps_walk m ma Hn sC HF) as [(sa & HFa)|Hst]; [|right; exact (Hstop Hst)].
      destruct (step01_walk ma m' sa H01 HFa) as [(sC' & HF')|Hst].
      2:{ right. apply Hstop.
          rewrite <- (NSteps_nodes ops tgt0 teq0 t0 clock handlerM DS mc_rand ds_of2 sevent_eqb m ma Hn). exact Hst. }
      destruct l1 as [|z l1]; cbn [app] in El; injection El as E1 E2.
      + left. rewrite <- E1. exact (Follows_hit s1 m' sC' H2' HF').
      + destruct (IH m' sC' H2' HF' l1 x l2 E2) as [Hl|(y & Hy & Hh)]; [left; exact Hl|].
        right. exists y. split; [right; rewrite <- E1; exact Hy|exact Hh].
  Qed.

  (* the projection of a matched simulator state is the projection of the state of the search *)
  Lemma Hit_proj P y : Hit P y -> exists st, ReachS st /\ P st /\ proj_of_mc st = proj_of_sim y.
  Proof.
    intros (sB & HRy & Hn & (Ws & Wp) & Hr & HP). exists (get_state sB). split; [exact Hr|]. split; [exact HP|].
    rewrite proj_get_state. symmetry. unfold proj_of_sim. apply NodesR_proj.
    - exact (SimBaseP.bi_nodes_sorted _ (reachable_base ops handlerS init_state draws crash_order y HRy)).
    - exact (si_procs_sorted y (snapinv_reachable ops handlerS init_state draws crash_order y HRy)).
    - exact Ws.
    - intros nn nd Hg. unfold procs_wf in Wp. rewrite Forall_forall in Wp.
      apply (Wp (nn, nd)). apply (sget_some_in N.compare CmpSpec_N). exact Hg.
    - exact Hn.
  Qed.
End Walk.

(* ================================================================================================ *)
(* 4. C04: a run of the checker that returns ROk covers every continuation of the simulator          *)
(* ================================================================================================ *)
Lemma vk_final_inv {St} (no_events : St -> result bool) (p_inv p_goal p_prune : St -> option N) s :
  vk St no_events p_inv p_goal p_prune s = Ok VFinal -> p_inv s = None /\ (p_goal s <> None \/ p_prune s <> None).
Proof.
  unfold vk. destruct (p_inv s); [discriminate|]. intros H. split; [reflexivity|].
  destruct (p_goal s); [left; discriminate|]. destruct (p_prune s); [right; discriminate|].
  destruct (no_events s) as [[|]|]; discriminate H.
Qed.

Section Main.
  Context {T : Type} (ops : time_ops T).
  Context {PS : Type}.
  (* the simulation *)
  Variable handlerS : N -> PS -> input -> T -> (nat -> T) -> PS * list (action T) * nat.
  Variable init_state : N -> PS.
  Variable draws : nat -> T.
  Variable crash_order : list (@qevent T) -> list (@qevent T).
  (* the checker *)
  Variable teqb : T -> T -> bool.
  Variable tgt0 : T -> bool.
  Variable teq0 : T -> bool.
  Variable t0 : T.
  Variable clock : N -> T -> T.
  Variable ps_eqb : PS -> PS -> bool.
  Variable handlerM : N -> PS -> input -> T -> (nat -> T) -> PS * list (action T).
  Variable DS : Type.
  Variable mc_rand : DS -> nat -> T.
  Variable ds_of : @mcstate T (store T) PS -> DS.
  (* the reference semantics *)
  Variable ds_of2 : @mcstate T (astore T) PS -> DS.
  Variable sevent_eqb : (T -> T -> bool) -> sevent T -> sevent T -> bool.

  Notation tle := (tleb ops).
  Notation simsys := (@simsys T PS).
  Notation soC := (concrete_ops tle (@store_eqb T)).
  Notation soR := (abstract_ops tle sevent_eqb).
  Notation csys := (@mcsys T (store T) PS).
  Notation rsys := (@mcsys T (astore T) PS).
  Notation cstate := (@mcstate T (store T) PS).
  Notation preds := (@preds T (store T) PS).
  Notation Reachable := (Reachable ops handlerS init_state draws crash_order).
  Notation SimRunOF := (SimRunOF ops handlerS draws handlerM).
  Notation veq := (mcstate_eqb soC teqb ps_eqb).

  (* ---- hypotheses of C04_stage2 ---- *)
  Hypothesis laws : time_laws ops.
  Hypothesis sub_add_le : forall t c d, tleb ops (tsub ops t c) d = true -> tleb ops t (tadd ops c d) = true.
  Hypothesis draws_unit : forall i, tleb ops (tz ops) (draws i) = true /\ tltb ops (draws i) (tone ops) = true.
  Hypothesis teq0_sound : forall r x, tleb ops (tz ops) r = true -> tltb ops r x = true -> teq0 x = false.
  Hypothesis handler_agree : forall proc st inp t1 r1 t2 r2,
    handlerM proc st inp t1 r1 = fst (handlerS proc st inp t2 r2).
  Variable s0 : simsys.          (* the simulator state at the hand-off *)
  Variable m0 : rsys.            (* its snapshot over the reference store *)
  Variable sysC : csys.          (* its snapshot over the code's store: ModelChecker::new *)
  Hypothesis s0_reachable : Reachable s0.
  Hypothesis s0_installed : Installed s0.
  Hypothesis s0_routed : Routed s0 \/ NoCrash s0.
  Hypothesis s0_no_corruption : sn_corrupt (y_net s0) = tz ops.
  Hypothesis s0_snapshot_ref : snapshot ops soR s0 = Ok m0.
  Hypothesis s0_snapshot : snapshot ops soC s0 = Ok sysC.
  Hypothesis handler_closed : forall proc st inp time rand m dst,
    In (ASend m dst) (snd (handlerM proc st inp time rand)) -> In dst (known_of s0).

  (* ---- hypotheses of C03 (run_verdict / mc_ok_ref) ---- *)
  Hypothesis H_ds : forall st1 st2, StR (R tle) st1 st2 -> ds_of st1 = ds_of2 st2.
  Hypothesis teqb_spec : forall a b, teqb a b = true <-> a = b.
  Hypothesis ps_eqb_spec : forall a b, ps_eqb a b = true <-> a = b.
  Hypothesis Hds : ds_respects tle teqb ps_eqb DS ds_of.
  Variable pr : preds.
  Hypothesis Hpr : state_based tle teqb ps_eqb pr.

  Local Notation sys0 := (started sysC).     (* the system run_impl searches on: the snapshot with McStarted logged *)
  Local Notation expM := (mc_expand soC tgt0 teq0 t0 clock handlerM DS mc_rand ds_of sys0).
  Local Notation vkM := (vk cstate (mc_no_events soC) (pr_inv pr) (pr_goal pr) (pr_prune pr)).
  Local Notation ReachS := (Reach cstate expM (mc_no_events soC) (pr_inv pr) (pr_goal pr) (pr_prune pr) (get_state sys0)).

  Hypothesis OF0 : OverrideFreeOn tle t0 clock handlerM DS mc_rand ds_of pr sys0 (s_net sys0) ReachS.

  (* ---- the predicates look at the process-visible projection only ---- *)
  Variable inv_pv : projection (PS := PS) -> option N.
  Variable goal_pv : projection (PS := PS) -> option N.
  Variable prune_pv : projection (PS := PS) -> option N.
  Definition pv_based : Prop :=
    (forall st : cstate, pr_inv pr st = inv_pv (proj_of_mc st)) /\
    (forall st : cstate, pr_goal pr st = goal_pv (proj_of_mc st)) /\
    (forall st : cstate, pr_prune pr st = prune_pv (proj_of_mc st)).
  Hypothesis Hpv : pv_based.

  (* the run of the checker: no preliminary callback, any strategy / visited mode / fuel *)
  Definition CheckerSaysOk : Prop :=
    exists cf sys' stat coll ss',
      run soC teqb tgt0 teq0 t0 clock ps_eqb handlerM DS mc_rand ds_of cf pr sysC [] = Ok (sys', ROk stat coll, ss').

  Lemma clock_indep : clock_independent handlerM.
  Proof. intros p st inp t t' r. rewrite (handler_agree p st inp t r t r). symmetry. apply handler_agree. Qed.

  Local Notation crashed0 := (fun x => match sget N.compare x (y_nodes s0) with Some nd => sd_crashed nd | None => false end).
  Local Notation Rel2 := (Rel2 ops handlerS init_state draws crash_order (known_of s0) crashed0).

  Lemma rel2_start : Rel2 s0 m0.
  Proof.
    apply (rel_snapshot2 ops handlerS init_state draws crash_order teq0 t0 sevent_eqb (known_of s0) crashed0 laws sub_add_le);
      auto.
  Qed.

  Lemma rel2_started : Rel2 s0 (started m0).
  Proof. destruct rel2_start as [a b c d e f g]. constructor; assumption. Qed.

  Lemma rel_started : SysR (R tle) sys0 (started m0).
  Proof.
    pose proof (snapshot_related_both ops tle (@store_eqb T) sevent_eqb s0 sysC m0 s0_snapshot s0_snapshot_ref) as H.
    constructor; cbn [started s_nodes s_net s_depth s_mf s_trace s_events].
    - exact (SysR_nodes _ _ _ H).
    - exact (SysR_net _ _ _ H).
    - exact (SysR_depth _ _ _ H).
    - exact (SysR_mf _ _ _ H).
    - rewrite (SysR_trace _ _ _ H). reflexivity.
    - exact (SysR_events _ _ _ H).
  Qed.

  Lemma wf_start : wf_sys sys0.
  Proof. exact (rel_wf_sys tle (known_of s0) sys0 (started m0) rel_started (r2_awf _ _ _ _ _ _ _ _ _ rel2_started)). Qed.

  (* the invariant of Proofs/EqBisim.v holds of the snapshot: placement, the store refines the reference store with a
     deterministic name map, and the processes' pending-timer names are exactly the pending timer events *)
  Lemma snapshot_StInv : StInv tle sysC.
  Proof.
    pose proof (snapshot_related_both ops tle (@store_eqb T) sevent_eqb s0 sysC m0 s0_snapshot s0_snapshot_ref) as HR.
    pose proof rel2_start as [HRe HW Hmf NR CA ND EV].
    pose proof HW as ((_ & _ & _ & Hl & _) & _ & _ & _ & HT).
    apply (StInv_intro tle sysC (s_events m0)).
    - intros nn nd p Hs Hp. rewrite (SysR_nodes _ _ _ HR) in Hs. rewrite (SysR_net _ _ _ HR). apply Hl. eauto.
    - exact (SysR_events _ _ _ HR).
    - intros i p n d Hi.
      exact (snapshot_amap_reachable ops handlerS init_state draws crash_order tle sevent_eqb s0 m0 i p n d s0_reachable
               s0_snapshot_ref Hi).
    - intros nn nd p e Hs Hc Hg _ n. rewrite (SysR_nodes _ _ _ HR) in Hs. split.
      + intros Hn. destruct (HT nn nd p e Hs Hc Hg n Hn) as (i & d & _ & Hi). exists i, d. exact Hi.
      + intros (i & d & Hi).
        destruct (permx_timer_back _ _ i p n d (e2_perm _ _ _ _ EV) Hi) as (ev & Hev & Hd).
        apply filter_In in Hev. destruct Hev as [Hlive Hdl].
        destruct (live_dst_node ops handlerS init_state draws crash_order s0 ev HRe Hlive) as (name & nd0 & G1 & G2 & G3).
        unfold dlv in Hdl. rewrite G3 in Hdl. destruct (sd_crashed nd0) eqn:Ecr; [discriminate Hdl|].
        destruct (ti_live_pending s0 (timer_reachable ops handlerS init_state draws crash_order s0 HRe) name nd0 ev p n
                    G1 Ecr Hlive Hd (eq_sym G2)) as (pe & Hpe & Hpt).
        pose proof (reachable_base ops handlerS init_state draws crash_order s0 HRe) as B.
        pose proof (ND nn) as Hnn. rewrite Hs in Hnn.
        destruct (sget N.compare nn (y_nodes s0)) as [nds|] eqn:Ens; [|destruct Hnn].
        destruct Hnn as (_ & _ & HP). pose proof (HP p) as Hpp. rewrite Hg in Hpp.
        destruct (sget N.compare p (sd_procs nds)) as [pes|] eqn:Eps; [|destruct Hpp].
        pose proof (bi_proc_fwd s0 B name nd0 p pe G1 Hpe) as L1.
        pose proof (bi_proc_fwd s0 B nn nds p pes Ens Eps) as L2.
        rewrite L1 in L2. injection L2 as ->. rewrite G1 in Ens. injection Ens as <-.
        rewrite Hpe in Eps. injection Eps as <-.
        destruct Hpp as (_ & _ & Hsh & _). rewrite <- (Hsh n). unfold shas. rewrite Hpt. reflexivity.
  Qed.

  (* ROk: every state the search reaches was evaluated, and is a goal / prune state or is expanded *)
  Lemma ok_verdicts : CheckerSaysOk -> forall x, ReachS x -> vkM x = Ok VFinal \/ vkM x = Ok VGo.
  Proof.
    intros (cf & sys' & stat & coll & ss' & Hrun) x Hx.
    destruct (run_ok_sound_complete tle teqb tgt0 teq0 t0 clock ps_eqb handlerM DS mc_rand ds_of teqb_spec ps_eqb_spec
                clock_indep Hds pr Hpr sysC [] sys0 wf_start eq_refl snapshot_StInv cf sys' stat coll ss' OF0 Hrun)
      as (_ & P1 & P2 & _).
    destruct (P2 x Hx) as (y & Hy & E). destruct (P1 y Hy) as [_ Hv].
    rewrite (mc_vk_compat tle teqb ps_eqb teqb_spec ps_eqb_spec pr Hpr sys0 x y E). exact Hv.
  Qed.

  Local Notation Hit := (Hit ops handlerS init_state draws crash_order tgt0 teq0 t0 clock handlerM DS mc_rand ds_of pr sys0).

  Lemma follows_start :
    Follows ops tgt0 teq0 t0 clock handlerM DS mc_rand ds_of (known_of s0) pr sys0 sys0 (started m0).
  Proof.
    split; [exact rel_started|]. split; [exact (r2_awf _ _ _ _ _ _ _ _ _ rel2_started)|].
    split; [apply same_frame_refl|constructor].
  Qed.

  (* every state of the run, the hand-off state included, is matched with a reached state of the search - unless the
     search stopped at a state matched with a strictly earlier state of the run *)
  Lemma run_hits : CheckerSaysOk -> forall l, SimRunOF s0 l -> forall l1 x l2, s0 :: l = l1 ++ x :: l2 ->
    Hit (fun _ => True) x \/ exists y, In y l1 /\ Hit (fun st => vkM st = Ok VFinal) y.
  Proof.
    intros Hok l Hrun l1 x l2 El. destruct l1 as [|z l1]; cbn [app] in El; injection El as E1 E2.
    - left. rewrite <- E1.
      exact (Follows_hit ops handlerS init_state draws crash_order tgt0 teq0 t0 clock handlerM DS mc_rand ds_of (known_of s0)
               crashed0 pr sys0 s0 (started m0) sys0 rel2_started follows_start).
    - rewrite <- E1.
      exact (run_walk ops handlerS init_state draws crash_order tgt0 teq0 t0 clock handlerM DS mc_rand ds_of ds_of2 sevent_eqb
               (known_of s0) crashed0 laws draws_unit teq0_sound handler_closed handler_agree H_ds pr sys0 wf_start
               (ok_verdicts Hok) s0 l Hrun (started m0) sys0 rel2_started follows_start l1 x l2 E2).
  Qed.

  (* ---------------------------------------------------------------------------------------------- *)
  (* C04, last sentence.  The checker returned ROk.  Then along every override-free continuation of the simulation
     from the hand-off state (the hand-off state included) every state satisfies the invariant, up to the first state
     at which a goal or prune predicate holds (where the checker legitimately stops exploring). *)
  Theorem C04_handoff_safe :
    CheckerSaysOk ->
    forall l, SimRunOF s0 l ->
    forall l1 x l2, s0 :: l = l1 ++ x :: l2 ->
      inv_pv (proj_of_sim x) = None
      \/ exists y, In y l1 /\ inv_pv (proj_of_sim y) = None /\
                   (goal_pv (proj_of_sim y) <> None \/ prune_pv (proj_of_sim y) <> None).
  Proof.
    intros Hok l Hrun l1 x l2 El. destruct Hpv as (Pi & Pg & Pp).
    destruct (run_hits Hok l Hrun l1 x l2 El) as [Hh|(y & Hy & Hh)].
    - left. destruct (Hit_proj ops handlerS init_state draws crash_order tgt0 teq0 t0 clock handlerM DS mc_rand ds_of pr sys0
                        _ x Hh) as (st & Hr & _ & Ep).
      rewrite <- Ep, <- Pi. exact (vk_ok_inv _ _ _ _ _ st (ok_verdicts Hok st Hr)).
    - right. exists y. split; [exact Hy|].
      destruct (Hit_proj ops handlerS init_state draws crash_order tgt0 teq0 t0 clock handlerM DS mc_rand ds_of pr sys0
                  _ y Hh) as (st & Hr & Hv & Ep).
      destruct (vk_final_inv _ _ _ _ st Hv) as [Hi Hgp]. rewrite <- Ep, <- Pi, <- Pg, <- Pp. auto.
  Qed.

  (* without goal and prune predicates: the invariant holds at every state the simulation passes through *)
  Corollary C04_handoff_safe_plain :
    CheckerSaysOk -> (forall p, goal_pv p = None) -> (forall p, prune_pv p = None) ->
    forall l, SimRunOF s0 l -> forall x, In x (s0 :: l) -> inv_pv (proj_of_sim x) = None.
  Proof.
    intros Hok Hg Hp l Hrun x Hx. apply in_split in Hx. destruct Hx as (l1 & l2 & El).
    destruct (C04_handoff_safe Hok l Hrun l1 x l2 El) as [H|(y & _ & _ & [H|H])]; [exact H| |].
    - exfalso. apply H, Hg.
    - exfalso. apply H, Hp.
  Qed.

  (* contrapositive: "model checking never declares safe a system that the simulator can break" *)
  Corollary C04_breakable_not_ok :
    forall l, SimRunOF s0 l ->
    forall l1 x l2, s0 :: l = l1 ++ x :: l2 ->
      inv_pv (proj_of_sim x) <> None ->
      (forall y, In y l1 -> goal_pv (proj_of_sim y) = None /\ prune_pv (proj_of_sim y) = None) ->
      ~ CheckerSaysOk.
  Proof.
    intros l Hrun l1 x l2 El Hbad Hno Hok.
    destruct (C04_handoff_safe Hok l Hrun l1 x l2 El) as [H|(y & Hy & _ & [H|H])]; [exact (Hbad H)| |];
      destruct (Hno y Hy) as [Hg Hp]; contradiction.
  Qed.
End Main.

(* ---------------------------------------------------------------------------------------------- *)
(* the same without mentioning the reference snapshot: it exists (SnapshotP.snapshot_awf)            *)
(* ---------------------------------------------------------------------------------------------- *)
Section Final.
  Context {T : Type} (ops : time_ops T).
  Context {PS : Type}.
  Variable handlerS : N -> PS -> input -> T -> (nat -> T) -> PS * list (action T) * nat.
  Variable init_state : N -> PS.
  Variable draws : nat -> T.
  Variable crash_order : list (@qevent T) -> list (@qevent T).
  Variable teqb : T -> T -> bool.
  Variable tgt0 : T -> bool.
  Variable teq0 : T -> bool.
  Variable t0 : T.
  Variable clock : N -> T -> T.
  Variable ps_eqb : PS -> PS -> bool.
  Variable handlerM : N -> PS -> input -> T -> (nat -> T) -> PS * list (action T).
  Variable DS : Type.
  Variable mc_rand : DS -> nat -> T.
  Variable ds_of : @mcstate T (store T) PS -> DS.
  Variable ds_of2 : @mcstate T (astore T) PS -> DS.

  Notation tle := (tleb ops).
  Notation simsys := (@simsys T PS).
  Notation soC := (concrete_ops tle (@store_eqb T)).
  Notation csys := (@mcsys T (store T) PS).
  Notation cstate := (@mcstate T (store T) PS).
  Notation preds := (@preds T (store T) PS).
  Notation Reachable := (Reachable ops handlerS init_state draws crash_order).
  Notation SimRunOF := (SimRunOF ops handlerS draws handlerM).

  (* the time algebra; the simulation's random stream yields numbers in [0, 1); the checker's test "rate == 0." *)
  Hypothesis laws : time_laws ops.
  Hypothesis sub_add_le : forall t c d, tleb ops (tsub ops t c) d = true -> tleb ops t (tadd ops c d) = true.
  Hypothesis draws_unit : forall i, tleb ops (tz ops) (draws i) = true /\ tltb ops (draws i) (tone ops) = true.
  Hypothesis teq0_sound : forall r x, tleb ops (tz ops) r = true -> tltb ops r x = true -> teq0 x = false.
  (* the two engines run the same user code, which ignores its clock argument and the draw oracle *)
  Hypothesis handler_agree : forall proc st inp t1 r1 t2 r2,
    handlerM proc st inp t1 r1 = fst (handlerS proc st inp t2 r2).
  (* the hand-off *)
  Variable s0 : simsys.
  Variable sysC : csys.
  Hypothesis s0_reachable : Reachable s0.
  Hypothesis s0_installed : Installed s0.
  Hypothesis s0_routed : Routed s0 \/ NoCrash s0.
  Hypothesis s0_no_corruption : sn_corrupt (y_net s0) = tz ops.
  Hypothesis s0_snapshot : snapshot ops soC s0 = Ok sysC.
  Hypothesis handler_closed : forall proc st inp time rand m dst,
    In (ASend m dst) (snd (handlerM proc st inp time rand)) -> In dst (known_of s0).
  (* the checker's side conditions (C03) *)
  Hypothesis H_ds : forall st1 st2, StR (R tle) st1 st2 -> ds_of st1 = ds_of2 st2.
  Hypothesis teqb_spec : forall a b, teqb a b = true <-> a = b.
  Hypothesis ps_eqb_spec : forall a b, ps_eqb a b = true <-> a = b.
  Hypothesis Hds : ds_respects tle teqb ps_eqb DS ds_of.
  Variable pr : preds.
  Hypothesis Hpr : state_based tle teqb ps_eqb pr.
  (* override-freedom of the steps the checker explores (known finding F10 otherwise) *)
  Definition CheckerOverrideFree : Prop :=
    OverrideFreeOn tle t0 clock handlerM DS mc_rand ds_of pr (started sysC) (s_net (started sysC))
      (Reach cstate (mc_expand soC tgt0 teq0 t0 clock handlerM DS mc_rand ds_of (started sysC)) (mc_no_events soC)
             (pr_inv pr) (pr_goal pr) (pr_prune pr) (get_state (started sysC))).
  (* the predicates look at the process-visible projection *)
  Variable inv_pv : projection (PS := PS) -> option N.
  Variable goal_pv : projection (PS := PS) -> option N.
  Variable prune_pv : projection (PS := PS) -> option N.
  Hypothesis Hpv : pv_based pr inv_pv goal_pv prune_pv.

  Local Notation SaysOk := (CheckerSaysOk ops teqb tgt0 teq0 t0 clock ps_eqb handlerM DS mc_rand ds_of sysC pr).

  Theorem C04_safe :
    CheckerOverrideFree -> SaysOk ->
    forall l, SimRunOF s0 l ->
    forall l1 x l2, s0 :: l = l1 ++ x :: l2 ->
      inv_pv (proj_of_sim x) = None
      \/ exists y, In y l1 /\ inv_pv (proj_of_sim y) = None /\
                   (goal_pv (proj_of_sim y) <> None \/ prune_pv (proj_of_sim y) <> None).
  Proof.
    intros OF0.
    destruct (snapshot_awf ops handlerS init_state draws crash_order tle (fun _ _ _ => true) s0 s0_reachable s0_installed)
      as (m0 & Hm & _).
    exact (C04_handoff_safe ops handlerS init_state draws crash_order teqb tgt0 teq0 t0 clock ps_eqb handlerM DS mc_rand
             ds_of ds_of2 (fun _ _ _ => true) laws sub_add_le draws_unit teq0_sound handler_agree s0 m0 sysC s0_reachable
             s0_installed s0_routed s0_no_corruption Hm s0_snapshot handler_closed H_ds teqb_spec ps_eqb_spec Hds pr Hpr OF0
             inv_pv goal_pv prune_pv Hpv).
  Qed.

  Corollary C04_safe_plain :
    CheckerOverrideFree -> SaysOk -> (forall p, goal_pv p = None) -> (forall p, prune_pv p = None) ->
    forall l, SimRunOF s0 l -> forall x, In x (s0 :: l) -> inv_pv (proj_of_sim x) = None.
  Proof.
    intros OF0 Hok Hg Hp l Hrun x Hx. apply in_split in Hx. destruct Hx as (l1 & l2 & El).
    destruct (C04_safe OF0 Hok l Hrun l1 x l2 El) as [H|(y & _ & _ & [H|H])]; [exact H| |].
    - exfalso. apply H, Hg.
    - exfalso. apply H, Hp.
  Qed.

  (* "model checking never declares safe a system that the simulator can break" *)
  Corollary C04_breakable_never_ok :
    CheckerOverrideFree ->
    forall l, SimRunOF s0 l ->
    forall l1 x l2, s0 :: l = l1 ++ x :: l2 ->
      inv_pv (proj_of_sim x) <> None ->
      (forall y, In y l1 -> goal_pv (proj_of_sim y) = None /\ prune_pv (proj_of_sim y) = None) ->
      forall cf sys' stat coll ss',
        run soC teqb tgt0 teq0 t0 clock ps_eqb handlerM DS mc_rand ds_of cf pr sysC [] <> Ok (sys', ROk stat coll, ss').
  Proof.
    intros OF0 l Hrun l1 x l2 El Hbad Hno cf sys' stat coll ss' Hr.
    assert (Hok : SaysOk) by (exists cf, sys', stat, coll, ss'; exact Hr).
    destruct (C04_safe OF0 Hok l Hrun l1 x l2 El) as [H|(y & Hy & _ & [H|H])]; [exact (Hbad H)| |];
      destruct (Hno y Hy) as [Hg Hp]; contradiction.
  Qed.
  (* the static form: processes that set timers with set_timer_once only.  Then both override-freedom conditions
     (of the simulator's steps and of the checker's steps) hold by themselves and every run of `step`s is covered *)
  Hypothesis once_only_M : forall proc st inp t r n d once,
    In (ATimerSet n d once) (snd (handlerM proc st inp t r)) -> once = true.

  Lemma once_checker_override_free : CheckerOverrideFree.
  Proof.
    apply OverrideFree_On. apply once_only_OverrideFree. intros proc st inp t r n d Hin.
    specialize (once_only_M _ _ _ _ _ _ _ _ Hin). discriminate once_only_M.
  Qed.

  Corollary C04_safe_once :
    SaysOk ->
    forall l, SimRun ops handlerS draws s0 l ->
    forall l1 x l2, s0 :: l = l1 ++ x :: l2 ->
      inv_pv (proj_of_sim x) = None
      \/ exists y, In y l1 /\ inv_pv (proj_of_sim y) = None /\
                   (goal_pv (proj_of_sim y) <> None \/ prune_pv (proj_of_sim y) <> None).
  Proof.
    intros Hok l Hrun. apply (C04_safe once_checker_override_free Hok).
    exact (run_of_once ops handlerS draws handlerM l once_only_M s0 Hrun).
  Qed.

  (* through the API: the state after `steps(k)` *)
  Lemma last_cons {A} (a d : A) l : last (a :: l) d = last l a.
  Proof.
    revert a d. induction l as [|b l IH]; intros a d; [reflexivity|].
    change (last (a :: b :: l) d) with (last (b :: l) d). rewrite (IH b d), (IH b a). reflexivity.
  Qed.

  Lemma steps_fuel_run fuel : forall (s : simsys) n s' b,
    steps_fuel ops handlerS draws fuel s n = Ok (s', b) -> exists l, SimRun ops handlerS draws s l /\ last l s = s'.
  Proof.
    induction fuel as [|f IH]; intros s n s' b H; cbn [steps_fuel] in H; [discriminate|].
    destruct (N.eqb n 0).
    - injection H as <- _. exists []. split; [constructor|reflexivity].
    - destruct (step ops handlerS draws s) as [[s1 b1]|] eqn:Es; cbn [bind] in H; [|discriminate].
      destruct b1.
      + destruct (IH s1 (n - 1) s' b H) as (l & Hl & El). exists (s1 :: l). split; [econstructor; eauto|].
        rewrite last_cons. exact El.
      + injection H as <- _. exists [s1]. split; [econstructor; [exact Es|constructor]|reflexivity].
  Qed.

  Corollary C04_safe_steps fuel k (sk : simsys) r :
    SaysOk ->
    sim_op ops handlerS init_state draws crash_order fuel s0 (YSteps k) = Ok (sk, r) ->
    exists l, SimRun ops handlerS draws s0 l /\ last l s0 = sk /\
      (inv_pv (proj_of_sim sk) = None
       \/ exists y, In y (removelast (s0 :: l)) /\ inv_pv (proj_of_sim y) = None /\
                    (goal_pv (proj_of_sim y) <> None \/ prune_pv (proj_of_sim y) <> None)).
  Proof.
    cbn [Sim.sim_op]. intros Hok H.
    destruct (steps_fuel ops handlerS draws fuel s0 k) as [[s' b]|] eqn:E; cbn [bind] in H; [|discriminate].
    injection H as -> _.
    destruct (steps_fuel_run fuel s0 k sk b E) as (l & Hl & El). exists l. split; [exact Hl|]. split; [exact El|].
    apply (C04_safe_once Hok l Hl (removelast (s0 :: l)) sk []).
    rewrite <- El, <- (last_cons s0 s0 l). apply app_removelast_last. discriminate.
  Qed.
End Final.

(* ---------------------------------------------------------------------------------------------- *)
(* predicates on the part of the projection the checker's equality sees (crash flags, user states, outboxes) are
   state based: for them [state_based] needs to be checked for pr_collect only *)
(* ---------------------------------------------------------------------------------------------- *)
Section Core.
  Context {T : Type} (tleb teqb : T -> T -> bool).
  Context {PS : Type} (ps_eqb : PS -> PS -> bool).
  Hypothesis teqb_spec : forall a b, teqb a b = true <-> a = b.
  Hypothesis ps_eqb_spec : forall a b, ps_eqb a b = true <-> a = b.
  Notation cstate := (@mcstate T (store T) PS).
  Notation veq := (mcstate_eqb (concrete_ops tleb (@store_eqb T)) teqb ps_eqb).

  Definition core_projection : Type := list (N * (bool * list (N * (PS * list msg)))).
  (* drop the message counters *)
  Definition core_of (p : projection (PS := PS)) : core_projection :=
    map (fun x => (fst x, (fst (snd x), map (fun q => (fst q, fst (fst (snd q)))) (snd (snd x))))) p.

  Lemma veq_core (a b : cstate) : veq a b = true -> core_of (proj_of_mc a) = core_of (proj_of_mc b).
  Proof.
    intros H. apply (mcstate_eqb_spec_unfolded tleb teqb ps_eqb teqb_spec ps_eqb_spec) in H. destruct H as [_ HF].
    unfold proj_of_mc, core_of. rewrite !map_map. cbn [fst snd pv_of_nodestate].
    induction HF as [|x y l l' (Hk & Hc & HP) _ IH]; cbn [map]; [reflexivity|]. rewrite IH, Hk, Hc. do 3 f_equal.
    unfold pv_procs. rewrite !map_map. cbn [fst snd pv_of_pe].
    clear -HP. induction HP as [|p q r r' (Hk & Hs & Ho) _ IH]; cbn [map]; [reflexivity|]. rewrite IH, Hk, Hs, Ho. reflexivity.
  Qed.

  Theorem core_based_state_based (pr : @preds T (store T) PS) (ci cg cp : core_projection -> option N) :
    (forall a b, veq a b = true -> pr_collect pr a = pr_collect pr b) ->
    (forall st, pr_inv pr st = ci (core_of (proj_of_mc st))) ->
    (forall st, pr_goal pr st = cg (core_of (proj_of_mc st))) ->
    (forall st, pr_prune pr st = cp (core_of (proj_of_mc st))) ->
    state_based tleb teqb ps_eqb pr /\
    pv_based pr (fun p => ci (core_of p)) (fun p => cg (core_of p)) (fun p => cp (core_of p)).
  Proof.
    intros Hc Hi Hg Hp. split.
    - split; [exact Hc|]. split; [|split]; intros a b E; rewrite ?Hi, ?Hg, ?Hp, (veq_core a b E); reflexivity.
    - split; [exact Hi|]. split; [exact Hg|exact Hp].
  Qed.
End Core.

Check @C04_handoff_safe.
Check @C04_handoff_safe_plain.
Check @C04_breakable_not_ok.
Check @C04_safe.
Check @C04_safe_plain.
Check @C04_breakable_never_ok.
Check @C04_safe_once.
Check @C04_safe_steps.
Print Assumptions step_sim2_fine.
Print Assumptions run_walk.
Print Assumptions C04_handoff_safe.
Print Assumptions C04_handoff_safe_plain.
Print Assumptions C04_breakable_not_ok.
Print Assumptions C04_safe.
Print Assumptions C04_safe_plain.
Print Assumptions C04_breakable_never_ok.
Print Assumptions C04_safe_once.
Print Assumptions C04_safe_steps.
