(* Concrete witnesses for the remarks in Proofs/RefWf.v (T := N, PS := nat, concrete handlers):
   ex_weak_clause5    the invariant with clause 5 stated with `pending_id` only (as first proposed) is not
                      inductive: a configuration satisfying it from which an enabled delivery panics (99);
   ex_reset           CbNet NReset after a crash reconnects the crashed node: a later enabled delivery panics (41);
   ex_ghost           the ghost-timer scenario (a name set again while pending) runs without panic and the
                      name map points to the newest timer. *)
From Coq Require Import List NArith Bool Lia.
From ASV Require Import Base.Util Base.Msg Base.Log Model.Store Spec.StoreSpec Model.McSys Spec.RefSys
     Proofs.UtilP Proofs.StoreSpecP Proofs.RefWf.
Import ListNotations.
Open Scope N_scope.

Definition x_tgt0 (b : N) : bool := negb (N.eqb b 0).
Definition x_teq0 (b : N) : bool := N.eqb b 0.
Definition x_clock (d s : N) : N := d + s.
Definition x_ops : @store_ops N (astore N) := abstract_ops N.leb (fun _ _ _ => true).
Definition x_sys := @mcsys N (astore N) nat.

Definition x_msg : msg := {| tip := [1]; data := [] |}.
Definition x_pe (pt : list (N * N)) : pentry N nat :=
  {| pe_state := 0%nat; pe_evlog := []; pe_outbox := []; pe_ptimers := pt; pe_sent := 0; pe_recv := 0 |}.
Definition x_net : @mcnet N :=
  {| n_corrupt := 0; n_dupl := 0; n_drop := 0; n_drop_in := []; n_drop_out := []; n_links := [];
     n_loc := [(10, 1); (20, 2)]; n_maxdelay := 0 |}.
Definition x_node (p : N) (pt : list (N * N)) : @mcnode N nat :=
  {| nd_procs := [(p, x_pe pt)]; nd_skew := 0; nd_crashed := false |}.
Definition x_init (a : astore N) (pt : list (N * N)) : x_sys :=
  {| s_nodes := [(1, x_node 10 pt); (2, x_node 20 [])]; s_net := x_net; s_events := a; s_depth := 0;
     s_mf := false; s_trace := [] |}.

Section Ex.
  Variable h : N -> nat -> input -> N -> (nat -> N) -> nat * list (action N).
  Definition x_take := take_choice x_ops x_tgt0 x_teq0 0 x_clock h unit (fun _ _ => 0) (fun _ => tt).
  Definition x_cb := cb_run x_ops x_tgt0 x_teq0 0 x_clock h unit (fun _ _ => 0) (fun _ => tt).
End Ex.

Definition tag {A} (r : result A) : option N := match r with Ok _ => None | Panic t => Some t end.

(* ---- (a) clause 5 with pending_id only is not inductive ---- *)
Definition h_a (proc : N) (st : nat) (i : input) (t : N) (r : nat -> N) : nat * list (action N) :=
  match i with InMsg _ _ => (st, [ATimerCancel 5; ATimerCancel 6]) | _ => (st, []) end.
Definition a_store : astore N :=
  {| pend := [(0, ETimer 10 5 1); (1, EMsg x_msg 10 10 (NoFailures 0))];
     amap := [((10, 5), 0); ((10, 6), 0)]; anext := 2 |}.
Definition a_sys : x_sys := x_init a_store [(5, 0); (6, 0)].

(* the weak clause 5 holds (and so do clauses 1-4: one pending timer and one pending message of the live process 10) *)
Example ex_weak_clause5_holds :
  forall n, shas N.compare n [(5, 0); (6, 0)] = true ->
            exists i, sget tkey_cmp (10, n) (amap a_store) = Some i /\ pending_id a_store i = true.
Proof.
  intros n H. apply (shas_in _ CmpSpec_N) in H. cbn in H.
  destruct H as [<-|[<-|[]]]; exists 0; split; reflexivity.
Qed.
(* the message 1 is enabled, its delivery panics: the second cancel finds the name map pointing to the id
   the first cancel removed *)
Example ex_weak_clause5 :
  available x_ops a_sys = Ok [0; 1] /\ alternatives x_ops a_sys 1 = Ok [ChDeliver 1] /\
  tag (x_take h_a a_sys (ChDeliver 1)) = Some 99.
Proof. vm_compute. auto. Qed.

(* ---- (b) NReset after a crash ---- *)
Definition h_b (proc : N) (st : nat) (i : input) (t : N) (r : nat -> N) : nat * list (action N) :=
  match i with InLocal m => (st, [ASend m 20]) | _ => (st, []) end.
Definition b_sys : result x_sys :=
  x_cb h_b (x_init aempty []) [CbCrash 2; CbNet NReset; CbLocal 1 10 x_msg].
Example ex_reset :
  match b_sys with
  | Ok s => available x_ops s = Ok [0] /\ alternatives x_ops s 0 = Ok [ChDeliver 0] /\
            tag (x_take h_b s (ChDeliver 0)) = Some 41
  | Panic _ => False
  end.
Proof. vm_compute. auto. Qed.
(* without the reset the message is dropped at once: nothing pending *)
Example ex_no_reset :
  match x_cb h_b (x_init aempty []) [CbCrash 2; CbLocal 1 10 x_msg] with
  | Ok s => pend (s_events s) = [] /\ In (LMcMessageDropped x_msg 10 20) (s_trace s)
  | Panic _ => False
  end.
Proof. vm_compute. auto 10. Qed.

(* ---- (c) ghost timers ---- *)
Definition h_c (proc : N) (st : nat) (i : input) (t : N) (r : nat -> N) : nat * list (action N) :=
  match i with
  | InLocal _ => (st, [ATimerSet 5 2 false; ATimerSet 5 1 false])
  | InTimer _ => (S st, [ATimerCancel 5])
  | _ => (st, [])
  end.
Definition c_sys0 : result x_sys := x_cb h_c (x_init aempty []) [CbLocal 1 10 x_msg].
Example ex_ghost :
  match c_sys0 with
  | Ok s =>
    pend (s_events s) = [(0, ETimer 10 5 2); (1, ETimer 10 5 1)] /\ amap (s_events s) = [((10, 5), 1)] /\
    available x_ops s = Ok [0; 1] /\
    (* fire the ghost 0, then the current timer 1 *)
    match x_take h_c s (ChDeliver 0) with
    | Ok s1 => pend (s_events s1) = [(1, ETimer 10 5 1)] /\
               match x_take h_c s1 (ChDeliver 1) with
               | Ok s2 => pend (s_events s2) = [] /\ amap (s_events s2) = [((10, 5), 1)]
               | Panic _ => False
               end
    | Panic _ => False
    end /\
    (* or the other way round *)
    match x_take h_c s (ChDeliver 1) with
    | Ok s1 => pend (s_events s1) = [(0, ETimer 10 5 2)] /\ is_ok (x_take h_c s1 (ChDeliver 0)) = true
    | Panic _ => False
    end
  | Panic _ => False
  end.
Proof. vm_compute. auto 10. Qed.

(* ---- the hypotheses of the theorems are satisfiable: the initial system of (b) is AWf with known = [10; 20],
        h_b is closed, and so every configuration reachable from it by enabled steps is AWf ---- *)
Lemma h_b_closed : forall proc st inp time rand m dst,
  In (ASend m dst) (snd (h_b proc st inp time rand)) -> In dst [10; 20].
Proof.
  intros proc st inp time rand m dst H. destruct inp; cbn in H; try contradiction.
  destruct H as [H|[]]. inversion H; subst. right; left; reflexivity.
Qed.

Example ex_init_awf : AWf [10; 20] (x_init aempty []).
Proof.
  apply awf_init; cbn [x_init s_nodes s_net s_events]; auto.
  - split; [|split; [|split; [|split]]].
    + repeat constructor.
    + intros nn nd H. cbn in H. destruct (is_eq (nn ?= 1)); [inversion H; repeat constructor|].
      destruct (is_eq (nn ?= 2)); [inversion H; repeat constructor|discriminate].
    + repeat constructor.
    + intros p nn. cbn. split.
      * destruct (is_eq (p ?= 10)) eqn:E1.
        -- intros H; inversion H; subst. eexists. split; [reflexivity|]. cbn. unfold shas. cbn. rewrite E1. reflexivity.
        -- destruct (is_eq (p ?= 20)) eqn:E2; [|discriminate].
           intros H; inversion H; subst. eexists. split; [reflexivity|]. unfold shas. cbn. rewrite E2. reflexivity.
      * intros (nd & H1 & H2).
        destruct (is_eq (nn ?= 1)) eqn:N1.
        -- inversion H1; subst nd. unfold shas in H2. cbn in H2. destruct (is_eq (p ?= 10)); [|discriminate].
           rewrite is_eq_ncmp in N1. apply N.eqb_eq in N1. subst. reflexivity.
        -- destruct (is_eq (nn ?= 2)) eqn:N2; [|discriminate].
           inversion H1; subst nd. unfold shas in H2. cbn in H2.
           destruct (is_eq (p ?= 20)) eqn:E2; [|discriminate].
           rewrite is_eq_ncmp in N2. apply N.eqb_eq in N2. subst.
           rewrite is_eq_ncmp in E2. apply N.eqb_eq in E2. subst. reflexivity.
    + intros p [<-|[<-|[]]]; reflexivity.
  - intros nn nd H. cbn in H. destruct (is_eq (nn ?= 1)); [inversion H; reflexivity|].
    destruct (is_eq (nn ?= 2)); [inversion H; reflexivity|discriminate].
  - intros nn nd p pe H Hp. cbn in H.
    destruct (is_eq (nn ?= 1)); [inversion H; subst nd|destruct (is_eq (nn ?= 2)); [inversion H; subst nd|discriminate]];
      cbn in Hp; match type of Hp with (if ?c then _ else _) = _ => destruct c end; inversion Hp; reflexivity.
Qed.

Example ex_reach_awf s' :
  Steps x_tgt0 x_teq0 0 x_clock h_b unit (fun _ _ => 0) (fun _ => tt) N.leb (fun _ _ _ => true) (x_init aempty []) s' ->
  AWf [10; 20] s'.
Proof.
  apply (steps_awf x_tgt0 x_teq0 0 x_clock h_b unit (fun _ _ => 0) (fun _ => tt) N.leb (fun _ _ _ => true)
                   [10; 20] h_b_closed).
  apply ex_init_awf.
Qed.

Print Assumptions ex_weak_clause5.
Print Assumptions ex_reset.
Print Assumptions ex_ghost.
Print Assumptions ex_reach_awf.
