(* Spec-level theorems about Spec/StoreSpec.v (the abstract store: one list `pend` in insertion order).

   Statements: all seven theorems requested (ainv_astep/ainv_arun, offered_exact, offered_live,
   offered_messages_first, progress, no_resurrection, ids_fresh) are proved as stated; none had to be
   weakened.  Remarks:
     - offered_exact is proved WITHOUT the AInv hypothesis (offered_exact_gen); the version with the
       hypothesis is a corollary.  With AInv the decomposition pre ++ (i,e) :: post is moreover unique
       (offered_iff: pre = before i (pend a)).
     - offered_messages_first is stated with `msg_id a i` := "some pending event with id i is a message"
       (the predicate used by aoffered itself).
     - progress: the iterated-pop relation is `pops_to`; every popped id is offered in the state it is
       popped from, and is different from i (Forall (fun j => j <> i) ids).
   The first half of the file is a lemma library on pend lists (ids, lookup, before, aremove, alive,
   offered_from) that Proofs/StoreRefine.v reuses. *)
From Coq Require Import List NArith Bool Lia.
From ASV Require Import Base.Util Base.Msg Model.Store Spec.StoreSpec Proofs.UtilP.
Import ListNotations.
Open Scope N_scope.

Ltac nb := repeat match goal with
  | H : N.eqb _ _ = true |- _ => apply N.eqb_eq in H
  | H : N.eqb _ _ = false |- _ => apply N.eqb_neq in H
  end.

Ltac nlia := unfold Store.id in *; cbn beta in *; lia.

Lemma is_eq_ncmp a b : is_eq (N.compare a b) = N.eqb a b.
Proof. rewrite N.eqb_compare. destruct (N.compare a b); reflexivity. Qed.

Lemma nodup_snoc_inv {A} (l : list A) x : NoDup (l ++ [x]) -> NoDup l /\ ~ In x l.
Proof.
  intros H. apply NoDup_remove in H. rewrite app_nil_r in H. exact H.
Qed.

Lemma existsb_filter_true {A} (f g : A -> bool) l :
  existsb f (filter g l) = true -> existsb f l = true.
Proof.
  rewrite !existsb_exists. intros [x [H1 H2]]. apply filter_In in H1. exists x. tauto.
Qed.

Section SpecP.
  Context {T : Type} (tleb : T -> T -> bool).
  Notation sevent := (sevent T).
  Notation pendl := (list (id * sevent)).
  Notation astore := (astore T).

  (* ---------------------------------------------------------------------------------------- *)
  (* pend lists                                                                                *)
  (* ---------------------------------------------------------------------------------------- *)
  Definition ids (L : pendl) : list id := map fst L.
  Definition lookup (L : pendl) (j : id) : option sevent :=
    match find (fun p => N.eqb (fst p) j) L with Some p => Some (snd p) | None => None end.
  (* the events inserted before the (first) event with id j *)
  Fixpoint before (j : id) (L : pendl) : pendl :=
    match L with
    | [] => []
    | p :: r => if N.eqb (fst p) j then [] else p :: before j r
    end.
  (* o withholds e *)
  Definition wb (e : sevent) (o : id * sevent) : bool := withheld_by tleb (snd o) e.
  Definition alive' (L : pendl) : list (id * sevent) :=
    fold_left (fun acc p => sins N.compare (fst p) (snd p) acc) L [].
  Definition offset (L : pendl) : list id := nsort (offered_from tleb [] L).

  Lemma aget_lookup (a : astore) i : aget a i = lookup (pend a) i.
  Proof. reflexivity. Qed.
  Lemma alive_alive' (a : astore) : alive a = alive' (pend a).
  Proof. reflexivity. Qed.
  Lemma aoffered_set_offset (a : astore) : aoffered_set tleb a = offset (pend a).
  Proof. reflexivity. Qed.

  Lemma in_ids L j : In j (ids L) <-> exists e, In (j, e) L.
  Proof.
    unfold ids. rewrite in_map_iff. split.
    - intros [[k e] [H1 H2]]. cbn in H1. subst. eauto.
    - intros [e H]. exists (j, e). auto.
  Qed.

  Lemma ids_app L1 L2 : ids (L1 ++ L2) = ids L1 ++ ids L2.
  Proof. apply map_app. Qed.

  Lemma lookup_none_iff L j : lookup L j = None <-> ~ In j (ids L).
  Proof.
    unfold lookup, ids. induction L as [|[k e] r IH]; cbn [find map fst In].
    - tauto.
    - destruct (N.eqb k j) eqn:E; nb.
      + split; [discriminate|]. intros H; exfalso; apply H; auto.
      + rewrite IH. split.
        * intros H [H1|H1]; auto.
        * intros H H1. apply H; auto.
  Qed.

  Lemma lookup_in L j e : lookup L j = Some e -> In (j, e) L.
  Proof.
    unfold lookup. destruct (find (fun p => N.eqb (fst p) j) L) as [[k e']|] eqn:E; [|discriminate].
    apply find_some in E. destruct E as [E1 E2]. cbn in E2. nb. subst.
    cbn. intros H; inversion H; subst; auto.
  Qed.

  Lemma in_lookup L j e : NoDup (ids L) -> In (j, e) L -> lookup L j = Some e.
  Proof.
    unfold lookup, ids. induction L as [|[k e'] r IH]; cbn [find map fst In]; intros Hn Hi; [contradiction|].
    inversion Hn as [|? ? Hk Hr]; subst.
    destruct Hi as [Hi|Hi].
    - inversion Hi; subst. rewrite N.eqb_refl. reflexivity.
    - destruct (N.eqb k j) eqn:E; nb.
      + subst. exfalso. apply Hk. apply in_map_iff. exists (j, e). auto.
      + apply IH; auto.
  Qed.

  Lemma nodup_inj L j e1 e2 : NoDup (ids L) -> In (j, e1) L -> In (j, e2) L -> e1 = e2.
  Proof.
    intros Hn H1 H2. apply in_lookup in H1; auto. apply in_lookup in H2; auto. congruence.
  Qed.

  Lemma lookup_snoc L i e j :
    lookup (L ++ [(i, e)]) j =
    match lookup L j with Some x => Some x | None => if N.eqb i j then Some e else None end.
  Proof.
    unfold lookup. rewrite find_app. destruct (find (fun p => N.eqb (fst p) j) L); auto.
    cbn. destruct (N.eqb i j); auto.
  Qed.

  (* --- aremove --- *)
  Lemma in_aremove i (L : pendl) (p : id * sevent) : In p (aremove i L) <-> In p L /\ fst p <> i.
  Proof. unfold aremove. rewrite filter_In, negb_true_iff, N.eqb_neq. tauto. Qed.

  Lemma ids_aremove i (L : pendl) x : In x (ids (aremove i L)) <-> In x (ids L) /\ x <> i.
  Proof.
    rewrite !in_ids. split.
    - intros [e H]. apply in_aremove in H. cbn in H. destruct H. split; eauto.
    - intros [[e H] Hx]. exists e. apply in_aremove. cbn. auto.
  Qed.

  Lemma nodup_aremove i (L : pendl) : NoDup (ids L) -> NoDup (ids (aremove i L)).
  Proof. apply NoDup_map_filter. Qed.

  Lemma aremove_notin i (L : pendl) : ~ In i (ids L) -> aremove i L = L.
  Proof.
    unfold aremove, ids. induction L as [|[k e] r IH]; cbn [filter map fst In]; intros H; auto.
    destruct (N.eqb k i) eqn:E; nb; cbn [negb].
    - exfalso; apply H; auto.
    - rewrite IH; auto.
  Qed.

  Lemma aremove_app i (L1 L2 : pendl) : aremove i (L1 ++ L2) = aremove i L1 ++ aremove i L2.
  Proof. apply filter_app. Qed.

  Lemma lookup_aremove i (L : pendl) j : lookup (aremove i L) j = if N.eqb j i then None else lookup L j.
  Proof.
    destruct (N.eqb j i) eqn:E; nb.
    - subst. apply lookup_none_iff. rewrite ids_aremove. tauto.
    - unfold lookup, aremove. induction L as [|[k e] r IH]; cbn [filter find fst]; auto.
      destruct (N.eqb k i) eqn:E1; nb; cbn [negb find fst].
      + subst. rewrite IH. destruct (N.eqb i j) eqn:E2; nb; auto. congruence.
      + destruct (N.eqb k j); auto.
  Qed.

  (* --- before --- *)
  Lemma before_incl j L p : In p (before j L) -> In p L.
  Proof.
    induction L as [|[k e] r IH]; cbn [before fst]; auto.
    destruct (N.eqb k j); cbn; [contradiction|]. intros [H|H]; auto.
  Qed.

  Lemma not_in_before j L : ~ In j (ids (before j L)).
  Proof.
    unfold ids. induction L as [|[k e] r IH]; cbn [before fst]; auto.
    destruct (N.eqb k j) eqn:E; nb; cbn; auto.
    intros [H|H]; auto.
  Qed.

  Lemma before_notin j L : ~ In j (ids L) -> before j L = L.
  Proof.
    unfold ids. induction L as [|[k e] r IH]; cbn [before map fst In]; intros H; auto.
    destruct (N.eqb k j) eqn:E; nb.
    - exfalso; apply H; auto.
    - rewrite IH; auto.
  Qed.

  Lemma before_split pre j e post : ~ In j (ids pre) -> before j (pre ++ (j, e) :: post) = pre.
  Proof.
    unfold ids. induction pre as [|[k e'] r IH]; cbn [before map fst In app]; intros H.
    - rewrite N.eqb_refl. reflexivity.
    - destruct (N.eqb k j) eqn:E; nb.
      + exfalso; apply H; auto.
      + rewrite IH; auto.
  Qed.

  Lemma before_app_in j L X : In j (ids L) -> before j (L ++ X) = before j L.
  Proof.
    unfold ids. induction L as [|[k e] r IH]; cbn [before map fst In app]; intros H; [contradiction|].
    destruct (N.eqb k j) eqn:E; nb; auto.
    rewrite IH; auto. destruct H; auto. contradiction.
  Qed.

  Lemma split_at L j e : NoDup (ids L) -> In (j, e) L -> exists post, L = before j L ++ (j, e) :: post.
  Proof.
    unfold ids. induction L as [|[k e'] r IH]; cbn [before map fst In]; intros Hn Hi; [contradiction|].
    inversion Hn as [|? ? Hk Hr]; subst.
    destruct Hi as [Hi|Hi].
    - inversion Hi; subst. rewrite N.eqb_refl. exists r. reflexivity.
    - destruct (N.eqb k j) eqn:E; nb.
      + subst. exfalso. apply Hk. apply in_map_iff. exists (j, e). auto.
      + destruct (IH Hr Hi) as [post Hp]. exists post. cbn. rewrite <- Hp. reflexivity.
  Qed.

  Lemma before_aremove i j (L : pendl) : i <> j -> before j (aremove i L) = aremove i (before j L).
  Proof.
    intros Hne. unfold aremove. induction L as [|[k e] r IH]; cbn [before filter fst]; auto.
    destruct (N.eqb k i) eqn:E1; nb; cbn [negb before fst].
    - subst. destruct (N.eqb i j) eqn:E2; nb; [contradiction|].
      cbn [filter fst]. rewrite N.eqb_refl. cbn [negb]. exact IH.
    - destruct (N.eqb k j) eqn:E2; nb; cbn [filter fst]; auto.
      destruct (N.eqb k i) eqn:E3; nb; [contradiction|]. cbn [negb]. rewrite IH. reflexivity.
  Qed.

  (* --- alive --- *)
  Lemma alive'_snoc L i e : alive' (L ++ [(i, e)]) = sins N.compare i e (alive' L).
  Proof. unfold alive'. rewrite fold_left_app. reflexivity. Qed.

  Lemma alive'_sorted L : ssorted N.compare (alive' L).
  Proof.
    induction L as [|[i e] r IH] using rev_ind.
    - constructor.
    - rewrite alive'_snoc. apply ssorted_sins; auto. apply CmpSpec_N.
  Qed.

  Lemma alive'_sget L j : NoDup (ids L) -> sget N.compare j (alive' L) = lookup L j.
  Proof.
    induction L as [|[i e] r IH] using rev_ind; intros Hn.
    - reflexivity.
    - rewrite ids_app in Hn. cbn in Hn. apply nodup_snoc_inv in Hn. destruct Hn as [Hn Hi].
      rewrite alive'_snoc, (sget_sins _ CmpSpec_N), lookup_snoc, is_eq_ncmp, IH by auto.
      destruct (N.eqb j i) eqn:E; nb.
      + subst. apply lookup_none_iff in Hi. rewrite Hi, N.eqb_refl. reflexivity.
      + destruct (lookup r j); auto. destruct (N.eqb i j) eqn:E2; nb; auto. congruence.
  Qed.

  Lemma alive'_aremove L i : NoDup (ids L) -> alive' (aremove i L) = srem N.compare i (alive' L).
  Proof.
    intros Hn. apply (ssorted_ext _ CmpSpec_N).
    - apply alive'_sorted.
    - apply ssorted_srem, alive'_sorted.
    - intros k. rewrite (sget_srem _ CmpSpec_N), !alive'_sget, lookup_aremove, is_eq_ncmp; auto.
      apply nodup_aremove; auto.
  Qed.

  Lemma alive'_in L j e : NoDup (ids L) -> (In (j, e) (alive' L) <-> In (j, e) L).
  Proof.
    intros Hn. rewrite <- (sget_in _ CmpSpec_N) by apply alive'_sorted.
    rewrite alive'_sget by auto. split.
    - apply lookup_in.
    - apply in_lookup; auto.
  Qed.

  (* --- offered_from --- *)
  Lemma offered_from_iff l : forall older i,
    In i (offered_from tleb older l) <->
    exists e pre post, l = pre ++ (i, e) :: post /\ existsb (wb e) (older ++ pre) = false.
  Proof.
    induction l as [|[k e] r IH]; intros older i; cbn [offered_from].
    - split; [contradiction|]. intros (e & pre & post & H & _). destruct pre; discriminate.
    - rewrite in_app_iff, IH. split.
      + intros [H|H].
        * destruct (existsb _ older) eqn:E; [contradiction|]. destruct H as [<-|[]].
          exists e, [], r. rewrite app_nil_r. split; auto.
        * destruct H as (e' & pre & post & H1 & H2). exists e', ((k, e) :: pre), post.
          split; [subst; auto|]. rewrite <- app_assoc in H2. exact H2.
      + intros (e' & pre & post & H1 & H2). destruct pre as [|p pre]; cbn in H1; inversion H1; subst.
        * left. rewrite app_nil_r in H2. unfold wb in H2. rewrite H2. left; auto.
        * right. exists e', pre, post. split; auto. rewrite <- app_assoc. exact H2.
  Qed.

  Lemma offered_from_snoc l i e : forall older,
    offered_from tleb older (l ++ [(i, e)]) =
    offered_from tleb older l ++ (if existsb (wb e) (older ++ l) then [] else [i]).
  Proof.
    induction l as [|[k e'] r IH]; intros older; cbn [offered_from app].
    - rewrite !app_nil_r. reflexivity.
    - rewrite IH, <- !app_assoc. reflexivity.
  Qed.

  Lemma offset_snoc L i e :
    offset (L ++ [(i, e)]) = if existsb (wb e) L then offset L else nins i (offset L).
  Proof.
    unfold offset. rewrite offered_from_snoc. cbn [app].
    destruct (existsb (wb e) L).
    - rewrite app_nil_r. reflexivity.
    - apply nsort_snoc.
  Qed.

  Lemma offset_iff L j : NoDup (ids L) ->
    (In j (offset L) <-> exists e, In (j, e) L /\ existsb (wb e) (before j L) = false).
  Proof.
    intros Hn. unfold offset. rewrite in_nsort, offered_from_iff. cbn [app]. split.
    - intros (e & pre & post & H1 & H2). exists e. subst L. split.
      + apply in_app_iff. right. left. reflexivity.
      + rewrite before_split; auto.
        rewrite ids_app in Hn. cbn in Hn. apply NoDup_remove_2 in Hn.
        intros H. apply Hn. apply in_app_iff. auto.
    - intros (e & H1 & H2). destruct (split_at _ _ _ Hn H1) as [post Hp].
      exists e, (before j L), post. auto.
  Qed.

  Lemma head_offered j e r : In j (offset ((j, e) :: r)).
  Proof.
    unfold offset. rewrite in_nsort, offered_from_iff. exists e, [], r. auto.
  Qed.

  Lemma offset_nonempty L : L <> [] -> offset L <> [].
  Proof.
    destruct L as [|[j e] r]; [congruence|]. intros _ H.
    pose proof (head_offered j e r) as Hi. rewrite H in Hi. contradiction.
  Qed.

  Lemma offset_nsorted L : nsorted (offset L).
  Proof. apply nsorted_nsort. Qed.

  (* ---------------------------------------------------------------------------------------- *)
  (* the invariant of the abstract store                                                       *)
  (* ---------------------------------------------------------------------------------------- *)
  Definition AInv (a : astore) : Prop :=
    NoDup (map fst (pend a)) /\ Forall (fun p => fst p < anext a) (pend a).

  Lemma pending_iff (a : astore) i : pending_id a i = true <-> In i (ids (pend a)).
  Proof.
    unfold pending_id, ids. rewrite existsb_exists, in_map_iff. split.
    - intros [p [H1 H2]]. nb. eauto.
    - intros [p [H1 H2]]. exists p. split; auto. apply N.eqb_eq; auto.
  Qed.

  Lemma pending_false_iff (a : astore) i : pending_id a i = false <-> ~ In i (ids (pend a)).
  Proof.
    rewrite <- pending_iff. destruct (pending_id a i); split; intro H; auto; try discriminate.
    exfalso; apply H; auto.
  Qed.

  Lemma ainv_fresh (a : astore) : AInv a -> ~ In (anext a) (ids (pend a)).
  Proof.
    intros [_ Hf] Hin. apply in_map_iff in Hin. destruct Hin as [p [H1 H2]].
    rewrite Forall_forall in Hf. apply Hf in H2. nlia.
  Qed.

  Lemma ainv_snoc (a : astore) i e m nx :
    AInv a -> ~ In i (ids (pend a)) -> i < nx -> anext a <= nx ->
    AInv {| pend := pend a ++ [(i, e)]; amap := m; anext := nx |}.
  Proof.
    intros [Hn Hf] Hi Hlt Hle. split; cbn [pend anext].
    - rewrite map_app. cbn. apply NoDup_snoc; auto.
    - apply Forall_app. split.
      + rewrite Forall_forall in *. intros p Hp. apply Hf in Hp. nlia.
      + constructor; auto.
  Qed.

  Lemma ainv_filter (a : astore) f m :
    AInv a -> AInv {| pend := filter f (pend a); amap := m; anext := anext a |}.
  Proof.
    intros [Hn Hf]. split; cbn [pend anext].
    - apply NoDup_map_filter; auto.
    - rewrite Forall_forall in *. intros p Hp. apply filter_In in Hp. apply Hf, Hp.
  Qed.

  Theorem ainv_astep (a : astore) o : AInv a -> legal a o = true -> AInv (fst (astep a o)).
  Proof.
    intros Hinv Hl. destruct o as [e|e i|i|p n|p]; cbn [astep fst].
    - apply ainv_snoc; auto; try lia. apply ainv_fresh; auto.
    - cbn [legal] in Hl. rewrite !andb_true_iff, negb_true_iff, N.ltb_lt in Hl.
      destruct Hl as [[_ Hp] Hlt]. apply ainv_snoc; auto; try lia.
      apply pending_false_iff; auto.
    - apply ainv_filter; auto.
    - destruct (sget tkey_cmp (p, n) (amap a)); cbn [fst]; auto.
      apply ainv_filter; auto.
    - apply ainv_filter; auto.
  Qed.

  Lemma ainv_empty : AInv aempty.
  Proof. split; cbn; constructor. Qed.

  Lemma ainv_arun_gen ops : forall (a a' : astore) outs,
    AInv a -> arun tleb a ops = Some (a', outs) -> AInv a'.
  Proof.
    induction ops as [|o r IH]; intros a a' outs Hinv Hr; cbn [arun] in Hr.
    - inversion Hr; subst; auto.
    - destruct (legal a o) eqn:Hl; [|discriminate].
      pose proof (ainv_astep a o Hinv Hl) as H1.
      destruct (astep a o) as [a1 out]. cbn [fst] in H1.
      destruct (arun tleb a1 r) as [[a2 outs2]|] eqn:Hr2; [|discriminate].
      inversion Hr; subst. eapply IH; eauto.
  Qed.

  Theorem ainv_arun ops (a : astore) outs : arun tleb aempty ops = Some (a, outs) -> AInv a.
  Proof. apply ainv_arun_gen, ainv_empty. Qed.

  (* ---------------------------------------------------------------------------------------- *)
  (* offered set                                                                               *)
  (* ---------------------------------------------------------------------------------------- *)
  Theorem offered_exact_gen (a : astore) i :
    In i (aoffered_set tleb a) <->
    exists e pre post, pend a = pre ++ (i, e) :: post /\
                       forallb (fun o => negb (withheld_by tleb (snd o) e)) pre = true.
  Proof.
    unfold aoffered_set. rewrite in_nsort, offered_from_iff. cbn [app].
    split; intros (e & pre & post & H1 & H2); exists e, pre, post; split; auto.
    - rewrite forallb_negb_existsb. unfold wb in H2. rewrite H2. reflexivity.
    - rewrite forallb_negb_existsb in H2. apply negb_true_iff in H2. exact H2.
  Qed.

  Theorem offered_exact (a : astore) i : AInv a ->
    (In i (aoffered_set tleb a) <->
     exists e pre post, pend a = pre ++ (i, e) :: post /\
                        forallb (fun o => negb (withheld_by tleb (snd o) e)) pre = true).
  Proof. intros _. apply offered_exact_gen. Qed.

  (* with the invariant the decomposition is unique: pre = before i (pend a) *)
  Theorem offered_iff (a : astore) i : AInv a ->
    (In i (aoffered_set tleb a) <->
     exists e, In (i, e) (pend a) /\
               existsb (fun o => withheld_by tleb (snd o) e) (before i (pend a)) = false).
  Proof. intros [Hn _]. apply offset_iff. exact Hn. Qed.

  Theorem offered_live (a : astore) mf : pend a <> [] -> aoffered tleb a mf <> [].
  Proof.
    intros Hne. pose proof (offset_nonempty _ Hne) as Hs.
    change (aoffered_set tleb a <> []) in Hs.
    unfold aoffered. destruct mf; auto.
    match goal with |- context [filter ?f ?l] => destruct (filter f l) end; auto. discriminate.
  Qed.

  Definition msg_id (a : astore) (i : id) : bool :=
    existsb (fun p => N.eqb (fst p) i && is_msg (snd p)) (pend a).

  (* list form of the same fact *)
  Theorem offered_messages_first_list (a : astore) :
    aoffered tleb a true =
    match filter (msg_id a) (aoffered_set tleb a) with [] => aoffered_set tleb a | l => l end.
  Proof. reflexivity. Qed.

  Theorem offered_messages_first (a : astore) :
    ((exists i, In i (aoffered_set tleb a) /\ msg_id a i = true) ->
     forall j, In j (aoffered tleb a true) <-> In j (aoffered_set tleb a) /\ msg_id a j = true)
    /\
    (~ (exists i, In i (aoffered_set tleb a) /\ msg_id a i = true) ->
     aoffered tleb a true = aoffered_set tleb a).
  Proof.
    rewrite offered_messages_first_list.
    destruct (filter (msg_id a) (aoffered_set tleb a)) as [|x l] eqn:E.
    - split.
      + intros [i Hi]. apply filter_In in Hi. rewrite E in Hi. contradiction.
      + reflexivity.
    - split.
      + intros _ j. rewrite <- E. apply filter_In.
      + intros H. exfalso. apply H. exists x. apply filter_In. rewrite E. left; auto.
  Qed.

  (* ---------------------------------------------------------------------------------------- *)
  (* progress                                                                                  *)
  (* ---------------------------------------------------------------------------------------- *)
  (* a' is reached from a by popping the listed ids, each offered in the state it is popped from *)
  Inductive pops_to : astore -> list id -> astore -> Prop :=
  | pt_nil : forall a, pops_to a [] a
  | pt_cons : forall a j l a',
      In j (aoffered_set tleb a) -> pops_to (fst (astep a (OPop j))) l a' -> pops_to a (j :: l) a'.

  Theorem progress (a : astore) i e : AInv a -> In (i, e) (pend a) ->
    exists idl a', pops_to a idl a' /\ Forall (fun j => j <> i) idl /\ In i (aoffered_set tleb a').
  Proof.
    remember (pend a) as L eqn:HL. revert a HL.
    induction L as [|[k ek] r IH]; intros a HL Hinv Hin; [contradiction|].
    destruct (N.eq_dec k i) as [Hk|Hk].
    - subst k. exists [], a. split; [constructor|]. split; [constructor|].
      rewrite aoffered_set_offset, <- HL. apply head_offered.
    - destruct Hin as [Hin|Hin]; [inversion Hin; congruence|].
      assert (Hkr : ~ In k (ids r)).
      { destruct Hinv as [Hn _]. rewrite <- HL in Hn. cbn in Hn. inversion Hn; auto. }
      assert (Hl : legal a (OPop k) = true).
      { cbn [legal]. apply pending_iff. rewrite <- HL. left. reflexivity. }
      pose proof (ainv_astep a (OPop k) Hinv Hl) as Hinv1.
      assert (Hp : r = pend (fst (astep a (OPop k)))).
      { cbn [astep fst pend]. rewrite <- HL. unfold aremove. cbn [filter fst].
        rewrite N.eqb_refl. cbn [negb]. symmetry. apply aremove_notin. auto. }
      destruct (IH _ Hp Hinv1 Hin) as (idl & a' & H1 & H2 & H3).
      exists (k :: idl), a'. split; [|split; auto].
      constructor; auto. rewrite aoffered_set_offset, <- HL. apply head_offered.
  Qed.

  (* ---------------------------------------------------------------------------------------- *)
  (* ids                                                                                       *)
  (* ---------------------------------------------------------------------------------------- *)
  Theorem no_resurrection (a a' : astore) o out i :
    legal a o = true -> astep a o = (a', out) -> pending_id a' i = true ->
    pending_id a i = true \/ (exists e, o = OPush e /\ i = anext a) \/ (exists e, o = OPushFixed e i).
  Proof.
    intros _ Hs Hp. unfold pending_id in *.
    destruct o as [e|e i0|i0|p n|p]; cbn [astep] in Hs.
    - inversion Hs; subst; clear Hs. cbn [pend] in Hp. rewrite existsb_app in Hp.
      apply orb_true_iff in Hp. destruct Hp as [Hp|Hp]; auto.
      right; left. exists e. split; auto. cbn in Hp. rewrite orb_false_r in Hp. nb. auto.
    - inversion Hs; subst; clear Hs. cbn [pend] in Hp. rewrite existsb_app in Hp.
      apply orb_true_iff in Hp. destruct Hp as [Hp|Hp]; auto.
      right; right. exists e. cbn in Hp. rewrite orb_false_r in Hp. nb. subst. auto.
    - inversion Hs; subst; clear Hs. cbn [pend] in Hp. left. eapply existsb_filter_true; eauto.
    - destruct (sget tkey_cmp (p, n) (amap a)); inversion Hs; subst; clear Hs; auto.
      cbn [pend] in Hp. left. eapply existsb_filter_true; eauto.
    - inversion Hs; subst; clear Hs. cbn [pend] in Hp. left. eapply existsb_filter_true; eauto.
  Qed.

  Theorem ids_fresh (a a' : astore) e i :
    AInv a -> astep a (OPush e) = (a', RId i) -> pending_id a i = false.
  Proof.
    intros Hinv Hs. cbn [astep] in Hs. inversion Hs; subst.
    apply pending_false_iff. apply ainv_fresh; auto.
  Qed.
End SpecP.

Print Assumptions ainv_astep.
Print Assumptions ainv_arun.
Print Assumptions offered_exact.
Print Assumptions offered_iff.
Print Assumptions offered_live.
Print Assumptions offered_messages_first.
Print Assumptions progress.
Print Assumptions no_resurrection.
Print Assumptions ids_fresh.
