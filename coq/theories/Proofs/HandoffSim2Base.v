(* C04, stage 2, part 1: the event relation with fault budgets.  A pending message of the reference semantics with
   duplication budget k stands for up to 1 + k copies; the simulator's deliverable live events are matched against
   this "potential" (messages the simulator lost may stay pending in the checker: they never withhold anything but
   identical messages, and the checker always delivers the oldest identical copy). *)
From Coq Require Import List NArith Bool Lia Permutation Sorted.
From ASV Require Import Base.Util Base.Msg Base.Log Model.Store Spec.StoreSpec Model.McSys Spec.RefSys
     Model.Sim Spec.TimeLaws Spec.SimSpec
     Proofs.UtilP Proofs.StoreSpecP Proofs.RefWf Proofs.SimTimeP Proofs.SimBaseP Proofs.HandoffSimBase.
Import ListNotations.

Lemma map_const_repeat {A B} (f : A -> B) c l : (forall x, In x l -> f x = c) -> map f l = repeat c (length l).
Proof.
  induction l as [|a r IH]; intros H; cbn [map length repeat]; [reflexivity|].
  rewrite (H a (or_introl eq_refl)), IH; [reflexivity|]. intros x Hx. apply H. right. exact Hx.
Qed.

Lemma Permutation_filter {A} (f : A -> bool) l l' : Permutation l l' -> Permutation (filter f l) (filter f l').
Proof.
  induction 1 as [|x l l' _ IH|x y l|l l' l'' _ IH1 _ IH2]; cbn [filter].
  - constructor.
  - destruct (f x); [constructor|]; exact IH.
  - destruct (f x), (f y); try reflexivity. constructor.
  - etransitivity; eauto.
Qed.

Lemma perm_4 {A} (a k e r x : list A) : Permutation (a ++ e) x -> Permutation ((a ++ k) ++ e ++ r) (x ++ k ++ r).
Proof.
  intros P. transitivity ((a ++ e) ++ k ++ r).
  - rewrite <- !app_assoc. apply Permutation_app_head. apply Permutation_app_swap_app.
  - apply Permutation_app_tail. exact P.
Qed.

Lemma filter_filter_comm {A} (f g : A -> bool) l : filter f (filter g l) = filter g (filter f l).
Proof.
  induction l as [|a r IH]; cbn [filter]; [reflexivity|].
  destruct (g a) eqn:Ga, (f a) eqn:Fa; cbn [filter]; rewrite ?Ga, ?Fa, IH; reflexivity.
Qed.

(* a flat_map of lists of length <= 1: the position of an element *)
Lemma flat_map_split1 {A B} (g : A -> list B) l : forall X x Y,
  (forall e, In e l -> g e = [] \/ exists y, g e = [y]) ->
  flat_map g l = X ++ x :: Y ->
  exists l1 e l2, l = l1 ++ e :: l2 /\ g e = [x] /\ flat_map g l1 = X /\ flat_map g l2 = Y.
Proof.
  induction l as [|a r IH]; intros X x Y Hs H; cbn [flat_map] in H.
  - destruct X; discriminate.
  - assert (Hr : forall e, In e r -> g e = [] \/ exists y, g e = [y]) by (intros e He; apply Hs; right; exact He).
    destruct (Hs a (or_introl eq_refl)) as [Ea|[y Ea]]; rewrite Ea in H; cbn [app] in H.
    + destruct (IH X x Y Hr H) as (l1 & e & l2 & -> & G1 & G2 & G3).
      exists (a :: l1), e, l2. cbn [flat_map app]. rewrite Ea. cbn [app]. auto.
    + destruct X as [|x0 X']; cbn [app] in H.
      * inversion H; subst. exists [], a, r. cbn [flat_map app]. auto.
      * inversion H; subst. destruct (IH X' x Y Hr H2) as (l1 & e & l2 & -> & G1 & G2 & G3).
        exists (a :: l1), e, l2. cbn [flat_map app]. rewrite Ea, G2. cbn [app]. auto.
Qed.

Lemma flat_map_split2 {A B} (g : A -> list B) l X x1 Y x2 Z :
  (forall e, In e l -> g e = [] \/ exists y, g e = [y]) ->
  flat_map g l = X ++ x1 :: Y ++ x2 :: Z ->
  exists l0 e1 l2 e2 l3, l = l0 ++ e1 :: l2 ++ e2 :: l3 /\ g e1 = [x1] /\ g e2 = [x2].
Proof.
  intros Hs H. destruct (flat_map_split1 g l X x1 (Y ++ x2 :: Z) Hs H) as (l0 & e1 & r & -> & G1 & _ & G3).
  assert (Hr : forall e, In e r -> g e = [] \/ exists y, g e = [y]).
  { intros e He. apply Hs. apply in_app_iff. right. right. exact He. }
  destruct (flat_map_split1 g r Y x2 Z Hr G3) as (l2 & e2 & l3 & -> & G4 & _ & _).
  exists l0, e1, l2, e2, l3. auto.
Qed.

Section EvRel2.
  Context {T : Type} (ops : time_ops T).
  Hypothesis laws : time_laws ops.
  Notation qevent := (@qevent T).
  Notation sevent := (sevent T).
  Notation pendl := (list (id * sevent)).
  Notation tle a b := (tleb ops a b = true).
  Notation c_of_q := (@c_of_q T).
  Notation c_of_s := (@c_of_s T).
  Notation c_of_p := (@c_of_p T).

  (* the number of copies a pending event stands for *)
  Definition pot (x : sevent) : nat :=
    match x with EMsg _ _ _ (Possible _ k _) => S (N.to_nat k) | _ => 1%nat end.
  Definition expand (L : pendl) : list content := flat_map (fun ie => repeat (c_of_p ie) (pot (snd ie))) L.
  Definition is_cmsg (c : content) : Prop := match c with CMsg _ _ _ => True | CTimer _ _ => False end.
  Definition budget (L : pendl) : nat := list_sum (map (fun ie => pot (snd ie) - 1)%nat L).

  Lemma expand_app L1 L2 : expand (L1 ++ L2) = expand L1 ++ expand L2.
  Proof. apply flat_map_app. Qed.
  Lemma expand_one i x : expand [(i, x)] = repeat (c_of_s x) (pot x).
  Proof. unfold expand. cbn [flat_map snd]. apply app_nil_r. Qed.
  Lemma expand_cons i x L : expand ((i, x) :: L) = repeat (c_of_s x) (pot x) ++ expand L.
  Proof. reflexivity. Qed.
  Lemma pot_pos x : (1 <= pot x)%nat.
  Proof. destruct x as [? ? ? [?|? ? ?]|]; cbn; lia. Qed.
  Lemma in_expand c L : In c (expand L) <-> exists ie, In ie L /\ c_of_p ie = c.
  Proof.
    unfold expand. rewrite in_flat_map. split; intros (ie & Hi & H); exists ie; (split; [exact Hi|]).
    - apply repeat_spec in H. symmetry. exact H.
    - rewrite <- H. pose proof (pot_pos (snd ie)). destruct (pot (snd ie)); [lia|]. left. reflexivity.
  Qed.
  Lemma expand_pot1 L : (forall ie, In ie L -> pot (snd ie) = 1%nat) -> expand L = map c_of_p L.
  Proof.
    induction L as [|[i x] r IH]; intros H; [reflexivity|]. rewrite expand_cons. cbn [map].
    pose proof (H (i, x) (or_introl eq_refl)) as H1. cbn [snd] in H1. rewrite H1. cbn [repeat app]. f_equal. apply IH. intros ie Hi. apply H. right. exact Hi.
  Qed.
  Lemma budget_app L1 L2 : budget (L1 ++ L2) = (budget L1 + budget L2)%nat.
  Proof. unfold budget. rewrite map_app, list_sum_app. reflexivity. Qed.

  Record EvR2 (lv : list qevent) (clk : T) (L : pendl) : Prop := {
    e2_perm : exists extra, Forall is_cmsg extra /\ Permutation (map c_of_q lv ++ extra) (expand L);
    e2_bound : forall i p n d e, In (i, ETimer p n d) L -> In e lv -> q_data e = QTimer p n ->
                 tle (q_time e) (tadd ops clk (tmax0 ops d));
    e2_order : forall i1 i2 p n1 n2 d1 d2 e1 e2,
                 In (i2, ETimer p n2 d2) L -> In (i1, ETimer p n1 d1) (before i2 L) -> tle d1 d2 ->
                 In e1 lv -> In e2 lv -> q_data e1 = QTimer p n1 -> q_data e2 = QTimer p n2 ->
                 key_lt ops e1 e2 }.

  Definition PermX (lv : list qevent) (L : pendl) : Prop :=
    exists extra, Forall is_cmsg extra /\ Permutation (map c_of_q lv ++ extra) (expand L).

  Lemma permx_timer_back lv L i p n d :
    PermX lv L -> In (i, ETimer p n d) L -> exists e, In e lv /\ q_data e = QTimer p n.
  Proof.
    intros (extra & Hx & HP) Hi.
    assert (H : In (CTimer p n) (expand L)) by (apply in_expand; exists (i, ETimer p n d); auto).
    apply (Permutation_in _ (Permutation_sym HP)) in H. apply in_app_iff in H. destruct H as [H|H].
    - apply in_map_iff in H. destruct H as (e & He & Hin). exists e. split; [exact Hin|]. apply c_of_q_timer. exact He.
    - rewrite Forall_forall in Hx. destruct (Hx _ H).
  Qed.
  Lemma permx_fwd lv L e : PermX lv L -> In e lv -> exists i x, In (i, x) L /\ c_of_s x = c_of_q e.
  Proof.
    intros (extra & Hx & HP) He.
    assert (H : In (c_of_q e) (map c_of_q lv ++ extra)) by (apply in_app_iff; left; apply in_map; exact He).
    apply (Permutation_in _ HP) in H. apply in_expand in H. destruct H as ([i x] & Hin & Hc). exists i, x. auto.
  Qed.

  Lemma EvR2_clock lv clk clk' L : tle clk clk' -> EvR2 lv clk L -> EvR2 lv clk' L.
  Proof.
    intros Hc [P B O]. constructor; auto.
    intros i p n d e Hi He Hd. eapply (le_trans ops laws); [eapply B; eauto|].
    apply (add_mono_l ops laws). exact Hc.
  Qed.

  (* ---- a send: the simulator emits some copies (possibly none), the checker one event with enough budget ---- *)
  Lemma EvR2_push_msgs lv clk L news i m src dst o :
    EvR2 lv clk L -> (forall e, In e news -> c_of_q e = CMsg m src dst) -> ~ In i (ids L) ->
    (length news <= pot (EMsg m src dst o))%nat ->
    EvR2 (lv ++ news) clk (L ++ [(i, EMsg m src dst o)]).
  Proof.
    intros [(extra & Hx & P) B O] Hc Hi Hlen.
    assert (Hnt : forall e p n, In e news -> q_data e <> QTimer p n).
    { intros e p n He Hd. apply c_of_q_timer in Hd. rewrite (Hc e He) in Hd. discriminate. }
    constructor.
    - set (c := CMsg m src dst). set (k := length news). set (pt := pot (EMsg m src dst o)) in *.
      exists (extra ++ repeat c (pt - k)). split.
      + apply Forall_app. split; [exact Hx|]. apply Forall_forall. intros y Hy. apply repeat_spec in Hy. subst y. exact I.
      + rewrite map_app, (map_const_repeat c_of_q c news Hc), expand_app, expand_one. fold k. cbn [c_of_s]. fold c pt.
        replace pt with (k + (pt - k))%nat at 2 by lia. rewrite repeat_app.
        apply perm_4. exact P.
    - intros j p n d e' Hj He' Hd. apply in_app_iff in Hj. destruct Hj as [Hj|[Hj|[]]]; [|discriminate].
      apply in_app_iff in He'. destruct He' as [He'|He']; [eauto|]. exfalso. eapply Hnt; eauto.
    - intros i1 i2 p n1 n2 d1 d2 e1 e2 H2 H1 Hd H1' H2' D1 D2.
      apply in_app_iff in H2. destruct H2 as [H2|[H2|[]]]; [|discriminate].
      rewrite before_app_in in H1 by (apply in_ids; eauto).
      apply in_app_iff in H1'. destruct H1' as [H1'|H1']; [|exfalso; eapply Hnt; eauto].
      apply in_app_iff in H2'. destruct H2' as [H2'|H2']; [|exfalso; eapply Hnt; eauto].
      eapply O; eauto.
  Qed.

  (* the simulator lost every copy and the checker dropped the message at once: nothing changes *)

  (* ---- a new timer on both sides ---- *)
  Lemma EvR2_push_timer lv clk L e i p n d :
    EvR2 lv clk L -> q_data e = QTimer p n -> q_time e = tadd ops clk (tmax0 ops d) ->
    (forall x, In x lv -> q_id x < q_id e) ->
    (forall x, In x lv -> q_data x <> QTimer p n) ->
    ~ In i (ids L) ->
    EvR2 (lv ++ [e]) clk (L ++ [(i, ETimer p n d)]).
  Proof.
    intros [P B O] Hd Ht Hid Hfresh Hi.
    assert (HfreshL : forall j d', ~ In (j, ETimer p n d') L).
    { intros j d' Hj. destruct (permx_timer_back _ _ _ _ _ _ P Hj) as (x & Hx & Hdx). eapply Hfresh; eauto. }
    destruct P as (extra & Hx & P).
    constructor.
    - exists extra. split; [exact Hx|]. rewrite map_app, expand_app, expand_one. cbn [map c_of_s pot repeat].
      apply c_of_q_timer in Hd. rewrite Hd. rewrite <- app_assoc.
      etransitivity; [apply Permutation_app_head; apply Permutation_app_comm|]. rewrite app_assoc.
      apply Permutation_app_tail. exact P.
    - intros j p' n' d' e' Hj He' Hd'.
      apply in_app_iff in Hj. apply in_app_iff in He'.
      destruct Hj as [Hj|[Hj|[]]]; destruct He' as [He'|[<-|[]]].
      + eauto.
      + rewrite Hd in Hd'. inversion Hd'; subst p' n'. exfalso. eapply HfreshL; eauto.
      + inversion Hj; subst p' n' d'. exfalso. eapply Hfresh; eauto.
      + inversion Hj; subst. rewrite Ht. apply (le_refl ops laws).
    - intros i1 i2 p' n1 n2 d1 d2 e1 e2 H2 H1 Hle H1' H2' D1 D2.
      apply in_app_iff in H2. destruct H2 as [H2|[H2|[]]].
      + rewrite before_app_in in H1 by (apply in_ids; eauto).
        apply in_app_iff in H1'. destruct H1' as [H1'|[<-|[]]].
        2:{ rewrite Hd in D1. inversion D1; subst p' n1. exfalso. eapply HfreshL. eapply before_incl; eauto. }
        apply in_app_iff in H2'. destruct H2' as [H2'|[<-|[]]].
        2:{ rewrite Hd in D2. inversion D2; subst p' n2. exfalso. eapply HfreshL; eauto. }
        eapply O; eauto.
      + inversion H2; subst i2 p' n2 d2. clear H2.
        rewrite (before_split L i (ETimer p n d) [] Hi) in H1.
        apply in_app_iff in H2'. destruct H2' as [H2'|[<-|[]]]; [exfalso; eapply Hfresh; eauto|].
        apply in_app_iff in H1'. destruct H1' as [H1'|[<-|[]]].
        2:{ rewrite Hd in D1. inversion D1; subst n1. exfalso. eapply HfreshL; eauto. }
        apply (key_lt_of_le_id ops laws); [|apply Hid; exact H1'].
        rewrite Ht. eapply (le_trans ops laws); [eapply B; eauto|].
        apply (add_mono_r ops laws). apply (tmax0_mono ops laws). exact Hle.
  Qed.

  (* ---- one matched pair removed on both sides; the checker's event stands for exactly one copy ---- *)
  Lemma EvR2_remove lv clk clk' L e i x :
    EvR2 lv clk L -> NoDup (map (@q_id T) lv) -> NoDup (ids L) ->
    In e lv -> In (i, x) L -> c_of_s x = c_of_q e -> pot x = 1%nat -> tle clk clk' ->
    EvR2 (filter (fun y => negb (N.eqb (q_id y) (q_id e))) lv) clk' (aremove i L).
  Proof.
    intros R Hn1 Hn2 He Hx Hc Hp Hclk. apply (EvR2_clock _ _ _ _ Hclk) in R. destruct R as [(extra & Hex & P) B O].
    destruct (filter_id_split (@q_id T) lv e Hn1 He) as (l1 & l2 & E1 & E2).
    destruct (filter_id_split (@fst id sevent) L (i, x) Hn2 Hx) as (m1 & m2 & F1 & F2).
    cbn [fst] in F2. assert (F3 : aremove i L = m1 ++ m2) by exact F2.
    constructor.
    - exists extra. split; [exact Hex|]. rewrite E2, F3. rewrite E1, F1 in P.
      rewrite map_app, expand_app. rewrite map_app, expand_app, expand_cons in P. cbn [map] in P.
      rewrite Hp, Hc in P. cbn [repeat app] in P. rewrite <- app_assoc in P |- *. cbn [app] in P.
      eapply Permutation_app_inv. exact P.
    - intros j p n d e' Hj He' Hd. apply in_aremove in Hj. apply filter_In in He'.
      destruct Hj as [Hj _]. destruct He' as [He' _]. eapply B; eauto.
    - intros i1 i2 p n1 n2 d1 d2 e1 e2 H2 H1 Hle H1' H2' D1 D2.
      apply in_aremove in H2. destruct H2 as [H2 Hne]. cbn [fst] in Hne.
      rewrite before_aremove in H1 by (intros E; apply Hne; symmetry; exact E).
      apply in_aremove in H1. apply filter_In in H1', H2'. destruct H1 as [H1 _]. destruct H1' as [H1' _].
      destruct H2' as [H2' _]. eapply O; eauto.
  Qed.

  (* ---- an event of the simulator that the relation does not look at (not deliverable) leaves ---- *)

  (* ---- the checker splits a pending message: budget k -> one copy with k - 1 and one with 0 ---- *)
  Lemma EvR2_split lv clk L i j m src dst dd k cc :
    EvR2 lv clk L -> NoDup (ids L) -> In (i, EMsg m src dst (Possible dd k cc)) L -> k <> 0 ->
    EvR2 lv clk ((aremove i L ++ [(i, EMsg m src dst (Possible dd (N.pred k) cc))]) ++ [(j, EMsg m src dst (Possible dd 0 cc))]).
  Proof.
    intros [(extra & Hex & P) B O] Hn Hi Hk.
    destruct (filter_id_split (@fst id sevent) L _ Hn Hi) as (m1 & m2 & F1 & F2).
    cbn [fst] in F2. assert (F3 : aremove i L = m1 ++ m2) by exact F2.
    assert (Htm : forall i0 p n d, In (i0, ETimer p n d) ((aremove i L ++ [(i, EMsg m src dst (Possible dd (N.pred k) cc))])
                                                           ++ [(j, EMsg m src dst (Possible dd 0 cc))]) ->
                                    In (i0, ETimer p n d) L /\ i0 <> i).
    { intros i0 p n d H. apply in_app_iff in H. destruct H as [H|[H|[]]]; [|discriminate].
      apply in_app_iff in H. destruct H as [H|[H|[]]]; [|discriminate]. apply in_aremove in H. exact H. }
    constructor.
    - exists extra. split; [exact Hex|]. etransitivity; [exact P|].
      rewrite !expand_app, !expand_one, F3, F1, !expand_app, expand_cons. cbn [c_of_s pot].
      set (c := CMsg m src dst). rewrite N2Nat.inj_pred. cbn [N.to_nat].
      destruct (N.to_nat k) as [|n'] eqn:Ek; [lia|]. cbn [Nat.pred repeat].
      rewrite <- !app_assoc. apply Permutation_app_head. cbn [app].
      transitivity ((c :: repeat c n' ++ [c]) ++ expand m2); [|apply Permutation_app_comm].
      cbn [app]. apply perm_skip. rewrite <- app_assoc. change (c :: repeat c n' ++ expand m2) with ((c :: repeat c n') ++ expand m2).
      rewrite (app_assoc (repeat c n')). apply Permutation_app_tail. apply Permutation_cons_append.
    - intros i0 p n d e Hi0 He Hd. apply Htm in Hi0. eapply B; eauto. apply Hi0.
    - intros i1 i2 p n1 n2 d1 d2 e1 e2 H2 H1 Hle H1' H2' D1 D2.
      apply Htm in H2. destruct H2 as [H2 Hne].
      assert (Hin2 : In i2 (ids (aremove i L))) by (apply ids_aremove; split; [apply in_ids; eauto|exact Hne]).
      rewrite before_app_in in H1 by (rewrite ids_app; apply in_app_iff; left; exact Hin2).
      rewrite before_app_in in H1 by exact Hin2.
      rewrite before_aremove in H1 by (intros E; apply Hne; symmetry; exact E).
      apply in_aremove in H1. eapply O; eauto. apply H1.
  Qed.

  Lemma budget_split L i j m src dst dd k cc :
    NoDup (ids L) -> In (i, EMsg m src dst (Possible dd k cc)) L -> k <> 0 ->
    S (budget ((aremove i L ++ [(i, EMsg m src dst (Possible dd (N.pred k) cc))]) ++ [(j, EMsg m src dst (Possible dd 0 cc))]))
    = budget L.
  Proof.
    intros Hn Hi Hk.
    destruct (filter_id_split (@fst id sevent) L _ Hn Hi) as (m1 & m2 & F1 & F2).
    cbn [fst] in F2. assert (F3 : aremove i L = m1 ++ m2) by exact F2.
    rewrite !budget_app, F3, F1, !budget_app.
    change (budget ((i, EMsg m src dst (Possible dd k cc)) :: m2)) with ((S (N.to_nat k) - 1) + budget m2)%nat.
    change (budget [(i, EMsg m src dst (Possible dd (N.pred k) cc))]) with ((S (N.to_nat (N.pred k)) - 1) + 0)%nat.
    change (budget [(j, EMsg m src dst (Possible dd 0 cc))]) with ((S (N.to_nat 0) - 1) + 0)%nat.
    rewrite N2Nat.inj_pred. change (N.to_nat 0) with 0%nat. lia.
  Qed.

  (* ---- who is offered ---- *)
  Variable tlebS : T -> T -> bool.
  Hypothesis tlebS_eq : tlebS = tleb ops.

  Lemma min_timer_offered2 lv clk L e p n :
    EvR2 lv clk L -> NoDup (ids L) -> In e lv -> q_data e = QTimer p n ->
    (forall x, In x lv -> x <> e -> key_lt ops e x) ->
    exists i d, In (i, ETimer p n d) L /\ In i (offset tlebS L).
  Proof.
    intros [P B O] Hn He Hd Hmin.
    destruct (permx_fwd _ _ _ P He) as (i & x & Hi & Hc).
    apply c_of_q_timer in Hd. rewrite Hd in Hc. apply c_of_s_timer in Hc. destruct Hc as [d ->].
    apply c_of_q_timer in Hd.
    exists i, d. split; [exact Hi|]. apply offset_iff; [exact Hn|]. exists (ETimer p n d). split; [exact Hi|].
    apply existsb_false_iff. intros [i1 x1] H1. unfold wb, withheld_by. cbn [snd].
    destruct x1 as [m1 s1 dd1 o1|p1 n1 d1]; [reflexivity|]. cbn [same_group blocks orb].
    destruct (N.eqb p1 p) eqn:Ep; [|reflexivity]. apply N.eqb_eq in Ep. subst p1. cbn [andb].
    destruct (tlebS d1 d) eqn:El; [|reflexivity]. exfalso. rewrite tlebS_eq in El.
    destruct (permx_timer_back _ _ _ _ _ _ P (before_incl _ _ _ H1)) as (e1 & He1 & Hd1).
    pose proof (O _ _ _ _ _ _ _ _ _ Hi H1 El He1 He Hd1 Hd) as K.
    destruct (Hmin e1 He1) as [K'|K'].
    - intros ->. eapply key_lt_irrefl; eauto.
    - eapply key_lt_asym; eauto. left. exact K'.
    - eapply key_lt_asym; eauto. right. exact K'.
  Qed.

  Lemma min_msg_offered2 lv clk L e m src dst :
    EvR2 lv clk L -> NoDup (ids L) -> In e lv -> c_of_q e = CMsg m src dst ->
    exists i o, In (i, EMsg m src dst o) L /\ In i (offset tlebS L).
  Proof.
    intros [P _ _] Hn He Hc.
    destruct (permx_fwd _ _ _ P He) as (i0 & x0 & Hi0 & Hc0). rewrite Hc in Hc0.
    set (g := fun ie : id * sevent => match snd ie with
                                      | EMsg m' s' d' _ => msg_eqb m' m && N.eqb s' src && N.eqb d' dst
                                      | ETimer _ _ _ => false
                                      end).
    assert (Hex : existsb g L = true).
    { apply existsb_exists. exists (i0, x0). split; [exact Hi0|]. unfold g. cbn [snd].
      destruct x0; cbn in Hc0; [|discriminate]. inversion Hc0; subst.
      rewrite (proj2 (msg_eqb_true m m) eq_refl), !N.eqb_refl. reflexivity. }
    destruct (first_match g L Hex) as (l1 & [i x] & l2 & EL & Gx & Hl1).
    unfold g in Gx. cbn [snd] in Gx. destruct x as [m' s' d' o|]; [|discriminate].
    apply andb_true_iff in Gx. destruct Gx as [Gx G3]. apply andb_true_iff in Gx. destruct Gx as [G1 G2].
    apply msg_eqb_true in G1. apply N.eqb_eq in G2, G3. subst m' s' d'.
    assert (Hin : In (i, EMsg m src dst o) L) by (rewrite EL; apply in_app_iff; right; left; reflexivity).
    exists i, o. split; [exact Hin|]. apply offset_iff; [exact Hn|]. exists (EMsg m src dst o). split; [exact Hin|].
    assert (Hb : before i L = l1).
    { rewrite EL. apply before_split. rewrite EL in Hn. unfold ids in Hn. rewrite map_app in Hn. cbn [map fst] in Hn.
      apply NoDup_remove_2 in Hn. intros H. apply Hn. apply in_app_iff. left. exact H. }
    rewrite Hb. apply existsb_false_iff. intros [j y] Hy. specialize (Hl1 _ Hy). unfold g in Hl1. cbn [snd] in Hl1.
    unfold wb, withheld_by. cbn [snd]. destruct y as [m1 s1 dd1 o1|p1 n1 d1]; cbn [same_group blocks orb].
    - rewrite Hl1. reflexivity.
    - reflexivity.
  Qed.
End EvRel2.
