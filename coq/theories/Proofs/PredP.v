(* C19: the executable model of the library predicates (Model/Predicates.v, model of src/mc/predicates.rs and of
   McState::current_run_trace) computes exactly what the documentation-level specification (Spec/PredSpec.v) says.

   One lemma `<name>_spec` per predicate, for ALL states and parameters.  Summary of what is proved, and of the
   places where the statement differs from the first formulation one would write:

   * current_run_spec / CurrentRun_unique / CurrentRun_iff: `current_run tr` is THE slice specified by CurrentRun.
   * inv_state_depth, prune_state_depth, collect_state_depth, goal_depth_reached: exact.
   * events_empty_spec, goal_no_events_spec, collect_no_events_spec: `= true <-> NoEvents`.  NO totality assumption on
     `so_is_empty` is needed: events_empty maps a panicking is_empty to `false`, and NoEvents is `so_is_empty = Ok
     true`, which is also false in that case; so the equivalence holds unconditionally.  (Totality is only needed
     to read `events_empty = false` as "is_empty returned Ok false": events_empty_false_total.)
   * inv_received_messages_spec: for NoDup expected: result `Some b` iff the process exists with outbox l and
     (b = false <-> ok_received_messages so expected st l); `None` iff no such node/process.  NoDup expected is
     NECESSARY: received_messages_dup_expected_counterexample exhibits expected = [a; a], outbox data [a], no
     pending events, where the specification holds but the model reports a violation (length 1 < 2).  In the code
     `expected` is a HashSet, so duplicate-freeness is by construction.  The direction model-ok -> spec-ok holds
     without NoDup (received_core_sound).  Pigeonhole facts NoDup_incl_length / NoDup_length_incl: from Coq's List.
   * goal_got_n_local_messages_spec (Some true iff fires; None iff absent), collect_ likewise.
   * goal_/prune_/collect_event_happened_n_times_current_run_spec, prune_/collect_events_limit_spec,
     prune_events_limit_per_proc_spec, prune_sent_messages_limit_spec: exact.
   * prune_proc_permutations_spec: stated for NoDup procs as requested; the equivalence in fact holds for EVERY
     list procs (prune_proc_permutations_spec_gen), the NoDup hypothesis is not used.  The scan invariant is
     "`used` = the first `waiting` elements of procs, as a set"; under it perm_scan = true iff the remaining first
     mentions are not a prefix of `skipn waiting procs`.  The index-out-of-range branch (a panic in the code) is
     unreachable: perm_scan_p is perm_scan instrumented to return None in that branch, and perm_scan_no_panic shows
     it never does (again for every procs, in particular duplicate-free ones).
   * combinators: existsb / forallb characterisations; defaults constantly false; goal_always_ok constantly true.
   * KNOWN DEFECT (finding F11): inv_state_depth_current_run does NOT meet its specification
     viol_state_depth_current_run.  state_depth_current_run_refuted: state at depth 1 whose current run (started at
     depth 0) has the 4 trace entries McStarted, McMessageReceived, McMessageSent, McTimerSet; limit 2: the model
     reports a violation (2 < 4) although the depth of the current run is 1 <= 2 (for every start depth:
     state_depth_current_run_refuted_any_depth0).  What the coded predicate does compute:
     inv_state_depth_current_run_computes: `= true <-> d < length of the specified run slice`.

   No axioms, no admits; see the Print Assumptions at the end. *)
From Coq Require Import List NArith Bool Arith Lia.
From ASV Require Import Base.Util Base.Msg Base.Log Model.Store Model.McSys Model.Predicates Spec.PredSpec Proofs.UtilP.
Import ListNotations.
Open Scope N_scope.

(* ------------------------------------------------------------------------------------------ *)
(* generic list facts                                                                          *)
(* ------------------------------------------------------------------------------------------ *)

Lemma last_split_unique {A} (x : A) : forall pre1 pre2 r1 r2,
  pre1 ++ x :: r1 = pre2 ++ x :: r2 -> ~ In x r1 -> ~ In x r2 -> r1 = r2.
Proof.
  induction pre1 as [|a p1 IH]; intros [|b p2] r1 r2 Heq H1 H2; cbn [app] in Heq.
  - injection Heq as Hr. exact Hr.
  - injection Heq as Ha Hr. exfalso. apply H1. rewrite Hr. apply in_or_app. right. left. reflexivity.
  - injection Heq as Ha Hr. exfalso. apply H2. rewrite <- Hr. apply in_or_app. right. left. reflexivity.
  - injection Heq as Ha Hr. eapply IH; eauto.
Qed.

Lemma nth_error_skipn {A} : forall n (l : list A) q, nth_error l n = Some q -> skipn n l = q :: skipn (S n) l.
Proof.
  induction n as [|n IH]; intros [|a l] q H; cbn [nth_error] in H; try discriminate.
  - injection H as ->. reflexivity.
  - cbn [skipn]. rewrite (IH l q H). reflexivity.
Qed.

Lemma firstn_S_nth {A} : forall n (l : list A) q, nth_error l n = Some q -> firstn (S n) l = firstn n l ++ [q].
Proof.
  induction n as [|n IH]; intros [|a l] q H; cbn [nth_error] in H; try discriminate.
  - injection H as ->. reflexivity.
  - cbn [firstn app]. f_equal. apply (IH l q H).
Qed.

Lemma Prefix_nil (b : list N) : Prefix [] b.
Proof. exists b. reflexivity. Qed.

Lemma Prefix_cons (a b : N) (x y : list N) : Prefix (a :: x) (b :: y) <-> a = b /\ Prefix x y.
Proof.
  unfold Prefix. split.
  - intros [c Hc]. cbn [app] in Hc. injection Hc as Hab Hy. split; auto. exists c. exact Hy.
  - intros [Hab [c Hc]]. exists c. cbn [app]. rewrite Hab, Hc. reflexivity.
Qed.

Lemma existsb_str_eqb (d : str) l : existsb (str_eqb d) l = true <-> In d l.
Proof.
  rewrite existsb_exists. unfold str_eqb. split.
  - intros [x [Hx He]]. apply (is_eq_true _ CmpSpec_str) in He. subst x. exact Hx.
  - intros H. exists d. split; auto. apply (is_eq_true _ CmpSpec_str). reflexivity.
Qed.

Lemma existsb_str_eqb_false (d : str) l : existsb (str_eqb d) l = false <-> ~ In d l.
Proof.
  rewrite <- existsb_str_eqb. destruct (existsb (str_eqb d) l); split; intro H; auto; try discriminate.
  exfalso. apply H. reflexivity.
Qed.

Lemma bool_eq_by_false (x b : bool) (P : Prop) : (x = false <-> P) -> (b = false <-> P) -> x = b.
Proof.
  intros Hx Hb. destruct x, b; auto; exfalso.
  - assert (HP : P) by (apply Hb; reflexivity). apply Hx in HP. discriminate.
  - assert (HP : P) by (apply Hx; reflexivity). apply Hb in HP. discriminate.
Qed.

Section PredP.
  Context {T SE PS : Type} (so : @store_ops T SE).
  Notation mcstate := (@mcstate T SE PS).
  Notation logentry := (logentry T).

  (* ---------------------------------------------------------------------------------------- *)
  (* current_run_trace                                                                         *)
  (* ---------------------------------------------------------------------------------------- *)

  Lemma is_started_true (e : logentry) : is_started e = true <-> e = LMcStarted.
  Proof. destruct e; cbn [is_started]; split; intro H; try discriminate; auto. Qed.

  Lemma existsb_started (l : list logentry) : existsb is_started l = true <-> In LMcStarted l.
  Proof.
    rewrite existsb_exists. split.
    - intros [x [Hx Hs]]. apply is_started_true in Hs. subst x. exact Hx.
    - intros H. exists LMcStarted. split; auto.
  Qed.

  Lemma existsb_started_false (l : list logentry) : existsb is_started l = false <-> ~ In LMcStarted l.
  Proof.
    rewrite <- existsb_started. destruct (existsb is_started l); split; intro H; auto; try discriminate.
    exfalso. apply H. reflexivity.
  Qed.

  Theorem current_run_spec (tr : list logentry) : CurrentRun tr (current_run tr).
  Proof.
    induction tr as [|e r IH].
    - right. split; auto.
    - cbn [current_run]. destruct (existsb is_started r) eqn:Hex.
      + rewrite andb_false_r. apply existsb_started in Hex.
        destruct IH as [[pre [rest [H1 [H2 H3]]]] | [Hn _]].
        * left. exists (e :: pre), rest. split; [|split].
          -- cbn [app]. f_equal. exact H1.
          -- exact H2.
          -- exact H3.
        * contradiction.
      + cbn [negb]. rewrite andb_true_r. apply existsb_started_false in Hex.
        destruct (is_started e) eqn:He.
        * apply is_started_true in He. subst e. left. exists [], r. split; [|split].
          -- reflexivity.
          -- reflexivity.
          -- exact Hex.
        * right. split; auto. intros [H|H].
          -- subst e. cbn [is_started] in He. discriminate.
          -- contradiction.
  Qed.

  Theorem CurrentRun_unique (tr r1 r2 : list logentry) : CurrentRun tr r1 -> CurrentRun tr r2 -> r1 = r2.
  Proof.
    intros [[p1 [s1 [E1 [R1 N1]]]] | [N1 R1]] [[p2 [s2 [E2 [R2 N2]]]] | [N2 R2]].
    - subst r1 r2. f_equal. rewrite E1 in E2. eapply last_split_unique; eauto.
    - exfalso. apply N2. rewrite E1. apply in_or_app. right. left. reflexivity.
    - exfalso. apply N1. rewrite E2. apply in_or_app. right. left. reflexivity.
    - subst. reflexivity.
  Qed.

  Corollary CurrentRun_iff (tr run : list logentry) : CurrentRun tr run <-> run = current_run tr.
  Proof.
    split.
    - intros H. eapply CurrentRun_unique; [exact H | apply current_run_spec].
    - intros ->. apply current_run_spec.
  Qed.

  Corollary current_run_trace_spec (st : mcstate) : CurrentRun (st_trace st) (current_run_trace st).
  Proof. apply current_run_spec. Qed.

  Lemma count_Occurrences (p : logentry -> bool) l : count p l = Occurrences p l.
  Proof. reflexivity. Qed.

  (* ---------------------------------------------------------------------------------------- *)
  (* pending events, process lookup                                                            *)
  (* ---------------------------------------------------------------------------------------- *)

  Lemma events_empty_spec (st : mcstate) : events_empty so st = true <-> NoEvents so st.
  Proof.
    unfold events_empty, NoEvents.
    destruct (so_is_empty so (st_events st)) as [b|t]; split; intro H; try discriminate; congruence.
  Qed.

  (* under totality of is_empty, a `false` answer of events_empty means "is_empty returned false" *)
  Lemma events_empty_false_total (st : mcstate) :
    (exists b, so_is_empty so (st_events st) = Ok b) ->
    (events_empty so st = false <-> so_is_empty so (st_events st) = Ok false).
  Proof.
    intros [b Hb]. unfold events_empty. rewrite Hb. split; intro H; congruence.
  Qed.

  Lemma proc_entry_outbox (st : mcstate) node proc l :
    Outbox st node proc l <-> exists pe, proc_entry st node proc = Some pe /\ pe_outbox pe = l.
  Proof.
    unfold Outbox, proc_entry. split.
    - intros [ns [pe [H1 [H2 H3]]]]. rewrite H1. exists pe. auto.
    - intros [pe [H1 H2]].
      destruct (sget N.compare node (st_nodes st)) as [ns|] eqn:Hn; [|discriminate].
      exists ns, pe. auto.
  Qed.

  Lemma Outbox_unique (st : mcstate) node proc l1 l2 : Outbox st node proc l1 -> Outbox st node proc l2 -> l1 = l2.
  Proof.
    intros H1 H2. apply proc_entry_outbox in H1. apply proc_entry_outbox in H2.
    destruct H1 as [pe1 [E1 O1]]. destruct H2 as [pe2 [E2 O2]]. congruence.
  Qed.

  Lemma proc_entry_none (st : mcstate) node proc :
    proc_entry st node proc = None <-> ~ exists l, Outbox st node proc l.
  Proof.
    split.
    - intros H [l Hl]. apply proc_entry_outbox in Hl. destruct Hl as [pe [E _]]. congruence.
    - intros H. destruct (proc_entry st node proc) as [pe|] eqn:E; auto.
      exfalso. apply H. exists (pe_outbox pe). apply proc_entry_outbox. exists pe. auto.
  Qed.

  (* the node or the process does not exist *)
  Lemma no_outbox_iff (st : mcstate) node proc :
    (~ exists l, Outbox st node proc l) <->
    sget N.compare node (st_nodes st) = None \/
    (exists ns, sget N.compare node (st_nodes st) = Some ns /\ sget N.compare proc (ns_procs ns) = None).
  Proof.
    rewrite <- proc_entry_none. unfold proc_entry.
    destruct (sget N.compare node (st_nodes st)) as [ns|] eqn:Hn.
    - split.
      + intros H. right. exists ns. auto.
      + intros [H|[ns' [H1 H2]]]; [discriminate|]. congruence.
    - split; auto.
  Qed.

  (* ---------------------------------------------------------------------------------------- *)
  (* defaults                                                                                  *)
  (* ---------------------------------------------------------------------------------------- *)

  Lemma default_prune_spec (st : mcstate) : default_prune st = false.
  Proof. reflexivity. Qed.
  Lemma default_goal_spec (st : mcstate) : default_goal st = false.
  Proof. reflexivity. Qed.
  Lemma default_invariant_spec (st : mcstate) : default_invariant st = false.
  Proof. reflexivity. Qed.
  Lemma default_collect_spec (st : mcstate) : default_collect st = false.
  Proof. reflexivity. Qed.
  Lemma goal_always_ok_spec (st : mcstate) : goal_always_ok st = true.
  Proof. reflexivity. Qed.

  (* ---------------------------------------------------------------------------------------- *)
  (* combinators                                                                               *)
  (* ---------------------------------------------------------------------------------------- *)

  (* violated iff some rule is violated *)
  Lemma all_invariants_spec (rules : list (mcstate -> bool)) st :
    all_invariants rules st = true <-> exists r, In r rules /\ r st = true.
  Proof. unfold all_invariants. rewrite existsb_exists. reflexivity. Qed.

  (* "Ok iff all invariants are satisfied" *)
  Lemma all_invariants_ok_spec (rules : list (mcstate -> bool)) st :
    all_invariants rules st = false <-> forall r, In r rules -> r st = false.
  Proof. unfold all_invariants. rewrite existsb_false_iff. reflexivity. Qed.

  Lemma any_goal_spec (gs : list (mcstate -> bool)) st :
    any_goal gs st = true <-> exists g, In g gs /\ g st = true.
  Proof. unfold any_goal. rewrite existsb_exists. reflexivity. Qed.

  Lemma all_goals_spec (gs : list (mcstate -> bool)) st :
    all_goals gs st = true <-> forall g, In g gs -> g st = true.
  Proof. unfold all_goals. rewrite forallb_forall. reflexivity. Qed.

  Lemma any_prune_spec (ps : list (mcstate -> bool)) st :
    any_prune ps st = true <-> exists p, In p ps /\ p st = true.
  Proof. unfold any_prune. rewrite existsb_exists. reflexivity. Qed.

  Lemma any_collect_spec (cs : list (mcstate -> bool)) st :
    any_collect cs st = true <-> exists c, In c cs /\ c st = true.
  Proof. unfold any_collect. rewrite existsb_exists. reflexivity. Qed.

  Lemma all_collects_spec (cs : list (mcstate -> bool)) st :
    all_collects cs st = true <-> forall c, In c cs -> c st = true.
  Proof. unfold all_collects. rewrite forallb_forall. reflexivity. Qed.

  (* ---------------------------------------------------------------------------------------- *)
  (* depth                                                                                     *)
  (* ---------------------------------------------------------------------------------------- *)

  Lemma inv_state_depth_spec d (st : mcstate) : inv_state_depth d st = true <-> viol_state_depth d st.
  Proof. unfold inv_state_depth, viol_state_depth. apply N.ltb_lt. Qed.

  Lemma prune_state_depth_spec d (st : mcstate) : prune_state_depth d st = true <-> fires_state_depth_exceeds d st.
  Proof. unfold prune_state_depth, fires_state_depth_exceeds. apply N.ltb_lt. Qed.

  Lemma collect_state_depth_spec d (st : mcstate) : collect_state_depth d st = true <-> fires_state_depth_exceeds d st.
  Proof. unfold collect_state_depth, fires_state_depth_exceeds. apply N.ltb_lt. Qed.

  Lemma goal_depth_reached_spec d (st : mcstate) : goal_depth_reached d st = true <-> fires_depth_reached d st.
  Proof. unfold goal_depth_reached, fires_depth_reached. apply N.leb_le. Qed.

  (* what the coded state_depth_current_run computes: the LENGTH of the specified run slice against the limit *)
  Theorem inv_state_depth_current_run_computes d (st : mcstate) run :
    CurrentRun (st_trace st) run ->
    (inv_state_depth_current_run d st = true <-> d < N.of_nat (length run)).
  Proof.
    intros Hc. apply CurrentRun_iff in Hc. subst run.
    unfold inv_state_depth_current_run, current_run_trace. apply N.ltb_lt.
  Qed.

  (* ---------------------------------------------------------------------------------------- *)
  (* events                                                                                    *)
  (* ---------------------------------------------------------------------------------------- *)

  Lemma goal_no_events_spec (st : mcstate) : goal_no_events so st = true <-> NoEvents so st.
  Proof. apply events_empty_spec. Qed.

  Lemma collect_no_events_spec (st : mcstate) : collect_no_events so st = true <-> NoEvents so st.
  Proof. apply events_empty_spec. Qed.

  Lemma goal_event_happened_n_times_current_run_spec p n (st : mcstate) :
    goal_event_happened_n_times_current_run p n st = true <-> fires_event_happened_n_times_current_run p n st.
  Proof.
    unfold goal_event_happened_n_times_current_run, fires_event_happened_n_times_current_run, current_run_trace.
    rewrite Nat.leb_le, count_Occurrences. split.
    - intros H. exists (current_run (st_trace st)). split; auto. apply current_run_spec.
    - intros [run [Hc H]]. apply CurrentRun_iff in Hc. subst run. exact H.
  Qed.

  Lemma prune_event_happened_n_times_current_run_spec p n (st : mcstate) :
    prune_event_happened_n_times_current_run p n st = true <-> fires_event_happened_n_times_current_run p n st.
  Proof. apply goal_event_happened_n_times_current_run_spec. Qed.

  Lemma collect_event_happened_n_times_current_run_spec p n (st : mcstate) :
    collect_event_happened_n_times_current_run p n st = true <-> fires_event_happened_n_times_current_run p n st.
  Proof. apply goal_event_happened_n_times_current_run_spec. Qed.

  Lemma prune_events_limit_spec p limit (st : mcstate) :
    prune_events_limit p limit st = true <-> fires_events_limit p limit st.
  Proof. unfold prune_events_limit, fires_events_limit. rewrite Nat.ltb_lt. reflexivity. Qed.

  Lemma collect_events_limit_spec p limit (st : mcstate) :
    collect_events_limit p limit st = true <-> fires_events_limit p limit st.
  Proof. apply prune_events_limit_spec. Qed.

  Lemma prune_events_limit_per_proc_spec p procs limit (st : mcstate) :
    prune_events_limit_per_proc p procs limit st = true <-> fires_events_limit_per_proc p procs limit st.
  Proof.
    unfold prune_events_limit_per_proc, fires_events_limit_per_proc. rewrite existsb_exists. split.
    - intros [proc [Hin H]]. apply Nat.ltb_lt in H. exists proc. split; auto.
    - intros [proc [Hin H]]. exists proc. split; auto. apply Nat.ltb_lt. exact H.
  Qed.

  Lemma prune_sent_messages_limit_spec k (st : mcstate) :
    prune_sent_messages_limit k st = true <-> fires_sent_messages_limit k st.
  Proof.
    unfold prune_sent_messages_limit, fires_sent_messages_limit. rewrite existsb_exists. split.
    - intros [[node ns] [Hin H]]. cbn [snd] in H. apply existsb_exists in H.
      destruct H as [[proc pe] [Hin2 H]]. cbn [snd] in H. apply N.ltb_lt in H.
      exists node, ns, proc, pe. auto.
    - intros [node [ns [proc [pe [H1 [H2 H3]]]]]]. exists (node, ns). split; auto.
      cbn [snd]. apply existsb_exists. exists (proc, pe). split; auto.
      cbn [snd]. apply N.ltb_lt. exact H3.
  Qed.

  (* ---------------------------------------------------------------------------------------- *)
  (* local messages                                                                            *)
  (* ---------------------------------------------------------------------------------------- *)

  Lemma goal_got_n_local_messages_spec node proc n (st : mcstate) :
    goal_got_n_local_messages node proc n st = Some true <-> fires_got_n_local_messages node proc n st.
  Proof.
    unfold goal_got_n_local_messages, fires_got_n_local_messages. split.
    - destruct (proc_entry st node proc) as [pe|] eqn:Hpe; [|discriminate].
      intros H. injection H as H. apply Nat.eqb_eq in H.
      exists (pe_outbox pe). split; auto. apply proc_entry_outbox. exists pe. auto.
    - intros [l [Ho Hl]]. apply proc_entry_outbox in Ho. destruct Ho as [pe [E1 E2]].
      rewrite E1. f_equal. apply Nat.eqb_eq. congruence.
  Qed.

  (* Some false iff the process exists and its outbox has another length *)
  Lemma goal_got_n_local_messages_false node proc n (st : mcstate) :
    goal_got_n_local_messages node proc n st = Some false <-> exists l, Outbox st node proc l /\ length l <> n.
  Proof.
    unfold goal_got_n_local_messages. split.
    - destruct (proc_entry st node proc) as [pe|] eqn:Hpe; [|discriminate].
      intros H. injection H as H. apply Nat.eqb_neq in H.
      exists (pe_outbox pe). split; auto. apply proc_entry_outbox. exists pe. auto.
    - intros [l [Ho Hl]]. apply proc_entry_outbox in Ho. destruct Ho as [pe [E1 E2]].
      rewrite E1. f_equal. apply Nat.eqb_neq. congruence.
  Qed.

  (* None (a panic in the code) iff the node or the process does not exist *)
  Lemma goal_got_n_local_messages_none node proc n (st : mcstate) :
    goal_got_n_local_messages node proc n st = None <-> ~ exists l, Outbox st node proc l.
  Proof.
    rewrite <- proc_entry_none. unfold goal_got_n_local_messages.
    destruct (proc_entry st node proc); split; intro H; auto; discriminate.
  Qed.

  Lemma collect_got_n_local_messages_spec node proc n (st : mcstate) :
    collect_got_n_local_messages node proc n st = Some true <-> fires_got_n_local_messages node proc n st.
  Proof. apply goal_got_n_local_messages_spec. Qed.

  Lemma collect_got_n_local_messages_none node proc n (st : mcstate) :
    collect_got_n_local_messages node proc n st = None <-> ~ exists l, Outbox st node proc l.
  Proof. apply goal_got_n_local_messages_none. Qed.

  (* ---------------------------------------------------------------------------------------- *)
  (* received_messages                                                                         *)
  (* ---------------------------------------------------------------------------------------- *)

  Lemma first_bad_false (expected : list str) : forall l seen,
    first_bad expected seen l = false <->
    NoDup l /\ (forall d, In d l -> ~ In d seen) /\ (forall d, In d l -> In d expected).
  Proof.
    induction l as [|d r IH]; intros seen; cbn [first_bad].
    - split; auto. intros _. split; [constructor|split]; intros d [].
    - destruct (existsb (str_eqb d) seen) eqn:Hs.
      + apply existsb_str_eqb in Hs. split; [discriminate|].
        intros [_ [H _]]. exfalso. apply (H d); [left; reflexivity | exact Hs].
      + apply existsb_str_eqb_false in Hs.
        destruct (existsb (str_eqb d) expected) eqn:He; cbn [negb].
        * apply existsb_str_eqb in He. rewrite IH. split.
          -- intros [Hnd [Hdis Hin]]. split; [|split].
             ++ constructor; auto. intros Hd. apply (Hdis d Hd). left. reflexivity.
             ++ intros x [Hx|Hx].
                ** subst x. exact Hs.
                ** intros Hxs. apply (Hdis x Hx). right. exact Hxs.
             ++ intros x [Hx|Hx]; [subst x; exact He | auto].
          -- intros [Hnd [Hdis Hin]]. inversion Hnd as [|? ? Hnin Hnd']; subst. split; [|split].
             ++ exact Hnd'.
             ++ intros x Hx [Hxs|Hxs].
                ** subst x. contradiction.
                ** apply (Hdis x); [right; exact Hx | exact Hxs].
             ++ intros x Hx. apply Hin. right. exact Hx.
        * apply existsb_str_eqb_false in He. split; [discriminate|].
          intros [_ [_ H]]. exfalso. apply He. apply H. left. reflexivity.
  Qed.

  Definition received_verdict (expected : list str) (st : mcstate) (got : list str) : bool :=
    if Nat.ltb (length expected) (length got) then true
    else if Nat.ltb (length got) (length expected) && events_empty so st then true
    else first_bad expected [] got.

  Definition ok_got (expected : list str) (st : mcstate) (got : list str) : Prop :=
    NoDup got /\ (forall d, In d got -> In d expected) /\ (NoEvents so st -> forall d, In d expected -> In d got).

  (* model says ok -> specification holds: no hypothesis on expected *)
  Lemma received_core_sound expected st got : received_verdict expected st got = false -> ok_got expected st got.
  Proof.
    unfold received_verdict, ok_got. intros H.
    destruct (Nat.ltb (length expected) (length got)) eqn:H1; [discriminate|].
    destruct (Nat.ltb (length got) (length expected) && events_empty so st) eqn:H2; [discriminate|].
    apply first_bad_false in H. destruct H as [Hnd [_ Hin]]. split; [exact Hnd | split; [exact Hin |]].
    intros Hne d Hd. apply events_empty_spec in Hne. rewrite Hne, andb_true_r in H2.
    apply Nat.ltb_ge in H1. apply Nat.ltb_ge in H2.
    apply (@NoDup_length_incl _ got expected Hnd); [lia | exact Hin | exact Hd].
  Qed.

  (* specification holds -> model says ok: needs expected duplicate-free (it is a HashSet in the code) *)
  Lemma received_core_complete expected st got :
    NoDup expected -> ok_got expected st got -> received_verdict expected st got = false.
  Proof.
    unfold received_verdict, ok_got. intros Hexp [Hnd [Hin Hcomp]].
    pose proof (@NoDup_incl_length _ got expected Hnd Hin) as Hle.
    destruct (Nat.ltb (length expected) (length got)) eqn:H1.
    { apply Nat.ltb_lt in H1. lia. }
    destruct (Nat.ltb (length got) (length expected) && events_empty so st) eqn:H2.
    { apply andb_true_iff in H2. destruct H2 as [H2 H3]. apply Nat.ltb_lt in H2.
      apply events_empty_spec in H3. pose proof (@NoDup_incl_length _ expected got Hexp (Hcomp H3)) as Hge. lia. }
    apply first_bad_false. split; [|split].
    - exact Hnd.
    - intros d _ [].
    - exact Hin.
  Qed.

  Lemma received_core expected st got :
    NoDup expected -> (received_verdict expected st got = false <-> ok_got expected st got).
  Proof.
    intros Hexp. split; [apply received_core_sound | apply received_core_complete; exact Hexp].
  Qed.

  Lemma inv_received_messages_unfold node proc expected st :
    inv_received_messages so node proc expected st =
    match proc_entry st node proc with
    | None => None
    | Some pe => Some (received_verdict expected st (map data (pe_outbox pe)))
    end.
  Proof. reflexivity. Qed.

  Theorem inv_received_messages_spec node proc expected (st : mcstate) b :
    NoDup expected ->
    (inv_received_messages so node proc expected st = Some b <->
     exists l, Outbox st node proc l /\ (b = false <-> ok_received_messages so expected st l)).
  Proof.
    intros Hexp. rewrite inv_received_messages_unfold.
    destruct (proc_entry st node proc) as [pe|] eqn:Hpe.
    - split.
      + intros H. injection H as Hb. exists (pe_outbox pe). split.
        * apply proc_entry_outbox. exists pe. auto.
        * rewrite <- Hb. apply (received_core expected st _ Hexp).
      + intros [l [Ho Hb]]. apply proc_entry_outbox in Ho. destruct Ho as [pe' [E1 E2]].
        rewrite Hpe in E1. injection E1 as E1. subst pe' l. f_equal.
        eapply bool_eq_by_false; [apply (received_core expected st _ Hexp) | exact Hb].
    - split; [discriminate|]. intros [l [Ho _]].
      apply proc_entry_outbox in Ho. destruct Ho as [pe [E _]]. congruence.
  Qed.

  (* the two readings: Ok(()) iff the specification holds, Err iff it does not *)
  Corollary inv_received_messages_ok node proc expected (st : mcstate) :
    NoDup expected ->
    (inv_received_messages so node proc expected st = Some false <->
     exists l, Outbox st node proc l /\ ok_received_messages so expected st l).
  Proof.
    intros Hexp. rewrite (inv_received_messages_spec _ _ _ _ _ Hexp). split.
    - intros [l [Ho Hb]]. exists l. split; auto. apply Hb. reflexivity.
    - intros [l [Ho Hok]]. exists l. split; auto. split; auto.
  Qed.

  Corollary inv_received_messages_violated node proc expected (st : mcstate) :
    NoDup expected ->
    (inv_received_messages so node proc expected st = Some true <->
     exists l, Outbox st node proc l /\ ~ ok_received_messages so expected st l).
  Proof.
    intros Hexp. rewrite (inv_received_messages_spec _ _ _ _ _ Hexp). split.
    - intros [l [Ho Hb]]. exists l. split; auto. intros Hok. apply Hb in Hok. discriminate.
    - intros [l [Ho Hok]]. exists l. split; auto. split; [discriminate | contradiction].
  Qed.

  (* None (a panic in the code) iff the node or the process does not exist *)
  Lemma inv_received_messages_none node proc expected (st : mcstate) :
    inv_received_messages so node proc expected st = None <-> ~ exists l, Outbox st node proc l.
  Proof.
    rewrite <- proc_entry_none, inv_received_messages_unfold.
    destruct (proc_entry st node proc); split; intro H; auto; discriminate.
  Qed.

  (* ---------------------------------------------------------------------------------------- *)
  (* proc_permutations                                                                         *)
  (* ---------------------------------------------------------------------------------------- *)

  (* perm_scan, with the index-out-of-range branch (a panic in the code) made observable *)
  Fixpoint perm_scan_p (procs : list N) (used : list N) (waiting : nat) (tr : list logentry) : option bool :=
    match tr with
    | [] => Some false
    | e :: r =>
      match mention e with
      | None => perm_scan_p procs used waiting r
      | Some p =>
        if nmem p used || negb (nmem p procs) then perm_scan_p procs used waiting r
        else match nth_error procs waiting with
             | Some q => if N.eqb q p then perm_scan_p procs (p :: used) (S waiting) r else Some true
             | None => None
             end
      end
    end.

  (* invariant of the scan: `used` is the set of the first `waiting` elements of procs *)
  Lemma perm_scan_inv (procs : list N) : forall (tr : list logentry) used waiting,
    (forall x, In x used <-> In x (firstn waiting procs)) ->
    perm_scan_p procs used waiting tr = Some (perm_scan procs used waiting tr) /\
    (perm_scan procs used waiting tr = true <->
     ~ Prefix (first_mentions procs used tr) (skipn waiting procs)).
  Proof.
    induction tr as [|e r IH]; intros used waiting Hinv; cbn [perm_scan perm_scan_p first_mentions].
    - split; auto. split; [discriminate|]. intros H. exfalso. apply H. apply Prefix_nil.
    - destruct (mention e) as [p|] eqn:Hm; [|apply IH; exact Hinv].
      destruct (nmem p used) eqn:Hu; destruct (nmem p procs) eqn:Hp; cbn [orb negb andb].
      + apply IH; exact Hinv.
      + apply IH; exact Hinv.
      + (* p is one of procs and is mentioned for the first time *)
        apply nmem_iff in Hp. apply nmem_false_iff in Hu.
        assert (Hsk : In p (skipn waiting procs)).
        { assert (Hp' : In p (firstn waiting procs ++ skipn waiting procs)) by (rewrite firstn_skipn; exact Hp).
          apply in_app_or in Hp'. destruct Hp' as [Hp'|Hp']; auto.
          exfalso. apply Hu. apply Hinv. exact Hp'. }
        destruct (nth_error procs waiting) as [q|] eqn:Hn.
        2:{ exfalso. apply nth_error_None in Hn. rewrite skipn_all2 in Hsk by exact Hn. destruct Hsk. }
        rewrite (nth_error_skipn _ _ _ Hn).
        destruct (N.eqb q p) eqn:Hq.
        * apply N.eqb_eq in Hq. subst q.
          destruct (IH (p :: used) (S waiting)) as [IH1 IH2].
          { intros x. rewrite (firstn_S_nth _ _ _ Hn), in_app_iff. cbn [In]. split.
            - intros [Hx|Hx]; [right; left; exact Hx | left; apply Hinv; exact Hx].
            - intros [Hx|[Hx|[]]]; [right; apply Hinv; exact Hx | left; exact Hx]. }
          split; auto. rewrite IH2, Prefix_cons. split.
          -- intros H [_ H']. apply H. exact H'.
          -- intros H H'. apply H. split; auto.
        * split; auto. split; auto. intros _. rewrite Prefix_cons. intros [Heq _].
          apply N.eqb_neq in Hq. congruence.
      + apply IH; exact Hinv.
  Qed.

  (* the panic branch of proc_permutations is unreachable *)
  Theorem perm_scan_no_panic (procs : list N) (tr : list logentry) :
    perm_scan_p procs [] O tr = Some (perm_scan procs [] O tr).
  Proof.
    apply (perm_scan_inv procs tr [] O). intros x. cbn [firstn In]. tauto.
  Qed.

  Theorem prune_proc_permutations_spec_gen (procs : list N) (st : mcstate) :
    prune_proc_permutations procs st = true <-> fires_proc_permutations procs st.
  Proof.
    unfold prune_proc_permutations, fires_proc_permutations, current_run_trace.
    destruct (perm_scan_inv procs (current_run (st_trace st)) [] O) as [_ H].
    { intros x. cbn [firstn In]. tauto. }
    cbn [skipn] in H. rewrite H. split.
    - intros Hn. exists (current_run (st_trace st)). split; auto. apply current_run_spec.
    - intros [run [Hc Hn]]. apply CurrentRun_iff in Hc. subst run. exact Hn.
  Qed.

  Theorem prune_proc_permutations_spec (procs : list N) (st : mcstate) :
    NoDup procs ->
    (prune_proc_permutations procs st = true <-> fires_proc_permutations procs st).
  Proof. intros _. apply prune_proc_permutations_spec_gen. Qed.

  Theorem prune_proc_permutations_no_panic (procs : list N) (st : mcstate) :
    NoDup procs ->
    perm_scan_p procs [] O (current_run_trace st) = Some (prune_proc_permutations procs st).
  Proof. intros _. apply perm_scan_no_panic. Qed.
End PredP.

(* ------------------------------------------------------------------------------------------ *)
(* received_messages: NoDup expected is necessary                                              *)
(* ------------------------------------------------------------------------------------------ *)

Section Counterexamples.
  Definition cx_net : @mcnet N :=
    {| n_corrupt := 0; n_dupl := 0; n_drop := 0; n_drop_in := []; n_drop_out := []; n_links := []; n_loc := [];
       n_maxdelay := 0 |}.

  (* a store with no events whose operations are never used by the predicates, except is_empty *)
  Definition cx_ops : @store_ops N unit :=
    {| so_empty := tt;
       so_push := fun _ _ => Panic 0;
       so_push_fixed := fun _ _ _ => Panic 0;
       so_pop := fun _ _ => Panic 0;
       so_cancel_timer := fun _ _ _ => Ok tt;
       so_cancel_proc := fun _ _ => Ok (tt, []);
       so_offered := fun _ _ => Ok [];
       so_get := fun _ _ => None;
       so_is_empty := fun _ => Ok true;
       so_live := fun _ => [];
       so_eqb := fun _ _ _ => true |}.

  Definition cx_m : msg := {| tip := [109]; data := [97] |}.

  Definition cx_pe : pentry N unit :=
    {| pe_state := tt; pe_evlog := []; pe_outbox := [cx_m]; pe_ptimers := []; pe_sent := 0; pe_recv := 0 |}.

  Definition cx_st_recv : @mcstate N unit unit :=
    {| st_nodes := [(0, {| ns_procs := [(0, cx_pe)]; ns_crashed := false |})];
       st_net := cx_net; st_events := tt; st_depth := 1; st_trace := [] |}.

  (* expected = [a; a] (not a set), outbox data = [a], nothing pending: the specification holds, the model reports
     a violation (1 < 2 messages and no events left) *)
  Theorem received_messages_dup_expected_counterexample :
    inv_received_messages cx_ops 0 0 [[97]; [97]] cx_st_recv = Some true /\
    ok_received_messages cx_ops [[97]; [97]] cx_st_recv [cx_m].
  Proof.
    split.
    - vm_compute. reflexivity.
    - unfold ok_received_messages. cbn [map data cx_m]. split; [|split].
      + constructor; [intros [] | constructor].
      + intros d [Hd|[]]. left. exact Hd.
      + intros _ d [Hd|[Hd|[]]]; left; exact Hd.
  Qed.

  (* ---------------------------------------------------------------------------------------- *)
  (* state_depth_current_run: the coded predicate does not meet its specification (F11)        *)
  (* ---------------------------------------------------------------------------------------- *)

  (* one step (depth 1) of a run started at depth 0: a message is delivered, the receiver answers and sets a timer *)
  Definition cx_st_depth : @mcstate N unit unit :=
    {| st_nodes := []; st_net := cx_net; st_events := tt; st_depth := 1;
       st_trace := [LMcStarted; LMcMessageReceived cx_m 0 1; LMcMessageSent cx_m 1 0; LMcTimerSet 1 0] |}.

  Lemma cx_st_depth_run : CurrentRun (st_trace cx_st_depth) (st_trace cx_st_depth).
  Proof.
    left. exists [], [LMcMessageReceived cx_m 0 1; LMcMessageSent cx_m 1 0; LMcTimerSet 1 0].
    split; [|split].
    - reflexivity.
    - reflexivity.
    - intros [H|[H|[H|[]]]]; discriminate.
  Qed.

  Theorem state_depth_current_run_refuted :
    exists (st : @mcstate N unit unit) (depth0 d : N),
      inv_state_depth_current_run d st = true /\ ~ viol_state_depth_current_run d depth0 st.
  Proof.
    exists cx_st_depth, 0, 2. split.
    - vm_compute. reflexivity.
    - unfold viol_state_depth_current_run. cbn [st_depth cx_st_depth]. lia.
  Qed.

  (* the same state refutes the specification whatever depth the run is taken to have started at *)
  Theorem state_depth_current_run_refuted_any_depth0 :
    exists (st : @mcstate N unit unit) (d : N),
      inv_state_depth_current_run d st = true /\ forall depth0, ~ viol_state_depth_current_run d depth0 st.
  Proof.
    exists cx_st_depth, 2. split.
    - vm_compute. reflexivity.
    - intros depth0. unfold viol_state_depth_current_run. cbn [st_depth cx_st_depth]. lia.
  Qed.
End Counterexamples.

Print Assumptions current_run_spec.
Print Assumptions CurrentRun_unique.
Print Assumptions CurrentRun_iff.
Print Assumptions events_empty_spec.
Print Assumptions default_prune_spec.
Print Assumptions default_goal_spec.
Print Assumptions default_invariant_spec.
Print Assumptions default_collect_spec.
Print Assumptions goal_always_ok_spec.
Print Assumptions all_invariants_spec.
Print Assumptions all_invariants_ok_spec.
Print Assumptions any_goal_spec.
Print Assumptions all_goals_spec.
Print Assumptions any_prune_spec.
Print Assumptions any_collect_spec.
Print Assumptions all_collects_spec.
Print Assumptions inv_state_depth_spec.
Print Assumptions prune_state_depth_spec.
Print Assumptions collect_state_depth_spec.
Print Assumptions goal_depth_reached_spec.
Print Assumptions inv_state_depth_current_run_computes.
Print Assumptions goal_no_events_spec.
Print Assumptions collect_no_events_spec.
Print Assumptions goal_event_happened_n_times_current_run_spec.
Print Assumptions prune_event_happened_n_times_current_run_spec.
Print Assumptions collect_event_happened_n_times_current_run_spec.
Print Assumptions prune_events_limit_spec.
Print Assumptions collect_events_limit_spec.
Print Assumptions prune_events_limit_per_proc_spec.
Print Assumptions prune_sent_messages_limit_spec.
Print Assumptions goal_got_n_local_messages_spec.
Print Assumptions goal_got_n_local_messages_none.
Print Assumptions collect_got_n_local_messages_spec.
Print Assumptions inv_received_messages_spec.
Print Assumptions inv_received_messages_none.
Print Assumptions received_messages_dup_expected_counterexample.
Print Assumptions perm_scan_no_panic.
Print Assumptions prune_proc_permutations_spec_gen.
Print Assumptions prune_proc_permutations_spec.
Print Assumptions prune_proc_permutations_no_panic.
Print Assumptions state_depth_current_run_refuted.
Print Assumptions state_depth_current_run_refuted_any_depth0.
