(* C04, stage 2: the hypotheses of Proofs/HandoffSim2.v are satisfiable: a three-node system over integer time with a
   crashed node, a disabled link, a non-zero duplication rate, a message in flight, a pending timer, and handlers that
   re-set timers with set_timer after cancelling them. *)
From Coq Require Import List NArith ZArith Bool Lia.
From ASV Require Import Base.Util Base.Msg Base.Log Model.Store Spec.StoreSpec Model.McSys Spec.RefSys
     Model.Sim Spec.TimeLaws Spec.SimSpec Model.Snapshot
     Proofs.UtilP Proofs.StoreSpecP Proofs.RefWf Proofs.SimTimeP Proofs.SimBaseP Proofs.SnapshotP Proofs.FateAgree
     Proofs.HandoffSimBase Proofs.HandoffSim Proofs.HandoffSim2.
Import ListNotations.

Module Handoff2Ex.
  Definition m0 : msg := {| tip := [1]; data := [] |}.
  Definition hS (p : N) (st : unit) (i : input) (t : Z) (r : nat -> Z) : unit * list (action Z) * nat :=
    match i with
    | InLocal m => (tt, [ASend m 6; ASend m 7; ATimerSet 1 3%Z true], O)
    | InMsg m from => (tt, [ALocal m; ASend m 5; ATimerCancel 2; ATimerSet 2 5%Z false], O)
    | InTimer n => (tt, [ATimerCancel n; ALocal m0; ATimerSet n 4%Z false; ASend m0 6], O)
    end.
  Definition hM (p : N) (st : unit) (i : input) (t : Z) (r : nat -> Z) : unit * list (action Z) :=
    fst (hS p st i 0%Z (fun _ => 0%Z)).
  Definition dr : nat -> Z := fun _ => 0%Z.
  Definition script : list (@sop Z) :=
    [YAddNode 1; YAddNode 2; YAddNode 3; YAddProcess 5 1; YAddProcess 6 2; YAddProcess 7 3;
     YCrash 3; YNet (SSetDupl 1%Z); YNet (SDisableLink 2 1); YSendLocal 5 m0].
  Definition rets : list sret := [RetUnit; RetUnit; RetUnit; RetUnit; RetUnit; RetUnit; RetUnit; RetUnit; RetUnit; RetUnit].
  Definition s0 : @simsys Z unit :=
    match run_ops z_ops hS (fun _ => tt) dr (fun l => l) 5 (sys0 z_ops) script with Ok (s, _) => s | Panic _ => sys0 z_ops end.
  Definition soR := abstract_ops Z.leb (fun _ _ _ => true).
  Definition mr0 : @mcsys Z (astore Z) unit :=
    match snapshot z_ops soR s0 with
    | Ok m => m
    | Panic _ => {| s_nodes := []; s_net := snap_net s0; s_events := aempty; s_depth := 0; s_mf := false; s_trace := [] |}
    end.

  Lemma s0_run : run_ops z_ops hS (fun _ => tt) dr (fun l => l) 5 (sys0 z_ops) script = Ok (s0, rets).
  Proof. vm_compute. reflexivity. Qed.
  Lemma s0_reachable : Reachable z_ops hS (fun _ => tt) dr (fun l => l) s0.
  Proof. exists 5%nat, script, rets. exact s0_run. Qed.
  Lemma s0_installed : Installed s0.
  Proof.
    apply (registered_no_recover z_ops hS (fun _ => tt) dr (fun l => l) 5 script s0 _ s0_run).
    intros n H. cbn [script In] in H. repeat (destruct H as [H|H]; [discriminate|]). exact H.
  Qed.
  Lemma s0_snapshot : snapshot z_ops soR s0 = Ok mr0.
  Proof. vm_compute. reflexivity. Qed.
  (* in flight: the message to process 6, the message to process 7 on the crashed node 3, and the timer (5, 1) *)
  Lemma s0_live : map (fun e => (q_time e, c_of_q e)) (q_live (y_q s0))
                  = [(1%Z, CMsg m0 5 6); (1%Z, CMsg m0 5 7); (3%Z, CTimer 5 1)].
  Proof. vm_compute. reflexivity. Qed.
  (* the snapshot does not contain the message to the crashed node; the message carries a duplication budget *)
  Lemma mr0_pending : map snd (pend (s_events mr0)) = [EMsg m0 5 6 (NoFailures 1%Z); ETimer 5 1 3%Z].
  Proof. vm_compute. reflexivity. Qed.
  Lemma s0_crashed : crashed_at s0 3 = true /\ crashed_at s0 1 = false /\ crashed_at s0 2 = false.
  Proof. vm_compute. auto. Qed.

  Definition routed_b (s : @simsys Z unit) : bool :=
    forallb (fun e => match q_data e with
                      | QMsg _ _ _ _ dst dn => match sget N.compare dst (sn_loc (y_net s)) with
                                               | Some x => N.eqb x dn
                                               | None => false
                                               end
                      | QTimer _ _ => true
                      end) (q_live (y_q s)).
  Lemma routed_b_sound (s : @simsys Z unit) : routed_b s = true -> Routed s.
  Proof.
    intros F e mid m src sn dst dn He Hd. unfold routed_b in F. rewrite forallb_forall in F. specialize (F e He).
    cbv beta in F. rewrite Hd in F. destruct (sget N.compare dst (sn_loc (y_net s))) as [x|]; [|discriminate].
    apply N.eqb_eq in F. subst x. reflexivity.
  Qed.
  Lemma s0_routed : Routed s0.
  Proof. apply routed_b_sound. vm_compute. reflexivity. Qed.
  Lemma s0_no_corruption : sn_corrupt (y_net s0) = tz z_ops.
  Proof. vm_compute. reflexivity. Qed.

  (* the handlers are override-free in every state: set_timer only directly after cancelling the same name *)
  Lemma ofree_cancel_set (pt : list (N * N)) n (d : Z) (pre post : list (action Z)) :
    (forall a, In a pre -> match a with ATimerSet _ _ _ | ATimerCancel _ => False | _ => True end) ->
    (forall a, In a post -> match a with ATimerSet _ _ _ => False | _ => True end) ->
    ofree pt (ATimerCancel n :: pre ++ ATimerSet n d false :: post).
  Proof.
    intros Hpre Hpost. cbn [ofree]. split; [intros ? ? ? X; discriminate|].
    assert (Hn : shas N.compare n (pt_step pt (ATimerCancel (T := Z) n)) = false).
    { cbn [pt_step]. destruct (shas N.compare n pt) eqn:E; [|exact E]. rewrite shas_srem_N, N.eqb_refl. reflexivity. }
    revert Hn. generalize (pt_step pt (ATimerCancel (T := Z) n)). clear pt.
    induction pre as [|a r IH]; intros pt Hn; cbn [app ofree].
    - split; [intros ? ? ? X; inversion X; subst; right; exact Hn|].
      generalize (pt_step pt (ATimerSet n d false)). clear pt Hn.
      induction post as [|b q IHq]; intros pt; cbn [ofree]; [exact I|]. split.
      + intros ? ? ? ->. destruct (Hpost _ (or_introl eq_refl)).
      + apply IHq. intros x Hx. apply Hpost. right. exact Hx.
    - pose proof (Hpre a (or_introl eq_refl)) as Ha. split.
      + intros ? ? ? ->. destruct Ha.
      + apply IH; [intros x Hx; apply Hpre; right; exact Hx|]. destruct a; try destruct Ha; exact Hn.
  Qed.

  Lemma step_of_all : forall s, StepOF z_ops hM s.
  Proof.
    intros s q' e nn nd p t r _ _ _ _. generalize (pe_ptimers (fst (pre_pe nn (fst (ev_kind e)) (q_clock q') p (snd (ev_kind e))))).
    intros pt. unfold hM. destruct (k_input (snd (ev_kind e))) as [m from|m|n]; cbn [hS fst snd].
    - cbn [ofree]. split; [intros ? ? ? X; discriminate|]. split; [intros ? ? ? X; discriminate|].
      apply (ofree_cancel_set _ 2 5%Z [] []); intros a [].
    - cbn [ofree]. split; [intros ? ? ? X; discriminate|]. split; [intros ? ? ? X; discriminate|].
      split; [intros ? ? ? X; inversion X; left; reflexivity|exact I].
    - apply (ofree_cancel_set _ n 4%Z [ALocal m0] [ASend m0 6]).
      + intros a [<-|[]]. exact I.
      + intros a [<-|[]]. exact I.
  Qed.

  Theorem example_steps2 : forall k sk r,
    sim_op z_ops hS (fun _ => tt) dr (fun l => l) 10 s0 (YSteps k) = Ok (sk, r) ->
    exists m, RefWf.Steps (mc_gt0 z_ops) (mc_eq0 z_ops) 0%Z (fun _ sk => sk) hM unit (fun _ _ => 0%Z) (fun _ => tt) Z.leb
                          (fun _ _ _ => true) mr0 m /\ ProjEq sk m.
  Proof.
    intros k sk r H.
    apply (C04_stage2_steps z_ops hS (fun _ => tt) dr (fun l => l) (mc_gt0 z_ops) (mc_eq0 z_ops) 0%Z (fun _ sk => sk) hM unit
             (fun _ _ => 0%Z) (fun _ => tt) (fun _ _ _ => true) z_laws (proj2 z_sub_laws)) with (s0 := s0) (fuel := 10%nat) (k := k) (r := r).
    - intros i. split; reflexivity.
    - intros r0 x H1 H2. apply (below_rate_nonzero z_ops z_laws r0 x H1 H2).
    - intros proc st inp t1 r1 t2 r2. unfold hM. destruct inp; reflexivity.
    - exact s0_reachable.
    - exact s0_installed.
    - left. exact s0_routed.
    - exact s0_no_corruption.
    - exact s0_snapshot.
    - intros proc st inp time rand m dst Hin. clear H.
      assert (K : known_of s0 = [5; 6; 7]) by (vm_compute; reflexivity). rewrite K. clear K.
      unfold hM in Hin. destruct inp; cbn [hS fst snd In] in Hin.
      + repeat (destruct Hin as [Hin|Hin]; [try discriminate; inversion Hin; subst; cbn [In]; tauto|]); contradiction.
      + repeat (destruct Hin as [Hin|Hin]; [try discriminate; inversion Hin; subst; cbn [In]; tauto|]); contradiction.
      + repeat (destruct Hin as [Hin|Hin]; [try discriminate; inversion Hin; subst; cbn [In]; tauto|]); contradiction.
    - exact step_of_all.
    - exact H.
  Qed.
  (* the run is not trivial: four steps handle four events (one of them, for the crashed node, is discarded) *)
  Lemma example_four_steps : exists sk, sim_op z_ops hS (fun _ => tt) dr (fun l => l) 10 s0 (YSteps 4) = Ok (sk, RetBool true).
  Proof. eexists. vm_compute. reflexivity. Qed.
End Handoff2Ex.

Print Assumptions Handoff2Ex.example_steps2.
