(* The hand-off from a simulation to the model checker: the model of ModelChecker::new (Model/Snapshot.v)
   captures the simulated state faithfully, and the snapshot of a reachable simulator state is a well-formed
   start configuration for the model-checking theorems (RefWf / SysLift / McCompose).

   NOTATION.  s : simsys (Model/Sim.v);  soR := abstract_ops tle sevent_eqb (reference store, Spec/RefSys.v),
   soC := concrete_ops tle store_eqb (model of the code's PendingEvents);  `tle` is the order handed to the store
   (arbitrary in S3/S5/S6/S7, `tleb ops` in S4).  Per live queue event e:
     snap_of s e := [EMsg m src dst (NoFailures (sn_max net))]   if q_data e = QMsg _ m src _ dst _, dst is located
                                                                  (sn_loc) on an existing, NON-crashed node
                    []                                            for a message to a crashed node (or failed lookups)
                    [ETimer p n (tsub (q_time e) (q_clock q))]    if q_data e = QTimer p n
     snap_ok s e := for a QMsg: sn_loc[dst] = dn and y_nodes[dn] exist (the two lookups of ModelChecker::new).

   S1 snapshot_nodes        snapshot ops so s = Ok ms ->  s_nodes ms = map (name, snap_node nd) (y_nodes s),
                            s_depth = 0, s_mf = false, s_trace = y_log s, s_net = snap_net s          (any store `so`)
      snap_node_fields / snapshot_node_lookup / snapshot_process_entry: nd_procs = sd_procs (the whole process map:
      state, event log, outbox, pending-timer map, counters), nd_skew = sd_skew, nd_crashed = sd_crashed.
   S2 snapshot_net          rates, max delay, disabled links, locations copied;  In x (n_drop_in m) <->
                            In x (sn_drop_in n) \/ exists nd, In (x, nd) (y_nodes s) /\ sd_crashed nd = true
                            (same for drop_out); sortedness kept.  snapshot_net_mem: the nmem / sget form (sorted
                            y_nodes); snapshot_crashed_disconnected: clause Disc.
   S3 snapshot_events_ref   (forall e in q_live, snap_ok s e) -> exists mr, snapshot ops soR s = Ok mr /\
                              pend a = combine (nseq 0 (length evs)) evs,   evs := flat_map (snap_of s) (q_dump q)
                              map snd (pend a) = evs,  map fst (pend a) = nseq 0 (length evs)  (ids 0,1,2,..),
                              anext a = length evs,
                              every pending (i, ETimer p n d) has amap (p, n) = Some j with (j, ETimer p n d') pending,
                              every amap (p, n) = Some j is a pending (j, ETimer p n d).
      snapshot_ref_ok_iff   the reference snapshot exists IFF all live events are snap_ok (panic 80/81 otherwise).
      q_dump_perm           Permutation (q_dump q) (q_live q): cancelled events do not appear, each live copy once
                            (no law needed);  q_dump_sorted (time_laws): StronglySorted key_le, key_le a b := b is not
                            before a in the heap order (time, then id); key_le_spec: time a <= time b, equal times ->
                            id a <= id b.
      snapshot_amap_exact / snapshot_amap_reachable: if live timers are unique per (process, name) (TimersUnique;
                            holds in Reachable states: timers_unique_reachable, from TimerInv + BaseInv + SimCrashP.Inv)
                            then amap (p, n) = Some i for EVERY pending (i, ETimer p n d): exactly its new id.
      snapshot_pend_origin / snapshot_pend_complete, snap_of_msg / snap_of_timer / snap_of_crashed / snap_of_live_msg:
                            the event-by-event reading.
   S5 snapshot_related      snapshot ops soR s = Ok mr -> exists mc, snapshot ops soC s = Ok mc /\ SysR (R tle) mc mr
      snapshot_related_both both given -> related.  (snap_events_lift / snapshot_lift: for any two store instances
                            with a push simulation; instantiated with SysLift.c_push, c_empty.)
   S4 (Section SnapTimers; HYPOTHESES ADDED, not part of Spec/TimeLaws.time_laws, both true in z_ops: z_sub_laws)
        sub_mono   : forall a b c, a <= b -> tsub a c <= tsub b c
        sub_add_le : forall t c d, tsub t c <= d -> t <= tadd c d          (only for snapshot_timer_remaining)
      snapshot_timer_order  pend = l1 ++ (i, ETimer p n1 d1) :: l2 ++ (j, ETimer p n2 d2) :: l3 ->
                            tleb d1 d2 = true /\ blocks (tleb ops) (ETimer p n1 d1) (ETimer p n2 d2) = true /\ i < j
      snapshot_pend_order   the pending list is the dump list (sorted by (time, id)) mapped through snap_of.
      snapshot_timer_remaining  a pending (i, ETimer p n dA) comes from a live QTimer p n event eA with
                            dA = q_time eA - clock, and if it withholds a timer set later with delay d
                            (blocks .. = true) at any checker time c' >= clock then q_time eA <= c' + d.
      snapshot_timer_future (time_laws, Reachable): moreover clock <= q_time eA (SimTimeP.TimeInv).
   S6 snapshot_awf          Reachable s -> Installed s -> exists mr, snapshot ops soR s = Ok mr /\ AWf (known_of s) mr
                            with known_of s := map fst (sn_loc (y_net s)).   snapshot_awf_inv: the same from the
                            invariants BaseInv, TimerInv, SimCrashP.Inv, SnapInv.  snapshot_reachable_ok: the
                            snapshot of a Reachable state always exists.
      NEW INVARIANT SnapInv (snapinv_reachable; BaseInv does not contain these): every sd_procs is sorted, sn_loc is
      sorted, every sn_loc value is an existing node, every QMsg queue event has located source and destination.
      *** S6 AS PROPOSED (for every Reachable s) IS FALSE.  `Installed s` := every process located by the network
      is in sd_procs of its node.  recover_node clears sd_procs of the node and prunes System::proc_nodes but
      Network::proc_locations (sn_loc) keeps the entries, so Place's clause
        sget p (n_loc net) = Some n <-> exists nd, sget n nodes = Some nd /\ shas p (nd_procs nd)
      fails from left to right.  Counterexample SnapEx.s1 (z_ops, vm_compute): AddNode 1; AddProcess 5 1; Crash 1;
      Recover 1:  s1_reachable, s1_snapshot (the snapshot exists), s1_not_awf, s1_not_installed.
      What fails otherwise is real, not an artefact of AWf: SnapEx.s2 (a message sent to 5 while node 1 was down,
      then Recover 1): delivering it panics in the simulator (s2_sim_panics: Panic 63) and, from the snapshot, in
      the checker (s2_checker_panics: all_choices = [ChDeliver 0], take_choice = Panic 42): the same failure.
      When the side condition holds:  installed_iff_registered (BaseInv): Installed s <-> Registered s :=
      every process in sn_loc is in y_proc_nodes;  registered_sstep: every transition except YRecover keeps it;
      registered_no_recover / snapshot_awf_no_recover: it holds after every script without YRecover;
      sstep_reg_frame: sn_loc and y_proc_nodes change only in YAddProcess and YRecover;  recover_registered_exact:
      YRecover n keeps sn_loc and removes from y_proc_nodes exactly the processes that were on n (recover_unregisters:
      each of them stays located, is neither registered nor installed, hence ~ Installed);  add_process_registers:
      YAddProcess p n adds p to both maps and nothing else.  So the set of located-but-unregistered processes grows
      by procs(n) at YRecover n and shrinks by p at YAddProcess p: Installed holds exactly in the reachable states in
      which every process of every recovered node has been re-added (this last sentence is the reading of the four
      lemmas, it is not stated as one theorem).
   S7 snapshot_start        Reachable s -> Installed s -> exists mc mr, both snapshots exist, SysR (R tle) mc mr, AWf mr
      snapshot_start_ok     + handler_closed for known_of s, H_ds, snapshot ops soC s = Ok mc, CSteps mc s' ->
                            the path is a path of the reference semantics (RSteps mr A', SysR s' A', AWf A') and
                            all_choices / take_choice do not panic at s' (csteps_ref, csteps_no_panic).
   No axioms (Print Assumptions at the end). *)
From Coq Require Import List NArith ZArith Bool Lia Permutation Sorted.
From ASV Require Import Base.Util Base.Msg Base.Log Model.Store Spec.StoreSpec Model.McSys Spec.RefSys
     Model.Sim Spec.TimeLaws Spec.SimSpec Model.Snapshot
     Proofs.UtilP Proofs.StoreSpecP Proofs.StoreRefine Proofs.SysLift Proofs.RefWf Proofs.McCompose
     Proofs.SimTimeP Proofs.SimBaseP Proofs.SimTimerP Proofs.SimCrashP.
Import ListNotations.
Open Scope N_scope.

(* SimBaseP.binv (shadowed by the tactic of the same name of SimCrashP) *)
Ltac sbinv :=
  repeat match goal with
  | H : bind ?r _ = Ok _ |- _ =>
      let E := fresh "E" in destruct r eqn:E; cbn [bind] in H; [|discriminate H]
  | H : Ok _ = Ok _ |- _ => inversion H; clear H; subst
  | H : Panic _ = Ok _ |- _ => discriminate H
  | H : (let '(_, _) := ?p in _) = _ |- _ => let E := fresh "E" in destruct p eqn:E
  end.

(* ================================================================================================ *)
(* 0. small generic facts                                                                            *)
(* ================================================================================================ *)

(* the N-sequence  start, start+1, ..., start+len-1 *)
Fixpoint nseq (start : N) (len : nat) : list N :=
  match len with O => [] | S k => start :: nseq (start + 1) k end.

Lemma nseq_length start len : length (nseq start len) = len.
Proof. revert start. induction len as [|k IH]; intros start; cbn [nseq length]; auto. Qed.

Lemma nseq_snoc len : forall start, nseq start (S len) = nseq start len ++ [start + N.of_nat len].
Proof.
  induction len as [|k IH]; intros start.
  - cbn. rewrite N.add_0_r. reflexivity.
  - change (nseq start (S (S k))) with (start :: nseq (start + 1) (S k)). rewrite IH.
    cbn [nseq app]. f_equal. f_equal. f_equal. lia.
Qed.

Lemma in_nseq x len : forall start, In x (nseq start len) <-> start <= x < start + N.of_nat len.
Proof.
  induction len as [|k IH]; intros start; cbn [nseq In].
  - split; [intros []|lia].
  - rewrite IH. lia.
Qed.

Lemma nseq_nodup len : forall start, NoDup (nseq start len).
Proof.
  induction len as [|k IH]; intros start; cbn [nseq]; constructor; auto.
  rewrite in_nseq. lia.
Qed.

Lemma strongly_sorted_mid {A} (R : A -> A -> Prop) l1 a l2 :
  StronglySorted R (l1 ++ a :: l2) -> Forall (R a) l2.
Proof.
  induction l1 as [|x r IH]; cbn [app]; intros H.
  - apply StronglySorted_inv in H. tauto.
  - apply StronglySorted_inv in H. apply IH. tauto.
Qed.


(* ================================================================================================ *)
(* 1. S1 / S2: nodes, scalar fields and network of the snapshot (any store instance)                 *)
(* ================================================================================================ *)
Section SnapBasic.
  Context {T : Type} (ops : time_ops T).
  Context {SE : Type} (so : @store_ops T SE).
  Context {PS : Type}.
  Notation simsys := (@simsys T PS).
  Notation simnode := (@simnode T PS).
  Notation mcsys := (@mcsys T SE PS).

  Lemma snapshot_inv (s : simsys) (ms : mcsys) :
    snapshot ops so s = Ok ms ->
    exists st, snap_events ops so s (so_empty so) (q_dump ops (y_q s)) = Ok st /\
      ms = {| s_nodes := map (fun p => (fst p, snap_node (snd p))) (y_nodes s);
              s_net := snap_net s; s_events := st; s_depth := 0; s_mf := false; s_trace := y_log s |}.
  Proof.
    unfold snapshot. intros H.
    destruct (snap_events ops so s (so_empty so) (q_dump ops (y_q s))) as [st|] eqn:E; cbn [bind] in H; [|discriminate H].
    exists st. split; [reflexivity|]. inversion H. reflexivity.
  Qed.

  (* S1 *)
  Theorem snapshot_nodes (s : simsys) (ms : mcsys) :
    snapshot ops so s = Ok ms ->
    s_nodes ms = map (fun p => (fst p, snap_node (snd p))) (y_nodes s) /\
    s_depth ms = 0 /\ s_mf ms = false /\ s_trace ms = y_log s /\ s_net ms = snap_net s.
  Proof.
    intros H. destruct (snapshot_inv s ms H) as (st & _ & ->). cbn [s_nodes s_depth s_mf s_trace s_net].
    repeat split.
  Qed.

  (* the node entries, field by field: nothing of a process entry is touched *)
  Lemma snap_node_fields (nd : simnode) :
    nd_procs (snap_node nd) = sd_procs nd /\ nd_skew (snap_node nd) = sd_skew nd /\
    nd_crashed (snap_node nd) = sd_crashed nd.
  Proof. repeat split. Qed.

  Lemma sget_snap_nodes (nodes : list (N * simnode)) nn :
    sget N.compare nn (map (fun p => (fst p, snap_node (snd p))) nodes) =
    option_map snap_node (sget N.compare nn nodes).
  Proof.
    induction nodes as [|[k nd] r IH]; cbn [map sget fst snd option_map]; [reflexivity|].
    destruct (is_eq (N.compare nn k)); [reflexivity|exact IH].
  Qed.

  Lemma ssorted_snap_nodes (nodes : list (N * simnode)) :
    ssorted N.compare nodes -> ssorted N.compare (map (fun p => (fst p, snap_node (snd p))) nodes).
  Proof.
    induction nodes as [|[k nd] r IH]; cbn [map fst snd]; intros Hs; [constructor|].
    apply ssorted_inv in Hs. destruct Hs as [Hf Hs]. constructor; [|apply IH; exact Hs].
    rewrite Forall_forall in *. intros q Hq. apply in_map_iff in Hq.
    destruct Hq as [q0 [<- Hq0]]. cbn [fst]. apply Hf. exact Hq0.
  Qed.

  Corollary snapshot_node_lookup (s : simsys) (ms : mcsys) nn :
    snapshot ops so s = Ok ms ->
    sget N.compare nn (s_nodes ms) = option_map snap_node (sget N.compare nn (y_nodes s)).
  Proof. intros H. destruct (snapshot_nodes s ms H) as (-> & _). apply sget_snap_nodes. Qed.

  (* every process entry is carried over unchanged *)
  Corollary snapshot_process_entry (s : simsys) (ms : mcsys) nn nd p :
    snapshot ops so s = Ok ms -> sget N.compare nn (y_nodes s) = Some nd ->
    exists nd', sget N.compare nn (s_nodes ms) = Some nd' /\
      sget N.compare p (nd_procs nd') = sget N.compare p (sd_procs nd) /\
      nd_procs nd' = sd_procs nd /\ nd_skew nd' = sd_skew nd /\ nd_crashed nd' = sd_crashed nd.
  Proof.
    intros H Hn. exists (snap_node nd). rewrite (snapshot_node_lookup s ms nn H), Hn. repeat split.
  Qed.

  (* S2 *)
  Definition crashed_names (s : simsys) : list N := map fst (filter (fun p => sd_crashed (snd p)) (y_nodes s)).

  Lemma in_crashed_names (s : simsys) x :
    In x (crashed_names s) <-> exists nd, In (x, nd) (y_nodes s) /\ sd_crashed nd = true.
  Proof.
    unfold crashed_names. rewrite in_map_iff. split.
    - intros [[k nd] [E H]]. cbn [fst] in E. subst k. apply filter_In in H. cbn [snd] in H. exists nd. exact H.
    - intros [nd [H1 H2]]. exists (x, nd). split; [reflexivity|]. apply filter_In. split; [exact H1|exact H2].
  Qed.

  Theorem snapshot_net (s : simsys) :
    let n := y_net s in let m := snap_net s in
    n_drop m = sn_drop n /\ n_dupl m = sn_dupl n /\ n_corrupt m = sn_corrupt n /\ n_maxdelay m = sn_max n /\
    n_links m = sn_links n /\ n_loc m = sn_loc n /\
    (forall x, In x (n_drop_in m) <-> In x (sn_drop_in n) \/ exists nd, In (x, nd) (y_nodes s) /\ sd_crashed nd = true) /\
    (forall x, In x (n_drop_out m) <-> In x (sn_drop_out n) \/ exists nd, In (x, nd) (y_nodes s) /\ sd_crashed nd = true) /\
    (nsorted (sn_drop_in n) -> nsorted (n_drop_in m)) /\ (nsorted (sn_drop_out n) -> nsorted (n_drop_out m)).
  Proof.
    cbv zeta. unfold snap_net. cbn [n_drop n_dupl n_corrupt n_maxdelay n_links n_loc n_drop_in n_drop_out].
    fold (crashed_names s).
    split; [reflexivity|]. split; [reflexivity|]. split; [reflexivity|]. split; [reflexivity|].
    split; [reflexivity|]. split; [reflexivity|]. split; [|split; [|split]].
    - intros x. rewrite in_fold_nins, in_crashed_names. reflexivity.
    - intros x. rewrite in_fold_nins, in_crashed_names. reflexivity.
    - apply nsorted_fold_nins.
    - apply nsorted_fold_nins.
  Qed.

  (* the same with nmem / sget, for sorted node maps *)
  Corollary snapshot_net_mem (s : simsys) x :
    ssorted N.compare (y_nodes s) ->
    nmem x (n_drop_in (snap_net s)) =
      nmem x (sn_drop_in (y_net s)) || match sget N.compare x (y_nodes s) with Some nd => sd_crashed nd | None => false end /\
    nmem x (n_drop_out (snap_net s)) =
      nmem x (sn_drop_out (y_net s)) || match sget N.compare x (y_nodes s) with Some nd => sd_crashed nd | None => false end.
  Proof.
    intros Hs. destruct (snapshot_net s) as (_ & _ & _ & _ & _ & _ & Hi & Ho & _). cbv zeta in Hi, Ho.
    assert (Hc : (exists nd, In (x, nd) (y_nodes s) /\ sd_crashed nd = true) <->
                 match sget N.compare x (y_nodes s) with Some nd => sd_crashed nd | None => false end = true).
    { split.
      - intros [nd [H1 H2]]. apply (sget_in _ CmpSpec_N) in H1; [|exact Hs]. rewrite H1. exact H2.
      - destruct (sget N.compare x (y_nodes s)) as [nd|] eqn:E; [|discriminate].
        intros H. exists nd. split; [|exact H]. apply (sget_in _ CmpSpec_N); auto. }
    split; apply eq_true_iff_eq; rewrite orb_true_iff, !nmem_iff, <- Hc; [apply Hi|apply Ho].
  Qed.

  (* in particular: a crashed node is disconnected in the snapshot (clause Disc of RefWf.AWf) *)
  Corollary snapshot_crashed_disconnected (s : simsys) nn nd :
    ssorted N.compare (y_nodes s) -> sget N.compare nn (y_nodes s) = Some nd -> sd_crashed nd = true ->
    nmem nn (n_drop_in (snap_net s)) = true /\ nmem nn (n_drop_out (snap_net s)) = true.
  Proof.
    intros Hs Hn Hc. destruct (snapshot_net_mem s nn Hs) as [-> ->]. rewrite Hn, Hc, !orb_true_r. split; reflexivity.
  Qed.
End SnapBasic.

(* ================================================================================================ *)
(* 2. q_dump: the live events, each once, in (time, id) order                                         *)
(* ================================================================================================ *)
Section Dump.
  Context {T : Type} (ops : time_ops T).
  Notation qevent := (@qevent T).
  Notation simq := (@simq T).

  Lemma q_insert_sorted_perm (e : qevent) l : Permutation (q_insert_sorted ops e l) (e :: l).
  Proof.
    induction l as [|x r IH]; cbn [q_insert_sorted]; [reflexivity|].
    destruct (ev_before ops e x); [reflexivity|].
    rewrite IH. apply perm_swap.
  Qed.

  Lemma fold_insert_perm (l : list qevent) : forall acc,
    Permutation (fold_left (fun acc e => q_insert_sorted ops e acc) l acc) (l ++ acc).
  Proof.
    induction l as [|x r IH]; intros acc; cbn [fold_left app]; [reflexivity|].
    rewrite IH, q_insert_sorted_perm. symmetry. apply Permutation_middle.
  Qed.

  (* cancelled events do not appear, every live event appears exactly once *)
  Theorem q_dump_perm (q : simq) : Permutation (q_dump ops q) (q_live q).
  Proof. unfold q_dump. rewrite fold_insert_perm, app_nil_r. reflexivity. Qed.

  Corollary in_q_dump (q : simq) e : In e (q_dump ops q) <-> In e (q_live q).
  Proof. split; apply Permutation_in; [|symmetry]; apply q_dump_perm. Qed.

  Corollary q_dump_nodup (q : simq) : NoDup (map q_id (q_events q)) -> NoDup (map q_id (q_dump ops q)).
  Proof.
    intros H. apply q_live_nodup in H. eapply Permutation_NoDup; [|exact H].
    apply Permutation_map. symmetry. apply q_dump_perm.
  Qed.

  (* the order, from the laws of the time algebra *)
  Hypothesis laws : time_laws ops.
  Notation tle a b := (tleb ops a b = true).

  Lemma lt_negb a b : tltb ops a b = negb (tleb ops b a).
  Proof.
    apply eq_true_iff_eq. rewrite (lt_spec ops laws), negb_true_iff. split; [tauto|].
    intros H. split; [|exact H]. destruct (le_total ops laws a b) as [H1|H1]; [exact H1|congruence].
  Qed.

  Lemma ev_before_le a b : ev_before ops a b = true -> tle (q_time a) (q_time b).
  Proof.
    unfold ev_before. rewrite !lt_negb, negb_involutive. intros H.
    destruct (tleb ops (q_time a) (q_time b)) eqn:E; [reflexivity|].
    destruct (le_total ops laws (q_time a) (q_time b)) as [H1|H1]; [congruence|].
    rewrite H1 in H. cbn in H. discriminate H.
  Qed.

  Lemma not_before_le a b : ev_before ops a b = false -> tle (q_time b) (q_time a).
  Proof.
    unfold ev_before. rewrite !lt_negb, negb_involutive. intros H.
    apply orb_false_iff in H. destruct H as [H _]. apply negb_false_iff in H. exact H.
  Qed.

  (* b does not come strictly before a in the heap order (time, then id) *)
  Definition key_le (a b : qevent) : Prop := ev_before ops b a = false.

  Lemma ev_before_asym a b : ev_before ops a b = true -> ev_before ops b a = false.
  Proof.
    unfold ev_before. rewrite !lt_negb, !negb_involutive. intros H.
    destruct (tleb ops (q_time a) (q_time b)) eqn:E1, (tleb ops (q_time b) (q_time a)) eqn:E2;
      cbn [negb orb andb] in *; try reflexivity; try discriminate H.
    - apply N.ltb_lt in H. apply N.ltb_ge. lia.
    - destruct (le_total ops laws (q_time a) (q_time b)); congruence.
  Qed.

  Lemma key_le_trans_before e x y : ev_before ops e x = true -> key_le x y -> key_le e y.
  Proof.
    unfold key_le, ev_before. rewrite !lt_negb, !negb_involutive. intros H1 H2.
    pose proof (le_trans ops laws) as Tr. pose proof (le_total ops laws) as Tot.
    destruct (tleb ops (q_time e) (q_time x)) eqn:Eex, (tleb ops (q_time x) (q_time e)) eqn:Exe,
             (tleb ops (q_time y) (q_time x)) eqn:Eyx, (tleb ops (q_time x) (q_time y)) eqn:Exy,
             (tleb ops (q_time y) (q_time e)) eqn:Eye, (tleb ops (q_time e) (q_time y)) eqn:Eey;
      cbn [negb orb andb] in *; try reflexivity; try discriminate H1; try discriminate H2;
      try (apply N.ltb_lt in H1; apply N.ltb_ge in H2; apply N.ltb_ge; lia);
      try (exfalso;
           first [ pose proof (Tr _ _ _ Eex Exy); congruence
                 | pose proof (Tr _ _ _ Eye Eex); congruence
                 | pose proof (Tr _ _ _ Exy Eye); congruence
                 | pose proof (Tr _ _ _ Eyx Exe); congruence
                 | destruct (Tot (q_time e) (q_time x)); congruence
                 | destruct (Tot (q_time y) (q_time x)); congruence
                 | destruct (Tot (q_time y) (q_time e)); congruence ]).
  Qed.

  Lemma q_insert_sorted_sorted e l :
    StronglySorted key_le l -> StronglySorted key_le (q_insert_sorted ops e l).
  Proof.
    induction l as [|x r IH]; cbn [q_insert_sorted]; intros Hs.
    - constructor; constructor.
    - destruct (ev_before ops e x) eqn:E.
      + constructor; [exact Hs|]. apply StronglySorted_inv in Hs. destruct Hs as [_ Hf].
        constructor.
        * apply ev_before_asym. exact E.
        * rewrite Forall_forall in *. intros y Hy. eapply key_le_trans_before; [exact E|]. apply Hf. exact Hy.
      + apply StronglySorted_inv in Hs. destruct Hs as [Hs Hf]. constructor; [apply IH; exact Hs|].
        rewrite Forall_forall in *. intros y Hy.
        apply (Permutation_in _ (q_insert_sorted_perm e r)) in Hy. destruct Hy as [<-|Hy]; [exact E|apply Hf; exact Hy].
  Qed.

  Theorem q_dump_sorted (q : simq) : StronglySorted key_le (q_dump ops q).
  Proof.
    unfold q_dump. generalize (q_live q).
    assert (G : forall l acc, StronglySorted key_le acc ->
                  StronglySorted key_le (fold_left (fun acc e => q_insert_sorted ops e acc) l acc)).
    { induction l as [|x r IH]; intros acc Ha; cbn [fold_left]; [exact Ha|]. apply IH, q_insert_sorted_sorted, Ha. }
    intros l. apply G. constructor.
  Qed.

  Lemma key_le_time a b : key_le a b -> tle (q_time a) (q_time b).
  Proof. apply not_before_le. Qed.

  (* with distinct ids: strictly increasing (time, id) *)
  Lemma key_le_spec a b : key_le a b ->
    tle (q_time a) (q_time b) /\ (q_time a = q_time b -> q_id a <= q_id b).
  Proof.
    intros H. split; [apply key_le_time, H|]. intros E. unfold key_le, ev_before in H. rewrite E in H.
    rewrite !lt_negb, (le_refl ops laws) in H. cbn [negb orb andb] in H. apply N.ltb_ge in H. exact H.
  Qed.

  Corollary q_dump_time_sorted (q : simq) :
    StronglySorted (fun a b => tle (q_time a) (q_time b)) (q_dump ops q).
  Proof.
    pose proof (q_dump_sorted q) as H. induction H as [|a l Hs IH Hf]; constructor; [exact IH|].
    eapply Forall_impl; [|exact Hf]. intros b. apply key_le_time.
  Qed.
End Dump.

(* ================================================================================================ *)
(* 3. S3: the pending events of the reference snapshot                                               *)
(* ================================================================================================ *)
Section AmapOf.
  Context {T : Type}.
  Notation sevent := (sevent T).

  (* the name map after pushing the list L of (id, event) in order *)
  Definition amap_add (m : list ((N * N) * id)) (L : list (id * sevent)) : list ((N * N) * id) :=
    fold_left (fun m ie => match snd ie with ETimer p n _ => sins tkey_cmp (p, n) (fst ie) m | _ => m end) L m.

  (* the id of the last timer event with key (p, n) in L, or `acc` *)
  Definition last_timer (p n : N) (acc : option id) (L : list (id * sevent)) : option id :=
    fold_left (fun acc ie => match snd ie with
                             | ETimer p' n' _ => if is_eq (tkey_cmp (p, n) (p', n')) then Some (fst ie) else acc
                             | _ => acc
                             end) L acc.

  Lemma amap_add_get p n L : forall m, sget tkey_cmp (p, n) (amap_add m L) = last_timer p n (sget tkey_cmp (p, n) m) L.
  Proof.
    induction L as [|[i e] r IH]; intros m; cbn [amap_add last_timer fold_left fst snd]; [reflexivity|].
    destruct e as [ms src dst o|p' n' d].
    - apply IH.
    - fold (amap_add (sins tkey_cmp (p', n') i m) r). rewrite IH. unfold last_timer. f_equal.
      rewrite (sget_sins _ CmpSpec_tkey). reflexivity.
  Qed.

  Lemma last_timer_snoc p n acc L ie :
    last_timer p n acc (L ++ [ie]) =
    match snd ie with
    | ETimer p' n' _ => if is_eq (tkey_cmp (p, n) (p', n')) then Some (fst ie) else last_timer p n acc L
    | _ => last_timer p n acc L
    end.
  Proof. unfold last_timer. rewrite fold_left_app. reflexivity. Qed.

  Lemma last_timer_sound p n L j : last_timer p n None L = Some j -> exists d, In (j, ETimer p n d) L.
  Proof.
    induction L as [|[i e] r IH] using rev_ind; [discriminate|].
    rewrite last_timer_snoc. cbn [fst snd]. intros H.
    assert (G : last_timer p n None r = Some j -> exists d, In (j, ETimer p n d) (r ++ [(i, e)])).
    { intros H'. destruct (IH H') as [d Hd]. exists d. apply in_or_app. left. exact Hd. }
    destruct e as [ms src dst o|p' n' d]; [exact (G H)|].
    destruct (is_eq (tkey_cmp (p, n) (p', n'))) eqn:E; [|exact (G H)].
    apply (is_eq_true _ CmpSpec_tkey) in E. inversion E; subst p' n'. inversion H; subst i.
    exists d. apply in_or_app. right. left. reflexivity.
  Qed.

  Lemma last_timer_complete p n L i d :
    In (i, ETimer p n d) L -> exists j d', last_timer p n None L = Some j /\ In (j, ETimer p n d') L.
  Proof.
    induction L as [|[i0 e] r IH] using rev_ind; [intros []|].
    rewrite last_timer_snoc. cbn [fst snd]. intros Hin. apply in_app_or in Hin.
    assert (G : In (i, ETimer p n d) r ->
                exists j d', last_timer p n None r = Some j /\ In (j, ETimer p n d') (r ++ [(i0, e)])).
    { intros H'. destruct (IH H') as (j & d' & H1 & H2). exists j, d'. split; [exact H1|]. apply in_or_app. left. exact H2. }
    destruct e as [ms src dst o|p' n' d0].
    - destruct Hin as [Hin|[Heq|[]]]; [exact (G Hin)|discriminate Heq].
    - destruct (is_eq (tkey_cmp (p, n) (p', n'))) eqn:E.
      + apply (is_eq_true _ CmpSpec_tkey) in E. inversion E; subst p' n'.
        exists i0, d0. split; [reflexivity|]. apply in_or_app. right. left. reflexivity.
      + destruct Hin as [Hin|[Heq|[]]]; [exact (G Hin)|].
        inversion Heq; subst. rewrite (is_eq_refl _ CmpSpec_tkey) in E. discriminate E.
  Qed.
End AmapOf.

Section SnapRef.
  Context {T : Type} (ops : time_ops T).
  Context {PS : Type}.
  Variable tle : T -> T -> bool.                                             (* the order the reference store uses *)
  Variable sevent_eqb : (T -> T -> bool) -> sevent T -> sevent T -> bool.
  Notation simsys := (@simsys T PS).
  Notation qevent := (@qevent T).
  Notation soR := (abstract_ops tle sevent_eqb).
  Notation rsys := (@mcsys T (astore T) PS).

  (* what one live queue event contributes to the pending events *)
  Definition snap_of (s : simsys) (e : qevent) : list (sevent T) :=
    match q_data e with
    | QMsg _ m src _ dst _ =>
      match sget N.compare dst (sn_loc (y_net s)) with
      | Some dn => match sget N.compare dn (y_nodes s) with
                   | Some nd => if sd_crashed nd then [] else [EMsg m src dst (NoFailures (sn_max (y_net s)))]
                   | None => []
                   end
      | None => []
      end
    | QTimer proc timer => [ETimer proc timer (tsub ops (q_time e) (q_clock (y_q s)))]
    end.

  (* the lookups ModelChecker::new performs for the event succeed *)
  Definition snap_ok (s : simsys) (e : qevent) : Prop :=
    match q_data e with
    | QMsg _ _ _ _ dst _ =>
      exists dn nd, sget N.compare dst (sn_loc (y_net s)) = Some dn /\ sget N.compare dn (y_nodes s) = Some nd
    | QTimer _ _ => True
    end.

  Definition push_all (a : astore T) (evs : list (sevent T)) : astore T :=
    fold_left (fun a e => apush a e (anext a) (anext a + 1)) evs a.

  Lemma push_all_app a l1 l2 : push_all a (l1 ++ l2) = push_all (push_all a l1) l2.
  Proof. unfold push_all. apply fold_left_app. Qed.

  Lemma snap_events_ref (s : simsys) l : forall st,
    (forall e, In e l -> snap_ok s e) ->
    snap_events ops soR s st l = Ok (push_all st (flat_map (snap_of s) l)).
  Proof.
    induction l as [|e r IH]; intros st Hok; cbn [snap_events flat_map]; [reflexivity|].
    assert (Hr : forall e0, In e0 r -> snap_ok s e0) by (intros e0 H0; apply Hok; right; exact H0).
    pose proof (Hok e (or_introl eq_refl)) as He. unfold snap_ok in He. unfold snap_of at 1.
    destruct (q_data e) as [mid m src sn dst dn0|proc timer].
    - destruct He as (dn & nd & H1 & H2). rewrite H1. unfold node_crashed. rewrite H2. cbn [bind].
      destruct (sd_crashed nd).
      + cbn [app]. apply IH. exact Hr.
      + cbn [so_push abstract_ops]. rewrite a_push_eq. cbn [bind]. rewrite push_all_app. apply IH. exact Hr.
    - cbn [so_push abstract_ops]. rewrite a_push_eq. cbn [bind]. rewrite push_all_app. apply IH. exact Hr.
  Qed.

  (* ... and only then *)
  Lemma snap_events_ref_inv (s : simsys) l : forall st st',
    snap_events ops soR s st l = Ok st' -> forall e, In e l -> snap_ok s e.
  Proof.
    induction l as [|e r IH]; intros st st' H e0 Hin; [destruct Hin|].
    cbn [snap_events] in H.
    assert (He : snap_ok s e /\ exists st1, snap_events ops soR s st1 r = Ok st').
    { unfold snap_ok. destruct (q_data e) as [mid m src sn dst dn0|proc timer].
      - destruct (sget N.compare dst (sn_loc (y_net s))) as [dn|] eqn:E1; [|discriminate H].
        unfold node_crashed in H. destruct (sget N.compare dn (y_nodes s)) as [nd|] eqn:E2; [|discriminate H].
        cbn [bind] in H. split; [exists dn, nd; split; [reflexivity|exact E2]|].
        destruct (sd_crashed nd); [exists st; exact H|].
        cbn [so_push abstract_ops] in H. rewrite a_push_eq in H. cbn [bind] in H. eexists. exact H.
      - split; [exact I|]. cbn [so_push abstract_ops] in H. rewrite a_push_eq in H. cbn [bind] in H. eexists. exact H. }
    destruct He as [He [st1 Hr]]. destruct Hin as [<-|Hin]; [exact He|]. exact (IH _ _ Hr e0 Hin).
  Qed.

  (* the store after pushing a list of events *)
  Lemma push_all_spec evs : forall a,
    pend (push_all a evs) = pend a ++ combine (nseq (anext a) (length evs)) evs /\
    anext (push_all a evs) = anext a + N.of_nat (length evs) /\
    amap (push_all a evs) = amap_add (amap a) (combine (nseq (anext a) (length evs)) evs).
  Proof.
    induction evs as [|e r IH]; intros a; cbn [push_all fold_left length nseq combine].
    - rewrite app_nil_r, N.add_0_r. repeat split.
    - fold (push_all (apush a e (anext a) (anext a + 1)) r).
      destruct (IH (apush a e (anext a) (anext a + 1))) as (H1 & H2 & H3).
      rewrite H1, H2, H3. cbn [apush pend anext amap]. rewrite <- app_assoc. cbn [app].
      split; [reflexivity|]. split; [lia|]. cbn [amap_add fold_left fst snd]. reflexivity.
  Qed.

  Lemma map_fst_combine {A B} (l1 : list A) (l2 : list B) : length l1 = length l2 -> map fst (combine l1 l2) = l1.
  Proof.
    revert l2. induction l1 as [|x r IH]; intros [|y r2] H; cbn [combine map fst length] in *; try discriminate H; auto.
    f_equal. apply IH. lia.
  Qed.
  Lemma map_snd_combine {A B} (l1 : list A) (l2 : list B) : length l1 = length l2 -> map snd (combine l1 l2) = l2.
  Proof.
    revert l2. induction l1 as [|x r IH]; intros [|y r2] H; cbn [combine map snd length] in *; try discriminate H; auto.
    f_equal. apply IH. lia.
  Qed.

  (* S3 *)
  Theorem snapshot_events_ref (s : simsys) :
    (forall e, In e (q_live (y_q s)) -> snap_ok s e) ->
    exists mr : rsys, snapshot ops soR s = Ok mr /\
      let a := s_events mr in
      let evs := flat_map (snap_of s) (q_dump ops (y_q s)) in
      pend a = combine (nseq 0 (length evs)) evs /\
      map snd (pend a) = evs /\
      map fst (pend a) = nseq 0 (length evs) /\
      anext a = N.of_nat (length evs) /\
      (forall i p n d, In (i, ETimer p n d) (pend a) ->
         exists j d', sget tkey_cmp (p, n) (amap a) = Some j /\ In (j, ETimer p n d') (pend a)) /\
      (forall p n j, sget tkey_cmp (p, n) (amap a) = Some j -> exists d, In (j, ETimer p n d) (pend a)).
  Proof.
    intros Hok. unfold snapshot.
    rewrite snap_events_ref by (intros e He; apply Hok; apply (in_q_dump ops); exact He).
    cbn [bind]. eexists. split; [reflexivity|]. cbv zeta. cbn [s_events so_empty abstract_ops].
    set (evs := flat_map (snap_of s) (q_dump ops (y_q s))).
    destruct (push_all_spec evs aempty) as (H1 & H2 & H3). cbn [aempty pend anext amap app] in H1, H2, H3.
    rewrite H1, H2, H3. split; [reflexivity|].
    split; [apply map_snd_combine; apply nseq_length|].
    split; [apply map_fst_combine; apply nseq_length|].
    split; [lia|]. split.
    - intros i p n d Hin. rewrite amap_add_get. cbn [sget]. apply (last_timer_complete p n _ i d Hin).
    - intros p n j. rewrite amap_add_get. cbn [sget]. apply last_timer_sound.
  Qed.

  (* the reference snapshot exists exactly when these lookups succeed *)
  Theorem snapshot_ref_ok_iff (s : simsys) :
    (exists mr : rsys, snapshot ops soR s = Ok mr) <-> (forall e, In e (q_live (y_q s)) -> snap_ok s e).
  Proof.
    split.
    - intros [mr H] e He. destruct (snapshot_inv ops soR s mr H) as (st & Hst & _).
      apply (snap_events_ref_inv s _ _ _ Hst). apply (in_q_dump ops). exact He.
    - intros H. destruct (snapshot_events_ref s H) as (mr & Hm & _). exists mr. exact Hm.
  Qed.

  (* reading S3 event by event *)
  Lemma snap_of_msg (s : simsys) e x :
    In x (snap_of s e) ->
    match x with
    | EMsg m src dst o =>
      o = NoFailures (sn_max (y_net s)) /\
      (exists mid sn dn0, q_data e = QMsg mid m src sn dst dn0) /\
      exists dn nd, sget N.compare dst (sn_loc (y_net s)) = Some dn /\ sget N.compare dn (y_nodes s) = Some nd /\
                    sd_crashed nd = false
    | ETimer p n d => q_data e = QTimer p n /\ d = tsub ops (q_time e) (q_clock (y_q s))
    end.
  Proof.
    unfold snap_of. destruct (q_data e) as [mid m src sn dst dn0|proc timer].
    - destruct (sget N.compare dst (sn_loc (y_net s))) as [dn|] eqn:E1; [|intros []].
      destruct (sget N.compare dn (y_nodes s)) as [nd|] eqn:E2; [|intros []].
      destruct (sd_crashed nd) eqn:E3; [intros []|]. intros [<-|[]].
      split; [reflexivity|]. split; [exists mid, sn, dn0; reflexivity|]. exists dn, nd. repeat split; assumption.
    - intros [<-|[]]. split; reflexivity.
  Qed.

  Lemma snap_of_timer (s : simsys) e p n :
    q_data e = QTimer p n -> snap_of s e = [ETimer p n (tsub ops (q_time e) (q_clock (y_q s)))].
  Proof. unfold snap_of. intros ->. reflexivity. Qed.

  Lemma snap_of_crashed (s : simsys) e mid m src sn dst dn0 dn nd :
    q_data e = QMsg mid m src sn dst dn0 -> sget N.compare dst (sn_loc (y_net s)) = Some dn ->
    sget N.compare dn (y_nodes s) = Some nd -> sd_crashed nd = true -> snap_of s e = [].
  Proof. unfold snap_of. intros -> -> -> ->. reflexivity. Qed.

  Lemma snap_of_live_msg (s : simsys) e mid m src sn dst dn0 dn nd :
    q_data e = QMsg mid m src sn dst dn0 -> sget N.compare dst (sn_loc (y_net s)) = Some dn ->
    sget N.compare dn (y_nodes s) = Some nd -> sd_crashed nd = false ->
    snap_of s e = [EMsg m src dst (NoFailures (sn_max (y_net s)))].
  Proof. unfold snap_of. intros -> -> -> ->. reflexivity. Qed.

  (* every pending event of the snapshot comes from a live queue event *)
  Corollary snapshot_pend_origin (s : simsys) (mr : rsys) i x :
    snapshot ops soR s = Ok mr -> In (i, x) (pend (s_events mr)) ->
    exists e, In e (q_live (y_q s)) /\ In x (snap_of s e).
  Proof.
    intros H Hin.
    assert (Hok : forall e, In e (q_live (y_q s)) -> snap_ok s e).
    { apply snapshot_ref_ok_iff. exists mr. exact H. }
    destruct (snapshot_events_ref s Hok) as (mr' & H' & _ & Hs & _). rewrite H in H'. inversion H'; subst mr'.
    cbv zeta in Hs. assert (Hx : In x (map snd (pend (s_events mr)))) by (apply in_map_iff; exists (i, x); auto).
    rewrite Hs in Hx. apply in_flat_map in Hx. destruct Hx as (e & He & Hx). exists e. split; [|exact Hx].
    apply in_q_dump in He. exact He.
  Qed.

  (* ... and every live timer / message to a live node is pending in the snapshot *)
  Corollary snapshot_pend_complete (s : simsys) (mr : rsys) e x :
    snapshot ops soR s = Ok mr -> In e (q_live (y_q s)) -> In x (snap_of s e) ->
    exists i, In (i, x) (pend (s_events mr)).
  Proof.
    intros H He Hx.
    assert (Hok : forall e, In e (q_live (y_q s)) -> snap_ok s e).
    { apply snapshot_ref_ok_iff. exists mr. exact H. }
    destruct (snapshot_events_ref s Hok) as (mr' & H' & _ & Hs & _). rewrite H in H'. inversion H'; subst mr'.
    cbv zeta in Hs.
    assert (Hin : In x (map snd (pend (s_events mr)))).
    { rewrite Hs. apply in_flat_map. exists e. split; [apply in_q_dump; exact He|exact Hx]. }
    apply in_map_iff in Hin. destruct Hin as ([i x'] & E & Hin). cbn [snd] in E. subst x'. exists i. exact Hin.
  Qed.
End SnapRef.

(* ================================================================================================ *)
(* 4. S5: the concrete snapshot simulates the reference snapshot                                     *)
(* ================================================================================================ *)
Section SnapLift.
  Context {T : Type} (ops : time_ops T).
  Context {SE1 SE2 : Type} (so1 : @store_ops T SE1) (so2 : @store_ops T SE2) (Rs : SE1 -> SE2 -> Prop).
  Context {PS : Type}.
  Notation simsys := (@simsys T PS).
  Hypothesis H_push : forall s a e a' i, Rs s a -> so_push so2 a e = Ok (a', i) ->
    exists s', so_push so1 s e = Ok (s', i) /\ Rs s' a'.
  Hypothesis H_empty : Rs (so_empty so1) (so_empty so2).

  Lemma snap_events_lift (s : simsys) l : forall st1 st2 st2',
    Rs st1 st2 -> snap_events ops so2 s st2 l = Ok st2' ->
    exists st1', snap_events ops so1 s st1 l = Ok st1' /\ Rs st1' st2'.
  Proof.
    induction l as [|e r IH]; intros st1 st2 st2' HR H; cbn [snap_events] in *.
    - apply ok_inj in H. subst st2'. exists st1. split; [reflexivity|exact HR].
    - destruct (q_data e) as [mid m src sn dst dn0|proc timer].
      + destruct (sget N.compare dst (sn_loc (y_net s))) as [dn|]; [|discriminate H].
        destruct (node_crashed s dn) as [c|]; cbn [bind] in *; [|discriminate H].
        destruct c; [exact (IH _ _ _ HR H)|].
        bind_inv H x E. destruct x as [a' i].
        destruct (H_push _ _ _ _ _ HR E) as (s' & E1 & HR'). rewrite E1. cbn [bind]. exact (IH _ _ _ HR' H).
      + bind_inv H x E. destruct x as [a' i].
        destruct (H_push _ _ _ _ _ HR E) as (s' & E1 & HR'). rewrite E1. cbn [bind]. exact (IH _ _ _ HR' H).
  Qed.

  Lemma snapshot_lift (s : simsys) (m2 : @mcsys T SE2 PS) :
    snapshot ops so2 s = Ok m2 -> exists m1, snapshot ops so1 s = Ok m1 /\ SysR Rs m1 m2.
  Proof.
    intros H. destruct (snapshot_inv ops so2 s m2 H) as (st2 & E & ->).
    destruct (snap_events_lift s _ _ _ _ H_empty E) as (st1 & E1 & HR).
    unfold snapshot. rewrite E1. cbn [bind]. eexists. split; [reflexivity|].
    constructor; cbn [s_nodes s_net s_depth s_mf s_trace s_events]; try reflexivity. exact HR.
  Qed.
End SnapLift.

Section SnapRelated.
  Context {T : Type} (ops : time_ops T).
  Context {PS : Type}.
  Variable tle : T -> T -> bool.
  Variable store_eqb : (T -> T -> bool) -> store T -> store T -> bool.
  Variable sevent_eqb : (T -> T -> bool) -> sevent T -> sevent T -> bool.
  Notation simsys := (@simsys T PS).
  Notation soC := (concrete_ops tle store_eqb).
  Notation soR := (abstract_ops tle sevent_eqb).

  (* S5 *)
  Theorem snapshot_related (s : simsys) (mr : @mcsys T (astore T) PS) :
    snapshot ops soR s = Ok mr ->
    exists mc, snapshot ops soC s = Ok mc /\ SysR (R tle) mc mr.
  Proof.
    apply (snapshot_lift ops soC soR (R tle)).
    - intros st a e a' i. apply (c_push tle store_eqb sevent_eqb).
    - apply (c_empty tle store_eqb sevent_eqb).
  Qed.

  Corollary snapshot_related_both (s : simsys) mc (mr : @mcsys T (astore T) PS) :
    snapshot ops soC s = Ok mc -> snapshot ops soR s = Ok mr -> SysR (R tle) mc mr.
  Proof.
    intros Hc Hr. destruct (snapshot_related s mr Hr) as (mc' & Hc' & HR). rewrite Hc in Hc'. inversion Hc'. exact HR.
  Qed.
End SnapRelated.

(* ================================================================================================ *)
(* 5. S4: pending timers of one process are released in their real firing order                      *)
(* ================================================================================================ *)
Lemma nseq_sorted len : forall start, StronglySorted N.lt (nseq start len).
Proof.
  induction len as [|k IH]; intros start; cbn [nseq]; constructor; [apply IH|].
  apply Forall_forall. intros x Hx. apply in_nseq in Hx. lia.
Qed.

Section SnapTimers.
  Context {T : Type} (ops : time_ops T).
  Context {PS : Type}.
  Variable sevent_eqb : (T -> T -> bool) -> sevent T -> sevent T -> bool.
  Notation simsys := (@simsys T PS).
  Notation qevent := (@qevent T).
  Notation soR := (abstract_ops (tleb ops) sevent_eqb).
  Notation rsys := (@mcsys T (astore T) PS).
  Notation tle a b := (tleb ops a b = true).

  Hypothesis laws : time_laws ops.
  (* two laws of subtraction that are not part of Spec/TimeLaws.time_laws (they hold in z_ops: z_sub_laws below) *)
  Hypothesis sub_mono : forall a b c, tle a b -> tle (tsub ops a c) (tsub ops b c).

  Definition tdelay_le (x y : sevent T) : Prop :=
    match x, y with ETimer _ _ d1, ETimer _ _ d2 => tle d1 d2 | _, _ => True end.

  Lemma snap_of_cases (s : simsys) e : snap_of ops s e = [] \/ exists x, snap_of ops s e = [x].
  Proof.
    unfold snap_of. destruct (q_data e); [|right; eexists; reflexivity].
    destruct (sget N.compare dst (sn_loc (y_net s))) as [dn|]; [|left; reflexivity].
    destruct (sget N.compare dn (y_nodes s)) as [nd|]; [|left; reflexivity].
    destruct (sd_crashed nd); [left; reflexivity|right; eexists; reflexivity].
  Qed.

  Lemma flat_map_snap_sorted (s : simsys) l :
    StronglySorted (fun a b : qevent => tle (q_time a) (q_time b)) l ->
    StronglySorted tdelay_le (flat_map (snap_of ops s) l).
  Proof.
    induction 1 as [|e r Hs IH Hf]; cbn [flat_map]; [constructor|].
    destruct (snap_of_cases s e) as [E|[x E]]; rewrite E; cbn [app]; [exact IH|].
    constructor; [exact IH|]. apply Forall_forall. intros y Hy.
    apply in_flat_map in Hy. destruct Hy as (e' & He' & Hy).
    rewrite Forall_forall in Hf. specialize (Hf e' He').
    assert (Hx : In x (snap_of ops s e)) by (rewrite E; left; reflexivity).
    apply snap_of_msg in Hx. apply snap_of_msg in Hy.
    destruct x as [m src dst o|p n d]; [exact I|]. destruct y as [m' src' dst' o'|p' n' d']; [exact I|].
    cbn [tdelay_le]. destruct Hx as [_ ->]. destruct Hy as [_ ->]. apply sub_mono. exact Hf.
  Qed.

  (* S4 *)
  Theorem snapshot_timer_order (s : simsys) (mr : rsys) l1 l2 l3 i j p n1 n2 d1 d2 :
    snapshot ops soR s = Ok mr ->
    pend (s_events mr) = l1 ++ (i, ETimer p n1 d1) :: l2 ++ (j, ETimer p n2 d2) :: l3 ->
    tle d1 d2 /\ blocks (tleb ops) (ETimer p n1 d1) (ETimer p n2 d2) = true /\ i < j.
  Proof.
    intros H Hp.
    assert (Hok : forall e, In e (q_live (y_q s)) -> snap_ok s e).
    { apply (snapshot_ref_ok_iff ops (tleb ops) sevent_eqb). exists mr. exact H. }
    destruct (snapshot_events_ref ops (tleb ops) sevent_eqb s Hok) as (mr' & H' & _ & Hs & Hi & _).
    rewrite H in H'. inversion H'; subst mr'. cbv zeta in Hs, Hi.
    assert (Hd : tle d1 d2).
    { pose proof (flat_map_snap_sorted s _ (q_dump_time_sorted ops laws (y_q s))) as Hsort.
      rewrite <- Hs, Hp in Hsort. rewrite map_app in Hsort. cbn [map snd] in Hsort.
      apply strongly_sorted_mid in Hsort. rewrite map_app in Hsort. cbn [map snd] in Hsort.
      rewrite Forall_forall in Hsort. apply (Hsort (ETimer p n2 d2)). apply in_or_app. right. left. reflexivity. }
    split; [exact Hd|]. split.
    - cbn [blocks]. rewrite N.eqb_refl, Hd. reflexivity.
    - pose proof (nseq_sorted (length (flat_map (snap_of ops s) (q_dump ops (y_q s)))) 0) as Hsort.
      rewrite <- Hi, Hp in Hsort. rewrite map_app in Hsort. cbn [map fst] in Hsort.
      apply strongly_sorted_mid in Hsort. rewrite map_app in Hsort. cbn [map fst] in Hsort.
      rewrite Forall_forall in Hsort. apply (Hsort j). apply in_or_app. right. left. reflexivity.
  Qed.

  (* the order of the pending list is the firing order of the queue: the k-th pending event comes from the
     dump, which is sorted by (time, id) (q_dump_sorted) *)
  Theorem snapshot_pend_order (s : simsys) (mr : rsys) :
    snapshot ops soR s = Ok mr ->
    map snd (pend (s_events mr)) = flat_map (snap_of ops s) (q_dump ops (y_q s)) /\
    StronglySorted (key_le ops) (q_dump ops (y_q s)) /\
    StronglySorted N.lt (map fst (pend (s_events mr))).
  Proof.
    intros H.
    assert (Hok : forall e, In e (q_live (y_q s)) -> snap_ok s e).
    { apply (snapshot_ref_ok_iff ops (tleb ops) sevent_eqb). exists mr. exact H. }
    destruct (snapshot_events_ref ops (tleb ops) sevent_eqb s Hok) as (mr' & H' & _ & Hs & Hi & _).
    rewrite H in H'. inversion H'; subst mr'. cbv zeta in Hs, Hi.
    split; [exact Hs|]. split; [apply q_dump_sorted; exact laws|]. rewrite Hi. apply nseq_sorted.
  Qed.

  (* the recorded delay is the REMAINING delay: a timer set later (at checker "time" c' >= c) with delay d is
     withheld by the snapshot timer only if the snapshot timer would really fire first *)
  Hypothesis sub_add_le : forall t c d, tle (tsub ops t c) d -> tle t (tadd ops c d).

  Lemma remaining_no_stronger t c c' d :
    tle (tsub ops t c) d -> tle c c' -> tle t (tadd ops c' d).
  Proof.
    intros H1 H2. eapply (le_trans ops laws); [apply sub_add_le; exact H1|].
    apply (add_mono_l ops laws). exact H2.
  Qed.

  Theorem snapshot_timer_remaining (s : simsys) (mr : rsys) i p n dA :
    snapshot ops soR s = Ok mr -> In (i, ETimer p n dA) (pend (s_events mr)) ->
    exists eA, In eA (q_live (y_q s)) /\ q_data eA = QTimer p n /\
      dA = tsub ops (q_time eA) (q_clock (y_q s)) /\
      forall n' d c', blocks (tleb ops) (ETimer p n dA) (ETimer p n' d) = true ->
                      tle (q_clock (y_q s)) c' -> tle (q_time eA) (tadd ops c' d).
  Proof.
    intros H Hin. destruct (snapshot_pend_origin ops (tleb ops) sevent_eqb s mr i _ H Hin) as (eA & HA & Hx).
    apply snap_of_msg in Hx. destruct Hx as [Hd ->]. exists eA. split; [exact HA|]. split; [exact Hd|].
    split; [reflexivity|]. intros n' d c' Hb Hc. cbn [blocks] in Hb. apply andb_true_iff in Hb.
    destruct Hb as [_ Hb]. eapply remaining_no_stronger; [exact Hb|exact Hc].
  Qed.
End SnapTimers.

(* the two extra laws hold in the exact integer instance *)
Lemma z_sub_laws :
  (forall a b c, tleb z_ops a b = true -> tleb z_ops (tsub z_ops a c) (tsub z_ops b c) = true) /\
  (forall t c d, tleb z_ops (tsub z_ops t c) d = true -> tleb z_ops t (tadd z_ops c d) = true).
Proof.
  cbn. split.
  - intros a b c H. apply Z.leb_le in H. apply Z.leb_le. lia.
  - intros t c d H. apply Z.leb_le in H. apply Z.leb_le. lia.
Qed.

(* ================================================================================================ *)
(* 6. an additional invariant of the simulator, needed for S6                                        *)
(* ================================================================================================ *)
Section SnapInv.
  Context {T : Type} (ops : time_ops T).
  Context {PS : Type}.
  Variable handler : N -> PS -> input -> T -> (nat -> T) -> PS * list (action T) * nat.
  Variable init_state : N -> PS.
  Variable draws : nat -> T.
  Variable crash_order : list (@qevent T) -> list (@qevent T).

  Notation simq := (@simq T).
  Notation qevent := (@qevent T).
  Notation simnet := (@simnet T).
  Notation simnode := (@simnode T PS).
  Notation simsys := (@simsys T PS).
  Notation world := (@world T).
  Notation sim_op := (sim_op ops handler init_state draws crash_order).
  Notation Reachable := (Reachable ops handler init_state draws crash_order).
  Notation sstep := (sstep ops handler init_state draws crash_order).
  Notation sstar := (sstar ops handler init_state draws crash_order).
  Notation run_ops := (run_ops ops handler init_state draws crash_order).

  (* source and destination process of a message event are located *)
  Definition msg_located (loc : list (N * N)) (e : qevent) : Prop :=
    match q_data e with
    | QMsg _ _ src _ dst _ => shas N.compare src loc = true /\ shas N.compare dst loc = true
    | QTimer _ _ => True
    end.

  Record SnapInv (s : simsys) : Prop := {
    si_procs_sorted : forall nn nd, sget N.compare nn (y_nodes s) = Some nd -> ssorted N.compare (sd_procs nd);
    si_loc_sorted : ssorted N.compare (sn_loc (y_net s));
    si_loc_node : forall p n, sget N.compare p (sn_loc (y_net s)) = Some n -> shas N.compare n (y_nodes s) = true;
    si_msg_loc : forall e, In e (q_events (y_q s)) -> msg_located (sn_loc (y_net s)) e }.

  Lemma snapinv_sys0 : SnapInv (sys0 ops).
  Proof. constructor; cbn; try (intros; discriminate); try constructor; intros; contradiction. Qed.

  (* what a transition other than add_process does to the parts of the state the invariant talks about *)
  Record SFrame (s s' : simsys) : Prop := {
    sf_nodes : y_nodes s' = y_nodes s \/
               exists nname nd', y_nodes s' = sins N.compare nname nd' (y_nodes s) /\ ssorted N.compare (sd_procs nd');
    sf_loc : sn_loc (y_net s') = sn_loc (y_net s);
    sf_events : forall e, In e (q_events (y_q s')) -> In e (q_events (y_q s)) \/ msg_located (sn_loc (y_net s)) e }.

  Lemma snapinv_frame s s' : SnapInv s -> SFrame s s' -> SnapInv s'.
  Proof.
    intros [I1 I2 I3 I4] [F1 F2 F3]. constructor.
    - destruct F1 as [->|(nname & nd' & -> & Hs)]; [exact I1|].
      intros nn nd. rewrite sgetN_sins. destruct (N.eqb nn nname); [intros H; inv H; exact Hs|apply I1].
    - rewrite F2. exact I2.
    - rewrite F2. intros p n H. specialize (I3 p n H).
      destruct F1 as [->|(nname & nd' & -> & Hs)]; [exact I3|]. rewrite shas_sins_N, I3. apply orb_true_r.
    - rewrite F2. intros e He. destruct (F3 e He) as [H|H]; [apply I4; exact H|exact H].
  Qed.

  Lemma node_action_sframe nname nid proc time (p : pentry T PS) lc (w : world) a p' lc' w' :
    node_action ops draws nname nid proc time p lc w a = Ok (p', lc', w') ->
    sn_loc (w_net w') = sn_loc (w_net w) /\
    (forall e, In e (q_events (w_q w')) -> In e (q_events (w_q w)) \/ msg_located (sn_loc (w_net w)) e).
  Proof.
    destruct a as [m dst|m|name delay once|name]; cbn [Sim.node_action]; intros H.
    - sbinv. apply net_send_spec in E. destruct E as (sn & dn & sid & did & news & L1 & L2 & _ & _ & -> & G & _ & D & _).
      cbn [w_net w_q net_bump sn_loc]. split; [reflexivity|]. intros e He.
      rewrite (qg_events _ _ _ G) in He. apply in_app_or in He. destruct He as [He|He]; [left; exact He|right].
      destruct (D e He) as [[m' Hd] _]. unfold msg_located. rewrite Hd. unfold shas. rewrite L1, L2. split; reflexivity.
    - inv H. split; [reflexivity|]. intros e He. left. exact He.
    - assert (G : forall q0 q2 i, q_events q0 = q_events (w_q w) ->
                  q_add ops q0 (QTimer proc name) nid nid delay = Ok (q2, i) ->
                  forall e, In e (q_events q2) -> In e (q_events (w_q w)) \/ msg_located (sn_loc (w_net w)) e).
      { intros q0 q2 i E0 Ha e He. apply q_add_spec in Ha. destruct Ha as [_ ->].
        cbn [q_with q_events] in He. rewrite E0 in He. apply in_app_or in He.
        destruct He as [He|[<-|[]]]; [left; exact He|right]. unfold msg_located. cbn. exact I. }
      destruct (sget N.compare name (pe_ptimers p)) as [old|].
      + destruct once.
        * inv H. split; [reflexivity|]. intros e He. left. exact He.
        * sbinv. cbn [w_net w_q]. split; [reflexivity|]. eapply G; [|exact E]. reflexivity.
      + sbinv. cbn [w_net w_q]. split; [reflexivity|]. eapply G; [|exact E]. reflexivity.
    - destruct (sget N.compare name (pe_ptimers p)); inv H; (split; [reflexivity|]); intros e He; left; exact He.
  Qed.

  Lemma sframe_put (s : simsys) nname nd proc (pe : pentry T PS) lc (w : world) :
    SnapInv s -> sget N.compare nname (y_nodes s) = Some nd ->
    sn_loc (w_net w) = sn_loc (y_net s) ->
    (forall e, In e (q_events (w_q w)) -> In e (q_events (y_q s)) \/ msg_located (sn_loc (y_net s)) e) ->
    SFrame s (put_proc s nname nd proc pe lc w).
  Proof.
    intros I Hn Hl He. unfold put_proc, y_with. constructor; cbn [y_nodes y_net y_q].
    - right. exists nname, (nd_put nd proc pe lc). split; [reflexivity|]. cbn [nd_put sd_procs].
      apply (ssorted_sins _ CmpSpec_N). apply (si_procs_sorted _ I _ _ Hn).
    - exact Hl.
    - exact He.
  Qed.

  Lemma sframe_with_q (s : simsys) q' : q_shrink (y_q s) q' -> SFrame s (with_q s q').
  Proof.
    intros S. unfold with_q, y_with. constructor; cbn [y_nodes y_net y_q].
    - left. reflexivity.
    - reflexivity.
    - intros e He. left. apply (qs_events _ _ S). exact He.
  Qed.


  Lemma snapinv_pre_state s nname nd proc p k st' used :
    SnapInv s -> sget N.compare nname (y_nodes s) = Some nd ->
    SnapInv (pre_state s nname nd proc p k st' used).
  Proof.
    intros I Hn. eapply snapinv_frame; [exact I|]. unfold pre_state.
    apply sframe_put; [exact I|exact Hn|reflexivity|].
    cbn [w_q q_used q_with q_events]. intros e He. left. exact He.
  Qed.

  Lemma snapinv_add_process s proc node s' r :
    SnapInv s -> sim_op 0 s (YAddProcess proc node) = Ok (s', r) -> SnapInv s'.
  Proof.
    intros [I1 I2 I3 I4] H. cbn [Sim.sim_op] in H.
    destruct (sget N.compare node (y_nodes s)) as [nd|] eqn:Hn; [|discriminate].
    destruct (shas N.compare proc (y_proc_nodes s)); [discriminate|]. inv H.
    constructor; cbn [y_nodes y_net y_q sn_loc].
    - intros nn ndx. rewrite sgetN_sins. destruct (N.eqb nn node); [|apply I1].
      intros H; inv H. cbn [sd_procs]. apply (ssorted_sins _ CmpSpec_N). apply (I1 _ _ Hn).
    - apply (ssorted_sins _ CmpSpec_N). exact I2.
    - intros p n. rewrite sgetN_sins, shas_sins_N. destruct (N.eqb_spec p proc) as [->|Hne]; intros H.
      + inv H. rewrite N.eqb_refl. reflexivity.
      + rewrite (I3 _ _ H). apply orb_true_r.
    - intros e He. specialize (I4 e He). unfold msg_located in *. destruct (q_data e); [|exact I].
      rewrite !shas_sins_N. destruct I4 as [-> ->]. rewrite !orb_true_r. split; reflexivity.
  Qed.

  Lemma snapinv_basic s o s' r :
    BaseInv s -> SnapInv s -> is_basic o = true -> sim_op 0 s o = Ok (s', r) -> SnapInv s'.
  Proof.
    intros B I Hb H. destruct o; try discriminate Hb.
    - (* add node *)
      cbn [Sim.sim_op] in H. destruct (shas N.compare name (y_nodes s)); [discriminate|]. inv H.
      eapply snapinv_frame; [exact I|]. constructor; cbn [y_nodes y_net y_q sn_loc].
      + right. eexists _, _. split; [reflexivity|]. cbn [sd_procs]. constructor.
      + reflexivity.
      + intros e He. left. exact He.
    - eapply snapinv_add_process; eauto.
    - (* skew *)
      cbn [Sim.sim_op] in H. destruct (sget N.compare node (y_nodes s)) as [nd|] eqn:Hn; [|discriminate]. inv H.
      eapply snapinv_frame; [exact I|]. unfold y_with. constructor; cbn [y_nodes y_net y_q sn_loc].
      + right. eexists _, _. split; [reflexivity|]. cbn [sd_procs]. apply (si_procs_sorted _ I _ _ Hn).
      + reflexivity.
      + intros e He. left. exact He.
    - (* network control *)
      cbn [Sim.sim_op] in H. destruct (snet_apply (y_net s) (now s) o) as [n' logs] eqn:E. inv H.
      destruct (SimBaseP.snet_apply_ids _ _ _ _ _ E) as [E0 E1].
      eapply snapinv_frame; [exact I|]. unfold y_with. constructor; cbn [y_nodes y_net y_q].
      + left. reflexivity.
      + exact E1.
      + intros e He. left. exact He.
    - (* crash *)
      cbn [Sim.sim_op] in H. destruct (sget N.compare node (y_nodes s)) as [nd|] eqn:Hn; [|discriminate]. inv H.
      eapply snapinv_frame; [exact I|]. unfold set_handler, y_with. constructor; cbn [y_nodes y_net y_q].
      + right. eexists _, _. split; [reflexivity|]. cbn [sd_procs]. apply (si_procs_sorted _ I _ _ Hn).
      + reflexivity.
      + intros e He. left. exact He.
    - (* recover *)
      cbn [Sim.sim_op] in H. destruct (sget N.compare node (y_nodes s)) as [nd|] eqn:Hn; [|discriminate].
      destruct (negb (sd_crashed nd)); [discriminate|].
      eapply snapinv_frame; [exact I|].
      destruct (sget N.compare (sd_id nd) (y_handlers s)) as [[|]|]; inv H;
        (constructor; cbn [y_nodes y_net y_q set_handler];
         [right; eexists _, _; split; [reflexivity|]; cbn [sd_procs]; constructor
         |reflexivity
         |intros e He; left; exact He]).
  Qed.

  Theorem snapinv_sstep s lab s' : BaseInv s -> SnapInv s -> sstep s lab s' -> SnapInv s'.
  Proof.
    intros B I H. destruct H.
    - apply q_next_spec in H; [|apply (bi_q _ B)]. destruct H as [S _].
      eapply snapinv_frame; [exact I|]. apply sframe_with_q. exact S.
    - apply q_next_spec in H; [|apply (bi_q _ B)]. destruct H as [S _].
      apply snapinv_pre_state; auto. eapply snapinv_frame; [exact I|]. apply sframe_with_q. exact S.
    - apply snapinv_pre_state; auto.
    - unfold sys_action in H1. rewrite H in H1.
      destruct (sget N.compare proc (sd_procs nd)) as [p|] eqn:Hp; [|discriminate].
      destruct (node_action ops draws nname (sd_id nd) proc (q_clock (y_q s)) p (sd_lcount nd) (world_of s) a)
        as [[[p' lc'] w']|] eqn:E; [|discriminate].
      cbn [bind] in H1. inv H1. apply node_action_sframe in E. destruct E as [E1 E2].
      eapply snapinv_frame; [exact I|]. apply sframe_put; auto.
    - apply q_peek_spec in H. destruct H as [S _].
      eapply snapinv_frame; [exact I|]. apply sframe_with_q. exact S.
    - eapply snapinv_frame; [exact I|]. unfold set_clock, y_with. constructor; cbn [y_nodes y_net y_q q_with q_events].
      + left. reflexivity.
      + reflexivity.
      + intros e He. left. exact He.
    - unfold Sim.read_local, node_of_proc in H.
      destruct (sget N.compare p (y_proc_nodes s)) as [nname|]; [|discriminate].
      destruct (sget N.compare nname (y_nodes s)) as [nd|] eqn:Hn; [|discriminate].
      cbn [bind] in H.
      destruct (sget N.compare p (sd_procs nd)) as [pe|] eqn:Hp; [|discriminate].
      destruct (pe_outbox pe) as [|m l0]; inv H.
      eapply snapinv_frame; [exact I|]. unfold y_with. constructor; cbn [y_nodes y_net y_q].
      + right. eexists _, _. split; [reflexivity|]. cbn [sd_procs].
        apply (ssorted_sins _ CmpSpec_N). apply (si_procs_sorted _ I _ _ Hn).
      + reflexivity.
      + intros e He. left. exact He.
    - eapply snapinv_basic; eauto.
  Qed.

  Theorem snapinv_reachable s : Reachable s -> SnapInv s.
  Proof.
    apply (SimBaseP.reachable_inv ops handler init_state draws crash_order SnapInv).
    - apply snapinv_sys0.
    - intros s0 lab s1 B I H. eapply snapinv_sstep; eauto.
  Qed.
End SnapInv.

(* ================================================================================================ *)
(* 7. S6: the reference snapshot of a reachable simulator state is well-formed (RefWf.AWf)           *)
(* ================================================================================================ *)
Section SnapAwf.
  Context {T : Type} (ops : time_ops T).
  Context {PS : Type}.
  Variable tle : T -> T -> bool.
  Variable sevent_eqb : (T -> T -> bool) -> sevent T -> sevent T -> bool.
  Notation simsys := (@simsys T PS).
  Notation qevent := (@qevent T).
  Notation soR := (abstract_ops tle sevent_eqb).
  Notation rsys := (@mcsys T (astore T) PS).

  (* every located process is installed on its node.  NOT an invariant of the simulator: recover_node clears
     the processes of the node but Network::proc_locations keeps their entries (see the header) *)
  Definition Installed (s : simsys) : Prop :=
    forall p n, sget N.compare p (sn_loc (y_net s)) = Some n ->
                exists nd, sget N.compare n (y_nodes s) = Some nd /\ shas N.compare p (sd_procs nd) = true.

  (* the processes the checker's handlers may send to: those the network knows *)
  Definition known_of (s : simsys) : list N := map fst (sn_loc (y_net s)).

  Lemma snap_ok_inv (s : simsys) : SnapInv s -> forall e, In e (q_live (y_q s)) -> snap_ok s e.
  Proof.
    intros SI e He. apply in_q_live in He. destruct He as [He _].
    pose proof (si_msg_loc _ SI e He) as Hm. unfold msg_located in Hm. unfold snap_ok.
    destruct (q_data e) as [mid m src sn dst dn0|proc timer]; [|exact I].
    destruct Hm as [_ Hd]. apply shas_sget in Hd. destruct Hd as [dn Hd].
    pose proof (si_loc_node _ SI _ _ Hd) as Hn. apply shas_sget in Hn. destruct Hn as [nd Hn].
    exists dn, nd. split; [exact Hd|exact Hn].
  Qed.

  Theorem snapshot_awf_inv (s : simsys) :
    BaseInv s -> TimerInv s -> Inv s -> SnapInv s -> Installed s ->
    exists mr : rsys, snapshot ops soR s = Ok mr /\ AWf (known_of s) mr.
  Proof.
    intros B TI CI SI HI.
    pose proof (snap_ok_inv s SI) as Hok.
    destruct (snapshot_events_ref ops tle sevent_eqb s Hok) as (mr & Hm & _ & Hsnd & Hfst & Hnext & Hamap & _).
    cbv zeta in Hsnd, Hfst, Hnext, Hamap.
    exists mr. split; [exact Hm|].
    destruct (snapshot_nodes ops soR s mr Hm) as (Hnodes & _ & _ & _ & Hnet).
    assert (Hlook : forall nn, sget N.compare nn (s_nodes mr) = option_map snap_node (sget N.compare nn (y_nodes s))).
    { intros nn. rewrite Hnodes. apply sget_snap_nodes. }
    assert (Hlook' : forall nn nd, sget N.compare nn (s_nodes mr) = Some nd ->
                       exists nd0, sget N.compare nn (y_nodes s) = Some nd0 /\ nd = snap_node nd0).
    { intros nn nd H. rewrite Hlook in H. destruct (sget N.compare nn (y_nodes s)) as [nd0|]; [|discriminate H].
      inversion H. exists nd0. split; reflexivity. }
    assert (Hloc : n_loc (s_net mr) = sn_loc (y_net s)) by (rewrite Hnet; reflexivity).
    unfold AWf, AWfC. split; [|split; [|split; [|split]]].
    - (* Place *)
      unfold Place. rewrite Hloc. split; [|split; [|split; [|split]]].
      + rewrite Hnodes. apply ssorted_snap_nodes. apply (bi_nodes_sorted _ B).
      + intros nn nd H. destruct (Hlook' nn nd H) as (nd0 & H0 & ->). cbn [snap_node nd_procs].
        apply (si_procs_sorted _ SI _ _ H0).
      + apply (si_loc_sorted _ SI).
      + intros p nn. split.
        * intros H. destruct (HI p nn H) as (nd0 & H0 & Hp). exists (snap_node nd0).
          rewrite Hlook, H0. split; [reflexivity|exact Hp].
        * intros (nd & H & Hp). destruct (Hlook' nn nd H) as (nd0 & H0 & ->). cbn [snap_node nd_procs] in Hp.
          apply shas_sget in Hp. destruct Hp as [pe Hp].
          apply (bi_loc _ B). apply (bi_proc_fwd _ B _ _ _ _ H0 Hp).
      + intros p Hp. apply (shas_in N.compare CmpSpec_N). exact Hp.
    - (* AInv *)
      unfold AInv. split.
      + rewrite Hfst. apply nseq_nodup.
      + apply Forall_forall. intros [i e] Hin. cbn [fst]. rewrite Hnext.
        assert (Hi : In i (map fst (pend (s_events mr)))) by (apply in_map_iff; exists (i, e); split; [reflexivity|exact Hin]).
        rewrite Hfst in Hi. apply in_nseq in Hi. lia.
    - (* EvOK *)
      intros i x Hin. destruct (snapshot_pend_origin ops tle sevent_eqb s mr i x Hm Hin) as (e & He & Hx).
      apply snap_of_msg in Hx. pose proof He as He'. apply in_q_live in He'. destruct He' as [Hev _].
      destruct x as [m src dst o|p n d]; cbn [EvWf].
      + destruct Hx as (_ & (mid & sn & dn0 & Hd) & (dn & nd0 & H1 & H2 & H3)).
        pose proof (si_msg_loc _ SI e Hev) as Hml. unfold msg_located in Hml. rewrite Hd in Hml.
        rewrite Hloc. split; [apply Hml|].
        exists dn, (snap_node nd0). rewrite Hloc, Hlook, H2. split; [exact H1|]. split; [reflexivity|exact H3].
      + destruct Hx as [Hd _].
        pose proof (qi_ok _ _ (inv_q _ CI) e Hev) as Hq. unfold ev_ok, ev_ok_parts in Hq. rewrite Hd in Hq.
        destruct Hq as [_ [name Hname]]. rewrite (bi_node_ids _ B) in Hname.
        destruct (sget N.compare name (y_nodes s)) as [nd0|] eqn:H0; [|discriminate Hname].
        cbn [option_map] in Hname. inversion Hname as [Hid].
        destruct (sd_crashed nd0) eqn:Hc.
        * exfalso. apply (ti_crashed _ TI _ _ _ _ _ H0 Hc He Hd). symmetry. exact Hid.
        * destruct (ti_live_pending _ TI _ _ _ _ _ H0 Hc He Hd (eq_sym Hid)) as (pe & Hp & _).
          exists name, (snap_node nd0). rewrite Hloc, Hlook, H0. split; [|split; [reflexivity|exact Hc]].
          apply (bi_loc _ B). apply (bi_proc_fwd _ B _ _ _ _ H0 Hp).
    - (* Disc *)
      intros nn nd H Hc. destruct (Hlook' nn nd H) as (nd0 & H0 & ->). cbn [snap_node nd_crashed] in Hc.
      rewrite Hnet. apply (snapshot_crashed_disconnected s nn nd0 (bi_nodes_sorted _ B) H0 Hc).
    - (* Tim *)
      intros nn nd p pe H Hc Hp n Hn. destruct (Hlook' nn nd H) as (nd0 & H0 & ->).
      cbn [snap_node nd_crashed nd_procs] in Hc, Hp.
      apply shas_sget in Hn. destruct Hn as [i0 Hn].
      destruct (ti_pending_live _ TI _ _ _ _ _ _ H0 Hc Hp Hn) as (e & He & _ & Hd & _).
      destruct (snapshot_pend_complete ops tle sevent_eqb s mr e
                  (ETimer p n (tsub ops (q_time e) (q_clock (y_q s)))) Hm He) as [i Hi].
      { rewrite (snap_of_timer ops s e p n Hd). left. reflexivity. }
      destruct (Hamap _ _ _ _ Hi) as (j & d' & H1 & H2). exists j, d'. split; [exact H1|exact H2].
  Qed.
End SnapAwf.

(* ================================================================================================ *)
(* 8. the side condition `Installed`: when it holds, when it fails                                   *)
(* ================================================================================================ *)
Section Registered.
  Context {T : Type} (ops : time_ops T).
  Context {PS : Type}.
  Variable handler : N -> PS -> input -> T -> (nat -> T) -> PS * list (action T) * nat.
  Variable init_state : N -> PS.
  Variable draws : nat -> T.
  Variable crash_order : list (@qevent T) -> list (@qevent T).
  Notation simsys := (@simsys T PS).
  Notation sim_op := (sim_op ops handler init_state draws crash_order).
  Notation Reachable := (Reachable ops handler init_state draws crash_order).
  Notation sstep := (sstep ops handler init_state draws crash_order).
  Notation sstar := (sstar ops handler init_state draws crash_order).
  Notation run_ops := (run_ops ops handler init_state draws crash_order).

  (* every process the network knows is registered in System::proc_nodes (the map recover_node prunes) *)
  Definition Registered (s : simsys) : Prop :=
    forall p, shas N.compare p (sn_loc (y_net s)) = true -> shas N.compare p (y_proc_nodes s) = true.

  Lemma installed_iff_registered (s : simsys) : BaseInv s -> (Installed s <-> Registered s).
  Proof.
    intros B. split.
    - intros HI p Hp. apply shas_sget in Hp. destruct Hp as [n Hp].
      destruct (HI p n Hp) as (nd & Hn & Hq). apply shas_sget in Hq. destruct Hq as [pe Hq].
      apply shas_sget. exists n. apply (bi_proc_fwd _ B _ _ _ _ Hn Hq).
    - intros HR p n Hp.
      assert (Hs : shas N.compare p (sn_loc (y_net s)) = true) by (apply shas_sget; exists n; exact Hp).
      apply HR in Hs. apply shas_sget in Hs. destruct Hs as [n' Hs].
      pose proof (bi_loc _ B _ _ Hs) as Hl. rewrite Hp in Hl. inversion Hl; subst n'.
      destruct (bi_proc_bwd _ B _ _ Hs) as (nd & pe & Hn & Hq). exists nd. split; [exact Hn|].
      apply shas_sget. exists pe. exact Hq.
  Qed.

  Lemma registered_same (s s' : simsys) :
    sn_loc (y_net s') = sn_loc (y_net s) -> y_proc_nodes s' = y_proc_nodes s -> Registered s -> Registered s'.
  Proof. unfold Registered. intros -> ->. auto. Qed.

  (* the two maps involved change only in add_process and recover_node *)
  Lemma sstep_reg_frame s lab s' :
    sstep s lab s' ->
    (sn_loc (y_net s') = sn_loc (y_net s) /\ y_proc_nodes s' = y_proc_nodes s) \/
    (exists proc node, lab = LOp (YAddProcess proc node)) \/ (exists node, lab = LOp (YRecover node)).
  Proof.
    intros H. destruct H.
    - left. split; reflexivity.
    - left. split; reflexivity.
    - left. split; reflexivity.
    - unfold sys_action in H1. rewrite H in H1.
      destruct (sget N.compare proc (sd_procs nd)) as [p|] eqn:Hp; [|discriminate].
      destruct (node_action ops draws nname (sd_id nd) proc (q_clock (y_q s)) p (sd_lcount nd) (world_of s) a)
        as [[[p' lc'] w']|] eqn:E; [|discriminate].
      cbn [bind] in H1. inv H1. apply node_action_sframe in E. destruct E as [E1 _].
      left. split; [exact E1|reflexivity].
    - left. split; reflexivity.
    - left. split; reflexivity.
    - unfold Sim.read_local, node_of_proc in H.
      destruct (sget N.compare p (y_proc_nodes s)) as [nname|]; [|discriminate].
      destruct (sget N.compare nname (y_nodes s)) as [nd|] eqn:Hn; [|discriminate].
      cbn [bind] in H.
      destruct (sget N.compare p (sd_procs nd)) as [pe|] eqn:Hp; [|discriminate].
      destruct (pe_outbox pe) as [|m l0]; inv H; left; split; reflexivity.
    - destruct o; try discriminate H; cbn [Sim.sim_op] in H0.
      + destruct (shas N.compare name (y_nodes s)); [discriminate|]. inv H0. left. split; reflexivity.
      + right. left. exists proc, node. reflexivity.
      + destruct (sget N.compare node (y_nodes s)) as [nd|] eqn:Hn; [|discriminate]. inv H0. left. split; reflexivity.
      + destruct (snet_apply (y_net s) (now s) o) as [n' logs] eqn:E. inv H0.
        destruct (SimBaseP.snet_apply_ids _ _ _ _ _ E) as [E0 E1]. left. split; [exact E1|reflexivity].
      + destruct (sget N.compare node (y_nodes s)) as [nd|] eqn:Hn; [|discriminate]. inv H0. left. split; reflexivity.
      + right. right. exists node. reflexivity.
  Qed.

  (* add_process registers and locates the new process, nothing else *)
  Theorem add_process_registers s proc node s' r q :
    sim_op 0 s (YAddProcess proc node) = Ok (s', r) ->
    shas N.compare q (sn_loc (y_net s')) = (N.eqb q proc || shas N.compare q (sn_loc (y_net s))) /\
    shas N.compare q (y_proc_nodes s') = (N.eqb q proc || shas N.compare q (y_proc_nodes s)).
  Proof.
    intros H. cbn [Sim.sim_op] in H.
    destruct (sget N.compare node (y_nodes s)) as [nd|] eqn:Hn; [|discriminate].
    destruct (shas N.compare proc (y_proc_nodes s)); [discriminate|]. inv H.
    cbn [y_net y_proc_nodes sn_loc]. rewrite !shas_sins_N. split; reflexivity.
  Qed.

  (* recover_node keeps the locations and unregisters exactly the processes of the node *)
  Theorem recover_registered_exact s node s' r q :
    BaseInv s -> sim_op 0 s (YRecover node) = Ok (s', r) ->
    sn_loc (y_net s') = sn_loc (y_net s) /\
    shas N.compare q (y_proc_nodes s') =
      match sget N.compare q (y_proc_nodes s) with Some x => negb (N.eqb x node) | None => false end.
  Proof.
    intros B H. cbn [Sim.sim_op] in H.
    destruct (sget N.compare node (y_nodes s)) as [nd|] eqn:Hn; [|discriminate].
    destruct (negb (sd_crashed nd)) eqn:Hc; [discriminate|].
    assert (Hs : y_net s' = y_net s /\
                 y_proc_nodes s' = filter (fun pn => negb (N.eqb (snd pn) node)) (y_proc_nodes s)).
    { destruct (sget N.compare (sd_id nd) (y_handlers s)) as [[|]|]; inv H; split; reflexivity. }
    destruct Hs as (E1 & E2). rewrite E1, E2. split; [reflexivity|].
    unfold shas. rewrite (sget_filter _ CmpSpec_N) by apply (bi_pn_sorted _ B).
    destruct (sget N.compare q (y_proc_nodes s)) as [x|]; [|reflexivity]. cbn [snd].
    destruct (negb (N.eqb x node)); reflexivity.
  Qed.

  (* every transition except recover_node keeps Registered *)
  Theorem registered_sstep s lab s' :
    sstep s lab s' -> (forall n, lab <> LOp (YRecover n)) -> Registered s -> Registered s'.
  Proof.
    intros H Hnr HR. destruct (sstep_reg_frame s lab s' H) as [[E1 E2]|[(proc & node & ->)|(node & ->)]].
    - eapply registered_same; [exact E1|exact E2|exact HR].
    - inversion H as [| | | | | | |s0 o s1 r Hb Hop]; subst.
      intros q. destruct (add_process_registers _ _ _ _ _ q Hop) as [-> ->].
      destruct (N.eqb q proc); [reflexivity|]. cbn [orb]. apply HR.
    - exfalso. apply (Hnr node). reflexivity.
  Qed.

  Lemma registered_sstar s labs s' :
    sstar s labs s' -> (forall n, ~ In (LOp (YRecover n)) labs) -> Registered s -> Registered s'.
  Proof.
    induction 1 as [s0|s0 lab s1 l s2 Hst Hss IH]; intros Hnr HR; [exact HR|].
    apply IH.
    - intros n Hin. apply (Hnr n). apply in_or_app. right. exact Hin.
    - eapply registered_sstep; [exact Hst| |exact HR].
      intros n ->. apply (Hnr n). apply in_or_app. left. left. reflexivity.
  Qed.

  Lemma in_run_reads_op (o : @sop T) : forall l rets, In (LOp o) (run_reads l rets) -> In o l.
  Proof.
    induction l as [|o0 l IH]; intros rets Hin; [destruct Hin|].
    destruct rets as [|r rets]; [destruct Hin|]. cbn [run_reads] in Hin. apply in_app_or in Hin.
    destruct Hin as [Hin|Hin]; [|right; exact (IH _ Hin)]. left.
    unfold reads_of in Hin. destruct (is_basic o0).
    - destruct Hin as [Heq|[]]. inversion Heq. reflexivity.
    - destruct o0, r; try destruct Hin as [Heq|[]]; try discriminate Heq;
        repeat match goal with
               | H : In _ (match ?x with _ => _ end) |- _ => destruct x
               | H : In _ [] |- _ => destruct H
               | H : In _ [_] |- _ => destruct H as [H|[]]; discriminate H
               end.
  Qed.

  (* a simulation that never called recover_node satisfies the side condition *)
  Theorem registered_no_recover fuel l s rets :
    run_ops fuel (sys0 ops) l = Ok (s, rets) -> (forall n, ~ In (YRecover n) l) -> Registered s /\ Installed s.
  Proof.
    intros H Hnr.
    pose proof (run_ops_sstar ops handler init_state draws crash_order fuel l _ _ _ (base_sys0 ops) H) as Hss.
    assert (HR : Registered s).
    { eapply registered_sstar; [exact Hss| |].
      - intros n Hin. apply (Hnr n). eapply in_run_reads_op. exact Hin.
      - intros p Hp. cbn in Hp. discriminate Hp. }
    split; [exact HR|]. apply installed_iff_registered; [|exact HR].
    apply (reachable_base ops handler init_state draws crash_order). exists fuel, l, rets. exact H.
  Qed.

  (* recover_node on a node that had processes breaks it: these processes stay located but are neither
     registered nor installed, until add_process re-adds them *)
  Theorem recover_unregisters s node s' r p :
    BaseInv s -> sim_op 0 s (YRecover node) = Ok (s', r) -> sget N.compare p (y_proc_nodes s) = Some node ->
    sget N.compare p (sn_loc (y_net s')) = Some node /\ shas N.compare p (y_proc_nodes s') = false /\
    (exists nd', sget N.compare node (y_nodes s') = Some nd' /\ sd_procs nd' = [] /\ sd_crashed nd' = false) /\
    ~ Installed s'.
  Proof.
    intros B H Hp. cbn [Sim.sim_op] in H.
    destruct (sget N.compare node (y_nodes s)) as [nd|] eqn:Hn; [|discriminate].
    destruct (negb (sd_crashed nd)) eqn:Hc; [discriminate|].
    assert (Hs : y_net s' = y_net s /\
                 y_proc_nodes s' = filter (fun pn => negb (N.eqb (snd pn) node)) (y_proc_nodes s) /\
                 y_nodes s' = sins N.compare node {| sd_id := sd_id nd; sd_procs := []; sd_skew := sd_skew nd;
                                                     sd_crashed := false; sd_lcount := sd_lcount nd |} (y_nodes s)).
    { destruct (sget N.compare (sd_id nd) (y_handlers s)) as [[|]|]; inv H; repeat split. }
    destruct Hs as (E1 & E2 & E3). rewrite E1, E2, E3.
    assert (Hl : sget N.compare p (sn_loc (y_net s)) = Some node) by (apply (bi_loc _ B); exact Hp).
    assert (Hnd : sget N.compare node
                    (sins N.compare node {| sd_id := sd_id nd; sd_procs := []; sd_skew := sd_skew nd;
                                            sd_crashed := false; sd_lcount := sd_lcount nd |} (y_nodes s)) =
                  Some {| sd_id := sd_id nd; sd_procs := []; sd_skew := sd_skew nd;
                          sd_crashed := false; sd_lcount := sd_lcount nd |}).
    { rewrite sgetN_sins, N.eqb_refl. reflexivity. }
    split; [exact Hl|]. split; [|split].
    - unfold shas. rewrite (sget_filter _ CmpSpec_N) by apply (bi_pn_sorted _ B). rewrite Hp. cbn [snd].
      rewrite N.eqb_refl. reflexivity.
    - eexists. split; [exact Hnd|]. split; reflexivity.
    - intros HI. unfold Installed in HI. rewrite E1, E3 in HI. destruct (HI p node Hl) as (nd' & H1 & H2).
      rewrite Hnd in H1. inversion H1; subst nd'. cbn in H2. discriminate H2.
  Qed.

End Registered.

(* S6 for reachable states *)
Section SnapAwfReach.
  Context {T : Type} (ops : time_ops T).
  Context {PS : Type}.
  Variable handler : N -> PS -> input -> T -> (nat -> T) -> PS * list (action T) * nat.
  Variable init_state : N -> PS.
  Variable draws : nat -> T.
  Variable crash_order : list (@qevent T) -> list (@qevent T).
  Variable tle : T -> T -> bool.
  Variable sevent_eqb : (T -> T -> bool) -> sevent T -> sevent T -> bool.
  Notation simsys := (@simsys T PS).
  Notation Reachable := (Reachable ops handler init_state draws crash_order).
  Notation soR := (abstract_ops tle sevent_eqb).

  Theorem snapshot_awf (s : simsys) :
    Reachable s -> Installed s ->
    exists mr : @mcsys T (astore T) PS, snapshot ops soR s = Ok mr /\ AWf (known_of s) mr.
  Proof.
    intros HR HI. apply snapshot_awf_inv; [| | | |exact HI].
    - apply (reachable_base ops handler init_state draws crash_order). exact HR.
    - apply (timer_reachable ops handler init_state draws crash_order). exact HR.
    - apply (SimCrashP.reachable_inv ops handler init_state draws crash_order). exact HR.
    - apply (snapinv_reachable ops handler init_state draws crash_order). exact HR.
  Qed.

  (* the snapshot itself always exists for a reachable state, installed or not *)
  Theorem snapshot_reachable_ok (s : simsys) :
    Reachable s -> exists mr : @mcsys T (astore T) PS, snapshot ops soR s = Ok mr.
  Proof.
    intros HR. apply snapshot_ref_ok_iff. apply snap_ok_inv.
    apply (snapinv_reachable ops handler init_state draws crash_order). exact HR.
  Qed.

  Corollary snapshot_awf_no_recover fuel l (s : simsys) rets :
    run_ops ops handler init_state draws crash_order fuel (sys0 ops) l = Ok (s, rets) ->
    (forall n, ~ In (YRecover n) l) ->
    exists mr : @mcsys T (astore T) PS, snapshot ops soR s = Ok mr /\ AWf (known_of s) mr.
  Proof.
    intros H Hnr. apply snapshot_awf.
    - exists fuel, l, rets. exact H.
    - apply (registered_no_recover ops handler init_state draws crash_order fuel l s rets H Hnr).
  Qed.
End SnapAwfReach.

(* ================================================================================================ *)
(* 8b. S3, name map: with the timer invariant every live timer is mapped to exactly its new id       *)
(* ================================================================================================ *)
Section AmapExact.
  Context {T : Type} (ops : time_ops T).
  Context {PS : Type}.
  Variable tle : T -> T -> bool.
  Variable sevent_eqb : (T -> T -> bool) -> sevent T -> sevent T -> bool.
  Notation simsys := (@simsys T PS).
  Notation qevent := (@qevent T).
  Notation soR := (abstract_ops tle sevent_eqb).
  Notation rsys := (@mcsys T (astore T) PS).

  Definition timer_keys (l : list (sevent T)) : list (N * N) :=
    flat_map (fun x => match x with ETimer p n _ => [(p, n)] | EMsg _ _ _ _ => [] end) l.

  Lemma timer_keys_app l1 l2 : timer_keys (l1 ++ l2) = timer_keys l1 ++ timer_keys l2.
  Proof. unfold timer_keys. apply flat_map_app. Qed.

  Lemma in_timer_keys p n l : In (p, n) (timer_keys l) <-> exists d, In (ETimer p n d) l.
  Proof.
    unfold timer_keys. rewrite in_flat_map. split.
    - intros (x & Hx & Hk). destruct x as [m src dst o|p' n' d]; [destruct Hk|].
      destruct Hk as [Heq|[]]. inversion Heq; subst. exists d. exact Hx.
    - intros [d Hd]. exists (ETimer p n d). split; [exact Hd|]. left. reflexivity.
  Qed.

  (* at most one live timer event per (process, name) *)
  Definition TimersUnique (s : simsys) : Prop :=
    forall e1 e2 p n, In e1 (q_live (y_q s)) -> In e2 (q_live (y_q s)) ->
                      q_data e1 = QTimer p n -> q_data e2 = QTimer p n -> e1 = e2.

  Lemma snap_keys_nodup (s : simsys) (l : list qevent) :
    NoDup l ->
    (forall e1 e2 p n, In e1 l -> In e2 l -> q_data e1 = QTimer p n -> q_data e2 = QTimer p n -> e1 = e2) ->
    NoDup (timer_keys (flat_map (snap_of ops s) l)).
  Proof.
    induction l as [|e r IH]; intros Hnd Hu; cbn [flat_map]; [constructor|].
    rewrite timer_keys_app. apply NoDup_cons_iff in Hnd. destruct Hnd as [Hni Hnd].
    assert (IHr : NoDup (timer_keys (flat_map (snap_of ops s) r))).
    { apply IH; [exact Hnd|]. intros e1 e2 p n H1 H2. apply Hu; right; assumption. }
    destruct (q_data e) as [mid m src sn dst dn0|p n] eqn:Hd.
    - assert (Hk : timer_keys (snap_of ops s e) = []).
      { unfold snap_of. rewrite Hd. destruct (sget N.compare dst (sn_loc (y_net s))) as [dn|]; [|reflexivity].
        destruct (sget N.compare dn (y_nodes s)) as [nd|]; [|reflexivity]. destruct (sd_crashed nd); reflexivity. }
      rewrite Hk. exact IHr.
    - rewrite (snap_of_timer ops s e p n Hd). cbn [timer_keys flat_map app]. constructor; [|exact IHr].
      intros Hin. apply in_timer_keys in Hin. destruct Hin as [d Hin]. apply in_flat_map in Hin.
      destruct Hin as (e' & He' & Hx). apply snap_of_msg in Hx. destruct Hx as [Hd' _].
      assert (e = e') by (apply (Hu e e' p n); [left; reflexivity|right; exact He'|exact Hd|exact Hd']).
      subst e'. apply Hni. exact He'.
  Qed.

  Lemma keys_nodup_inj (L : list (id * sevent T)) i j p n d d' :
    NoDup (timer_keys (map snd L)) -> In (i, ETimer p n d) L -> In (j, ETimer p n d') L -> i = j /\ d = d'.
  Proof.
    induction L as [|[k x] r IH]; intros Hnd H1 H2; [destruct H1|].
    cbn [map snd] in Hnd. change (timer_keys (x :: map snd r)) with (timer_keys ([x] ++ map snd r)) in Hnd.
    rewrite timer_keys_app in Hnd.
    assert (Hr : NoDup (timer_keys (map snd r))).
    { clear -Hnd. induction (timer_keys [x]) as [|a l IHl]; [exact Hnd|]. apply IHl. cbn [app] in Hnd.
      apply NoDup_cons_iff in Hnd. tauto. }
    assert (Hx : forall i0 d0, In (i0, ETimer p n d0) r -> x <> ETimer p n d0 /\ forall d1, x <> ETimer p n d1).
    { intros i0 d0 Hin. assert (Hk : In (p, n) (timer_keys (map snd r))).
      { apply in_timer_keys. exists d0. apply in_map_iff. exists (i0, ETimer p n d0). split; [reflexivity|exact Hin]. }
      assert (G : forall d1, x <> ETimer p n d1).
      { intros d1 ->. cbn [timer_keys flat_map app] in Hnd. apply NoDup_cons_iff in Hnd. tauto. }
      split; [apply G|exact G]. }
    destruct H1 as [E1|H1], H2 as [E2|H2].
    - inversion E1; subst. inversion E2; subst. split; reflexivity.
    - inversion E1; subst. exfalso. destruct (Hx _ _ H2) as [_ G]. apply (G d). reflexivity.
    - inversion E2; subst. exfalso. destruct (Hx _ _ H1) as [_ G]. apply (G d'). reflexivity.
    - apply IH; assumption.
  Qed.

  Theorem snapshot_amap_exact (s : simsys) (mr : rsys) i p n d :
    NoDup (map q_id (q_events (y_q s))) -> TimersUnique s ->
    snapshot ops soR s = Ok mr -> In (i, ETimer p n d) (pend (s_events mr)) ->
    sget tkey_cmp (p, n) (amap (s_events mr)) = Some i.
  Proof.
    intros Hnd Hu Hm Hin.
    assert (Hok : forall e, In e (q_live (y_q s)) -> snap_ok s e).
    { apply (snapshot_ref_ok_iff ops tle sevent_eqb). exists mr. exact Hm. }
    destruct (snapshot_events_ref ops tle sevent_eqb s Hok) as (mr' & Hm' & _ & Hsnd & _ & _ & Hamap & _).
    rewrite Hm in Hm'. inversion Hm'; subst mr'. cbv zeta in Hsnd, Hamap.
    destruct (Hamap _ _ _ _ Hin) as (j & d' & Hg & Hj). rewrite Hg. f_equal.
    assert (Hk : NoDup (timer_keys (map snd (pend (s_events mr))))).
    { rewrite Hsnd. apply snap_keys_nodup.
      - apply (q_dump_nodup ops) in Hnd. apply NoDup_map_inv in Hnd. exact Hnd.
      - intros e1 e2 p0 n0 H1 H2. apply Hu; apply (in_q_dump ops); assumption. }
    destruct (keys_nodup_inj _ _ _ _ _ _ _ Hk Hin Hj) as [-> _]. reflexivity.
  Qed.
End AmapExact.

Section TimersUniqueReach.
  Context {T : Type} (ops : time_ops T).
  Context {PS : Type}.
  Variable handler : N -> PS -> input -> T -> (nat -> T) -> PS * list (action T) * nat.
  Variable init_state : N -> PS.
  Variable draws : nat -> T.
  Variable crash_order : list (@qevent T) -> list (@qevent T).
  Notation simsys := (@simsys T PS).
  Notation Reachable := (Reachable ops handler init_state draws crash_order).

  Lemma timers_unique_inv (s : simsys) : BaseInv s -> TimerInv s -> Inv s -> TimersUnique s.
  Proof.
    intros B TI CI e1 e2 p n H1 H2 D1 D2.
    assert (G : forall e, In e (q_live (y_q s)) -> q_data e = QTimer p n ->
                exists name nd pe, sget N.compare name (y_nodes s) = Some nd /\
                  sget N.compare p (sd_procs nd) = Some pe /\ sget N.compare n (pe_ptimers pe) = Some (q_id e)).
    { intros e He Hd. pose proof He as He'. apply in_q_live in He'. destruct He' as [Hev _].
      pose proof (qi_ok _ _ (inv_q _ CI) e Hev) as Hq. unfold ev_ok, ev_ok_parts in Hq. rewrite Hd in Hq.
      destruct Hq as [_ [name Hname]]. rewrite (bi_node_ids _ B) in Hname.
      destruct (sget N.compare name (y_nodes s)) as [nd0|] eqn:H0; [|discriminate Hname].
      cbn [option_map] in Hname. inversion Hname as [Hid].
      destruct (sd_crashed nd0) eqn:Hc.
      - exfalso. apply (ti_crashed _ TI _ _ _ _ _ H0 Hc He Hd). symmetry. exact Hid.
      - destruct (ti_live_pending _ TI _ _ _ _ _ H0 Hc He Hd (eq_sym Hid)) as (pe & Hp & Hn).
        exists name, nd0, pe. split; [exact H0|]. split; [exact Hp|exact Hn]. }
    destruct (G e1 H1 D1) as (nm1 & nd1 & pe1 & A1 & A2 & A3).
    destruct (G e2 H2 D2) as (nm2 & nd2 & pe2 & B1 & B2 & B3).
    pose proof (bi_proc_fwd _ B _ _ _ _ A1 A2) as F1. pose proof (bi_proc_fwd _ B _ _ _ _ B1 B2) as F2.
    rewrite F1 in F2. inversion F2; subst nm2. rewrite A1 in B1. inversion B1; subst nd2.
    rewrite A2 in B2. inversion B2; subst pe2. rewrite A3 in B3. inversion B3 as [Hid].
    apply (live_id_inj s e1 e2 B H1 H2 Hid).
  Qed.

  Theorem timers_unique_reachable (s : simsys) : Reachable s -> TimersUnique s.
  Proof.
    intros HR. apply timers_unique_inv.
    - apply (reachable_base ops handler init_state draws crash_order). exact HR.
    - apply (timer_reachable ops handler init_state draws crash_order). exact HR.
    - apply (SimCrashP.reachable_inv ops handler init_state draws crash_order). exact HR.
  Qed.

  Corollary snapshot_amap_reachable tle sevent_eqb (s : simsys) (mr : @mcsys T (astore T) PS) i p n d :
    Reachable s -> snapshot ops (abstract_ops tle sevent_eqb) s = Ok mr ->
    In (i, ETimer p n d) (pend (s_events mr)) -> sget tkey_cmp (p, n) (amap (s_events mr)) = Some i.
  Proof.
    intros HR. apply snapshot_amap_exact; [|apply timers_unique_reachable; exact HR].
    apply (qw_nodup _ _ (bi_q _ (reachable_base ops handler init_state draws crash_order s HR))).
  Qed.
End TimersUniqueReach.

(* the remaining delay of a snapshot timer is that of a live event that is not in the past (SimTimeP.TimeInv) *)
Section TimerFuture.
  Context {T : Type} (ops : time_ops T).
  Context {PS : Type}.
  Variable handler : N -> PS -> input -> T -> (nat -> T) -> PS * list (action T) * nat.
  Variable init_state : N -> PS.
  Variable draws : nat -> T.
  Variable crash_order : list (@qevent T) -> list (@qevent T).
  Hypothesis laws : time_laws ops.
  Notation simsys := (@simsys T PS).
  Notation Reachable := (Reachable ops handler init_state draws crash_order).

  Theorem snapshot_timer_future tle sevent_eqb (s : simsys) (mr : @mcsys T (astore T) PS) i p n d :
    Reachable s -> snapshot ops (abstract_ops tle sevent_eqb) s = Ok mr ->
    In (i, ETimer p n d) (pend (s_events mr)) ->
    exists eA, In eA (q_live (y_q s)) /\ q_data eA = QTimer p n /\
               d = tsub ops (q_time eA) (q_clock (y_q s)) /\ tleb ops (q_clock (y_q s)) (q_time eA) = true.
  Proof.
    intros HR Hm Hin. destruct (snapshot_pend_origin ops tle sevent_eqb s mr i _ Hm Hin) as (eA & HA & Hx).
    apply snap_of_msg in Hx. destruct Hx as [Hd ->]. exists eA. split; [exact HA|]. split; [exact Hd|].
    split; [reflexivity|].
    pose proof (SimTimeP.Reachable_TimeInv ops handler init_state draws crash_order laws s HR) as HT.
    apply (SimTimeP.qt_future _ _ HT eA HA).
  Qed.
End TimerFuture.

(* ================================================================================================ *)
(* 9. S7: the model checker started from the snapshot of a reachable simulator state                 *)
(* ================================================================================================ *)
Section SnapStart.
  Context {T : Type} (ops : time_ops T).
  Context {PS : Type}.
  (* the simulation *)
  Variable handlerS : N -> PS -> input -> T -> (nat -> T) -> PS * list (action T) * nat.
  Variable init_state : N -> PS.
  Variable draws : nat -> T.
  Variable crash_order : list (@qevent T) -> list (@qevent T).
  (* the checker *)
  Variable tle : T -> T -> bool.
  Variable store_eqb : (T -> T -> bool) -> store T -> store T -> bool.
  Variable sevent_eqb : (T -> T -> bool) -> sevent T -> sevent T -> bool.
  Variable tgt0 : T -> bool.
  Variable teq0 : T -> bool.
  Variable t0 : T.
  Variable clock : N -> T -> T.
  Variable handlerM : N -> PS -> input -> T -> (nat -> T) -> PS * list (action T).
  Variable DS : Type.
  Variable mc_rand : DS -> nat -> T.
  Variable ds_of1 : @mcstate T (store T) PS -> DS.
  Variable ds_of2 : @mcstate T (astore T) PS -> DS.
  Hypothesis H_ds : forall st1 st2, StR (R tle) st1 st2 -> ds_of1 st1 = ds_of2 st2.

  Notation simsys := (@simsys T PS).
  Notation Reachable := (Reachable ops handlerS init_state draws crash_order).
  Notation soC := (concrete_ops tle store_eqb).
  Notation soR := (abstract_ops tle sevent_eqb).
  Notation csys := (@mcsys T (store T) PS).
  Notation rsys := (@mcsys T (astore T) PS).
  Notation CSteps' := (CSteps tle store_eqb tgt0 teq0 t0 clock handlerM DS mc_rand ds_of1).
  Notation RSteps := (RefWf.Steps tgt0 teq0 t0 clock handlerM DS mc_rand ds_of2 tle sevent_eqb).
  Notation takeC := (take_choice soC tgt0 teq0 t0 clock handlerM DS mc_rand ds_of1).

  (* the concrete snapshot of a reachable state exists and is related to a well-formed reference configuration *)
  Theorem snapshot_start (s : simsys) :
    Reachable s -> Installed s ->
    exists (mc : csys) (mr : rsys),
      snapshot ops soC s = Ok mc /\ snapshot ops soR s = Ok mr /\ SysR (R tle) mc mr /\ AWf (known_of s) mr.
  Proof.
    intros HR HI.
    destruct (snapshot_awf ops handlerS init_state draws crash_order tle sevent_eqb s HR HI) as (mr & Hr & HW).
    destruct (snapshot_related ops tle store_eqb sevent_eqb s mr Hr) as (mc & Hc & Hrel).
    exists mc, mr. split; [exact Hc|]. split; [exact Hr|]. split; [exact Hrel|exact HW].
  Qed.

  (* S7 *)
  Theorem snapshot_start_ok (s : simsys) (mc s' : csys) :
    Reachable s -> Installed s ->
    (forall proc st inp time rand m dst,
       In (ASend m dst) (snd (handlerM proc st inp time rand)) -> In dst (known_of s)) ->
    snapshot ops soC s = Ok mc ->
    CSteps' mc s' ->
    exists mr : rsys, snapshot ops soR s = Ok mr /\
      (exists A', RSteps mr A' /\ SysR (R tle) s' A' /\ AWf (known_of s) A') /\
      (exists cs, all_choices soC s' = Ok cs /\ forall c, In c cs -> exists s'', takeC s' c = Ok s'').
  Proof.
    intros HR HI Hclosed Hc Hsteps.
    destruct (snapshot_start s HR HI) as (mc' & mr & Hc' & Hr & Hrel & HW).
    rewrite Hc in Hc'. inversion Hc'; subst mc'. exists mr. split; [exact Hr|]. split.
    - exact (csteps_ref tle store_eqb sevent_eqb tgt0 teq0 t0 clock handlerM DS mc_rand ds_of1 ds_of2 H_ds
               (known_of s) Hclosed mc s' mr Hrel HW Hsteps).
    - exact (csteps_no_panic tle store_eqb sevent_eqb tgt0 teq0 t0 clock handlerM DS mc_rand ds_of1 ds_of2 H_ds
               (known_of s) Hclosed mc s' mr Hrel HW Hsteps).
  Qed.
End SnapStart.

(* ================================================================================================ *)
(* 10. why `Installed` is needed: concrete instances over z_ops                                      *)
(* ================================================================================================ *)
Module SnapEx.
  Definition m0 : msg := {| tip := [1]; data := [] |}.
  (* simulator handler: on a local message send m0 to process 5 *)
  Definition hS (p : N) (st : unit) (i : input) (t : Z) (r : nat -> Z) : unit * list (action Z) * nat :=
    match i with InLocal _ => (tt, [ASend m0 5], O) | _ => (tt, [], O) end.
  Definition hM (p : N) (st : unit) (i : input) (t : Z) (r : nat -> Z) : unit * list (action Z) := (tt, []).
  Definition run l := run_ops z_ops hS (fun _ => tt) (fun _ => 0%Z) (fun l => l) 5 (sys0 z_ops) l.
  Definition st_of (r : result (@simsys Z unit * list sret)) : @simsys Z unit :=
    match r with Ok (s, _) => s | Panic _ => sys0 z_ops end.
  Definition soR := abstract_ops Z.leb (fun _ _ _ => true).
  Definition soC := concrete_ops Z.leb (fun _ _ _ => true).
  Notation ReachableEx := (Reachable z_ops hS (fun _ => tt) (fun _ => 0%Z) (fun l => l)).

  (* (a) node 1 with process 5 is crashed and recovered: 5 stays located on node 1, node 1 has no process *)
  Definition script1 : list (@sop Z) := [YAddNode 1; YAddProcess 5 1; YCrash 1; YRecover 1].
  Definition s1 := st_of (run script1).
  Definition mr1 : @mcsys Z (astore Z) unit :=
    {| s_nodes := [(1, {| nd_procs := []; nd_skew := 0%Z; nd_crashed := false |})];
       s_net := {| n_corrupt := 0%Z; n_dupl := 0%Z; n_drop := 0%Z; n_drop_in := []; n_drop_out := []; n_links := [];
                   n_loc := [(5, 1)]; n_maxdelay := 1%Z |};
       s_events := aempty; s_depth := 0; s_mf := false;
       s_trace := [LNodeStarted 0%Z 1 1; LProcessStarted 0%Z 1 5; LNodeCrashed 0%Z 1; LNodeRecovered 0%Z 1] |}.

  Lemma s1_reachable : ReachableEx s1.
  Proof. exists 5%nat, script1, [RetUnit; RetUnit; RetUnit; RetUnit]. vm_compute. reflexivity. Qed.

  Lemma s1_snapshot : snapshot z_ops soR s1 = Ok mr1.
  Proof. vm_compute. reflexivity. Qed.

  (* S6 without the side condition is FALSE: the snapshot of this reachable state is not AWf (clause Place) *)
  Lemma s1_not_awf : ~ AWf (known_of s1) mr1.
  Proof.
    intros [HP _]. destruct HP as (_ & _ & _ & Hiff & _).
    assert (H : sget N.compare 5 (n_loc (s_net mr1)) = Some 1) by reflexivity.
    apply Hiff in H. destruct H as (nd & H1 & H2). vm_compute in H1. inversion H1; subst nd.
    vm_compute in H2. discriminate H2.
  Qed.

  Lemma s1_not_installed : ~ Installed s1.
  Proof.
    intros HI. destruct (HI 5 1 eq_refl) as (nd & H1 & H2). vm_compute in H1. inversion H1; subst nd.
    vm_compute in H2. discriminate H2.
  Qed.

  (* (b) what goes wrong then: a message sent to process 5 while its node was down is still in flight after the
     recovery; delivering it panics in the simulator (Panic 63, node.rs: unknown process) and, from the snapshot,
     in the checker (Panic 42, mc/node.rs: unknown process) -- the same failure on both sides *)
  Definition script2 : list (@sop Z) :=
    [YAddNode 1; YAddNode 2; YAddProcess 5 1; YAddProcess 6 2; YCrash 1; YSendLocal 6 m0; YRecover 1].
  Definition s2 := st_of (run script2).

  Lemma s2_reachable : ReachableEx s2.
  Proof. exists 5%nat, script2, [RetUnit; RetUnit; RetUnit; RetUnit; RetUnit; RetUnit; RetUnit]. vm_compute. reflexivity. Qed.

  Lemma s2_live : q_live (y_q s2) =
    [{| q_id := 0; q_time := 1%Z; q_src := 2; q_dst := 1; q_data := QMsg 0 m0 6 2 5 1 |}].
  Proof. vm_compute. reflexivity. Qed.

  Lemma s2_sim_panics : sim_op z_ops hS (fun _ => tt) (fun _ => 0%Z) (fun l => l) 5 s2 YStep = Panic 63.
  Proof. vm_compute. reflexivity. Qed.

  Definition mc2 : @mcsys Z (store Z) unit :=
    match snapshot z_ops soC s2 with Ok mc => mc | Panic _ => init_sys (PS := unit) soC [] (snap_net s2) 0 false [] end.

  Lemma s2_snapshot : snapshot z_ops soC s2 = Ok mc2.
  Proof. vm_compute. reflexivity. Qed.

  Lemma s2_checker_panics :
    all_choices soC mc2 = Ok [ChDeliver 0] /\
    take_choice soC (Z.ltb 0) (Z.eqb 0) 0%Z (fun _ sk => sk) hM unit (fun _ _ => 0%Z) (fun _ => tt) mc2 (ChDeliver 0)
      = Panic 42.
  Proof. split; vm_compute; reflexivity. Qed.
End SnapEx.

Print Assumptions snapshot_nodes.
Print Assumptions snapshot_net.
Print Assumptions snapshot_events_ref.
Print Assumptions snapshot_ref_ok_iff.
Print Assumptions q_dump_perm.
Print Assumptions q_dump_sorted.
Print Assumptions snapshot_timer_order.
Print Assumptions snapshot_pend_order.
Print Assumptions snapshot_timer_remaining.
Print Assumptions snapshot_related.
Print Assumptions snapinv_reachable.
Print Assumptions snapshot_awf_inv.
Print Assumptions snapshot_awf.
Print Assumptions registered_no_recover.
Print Assumptions recover_unregisters.
Print Assumptions recover_registered_exact.
Print Assumptions registered_sstep.
Print Assumptions snapshot_amap_exact.
Print Assumptions snapshot_amap_reachable.
Print Assumptions snapshot_timer_future.
Print Assumptions snapshot_start.
Print Assumptions snapshot_start_ok.
Print Assumptions SnapEx.s1_not_awf.
Print Assumptions SnapEx.s2_checker_panics.
