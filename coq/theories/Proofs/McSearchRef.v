(* The graph the model checker's search walks (SearchCorrect.Reach over mc_expand, Model/McRun.v) versus the reference
   semantics (Spec/RefSys.v, RefWf.Steps): state by state, both directions.  Composes Proofs/McCompose.v
   (step_bisim_en, csteps_ref, steps_conc, expand_bisim) with Proofs/Restore.v (exact restore: mc_expand sys0 applied
   to the saved state of a system s of the frame of sys0 is expand_sys s).

   Setting (Section McSearchRef): soC := concrete_ops tleb store_eqb, soR := abstract_ops tleb sevent_eqb,
     Rel := SysR (R tleb), RelSt := StR (R tleb), WF := AWf known, RSteps := RefWf.Steps;
     hypotheses (those of McCompose): H_ds (ds_of and ds_of2 agree on related states), handler_closed (every send
     destination is a known process);  sys0 a concrete system with Rel sys0 A0, WF A0;  start := get_state sys0;
     ReachM := Reach over mc_expand sys0 with the verdict of the predicates pr.
   No hypothesis of EqBisim is needed here: this part is about the graph, not about the visited-state cache.

   Concrete side only (wf_sys sys0):
     mc_expand_char     wf_sys s -> same_frame sys0 s -> mc_expand sys0 (get_state s) = Ok l ->
                        exists cs, all_choices s = Ok cs /\ Forall2 (fun c st => exists s1, take_choice s c = Ok s1 /\ st = get_state s1) cs l
     reach_csteps       ReachM start x -> exists s', x = get_state s' /\ CSteps sys0 s' /\ wf_sys s' /\ same_frame sys0 s'
   With the reference configuration:
     mc_reach_ref       ReachM start x -> exists s' A', x = get_state s' /\ CSteps sys0 s' /\ RSteps A0 A' /\ Rel s' A' /\ WF A'
                        /\ RelSt x (get_state A')
                        ("every state the search evaluates the invariant on is the state of a configuration the
                          reference semantics reaches from A0 through message deliveries, timer firings and permitted
                          network faults")
     mc_expand_total    along such a path mc_expand never panics (Rel s A -> WF A -> same_frame sys0 s ->
                        exists l, mc_expand sys0 (get_state s) = Ok l)
     ref_reach_mc       RSteps A0 A' -> exists s', Rel s' A' /\
                          ( ReachM start (get_state s')
                            \/ exists s1 A1, RSteps A0 A1 /\ RSteps A1 A' /\ Rel s1 A1 /\ ReachM start (get_state s1) /\
                                             vk (get_state s1) <> Ok VGo )
                        ("every execution of the reference semantics is explored, up to the first configuration at
                          which the search stops: goal, prune, invariant violation, dead end")
     ref_reach_mc_go    the same for executions all of whose proper prefixes have verdict VGo (GSteps): plain Reach.
     mc_reach_gsteps / reach_iff_gsteps   ReachM start x <-> exists s' A', x = get_state s' /\ GSteps A0 A' /\ Rel s' A'
                        (uses R_functional / SysR_functional: the concrete system related to a configuration is unique)
   Combination with Proofs/McSearch.v (needs its hypotheses): mc_ok_ref (C03 stated on the reference semantics). *)
From Coq Require Import List NArith Bool Lia.
From ASV Require Import Base.Util Base.Msg Base.Log Model.Store Spec.StoreSpec Model.McSys Spec.RefSys Model.Search Model.McRun
     Proofs.UtilP Proofs.StoreSpecP Proofs.StoreRefine Proofs.SysLift Proofs.RefWf Proofs.Restore Proofs.McCompose
     Proofs.SearchCorrect Proofs.SearchRel Proofs.EqBisim Proofs.McSearch.
Import ListNotations.
Open Scope N_scope.

#[local] Arguments ss_checked {St} _.


(* the refinement relation determines the concrete store: all its fields are functions of the abstract one *)
Lemma R_functional {T} (tleb : T -> T -> bool) (s s' : store T) (a : astore T) : R tleb s a -> R tleb s' a -> s = s'.
Proof.
  intros H H'. destruct s as [e tm av rt rm rp nx], s' as [e' tm' av' rt' rm' rp' nx'].
  pose proof (R_evs _ _ _ H) as E1. pose proof (R_evs _ _ _ H') as E1'.
  pose proof (R_tmap _ _ _ H) as E2. pose proof (R_tmap _ _ _ H') as E2'.
  pose proof (R_next _ _ _ H) as E3. pose proof (R_next _ _ _ H') as E3'.
  pose proof (R_avail _ _ _ H) as E4. pose proof (R_avail _ _ _ H') as E4'.
  cbn [evs tmap next avail] in *.
  assert (E5 : rt = rt').
  { apply (ssorted_ext _ CmpSpec_N); [exact (R_tsorted _ _ _ H)|exact (R_tsorted _ _ _ H')|].
    intros k. pose proof (R_timers _ _ _ H k) as A. pose proof (R_timers _ _ _ H' k) as B.
    cbn [r_timers] in A, B. congruence. }
  assert (E6 : rm = rm').
  { apply (ssorted_ext _ CmpSpec_mkey); [exact (R_msorted _ _ _ H)|exact (R_msorted _ _ _ H')|].
    intros k. pose proof (R_msgs _ _ _ H k) as A. pose proof (R_msgs _ _ _ H' k) as B.
    cbn [r_msgs] in A, B. congruence. }
  assert (E7 : rp = rp').
  { apply (ssorted_ext _ CmpSpec_N); [exact (R_psorted _ _ _ H)|exact (R_psorted _ _ _ H')|].
    intros k. pose proof (R_ptimers _ _ _ H k) as A. pose proof (R_ptimers _ _ _ H' k) as B.
    cbn [r_ptimers] in A, B. congruence. }
  congruence.
Qed.

Lemma SysR_functional {T PS} (tleb : T -> T -> bool) (s s' : @mcsys T (store T) PS) (A : @mcsys T (astore T) PS) :
  SysR (R tleb) s A -> SysR (R tleb) s' A -> s = s'.
Proof.
  intros H H'. destruct s as [n1 ne1 e1 d1 m1 t1], s' as [n2 ne2 e2 d2 m2 t2].
  pose proof (SysR_nodes _ _ _ H) as A1. pose proof (SysR_nodes _ _ _ H') as A1'.
  pose proof (SysR_net _ _ _ H) as A2. pose proof (SysR_net _ _ _ H') as A2'.
  pose proof (SysR_depth _ _ _ H) as A3. pose proof (SysR_depth _ _ _ H') as A3'.
  pose proof (SysR_mf _ _ _ H) as A4. pose proof (SysR_mf _ _ _ H') as A4'.
  pose proof (SysR_trace _ _ _ H) as A5. pose proof (SysR_trace _ _ _ H') as A5'.
  pose proof (R_functional tleb _ _ _ (SysR_events _ _ _ H) (SysR_events _ _ _ H')) as A6.
  cbn [s_nodes s_net s_events s_depth s_mf s_trace] in *. congruence.
Qed.

Section McSearchRef.
  Context {T : Type}.
  Variable tleb : T -> T -> bool.
  Variable sevent_eqb : (T -> T -> bool) -> sevent T -> sevent T -> bool.
  Variable tgt0 : T -> bool.
  Variable teq0 : T -> bool.
  Variable t0 : T.
  Variable clock : N -> T -> T.
  Context {PS : Type}.
  Variable handler : N -> PS -> input -> T -> (nat -> T) -> PS * list (action T).
  Variable DS : Type.
  Variable mc_rand : DS -> nat -> T.
  Variable ds_of : @mcstate T (store T) PS -> DS.
  Variable ds_of2 : @mcstate T (astore T) PS -> DS.
  Hypothesis H_ds : forall st1 st2, StR (R tleb) st1 st2 -> ds_of st1 = ds_of2 st2.
  Variable known : list N.
  Hypothesis handler_closed : forall proc st inp time rand m dst,
    In (ASend m dst) (snd (handler proc st inp time rand)) -> In dst known.

  Notation soC := (concrete_ops tleb (@store_eqb T)).
  Notation soR := (abstract_ops tleb sevent_eqb).
  Notation csys := (@mcsys T (store T) PS).
  Notation rsys := (@mcsys T (astore T) PS).
  Notation cstate := (@mcstate T (store T) PS).
  Notation Rel := (SysR (PS := PS) (R tleb)).
  Notation RelSt := (StR (PS := PS) (R tleb)).
  Notation WF := (AWf (PS := PS) known).
  Notation En := (Enabled (PS := PS) tleb sevent_eqb).
  Notation takeC := (take_choice soC tgt0 teq0 t0 clock handler DS mc_rand ds_of).
  Notation takeR := (take_choice soR tgt0 teq0 t0 clock handler DS mc_rand ds_of2).
  Notation expandC := (expand_sys soC tgt0 teq0 t0 clock handler DS mc_rand ds_of).
  Notation RSteps := (Steps tgt0 teq0 t0 clock handler DS mc_rand ds_of2 tleb sevent_eqb).
  Notation CStepsM := (CSteps tleb (@store_eqb T) tgt0 teq0 t0 clock handler DS mc_rand ds_of).
  Notation preds := (@preds T (store T) PS).

  Variable pr : preds.

  Local Notation expM sys0 := (mc_expand soC tgt0 teq0 t0 clock handler DS mc_rand ds_of sys0).
  Local Notation vkM := (vk cstate (mc_no_events soC) (pr_inv pr) (pr_goal pr) (pr_prune pr)).
  Local Notation ReachM sys0 := (Reach cstate (expM sys0) (mc_no_events soC) (pr_inv pr) (pr_goal pr) (pr_prune pr)).

  (* ---------------- the concrete side ---------------- *)
  Definition StepTo (s : csys) (c : choice) (st : cstate) : Prop := exists s1, takeC s c = Ok s1 /\ st = get_state s1.

  Lemma steps_of_states cs : forall (s r : csys) l,
    wf_sys s -> steps_of soC tgt0 teq0 t0 clock handler DS mc_rand ds_of s cs = Ok (r, l) -> Forall2 (StepTo s) cs l.
  Proof.
    induction cs as [|c cs IH]; intros s r l W H; cbn [steps_of] in H.
    - apply ok_inj in H. injection H as _ <-. constructor.
    - bind_inv H x E. destruct x as [s1a st]. bind_inv H y E0. destruct y as [s1b sts]. apply ok_inj in H.
      injection H as _ <-.
      pose proof (search_step_restores _ _ _ _ _ _ _ _ _ _ _ _ _ W E) as Hr. subst s1a.
      constructor.
      + exact (search_step_state _ _ _ _ _ _ _ _ _ _ _ _ _ E).
      + eapply IH; eauto.
  Qed.

  Section Frame.
    Variable sys0 : csys.
    Hypothesis wf0 : wf_sys sys0.

    Lemma mc_expand_unfold (s : csys) :
      wf_sys s -> same_frame sys0 s ->
      expM sys0 (get_state s) = (do (_, l) <- expandC s; Ok l).
    Proof.
      intros W F. unfold mc_expand.
      rewrite (set_get_state s sys0 W wf0 (same_frame_sym _ _ F)). reflexivity.
    Qed.

    Lemma mc_expand_char (s : csys) l :
      wf_sys s -> same_frame sys0 s -> expM sys0 (get_state s) = Ok l ->
      exists cs, all_choices soC s = Ok cs /\ Forall2 (StepTo s) cs l.
    Proof.
      intros W F H. rewrite (mc_expand_unfold s W F) in H.
      bind_inv H x E. destruct x as [r l']. apply ok_inj in H. subst l'.
      unfold expand_sys in E. bind_inv E cs Ec. exists cs. split; [reflexivity|].
      eapply steps_of_states; eauto.
    Qed.

    Lemma StepTo_in_r (s : csys) cs l x :
      Forall2 (StepTo s) cs l -> In x l -> exists c s1, In c cs /\ takeC s c = Ok s1 /\ x = get_state s1.
    Proof.
      intros HF Hx. induction HF as [|c st cs' l' Hst _ IH]; [contradiction|].
      destruct Hx as [<-|Hx].
      - destruct Hst as (s1 & Ht & ->). exists c, s1. split; [now left|]. split; [exact Ht|reflexivity].
      - destruct (IH Hx) as (c' & s1 & Hc & Ht & ->). exists c', s1. split; [now right|]. split; [exact Ht|reflexivity].
    Qed.
    Lemma StepTo_in_l (s : csys) cs l c s1 :
      Forall2 (StepTo s) cs l -> In c cs -> takeC s c = Ok s1 -> In (get_state s1) l.
    Proof.
      intros HF Hc Ht. induction HF as [|c' st cs' l' Hst _ IH]; [contradiction|].
      destruct Hc as [->|Hc].
      - destruct Hst as (s1' & Ht' & ->). rewrite Ht in Ht'. apply ok_inj in Ht'. subst s1'. now left.
      - right. apply IH, Hc.
    Qed.

    Lemma mc_expand_succ (s : csys) l x :
      wf_sys s -> same_frame sys0 s -> expM sys0 (get_state s) = Ok l -> In x l ->
      exists cs c s1, all_choices soC s = Ok cs /\ In c cs /\ takeC s c = Ok s1 /\ x = get_state s1.
    Proof.
      intros W F H Hx. destruct (mc_expand_char s l W F H) as (cs & Hcs & HF).
      destruct (StepTo_in_r s cs l x HF Hx) as (c & s1 & Hc & Ht & E).
      exists cs, c, s1. auto.
    Qed.

    Lemma mc_expand_has (s : csys) l cs c s1 :
      wf_sys s -> same_frame sys0 s -> expM sys0 (get_state s) = Ok l ->
      all_choices soC s = Ok cs -> In c cs -> takeC s c = Ok s1 -> In (get_state s1) l.
    Proof.
      intros W F H Hcs Hc Ht. destruct (mc_expand_char s l W F H) as (cs' & Hcs' & HF).
      rewrite Hcs in Hcs'. apply ok_inj in Hcs'. subst cs'.
      exact (StepTo_in_l s cs l c s1 HF Hc Ht).
    Qed.

    Local Notation start := (get_state sys0).

    (* every state the search reaches is the saved state of a system on a path of the concrete model *)
    Theorem reach_csteps x :
      ReachM sys0 start x -> exists s', x = get_state s' /\ CStepsM sys0 s' /\ wf_sys s' /\ same_frame sys0 s'.
    Proof.
      intros H. induction H as [|s l x Hs IH Hv He Hin].
      - exists sys0. split; [reflexivity|]. split; [apply csteps_refl|]. split; [exact wf0|apply same_frame_refl].
      - destruct IH as (s' & -> & Hc & W & F).
        destruct (mc_expand_succ s' l x W F He Hin) as (cs & c & s1 & Hcs & Hc' & Ht & ->).
        destruct (take_choice_frame _ _ _ _ _ _ _ _ _ _ _ _ Ht W) as [W1 F1].
        exists s1. split; [reflexivity|]. split.
        + eapply csteps_trans; [exact Hc|]. eapply csteps_cons; eauto. apply csteps_refl.
        + split; [exact W1|]. eapply same_frame_trans; eauto.
    Qed.

    (* ---------------- with the reference configuration ---------------- *)
    Variable A0 : rsys.
    Hypothesis HR0 : Rel sys0 A0.
    Hypothesis HW0 : WF A0.

    Theorem mc_reach_ref x :
      ReachM sys0 start x ->
      exists s' A', x = get_state s' /\ CStepsM sys0 s' /\ RSteps A0 A' /\ Rel s' A' /\ WF A' /\ RelSt x (get_state A').
    Proof.
      intros H. destruct (reach_csteps x H) as (s' & -> & Hc & _ & _).
      destruct (csteps_ref tleb (@store_eqb T) sevent_eqb tgt0 teq0 t0 clock handler DS mc_rand ds_of ds_of2 H_ds known
                  handler_closed sys0 s' A0 HR0 HW0 Hc) as (A' & Hs & HR' & HW').
      exists s', A'. split; [reflexivity|]. split; [exact Hc|]. split; [exact Hs|]. split; [exact HR'|].
      split; [exact HW'|]. apply get_state_lift. exact HR'.
    Qed.

    (* mc_expand never panics on the saved state of a system related to a well-formed configuration *)
    Theorem mc_expand_total (s : csys) (A : rsys) :
      Rel s A -> WF A -> same_frame sys0 s -> exists l, expM sys0 (get_state s) = Ok l.
    Proof.
      intros HR HW F. pose proof (rel_wf_sys tleb known s A HR HW) as W.
      destruct (expand_bisim tleb (@store_eqb T) sevent_eqb tgt0 teq0 t0 clock handler DS mc_rand ds_of ds_of2 H_ds known
                  handler_closed s A HR HW) as (l1 & l2 & H1 & _).
      exists l1. rewrite (mc_expand_unfold s W F), H1. reflexivity.
    Qed.

    Corollary mc_reach_expand_ok x : ReachM sys0 start x -> exists l, expM sys0 x = Ok l.
    Proof.
      intros H. destruct (reach_csteps x H) as (s' & -> & Hc & _ & F).
      destruct (csteps_ref tleb (@store_eqb T) sevent_eqb tgt0 teq0 t0 clock handler DS mc_rand ds_of ds_of2 H_ds known
                  handler_closed sys0 s' A0 HR0 HW0 Hc) as (A' & _ & HR' & HW').
      exact (mc_expand_total s' A' HR' HW' F).
    Qed.

    (* one reference step from a reached, expanded (VGo) state is followed by the search *)
    Lemma ref_step_reach (s : csys) (A A1 : rsys) c :
      Rel s A -> WF A -> same_frame sys0 s -> ReachM sys0 start (get_state s) -> vkM (get_state s) = Ok VGo ->
      En A c -> takeR A c = Ok A1 ->
      exists s1, Rel s1 A1 /\ WF A1 /\ same_frame sys0 s1 /\ ReachM sys0 start (get_state s1).
    Proof.
      intros HR HW F Hr Hv Hen Ht. pose proof (rel_wf_sys tleb known s A HR HW) as W.
      destruct (step_bisim_en tleb (@store_eqb T) sevent_eqb tgt0 teq0 t0 clock handler DS mc_rand ds_of ds_of2 H_ds known
                  handler_closed s A HR HW) as (cs & H1 & _ & H3 & H4).
      pose proof (proj1 (H3 c) Hen) as Hc.
      destruct (H4 c Hc) as (s1 & A1' & HtC & HtR & HR1 & HW1 & _).
      rewrite Ht in HtR. apply ok_inj in HtR. subst A1'.
      destruct (take_choice_frame _ _ _ _ _ _ _ _ _ _ _ _ HtC W) as [W1 F1].
      destruct (mc_expand_total s A HR HW F) as (l & He).
      exists s1. split; [exact HR1|]. split; [exact HW1|]. split; [eapply same_frame_trans; eauto|].
      eapply RS; [exact Hr|exact Hv|exact He|]. exact (mc_expand_has s l cs c s1 W F He H1 Hc HtC).
    Qed.

    Lemma vk_go_dec (x : cstate) : vkM x = Ok VGo \/ vkM x <> Ok VGo.
    Proof. destruct (vkM x) as [[m| |]|t]; [right|right|left|right]; congruence. Qed.

    Lemma ref_reach_mc_gen (A A' : rsys) : RSteps A A' ->
      forall s, Rel s A -> WF A -> same_frame sys0 s -> ReachM sys0 start (get_state s) ->
      exists s', Rel s' A' /\
        (ReachM sys0 start (get_state s') \/
         exists s1 A1, RSteps A A1 /\ RSteps A1 A' /\ Rel s1 A1 /\ ReachM sys0 start (get_state s1) /\
                       vkM (get_state s1) <> Ok VGo).
    Proof.
      induction 1 as [A|A c A1 A2 Hen Ht Hs IH]; intros s HR HW F Hr.
      - exists s. split; [exact HR|now left].
      - destruct (vk_go_dec (get_state s)) as [Hv|Hv].
        + destruct (ref_step_reach s A A1 c HR HW F Hr Hv Hen Ht) as (s1 & HR1 & HW1 & F1 & Hr1).
          destruct (IH s1 HR1 HW1 F1 Hr1) as (s' & HR' & [Hr'|(sx & Ax & P1 & P2 & P3 & P4 & P5)]).
          * exists s'. split; [exact HR'|now left].
          * exists s'. split; [exact HR'|]. right. exists sx, Ax.
            split; [eapply steps_cons; eauto|]. auto.
        + destruct (steps_conc tleb (@store_eqb T) sevent_eqb tgt0 teq0 t0 clock handler DS mc_rand ds_of ds_of2 H_ds known
                      handler_closed s A A2 HR HW (steps_cons _ _ _ _ _ _ _ _ _ _ _ _ _ _ Hen Ht Hs)) as (s' & _ & HR').
          exists s'. split; [exact HR'|]. right. exists s, A.
          split; [apply steps_refl|]. split; [eapply steps_cons; eauto|]. auto.
    Qed.

    Theorem ref_reach_mc (A' : rsys) :
      RSteps A0 A' ->
      exists s', Rel s' A' /\
        (ReachM sys0 start (get_state s') \/
         exists s1 A1, RSteps A0 A1 /\ RSteps A1 A' /\ Rel s1 A1 /\ ReachM sys0 start (get_state s1) /\
                       vkM (get_state s1) <> Ok VGo).
    Proof.
      intros H. apply (ref_reach_mc_gen A0 A' H sys0 HR0 HW0 (same_frame_refl _)). constructor.
    Qed.

    (* executions all of whose proper prefixes end in a configuration with verdict VGo: explored to the end *)
    Inductive GSteps : rsys -> rsys -> Prop :=
    | gsteps_refl : forall A, GSteps A A
    | gsteps_cons : forall A c A1 A2,
        (forall s, Rel s A -> vkM (get_state s) = Ok VGo) ->
        En A c -> takeR A c = Ok A1 -> GSteps A1 A2 -> GSteps A A2.

    Lemma GSteps_Steps A A' : GSteps A A' -> RSteps A A'.
    Proof. induction 1; [apply steps_refl|eapply steps_cons; eauto]. Qed.

    Lemma ref_reach_mc_go_gen (A A' : rsys) : GSteps A A' ->
      forall s, Rel s A -> WF A -> same_frame sys0 s -> ReachM sys0 start (get_state s) ->
      exists s', Rel s' A' /\ ReachM sys0 start (get_state s').
    Proof.
      induction 1 as [A|A c A1 A2 Hg Hen Ht Hs IH]; intros s HR HW F Hr.
      - exists s. split; [exact HR|exact Hr].
      - destruct (ref_step_reach s A A1 c HR HW F Hr (Hg s HR) Hen Ht) as (s1 & HR1 & HW1 & F1 & Hr1).
        exact (IH s1 HR1 HW1 F1 Hr1).
    Qed.

    Theorem ref_reach_mc_go (A' : rsys) :
      GSteps A0 A' -> exists s', Rel s' A' /\ ReachM sys0 start (get_state s').
    Proof. intros H. apply (ref_reach_mc_go_gen A0 A' H sys0 HR0 HW0 (same_frame_refl _)). constructor. Qed.


    Lemma gsteps_snoc A B C c :
      GSteps A B -> (forall s, Rel s B -> vkM (get_state s) = Ok VGo) -> En B c -> takeR B c = Ok C -> GSteps A C.
    Proof.
      intros H Hg Hen Ht. induction H as [A|A c' A1 A2 Hg' Hen' Ht' Hs IH].
      - eapply gsteps_cons; eauto. apply gsteps_refl.
      - eapply gsteps_cons; eauto.
    Qed.

    (* conversely, every path of the search is such an execution: Reach and GSteps correspond state by state *)
    Theorem mc_reach_gsteps x :
      ReachM sys0 start x ->
      exists s' A', x = get_state s' /\ GSteps A0 A' /\ Rel s' A' /\ WF A' /\ wf_sys s' /\ same_frame sys0 s'.
    Proof.
      intros H. induction H as [|s l x Hs IH Hv He Hin].
      - exists sys0, A0. split; [reflexivity|]. split; [apply gsteps_refl|]. split; [exact HR0|]. split; [exact HW0|].
        split; [exact wf0|apply same_frame_refl].
      - destruct IH as (s' & A' & -> & Hg & HR & HW & W & F).
        destruct (mc_expand_succ s' l x W F He Hin) as (cs & c & s1 & Hcs & Hc & Ht & ->).
        destruct (step_bisim_en tleb (@store_eqb T) sevent_eqb tgt0 teq0 t0 clock handler DS mc_rand ds_of ds_of2 H_ds known
                    handler_closed s' A' HR HW) as (cs' & H1 & _ & H3 & H4).
        rewrite Hcs in H1. apply ok_inj in H1. subst cs'.
        destruct (H4 c Hc) as (s1' & A1 & HtC & HtR & HR1 & HW1 & _).
        rewrite Ht in HtC. apply ok_inj in HtC. subst s1'.
        destruct (take_choice_frame _ _ _ _ _ _ _ _ _ _ _ _ Ht W) as [W1 F1].
        exists s1, A1. split; [reflexivity|]. split.
        + apply (gsteps_snoc A0 A' A1 c Hg); [|apply (proj2 (H3 c) Hc)|exact HtR].
          intros s2 HR2. rewrite (SysR_functional tleb s2 s' A' HR2 HR). exact Hv.
        + split; [exact HR1|]. split; [exact HW1|]. split; [exact W1|]. eapply same_frame_trans; eauto.
    Qed.

    Corollary reach_iff_gsteps x :
      ReachM sys0 start x <-> exists s' A', x = get_state s' /\ GSteps A0 A' /\ Rel s' A'.
    Proof.
      split.
      - intros H. destruct (mc_reach_gsteps x H) as (s' & A' & E & Hg & HR & _). exists s', A'. auto.
      - intros (s' & A' & -> & Hg & HR). destruct (ref_reach_mc_go A' Hg) as (s2 & HR2 & Hr).
        rewrite (SysR_functional tleb s' s2 A' HR HR2). exact Hr.
    Qed.
  End Frame.

  (* ================= C03 stated on the reference semantics ================= *)
  (* needs the hypotheses of Proofs/McSearch.v (EqBisim (a)(b)(c), state_based pr, StInv, override freedom) *)
  Section RefVerdict.
    Variable teqb : T -> T -> bool.
    Variable ps_eqb : PS -> PS -> bool.
    Hypothesis teqb_spec : forall a b, teqb a b = true <-> a = b.
    Hypothesis ps_eqb_spec : forall a b, ps_eqb a b = true <-> a = b.
    Hypothesis Hclock : clock_independent handler.
    Hypothesis Hds : ds_respects tleb teqb ps_eqb DS ds_of.
    Hypothesis Hpr : state_based tleb teqb ps_eqb pr.

    Notation veq := (mcstate_eqb soC teqb ps_eqb).
    Local Notation runS sys0 debug vm :=
      (run_strategy cstate veq (expM sys0) (mc_enabled_ok soC sys0) (mc_no_events soC)
                    (pr_collect pr) (pr_inv pr) (pr_goal pr) (pr_prune pr) debug vm).
    Local Notation startS vm s := (mark_visited cstate veq vm (ss_empty cstate) s).

    Variable sys0 : csys.
    Variable A0 : rsys.
    Hypothesis HR0 : Rel sys0 A0.
    Hypothesis HW0 : WF A0.
    Local Notation start := (get_state sys0).

    (* an error reported by the search is the verdict of a configuration of the reference semantics
       (no further hypothesis) *)
    Theorem mc_err_ref debug vm st fuel m s ss' :
      runS sys0 debug vm st fuel start (startS vm start) = OErr m s ss' ->
      vkM s = Ok (VErr m) /\
      exists s' A', s = get_state s' /\ RSteps A0 A' /\ Rel s' A' /\ WF A' /\ RelSt s (get_state A').
    Proof.
      intros H. pose proof (rel_wf_sys tleb known sys0 A0 HR0 HW0) as W0.
      destruct (mc_error_sound tleb teqb tgt0 teq0 t0 clock ps_eqb handler DS mc_rand ds_of teqb_spec ps_eqb_spec pr
                  sys0 debug vm st fuel start m s ss' H) as [Hr Hv].
      split; [exact Hv|].
      destruct (mc_reach_ref sys0 W0 A0 HR0 HW0 s Hr) as (s' & A' & E & _ & Hs & HR' & HW' & HRs).
      exists s', A'. auto.
    Qed.

    Hypothesis I0 : StInv tleb sys0.
    Hypothesis OF0 : OverrideFreeOn tleb t0 clock handler DS mc_rand ds_of pr sys0 (s_net sys0) (ReachM sys0 start).

    (* a finished search has evaluated the predicates on every configuration the reference semantics reaches from A0,
       up to veq and up to the configurations behind a goal / prune state; none of them has an error verdict *)
    Theorem mc_ok_ref debug vm st fuel ss' A' :
      runS sys0 debug vm st fuel start (startS vm start) = ODone ss' ->
      RSteps A0 A' ->
      exists s', Rel s' A' /\
        ((ReachM sys0 start (get_state s') /\ (forall m, vkM (get_state s') <> Ok (VErr m)) /\
          exists y, In y (ss_checked ss') /\ veq (get_state s') y = true)
         \/
         exists s1 A1, RSteps A0 A1 /\ RSteps A1 A' /\ Rel s1 A1 /\ ReachM sys0 start (get_state s1) /\
                       vkM (get_state s1) = Ok VFinal).
    Proof.
      intros H Hs. pose proof (rel_wf_sys tleb known sys0 A0 HR0 HW0) as W0.
      pose proof (GoodSt_sys tleb sys0 I0) as G0.
      pose proof (mc_search_complete tleb teqb tgt0 teq0 t0 clock ps_eqb handler DS mc_rand ds_of teqb_spec ps_eqb_spec
                    Hclock Hds pr Hpr sys0 W0 debug vm st fuel start ss' G0 OF0 H) as Hcomp.
      pose proof (mc_verdict tleb teqb tgt0 teq0 t0 clock ps_eqb handler DS mc_rand ds_of teqb_spec ps_eqb_spec
                    Hclock Hds pr Hpr sys0 W0 debug vm st fuel start G0 OF0) as Hver. rewrite H in Hver.
      destruct (ref_reach_mc sys0 W0 A0 HR0 HW0 A' Hs) as (s' & HR' & [Hr|(s1 & A1 & P1 & P2 & P3 & P4 & P5)]).
      - exists s'. split; [exact HR'|]. left. split; [exact Hr|]. split; [exact (Hver _ Hr)|exact (Hcomp _ Hr)].
      - exists s'. split; [exact HR'|]. right. exists s1, A1. split; [exact P1|]. split; [exact P2|]. split; [exact P3|].
        split; [exact P4|].
        destruct (Hcomp _ P4) as (y & Hy & E).
        destruct (mc_search_sound tleb teqb tgt0 teq0 t0 clock ps_eqb handler DS mc_rand ds_of teqb_spec ps_eqb_spec pr
                    sys0 debug vm st fuel start ss' H y Hy) as [_ Hvy].
        rewrite <- (mc_vk_compat tleb teqb ps_eqb teqb_spec ps_eqb_spec pr Hpr sys0 _ _ E) in Hvy.
        destruct Hvy as [Hvy|Hvy]; [exact Hvy|contradiction].
    Qed.
  End RefVerdict.
End McSearchRef.

Print Assumptions reach_csteps.
Print Assumptions mc_reach_ref.
Print Assumptions mc_expand_total.
Print Assumptions ref_reach_mc.
Print Assumptions ref_reach_mc_go.
Print Assumptions mc_reach_gsteps.
Print Assumptions reach_iff_gsteps.
Print Assumptions mc_err_ref.
Print Assumptions mc_ok_ref.
