(* PROPERTY C07 (simulator half): per process and timer name at most one timer is pending.

   No assumption on the handler, on crash_order or on the time algebra.

   TimerInv s   (record; timer_reachable : Reachable s -> TimerInv s; timer_sstep: preserved by every atomic transition)
     ti_pending_live   an entry  name |-> i  in pe_ptimers of a process p on a NON-CRASHED node is a LIVE queue event
                       (in q_events, not in q_canceled) with id i, data QTimer p name, source = destination = the node's
                       component id;
     ti_live_pending   every live QTimer p name event addressed to a non-crashed node is THE pe_ptimers entry of (p, name);
     ti_crashed        no live timer event is addressed to a crashed node
                       (pe_ptimers of a crashed node keeps stale ids until recover clears the processes: that is why
                       the first two clauses are about non-crashed nodes only).
   timer_unique        at most one live QTimer p name event per non-crashed node, process and name.

   The contract, action by action.  `sys_action s nname proc a` (SimBaseP.v) is the system-level effect of one action of
   the running handler of `proc`; SimBaseP.node_handle_sys / deliver_decomp show that node_handle is the prologue
   `pre_state` followed by `sys_actions`.
     set_replaces      ATimerSet n d false on a pending name: the old id is in q_canceled afterwards and is `dead_id`
                       (below the counter, no live event), a new live event mk_ev .. (QTimer proc n) with id q_count is
                       installed and recorded in pe_ptimers, LTimerSet is logged;
     set_once_ignored  ATimerSet n d true on a pending name: queue, trace, network and pe_ptimers unchanged (only the event
                       log of the process grows);
     set_fresh         ATimerSet on a free name installs a live event (both flavours);
     cancel_prevents   ATimerCancel n on a pending name: its id is cancelled and dead, the name is free, LTimerCancelled logged;
     cancel_noop       ATimerCancel n on a free name: no effect;
     fire_removes      when the live event QTimer p n is popped and delivered: pe_ptimers had n |-> its id, the handler's
                       actions run from a state in which n is free (so it can be set again, even with set_timer_once),
                       LTimerFired was logged and the id is dead;
     cancelled_never_delivered / SimBaseP.dead_never_delivered   the queue lemma: a dead id (cancelled, fired, dropped) is
                       never returned by q_next in any later state -- "the old one never fires", "cancel prevents the firing";
     fires_at_most_once   is proved in SimLogP.v (it needs the trace invariants): before an LTimerFired entry for id i
                       there is no LTimerFired / LTimerCancelled entry with id i and no later LTimerSet of the same
                       (name, node, process). *)
From Coq Require Import List Arith NArith Bool Lia.
From ASV Require Import Base.Util Base.Msg Base.Log Proofs.UtilP Model.Sim Spec.SimSpec Proofs.SimBaseP.
Import ListNotations.
Open Scope N_scope.

Section SimTimer.
  Context {T : Type} (ops : time_ops T).
  Context {PS : Type}.
  Variable handler : N -> PS -> input -> T -> (nat -> T) -> PS * list (action T) * nat.
  Variable init_state : N -> PS.
  Variable draws : nat -> T.
  Variable crash_order : list (@qevent T) -> list (@qevent T).

  Notation simq := (@simq T).
  Notation qevent := (@qevent T).
  Notation simnet := (@simnet T).
  Notation logentry := (logentry T).
  Notation pentry := (pentry T PS).
  Notation action := (action T).
  Notation simnode := (@simnode T PS).
  Notation world := (@world T).
  Notation simsys := (@simsys T PS).
  Notation node_action := (node_action ops draws).
  Notation sys_action := (sys_action ops draws).
  Notation sim_op := (sim_op ops handler init_state draws crash_order).
  Notation Reachable := (Reachable ops handler init_state draws crash_order).
  Notation sstep := (sstep ops handler init_state draws crash_order).
  Notation sstar := (sstar ops handler init_state draws crash_order).

  Record TimerInv (s : simsys) : Prop := {
    ti_pending_live : forall nname nd p pe n i,
      sget N.compare nname (y_nodes s) = Some nd -> sd_crashed nd = false ->
      sget N.compare p (sd_procs nd) = Some pe -> sget N.compare n (pe_ptimers pe) = Some i ->
      exists e, In e (q_live (y_q s)) /\ q_id e = i /\ q_data e = QTimer p n /\
                q_src e = sd_id nd /\ q_dst e = sd_id nd;
    ti_live_pending : forall nname nd e p n,
      sget N.compare nname (y_nodes s) = Some nd -> sd_crashed nd = false ->
      In e (q_live (y_q s)) -> q_data e = QTimer p n -> q_dst e = sd_id nd ->
      exists pe, sget N.compare p (sd_procs nd) = Some pe /\ sget N.compare n (pe_ptimers pe) = Some (q_id e);
    ti_crashed : forall nname nd e p n,
      sget N.compare nname (y_nodes s) = Some nd -> sd_crashed nd = true ->
      In e (q_live (y_q s)) -> q_data e = QTimer p n -> q_dst e <> sd_id nd }.

  Lemma live_id_inj (s : simsys) e1 e2 :
    BaseInv s -> In e1 (q_live (y_q s)) -> In e2 (q_live (y_q s)) -> q_id e1 = q_id e2 -> e1 = e2.
  Proof.
    intros B H1 H2 E. eapply (NoDup_map_inj q_id); eauto.
    apply q_live_nodup. apply (qw_nodup _ _ (bi_q _ B)).
  Qed.

  (* at most one live timer event per (non-crashed node, process, name) *)
  Theorem timer_unique s nname nd e1 e2 p n :
    BaseInv s -> TimerInv s ->
    sget N.compare nname (y_nodes s) = Some nd -> sd_crashed nd = false ->
    In e1 (q_live (y_q s)) -> In e2 (q_live (y_q s)) ->
    q_data e1 = QTimer p n -> q_data e2 = QTimer p n -> q_dst e1 = sd_id nd -> q_dst e2 = sd_id nd ->
    e1 = e2.
  Proof.
    intros B I Hn Hc H1 H2 D1 D2 T1 T2.
    destruct (ti_live_pending _ I _ _ _ _ _ Hn Hc H1 D1 T1) as [pe1 [A1 A2]].
    destruct (ti_live_pending _ I _ _ _ _ _ Hn Hc H2 D2 T2) as [pe2 [A3 A4]].
    eapply live_id_inj; eauto. congruence.
  Qed.

  Lemma timer_sys0 : TimerInv (sys0 ops).
  Proof. constructor; cbn; intros; try discriminate; contradiction. Qed.

  (* ---- states that look the same to the invariant ---- *)
  Definition node_tsim (a b : simnode) : Prop :=
    sd_id a = sd_id b /\ sd_crashed a = sd_crashed b /\
    forall p, option_map pe_ptimers (sget N.compare p (sd_procs a)) = option_map pe_ptimers (sget N.compare p (sd_procs b)).

  Lemma node_tsim_refl a : node_tsim a a.
  Proof. unfold node_tsim. auto. Qed.

  Lemma timer_sim (s s' : simsys) :
    TimerInv s ->
    (forall x nd', sget N.compare x (y_nodes s') = Some nd' ->
                   exists nd, sget N.compare x (y_nodes s) = Some nd /\ node_tsim nd' nd) ->
    q_live (y_q s') = q_live (y_q s) ->
    TimerInv s'.
  Proof.
    intros [I1 I2 I3] Hs Hq. constructor; rewrite Hq.
    - intros x nd' p pe n i Hn Hc Hp Hi. destruct (Hs _ _ Hn) as [nd [Hn0 [S1 [S2 S3]]]].
      specialize (S3 p). rewrite Hp in S3. cbn in S3.
      destruct (sget N.compare p (sd_procs nd)) as [pe0|] eqn:Hp0; [|discriminate]. cbn in S3. inv S3.
      rewrite S1. eapply I1; eauto; congruence.
    - intros x nd' e p n Hn Hc He Hd Ht. destruct (Hs _ _ Hn) as [nd [Hn0 [S1 [S2 S3]]]].
      rewrite S1 in Ht. rewrite S2 in Hc. destruct (I2 _ _ _ _ _ Hn0 Hc He Hd Ht) as [pe [A1 A2]].
      specialize (S3 p). rewrite A1 in S3. cbn in S3.
      destruct (sget N.compare p (sd_procs nd')) as [pe'|]; [|discriminate]. cbn in S3. inv S3.
      exists pe'. split; auto. congruence.
    - intros x nd' e p n Hn Hc He Hd. destruct (Hs _ _ Hn) as [nd [Hn0 [S1 [S2 S3]]]].
      rewrite S1. eapply I3; eauto; congruence.
  Qed.

  (* same nodes, the live events shrink but keep everything addressed to a non-crashed node (or: nothing of a timer) *)
  Lemma timer_with_q (s : simsys) q' net' log' :
    TimerInv s ->
    (forall e, In e (q_live q') -> In e (q_live (y_q s))) ->
    (forall e nname nd, In e (q_live (y_q s)) -> sget N.compare nname (y_nodes s) = Some nd -> sd_crashed nd = false ->
                        q_src e = sd_id nd -> q_dst e = sd_id nd -> In e (q_live q')) ->
    TimerInv (y_with s q' net' (y_nodes s) log').
  Proof.
    intros [I1 I2 I3] Hsub Hkeep. constructor; cbn [y_with y_nodes y_q].
    - intros x nd p pe n i Hn Hc Hp Hi. destruct (I1 _ _ _ _ _ _ Hn Hc Hp Hi) as [e [A1 [A2 [A3 [A4 A5]]]]].
      exists e. split; eauto.
    - intros x nd e p n Hn Hc He Hd Ht. eapply I2; eauto.
    - intros x nd e p n Hn Hc He Hd. eapply I3; eauto.
  Qed.

  (* ---- the process `proc` of the non-crashed node `nname` gets a new entry, the queue changes ---- *)
  Lemma timer_put s nname nd proc p0 p lc (w : world) :
    BaseInv s -> TimerInv s ->
    sget N.compare nname (y_nodes s) = Some nd -> sd_crashed nd = false ->
    sget N.compare proc (sd_procs nd) = Some p0 ->
    (forall n i, sget N.compare n (pe_ptimers p) = Some i ->
       exists e, In e (q_live (w_q w)) /\ q_id e = i /\ q_data e = QTimer proc n /\
                 q_src e = sd_id nd /\ q_dst e = sd_id nd) ->
    (forall e n, In e (q_live (w_q w)) -> q_data e = QTimer proc n -> q_dst e = sd_id nd ->
       sget N.compare n (pe_ptimers p) = Some (q_id e)) ->
    (forall e, In e (q_live (y_q s)) -> is_qmsg e = false ->
       (forall n, q_data e = QTimer proc n -> q_dst e <> sd_id nd) -> In e (q_live (w_q w))) ->
    (forall e, In e (q_live (w_q w)) ->
       In e (q_live (y_q s)) \/ (exists n, q_data e = QTimer proc n /\ q_dst e = sd_id nd) \/ is_qmsg e = true) ->
    TimerInv (put_proc s nname nd proc p lc w).
  Proof.
    intros B [I1 I2 I3] Hn Hc Hp HA HB HC HD.
    constructor; unfold put_proc; cbn [y_with y_nodes y_q].
    - intros x ndx p' pe' n i. rewrite sgetN_sins. destruct (N.eqb_spec x nname) as [->|Hne]; intros Hx Hcx Hp' Hi.
      + inv Hx. cbn [nd_put sd_procs sd_id] in *. rewrite sgetN_sins in Hp'.
        destruct (N.eqb_spec p' proc) as [->|Hpp].
        * inv Hp'. auto.
        * destruct (I1 _ _ _ _ _ _ Hn Hc Hp' Hi) as [e [A1 [A2 [A3 [A4 A5]]]]].
          exists e. split; auto. apply HC; auto.
          -- unfold is_qmsg. rewrite A3. reflexivity.
          -- intros n0 E. rewrite A3 in E. inv E. contradiction.
      + destruct (I1 _ _ _ _ _ _ Hx Hcx Hp' Hi) as [e [A1 [A2 [A3 [A4 A5]]]]].
        exists e. split; auto. apply HC; auto.
        * unfold is_qmsg. rewrite A3. reflexivity.
        * intros n0 _ E. apply Hne. eapply (bi_ids_inj _ B); eauto. congruence.
    - intros x ndx e p' n. rewrite sgetN_sins. destruct (N.eqb_spec x nname) as [->|Hne]; intros Hx Hcx He Hd Ht.
      + inv Hx. cbn [nd_put sd_procs sd_id] in *. rewrite sgetN_sins.
        destruct (N.eqb_spec p' proc) as [->|Hpp].
        * exists p. split; auto.
        * destruct (HD _ He) as [Ho|[[n0 [E _]]|Hm]].
          -- eapply I2; eauto.
          -- rewrite Hd in E. inv E. contradiction.
          -- unfold is_qmsg in Hm. rewrite Hd in Hm. discriminate.
      + destruct (HD _ He) as [Ho|[[n0 [E1 E2]]|Hm]].
        * eapply I2; eauto.
        * exfalso. apply Hne. eapply (bi_ids_inj _ B); eauto. congruence.
        * unfold is_qmsg in Hm. rewrite Hd in Hm. discriminate.
    - intros x ndx e p' n. rewrite sgetN_sins. destruct (N.eqb_spec x nname) as [->|Hne]; intros Hx Hcx He Hd.
      + inv Hx. cbn in Hcx. congruence.
      + destruct (HD _ He) as [Ho|[[n0 [E1 E2]]|Hm]].
        * eapply I3; eauto.
        * rewrite E2. intros E. apply Hne. eapply (bi_ids_inj _ B); eauto.
        * unfold is_qmsg in Hm. rewrite Hd in Hm. discriminate.
  Qed.
  Lemma in_live_cancel (q : simq) i e : In e (q_live (q_cancel q i)) <-> In e (q_live q) /\ q_id e <> i.
  Proof.
    rewrite q_live_cancel, filter_In, negb_true_iff, N.eqb_neq. tauto.
  Qed.

  Lemma base_canc_lt (s : simsys) : BaseInv s -> forall j, In j (q_canceled (y_q s)) -> j < q_count (y_q s).
  Proof. intros B. apply (qw_canc _ _ (bi_q _ B)). Qed.

  Lemma live_lt (s : simsys) e : BaseInv s -> In e (q_live (y_q s)) -> q_id e < q_count (y_q s).
  Proof. intros B H. apply in_q_live in H. apply (qw_lt _ _ (bi_q _ B)). tauto. Qed.

  (* ------------------------------------------------------------------------------------------------ *)
  (* one action                                                                                        *)
  (* ------------------------------------------------------------------------------------------------ *)
  Lemma timer_sys_action (s : simsys) nname nd proc a s' :
    BaseInv s -> TimerInv s ->
    sget N.compare nname (y_nodes s) = Some nd -> sd_crashed nd = false ->
    sys_action s nname proc a = Ok s' -> TimerInv s'.
  Proof.
    intros B I Hn Hc H. unfold SimBaseP.sys_action in H. rewrite Hn in H.
    destruct (sget N.compare proc (sd_procs nd)) as [p|] eqn:Hp; [|discriminate].
    destruct (node_action _ _ _ _ _ _ _ _) as [[[p' lc'] w']|] eqn:E in H; [|discriminate].
    cbn [bind] in H. inv H.
    pose proof (base_canc_lt _ B) as Hcl.
    assert (Hpl : forall n i, sget N.compare n (pe_ptimers p) = Some i ->
               exists e, In e (q_live (y_q s)) /\ q_id e = i /\ q_data e = QTimer proc n /\
                         q_src e = sd_id nd /\ q_dst e = sd_id nd).
    { intros n i Hi. eapply (ti_pending_live _ I); eauto. }
    assert (Hlp : forall e n, In e (q_live (y_q s)) -> q_data e = QTimer proc n -> q_dst e = sd_id nd ->
                    sget N.compare n (pe_ptimers p) = Some (q_id e)).
    { intros e n He Hd Ht. destruct (ti_live_pending _ I _ _ _ _ _ Hn Hc He Hd Ht) as [pe [A1 A2]]. congruence. }
    (* a state in which nothing the invariant looks at changed *)
    assert (Hsame : forall (p1 : pentry) lc1 (w1 : world),
               pe_ptimers p1 = pe_ptimers p -> q_live (w_q w1) = q_live (y_q s) ->
               TimerInv (put_proc s nname nd proc p1 lc1 w1)).
    { intros p1 lc1 w1 E1 E2. eapply timer_put; eauto; rewrite ?E1, ?E2; auto. }
    destruct a as [m dst|m|name delay once|name]; cbn [Sim.node_action] in E.
    - (* send: fresh message events *)
      binv. apply net_send_spec in E0.
      destruct E0 as (sn & dn & sid & did & news & _ & _ & _ & _ & _ & G & _ & D & _).
      cbn [world_of w_q] in G. pose proof (q_grow_live _ _ _ Hcl G) as L.
      eapply timer_put; eauto; cbn [w_q pe_with pe_ptimers]; rewrite ?L.
      + intros n i Hi. destruct (Hpl _ _ Hi) as [e [A1 A2]]. exists e. split; auto. apply in_app_iff. auto.
      + intros e n He Hd Ht. apply in_app_iff in He. destruct He as [He|He]; auto.
        apply D in He. destruct He as [[m' Hm] _]. congruence.
      + intros e He _ _. apply in_app_iff. auto.
      + intros e He. apply in_app_iff in He. destruct He as [He|He]; auto.
        right. right. apply D in He. destruct He as [[m' Hm] _]. unfold is_qmsg. rewrite Hm. reflexivity.
    - inv E. apply Hsame; reflexivity.
    - destruct (sget N.compare name (pe_ptimers p)) as [old|] eqn:Eo.
      + destruct once.
        * inv E. apply Hsame; reflexivity.
        * (* replace: cancel the old event, add a new one *)
          binv. cbn [world_of w_q] in E0.
          destruct (Hpl _ _ Eo) as [eo [O1 [O2 [O3 [O4 O5]]]]].
          apply q_add_live in E0.
          2:{ cbn [q_cancel q_with q_canceled q_count]. intros j Hj. apply in_nins in Hj.
              destruct Hj as [->|Hj]; auto. rewrite <- O2. apply live_lt; auto. }
          destruct E0 as (-> & L & C & _). cbn [q_cancel q_with q_count] in C.
          eapply timer_put; eauto; cbn [w_q pe_with pe_ptimers]; rewrite ?L.
          -- intros n i. rewrite sgetN_sins. destruct (N.eqb_spec n name) as [->|Hne]; intros Hi.
             ++ inv Hi. eexists. split; [apply in_app_iff; right; left; reflexivity|]. cbn. auto.
             ++ destruct (Hpl _ _ Hi) as [e [A1 [A2 [A3 A4]]]]. exists e. split; auto.
                apply in_app_iff. left. apply in_live_cancel. split; auto.
                intros E1. assert (e = eo) by (eapply live_id_inj; eauto; congruence). subst. congruence.
          -- intros e n He Hd Ht. rewrite sgetN_sins. apply in_app_iff in He. destruct He as [He|[<-|[]]].
             ++ apply in_live_cancel in He. destruct He as [He Hne].
                destruct (N.eqb_spec n name) as [->|Hnn]; auto.
                exfalso. apply Hne. specialize (Hlp _ _ He Hd Ht). congruence.
             ++ cbn in Hd. inv Hd. rewrite N.eqb_refl. reflexivity.
          -- intros e He _ Hnt. apply in_app_iff. left. apply in_live_cancel. split; auto.
             intros E1. assert (e = eo) by (eapply live_id_inj; eauto; congruence). subst.
             eapply Hnt; eauto.
          -- intros e He. apply in_app_iff in He. destruct He as [He|[<-|[]]].
             ++ apply in_live_cancel in He. tauto.
             ++ right. left. exists name. cbn. auto.
      + (* fresh timer *)
        binv. cbn [world_of w_q] in E0. apply q_add_live in E0; auto. destruct E0 as (-> & L & C & _).
        eapply timer_put; eauto; cbn [w_q pe_with pe_ptimers]; rewrite ?L.
        * intros n i. rewrite sgetN_sins. destruct (N.eqb_spec n name) as [->|Hne]; intros Hi.
          -- inv Hi. eexists. split; [apply in_app_iff; right; left; reflexivity|]. cbn. auto.
          -- destruct (Hpl _ _ Hi) as [e [A1 A2]]. exists e. split; auto. apply in_app_iff. auto.
        * intros e n He Hd Ht. rewrite sgetN_sins. apply in_app_iff in He. destruct He as [He|[<-|[]]].
          -- destruct (N.eqb_spec n name) as [->|Hnn]; auto.
             specialize (Hlp _ _ He Hd Ht). congruence.
          -- cbn in Hd. inv Hd. rewrite N.eqb_refl. reflexivity.
        * intros e He _ _. apply in_app_iff. auto.
        * intros e He. apply in_app_iff in He. destruct He as [He|[<-|[]]]; auto.
          right. left. exists name. cbn. auto.
    - destruct (sget N.compare name (pe_ptimers p)) as [i|] eqn:Ei.
      + (* cancel a pending timer *)
        inv E. destruct (Hpl _ _ Ei) as [eo [O1 [O2 [O3 [O4 O5]]]]].
        eapply timer_put; eauto; cbn [w_q pe_with pe_ptimers world_of].
        * intros n j. rewrite sgetN_srem. destruct (N.eqb_spec n name) as [->|Hne]; [discriminate|]. intros Hj.
          destruct (Hpl _ _ Hj) as [e [A1 [A2 [A3 A4]]]]. exists e. split; auto.
          apply in_live_cancel. split; auto.
          intros E1. assert (e = eo) by (eapply live_id_inj; eauto; congruence). subst. congruence.
        * intros e n He Hd Ht. apply in_live_cancel in He. destruct He as [He Hne]. rewrite sgetN_srem.
          destruct (N.eqb_spec n name) as [->|Hnn]; auto.
          exfalso. apply Hne. specialize (Hlp _ _ He Hd Ht). congruence.
        * intros e He _ Hnt. apply in_live_cancel. split; auto.
          intros E1. assert (e = eo) by (eapply live_id_inj; eauto; congruence). subst.
          eapply Hnt; eauto.
        * intros e He. apply in_live_cancel in He. tauto.
      + inv E. apply Hsame; reflexivity.
  Qed.
  (* ------------------------------------------------------------------------------------------------ *)
  (* popping an event                                                                                  *)
  (* ------------------------------------------------------------------------------------------------ *)
  Lemma timer_pop (s : simsys) q' oe :
    BaseInv s -> TimerInv s -> q_next ops (y_q s) = (q', oe) ->
    (forall e, oe = Some e -> sget N.compare (q_dst e) (y_handlers s) <> Some true) ->
    TimerInv (with_q s q').
  Proof.
    intros B I H Hh. apply q_next_spec in H; [|apply (qw_nodup _ _ (bi_q _ B))]. destruct H as [_ H].
    unfold with_q. destruct oe as [e|].
    - destruct H as [_ [l1 [l2 [E1 E2]]]]. apply timer_with_q; auto.
      + intros x. rewrite E1, E2, !in_app_iff. cbn. tauto.
      + intros x nname nd Hx Hn Hc _ Hd. rewrite E1 in Hx. rewrite E2.
        apply in_app_iff in Hx. apply in_app_iff. destruct Hx as [Hx|[<-|Hx]]; auto.
        exfalso. apply (Hh e eq_refl). rewrite Hd. rewrite (bi_handlers _ B _ _ Hn), Hc. reflexivity.
    - destruct H as [E _]. apply timer_with_q; auto; rewrite E; auto.
  Qed.

  (* the beginning of the invocation for a popped event *)
  Lemma timer_deliver (s : simsys) q' e nname nd p st' used :
    BaseInv s -> TimerInv s -> q_next ops (y_q s) = (q', Some e) ->
    sget N.compare nname (y_nodes s) = Some nd -> sd_crashed nd = false -> sd_id nd = q_dst e ->
    sget N.compare (fst (ev_kind e)) (sd_procs nd) = Some p ->
    TimerInv (pre_state (with_q s q') nname nd (fst (ev_kind e)) p (snd (ev_kind e)) st' used).
  Proof.
    intros B I H Hn Hc Hid Hp.
    pose proof (qw_nodup _ _ (bi_q _ B)) as Hnd.
    apply q_next_spec in H; auto. destruct H as [S [_ [l1 [l2 [E1 E2]]]]].
    pose proof (q_live_nodup _ Hnd) as Hnl. rewrite E1 in Hnl.
    assert (He : In e (q_live (y_q s))) by (rewrite E1; apply in_app_iff; cbn; auto).
    assert (Hsub : forall x, In x (l1 ++ l2) -> In x (q_live (y_q s))).
    { intros x. rewrite E1, !in_app_iff. cbn. tauto. }
    assert (Hrem : forall x, In x (q_live (y_q s)) -> x <> e -> In x (l1 ++ l2)).
    { intros x. rewrite E1, !in_app_iff. cbn. intros [Hx|[Hx|Hx]] Hne; auto. congruence. }
    assert (Hnot : ~ In e (l1 ++ l2)).
    { intros Hi. apply (NoDup_map_app_not_in q_id _ _ _ Hnl). apply in_map. auto. }
    (* the invariant holds for s with the queue q' except for the popped event; go through timer_put from s *)
    assert (Hput : forall p1 lc1 (w1 : world),
              q_live (w_q w1) = l1 ++ l2 ->
              (forall n i, sget N.compare n (pe_ptimers p1) = Some i ->
                           sget N.compare n (pe_ptimers p) = Some i /\ q_data e <> QTimer (fst (ev_kind e)) n) ->
              (forall n i, sget N.compare n (pe_ptimers p) = Some i -> q_data e <> QTimer (fst (ev_kind e)) n ->
                           sget N.compare n (pe_ptimers p1) = Some i) ->
              TimerInv (put_proc s nname nd (fst (ev_kind e)) p1 lc1 w1)).
    { intros p1 lc1 w1 L HA HB. eapply timer_put; eauto; rewrite ?L.
      - intros n i Hi. apply HA in Hi. destruct Hi as [Hi Hne].
        destruct (ti_pending_live _ I _ _ _ _ _ _ Hn Hc Hp Hi) as [x [A1 [A2 [A3 A4]]]].
        exists x. split; auto. apply Hrem; auto. intros ->. congruence.
      - intros x n Hx Hd Ht.
        destruct (ti_live_pending _ I _ _ _ _ _ Hn Hc (Hsub _ Hx) Hd Ht) as [pe [A1 A2]].
        assert (pe = p) by congruence. subst pe. apply HB; auto.
        intros Ed. apply Hnot. replace e with x; auto.
        eapply (timer_unique s nname nd); eauto; congruence.
      - intros x Hx Hq Hnt. apply Hrem; auto. intros ->.
        destruct (q_data e) as [mid m src sn dst dn|pr tn] eqn:Ed.
        + unfold is_qmsg in Hq. rewrite Ed in Hq. discriminate.
        + eapply Hnt; eauto. unfold ev_kind. rewrite Ed. reflexivity.
      - intros x Hx. left. auto. }
    unfold pre_state. apply Hput.
    - cbn [w_q with_q y_with y_q]. exact E2.
    - intros n i. unfold set_state. cbn [pe_with pe_ptimers]. unfold ev_kind.
      destruct (q_data e) as [mid m src sn dst dn|pr tn] eqn:Ed; cbn [fst snd pre_pe pe_with pe_ptimers].
      + intros Hi. split; auto. discriminate.
      + destruct (sget N.compare tn (pe_ptimers p)) eqn:Et; cbn [fst pe_with pe_ptimers].
        * rewrite sgetN_srem. destruct (N.eqb_spec n tn) as [->|Hne]; [discriminate|].
          intros Hi. split; auto. congruence.
        * intros Hi. split; auto. intros E0. inv E0. congruence.
    - intros n i. unfold set_state. cbn [pe_with pe_ptimers]. unfold ev_kind.
      destruct (q_data e) as [mid m src sn dst dn|pr tn] eqn:Ed; cbn [fst snd pre_pe pe_with pe_ptimers]; auto.
      destruct (sget N.compare tn (pe_ptimers p)) eqn:Et; cbn [fst pe_with pe_ptimers]; auto.
      rewrite sgetN_srem. destruct (N.eqb_spec n tn) as [->|Hne]; auto. congruence.
  Qed.
  (* ------------------------------------------------------------------------------------------------ *)
  (* transitions that do not touch timers                                                              *)
  (* ------------------------------------------------------------------------------------------------ *)
  Lemma timer_sim_put (s : simsys) nname nd proc p0 p lc (w : world) :
    TimerInv s -> sget N.compare nname (y_nodes s) = Some nd -> sget N.compare proc (sd_procs nd) = Some p0 ->
    pe_ptimers p = pe_ptimers p0 -> q_live (w_q w) = q_live (y_q s) ->
    TimerInv (put_proc s nname nd proc p lc w).
  Proof.
    intros I Hn Hp Ept Eq. eapply timer_sim; eauto. unfold put_proc. cbn [y_with y_nodes].
    intros x nd'. rewrite sgetN_sins. destruct (N.eqb_spec x nname) as [->|Hne]; intros H.
    - inv H. exists nd. split; auto. split; [reflexivity|]. split; [reflexivity|].
      intros q. cbn [nd_put sd_procs]. rewrite sgetN_sins. destruct (N.eqb_spec q proc) as [->|Hq]; auto.
      rewrite Hp. cbn. congruence.
    - exists nd'. split; auto. apply node_tsim_refl.
  Qed.

  Lemma timer_same_nodes (s : simsys) q' net' log' :
    TimerInv s -> q_live q' = q_live (y_q s) -> TimerInv (y_with s q' net' (y_nodes s) log').
  Proof.
    intros I E. eapply timer_sim; eauto. cbn [y_with y_nodes]. intros x nd' H. exists nd'. split; auto.
    apply node_tsim_refl.
  Qed.

  Lemma timer_read_local (s : simsys) p s' r : TimerInv s -> read_local s p = Ok (s', r) -> TimerInv s'.
  Proof.
    intros I H. unfold read_local, node_of_proc in H.
    destruct (sget N.compare p (y_proc_nodes s)) as [nname|]; [|discriminate].
    destruct (sget N.compare nname (y_nodes s)) as [nd|] eqn:Hn; [|discriminate].
    cbn [bind] in H.
    destruct (sget N.compare p (sd_procs nd)) as [pe|] eqn:Hp; [|discriminate].
    destruct (pe_outbox pe) as [|m l]; inv H; auto.
    match goal with |- TimerInv ?st =>
      change st with (put_proc s nname nd p (pe_with pe (pe_state pe) (pe_evlog pe) [] (pe_ptimers pe) (pe_sent pe) (pe_recv pe))
                               (sd_lcount nd) (world_of s)) end.
    eapply timer_sim_put; eauto.
  Qed.

  Lemma timer_basic (s : simsys) o s' r :
    BaseInv s -> TimerInv s -> is_basic o = true -> sim_op 0 s o = Ok (s', r) -> TimerInv s'.
  Proof.
    intros B I Hb H. destruct o; try discriminate Hb; cbn [Sim.sim_op] in H.
    - (* add node *)
      destruct (shas N.compare name (y_nodes s)) eqn:Hh; [discriminate|]. apply shas_false in Hh. inv H.
      destruct I as [I1 I2 I3]. constructor; cbn [y_nodes y_q].
      + intros x nd p pe n i. rewrite sgetN_sins. destruct (N.eqb_spec x name) as [->|Hne]; intros Hx.
        * inv Hx. cbn. discriminate.
        * eauto.
      + intros x nd e p n. rewrite sgetN_sins. destruct (N.eqb_spec x name) as [->|Hne]; intros Hx Hc He Hd Ht.
        * inv Hx. cbn in Ht. apply in_q_live in He. destruct He as [He _].
          apply (qw_comp _ _ (bi_q _ B)) in He. lia.
        * eauto.
      + intros x nd e p n. rewrite sgetN_sins. destruct (N.eqb_spec x name) as [->|Hne]; intros Hx Hc.
        * inv Hx. discriminate.
        * eauto.
    - (* add process *)
      destruct (sget N.compare node (y_nodes s)) as [nd|] eqn:Hn; [|discriminate].
      destruct (shas N.compare proc (y_proc_nodes s)) eqn:Hh; [discriminate|]. apply shas_false in Hh. inv H.
      destruct I as [I1 I2 I3]. constructor; cbn [y_nodes y_q].
      + intros x ndx p pe n i. rewrite sgetN_sins. destruct (N.eqb_spec x node) as [->|Hne]; intros Hx Hc Hp Hi.
        * inv Hx. cbn [sd_procs sd_id sd_crashed] in *. rewrite sgetN_sins in Hp.
          destruct (N.eqb_spec p proc) as [->|Hpp].
          -- inv Hp. discriminate.
          -- eauto.
        * eauto.
      + intros x ndx e p n. rewrite sgetN_sins. destruct (N.eqb_spec x node) as [->|Hne]; intros Hx Hc He Hd Ht.
        * inv Hx. cbn [sd_procs sd_id sd_crashed] in *.
          destruct (I2 _ _ _ _ _ Hn Hc He Hd Ht) as [pe [A1 A2]]. exists pe. split; auto.
          rewrite sgetN_sins. destruct (N.eqb_spec p proc) as [->|Hpp]; auto.
          pose proof (bi_proc_fwd _ B _ _ _ _ Hn A1). congruence.
        * eauto.
      + intros x ndx e p n. rewrite sgetN_sins. destruct (N.eqb_spec x node) as [->|Hne]; intros Hx Hc.
        * inv Hx. cbn [sd_id sd_crashed] in *. eauto.
        * eauto.
    - (* skew *)
      destruct (sget N.compare node (y_nodes s)) as [nd|] eqn:Hn; [|discriminate]. inv H.
      eapply timer_sim; eauto. cbn [y_with y_nodes]. intros x nd'. rewrite sgetN_sins.
      destruct (N.eqb_spec x node) as [->|Hne]; intros Hx.
      + inv Hx. exists nd. split; auto. unfold node_tsim. cbn. auto.
      + exists nd'. split; auto. apply node_tsim_refl.
    - (* network control *)
      destruct (snet_apply (y_net s) (now s) o) as [n' logs]. inv H. apply timer_same_nodes; auto.
    - (* crash *)
      destruct (sget N.compare node (y_nodes s)) as [nd|] eqn:Hn; [|discriminate]. inv H.
      pose proof (qw_nodup _ _ (bi_q _ B)) as Hnd.
      assert (L : forall e, In e (q_live (q_cancel_pred (q_cancel_pred (y_q s) (fun e => N.eqb (q_src e) (sd_id nd)))
                                                       (fun e => N.eqb (q_dst e) (sd_id nd)))) <->
                            In e (q_live (y_q s)) /\ q_src e <> sd_id nd /\ q_dst e <> sd_id nd).
      { intros e. rewrite q_live_cancel_pred by exact Hnd. rewrite filter_In.
        rewrite q_live_cancel_pred by exact Hnd. rewrite filter_In.
        rewrite !negb_true_iff, !N.eqb_neq. tauto. }
      destruct I as [I1 I2 I3]. unfold set_handler, y_with. constructor; cbn [y_nodes y_q].
      + intros x ndx p pe n i. rewrite sgetN_sins. destruct (N.eqb_spec x node) as [->|Hne]; intros Hx Hc Hp Hi.
        * inv Hx. discriminate.
        * destruct (I1 _ _ _ _ _ _ Hx Hc Hp Hi) as [e [A1 [A2 [A3 [A4 A5]]]]]. exists e. split; auto.
          apply L. split; auto.
          assert (sd_id ndx <> sd_id nd) by (intros E; apply Hne; eapply (bi_ids_inj _ B); eauto).
          split; congruence.
      + intros x ndx e p n. rewrite sgetN_sins. destruct (N.eqb_spec x node) as [->|Hne]; intros Hx Hc He Hd Ht.
        * inv Hx. discriminate.
        * apply L in He. destruct He as [He _]. eauto.
      + intros x ndx e p n. rewrite sgetN_sins. destruct (N.eqb_spec x node) as [->|Hne]; intros Hx Hc He Hd.
        * inv Hx. cbn [sd_id]. apply L in He. tauto.
        * apply L in He. destruct He as [He _]. eauto.
    - (* recover *)
      destruct (sget N.compare node (y_nodes s)) as [nd|] eqn:Hn; [|discriminate].
      destruct (negb (sd_crashed nd)) eqn:Hc; [discriminate|]. apply negb_false_iff in Hc.
      assert (Hs : y_q s' = y_q s /\
                   y_nodes s' = sins N.compare node {| sd_id := sd_id nd; sd_procs := []; sd_skew := sd_skew nd;
                                                       sd_crashed := false; sd_lcount := sd_lcount nd |} (y_nodes s)).
      { destruct (sget N.compare (sd_id nd) (y_handlers s)) as [[|]|]; inv H; auto. }
      destruct Hs as [Hq Hnodes]. clear H.
      destruct I as [I1 I2 I3]. constructor; rewrite Hq, Hnodes.
      + intros x ndx p pe n i. rewrite sgetN_sins. destruct (N.eqb_spec x node) as [->|Hne]; intros Hx.
        * inv Hx. cbn. discriminate.
        * eauto.
      + intros x ndx e p n. rewrite sgetN_sins. destruct (N.eqb_spec x node) as [->|Hne]; intros Hx Hcx He Hd Ht.
        * inv Hx. cbn [sd_id] in Ht. exfalso. eapply I3; eauto.
        * eauto.
      + intros x ndx e p n. rewrite sgetN_sins. destruct (N.eqb_spec x node) as [->|Hne]; intros Hx Hcx.
        * inv Hx. discriminate.
        * eauto.
  Qed.

  (* ------------------------------------------------------------------------------------------------ *)
  (* the invariant                                                                                     *)
  (* ------------------------------------------------------------------------------------------------ *)
  Theorem timer_sstep s lab s' : BaseInv s -> TimerInv s -> sstep s lab s' -> TimerInv s'.
  Proof.
    intros B I H. destruct H.
    - eapply timer_pop; eauto.
    - eapply timer_deliver; eauto.
    - unfold pre_state. eapply timer_sim_put; eauto.
    - eapply timer_sys_action; eauto.
    - apply q_peek_spec in H. destruct H as [_ [L _]]. unfold with_q. apply timer_same_nodes; auto.
    - unfold set_clock. apply timer_same_nodes; auto.
    - eapply timer_read_local; eauto.
    - eapply timer_basic; eauto.
  Qed.

  Theorem timer_reachable s : Reachable s -> TimerInv s.
  Proof.
    apply (reachable_inv ops handler init_state draws crash_order TimerInv).
    - apply timer_sys0.
    - intros s0 lab s1 B I H. eapply timer_sstep; eauto.
  Qed.
  (* ================================================================================================ *)
  (* The timer API contract, action by action.                                                         *)
  (* `sys_action s nname proc a` is the system-level effect of ONE action `a` issued by the running    *)
  (* handler of process `proc` on node `nname` (SimBaseP.node_handle_sys: a handler invocation is the  *)
  (* prologue `pre_state` followed by `sys_actions`).                                                  *)
  (* ================================================================================================ *)

  (* set_timer on a pending name: the old event is cancelled (it is in q_canceled, no live event has its id:
     `dead_id`, hence by dead_never_delivered it is never popped), a new live event is installed *)
  Theorem set_replaces (s : simsys) nname nd proc p n d old s' :
    BaseInv s -> TimerInv s ->
    sget N.compare nname (y_nodes s) = Some nd -> sd_crashed nd = false ->
    sget N.compare proc (sd_procs nd) = Some p -> sget N.compare n (pe_ptimers p) = Some old ->
    sys_action s nname proc (ATimerSet n d false) = Ok s' ->
    let new := q_count (y_q s) in
    In old (q_canceled (y_q s')) /\ dead_id old (y_q s') /\ new <> old /\
    In (mk_ev ops (y_q s) (QTimer proc n) (sd_id nd) (sd_id nd) d) (q_live (y_q s')) /\
    y_log s' = y_log s ++ [LTimerSet (q_clock (y_q s)) new n nname proc d] /\
    exists nd' p', sget N.compare nname (y_nodes s') = Some nd' /\ sget N.compare proc (sd_procs nd') = Some p' /\
                   pe_ptimers p' = sins N.compare n new (pe_ptimers p).
  Proof.
    intros B I Hn Hc Hp Ho H new. unfold SimBaseP.sys_action in H. rewrite Hn, Hp in H.
    cbn [Sim.node_action] in H. rewrite Ho in H.
    destruct (q_add ops _ _ _ _ _) as [[q2 i]|] eqn:Ea in H; [|discriminate]. cbn [bind] in H. inv H.
    destruct (ti_pending_live _ I _ _ _ _ _ _ Hn Hc Hp Ho) as [eo [O1 [O2 [O3 [O4 O5]]]]].
    assert (Hold : old < q_count (y_q s)) by (rewrite <- O2; apply live_lt; auto).
    cbn [world_of w_q] in Ea. apply q_add_live in Ea.
    2:{ cbn [q_cancel q_with q_canceled q_count]. intros j Hj. apply in_nins in Hj.
        destruct Hj as [->|Hj]; auto. apply (base_canc_lt _ B). auto. }
    destruct Ea as (-> & L & C & K & _). cbn [q_cancel q_with q_count q_canceled] in C, K.
    unfold put_proc. cbn [y_with y_q y_log y_nodes w_q w_log].
    assert (Hin : In old (q_canceled q2)) by (rewrite K; apply in_nins; auto).
    split; auto. split; [|split; [|split; [|split]]].
    - apply cancelled_dead; auto. lia.
    - unfold new. lia.
    - rewrite L. apply in_app_iff. right. left. reflexivity.
    - reflexivity.
    - eexists _, _. rewrite sgetN_sins, N.eqb_refl. split; [reflexivity|]. cbn [nd_put sd_procs].
      rewrite sgetN_sins, N.eqb_refl. split; reflexivity.
  Qed.

  (* set_timer_once on a pending name: nothing changes but the event log of the process *)
  Theorem set_once_ignored (s : simsys) nname nd proc p n d old s' :
    sget N.compare nname (y_nodes s) = Some nd ->
    sget N.compare proc (sd_procs nd) = Some p -> sget N.compare n (pe_ptimers p) = Some old ->
    sys_action s nname proc (ATimerSet n d true) = Ok s' ->
    y_q s' = y_q s /\ y_log s' = y_log s /\ y_net s' = y_net s /\
    exists nd' p', sget N.compare nname (y_nodes s') = Some nd' /\ sget N.compare proc (sd_procs nd') = Some p' /\
                   pe_ptimers p' = pe_ptimers p /\ pe_outbox p' = pe_outbox p /\
                   pe_evlog p' = pe_evlog p ++ [(q_clock (y_q s), PTimerSet n d true)].
  Proof.
    intros Hn Hp Ho H. unfold SimBaseP.sys_action in H. rewrite Hn, Hp in H.
    cbn [Sim.node_action] in H. rewrite Ho in H. cbn [bind] in H. inv H.
    unfold put_proc. cbn [y_with y_q y_log y_net y_nodes world_of w_q w_log w_net].
    repeat (split; [reflexivity|]).
    eexists _, _. rewrite sgetN_sins, N.eqb_refl. split; [reflexivity|]. cbn [nd_put sd_procs].
    rewrite sgetN_sins, N.eqb_refl. split; [reflexivity|]. cbn. auto.
  Qed.

  (* cancel_timer on a pending name: the event is cancelled for good, the name is free again *)
  Theorem cancel_prevents (s : simsys) nname nd proc p n i s' :
    BaseInv s -> TimerInv s ->
    sget N.compare nname (y_nodes s) = Some nd -> sd_crashed nd = false ->
    sget N.compare proc (sd_procs nd) = Some p -> sget N.compare n (pe_ptimers p) = Some i ->
    sys_action s nname proc (ATimerCancel n) = Ok s' ->
    In i (q_canceled (y_q s')) /\ dead_id i (y_q s') /\
    y_log s' = y_log s ++ [LTimerCancelled (q_clock (y_q s)) i n nname proc] /\
    exists nd' p', sget N.compare nname (y_nodes s') = Some nd' /\ sget N.compare proc (sd_procs nd') = Some p' /\
                   sget N.compare n (pe_ptimers p') = None /\
                   forall n', n' <> n -> sget N.compare n' (pe_ptimers p') = sget N.compare n' (pe_ptimers p).
  Proof.
    intros B I Hn Hc Hp Hi H. unfold SimBaseP.sys_action in H. rewrite Hn, Hp in H.
    cbn [Sim.node_action] in H. rewrite Hi in H. cbn [bind] in H. inv H.
    destruct (ti_pending_live _ I _ _ _ _ _ _ Hn Hc Hp Hi) as [eo [O1 [O2 [O3 [O4 O5]]]]].
    assert (Hlt : i < q_count (y_q s)) by (rewrite <- O2; apply live_lt; auto).
    unfold put_proc. cbn [y_with y_q y_log y_nodes world_of w_q w_log].
    assert (Hin : In i (q_canceled (q_cancel (y_q s) i))) by (cbn; apply in_nins; auto).
    split; auto. split; [apply cancelled_dead; auto|]. split; [reflexivity|].
    eexists _, _. rewrite sgetN_sins, N.eqb_refl. split; [reflexivity|]. cbn [nd_put sd_procs].
    rewrite sgetN_sins, N.eqb_refl. split; [reflexivity|]. cbn [pe_with pe_ptimers]. split.
    - rewrite sgetN_srem, N.eqb_refl. reflexivity.
    - intros n' Hne. rewrite sgetN_srem. destruct (N.eqb_spec n' n); [contradiction|]. reflexivity.
  Qed.

  (* cancel_timer on a name that is not pending: no effect (but the entry in the event log) *)
  Theorem cancel_noop (s : simsys) nname nd proc p n s' :
    sget N.compare nname (y_nodes s) = Some nd ->
    sget N.compare proc (sd_procs nd) = Some p -> sget N.compare n (pe_ptimers p) = None ->
    sys_action s nname proc (ATimerCancel n) = Ok s' ->
    y_q s' = y_q s /\ y_log s' = y_log s /\ y_net s' = y_net s /\
    exists nd' p', sget N.compare nname (y_nodes s') = Some nd' /\ sget N.compare proc (sd_procs nd') = Some p' /\
                   pe_ptimers p' = pe_ptimers p /\
                   pe_evlog p' = pe_evlog p ++ [(q_clock (y_q s), PTimerCancelled n)].
  Proof.
    intros Hn Hp Ho H. unfold SimBaseP.sys_action in H. rewrite Hn, Hp in H.
    cbn [Sim.node_action] in H. rewrite Ho in H. cbn [bind] in H. inv H.
    unfold put_proc. cbn [y_with y_q y_log y_net y_nodes world_of w_q w_log w_net].
    repeat (split; [reflexivity|]).
    eexists _, _. rewrite sgetN_sins, N.eqb_refl. split; [reflexivity|]. cbn [nd_put sd_procs].
    rewrite sgetN_sins, N.eqb_refl. split; [reflexivity|]. cbn. auto.
  Qed.

  (* set_timer / set_timer_once on a free name installs a live event *)
  Theorem set_fresh (s : simsys) nname nd proc p n d once s' :
    BaseInv s ->
    sget N.compare nname (y_nodes s) = Some nd ->
    sget N.compare proc (sd_procs nd) = Some p -> sget N.compare n (pe_ptimers p) = None ->
    sys_action s nname proc (ATimerSet n d once) = Ok s' ->
    let new := q_count (y_q s) in
    In (mk_ev ops (y_q s) (QTimer proc n) (sd_id nd) (sd_id nd) d) (q_live (y_q s')) /\
    y_log s' = y_log s ++ [LTimerSet (q_clock (y_q s)) new n nname proc d] /\
    exists nd' p', sget N.compare nname (y_nodes s') = Some nd' /\ sget N.compare proc (sd_procs nd') = Some p' /\
                   pe_ptimers p' = sins N.compare n new (pe_ptimers p).
  Proof.
    intros B Hn Hp Ho H new. unfold SimBaseP.sys_action in H. rewrite Hn, Hp in H.
    cbn [Sim.node_action] in H. rewrite Ho in H.
    destruct (q_add ops _ _ _ _ _) as [[q2 i]|] eqn:Ea in H; [|discriminate]. cbn [bind] in H. inv H.
    cbn [world_of w_q] in Ea. apply q_add_live in Ea; [|apply (base_canc_lt _ B)].
    destruct Ea as (-> & L & C & K & _).
    unfold put_proc. cbn [y_with y_q y_log y_nodes w_q w_log]. split; [|split].
    - rewrite L. apply in_app_iff. right. left. reflexivity.
    - reflexivity.
    - eexists _, _. rewrite sgetN_sins, N.eqb_refl. split; [reflexivity|]. cbn [nd_put sd_procs].
      rewrite sgetN_sins, N.eqb_refl. split; reflexivity.
  Qed.

  (* firing: when the live event QTimer p n is popped and delivered, the name is removed from the pending timers
     and LTimerFired is logged BEFORE the handler's actions are performed (they start from the state `s1` below,
     in which `n` is free: a set_timer_once n issued by the handler is therefore not ignored), and the id of the
     fired event is dead for good. *)
  Theorem fire_removes (s : simsys) q' e p n s2 :
    BaseInv s -> TimerInv s ->
    q_next ops (y_q s) = (q', Some e) -> q_data e = QTimer p n ->
    sget N.compare (q_dst e) (y_handlers s) = Some true ->
    deliver ops handler draws (with_q s q') e = Ok s2 ->
    exists nname nd pe st' acts used,
      sget N.compare nname (y_nodes s) = Some nd /\ sd_crashed nd = false /\ sd_id nd = q_dst e /\
      sget N.compare p (sd_procs nd) = Some pe /\ sget N.compare n (pe_ptimers pe) = Some (q_id e) /\
      handler p (pe_state pe) (InTimer n) (tadd ops (q_time e) (sd_skew nd)) (fun i => draws (q_rand (y_q s) + i)%nat)
        = (st', acts, used) /\
      let s1 := pre_state (with_q s q') nname nd p pe (HTimer n) st' used in
      sys_actions ops draws s1 nname p acts = Ok s2 /\
      y_log s1 = y_log s ++ [LTimerFired (q_time e) (q_id e) n nname p] /\
      dead_id (q_id e) (y_q s1) /\
      exists nd1 pe1, sget N.compare nname (y_nodes s1) = Some nd1 /\ sget N.compare p (sd_procs nd1) = Some pe1 /\
                      sget N.compare n (pe_ptimers pe1) = None /\
                      (forall n', n' <> n -> sget N.compare n' (pe_ptimers pe1) = sget N.compare n' (pe_ptimers pe)) /\
                      pe_evlog pe1 = pe_evlog pe.
  Proof.
    intros B I Hq Hd Hh Hdel.
    destruct (deliver_decomp ops handler draws s q' e s2 B Hh Hdel)
      as (nname & nd & pe & st' & acts & used & Hn & Hc & Hid & Hp & Hhd & Ha).
    assert (Ek : ev_kind e = (p, HTimer n)) by (unfold ev_kind; rewrite Hd; reflexivity).
    rewrite Ek in *. cbn [fst snd] in *.
    pose proof (qw_nodup _ _ (bi_q _ B)) as Hnd.
    pose proof (q_next_live _ _ _ _ Hnd Hq) as Hlive.
    destruct (ti_live_pending _ I _ _ _ _ _ Hn Hc Hlive Hd (eq_sym Hid)) as [pe0 [A1 A2]].
    assert (pe0 = pe) by congruence. subst pe0.
    pose proof (q_next_spec _ _ _ _ Hnd Hq) as [S [Hclk [l1 [l2 [E1 E2]]]]].
    exists nname, nd, pe, st', acts, used. repeat (split; [assumption|]).
    cbn [pre_pe k_input] in Hhd. rewrite A2 in Hhd. cbn [fst pe_with pe_state] in Hhd.
    rewrite Hclk, (qs_rand _ _ S) in Hhd. split; [exact Hhd|].
    cbv zeta. split; [exact Ha|].
    unfold pre_state, put_proc. cbn [y_with y_log y_q y_nodes w_q w_log with_q pre_log pre_pe].
    rewrite A2. cbn [snd fst]. rewrite Hclk. split; [reflexivity|]. split.
    - split.
      + cbn [q_used q_with q_count]. rewrite (qs_count _ _ S). apply live_lt; auto.
      + intros x Hx. change (q_live (q_used q' used)) with (q_live q') in Hx. rewrite E2 in Hx.
        intros Eid. pose proof (q_live_nodup _ Hnd) as Hnl. rewrite E1 in Hnl.
        apply (NoDup_map_app_not_in q_id _ _ _ Hnl). rewrite <- Eid. apply in_map. auto.
    - eexists _, _. rewrite sgetN_sins, N.eqb_refl. split; [reflexivity|]. cbn [nd_put sd_procs].
      rewrite sgetN_sins, N.eqb_refl. split; [reflexivity|]. unfold set_state. cbn [pe_with pe_ptimers pe_evlog].
      split; [|split; [|reflexivity]].
      + rewrite sgetN_srem, N.eqb_refl. reflexivity.
      + intros n' Hne. rewrite sgetN_srem. destruct (N.eqb_spec n' n); [contradiction|]. reflexivity.
  Qed.

  (* the queue lemma behind "never fires": an id that is cancelled (or otherwise not live) is never popped later *)
  Theorem cancelled_never_delivered (s : simsys) i l s1 q' e :
    BaseInv s -> i < q_count (y_q s) -> In i (q_canceled (y_q s)) ->
    sstar s l s1 -> q_next ops (y_q s1) = (q', Some e) -> q_id e <> i.
  Proof.
    intros B Hi Hc. eapply dead_never_delivered; eauto. apply cancelled_dead; auto.
  Qed.
End SimTimer.

Print Assumptions timer_reachable.
Print Assumptions timer_unique.
Print Assumptions set_replaces.
Print Assumptions set_once_ignored.
Print Assumptions cancel_prevents.
Print Assumptions cancel_noop.
Print Assumptions set_fresh.
Print Assumptions fire_removes.
Print Assumptions cancelled_never_delivered.
