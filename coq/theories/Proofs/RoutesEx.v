(* Known finding F15 as a refutation example: the two initialisation routes of C15 do not visit the same states.
   One process, on a local message, sets timer 1 with delay 2 and then timer 0 with delay 0 (both set_timer_once).
   Route A: the local message is handled by the simulator, then the snapshot is taken: the pending list is in real
            firing order [timer 0 (remaining 0); timer 1 (remaining 2)], so timer 1 is withheld behind timer 0.
   Route B: the local message is handled in the checker's preliminary callback: the pending list is in insertion
            order [timer 1 (2); timer 0 (0)], no timer is withheld (2 <= 0 is false): both firing orders are explored.
   Both are sound over-approximations of real time (timer 0 really fires first); they are not equal. *)
From Coq Require Import List ZArith NArith Bool.
Import ListNotations.
From ASV Require Import Base.Util Base.Msg Base.Log Model.Store Spec.StoreSpec Spec.RefSys Model.McSys Model.Sim Model.Snapshot
     Spec.TimeLaws Spec.SimSpec Proofs.McCompose Proofs.SnapshotP.
Open Scope N_scope.

Module RoutesEx.
  Definition m0 : msg := {| tip := [1]; data := [] |}.
  Definition acts : list (action Z) := [ATimerSet 1 2%Z true; ATimerSet 0 0%Z true].
  Definition hS (p : N) (st : unit) (i : input) (t : Z) (r : nat -> Z) : unit * list (action Z) * nat :=
    match i with InLocal _ => (tt, acts, O) | _ => (tt, [], O) end.
  Definition hM (p : N) (st : unit) (i : input) (t : Z) (r : nat -> Z) : unit * list (action Z) :=
    match i with InLocal _ => (tt, acts) | _ => (tt, []) end.
  Definition soC := concrete_ops Z.leb (fun _ _ _ => true).
  Definition run l := run_ops z_ops hS (fun _ => tt) (fun _ => 0%Z) (fun l => l) 5 (sys0 z_ops) l.
  Definition st_of (r : result (@simsys Z unit * list sret)) : @simsys Z unit :=
    match r with Ok (s, _) => s | Panic _ => sys0 z_ops end.
  Definition base : list (@sop Z) := [YAddNode 1; YAddProcess 5 1].
  Definition sB := st_of (run base).
  Definition sA := st_of (run (base ++ [YSendLocal 5 m0])).
  Definition snap (s : @simsys Z unit) : @mcsys Z (store Z) unit :=
    match snapshot z_ops soC s with Ok mc => mc | Panic _ => init_sys (PS := unit) soC [] (snap_net s) 0 false [] end.
  Definition routeA := snap sA.
  Definition routeB : result (@mcsys Z (store Z) unit) :=
    send_local soC (Z.ltb 0) (Z.eqb 0) 0%Z (fun _ sk => sk) hM unit (fun _ _ => 0%Z) (fun _ => tt) (snap sB) 1 5 m0.

  Definition mB : @mcsys Z (store Z) unit := match routeB with Ok m => m | Panic _ => routeA end.

  (* the simulated prefix is a reachable simulator state with every process installed *)
  Lemma sA_reachable : Reachable z_ops hS (fun _ => tt) (fun _ => 0%Z) (fun l => l) sA.
  Proof. exists 5%nat, (base ++ [YSendLocal 5 m0]), [RetUnit; RetUnit; RetUnit]. vm_compute. reflexivity. Qed.

  Lemma routeA_ok : snapshot z_ops soC sA = Ok routeA.
  Proof. vm_compute. reflexivity. Qed.
  Lemma routeB_ok : routeB = Ok mB.
  Proof. vm_compute. reflexivity. Qed.

  (* same processes (state, outbox, pending-timer names, counters), same network, same two timers pending ... *)
  Lemma routes_same_processes :
    map (fun p => (fst p, map (fun q => (fst q, pe_state (snd q), pe_outbox (snd q), map fst (pe_ptimers (snd q))))
                              (nd_procs (snd p)))) (s_nodes routeA) =
    map (fun p => (fst p, map (fun q => (fst q, pe_state (snd q), pe_outbox (snd q), map fst (pe_ptimers (snd q))))
                              (nd_procs (snd p)))) (s_nodes mB)
    /\ s_net routeA = s_net mB.
  Proof. split; vm_compute; reflexivity. Qed.

  (* ... but in different orders: the snapshot lists them in real firing order, the callback in insertion order *)
  Lemma routes_pending :
    so_live soC (s_events routeA) = [(0, ETimer 5 0 0%Z); (1, ETimer 5 1 2%Z)] /\
    so_live soC (s_events mB) = [(0, ETimer 5 1 2%Z); (1, ETimer 5 0 0%Z)].
  Proof. split; vm_compute; reflexivity. Qed.

  (* so the snapshot route offers only timer 0 first, the callback route offers both: the schedule "timer 1 fires
     before timer 0" is explored by route B only - the two routes do not visit the same states *)
  Theorem routes_differ :
    all_choices soC routeA = Ok [ChDeliver 0] /\ all_choices soC mB = Ok [ChDeliver 0; ChDeliver 1].
  Proof. split; vm_compute; reflexivity. Qed.
End RoutesEx.

Print Assumptions RoutesEx.routes_differ.
