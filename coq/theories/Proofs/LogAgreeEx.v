(* Non-vacuity of Proofs/LogAgree.v: a concrete system of two table-driven processes (T := N, the reference store).
   The initial system has the invariant; after the callback and one expansion a successor state carries a
   NON-EMPTY event log whose delivery is exactly the one the process recorded. *)
From Coq Require Import List NArith Bool Lia.
From ASV Require Import Base.Util Base.Msg Base.Log Model.Store Spec.StoreSpec Model.McSys Spec.RefSys Model.Script
     Proofs.UtilP Proofs.LogAgree.
Import ListNotations.
Open Scope N_scope.

Definition l_tgt0 (b : N) : bool := negb (N.eqb b 0).
Definition l_teq0 (b : N) : bool := N.eqb b 0.
Definition l_clock (d s : N) : N := d + s.
Definition l_ops : @store_ops N (astore N) := abstract_ops N.leb (fun _ _ _ => true).
Definition l_msg : msg := {| tip := [65]; data := [1; 2] |}.
Definition l_progs : list (N * prog N) :=
  [(10, {| pg_cap := 2; pg_rows := [[ASend l_msg 20]]; pg_rectime := false; pg_ndraws := O; pg_stateless := false |});
   (20, {| pg_cap := 2; pg_rows := [[ALocal l_msg]]; pg_rectime := false; pg_ndraws := O; pg_stateless := false |})].
Definition l_handler := progs_handler l_progs.
Definition l_pe : pentry N (pstate N) :=
  {| pe_state := pstate0; pe_evlog := []; pe_outbox := []; pe_ptimers := []; pe_sent := 0; pe_recv := 0 |}.
Definition l_net : @mcnet N :=
  {| n_corrupt := 0; n_dupl := 0; n_drop := 0; n_drop_in := []; n_drop_out := []; n_links := [];
     n_loc := [(10, 1); (20, 2)]; n_maxdelay := 0 |}.
Definition l_node (p : N) : @mcnode N (pstate N) := {| nd_procs := [(p, l_pe)]; nd_skew := 0; nd_crashed := false |}.
Definition l_init : @mcsys N (astore N) (pstate N) :=
  {| s_nodes := [(1, l_node 10); (2, l_node 20)]; s_net := l_net; s_events := aempty; s_depth := 0;
     s_mf := false; s_trace := [] |}.
Definition l_cb := cb_run l_ops l_tgt0 l_teq0 0 l_clock l_handler unit (fun _ _ => 0) (fun _ => tt).
Definition l_expand := expand_sys l_ops l_tgt0 l_teq0 0 l_clock l_handler unit (fun _ _ => 0) (fun _ => tt).
Definition l_inv := @SysInv N (astore N) (pstate N) (script_tracks l_progs) _ script_dkey (@script_rec N).

Example l_init_inv : l_inv l_init.
Proof.
  unfold l_inv, SysInv, AllP, l_init. cbn [s_nodes].
  repeat constructor; unfold NodeInv, AllP; cbn; repeat constructor; intros _; reflexivity.
Qed.

Example l_tracks : script_tracks l_progs 10 = true /\ script_tracks l_progs 20 = true.
Proof. split; reflexivity. Qed.

(* the delivery of the message to process 20: its event log and its own record both tell that one delivery *)
Example l_successor_nontrivial :
  match l_cb l_init [CbLocal 1 10 l_msg] with
  | Ok s1 =>
    match l_expand s1 with
    | Ok (_, st :: _) =>
      match sget N.compare 2 (st_nodes st) with
      | Some ns =>
        match sget N.compare 20 (ns_procs ns) with
        | Some p => log_deliveries script_dkey (pe_evlog p) = [script_dkey l_msg 10]
                    /\ script_rec (pe_state p) = [script_dkey l_msg 10]
                    /\ length (pe_evlog p) = 2%nat
        | None => False
        end
      | None => False
      end
    | _ => False
    end
  | Panic _ => False
  end.
Proof. vm_compute. auto. Qed.

(* and the general theorem applies to it *)
Example l_successors_inv :
  forall s1 s2 sts, l_cb l_init [CbLocal 1 10 l_msg] = Ok s1 -> l_expand s1 = Ok (s2, sts) ->
  Forall (StateInv (script_tracks l_progs) script_dkey (@script_rec N)) sts.
Proof.
  intros s1 s2 sts H1 H2.
  pose proof (cb_run_inv l_ops l_tgt0 l_teq0 0 l_clock l_handler unit (fun _ _ => 0) (fun _ => tt)
                (script_tracks l_progs) script_dkey (@script_rec N) (script_handler_records l_progs) _ _ _ H1 l_init_inv) as Hi.
  exact (proj2 (expand_sys_inv l_ops l_tgt0 l_teq0 0 l_clock l_handler unit (fun _ _ => 0) (fun _ => tt)
                (script_tracks l_progs) script_dkey (@script_rec N) (script_handler_records l_progs) _ _ _ H2 Hi)).
Qed.
