(* PROPERTY C08 -- "A crash isolates a node and recovery starts clean (simulation)."

   Everything below is about the model Model/Sim.v, for an arbitrary handler, init_state, random stream `draws`
   and time algebra `ops`: NO assumption on time arithmetic (time_laws) or on the draws is needed.  The only
   hypothesis, used for the log clause of K1 (and inherited by its corollaries), is
       crash_perm : forall l, Permutation (crash_order l) l.
   Statements are about runs that return Ok (panics and fuel exhaustion are excluded by the hypotheses).

   INVARIANT (Inv, holds in sys0, kept by every sim_op, hence in every Reachable state: reachable_inv)
     QInv  (I1, I3)  ids of queue events are < q_count and pairwise distinct; every QMsg event has q_src / q_dst = the
                     component ids (sn_node_ids) of its src_node / dst_node; every QTimer event has q_src = q_dst = the id
                     of a registered node.
     NInv  (I2)      y_nodes is a sorted map; 1 <= y_ncomp; node ids are in [1, y_ncomp) ("net" is 0) and distinct for
                     distinct nodes; y_handlers (sd_id nd) = Some (negb (sd_crashed nd)); sn_node_ids maps a name to
                     cid iff y_nodes has a node of that name with sd_id = cid.
     inv_pn          y_proc_nodes is a sorted map.
   The suggested clause I4 (events pending at the crash are cancelled) is not a state invariant ("at the crash" is not
   a function of the state); it is replaced by the stable predicate
     Dead i s := i < q_count (y_q s) /\ every event of the queue with id i is in q_canceled
   (the id was allocated - so never allocated again, q_count only grows - and no live event carries it).

   THEOREMS
     K1 crash_cancels_inflight (+ crash_cancels_messages, crash_cancels_timers): exact effect of YCrash n.
     K2 dead_stable / dead_stable_run / cancelled_never_delivered: Dead i is stable under every call; a step from a
        Dead-i state does not pop an event with id i (step_never_delivers_dead, step_true_inv).
        Instrumented form: sim_op_tr / run_ops_tr are the model's functions returning in addition the list of
        events handed to `deliver`; sim_op_erase / run_ops_erase: forgetting the trace gives back sim_op / run_ops
        (as equations, so every run has exactly one trace: run_ops_has_trace); dead_not_traced(_run): no event with a
        dead id occurs in the trace.
     K3 silent_while_crashed, silent_between, silent_between_exact, send_local_crashed_panics.
     K4 fresh_after_recover, recover_unregisters, recover_not_crashed_panics, add_process_fresh, recover_then_add.
     K5 crash_frame, recover_frame, others_unaffected.
     K6 crash_isolates (from any state satisfying Inv), crash_isolates_from_start (from sys0).

   WHERE THE MODEL DIFFERS FROM THE SUGGESTED STATEMENTS (see Module Examples at the end, evaluated by vm_compute)
   (a) K3 "the entry of a crashed node is unchanged by every call except recover / add_process / set_clock_skew on
       it" is FALSE: read_local_messages (YReadLocal, and the reads inside YStepUntilLocal... calls) on a process of the
       crashed node still empties that process' outbox (Examples.crashed_outbox_before / _after_read).  No handler
       runs.  The theorem proved is: the entry changes at most by emptied outboxes (node_quiet: same id, skew, crashed
       flag, local-message counter, same processes with the same state, event log, timers, sent/received counters,
       outbox equal or emptied), and it is EQUAL if the call does not read from a process placed on n
       (op_reads_from s n o = false); script versions silent_between (node_quiet) and silent_between_exact (equal).
   (b) Outside the property text (which speaks about what was pending AT the crash): a message sent to a process of
       n AFTER the crash is a live event; it is delivered to the re-added process if the node is recovered before its
       delivery time (Examples.sent_while_down_is_delivered_after_recovery), and silently discarded if it is popped
       while the node is down (Examples.sent_while_down_is_lost_if_stepped_while_down).  Not proved away.
   (c) "fresh ... counters": recovery clears the processes (so per-process state, event log, outbox, timers, sent /
       received counters are those of pe_new after add_process) but the model keeps the node's clock skew and its
       local-message counter sd_lcount across crash and recovery (recovered_copy). *)
From Coq Require Import List NArith Bool Lia Permutation PeanoNat.
From ASV Require Import Base.Util Base.Msg Base.Log Proofs.UtilP Model.Sim Spec.SimSpec.
Import ListNotations.
Open Scope N_scope.

Lemma bind_ok {A B} (r : result A) (f : A -> result B) y :
  bind r f = Ok y -> exists a, r = Ok a /\ f a = Ok y.
Proof. destruct r; cbn; intros H; [eauto | discriminate]. Qed.

Ltac binv H :=
  let a := fresh "a" in let H1 := fresh H "a" in let H2 := fresh H "b" in
  apply bind_ok in H; destruct H as [a [H1 H2]].

Definition CSN := CmpSpec_N.

Section SimCrash.
  Context {T : Type} (ops : time_ops T) {PS : Type}.
  Variable handler : N -> PS -> input -> T -> (nat -> T) -> PS * list (action T) * nat.
  Variable init_state : N -> PS.
  Variable draws : nat -> T.
  Variable crash_order : list (@qevent T) -> list (@qevent T).

  Notation qevent := (@qevent T).
  Notation simq := (@simq T).
  Notation simnet := (@simnet T).
  Notation simnode := (@simnode T PS).
  Notation simsys := (@simsys T PS).
  Notation world := (@world T).
  Notation sop := (@sop T).
  Notation pentry := (pentry T PS).
  Notation sim_op := (sim_op ops handler init_state draws crash_order).
  Notation run_ops := (run_ops ops handler init_state draws crash_order).
  Notation step := (step ops handler draws).
  Notation deliver := (deliver ops handler draws).
  Notation node_handle := (node_handle ops handler draws).
  Notation node_action := (node_action ops draws).
  Notation node_actions := (node_actions ops draws).
  Notation net_send := (net_send ops draws).
  Notation net_fate := (net_fate ops draws).
  Notation copy_delays := (copy_delays ops draws).
  Notation q_draw := (q_draw draws).
  Notation q_add := (q_add ops).
  Notation q_next := (q_next ops).
  Notation q_next_fuel := (q_next_fuel ops).
  Notation q_peek := (q_peek ops).
  Notation q_peek_fuel := (q_peek_fuel ops).
  Notation q_min := (q_min ops).
  Notation emit_copies := (emit_copies ops).
  Notation sget := (sget N.compare).
  Notation sins := (sins N.compare).

  (* ================================================================================================ *)
  (* 1. The queue                                                                                     *)
  (* ================================================================================================ *)

  (* an event is consistent with the node-id table `ids` (node name -> component id) of the network *)
  Definition ev_ok_parts (ids : list (N * N)) (src dst : N) (d : qdata) : Prop :=
    match d with
    | QMsg _ _ _ sn _ dn => sget sn ids = Some src /\ sget dn ids = Some dst
    | QTimer _ _ => src = dst /\ exists name, sget name ids = Some dst
    end.
  Definition ev_ok (ids : list (N * N)) (e : qevent) : Prop := ev_ok_parts ids (q_src e) (q_dst e) (q_data e).

  Record QInv (ids : list (N * N)) (q : simq) : Prop := {
    qi_lt : forall e, In e (q_events q) -> q_id e < q_count q;
    qi_nodup : NoDup (map q_id (q_events q));
    qi_ok : forall e, In e (q_events q) -> ev_ok ids e }.

  (* id i has been allocated and no live event carries it: it can never be delivered any more *)
  Definition QDead (i : N) (q : simq) : Prop :=
    i < q_count q /\ forall e, In e (q_events q) -> q_id e = i -> nmem i (q_canceled q) = true.

  Record qstep (ids : list (N * N)) (q q' : simq) : Prop := {
    qs_inv : QInv ids q -> QInv ids q';
    qs_count : q_count q <= q_count q';
    qs_dead : forall i, QDead i q -> QDead i q' }.

  Lemma qstep_refl ids q : qstep ids q q.
  Proof. split; auto. lia. Qed.

  Lemma qstep_trans ids q1 q2 q3 : qstep ids q1 q2 -> qstep ids q2 q3 -> qstep ids q1 q3.
  Proof.
    intros [A1 B1 C1] [A2 B2 C2]. split; auto. lia.
  Qed.

  (* same events and counter, cancel set grows *)
  Lemma qstep_same ids q q' :
    q_events q' = q_events q -> q_count q' = q_count q ->
    (forall i, nmem i (q_canceled q) = true -> nmem i (q_canceled q') = true) ->
    qstep ids q q'.
  Proof.
    intros He Hc Hm. split.
    - intros [A B C]. split; rewrite ?He, ?Hc; auto.
    - lia.
    - intros i [A B]. split; rewrite ?He, ?Hc; auto.
      intros e H1 H2. apply Hm. eauto.
  Qed.

  Lemma q_remove_in i l (e : qevent) : In e (q_remove i l) <-> In e l /\ q_id e <> i.
  Proof.
    unfold q_remove. rewrite filter_In, negb_true_iff, N.eqb_neq. tauto.
  Qed.

  (* events filtered by id, counter kept, cancel set keeps everything except possibly j *)
  Lemma qstep_remove ids q q' j :
    q_events q' = q_remove j (q_events q) -> q_count q' = q_count q ->
    (forall i, i <> j -> nmem i (q_canceled q) = true -> nmem i (q_canceled q') = true) ->
    qstep ids q q'.
  Proof.
    intros He Hc Hm. split.
    - intros [A B C]. split; rewrite ?He, ?Hc.
      + intros e H. apply q_remove_in in H. apply A, H.
      + unfold q_remove. apply NoDup_map_filter. auto.
      + intros e H. apply q_remove_in in H. apply C, H.
    - lia.
    - intros i [A B]. split; rewrite ?He, ?Hc; auto.
      intros e H Hi. apply q_remove_in in H. destruct H as [H1 H2].
      apply Hm; [congruence|]. apply (B e); auto.
  Qed.

  Lemma qstep_add ids q d src dst delay q' i :
    q_add q d src dst delay = Ok (q', i) -> ev_ok_parts ids src dst d -> qstep ids q q'.
  Proof.
    unfold Sim.q_add. destruct (tneg_eps_le ops delay); [|discriminate].
    intros H Hok. inversion H; subst; clear H. split.
    - intros [A B C]. split; cbn [q_events q_count q_with].
      + intros e H. apply in_app_iff in H. destruct H as [H|[H|[]]].
        * apply A in H. lia.
        * subst e. cbn. lia.
      + rewrite map_app. cbn [map q_id]. apply NoDup_snoc; auto.
        intros H. apply in_map_iff in H. destruct H as [e [H1 H2]]. apply A in H2. lia.
      + intros e H. apply in_app_iff in H. destruct H as [H|[H|[]]]; auto.
        subst e. exact Hok.
    - cbn. lia.
    - intros j [A B]. split; cbn [q_events q_count q_with q_canceled].
      + lia.
      + intros e H Hj. apply in_app_iff in H. destruct H as [H|[H|[]]]; [eauto|].
        subst e. cbn in Hj. lia.
  Qed.

  Lemma q_add_count q d src dst delay q' i : q_add q d src dst delay = Ok (q', i) -> i = q_count q.
  Proof.
    unfold Sim.q_add. destruct (tneg_eps_le ops delay); [|discriminate]. intros H; inversion H; auto.
  Qed.

  Lemma nmem_nins i j l : nmem i (nins j l) = true <-> i = j \/ nmem i l = true.
  Proof. rewrite !nmem_iff. apply in_nins. Qed.

  Lemma nmem_nrem i j l : nmem i (nrem j l) = true <-> nmem i l = true /\ i <> j.
  Proof. rewrite !nmem_iff. apply in_nrem. Qed.

  Lemma qstep_cancel ids q i : qstep ids q (q_cancel q i).
  Proof.
    apply qstep_same; auto. intros j H. cbn. apply nmem_nins. auto.
  Qed.

  (* q_cancel_pred *)
  Lemma in_cancel_fold (p : qevent -> bool) i l : forall acc,
    In i (fold_left (fun acc e => if p e then nins (q_id e) acc else acc) l acc) <->
    In i acc \/ exists e, In e l /\ p e = true /\ q_id e = i.
  Proof.
    induction l as [|x r IH]; cbn [fold_left]; intros acc.
    - split; auto. intros [H|[e [[] _]]]; auto.
    - rewrite IH. destruct (p x) eqn:Hp.
      + rewrite in_nins. split.
        * intros [[H|H]|[e [H1 H2]]]; auto.
          -- right. exists x. cbn. auto.
          -- right. exists e. cbn. tauto.
        * intros [H|[e [[H1|H1] [H2 H3]]]]; auto.
          -- subst. auto.
          -- right. exists e. auto.
      + split.
        * intros [H|[e [H1 H2]]]; auto. right. exists e. cbn. tauto.
        * intros [H|[e [[H1|H1] [H2 H3]]]]; auto.
          -- subst. congruence.
          -- right. exists e. auto.
  Qed.

  Lemma nmem_cancel_pred (q : simq) p i :
    nmem i (q_canceled (q_cancel_pred q p)) = true <->
    nmem i (q_canceled q) = true \/ exists e, In e (q_events q) /\ p e = true /\ q_id e = i.
  Proof.
    rewrite !nmem_iff. cbn. apply in_cancel_fold.
  Qed.

  Lemma qstep_cancel_pred ids q p : qstep ids q (q_cancel_pred q p).
  Proof.
    apply qstep_same; auto. intros j H. apply nmem_cancel_pred. auto.
  Qed.

  (* q_min returns an element *)
  Lemma q_min_in l e : q_min l = Some e -> In e l.
  Proof.
    revert e. induction l as [|x r IH]; cbn; intros e H; [discriminate|].
    destruct (q_min r) as [m|].
    - destruct (ev_before ops x m); inversion H; subst; auto.
    - inversion H; auto.
  Qed.

  Lemma q_next_fuel_step ids f : forall q q' oe, q_next_fuel f q = (q', oe) -> qstep ids q q'.
  Proof.
    induction f as [|f IH]; cbn [Sim.q_next_fuel]; intros q q' oe H.
    - inversion H; subst. apply qstep_refl.
    - destruct (q_min (q_events q)) as [e|] eqn:Hm.
      + destruct (nmem (q_id e) (q_canceled q)) eqn:Hc.
        * apply IH in H. eapply qstep_trans; [|exact H].
          apply qstep_remove with (j := q_id e); auto.
          cbn. intros i Hi Hn. apply nmem_nrem. auto.
        * inversion H; subst. apply qstep_remove with (j := q_id e); auto.
      + inversion H; subst. apply qstep_refl.
  Qed.

  Lemma q_next_step ids q q' oe : q_next q = (q', oe) -> qstep ids q q'.
  Proof. apply q_next_fuel_step. Qed.

  (* a popped event was in the queue and live *)
  Lemma q_next_fuel_live f : forall q q' e, q_next_fuel f q = (q', Some e) ->
    In e (q_events q) /\ nmem (q_id e) (q_canceled q) = false.
  Proof.
    induction f as [|f IH]; cbn [Sim.q_next_fuel]; intros q q' e H.
    - inversion H.
    - destruct (q_min (q_events q)) as [m|] eqn:Hm.
      + destruct (nmem (q_id m) (q_canceled q)) eqn:Hc.
        * apply IH in H. cbn [q_events q_canceled q_with] in H. destruct H as [H1 H2].
          apply q_remove_in in H1. destruct H1 as [H1 H3]. split; auto.
          destruct (nmem (q_id e) (q_canceled q)) eqn:Hn; auto.
          assert (X : nmem (q_id e) (nrem (q_id m) (q_canceled q)) = true) by (apply nmem_nrem; auto).
          congruence.
        * inversion H; subst. split; auto. apply q_min_in; auto.
      + inversion H.
  Qed.

  Lemma q_next_live q q' e : q_next q = (q', Some e) ->
    In e (q_events q) /\ nmem (q_id e) (q_canceled q) = false.
  Proof. apply q_next_fuel_live. Qed.

  Lemma q_next_not_dead q q' e i : q_next q = (q', Some e) -> QDead i q -> q_id e <> i.
  Proof.
    intros H [_ D] Hi. apply q_next_live in H. destruct H as [H1 H2].
    rewrite Hi in H2. rewrite (D e H1 Hi) in H2. discriminate.
  Qed.

  Lemma q_peek_fuel_step ids f : forall q q' oe, q_peek_fuel f q = (q', oe) -> qstep ids q q'.
  Proof.
    induction f as [|f IH]; cbn [Sim.q_peek_fuel]; intros q q' oe H.
    - inversion H; subst. apply qstep_refl.
    - destruct (q_min (q_events q)) as [e|] eqn:Hm.
      + destruct (nmem (q_id e) (q_canceled q)) eqn:Hc.
        * apply IH in H. eapply qstep_trans; [|exact H].
          apply qstep_remove with (j := q_id e); auto.
          cbn. intros i Hi Hn. apply nmem_nrem. auto.
        * inversion H; subst. apply qstep_refl.
      + inversion H; subst. apply qstep_refl.
  Qed.

  Lemma q_peek_step ids q q' oe : q_peek q = (q', oe) -> qstep ids q q'.
  Proof. apply q_peek_fuel_step. Qed.

  (* ================================================================================================ *)
  (* 2. Network and node: what a handler's actions do to the queue                                    *)
  (* ================================================================================================ *)

  Record qsame (q q' : simq) : Prop := {
    qe_events : q_events q' = q_events q;
    qe_count : q_count q' = q_count q;
    qe_canc : q_canceled q' = q_canceled q }.

  Lemma qsame_refl q : qsame q q.
  Proof. split; reflexivity. Qed.
  Lemma qsame_trans q1 q2 q3 : qsame q1 q2 -> qsame q2 q3 -> qsame q1 q3.
  Proof. intros [A B C] [A' B' C']. split; congruence. Qed.
  Lemma qsame_step ids q q' : qsame q q' -> qstep ids q q'.
  Proof. intros [A B C]. apply qstep_same; auto. intros i. rewrite C. auto. Qed.

  Lemma q_draw_same q : qsame q (snd (q_draw q)).
  Proof. split; reflexivity. Qed.

  Lemma copy_delays_same k n : forall q ds q', copy_delays k n q = (ds, q') -> qsame q q'.
  Proof.
    induction k as [|k IH]; cbn [Sim.copy_delays]; intros q ds q' H.
    - inversion H; subst. apply qsame_refl.
    - unfold Sim.q_draw in H.
      destruct (copy_delays k n _) as [ds1 q2] eqn:E in H. inversion H; subst.
      apply IH in E. destruct E as [A B C]. split; auto.
  Qed.

  Lemma net_fate_same n q m sn dn f q' : net_fate n q m sn dn = (f, q') -> qsame q q'.
  Proof.
    unfold Sim.net_fate, Sim.q_draw.
    destruct (_ || _).
    - intros H; inversion H; subst. split; reflexivity.
    - destruct (negb _).
      + destruct (copy_delays 1 n _) as [ds q3] eqn:E. intros H; inversion H; subst.
        apply copy_delays_same in E. destruct E as [A B C]. split; auto.
      + destruct (copy_delays (N.to_nat _) n _) as [ds q3] eqn:E. intros H; inversion H; subst.
        apply copy_delays_same in E. destruct E as [A B C]. split; auto.
  Qed.

  Lemma emit_copies_step ids d src dst : ev_ok_parts ids src dst d ->
    forall ds q q', emit_copies q d src dst ds = Ok q' -> qstep ids q q'.
  Proof.
    intros Hok. induction ds as [|dl r IH]; cbn [Sim.emit_copies]; intros q q' H.
    - inversion H; subst. apply qstep_refl.
    - binv H. destruct a as [q1 i]. eapply qstep_trans.
      + eapply qstep_add; eauto.
      + eauto.
  Qed.

  Lemma net_bump_ids (n : simnet) c sz : sn_node_ids (net_bump n c sz) = sn_node_ids n.
  Proof. reflexivity. Qed.

  Lemma net_send_step n q m src dst n' q' logs :
    net_send n q m src dst = Ok (n', q', logs) ->
    qstep (sn_node_ids n) q q' /\ sn_node_ids n' = sn_node_ids n.
  Proof.
    unfold Sim.net_send.
    destruct (sget src (sn_loc n)) as [sn|]; [|discriminate].
    destruct (sget dst (sn_loc n)) as [dn|]; [|discriminate].
    destruct (sget sn (sn_node_ids n)) as [sid|] eqn:Hs; [|discriminate].
    destruct (sget dn (sn_node_ids n)) as [did|] eqn:Hd; [|discriminate].
    assert (Hok : forall mid m', ev_ok_parts (sn_node_ids n) sid did (QMsg mid m' src sn dst dn)).
    { intros. cbn. auto. }
    destruct (N.eqb sn dn).
    - intros H. binv H. destruct a as [q1 i]. inversion Hb; subst. split; auto.
      eapply qstep_add; eauto.
    - destruct (net_fate n q m sn dn) as [f q1] eqn:Hf.
      apply net_fate_same in Hf. apply (qsame_step (sn_node_ids n)) in Hf.
      destruct f as [|m' ds].
      + intros H; inversion H; subst. split; auto.
      + intros H. binv H. inversion Hb; subst. split; auto.
        eapply qstep_trans; [exact Hf|]. eapply emit_copies_step; eauto.
  Qed.

  (* a step of the world: the queue steps, the node-id table is untouched *)
  Definition wstep (w w' : world) : Prop :=
    qstep (sn_node_ids (w_net w)) (w_q w) (w_q w') /\ sn_node_ids (w_net w') = sn_node_ids (w_net w).

  Lemma wstep_refl w : wstep w w.
  Proof. split; auto. apply qstep_refl. Qed.
  Lemma wstep_eq (w w' : world) : w_q w' = w_q w -> w_net w' = w_net w -> wstep w w'.
  Proof. intros A B. split; rewrite ?A, ?B; auto. apply qstep_refl. Qed.
  Lemma wstep_trans w1 w2 w3 : wstep w1 w2 -> wstep w2 w3 -> wstep w1 w3.
  Proof.
    intros [A B] [C D]. split; [|congruence]. rewrite B in C. eapply qstep_trans; eauto.
  Qed.

  Lemma node_action_step nname nid proc time (p : pentry) lc (w : world) a p' lc' w' :
    (exists name, sget name (sn_node_ids (w_net w)) = Some nid) ->
    node_action nname nid proc time p lc w a = Ok (p', lc', w') -> wstep w w'.
  Proof.
    intros Hreg. unfold Sim.node_action.
    assert (Hok : forall name, ev_ok_parts (sn_node_ids (w_net w)) nid nid (QTimer proc name)).
    { intros. cbn. auto. }
    destruct a as [m dst|m|name delay once|name].
    - intros H. binv H. destruct a as [[n' q'] logs]. inversion Hb; subst.
      apply net_send_step in Ha. exact Ha.
    - intros H; inversion H; subst. apply wstep_eq; reflexivity.
    - destruct (sget name (pe_ptimers p)) as [old|].
      + destruct once.
        * intros H; inversion H; subst. apply wstep_eq; reflexivity.
        * intros H. binv H. destruct a as [q2 i]. inversion Hb; subst. split; auto.
          cbn [w_q w_net]. eapply qstep_trans; [apply qstep_cancel|]. eapply qstep_add; eauto.
      + intros H. binv H. destruct a as [q2 i]. inversion Hb; subst. split; auto.
        cbn [w_q w_net]. eapply qstep_add; eauto.
    - destruct (sget name (pe_ptimers p)) as [i|].
      + intros H; inversion H; subst. split; auto. cbn [w_q w_net]. apply qstep_cancel.
      + intros H; inversion H; subst. apply wstep_eq; reflexivity.
  Qed.

  Lemma node_actions_step nname nid proc time acts : forall (p : pentry) lc (w : world) p' lc' w',
    (exists name, sget name (sn_node_ids (w_net w)) = Some nid) ->
    node_actions nname nid proc time p lc w acts = Ok (p', lc', w') -> wstep w w'.
  Proof.
    induction acts as [|a r IH]; cbn [Sim.node_actions]; intros p lc w p' lc' w' Hreg H.
    - inversion H; subst. apply wstep_refl.
    - binv H. destruct a0 as [[p1 lc1] w1].
      pose proof (node_action_step _ _ _ _ _ _ _ _ _ _ _ Hreg Ha) as S1.
      eapply wstep_trans; [exact S1|]. eapply IH; [|exact Hb].
      destruct S1 as [_ E]. rewrite E. exact Hreg.
  Qed.

  Lemma node_handle_spec nname (nd : simnode) proc k (w : world) nd' w' :
    (exists name, sget name (sn_node_ids (w_net w)) = Some (sd_id nd)) ->
    node_handle nname nd proc k w = Ok (nd', w') ->
    wstep w w' /\ sd_id nd' = sd_id nd /\ sd_crashed nd' = sd_crashed nd /\ sd_skew nd' = sd_skew nd.
  Proof.
    intros Hreg. unfold Sim.node_handle.
    destruct (sget proc (sd_procs nd)) as [p|]; [|discriminate].
    destruct (match k with HMsg _ _ _ _ => _ | HTimer _ => _ | HLocal _ => _ end) as [p1 tlog].
    destruct (handler _ _ _ _ _) as [[st' acts] used].
    intros H. binv H. destruct a as [[p3 lc] w2]. inversion Hb; subst. cbn [sd_id sd_crashed sd_skew].
    split; auto.
    apply node_actions_step in Ha.
    - eapply wstep_trans; [|exact Ha]. split; auto. cbn [w_q w_net].
      apply qstep_same; auto.
    - exact Hreg.
  Qed.

  (* ================================================================================================ *)
  (* 3. The invariant                                                                                 *)
  (* ================================================================================================ *)

  Lemma sget_sins_N {V} k k' (v : V) l : sget k' (sins k v l) = if N.eqb k' k then Some v else sget k' l.
  Proof.
    rewrite (sget_sins N.compare CSN). rewrite N.eqb_compare. destruct (N.compare k' k); reflexivity.
  Qed.

  Lemma sget_sins_same {V} k (v : V) l : sget k (sins k v l) = Some v.
  Proof. apply (sget_sins_eq N.compare CSN). Qed.

  Lemma sget_sins_other {V} k k' (v : V) l : k' <> k -> sget k' (sins k v l) = sget k' l.
  Proof. intros H. apply (sget_sins_neq N.compare CSN). auto. Qed.

  (* I2: the nodes, their component ids, their handlers, the network's name -> id table *)
  Record NInv (nodes : list (N * simnode)) (handlers : list (N * bool)) (ncomp : N) (ids : list (N * N)) : Prop := {
    ni_sorted : ssorted N.compare nodes;
    ni_ncomp : 1 <= ncomp;
    ni_range : forall name nd, sget name nodes = Some nd -> 1 <= sd_id nd < ncomp;     (* "net" is component 0 *)
    ni_inj : forall n1 n2 nd1 nd2, sget n1 nodes = Some nd1 -> sget n2 nodes = Some nd2 ->
                                   sd_id nd1 = sd_id nd2 -> n1 = n2;
    ni_handler : forall name nd, sget name nodes = Some nd ->
                                 sget (sd_id nd) handlers = Some (negb (sd_crashed nd));
    ni_ids : forall name cid, sget name ids = Some cid <-> exists nd, sget name nodes = Some nd /\ sd_id nd = cid }.

  (* I1 + I3 (queue), I2 (nodes), and proc_nodes is a map *)
  Record Inv (s : simsys) : Prop := {
    inv_q : QInv (sn_node_ids (y_net s)) (y_q s);
    inv_n : NInv (y_nodes s) (y_handlers s) (y_ncomp s) (sn_node_ids (y_net s));
    inv_pn : ssorted N.compare (y_proc_nodes s) }.

  Lemma inv_sys0 : Inv (sys0 ops).
  Proof.
    split; cbn.
    - split; cbn; [intros e [] | constructor | intros e []].
    - split; cbn; try discriminate.
      + constructor.
      + intros name cid. split; [discriminate|]. intros [nd [H _]]. discriminate.
    - constructor.
  Qed.

  (* replacing the entry of an existing node by one with the same id; the handler table follows the crashed flag *)
  Lemma ninv_update nodes h h' nc ids name nd nd' :
    NInv nodes h nc ids -> sget name nodes = Some nd -> sd_id nd' = sd_id nd ->
    sget (sd_id nd) h' = Some (negb (sd_crashed nd')) ->
    (forall c, c <> sd_id nd -> sget c h' = sget c h) ->
    NInv (sins name nd' nodes) h' nc ids.
  Proof.
    intros [Hs Hnc Hr Hi Hh Hd] Hg Hid Hh1 Hh2.
    assert (Old : forall n0 x, sget n0 (sins name nd' nodes) = Some x ->
                   exists y, sget n0 nodes = Some y /\ sd_id x = sd_id y /\
                             ((n0 = name /\ x = nd' /\ y = nd) \/ (n0 <> name /\ x = y))).
    { intros n0 x. rewrite sget_sins_N. destruct (N.eqb_spec n0 name) as [->|Hne]; intros H.
      - inversion H; subst. exists nd. repeat split; auto.
      - exists x. auto. }
    split.
    - apply (ssorted_sins N.compare CSN). auto.
    - exact Hnc.
    - intros n0 x H. apply Old in H. destruct H as [y [H1 [H2 _]]]. rewrite H2. eauto.
    - intros n1 n2 x1 x2 H1 H2 E. apply Old in H1, H2.
      destruct H1 as [y1 [A1 [B1 _]]]. destruct H2 as [y2 [A2 [B2 _]]].
      apply (Hi n1 n2 y1 y2); auto. congruence.
    - intros n0 x H. apply Old in H. destruct H as [y [H1 [H2 [[-> [-> ->]]|[Hne ->]]]]].
      + rewrite Hid. exact Hh1.
      + rewrite Hh2; [eauto|]. intros E. apply Hne. apply (Hi n0 name y nd); auto.
    - intros n0 cid. rewrite Hd. split.
      + intros [y [H1 H2]]. rewrite sget_sins_N. destruct (N.eqb_spec n0 name) as [->|Hne].
        * exists nd'. split; auto. congruence.
        * exists y. auto.
      + intros [x [H1 H2]]. apply Old in H1. destruct H1 as [y [H1 [H3 _]]]. exists y. split; auto. congruence.
  Qed.

  (* an update that keeps the crashed flag needs no change of the handler table *)
  Lemma ninv_update_keep nodes h nc ids name nd nd' :
    NInv nodes h nc ids -> sget name nodes = Some nd -> sd_id nd' = sd_id nd -> sd_crashed nd' = sd_crashed nd ->
    NInv (sins name nd' nodes) h nc ids.
  Proof.
    intros HI Hg Hid Hc. eapply ninv_update; eauto.
    rewrite Hc. apply (ni_handler _ _ _ _ HI _ _ Hg).
  Qed.

  Lemma ev_ok_mono ids ids' e :
    (forall n c, sget n ids = Some c -> sget n ids' = Some c) -> ev_ok ids e -> ev_ok ids' e.
  Proof.
    intros Hm. unfold ev_ok, ev_ok_parts. destruct (q_data e).
    - intros [A B]. split; auto.
    - intros [A [name B]]. split; auto. exists name. auto.
  Qed.

  Lemma inv_with s q' net' nodes' log' :
    Inv s -> qstep (sn_node_ids (y_net s)) (y_q s) q' -> sn_node_ids net' = sn_node_ids (y_net s) ->
    NInv nodes' (y_handlers s) (y_ncomp s) (sn_node_ids (y_net s)) ->
    Inv (y_with s q' net' nodes' log').
  Proof.
    intros [A B C] Hq Hn HN. split; cbn [y_q y_net y_nodes y_handlers y_ncomp y_proc_nodes y_with]; rewrite ?Hn; auto.
    apply (qs_inv _ _ _ Hq). auto.
  Qed.

  (* what a delivery does *)
  Lemma deliver_spec s e s' : Inv s -> deliver s e = Ok s' ->
    s' = s \/
    exists nname nd nd' q' net' log',
      sget nname (y_nodes s) = Some nd /\ sd_crashed nd = false /\ sd_id nd = q_dst e /\
      sd_id nd' = sd_id nd /\ sd_crashed nd' = false /\ sd_skew nd' = sd_skew nd /\
      qstep (sn_node_ids (y_net s)) (y_q s) q' /\ sn_node_ids net' = sn_node_ids (y_net s) /\
      s' = y_with s q' net' (sins nname nd' (y_nodes s)) log'.
  Proof.
    intros HI. unfold Sim.deliver.
    destruct (sget (q_dst e) (y_handlers s)) as [[|]|] eqn:Hh; try (intros H; inversion H; auto; fail).
    destruct (find _ (y_nodes s)) as [[nname nd]|] eqn:Hf; [|discriminate].
    apply find_some in Hf. destruct Hf as [Hin Hid]. cbn [snd] in Hid. apply N.eqb_eq in Hid.
    pose proof (inv_n _ HI) as HN.
    apply (sget_in N.compare CSN _ _ _ (ni_sorted _ _ _ _ HN)) in Hin.
    pose proof (ni_handler _ _ _ _ HN _ _ Hin) as Hc. rewrite Hid, Hh in Hc.
    assert (Hcr : sd_crashed nd = false) by (destruct (sd_crashed nd); auto; discriminate).
    assert (Hreg : exists name, sget name (sn_node_ids (y_net s)) = Some (sd_id nd)).
    { exists nname. apply (ni_ids _ _ _ _ HN). eauto. }
    intros H. binv H. destruct a as [nd' w']. inversion Hb; subst. right.
    assert (X : wstep {| w_q := y_q s; w_net := y_net s; w_log := y_log s |} w' /\
                sd_id nd' = sd_id nd /\ sd_crashed nd' = sd_crashed nd /\ sd_skew nd' = sd_skew nd).
    { destruct (q_data e); eapply node_handle_spec; eauto. }
    destruct X as [[X1 X2] [X3 [X4 X5]]]. cbn [w_q w_net] in X1, X2.
    exists nname, nd, nd', (w_q w'), (w_net w'), (w_log w').
    refine (conj Hin (conj Hcr (conj Hid (conj X3 (conj _ (conj X5 (conj X1 (conj X2 eq_refl)))))))). congruence.
  Qed.

  Lemma deliver_inv s e s' : Inv s -> deliver s e = Ok s' -> Inv s'.
  Proof.
    intros HI H. destruct (deliver_spec _ _ _ HI H) as [->|X]; auto.
    destruct X as [nname [nd [nd' [q' [net' [log' [H1 [H2 [H3 [H4 [H5 [H6 [H7 [H8 ->]]]]]]]]]]]]]].
    apply inv_with; auto. eapply ninv_update_keep; eauto. apply (inv_n _ HI).
  Qed.

  Lemma ninv_add nodes h nc ids name :
    NInv nodes h nc ids -> sget name nodes = None ->
    NInv (sins name {| sd_id := nc; sd_procs := []; sd_skew := tz ops; sd_crashed := false; sd_lcount := 0 |} nodes)
         (sins nc true h) (nc + 1) (sins name nc ids).
  Proof.
    intros [Hs Hnc Hr Hi Hh Hd] Hg.
    set (new := {| sd_id := nc; sd_procs := []; sd_skew := tz ops; sd_crashed := false; sd_lcount := 0 |}).
    assert (Old : forall n0 x, sget n0 (sins name new nodes) = Some x ->
                   (n0 = name /\ x = new) \/ (n0 <> name /\ sget n0 nodes = Some x)).
    { intros n0 x. rewrite sget_sins_N. destruct (N.eqb_spec n0 name) as [->|Hne]; intros H.
      - inversion H; subst. auto.
      - auto. }
    split.
    - apply (ssorted_sins N.compare CSN). auto.
    - lia.
    - intros n0 x H. apply Old in H. destruct H as [[-> ->]|[Hne H]].
      + cbn. lia.
      + apply Hr in H. lia.
    - intros n1 n2 x1 x2 H1 H2 E. apply Old in H1, H2.
      destruct H1 as [[-> ->]|[Hne1 H1]]; destruct H2 as [[-> ->]|[Hne2 H2]]; auto.
      + apply Hr in H2. cbn in E. lia.
      + apply Hr in H1. cbn in E. lia.
      + eapply Hi; eauto.
    - intros n0 x H. apply Old in H. destruct H as [[-> ->]|[Hne H]].
      + cbn [sd_id sd_crashed new negb]. apply sget_sins_same.
      + rewrite sget_sins_other; [eauto|]. apply Hr in H. lia.
    - intros n0 cid. rewrite !sget_sins_N. destruct (N.eqb_spec n0 name) as [->|Hne].
      + split.
        * intros H; inversion H; subst. exists new. auto.
        * intros [x [H1 H2]]. inversion H1; subst. reflexivity.
      + apply Hd.
  Qed.

  (* ---------------- reading local messages: the only thing that changes a node without running a handler ---------- *)
  Definition pe_drain (p : pentry) : pentry :=
    pe_with p (pe_state p) (pe_evlog p) [] (pe_ptimers p) (pe_sent p) (pe_recv p).
  Definition pe_drained (p p' : pentry) : Prop := p' = p \/ p' = pe_drain p.

  Definition opt_rel {A} (R : A -> A -> Prop) (a b : option A) : Prop :=
    match a, b with Some x, Some y => R x y | None, None => True | _, _ => False end.

  (* nd' is nd up to emptied outboxes: no handler ran, nothing was added or removed *)
  Record node_quiet (nd nd' : simnode) : Prop := {
    nq_id : sd_id nd' = sd_id nd;
    nq_skew : sd_skew nd' = sd_skew nd;
    nq_crashed : sd_crashed nd' = sd_crashed nd;
    nq_lcount : sd_lcount nd' = sd_lcount nd;
    nq_procs : forall p, opt_rel pe_drained (sget p (sd_procs nd)) (sget p (sd_procs nd')) }.

  Lemma pe_drained_refl p : pe_drained p p.
  Proof. left; auto. Qed.
  Lemma pe_drained_trans p1 p2 p3 : pe_drained p1 p2 -> pe_drained p2 p3 -> pe_drained p1 p3.
  Proof.
    intros [-> | ->] [-> | ->]; try (left; reflexivity); right; reflexivity.
  Qed.

  Lemma node_quiet_refl nd : node_quiet nd nd.
  Proof.
    split; auto. intros p. unfold opt_rel. destruct (sget p (sd_procs nd)); auto. apply pe_drained_refl.
  Qed.
  Lemma node_quiet_trans n1 n2 n3 : node_quiet n1 n2 -> node_quiet n2 n3 -> node_quiet n1 n3.
  Proof.
    intros [A B C D E] [A' B' C' D' E']. split; try congruence.
    intros p. specialize (E p). specialize (E' p). unfold opt_rel in *.
    destruct (sget p (sd_procs n1)), (sget p (sd_procs n2)), (sget p (sd_procs n3)); try tauto.
    eapply pe_drained_trans; eauto.
  Qed.

  Lemma read_local_spec s p s' r : read_local s p = Ok (s', r) ->
    s' = s \/
    exists nname nd nd',
      sget p (y_proc_nodes s) = Some nname /\ sget nname (y_nodes s) = Some nd /\ node_quiet nd nd' /\
      s' = y_with s (y_q s) (y_net s) (sins nname nd' (y_nodes s)) (y_log s).
  Proof.
    unfold Sim.read_local, Sim.node_of_proc. intros H. binv H. destruct a as [nname nd].
    destruct (sget p (y_proc_nodes s)) as [nn|] eqn:Hp; [|discriminate].
    destruct (sget nn (y_nodes s)) as [nd0|] eqn:Hn; [|discriminate].
    inversion Ha; subst.
    destruct (sget p (sd_procs nd)) as [pe|] eqn:Hpe; [|discriminate].
    destruct (pe_outbox pe) eqn:Ho.
    - inversion Hb; subst. auto.
    - inversion Hb; subst. right. eexists _, _, _. split; [reflexivity|]. split; [exact Hn|]. split; [|reflexivity].
      split; cbn [sd_id sd_skew sd_crashed sd_lcount sd_procs]; auto.
      intros q. rewrite sget_sins_N. destruct (N.eqb_spec q p) as [->|Hne].
      + rewrite Hpe. cbn. right. reflexivity.
      + unfold opt_rel. destruct (sget q (sd_procs nd)); auto. apply pe_drained_refl.
  Qed.

  Lemma read_local_inv s p s' r : Inv s -> read_local s p = Ok (s', r) -> Inv s'.
  Proof.
    intros HI H. apply read_local_spec in H. destruct H as [->|[nname [nd [nd' [H1 [H2 [H3 ->]]]]]]]; auto.
    apply inv_with; auto.
    - apply qstep_refl.
    - eapply ninv_update_keep; eauto. apply (inv_n _ HI). apply (nq_id _ _ H3). apply (nq_crashed _ _ H3).
  Qed.

  Lemma step_inv s s' b : Inv s -> step s = Ok (s', b) -> Inv s'.
  Proof.
    intros HI. unfold Sim.step. destruct (q_next (y_q s)) as [q' oe] eqn:Hq.
    assert (H1 : Inv (y_with s q' (y_net s) (y_nodes s) (y_log s))).
    { apply inv_with; auto. eapply q_next_step; eauto. apply (inv_n _ HI). }
    destruct oe as [e|].
    - intros H. binv H. inversion Hb; subst. eapply deliver_inv; eauto.
    - intros H; inversion H; subst. auto.
  Qed.

  Lemma peek_inv s q' oe : Inv s -> q_peek (y_q s) = (q', oe) -> Inv (y_with s q' (y_net s) (y_nodes s) (y_log s)).
  Proof.
    intros HI H. apply inv_with; auto. eapply q_peek_step; eauto. apply (inv_n _ HI).
  Qed.

  Lemma set_clock_inv s t : Inv s -> Inv (set_clock s t).
  Proof.
    intros HI. unfold Sim.set_clock. apply inv_with; auto.
    - apply qstep_same; auto.
    - apply (inv_n _ HI).
  Qed.

  (* ================================================================================================ *)
  (* 4. Stability principle: a property preserved by the primitive transitions (step, peek, clock     *)
  (*    update, read_local) is preserved by every stepping API call                                   *)
  (* ================================================================================================ *)

  Definition op_reads (o : sop) : option N :=
    match o with
    | YReadLocal p | YStepUntilLocal p | YStepUntilLocalMax p _ | YStepUntilLocalTimeout p _ => Some p
    | _ => None
    end.

  Definition is_step_op (o : sop) : bool :=
    match o with
    | YReadLocal _ | YStep | YSteps _ | YStepUntilNoEvents | YStepForDuration _
    | YStepUntilLocal _ | YStepUntilLocalMax _ _ | YStepUntilLocalTimeout _ _ => true
    | _ => false
    end.

  Section Stable.
    Variable P : simsys -> Prop.
    Variable reads : N -> Prop.
    Hypothesis P_step : forall s s' b, P s -> step s = Ok (s', b) -> P s'.
    Hypothesis P_peek : forall s q' oe, P s -> q_peek (y_q s) = (q', oe) ->
                                        P (y_with s q' (y_net s) (y_nodes s) (y_log s)).
    Hypothesis P_clock : forall s t, P s -> P (set_clock s t).
    Hypothesis P_read : forall s p s' r, reads p -> P s -> read_local s p = Ok (s', r) -> P s'.

    Lemma steps_fuel_stable fuel : forall s n s' b, P s -> steps_fuel ops handler draws fuel s n = Ok (s', b) -> P s'.
    Proof.
      induction fuel as [|f IH]; cbn [Sim.steps_fuel]; intros s n s' b HP H; [discriminate|].
      destruct (N.eqb n 0).
      - inversion H; subst; auto.
      - binv H. destruct a as [s1 b1]. pose proof (P_step _ _ _ HP Ha) as HP1. destruct b1.
        + eapply IH; eauto.
        + inversion Hb; subst; auto.
    Qed.

    Lemma until_no_events_stable fuel : forall s s', P s -> until_no_events ops handler draws fuel s = Ok s' -> P s'.
    Proof.
      induction fuel as [|f IH]; cbn [Sim.until_no_events]; intros s s' HP H; [discriminate|].
      binv H. destruct a as [s1 b1]. pose proof (P_step _ _ _ HP Ha) as HP1. destruct b1.
      - eapply IH; eauto.
      - inversion Hb; subst; auto.
    Qed.

    Lemma until_time_stable fuel : forall s t s' b, P s -> until_time ops handler draws fuel s t = Ok (s', b) -> P s'.
    Proof.
      induction fuel as [|f IH]; cbn [Sim.until_time]; intros s t s' b HP H; [discriminate|].
      destruct (q_peek (y_q s)) as [q' oe] eqn:Hq.
      pose proof (P_peek _ _ _ HP Hq) as HP1.
      destruct oe as [e|].
      - destruct (tltb ops t (q_time e)).
        + inversion H; subst. apply P_clock; auto.
        + binv H. destruct a as [s2 b2]. eapply IH; [|exact Hb]. eapply P_step; eauto.
      - inversion H; subst. apply P_clock; auto.
    Qed.

    Lemma until_local_stable fuel p : reads p -> forall s s' r, P s ->
      until_local ops handler draws fuel s p = Ok (s', r) -> P s'.
    Proof.
      intros Hr. induction fuel as [|f IH]; cbn [Sim.until_local]; intros s s' r HP H; [discriminate|].
      binv H. destruct a as [s1 r1]. pose proof (P_read _ _ _ _ Hr HP Ha) as HP1.
      destruct r1 as [l|].
      - inversion Hb; subst; auto.
      - binv Hb. destruct a as [s2 b2]. pose proof (P_step _ _ _ HP1 Hba) as HP2. destruct b2.
        + eapply IH; eauto.
        + inversion Hbb; subst; auto.
    Qed.

    Lemma until_local_max_stable fuel p mx : reads p -> forall s k s' r, P s ->
      until_local_max ops handler draws fuel s p k mx = Ok (s', r) -> P s'.
    Proof.
      intros Hr. induction fuel as [|f IH]; cbn [Sim.until_local_max]; intros s k s' r HP H; [discriminate|].
      destruct (N.ltb k mx).
      - binv H. destruct a as [s1 b1]. pose proof (P_step _ _ _ HP Ha) as HP1. destruct b1.
        + binv Hb. destruct a as [s2 r2]. pose proof (P_read _ _ _ _ Hr HP1 Hba) as HP2.
          destruct r2 as [l|].
          * inversion Hbb; subst; auto.
          * eapply IH; eauto.
        + inversion Hb; subst; auto.
      - inversion H; subst; auto.
    Qed.

    Lemma until_local_timeout_stable fuel p t : reads p -> forall s s' r, P s ->
      until_local_timeout ops handler draws fuel s p t = Ok (s', r) -> P s'.
    Proof.
      intros Hr. induction fuel as [|f IH]; cbn [Sim.until_local_timeout]; intros s s' r HP H; [discriminate|].
      destruct (tltb ops (now s) t).
      - binv H. destruct a as [s1 r1]. pose proof (P_read _ _ _ _ Hr HP Ha) as HP1.
        destruct r1 as [l|].
        + inversion Hb; subst; auto.
        + binv Hb. destruct a as [s2 b2]. pose proof (P_step _ _ _ HP1 Hba) as HP2. destruct b2.
          * eapply IH; eauto.
          * inversion Hbb; subst; auto.
      - inversion H; subst; auto.
    Qed.

    Theorem step_ops_stable fuel s o s' r :
      is_step_op o = true -> (forall p, op_reads o = Some p -> reads p) ->
      P s -> sim_op fuel s o = Ok (s', r) -> P s'.
    Proof.
      intros Hso Hr HP H. destruct o; try discriminate Hso; cbn [Sim.sim_op] in H.
      - binv H. destruct a as [s1 r1]. inversion Hb; subst. eapply P_read; eauto. apply Hr. reflexivity.
      - binv H. destruct a as [s1 b1]. inversion Hb; subst. eapply P_step; eauto.
      - binv H. destruct a as [s1 b1]. inversion Hb; subst. eapply steps_fuel_stable; eauto.
      - binv H. inversion Hb; subst. eapply until_no_events_stable; eauto.
      - binv H. destruct a as [s1 b1]. inversion Hb; subst. eapply until_time_stable; eauto.
      - binv H. binv Hb. destruct a0 as [s1 r1]. inversion Hbb; subst.
        eapply until_local_stable; eauto. apply Hr. reflexivity.
      - binv H. binv Hb. destruct a0 as [s1 r1].
        assert (HP1 : P s1) by (eapply P_read; eauto; apply Hr; reflexivity).
        destruct r1 as [l|].
        + inversion Hbb; subst; auto.
        + binv Hbb. destruct a0 as [s2 r2]. inversion Hbbb; subst.
          eapply until_local_max_stable; eauto. apply Hr. reflexivity.
      - binv H. binv Hb. destruct a0 as [s1 r1]. inversion Hbb; subst.
        eapply until_local_timeout_stable; eauto. apply Hr. reflexivity.
    Qed.
  End Stable.

  (* ================================================================================================ *)
  (* 5. The invariant holds in every reachable state                                                  *)
  (* ================================================================================================ *)

  Lemma shas_false_none {V} k (l : list (N * V)) : shas N.compare k l = false -> sget k l = None.
  Proof. unfold shas. destruct (sget k l); [discriminate | auto]. Qed.

  Lemma snet_apply_ids (n : simnet) t o n' logs : snet_apply n t o = (n', logs) -> sn_node_ids n' = sn_node_ids n.
  Proof. destruct o; cbn; intros H; inversion H; subst; reflexivity. Qed.

  Theorem sim_op_inv fuel s o s' r : Inv s -> sim_op fuel s o = Ok (s', r) -> Inv s'.
  Proof.
    intros HI H.
    destruct (is_step_op o) eqn:Hso.
    { eapply (step_ops_stable Inv (fun _ => True)); eauto.
      - intros; eapply step_inv; eauto.
      - intros; eapply peek_inv; eauto.
      - intros; eapply set_clock_inv; eauto.
      - intros; eapply read_local_inv; eauto. }
    pose proof (inv_q _ HI) as HQ. pose proof (inv_n _ HI) as HN. pose proof (inv_pn _ HI) as HP.
    destruct o; try discriminate Hso; cbn [Sim.sim_op] in H.
    - (* YAddNode *)
      destruct (shas N.compare name (y_nodes s)) eqn:Hh; [discriminate|]. apply shas_false_none in Hh.
      inversion H; subst; clear H. split; cbn [y_q y_net y_nodes y_handlers y_ncomp y_proc_nodes sn_node_ids]; auto.
      + destruct HQ as [A B C]. split; auto. intros e He. eapply ev_ok_mono; [|apply C; auto].
        intros n c Hn. rewrite sget_sins_other; auto. intros ->.
        apply (ni_ids _ _ _ _ HN) in Hn. destruct Hn as [nd [Hn _]]. congruence.
      + apply ninv_add; auto.
    - (* YAddProcess *)
      destruct (sget node (y_nodes s)) as [nd|] eqn:Hn; [|discriminate].
      destruct (shas N.compare proc (y_proc_nodes s)); [discriminate|].
      inversion H; subst; clear H. split; cbn [y_q y_net y_nodes y_handlers y_ncomp y_proc_nodes sn_node_ids]; auto.
      + eapply ninv_update_keep; eauto.
      + apply (ssorted_sins N.compare CSN). auto.
    - (* YSetSkew *)
      destruct (sget node (y_nodes s)) as [nd|] eqn:Hn; [|discriminate].
      inversion H; subst; clear H. apply inv_with; auto. apply qstep_refl. eapply ninv_update_keep; eauto.
    - (* YNet *)
      destruct (snet_apply (y_net s) (now s) o) as [n' logs] eqn:Ha. inversion H; subst; clear H.
      apply snet_apply_ids in Ha. apply inv_with; auto. apply qstep_refl.
    - (* YSendLocal *)
      binv H. destruct a as [nname nd]. unfold Sim.node_of_proc in Ha.
      destruct (sget proc (y_proc_nodes s)) as [nn|]; [|discriminate].
      destruct (sget nn (y_nodes s)) as [nd0|] eqn:Hn; [|discriminate]. inversion Ha; subst; clear Ha.
      destruct (sd_crashed nd) eqn:Hc; [discriminate|]. binv Hb. destruct a as [nd' w']. inversion Hbb; subst; clear Hbb.
      apply node_handle_spec in Hba.
      + destruct Hba as [[X1 X2] [X3 [X4 X5]]]. cbn [w_q w_net] in X1, X2. apply inv_with; auto.
        eapply ninv_update_keep; eauto.
      + cbn [w_net]. exists nname. apply (ni_ids _ _ _ _ HN). eauto.
    - (* YCrash *)
      destruct (sget node (y_nodes s)) as [nd|] eqn:Hn; [|discriminate].
      inversion H; subst; clear H.
      split; cbn [set_handler y_with y_q y_net y_nodes y_handlers y_ncomp y_proc_nodes sn_node_ids]; auto.
      + apply (qs_inv (sn_node_ids (y_net s)) (y_q s)); auto.
        eapply qstep_trans; apply qstep_cancel_pred.
      + eapply ninv_update; eauto.
        * cbn. apply sget_sins_same.
        * intros c Hc. apply sget_sins_other. auto.
    - (* YRecover *)
      destruct (sget node (y_nodes s)) as [nd|] eqn:Hn; [|discriminate].
      destruct (negb (sd_crashed nd)); [discriminate|].
      assert (X : s' = {| y_q := y_q s; y_net := y_net s;
                          y_nodes := sins node {| sd_id := sd_id nd; sd_procs := []; sd_skew := sd_skew nd;
                                                  sd_crashed := false; sd_lcount := sd_lcount nd |} (y_nodes s);
                          y_proc_nodes := filter (fun pn => negb (N.eqb (snd pn) node)) (y_proc_nodes s);
                          y_handlers := sins (sd_id nd) true (y_handlers s); y_ncomp := y_ncomp s;
                          y_log := y_log s ++ [LNodeRecovered (now s) node] |}).
      { destruct (sget (sd_id nd) (y_handlers s)) as [[|]|]; try discriminate; inversion H; reflexivity. }
      subst s'. clear H.
      split; cbn [y_q y_net y_nodes y_handlers y_ncomp y_proc_nodes sn_node_ids]; auto.
      + eapply ninv_update; eauto.
        * cbn. apply sget_sins_same.
        * intros c Hc. apply sget_sins_other. auto.
      + apply (ssorted_filter N.compare). auto.
  Qed.

  Lemma run_ops_app fuel l1 : forall s l2 s' rets,
    run_ops fuel s (l1 ++ l2) = Ok (s', rets) ->
    exists s1 r1 r2, run_ops fuel s l1 = Ok (s1, r1) /\ run_ops fuel s1 l2 = Ok (s', r2) /\ rets = r1 ++ r2.
  Proof.
    induction l1 as [|o l IH]; cbn [app SimSpec.run_ops]; intros s l2 s' rets H.
    - exists s, [], rets. auto.
    - binv H. destruct a as [s1 ret]. binv Hb. destruct a as [s2 rs]. inversion Hbb; subst; clear Hbb.
      apply IH in Hba. destruct Hba as [s3 [r1 [r2 [A [B ->]]]]].
      exists s3, (ret :: r1), r2. rewrite Ha. cbn [bind]. rewrite A. cbn [bind]. auto.
  Qed.

  Lemma run_ops_stable (P : simsys -> Prop) (ok : sop -> Prop) fuel :
    (forall s o s' r, ok o -> P s -> sim_op fuel s o = Ok (s', r) -> P s') ->
    forall l s s' rets, Forall ok l -> P s -> run_ops fuel s l = Ok (s', rets) -> P s'.
  Proof.
    intros Hop. induction l as [|o l IH]; cbn [SimSpec.run_ops]; intros s s' rets Hok HP H.
    - inversion H; subst; auto.
    - binv H. destruct a as [s1 ret]. binv Hb. destruct a as [s2 rs]. inversion Hbb; subst; clear Hbb.
      inversion Hok as [|? ? Ho Hl]; subst. eapply (IH s1); [exact Hl | | exact Hba]. eapply Hop; eauto.
  Qed.

  Theorem run_ops_inv fuel l s s' rets : Inv s -> run_ops fuel s l = Ok (s', rets) -> Inv s'.
  Proof.
    intros HI H. eapply (run_ops_stable Inv (fun _ => True) fuel); [ | | exact HI | exact H].
    - intros; eapply sim_op_inv; eauto.
    - apply Forall_forall. auto.
  Qed.

  Theorem reachable_inv s : Reachable ops handler init_state draws crash_order s -> Inv s.
  Proof.
    intros [fuel [l [rets H]]]. eapply run_ops_inv; eauto. apply inv_sys0.
  Qed.

  (* ================================================================================================ *)
  (* 6. K1: what crash_node does                                                                      *)
  (* ================================================================================================ *)

  Lemma nodup_map_inj {A B} (f : A -> B) l a b :
    NoDup (map f l) -> In a l -> In b l -> f a = f b -> a = b.
  Proof.
    induction l as [|x r IH]; cbn; intros Hn Ha Hb E; [contradiction|].
    inversion Hn as [|? ? Hx Hr]; subst.
    destruct Ha as [->|Ha]; destruct Hb as [->|Hb]; auto.
    - exfalso. apply Hx. rewrite E. apply in_map. auto.
    - exfalso. apply Hx. rewrite <- E. apply in_map. auto.
  Qed.

  Lemma Permutation_filter {A} (f : A -> bool) l l' : Permutation l l' -> Permutation (filter f l) (filter f l').
  Proof.
    induction 1; cbn.
    - constructor.
    - destruct (f x); auto.
    - destruct (f x), (f y); auto. constructor.
    - eapply Permutation_trans; eauto.
  Qed.

  (* the log entry of a message dropped at a crash *)
  Definition drop_entry (t : T) (e : qevent) : list (logentry T) :=
    match q_data e with
    | QMsg mid m src sn dst dn => [LMessageDropped t mid sn src dn dst m]
    | QTimer _ _ => []
    end.

  Lemma flat_map_drop_filter t l : flat_map (drop_entry t) l = flat_map (drop_entry t) (filter (@is_qmsg T) l).
  Proof.
    induction l as [|e r IH]; cbn [flat_map filter]; auto.
    unfold is_qmsg at 1, drop_entry at 1. destruct (q_data e) eqn:E; cbn [app].
    - cbn [flat_map]. unfold drop_entry at 2. rewrite E. cbn [app]. f_equal. exact IH.
    - exact IH.
  Qed.

  Definition crashed_copy (nd : simnode) : simnode :=
    {| sd_id := sd_id nd; sd_procs := sd_procs nd; sd_skew := sd_skew nd; sd_crashed := true; sd_lcount := sd_lcount nd |}.

  (* crash_order is only assumed to be a permutation *)
  Hypothesis crash_perm : forall l, Permutation (crash_order l) l.

  Theorem crash_cancels_inflight fuel s n s' r :
    Inv s -> sim_op fuel s (YCrash n) = Ok (s', r) ->
    exists nd,
      sget n (y_nodes s) = Some nd /\
      (* the queue: same content, everything from or to the node is now cancelled, nothing else changes status *)
      q_events (y_q s') = q_events (y_q s) /\ q_clock (y_q s') = q_clock (y_q s) /\
      q_count (y_q s') = q_count (y_q s) /\ q_rand (y_q s') = q_rand (y_q s) /\
      (forall e, In e (q_events (y_q s)) -> q_src e = sd_id nd \/ q_dst e = sd_id nd ->
                 nmem (q_id e) (q_canceled (y_q s')) = true) /\
      (forall e, In e (q_events (y_q s)) -> q_src e <> sd_id nd -> q_dst e <> sd_id nd ->
                 nmem (q_id e) (q_canceled (y_q s')) = nmem (q_id e) (q_canceled (y_q s))) /\
      (* the node: only the crashed flag; its handler is removed *)
      sget n (y_nodes s') = Some (crashed_copy nd) /\
      sget (sd_id nd) (y_handlers s') = Some false /\
      (* everything else is untouched *)
      (forall m, m <> n -> sget m (y_nodes s') = sget m (y_nodes s)) /\
      (forall c, c <> sd_id nd -> sget c (y_handlers s') = sget c (y_handlers s)) /\
      y_net s' = y_net s /\ y_proc_nodes s' = y_proc_nodes s /\ y_ncomp s' = y_ncomp s /\
      (* the log: NodeCrashed, then one MessageDropped per live message event from the node, in some order *)
      exists dropped,
        Permutation dropped (filter (fun e => N.eqb (q_src e) (sd_id nd) && is_qmsg e) (q_live (y_q s))) /\
        y_log s' = y_log s ++ LNodeCrashed (now s) n :: flat_map (drop_entry (now s)) dropped.
  Proof.
    intros HI H. cbn [Sim.sim_op] in H.
    destruct (sget n (y_nodes s)) as [nd|] eqn:Hn; [|discriminate].
    inversion H; subst; clear H. exists nd.
    set (cid := sd_id nd).
    split; [reflexivity|]. split; [reflexivity|]. split; [reflexivity|]. split; [reflexivity|]. split; [reflexivity|].
    cbn [set_handler y_with y_q y_net y_nodes y_handlers y_ncomp y_proc_nodes y_log].
    split; [|split].
    - intros e He [Hs|Hd].
      + apply nmem_cancel_pred. left. apply nmem_cancel_pred. right. exists e. rewrite Hs, N.eqb_refl. auto.
      + apply nmem_cancel_pred. right. exists e. rewrite Hd, N.eqb_refl. auto.
    - intros e He Hs Hd. apply eq_true_iff_eq. rewrite nmem_cancel_pred, nmem_cancel_pred.
      pose proof (qi_nodup _ _ (inv_q _ HI)) as ND.
      split; [|tauto].
      intros [[H|[e2 [H1 [H2 H3]]]]|[e2 [H1 [H2 H3]]]]; auto; exfalso.
      + apply N.eqb_eq in H2. assert (e2 = e) by (eapply nodup_map_inj; eauto). subst e2. auto.
      + apply N.eqb_eq in H2. assert (e2 = e) by (eapply nodup_map_inj; eauto). subst e2. auto.
    - split; [apply sget_sins_same|]. split; [apply sget_sins_same|].
      split; [intros m Hm; apply sget_sins_other; auto|].
      split; [intros c Hc; apply sget_sins_other; auto|].
      split; [reflexivity|]. split; [reflexivity|]. split; [reflexivity|].
      exists (filter (@is_qmsg T) (crash_order (filter (fun e => N.eqb (q_src e) cid) (q_live (y_q s))))).
      split.
      + rewrite <- filter_filter. apply Permutation_filter. apply crash_perm.
      + cbn [app]. rewrite <- flat_map_drop_filter. reflexivity.
  Qed.

  (* I3 makes K1 speak about node names: every message event from or to a process of node n is cancelled *)
  Corollary crash_cancels_messages fuel s n s' r e mid m src sn dst dn :
    Inv s -> sim_op fuel s (YCrash n) = Ok (s', r) ->
    In e (q_events (y_q s)) -> q_data e = QMsg mid m src sn dst dn -> sn = n \/ dn = n ->
    nmem (q_id e) (q_canceled (y_q s')) = true.
  Proof.
    intros HI H He Hd Hor.
    destruct (crash_cancels_inflight _ _ _ _ _ HI H) as [nd [Hn [_ [_ [_ [_ [Hc _]]]]]]].
    apply Hc; auto.
    pose proof (qi_ok _ _ (inv_q _ HI) e He) as Hok. unfold ev_ok in Hok. rewrite Hd in Hok. cbn in Hok.
    destruct Hok as [A B]. pose proof (inv_n _ HI) as HN.
    apply (ni_ids _ _ _ _ HN) in A, B. destruct A as [x [A1 A2]]. destruct B as [y [B1 B2]].
    destruct Hor as [->| ->]; [left | right]; congruence.
  Qed.

  (* timers: a timer event belongs to the node whose id it carries as source and destination *)
  Corollary crash_cancels_timers fuel s n s' r nd e :
    Inv s -> sim_op fuel s (YCrash n) = Ok (s', r) -> sget n (y_nodes s) = Some nd ->
    In e (q_events (y_q s)) -> q_dst e = sd_id nd ->
    nmem (q_id e) (q_canceled (y_q s')) = true.
  Proof.
    intros HI H Hn He Hd.
    destruct (crash_cancels_inflight _ _ _ _ _ HI H) as [nd' [Hn' [_ [_ [_ [_ [Hc _]]]]]]].
    rewrite Hn in Hn'. inversion Hn'; subst nd'. apply Hc; auto.
  Qed.

  (* ================================================================================================ *)
  (* 7. K3: a crashed node is silent                                                                  *)
  (* ================================================================================================ *)

  (* the API calls that change a node's entry by request of the user *)
  Definition touches_node (n : N) (o : sop) : bool :=
    match o with
    | YRecover m | YAddProcess _ m | YSetSkew m _ => N.eqb m n
    | _ => false
    end.

  (* the API calls that read (and drain) the outbox of a process placed on node n *)
  Definition op_reads_from (s : simsys) (n : N) (o : sop) : bool :=
    match op_reads o with
    | Some p => match sget p (y_proc_nodes s) with Some m => N.eqb m n | None => false end
    | None => false
    end.

  Lemma sget_filter_val {V} (g : N * V -> bool) (l : list (N * V)) k v :
    ssorted N.compare l -> (sget k (filter g l) = Some v <-> sget k l = Some v /\ g (k, v) = true).
  Proof.
    intros Hs. rewrite (sget_in N.compare CSN) by (apply ssorted_filter; auto).
    rewrite (sget_in N.compare CSN) by auto. apply filter_In.
  Qed.

  Section Silent.
    Variable n : N.
    Variable nd : simnode.
    Hypothesis nd_crashed : sd_crashed nd = true.
    Variable exact : bool.
    Variable pn0 : list (N * N).

    Definition SilentP (s : simsys) : Prop :=
      Inv s /\ y_proc_nodes s = pn0 /\
      exists nd', sget n (y_nodes s) = Some nd' /\ node_quiet nd nd' /\ (exact = true -> nd' = nd).

    Lemma silent_q s q' net' log' :
      SilentP s -> Inv (y_with s q' net' (y_nodes s) log') -> SilentP (y_with s q' net' (y_nodes s) log').
    Proof. intros [A [B C]] HI. split; auto. Qed.

    Lemma silent_step s s' b : SilentP s -> step s = Ok (s', b) -> SilentP s'.
    Proof.
      intros HP H. pose proof HP as [HI [Hpn [nd' [Hn [Hq Hex]]]]].
      pose proof (step_inv _ _ _ HI H) as HI'.
      unfold Sim.step in H. destruct (q_next (y_q s)) as [q' oe] eqn:Hnx.
      assert (HI1 : Inv (y_with s q' (y_net s) (y_nodes s) (y_log s))).
      { apply inv_with; auto. eapply q_next_step; eauto. apply (inv_n _ HI). }
      destruct oe as [e|].
      - binv H. inversion Hb; subst; clear Hb.
        destruct (deliver_spec _ _ _ HI1 Ha) as [->|X].
        + apply silent_q; auto.
        + destruct X as [nname [nd2 [nd2' [q2 [net2 [log2 [H1 [H2 [H3 [H4 [H5 [H6 [H7 [H8 ->]]]]]]]]]]]]]].
          cbn [y_with y_nodes] in H1. split; auto. split; auto.
          exists nd'. cbn [y_with y_nodes]. split; auto.
          rewrite sget_sins_other; auto. intros ->.
          rewrite Hn in H1. inversion H1; subst nd2.
          rewrite (nq_crashed _ _ Hq), nd_crashed in H2. discriminate.
      - inversion H; subst. apply silent_q; auto.
    Qed.

    Lemma silent_read s p s' r :
      (exact = true -> sget p pn0 <> Some n) -> SilentP s -> read_local s p = Ok (s', r) -> SilentP s'.
    Proof.
      intros Hr HP H. pose proof HP as [HI [Hpn [nd' [Hn [Hq Hex]]]]].
      pose proof (read_local_inv _ _ _ _ HI H) as HI'.
      apply read_local_spec in H. destruct H as [->|[nname [nd2 [nd2' [H1 [H2 [H3 ->]]]]]]]; auto.
      split; auto. split; auto. cbn [y_with y_nodes].
      destruct (N.eq_dec nname n) as [->|Hne].
      - rewrite Hn in H2. inversion H2; subst nd2. exists nd2'. split; [apply sget_sins_same|]. split.
        + eapply node_quiet_trans; eauto.
        + intros E. exfalso. apply (Hr E). congruence.
      - exists nd'. rewrite sget_sins_other; auto.
    Qed.

    Lemma silent_step_ops fuel s o s' r :
      is_step_op o = true -> (exact = true -> forall p, op_reads o = Some p -> sget p pn0 <> Some n) ->
      SilentP s -> sim_op fuel s o = Ok (s', r) -> SilentP s'.
    Proof.
      intros Hso Hr HP H.
      eapply (step_ops_stable SilentP (fun p => exact = true -> sget p pn0 <> Some n)); eauto.
      - apply silent_step.
      - intros s0 q' oe HP0 Hq. apply silent_q; auto. apply (peek_inv _ _ oe); auto. apply HP0.
      - intros s0 t HP0. unfold Sim.set_clock. apply silent_q; auto. apply set_clock_inv. apply HP0.
      - intros s0 p s1 r1 Hp HP0 Hrd. eapply silent_read; eauto.
    Qed.
  End Silent.

  Lemma crashed_copy_id (nd : simnode) : sd_crashed nd = true -> crashed_copy nd = nd.
  Proof. destruct nd; cbn. intros ->. reflexivity. Qed.

  Lemma silent_gen fuel s n nd o s' r (exact : bool) :
    Inv s -> sget n (y_nodes s) = Some nd -> sd_crashed nd = true -> touches_node n o = false ->
    (exact = true -> op_reads_from s n o = false) ->
    sim_op fuel s o = Ok (s', r) ->
    (exists nd', sget n (y_nodes s') = Some nd' /\ node_quiet nd nd' /\ (exact = true -> nd' = nd)) /\
    (forall p, sget p (y_proc_nodes s') = Some n <-> sget p (y_proc_nodes s) = Some n).
  Proof.
    intros HI Hn Hc Ht Hr H.
    destruct (is_step_op o) eqn:Hso.
    { assert (HP : SilentP n nd exact (y_proc_nodes s) s).
      { split; auto. split; auto. exists nd. split; auto. split; auto. apply node_quiet_refl. }
      eapply silent_step_ops in H; eauto.
      - destruct H as [_ [E X]]. split; auto. rewrite E. tauto.
      - intros E p Hp. specialize (Hr E). unfold op_reads_from in Hr. rewrite Hp in Hr.
        destruct (sget p (y_proc_nodes s)) as [m|]; [|discriminate].
        intros X. inversion X; subst. rewrite N.eqb_refl in Hr. discriminate. }
    assert (Same : forall s2 : simsys, sget n (y_nodes s2) = Some nd ->
              exists nd', sget n (y_nodes s2) = Some nd' /\ node_quiet nd nd' /\ (exact = true -> nd' = nd)).
    { intros s2 E. exists nd. split; auto. split; auto. apply node_quiet_refl. }
    destruct o; try discriminate Hso; cbn [Sim.sim_op touches_node] in H, Ht.
    - (* YAddNode *)
      destruct (shas N.compare name (y_nodes s)) eqn:Hh; [discriminate|]. apply shas_false_none in Hh.
      inversion H; subst; clear H. split; [|tauto]. apply Same. cbn [y_nodes].
      rewrite sget_sins_other; auto. congruence.
    - (* YAddProcess *)
      destruct (sget node (y_nodes s)) as [nd2|] eqn:Hn2; [|discriminate].
      destruct (shas N.compare proc (y_proc_nodes s)) eqn:Hh; [discriminate|]. apply shas_false_none in Hh.
      inversion H; subst; clear H. apply N.eqb_neq in Ht. split.
      + apply Same. cbn [y_nodes]. rewrite sget_sins_other; auto.
      + intros p. cbn [y_proc_nodes]. rewrite sget_sins_N. destruct (N.eqb_spec p proc) as [->|Hne]; [|tauto].
        rewrite Hh. split; intros X; inversion X. congruence.
    - (* YSetSkew *)
      destruct (sget node (y_nodes s)) as [nd2|] eqn:Hn2; [|discriminate].
      inversion H; subst; clear H. apply N.eqb_neq in Ht. split; [|tauto].
      apply Same. cbn [y_with y_nodes]. rewrite sget_sins_other; auto.
    - (* YNet *)
      destruct (snet_apply (y_net s) (now s) o) as [n' logs]. inversion H; subst; clear H. split; [|tauto].
      apply Same. auto.
    - (* YSendLocal *)
      binv H. destruct a as [nname nd2]. unfold Sim.node_of_proc in Ha.
      destruct (sget proc (y_proc_nodes s)) as [nn|]; [|discriminate].
      destruct (sget nn (y_nodes s)) as [nd0|] eqn:Hn2; [|discriminate]. inversion Ha; subst; clear Ha.
      destruct (sd_crashed nd2) eqn:Hc2; [discriminate|]. binv Hb. destruct a as [nd' w']. inversion Hbb; subst; clear Hbb.
      split; [|tauto]. apply Same. cbn [y_with y_nodes]. rewrite sget_sins_other; auto. congruence.
    - (* YCrash *)
      destruct (sget node (y_nodes s)) as [nd2|] eqn:Hn2; [|discriminate].
      inversion H; subst; clear H. split; [|tauto]. apply Same. cbn [set_handler y_with y_nodes].
      destruct (N.eq_dec node n) as [->|Hne].
      + rewrite sget_sins_same. rewrite Hn in Hn2. inversion Hn2; subst nd2.
        f_equal. apply (crashed_copy_id nd Hc).
      + rewrite sget_sins_other; auto.
    - (* YRecover *)
      destruct (sget node (y_nodes s)) as [nd2|] eqn:Hn2; [|discriminate].
      destruct (negb (sd_crashed nd2)); [discriminate|]. apply N.eqb_neq in Ht.
      assert (X : y_nodes s' = sins node {| sd_id := sd_id nd2; sd_procs := []; sd_skew := sd_skew nd2;
                                            sd_crashed := false; sd_lcount := sd_lcount nd2 |} (y_nodes s) /\
                  y_proc_nodes s' = filter (fun pn => negb (N.eqb (snd pn) node)) (y_proc_nodes s)).
      { destruct (sget (sd_id nd2) (y_handlers s)) as [[|]|]; try discriminate; inversion H; split; reflexivity. }
      destruct X as [X1 X2]. split.
      + apply Same. rewrite X1. rewrite sget_sins_other; auto.
      + intros p. rewrite X2. rewrite sget_filter_val by apply (inv_pn _ HI). cbn [snd].
        split; [tauto|]. intros E. split; auto. apply negb_true_iff. apply N.eqb_neq. auto.
  Qed.

  (* K3.  While node n is crashed, no API call other than recover_node(n), add_process(_, n), set_clock_skew(n)
     changes its entry, except that reading the local messages of one of its processes empties that outbox
     (node_quiet).  In particular no handler of n ran: states, event logs, timers, counters are the same. *)
  Theorem silent_while_crashed fuel s n nd o s' r :
    Inv s -> sget n (y_nodes s) = Some nd -> sd_crashed nd = true -> touches_node n o = false ->
    sim_op fuel s o = Ok (s', r) ->
    exists nd', sget n (y_nodes s') = Some nd' /\ node_quiet nd nd' /\
                (op_reads_from s n o = false -> nd' = nd).
  Proof.
    intros HI Hn Hc Ht H.
    destruct (op_reads_from s n o) eqn:E.
    - destruct (silent_gen fuel s n nd o s' r false HI Hn Hc Ht) as [[nd' [A [B _]]] _]; auto; try discriminate.
      exists nd'. split; auto. split; auto. discriminate.
    - destruct (silent_gen fuel s n nd o s' r true HI Hn Hc Ht) as [[nd' [A [B C]]] _]; auto.
      exists nd'. auto.
  Qed.

  (* a local message cannot be handed to a process of a crashed node *)
  Theorem send_local_crashed_panics fuel s p m n nd :
    sget p (y_proc_nodes s) = Some n -> sget n (y_nodes s) = Some nd -> sd_crashed nd = true ->
    sim_op fuel s (YSendLocal p m) = Panic 73.
  Proof.
    intros Hp Hn Hc. cbn [Sim.sim_op]. unfold Sim.node_of_proc. rewrite Hp, Hn. cbn [bind]. rewrite Hc. reflexivity.
  Qed.

  (* lifted to scripts *)
  Theorem silent_between fuel l : forall s n nd s' rets,
    Inv s -> sget n (y_nodes s) = Some nd -> sd_crashed nd = true ->
    Forall (fun o => touches_node n o = false) l ->
    run_ops fuel s l = Ok (s', rets) ->
    exists nd', sget n (y_nodes s') = Some nd' /\ node_quiet nd nd'.
  Proof.
    induction l as [|o l IH]; cbn [SimSpec.run_ops]; intros s n nd s' rets HI Hn Hc Hok H.
    - inversion H; subst. exists nd. split; auto. apply node_quiet_refl.
    - binv H. destruct a as [s1 ret]. binv Hb. destruct a as [s2 rs]. inversion Hbb; subst; clear Hbb.
      inversion Hok as [|? ? Ho Hl]; subst.
      destruct (silent_while_crashed _ _ _ _ _ _ _ HI Hn Hc Ho Ha) as [nd1 [A [B _]]].
      pose proof (sim_op_inv _ _ _ _ _ HI Ha) as HI1.
      assert (Hc1 : sd_crashed nd1 = true) by (rewrite (nq_crashed _ _ B); auto).
      destruct (IH _ _ _ _ _ HI1 A Hc1 Hl Hba) as [nd2 [C D]].
      exists nd2. split; auto. eapply node_quiet_trans; eauto.
  Qed.

  (* if moreover the script never reads the local messages of a process of n, the entry stays equal *)
  Theorem silent_between_exact fuel l : forall s n nd s' rets,
    Inv s -> sget n (y_nodes s) = Some nd -> sd_crashed nd = true ->
    Forall (fun o => touches_node n o = false /\
                     forall p, op_reads o = Some p -> sget p (y_proc_nodes s) <> Some n) l ->
    run_ops fuel s l = Ok (s', rets) ->
    sget n (y_nodes s') = Some nd.
  Proof.
    induction l as [|o l IH]; cbn [SimSpec.run_ops]; intros s n nd s' rets HI Hn Hc Hok H.
    - inversion H; subst. auto.
    - binv H. destruct a as [s1 ret]. binv Hb. destruct a as [s2 rs]. inversion Hbb; subst; clear Hbb.
      inversion Hok as [|? ? [Ho Hrd] Hl]; subst.
      assert (Hr : true = true -> op_reads_from s n o = false).
      { intros _. unfold op_reads_from. destruct (op_reads o) as [p|] eqn:E; auto.
        specialize (Hrd p eq_refl). destruct (sget p (y_proc_nodes s)) as [m|]; auto.
        apply N.eqb_neq. congruence. }
      destruct (silent_gen fuel s n nd o s1 ret true HI Hn Hc Ho Hr Ha) as [[nd1 [A [B C]]] D].
      rewrite (C eq_refl) in A.
      pose proof (sim_op_inv _ _ _ _ _ HI Ha) as HI1.
      eapply (IH s1 n nd); [exact HI1 | exact A | exact Hc | | exact Hba].
      eapply Forall_impl; [|exact Hl]. cbn beta. intros o' [X Y]. split; auto.
      intros p Hp. rewrite D. auto.
  Qed.

  (* ================================================================================================ *)
  (* 8. K2: a cancelled event is never delivered                                                      *)
  (* ================================================================================================ *)

  (* id i was allocated (so it will never be allocated again: q_count only grows) and every event of the queue that
     carries it is cancelled.  A state with Dead i cannot deliver an event with id i, and Dead i is stable. *)
  Definition Dead (i : N) (s : simsys) : Prop := QDead i (y_q s).

  Lemma cancelled_is_dead s e :
    Inv s -> In e (q_events (y_q s)) -> nmem (q_id e) (q_canceled (y_q s)) = true -> Dead (q_id e) s.
  Proof.
    intros HI He Hc. split; auto. apply (qi_lt _ _ (inv_q _ HI)). auto.
  Qed.

  (* what a step that delivers something does: it pops a live event of the queue and delivers that one *)
  Lemma step_true_inv s s' : step s = Ok (s', true) ->
    exists q' e, q_next (y_q s) = (q', Some e) /\
                 In e (q_events (y_q s)) /\ nmem (q_id e) (q_canceled (y_q s)) = false /\
                 deliver (y_with s q' (y_net s) (y_nodes s) (y_log s)) e = Ok s'.
  Proof.
    unfold Sim.step. destruct (q_next (y_q s)) as [q' oe] eqn:Hq. destruct oe as [e|].
    - intros H. binv H. inversion Hb; subst. exists q', e. destruct (q_next_live _ _ _ Hq). auto.
    - intros H; inversion H.
  Qed.

  Theorem step_never_delivers_dead s q' e i : Dead i s -> q_next (y_q s) = (q', Some e) -> q_id e <> i.
  Proof. intros HD Hq. eapply q_next_not_dead; eauto. Qed.

  Definition DeadP (i : N) (s : simsys) : Prop := Inv s /\ Dead i s.

  Lemma dead_q i s q' net' nodes' log' :
    Dead i s -> qstep (sn_node_ids (y_net s)) (y_q s) q' -> Dead i (y_with s q' net' nodes' log').
  Proof. intros HD Hq. apply (qs_dead _ _ _ Hq). exact HD. Qed.

  Lemma dead_step i s s' b : DeadP i s -> step s = Ok (s', b) -> DeadP i s'.
  Proof.
    intros [HI HD] H. split; [eapply step_inv; eauto|].
    unfold Sim.step in H. destruct (q_next (y_q s)) as [q' oe] eqn:Hnx.
    pose proof (q_next_step (sn_node_ids (y_net s)) _ _ _ Hnx) as Hq1.
    assert (HI1 : Inv (y_with s q' (y_net s) (y_nodes s) (y_log s))).
    { apply inv_with; auto. apply (inv_n _ HI). }
    assert (HD1 : Dead i (y_with s q' (y_net s) (y_nodes s) (y_log s))) by (apply dead_q; auto).
    destruct oe as [e|].
    - binv H. inversion Hb; subst; clear Hb.
      destruct (deliver_spec _ _ _ HI1 Ha) as [->|X]; auto.
      destruct X as [nname [nd2 [nd2' [q2 [net2 [log2 [H1 [H2 [H3 [H4 [H5 [H6 [H7 [H8 ->]]]]]]]]]]]]]].
      apply (qs_dead _ _ _ H7). exact HD1.
    - inversion H; subst. auto.
  Qed.

  Lemma dead_step_ops i fuel s o s' r :
    is_step_op o = true -> DeadP i s -> sim_op fuel s o = Ok (s', r) -> DeadP i s'.
  Proof.
    intros Hso HP H.
    eapply (step_ops_stable (DeadP i) (fun _ => True)); eauto.
    - apply dead_step.
    - intros s0 q' oe [HI0 HD0] Hq. split.
      + apply (peek_inv _ _ oe); auto.
      + apply dead_q; auto. eapply q_peek_step; eauto.
    - intros s0 t [HI0 HD0]. split.
      + apply set_clock_inv; auto.
      + unfold Sim.set_clock. apply dead_q; auto. apply qstep_same; auto.
    - intros s0 p s1 r1 _ [HI0 HD0] Hrd. split.
      + eapply read_local_inv; eauto.
      + apply read_local_spec in Hrd. destruct Hrd as [->|[nname [nd2 [nd2' [H1 [H2 [H3 ->]]]]]]]; auto.
  Qed.

  (* K2 *)
  Theorem dead_stable fuel s o s' r i :
    Inv s -> Dead i s -> sim_op fuel s o = Ok (s', r) -> Dead i s'.
  Proof.
    intros HI HD H.
    destruct (is_step_op o) eqn:Hso.
    { eapply (dead_step_ops i) in H; eauto. apply H. split; auto. }
    destruct o; try discriminate Hso; cbn [Sim.sim_op] in H.
    - destruct (shas N.compare name (y_nodes s)); [discriminate|]. inversion H; subst. exact HD.
    - destruct (sget node (y_nodes s)) as [nd|]; [|discriminate].
      destruct (shas N.compare proc (y_proc_nodes s)); [discriminate|]. inversion H; subst. exact HD.
    - destruct (sget node (y_nodes s)) as [nd|]; [|discriminate]. inversion H; subst. exact HD.
    - destruct (snet_apply (y_net s) (now s) o) as [n' logs]. inversion H; subst. exact HD.
    - binv H. destruct a as [nname nd]. unfold Sim.node_of_proc in Ha.
      destruct (sget proc (y_proc_nodes s)) as [nn|]; [|discriminate].
      destruct (sget nn (y_nodes s)) as [nd0|] eqn:Hn; [|discriminate]. inversion Ha; subst; clear Ha.
      destruct (sd_crashed nd) eqn:Hc; [discriminate|]. binv Hb. destruct a as [nd' w']. inversion Hbb; subst; clear Hbb.
      apply node_handle_spec in Hba.
      + destruct Hba as [[X1 X2] _]. cbn [w_q w_net] in X1. apply (qs_dead _ _ _ X1). exact HD.
      + cbn [w_net]. exists nname. apply (ni_ids _ _ _ _ (inv_n _ HI)). eauto.
    - destruct (sget node (y_nodes s)) as [nd|]; [|discriminate]. inversion H; subst.
      unfold Dead. cbn [set_handler y_with y_q].
      apply (qs_dead (sn_node_ids (y_net s)) (y_q s)); auto.
      eapply qstep_trans; apply qstep_cancel_pred.
    - destruct (sget node (y_nodes s)) as [nd|]; [|discriminate].
      destruct (negb (sd_crashed nd)); [discriminate|].
      assert (X : y_q s' = y_q s).
      { destruct (sget (sd_id nd) (y_handlers s)) as [[|]|]; try discriminate; inversion H; reflexivity. }
      unfold Dead. rewrite X. exact HD.
  Qed.

  Theorem dead_stable_run fuel l s s' rets i :
    Inv s -> Dead i s -> run_ops fuel s l = Ok (s', rets) -> Dead i s'.
  Proof.
    intros HI HD H.
    assert (X : DeadP i s').
    { eapply (run_ops_stable (DeadP i) (fun _ => True) fuel); [ | | split; [exact HI | exact HD] | exact H].
      - intros s0 o s1 r _ [A B] Hop. split; [eapply sim_op_inv | eapply dead_stable]; eauto.
      - apply Forall_forall. auto. }
    apply X.
  Qed.

  (* K2 as stated: an event that is in the queue and cancelled is dead, stays dead along any script, and a dead id is
     not the id of an event popped by a step *)
  Theorem cancelled_never_delivered fuel l s s' rets e :
    Inv s -> In e (q_events (y_q s)) -> nmem (q_id e) (q_canceled (y_q s)) = true ->
    run_ops fuel s l = Ok (s', rets) ->
    Dead (q_id e) s' /\ forall q' e', q_next (y_q s') = (q', Some e') -> q_id e' <> q_id e.
  Proof.
    intros HI He Hc H.
    assert (HD : Dead (q_id e) s') by (eapply dead_stable_run; eauto; apply cancelled_is_dead; auto).
    split; auto. intros q' e' Hq. eapply step_never_delivers_dead; eauto.
  Qed.

  (* ================================================================================================ *)
  (* 9. K4: recovery starts clean                                                                     *)
  (* ================================================================================================ *)

  Definition recovered_copy (nd : simnode) : simnode :=
    {| sd_id := sd_id nd; sd_procs := []; sd_skew := sd_skew nd; sd_crashed := false; sd_lcount := sd_lcount nd |}.

  Theorem fresh_after_recover fuel s n s' r :
    sim_op fuel s (YRecover n) = Ok (s', r) ->
    exists nd,
      sget n (y_nodes s) = Some nd /\ sd_crashed nd = true /\
      (* the node: no processes, not crashed, handler back *)
      sget n (y_nodes s') = Some (recovered_copy nd) /\
      sget (sd_id nd) (y_handlers s') = Some true /\
      (* its processes are unregistered *)
      y_proc_nodes s' = filter (fun pn => negb (N.eqb (snd pn) n)) (y_proc_nodes s) /\
      (* the queue (in particular the cancel set), the network, the other nodes and handlers are untouched *)
      y_q s' = y_q s /\ y_net s' = y_net s /\ y_ncomp s' = y_ncomp s /\
      (forall m, m <> n -> sget m (y_nodes s') = sget m (y_nodes s)) /\
      (forall c, c <> sd_id nd -> sget c (y_handlers s') = sget c (y_handlers s)) /\
      y_log s' = y_log s ++ [LNodeRecovered (now s) n].
  Proof.
    intros H. cbn [Sim.sim_op] in H.
    destruct (sget n (y_nodes s)) as [nd|] eqn:Hn; [|discriminate].
    destruct (sd_crashed nd) eqn:Hc; cbn [negb] in H; [|discriminate].
    exists nd. split; auto. split; auto.
    assert (X : s' = {| y_q := y_q s; y_net := y_net s;
                        y_nodes := sins n (recovered_copy nd) (y_nodes s);
                        y_proc_nodes := filter (fun pn => negb (N.eqb (snd pn) n)) (y_proc_nodes s);
                        y_handlers := sins (sd_id nd) true (y_handlers s); y_ncomp := y_ncomp s;
                        y_log := y_log s ++ [LNodeRecovered (now s) n] |}).
    { destruct (sget (sd_id nd) (y_handlers s)) as [[|]|]; try discriminate; inversion H; reflexivity. }
    subst s'. cbn [y_q y_net y_nodes y_handlers y_ncomp y_proc_nodes y_log].
    split; [apply sget_sins_same|]. split; [apply sget_sins_same|].
    split; [reflexivity|]. split; [reflexivity|]. split; [reflexivity|]. split; [reflexivity|].
    split; [intros m Hm; apply sget_sins_other; auto|].
    split; [intros c Hc'; apply sget_sins_other; auto|]. reflexivity.
  Qed.

  (* with the invariant: no process is registered on n any more, the other registrations are kept *)
  Corollary recover_unregisters fuel s n s' r p m :
    Inv s -> sim_op fuel s (YRecover n) = Ok (s', r) ->
    (sget p (y_proc_nodes s') = Some m <-> sget p (y_proc_nodes s) = Some m /\ m <> n).
  Proof.
    intros HI H. destruct (fresh_after_recover _ _ _ _ _ H) as [nd [_ [_ [_ [_ [E _]]]]]].
    rewrite E. rewrite sget_filter_val by apply (inv_pn _ HI). cbn [snd].
    rewrite negb_true_iff, N.eqb_neq. tauto.
  Qed.

  Theorem recover_not_crashed_panics fuel s n nd :
    sget n (y_nodes s) = Some nd -> sd_crashed nd = false -> sim_op fuel s (YRecover n) = Panic 74.
  Proof. intros Hn Hc. cbn [Sim.sim_op]. rewrite Hn, Hc. reflexivity. Qed.

  (* add_process installs a fresh entry: initial state, empty event log, outbox and timers, zero counters *)
  Theorem add_process_fresh fuel s p n s' r :
    sim_op fuel s (YAddProcess p n) = Ok (s', r) ->
    exists nd nd',
      sget n (y_nodes s) = Some nd /\ sget n (y_nodes s') = Some nd' /\
      sd_procs nd' = sins p (pe_new init_state p) (sd_procs nd) /\
      sget p (sd_procs nd') = Some (pe_new init_state p) /\
      sd_id nd' = sd_id nd /\ sd_skew nd' = sd_skew nd /\ sd_crashed nd' = sd_crashed nd /\ sd_lcount nd' = sd_lcount nd /\
      sget p (y_proc_nodes s') = Some n /\
      y_q s' = y_q s /\ y_handlers s' = y_handlers s /\
      (forall m, m <> n -> sget m (y_nodes s') = sget m (y_nodes s)).
  Proof.
    intros H. cbn [Sim.sim_op] in H.
    destruct (sget n (y_nodes s)) as [nd|] eqn:Hn; [|discriminate].
    destruct (shas N.compare p (y_proc_nodes s)); [discriminate|].
    inversion H; subst; clear H. eexists nd, _. cbn [y_q y_nodes y_handlers y_proc_nodes].
    split; [reflexivity|]. split; [apply sget_sins_same|]. cbn [sd_procs sd_id sd_skew sd_crashed sd_lcount].
    split; [reflexivity|]. split; [apply sget_sins_same|].
    split; [reflexivity|]. split; [reflexivity|]. split; [reflexivity|]. split; [reflexivity|].
    split; [apply sget_sins_same|]. split; [reflexivity|]. split; [reflexivity|].
    intros m Hm. apply sget_sins_other; auto.
  Qed.

  (* recover then add_process: the node runs exactly the fresh process, is not crashed and has its handler *)
  Corollary recover_then_add fuel s n p s1 r1 s2 r2 :
    sim_op fuel s (YRecover n) = Ok (s1, r1) -> sim_op fuel s1 (YAddProcess p n) = Ok (s2, r2) ->
    exists nd nd2,
      sget n (y_nodes s) = Some nd /\ sget n (y_nodes s2) = Some nd2 /\
      sd_procs nd2 = [(p, pe_new init_state p)] /\ sd_crashed nd2 = false /\ sd_id nd2 = sd_id nd /\
      sget (sd_id nd2) (y_handlers s2) = Some true /\ y_q s2 = y_q s.
  Proof.
    intros H1 H2.
    destruct (fresh_after_recover _ _ _ _ _ H1) as [nd [A1 [A2 [A3 [A4 [A5 [A6 _]]]]]]].
    destruct (add_process_fresh _ _ _ _ _ _ H2) as [nd1 [nd2 [B1 [B2 [B3 [B4 [B5 [B6 [B7 [B8 [B9 [B10 [B11 _]]]]]]]]]]]]].
    rewrite A3 in B1. inversion B1; subst nd1. exists nd, nd2.
    split; auto. split; auto. split; [rewrite B3; reflexivity|]. split; [rewrite B7; reflexivity|].
    split; [rewrite B5; reflexivity|]. split; [|congruence].
    rewrite B11, B5. exact A4.
  Qed.

  (* ================================================================================================ *)
  (* 10. K5: the other nodes are unaffected by a crash or a recovery                                  *)
  (* ================================================================================================ *)

  Corollary crash_frame fuel s n s' r :
    Inv s -> sim_op fuel s (YCrash n) = Ok (s', r) ->
    (forall m, m <> n -> sget m (y_nodes s') = sget m (y_nodes s)) /\
    y_net s' = y_net s /\ y_proc_nodes s' = y_proc_nodes s /\
    q_clock (y_q s') = q_clock (y_q s) /\ q_count (y_q s') = q_count (y_q s) /\ q_rand (y_q s') = q_rand (y_q s) /\
    q_events (y_q s') = q_events (y_q s).
  Proof.
    intros HI H. destruct (crash_cancels_inflight _ _ _ _ _ HI H)
      as [nd [_ [E1 [E2 [E3 [E4 [_ [_ [_ [_ [E5 [_ [E6 [E7 _]]]]]]]]]]]]]].
    repeat split; auto.
  Qed.

  Corollary recover_frame fuel s n s' r :
    sim_op fuel s (YRecover n) = Ok (s', r) ->
    (forall m, m <> n -> sget m (y_nodes s') = sget m (y_nodes s)) /\ y_net s' = y_net s /\ y_q s' = y_q s.
  Proof.
    intros H. destruct (fresh_after_recover _ _ _ _ _ H) as [nd [_ [_ [_ [_ [_ [E1 [E2 [_ [E3 _]]]]]]]]]].
    auto.
  Qed.

  (* ================================================================================================ *)
  (* 11. Instrumented semantics: the same functions, returning also the events handed to `deliver`    *)
  (* ================================================================================================ *)

  Notation trace := (list qevent).

  Definition erase {A B} (r : result (A * B)) : result A := do (a, _) <- r; Ok a.

  Definition step_tr (s : simsys) : result (simsys * bool * trace) :=
    let '(q', oe) := q_next (y_q s) in
    let s1 := y_with s q' (y_net s) (y_nodes s) (y_log s) in
    match oe with
    | None => Ok (s1, false, [])
    | Some e => do s2 <- deliver s1 e; Ok (s2, true, [e])
    end.

  Fixpoint steps_fuel_tr (fuel : nat) (s : simsys) (n : N) : result (simsys * bool * trace) :=
    match fuel with
    | O => Panic 69
    | S f =>
      if N.eqb n 0 then Ok (s, true, []) else
      do (s1, b, t1) <- step_tr s;
      if b then do (s2, b2, t2) <- steps_fuel_tr f s1 (n - 1); Ok (s2, b2, t1 ++ t2) else Ok (s1, false, t1)
    end.
  Fixpoint until_no_events_tr (fuel : nat) (s : simsys) : result (simsys * trace) :=
    match fuel with
    | O => Panic 69
    | S f => do (s1, b, t1) <- step_tr s;
             if b then do (s2, t2) <- until_no_events_tr f s1; Ok (s2, t1 ++ t2) else Ok (s1, t1)
    end.
  Fixpoint until_time_tr (fuel : nat) (s : simsys) (t : T) : result (simsys * bool * trace) :=
    match fuel with
    | O => Panic 69
    | S f =>
      let '(q', oe) := q_peek (y_q s) in
      let s1 := y_with s q' (y_net s) (y_nodes s) (y_log s) in
      match oe with
      | None => Ok (set_clock s1 t, false, [])
      | Some e => if tltb ops t (q_time e) then Ok (set_clock s1 t, true, [])
                  else do (s2, _, t1) <- step_tr s1;
                       do (s3, b3, t3) <- until_time_tr f s2 t; Ok (s3, b3, t1 ++ t3)
      end
    end.
  Fixpoint until_local_tr (fuel : nat) (s : simsys) (proc : N) : result (simsys * option (list msg) * trace) :=
    match fuel with
    | O => Panic 69
    | S f =>
      do (s1, r) <- read_local s proc;
      match r with
      | Some l => Ok (s1, Some l, [])
      | None => do (s2, b, t1) <- step_tr s1;
                if b then do (s3, r3, t3) <- until_local_tr f s2 proc; Ok (s3, r3, t1 ++ t3) else Ok (s2, None, t1)
      end
    end.
  Fixpoint until_local_max_tr (fuel : nat) (s : simsys) (proc : N) (steps max_steps : N)
    : result (simsys * option (list msg) * trace) :=
    match fuel with
    | O => Panic 69
    | S f =>
      if N.ltb steps max_steps then
        do (s1, b, t1) <- step_tr s;
        if b then
          do (s2, r) <- read_local s1 proc;
          match r with
          | Some l => Ok (s2, Some l, t1)
          | None => do (s3, r3, t3) <- until_local_max_tr f s2 proc (steps + 1) max_steps; Ok (s3, r3, t1 ++ t3)
          end
        else Ok (s1, None, t1)
      else Ok (s, None, [])
    end.
  Fixpoint until_local_timeout_tr (fuel : nat) (s : simsys) (proc : N) (end_time : T)
    : result (simsys * option (list msg) * trace) :=
    match fuel with
    | O => Panic 69
    | S f =>
      if tltb ops (now s) end_time then
        do (s1, r) <- read_local s proc;
        match r with
        | Some l => Ok (s1, Some l, [])
        | None => do (s2, b, t1) <- step_tr s1;
                  if b then do (s3, r3, t3) <- until_local_timeout_tr f s2 proc end_time; Ok (s3, r3, t1 ++ t3)
                  else Ok (s2, None, t1)
        end
      else Ok (s, None, [])
    end.

  Definition sim_op_tr (fuel : nat) (s : simsys) (o : sop) : result (simsys * sret * trace) :=
    match o with
    | YStep => do (s', b, t) <- step_tr s; Ok (s', RetBool b, t)
    | YSteps n => do (s', b, t) <- steps_fuel_tr fuel s n; Ok (s', RetBool b, t)
    | YStepUntilNoEvents => do (s', t) <- until_no_events_tr fuel s; Ok (s', RetUnit, t)
    | YStepForDuration d => do (s', b, t) <- until_time_tr fuel s (tadd ops (now s) d); Ok (s', RetBool b, t)
    | YStepUntilLocal proc =>
      do _ <- node_of_proc s proc;
      do (s', r, t) <- until_local_tr fuel s proc; Ok (s', RetLocal r, t)
    | YStepUntilLocalMax proc mx =>
      do _ <- node_of_proc s proc;
      do (s1, r) <- read_local s proc;
      match r with
      | Some l => Ok (s1, RetLocal (Some l), [])
      | None => do (s', r', t) <- until_local_max_tr fuel s1 proc 0 mx; Ok (s', RetLocal r', t)
      end
    | YStepUntilLocalTimeout proc timeout =>
      do _ <- node_of_proc s proc;
      do (s', r, t) <- until_local_timeout_tr fuel s proc (tadd ops (now s) timeout); Ok (s', RetLocal r, t)
    | _ => do (s', r) <- sim_op fuel s o; Ok (s', r, [])          (* the other calls pop no event *)
    end.

  Fixpoint run_ops_tr (fuel : nat) (s : simsys) (l : list sop) : result (simsys * list sret * trace) :=
    match l with
    | [] => Ok (s, [], [])
    | o :: r =>
      do (s1, ret, t1) <- sim_op_tr fuel s o;
      do (s2, rets, t2) <- run_ops_tr fuel s1 r;
      Ok (s2, ret :: rets, t1 ++ t2)
    end.

  (* --- erasure: forgetting the trace gives back the model's functions --- *)
  Lemma step_erase s : erase (step_tr s) = step s.
  Proof.
    unfold step_tr, Sim.step, erase. destruct (q_next (y_q s)) as [q' [e|]]; cbn [bind]; auto.
    destruct (deliver _ e); reflexivity.
  Qed.

  Ltac erase_step s :=
    rewrite <- (step_erase s); unfold erase at 2; destruct (step_tr s) as [[[? []] ?]|]; cbn [bind]; auto.

  Lemma steps_fuel_erase fuel : forall s n, erase (steps_fuel_tr fuel s n) = steps_fuel ops handler draws fuel s n.
  Proof.
    induction fuel as [|f IH]; intros s n; cbn [steps_fuel_tr Sim.steps_fuel]; auto.
    destruct (N.eqb n 0); auto.
    erase_step s. rewrite <- IH. unfold erase. destruct (steps_fuel_tr f _ _) as [[[? ?] ?]|]; reflexivity.
  Qed.

  Lemma until_no_events_erase fuel : forall s, erase (until_no_events_tr fuel s) = until_no_events ops handler draws fuel s.
  Proof.
    induction fuel as [|f IH]; intros s; cbn [until_no_events_tr Sim.until_no_events]; auto.
    erase_step s. rewrite <- IH. unfold erase. destruct (until_no_events_tr f _) as [[? ?]|]; reflexivity.
  Qed.

  Lemma until_time_erase fuel : forall s t, erase (until_time_tr fuel s t) = until_time ops handler draws fuel s t.
  Proof.
    induction fuel as [|f IH]; intros s t; cbn [until_time_tr Sim.until_time]; auto.
    destruct (q_peek (y_q s)) as [q' [e|]]; auto.
    destruct (tltb ops t (q_time e)); auto.
    set (s1 := y_with s q' (y_net s) (y_nodes s) (y_log s)).
    rewrite <- (step_erase s1). unfold erase at 2. destruct (step_tr s1) as [[[s2 b] t1]|]; cbn [bind]; auto.
    rewrite <- IH. unfold erase. destruct (until_time_tr f _ _) as [[[? ?] ?]|]; reflexivity.
  Qed.

  Lemma until_local_erase fuel p : forall s, erase (until_local_tr fuel s p) = until_local ops handler draws fuel s p.
  Proof.
    induction fuel as [|f IH]; intros s; cbn [until_local_tr Sim.until_local]; auto.
    destruct (read_local s p) as [[s1 [l|]]|]; cbn [bind]; auto.
    rewrite <- (step_erase s1). unfold erase at 2. destruct (step_tr s1) as [[[s2 []] t1]|]; cbn [bind]; auto.
    rewrite <- IH. unfold erase. destruct (until_local_tr f _ _) as [[[? ?] ?]|]; reflexivity.
  Qed.

  Lemma until_local_max_erase fuel p mx : forall s k,
    erase (until_local_max_tr fuel s p k mx) = until_local_max ops handler draws fuel s p k mx.
  Proof.
    induction fuel as [|f IH]; intros s k; cbn [until_local_max_tr Sim.until_local_max]; auto.
    destruct (N.ltb k mx); auto.
    rewrite <- (step_erase s). unfold erase at 2. destruct (step_tr s) as [[[s1 []] t1]|]; cbn [bind]; auto.
    destruct (read_local s1 p) as [[s2 [l|]]|]; cbn [bind]; auto.
    rewrite <- IH. unfold erase. destruct (until_local_max_tr f _ _ _ _) as [[[? ?] ?]|]; reflexivity.
  Qed.

  Lemma until_local_timeout_erase fuel p t : forall s,
    erase (until_local_timeout_tr fuel s p t) = until_local_timeout ops handler draws fuel s p t.
  Proof.
    induction fuel as [|f IH]; intros s; cbn [until_local_timeout_tr Sim.until_local_timeout]; auto.
    destruct (tltb ops (now s) t); auto.
    destruct (read_local s p) as [[s1 [l|]]|]; cbn [bind]; auto.
    rewrite <- (step_erase s1). unfold erase at 2. destruct (step_tr s1) as [[[s2 []] t1]|]; cbn [bind]; auto.
    rewrite <- IH. unfold erase. destruct (until_local_timeout_tr f _ _ _) as [[[? ?] ?]|]; reflexivity.
  Qed.

  Theorem sim_op_erase fuel s o : erase (sim_op_tr fuel s o) = sim_op fuel s o.
  Proof.
    destruct o; cbn [sim_op_tr];
      try (match goal with |- erase (bind ?X _) = _ => destruct X as [[? ?]|] end; reflexivity);
      cbn [Sim.sim_op].
    - rewrite <- step_erase. unfold erase. destruct (step_tr s) as [[[? ?] ?]|]; reflexivity.
    - rewrite <- steps_fuel_erase. unfold erase. destruct (steps_fuel_tr fuel s n) as [[[? ?] ?]|]; reflexivity.
    - rewrite <- until_no_events_erase. unfold erase. destruct (until_no_events_tr fuel s) as [[? ?]|]; reflexivity.
    - rewrite <- until_time_erase. unfold erase. destruct (until_time_tr fuel s _) as [[[? ?] ?]|]; reflexivity.
    - destruct (node_of_proc s proc) as [?|]; cbn [bind]; auto.
      rewrite <- until_local_erase. unfold erase. destruct (until_local_tr fuel s proc) as [[[? ?] ?]|]; reflexivity.
    - destruct (node_of_proc s proc) as [?|]; cbn [bind]; auto.
      destruct (read_local s proc) as [[s1 [l|]]|]; cbn [bind]; auto.
      rewrite <- until_local_max_erase. unfold erase.
      destruct (until_local_max_tr fuel s1 proc 0 max_steps) as [[[? ?] ?]|]; reflexivity.
    - destruct (node_of_proc s proc) as [?|]; cbn [bind]; auto.
      rewrite <- until_local_timeout_erase. unfold erase.
      destruct (until_local_timeout_tr fuel s proc _) as [[[? ?] ?]|]; reflexivity.
  Qed.

  Theorem run_ops_erase fuel l : forall s, erase (run_ops_tr fuel s l) = run_ops fuel s l.
  Proof.
    induction l as [|o l IH]; intros s; cbn [run_ops_tr SimSpec.run_ops]; auto.
    rewrite <- sim_op_erase. unfold erase at 2. destruct (sim_op_tr fuel s o) as [[[s1 ret] t1]|]; cbn [bind]; auto.
    rewrite <- IH. unfold erase. destruct (run_ops_tr fuel s1 l) as [[[? ?] ?]|]; reflexivity.
  Qed.

  Lemma erase_ok {A B} (r : result (A * B)) a b : r = Ok (a, b) -> erase r = Ok a.
  Proof. intros ->. reflexivity. Qed.

  Lemma erase_inv {A B} (r : result (A * B)) a : erase r = Ok a -> exists b, r = Ok (a, b).
  Proof. destruct r as [[x y]|]; cbn; intros H; inversion H; eauto. Qed.

  (* --- stability principle for the instrumented functions: P is kept and every traced event satisfies Q --- *)
  Section StableTr.
    Variable P : simsys -> Prop.
    Variable Q : qevent -> Prop.
    Hypothesis P_step : forall s s' b t, P s -> step_tr s = Ok (s', b, t) -> P s' /\ Forall Q t.
    Hypothesis P_peek : forall s q' oe, P s -> q_peek (y_q s) = (q', oe) ->
                                        P (y_with s q' (y_net s) (y_nodes s) (y_log s)).
    Hypothesis P_clock : forall s t, P s -> P (set_clock s t).
    Hypothesis P_read : forall s p s' r, P s -> read_local s p = Ok (s', r) -> P s'.

    Lemma steps_fuel_tr_stable fuel : forall s n s' b t,
      P s -> steps_fuel_tr fuel s n = Ok (s', b, t) -> P s' /\ Forall Q t.
    Proof.
      induction fuel as [|f IH]; cbn [steps_fuel_tr]; intros s n s' b t HP H; [discriminate|].
      destruct (N.eqb n 0).
      - inversion H; subst; auto.
      - binv H. destruct a as [[s1 b1] t1]. destruct (P_step _ _ _ _ HP Ha) as [HP1 HQ1]. destruct b1.
        + binv Hb. destruct a as [[s2 b2] t2]. inversion Hbb; subst.
          destruct (IH _ _ _ _ _ HP1 Hba). split; auto. apply Forall_app; auto.
        + inversion Hb; subst; auto.
    Qed.

    Lemma until_no_events_tr_stable fuel : forall s s' t,
      P s -> until_no_events_tr fuel s = Ok (s', t) -> P s' /\ Forall Q t.
    Proof.
      induction fuel as [|f IH]; cbn [until_no_events_tr]; intros s s' t HP H; [discriminate|].
      binv H. destruct a as [[s1 b1] t1]. destruct (P_step _ _ _ _ HP Ha) as [HP1 HQ1]. destruct b1.
      - binv Hb. destruct a as [s2 t2]. inversion Hbb; subst.
        destruct (IH _ _ _ HP1 Hba). split; auto. apply Forall_app; auto.
      - inversion Hb; subst; auto.
    Qed.

    Lemma until_time_tr_stable fuel : forall s tm s' b t,
      P s -> until_time_tr fuel s tm = Ok (s', b, t) -> P s' /\ Forall Q t.
    Proof.
      induction fuel as [|f IH]; cbn [until_time_tr]; intros s tm s' b t HP H; [discriminate|].
      destruct (q_peek (y_q s)) as [q' oe] eqn:Hq.
      pose proof (P_peek _ _ _ HP Hq) as HP1.
      destruct oe as [e|].
      - destruct (tltb ops tm (q_time e)).
        + inversion H; subst. split; auto.
        + binv H. destruct a as [[s2 b2] t2]. destruct (P_step _ _ _ _ HP1 Ha) as [HP2 HQ2].
          binv Hb. destruct a as [[s3 b3] t3]. inversion Hbb; subst.
          destruct (IH _ _ _ _ _ HP2 Hba). split; auto. apply Forall_app; auto.
      - inversion H; subst. split; auto.
    Qed.

    Lemma until_local_tr_stable fuel p : forall s s' r t,
      P s -> until_local_tr fuel s p = Ok (s', r, t) -> P s' /\ Forall Q t.
    Proof.
      induction fuel as [|f IH]; cbn [until_local_tr]; intros s s' r t HP H; [discriminate|].
      binv H. destruct a as [s1 r1]. pose proof (P_read _ _ _ _ HP Ha) as HP1.
      destruct r1 as [l|].
      - inversion Hb; subst; auto.
      - binv Hb. destruct a as [[s2 b2] t2]. destruct (P_step _ _ _ _ HP1 Hba) as [HP2 HQ2]. destruct b2.
        + binv Hbb. destruct a as [[s3 r3] t3]. inversion Hbbb; subst.
          destruct (IH _ _ _ _ HP2 Hbba). split; auto. apply Forall_app; auto.
        + inversion Hbb; subst; auto.
    Qed.

    Lemma until_local_max_tr_stable fuel p mx : forall s k s' r t,
      P s -> until_local_max_tr fuel s p k mx = Ok (s', r, t) -> P s' /\ Forall Q t.
    Proof.
      induction fuel as [|f IH]; cbn [until_local_max_tr]; intros s k s' r t HP H; [discriminate|].
      destruct (N.ltb k mx).
      - binv H. destruct a as [[s1 b1] t1]. destruct (P_step _ _ _ _ HP Ha) as [HP1 HQ1]. destruct b1.
        + binv Hb. destruct a as [s2 r2]. pose proof (P_read _ _ _ _ HP1 Hba) as HP2.
          destruct r2 as [l|].
          * inversion Hbb; subst; auto.
          * binv Hbb. destruct a as [[s3 r3] t3]. inversion Hbbb; subst.
            destruct (IH _ _ _ _ _ HP2 Hbba). split; auto. apply Forall_app; auto.
        + inversion Hb; subst; auto.
      - inversion H; subst; auto.
    Qed.

    Lemma until_local_timeout_tr_stable fuel p tm : forall s s' r t,
      P s -> until_local_timeout_tr fuel s p tm = Ok (s', r, t) -> P s' /\ Forall Q t.
    Proof.
      induction fuel as [|f IH]; cbn [until_local_timeout_tr]; intros s s' r t HP H; [discriminate|].
      destruct (tltb ops (now s) tm).
      - binv H. destruct a as [s1 r1]. pose proof (P_read _ _ _ _ HP Ha) as HP1.
        destruct r1 as [l|].
        + inversion Hb; subst; auto.
        + binv Hb. destruct a as [[s2 b2] t2]. destruct (P_step _ _ _ _ HP1 Hba) as [HP2 HQ2]. destruct b2.
          * binv Hbb. destruct a as [[s3 r3] t3]. inversion Hbbb; subst.
            destruct (IH _ _ _ _ HP2 Hbba). split; auto. apply Forall_app; auto.
          * inversion Hbb; subst; auto.
      - inversion H; subst; auto.
    Qed.

    (* for the calls that are not stepping calls the trace is empty by definition of sim_op_tr *)
    Theorem sim_op_tr_traced fuel s o s' r t :
      P s -> sim_op_tr fuel s o = Ok (s', r, t) -> (is_step_op o = true -> P s') /\ Forall Q t.
    Proof.
      intros HP H. destruct o; cbn [sim_op_tr] in H;
        try (binv H; destruct a as [? ?]; inversion Hb; subst; split; [discriminate | constructor]).
      - binv H. destruct a as [s1 r1]. inversion Hb; subst. split; [|constructor]. intros _.
        cbn [Sim.sim_op] in Ha. binv Ha. destruct a as [s2 r2]. inversion Hab; subst. eapply P_read; eauto.
      - binv H. destruct a as [[s1 b1] t1]. inversion Hb; subst. destruct (P_step _ _ _ _ HP Ha); auto.
      - binv H. destruct a as [[s1 b1] t1]. inversion Hb; subst. destruct (steps_fuel_tr_stable _ _ _ _ _ _ HP Ha); auto.
      - binv H. destruct a as [s1 t1]. inversion Hb; subst. destruct (until_no_events_tr_stable _ _ _ _ HP Ha); auto.
      - binv H. destruct a as [[s1 b1] t1]. inversion Hb; subst. destruct (until_time_tr_stable _ _ _ _ _ _ HP Ha); auto.
      - binv H. binv Hb. destruct a0 as [[s1 r1] t1]. inversion Hbb; subst.
        destruct (until_local_tr_stable _ _ _ _ _ _ HP Hba); auto.
      - binv H. binv Hb. destruct a0 as [s1 r1].
        pose proof (P_read _ _ _ _ HP Hba) as HP1.
        destruct r1 as [l|].
        + inversion Hbb; subst; auto.
        + binv Hbb. destruct a0 as [[s2 r2] t2]. inversion Hbbb; subst.
          destruct (until_local_max_tr_stable _ _ _ _ _ _ _ _ HP1 Hbba); auto.
      - binv H. binv Hb. destruct a0 as [[s1 r1] t1]. inversion Hbb; subst.
        destruct (until_local_timeout_tr_stable _ _ _ _ _ _ _ HP Hba); auto.
    Qed.
  End StableTr.

  (* every event handed to `deliver` by a call from a state where id i is dead has an id different from i *)
  Lemma dead_step_tr i s s' b t :
    DeadP i s -> step_tr s = Ok (s', b, t) -> DeadP i s' /\ Forall (fun e => q_id e <> i) t.
  Proof.
    intros HP H. split.
    - eapply dead_step; eauto. rewrite <- step_erase. eapply erase_ok. exact H.
    - unfold step_tr in H. destruct (q_next (y_q s)) as [q' [e|]] eqn:Hq.
      + binv H. inversion Hb; subst. constructor; [|constructor].
        eapply step_never_delivers_dead; eauto. apply HP.
      + inversion H; subst. constructor.
  Qed.

  Theorem dead_not_traced fuel s o s' r t i :
    Inv s -> Dead i s -> sim_op_tr fuel s o = Ok (s', r, t) ->
    Inv s' /\ Dead i s' /\ Forall (fun e => q_id e <> i) t.
  Proof.
    intros HI HD H.
    assert (E : sim_op fuel s o = Ok (s', r)) by (rewrite <- sim_op_erase; eapply erase_ok; exact H).
    split; [eapply sim_op_inv; eauto|]. split; [eapply dead_stable; eauto|].
    eapply (sim_op_tr_traced (DeadP i) (fun e => q_id e <> i)); [ | | | | split; [exact HI | exact HD] | exact H].
    - apply dead_step_tr.
    - intros s0 q' oe [HI0 HD0] Hq. split.
      + apply (peek_inv _ _ oe); auto.
      + apply dead_q; auto. eapply q_peek_step; eauto.
    - intros s0 tm [HI0 HD0]. split.
      + apply set_clock_inv; auto.
      + unfold Sim.set_clock. apply dead_q; auto. apply qstep_same; auto.
    - intros s0 p s1 r1 [HI0 HD0] Hrd. split.
      + eapply read_local_inv; eauto.
      + apply read_local_spec in Hrd. destruct Hrd as [->|[nname [nd2 [nd2' [H1 [H2 [H3 ->]]]]]]]; auto.
  Qed.

  Theorem dead_not_traced_run fuel l : forall s s' rets t i,
    Inv s -> Dead i s -> run_ops_tr fuel s l = Ok (s', rets, t) ->
    Inv s' /\ Dead i s' /\ Forall (fun e => q_id e <> i) t.
  Proof.
    induction l as [|o l IH]; cbn [run_ops_tr]; intros s s' rets t i HI HD H.
    - inversion H; subst. auto.
    - binv H. destruct a as [[s1 ret] t1]. binv Hb. destruct a as [[s2 rs] t2]. inversion Hbb; subst; clear Hbb.
      destruct (dead_not_traced _ _ _ _ _ _ _ HI HD Ha) as [HI1 [HD1 HQ1]].
      destruct (IH _ _ _ _ _ HI1 HD1 Hba) as [HI2 [HD2 HQ2]].
      split; auto. split; auto. apply Forall_app; auto.
  Qed.

  Lemma run_ops_tr_app fuel l1 : forall s l2 s' rets t,
    run_ops_tr fuel s (l1 ++ l2) = Ok (s', rets, t) ->
    exists s1 r1 t1 r2 t2,
      run_ops_tr fuel s l1 = Ok (s1, r1, t1) /\ run_ops_tr fuel s1 l2 = Ok (s', r2, t2) /\
      rets = r1 ++ r2 /\ t = t1 ++ t2.
  Proof.
    induction l1 as [|o l IH]; cbn [app run_ops_tr]; intros s l2 s' rets t H.
    - exists s, [], [], rets, t. auto.
    - binv H. destruct a as [[s1 ret] t1]. binv Hb. destruct a as [[s2 rs] t2]. inversion Hbb; subst; clear Hbb.
      apply IH in Hba. destruct Hba as [s3 [r1 [t3 [r2 [t4 [A [B [-> ->]]]]]]]].
      exists s3, (ret :: r1), (t1 ++ t3), r2, t4. rewrite Ha. cbn [bind]. rewrite A. cbn [bind].
      rewrite app_assoc. auto.
  Qed.

  Lemma run_ops_tr_ok fuel s l s' rets t : run_ops_tr fuel s l = Ok (s', rets, t) -> run_ops fuel s l = Ok (s', rets).
  Proof. intros H. rewrite <- run_ops_erase. eapply erase_ok. exact H. Qed.

  Lemma sim_op_tr_ok fuel s o s' r t : sim_op_tr fuel s o = Ok (s', r, t) -> sim_op fuel s o = Ok (s', r).
  Proof. intros H. rewrite <- sim_op_erase. eapply erase_ok. exact H. Qed.

  (* ================================================================================================ *)
  (* 12. K6: the property                                                                             *)
  (* ================================================================================================ *)

  (* A script  pre ; crash n ; mid ; recover n ; post  (mid without recover / add_process / set_clock_skew on n)
     from a state satisfying the invariant (e.g. the empty system).  Then for every event e that was in the queue at the
     crash with the node's id as source or destination (= every message from or to n, every timer of n):
     no event with the id of e is handed to `deliver` during mid, the recovery, or post; and during mid node n's entry
     only changes by emptied outboxes (no handler of n runs).  After the recovery the node has no process, is not
     crashed and has its handler again. *)
  Theorem crash_isolates fuel s0 pre n mid post s5 rets tr :
    Inv s0 ->
    Forall (fun o => touches_node n o = false) mid ->
    run_ops_tr fuel s0 (pre ++ YCrash n :: mid ++ YRecover n :: post) = Ok (s5, rets, tr) ->
    exists s1 s2 s3 s4 nd nd3 t_pre t_mid t_post,
      run_ops_tr fuel s0 pre = Ok (s1, firstn (length pre) rets, t_pre) /\
      sget n (y_nodes s1) = Some nd /\
      sim_op fuel s1 (YCrash n) = Ok (s2, RetUnit) /\
      (exists r3, run_ops_tr fuel s2 mid = Ok (s3, r3, t_mid)) /\
      sim_op fuel s3 (YRecover n) = Ok (s4, RetUnit) /\
      (exists r5, run_ops_tr fuel s4 post = Ok (s5, r5, t_post)) /\
      tr = t_pre ++ t_mid ++ t_post /\
      (* nothing pending from / to the node at the crash is delivered later *)
      (forall e, In e (q_events (y_q s1)) -> q_src e = sd_id nd \/ q_dst e = sd_id nd ->
                 (forall e', In e' (t_mid ++ t_post) -> q_id e' <> q_id e) /\ Dead (q_id e) s5) /\
      (* the node is silent while crashed *)
      sget n (y_nodes s2) = Some (crashed_copy nd) /\
      sget n (y_nodes s3) = Some nd3 /\ node_quiet (crashed_copy nd) nd3 /\
      (* and starts clean *)
      sget n (y_nodes s4) = Some (recovered_copy nd3) /\
      sget (sd_id nd) (y_handlers s4) = Some true /\
      y_q s4 = y_q s3.
  Proof.
    intros HI0 Hmid H.
    apply run_ops_tr_app in H. destruct H as [s1 [r1 [t1 [r2 [t2 [Hpre [H [-> ->]]]]]]]].
    cbn [run_ops_tr] in H. binv H. destruct a as [[s2 rc] tc]. binv Hb. destruct a as [[s5' r3] t3].
    inversion Hbb; subst; clear Hbb.
    apply run_ops_tr_app in Hba. destruct Hba as [s3 [r4 [t4 [r5 [t5 [Hm [H [-> ->]]]]]]]].
    cbn [run_ops_tr] in H. binv H. destruct a as [[s4 rr] trr]. binv Hb. destruct a as [[s5' r6] t6].
    inversion Hbb; subst; clear Hbb.
    (* the crash and the recovery have empty traces *)
    cbn [sim_op_tr] in Ha, Ha0.
    binv Ha. destruct a as [s2' rc']. inversion Hab; subst; clear Hab.
    binv Ha0. destruct a as [s4' rr']. inversion Ha0b; subst; clear Ha0b.
    rename Haa into Hcr. rename Ha0a into Hrec.
    pose proof (run_ops_tr_ok _ _ _ _ _ _ Hpre) as Hpre'.
    pose proof (run_ops_inv _ _ _ _ _ HI0 Hpre') as HI1.
    pose proof (sim_op_inv _ _ _ _ _ HI1 Hcr) as HI2.
    pose proof (run_ops_tr_ok _ _ _ _ _ _ Hm) as Hm'.
    pose proof (run_ops_inv _ _ _ _ _ HI2 Hm') as HI3.
    pose proof (sim_op_inv _ _ _ _ _ HI3 Hrec) as HI4.
    destruct (crash_cancels_inflight _ _ _ _ _ HI1 Hcr) as [nd [Hn [Ev [_ [_ [_ [Hc [_ [Hn2 _]]]]]]]]].
    destruct (silent_between _ _ _ _ _ _ _ HI2 Hn2 eq_refl Hmid Hm') as [nd3 [Hn3 Hq3]].
    destruct (fresh_after_recover _ _ _ _ _ Hrec) as [nd3' [Hn3' [_ [Hn4 [Hh4 [_ [Hq4 _]]]]]]].
    rewrite Hn3 in Hn3'. inversion Hn3'; subst nd3'.
    assert (Hrc : rc = RetUnit).
    { cbn [Sim.sim_op] in Hcr. rewrite Hn in Hcr. inversion Hcr. reflexivity. }
    assert (Hrr : rr = RetUnit).
    { cbn [Sim.sim_op] in Hrec. rewrite Hn3 in Hrec. destruct (negb (sd_crashed nd3)); [discriminate|].
      destruct (sget (sd_id nd3) (y_handlers s3)) as [[|]|]; try discriminate; inversion Hrec; reflexivity. }
    subst rc rr.
    exists s1, s2, s3, s4, nd, nd3, t1, t4, t6.
    split.
    { rewrite Hpre. f_equal. f_equal. f_equal.
      assert (L : length r1 = length pre).
      { clear -Hpre'. revert s0 s1 r1 Hpre'. induction pre as [|o l IH]; cbn [SimSpec.run_ops]; intros s0 s1 r1 H.
        - inversion H; reflexivity.
        - binv H. destruct a as [sa ra]. binv Hb. destruct a as [sb rb]. inversion Hbb; subst. cbn [length].
          f_equal. eapply IH; eauto. }
      rewrite <- L. rewrite firstn_app, Nat.sub_diag, firstn_all. cbn [firstn]. rewrite app_nil_r. reflexivity. }
    split; [exact Hn|]. split; [exact Hcr|]. split; [eauto|]. split; [exact Hrec|].
    split; [eauto|].
    split; [cbn [app]; reflexivity|].
    split.
    { intros e He Ht.
      assert (HD2 : Dead (q_id e) s2).
      { apply cancelled_is_dead; auto. rewrite Ev. exact He. }
      destruct (dead_not_traced_run _ _ _ _ _ _ _ HI2 HD2 Hm) as [_ [HD3 HQ3]].
      assert (HD4 : Dead (q_id e) s4) by (eapply (dead_stable _ s3); [exact HI3 | exact HD3 | exact Hrec]).
      destruct (dead_not_traced_run _ _ _ _ _ _ _ HI4 HD4 Hba) as [_ [HD5 HQ5]].
      split; auto. intros e' He'. apply in_app_iff in He'. rewrite Forall_forall in HQ3, HQ5.
      destruct He'; auto. }
    split; [exact Hn2|]. split; [exact Hn3|]. split; [exact Hq3|]. split; [exact Hn4|].
    split; [|exact Hq4].
    pose proof (nq_id _ _ Hq3) as E. cbn [crashed_copy sd_id] in E. rewrite <- E. exact Hh4.
  Qed.

  (* from the empty system *)
  Corollary crash_isolates_from_start fuel pre n mid post s5 rets tr :
    Forall (fun o => touches_node n o = false) mid ->
    run_ops_tr fuel (sys0 ops) (pre ++ YCrash n :: mid ++ YRecover n :: post) = Ok (s5, rets, tr) ->
    exists s1 s2 s3 s4 nd nd3 t_pre t_mid t_post,
      run_ops_tr fuel (sys0 ops) pre = Ok (s1, firstn (length pre) rets, t_pre) /\
      sget n (y_nodes s1) = Some nd /\
      sim_op fuel s1 (YCrash n) = Ok (s2, RetUnit) /\
      (exists r3, run_ops_tr fuel s2 mid = Ok (s3, r3, t_mid)) /\
      sim_op fuel s3 (YRecover n) = Ok (s4, RetUnit) /\
      (exists r5, run_ops_tr fuel s4 post = Ok (s5, r5, t_post)) /\
      tr = t_pre ++ t_mid ++ t_post /\
      (forall e, In e (q_events (y_q s1)) -> q_src e = sd_id nd \/ q_dst e = sd_id nd ->
                 (forall e', In e' (t_mid ++ t_post) -> q_id e' <> q_id e) /\ Dead (q_id e) s5) /\
      sget n (y_nodes s2) = Some (crashed_copy nd) /\
      sget n (y_nodes s3) = Some nd3 /\ node_quiet (crashed_copy nd) nd3 /\
      sget n (y_nodes s4) = Some (recovered_copy nd3) /\
      sget (sd_id nd) (y_handlers s4) = Some true /\
      y_q s4 = y_q s3.
  Proof. apply crash_isolates. apply inv_sys0. Qed.

  (* every successful run of the model is the erasure of a run of the instrumented functions: the theorems about
     traces speak about all runs *)
  Theorem run_ops_has_trace fuel s l s' rets :
    run_ops fuel s l = Ok (s', rets) -> exists tr, run_ops_tr fuel s l = Ok (s', rets, tr).
  Proof. intros H. rewrite <- run_ops_erase in H. apply erase_inv in H. exact H. Qed.

  Corollary others_unaffected fuel s n s' r m :
    Inv s -> (sim_op fuel s (YCrash n) = Ok (s', r) \/ sim_op fuel s (YRecover n) = Ok (s', r)) -> m <> n ->
    sget m (y_nodes s') = sget m (y_nodes s) /\ y_net s' = y_net s /\
    q_clock (y_q s') = q_clock (y_q s) /\ q_count (y_q s') = q_count (y_q s) /\ q_rand (y_q s') = q_rand (y_q s) /\
    q_events (y_q s') = q_events (y_q s).
  Proof.
    intros HI [H|H] Hm.
    - destruct (crash_frame _ _ _ _ _ HI H) as [A [B [_ [C [D [E F]]]]]]. repeat split; auto.
    - destruct (recover_frame _ _ _ _ _ H) as [A [B C]]. rewrite C. repeat split; auto.
  Qed.

End SimCrash.

(* ==================================================================================================== *)
(* 13. Concrete instances (integer time): the two facts that delimit the property                       *)
(* ==================================================================================================== *)
From Coq Require Import ZArith.
From ASV Require Import Spec.TimeLaws.

Module Examples.
  Definition m0 : msg := {| tip := [1]; data := [2] |}.
  (* a process answers a local message by echoing it locally; process 20 also sends it to process 10 *)
  Definition h (proc : N) (st : unit) (i : input) (t : Z) (d : nat -> Z) : unit * list (action Z) * nat :=
    match i with
    | InLocal m => (st, (if N.eqb proc 20 then [ALocal m; ASend m 10] else [ALocal m]), O)
    | _ => (st, [], O)
    end.
  Definition run (l : list (@sop Z)) :=
    run_ops z_ops h (fun _ => tt) (fun _ => 0%Z) (fun l => l) 100 (sys0 z_ops) l.
  Definition outboxes (n : N) (r : result (@simsys Z unit * list sret)) : option (bool * list (N * list msg)) :=
    match r with
    | Ok (s, _) => match sget N.compare n (y_nodes s) with
                   | Some nd => Some (sd_crashed nd, map (fun kp => (fst kp, pe_outbox (snd kp))) (sd_procs nd))
                   | None => None
                   end
    | Panic _ => None
    end.

  (* (a) K3 cannot say "the entry of a crashed node is unchanged by every call other than recover/add_process/
     set_clock_skew on it": read_local_messages on a process of the crashed node still drains its outbox. *)
  Definition scriptA : list (@sop Z) := [YAddNode 1; YAddProcess 10 1; YSendLocal 10 m0; YCrash 1].
  Example crashed_outbox_before : outboxes 1 (run scriptA) = Some (true, [(10, [m0])]).
  Proof. vm_compute. reflexivity. Qed.
  Example crashed_outbox_after_read : outboxes 1 (run (scriptA ++ [YReadLocal 10])) = Some (true, [(10, [])]).
  Proof. vm_compute. reflexivity. Qed.

  (* (b) outside the property (which speaks about what was pending AT crash time): a message sent to a process of
     the node AFTER the crash stays live in the queue; if the node is recovered and the process re-added before the
     message's delivery time, the new process receives it. *)
  Definition scriptB : list (@sop Z) :=
    [YAddNode 1; YAddNode 2; YAddProcess 10 1; YAddProcess 20 2;
     YCrash 1; YSendLocal 20 m0; YRecover 1; YAddProcess 10 1; YStep].
  Definition recv (n p : N) (r : result (@simsys Z unit * list sret)) : option N :=
    match r with
    | Ok (s, _) => match sget N.compare n (y_nodes s) with
                   | Some nd => option_map (fun e => pe_recv e) (sget N.compare p (sd_procs nd))
                   | None => None
                   end
    | Panic _ => None
    end.
  Example sent_while_down_is_delivered_after_recovery : recv 1 10 (run scriptB) = Some 1.
  Proof. vm_compute. reflexivity. Qed.
  (* whereas, stepped while the node is still down, the same event is popped and silently discarded *)
  Definition scriptB' : list (@sop Z) :=
    [YAddNode 1; YAddNode 2; YAddProcess 10 1; YAddProcess 20 2;
     YCrash 1; YSendLocal 20 m0; YStep; YRecover 1; YAddProcess 10 1; YStep].
  Example sent_while_down_is_lost_if_stepped_while_down : recv 1 10 (run scriptB') = Some 0.
  Proof. vm_compute. reflexivity. Qed.
End Examples.

Print Assumptions reachable_inv.
Print Assumptions crash_cancels_inflight.
Print Assumptions crash_cancels_messages.
Print Assumptions silent_while_crashed.
Print Assumptions silent_between.
Print Assumptions silent_between_exact.
Print Assumptions send_local_crashed_panics.
Print Assumptions cancelled_never_delivered.
Print Assumptions dead_stable.
Print Assumptions dead_not_traced_run.
Print Assumptions fresh_after_recover.
Print Assumptions recover_then_add.
Print Assumptions recover_not_crashed_panics.
Print Assumptions crash_frame.
Print Assumptions recover_frame.
Print Assumptions others_unaffected.
Print Assumptions sim_op_erase.
Print Assumptions run_ops_erase.
Print Assumptions crash_isolates.
Print Assumptions crash_isolates_from_start.
