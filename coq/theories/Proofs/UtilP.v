(* Lemma library for Base/Util.v: comparison specifications, sorted association lists (sins/sget/srem),
   sorted sets of N (nins/nrem/nmem/nunion/nsort), and a few generic list facts.
   No axioms; see the Print Assumptions lines at the end. *)
From Coq Require Import List NArith Bool Lia.
From ASV Require Import Base.Util Base.Msg Model.Store.
Import ListNotations.
Open Scope N_scope.

(* ------------------------------------------------------------------------------------------ *)
(* generic list facts                                                                          *)
(* ------------------------------------------------------------------------------------------ *)

Definition isnil {A} (l : list A) : bool := match l with [] => true | _ => false end.

Lemma isnil_true {A} (l : list A) : isnil l = true <-> l = [].
Proof. destruct l; cbn; split; intro H; auto; discriminate. Qed.

Lemma isnil_map {A B} (f : A -> B) l : isnil (map f l) = isnil l.
Proof. destruct l; reflexivity. Qed.

Lemma isnil_filter {A} (f : A -> bool) l : isnil (filter f l) = negb (existsb f l).
Proof.
  induction l as [|x r IH]; cbn; auto.
  destruct (f x); cbn; auto.
Qed.

Lemma existsb_ext_in {A} (f g : A -> bool) l :
  (forall x, In x l -> f x = g x) -> existsb f l = existsb g l.
Proof.
  induction l as [|x r IH]; cbn; intros H; auto.
  rewrite H by auto. rewrite IH; auto.
Qed.

Lemma existsb_false_iff {A} (f : A -> bool) l :
  existsb f l = false <-> (forall x, In x l -> f x = false).
Proof.
  induction l as [|x r IH]; cbn.
  - split; intros; auto. contradiction.
  - rewrite orb_false_iff, IH. split.
    + intros [H1 H2] y [<-|Hy]; auto.
    + intros H; split; auto.
Qed.

Lemma existsb_filter_false {A} (f g : A -> bool) l :
  existsb f l = false -> existsb f (filter g l) = false.
Proof.
  rewrite !existsb_false_iff. intros H x Hx. apply filter_In in Hx. apply H, Hx.
Qed.

Lemma forallb_negb_existsb {A} (f : A -> bool) l :
  forallb (fun x => negb (f x)) l = negb (existsb f l).
Proof.
  induction l as [|x r IH]; cbn; auto.
  rewrite IH. destruct (f x); reflexivity.
Qed.

Lemma filter_filter {A} (f g : A -> bool) l :
  filter f (filter g l) = filter (fun x => g x && f x) l.
Proof.
  induction l as [|x r IH]; cbn; auto.
  destruct (g x); cbn; [destruct (f x)|]; rewrite IH; auto.
Qed.

Lemma filter_nil_iff {A} (f : A -> bool) l : filter f l = [] <-> existsb f l = false.
Proof.
  rewrite <- isnil_true, isnil_filter. destruct (existsb f l); cbn; split; auto; discriminate.
Qed.

Lemma find_app {A} (f : A -> bool) l1 l2 :
  find f (l1 ++ l2) = match find f l1 with Some x => Some x | None => find f l2 end.
Proof.
  induction l1 as [|x r IH]; cbn; auto.
  destruct (f x); auto.
Qed.

Lemma NoDup_map_filter {A B} (f : A -> B) (g : A -> bool) l :
  NoDup (map f l) -> NoDup (map f (filter g l)).
Proof.
  induction l as [|x r IH]; cbn; intros H; auto.
  inversion H as [|? ? Hn Hr]; subst.
  destruct (g x); cbn; auto.
  constructor; auto.
  intros Hin. apply Hn. apply in_map_iff in Hin. destruct Hin as [y [Hy1 Hy2]].
  apply filter_In in Hy2. apply in_map_iff. exists y. tauto.
Qed.

Lemma NoDup_snoc {A} (l : list A) x : NoDup l -> ~ In x l -> NoDup (l ++ [x]).
Proof.
  induction l as [|y r IH]; cbn; intros Hn Hx.
  - constructor; auto.
  - inversion Hn; subst. constructor.
    + rewrite in_app_iff. cbn. intros [H|[H|[]]]; auto.
    + apply IH; auto.
Qed.

Lemma map_filter_fst_comm {A B} (g : A -> bool) (l : list (A * B)) (h : A * B -> bool) :
  filter g (map fst (filter h l)) = map fst (filter h (filter (fun p => g (fst p)) l)).
Proof.
  induction l as [|x r IH]; cbn; auto.
  destruct (h x) eqn:Hh; cbn.
  - destruct (g (fst x)); cbn; rewrite ?Hh; cbn; rewrite IH; auto.
  - destruct (g (fst x)); cbn; rewrite ?Hh; auto.
Qed.

(* ------------------------------------------------------------------------------------------ *)
(* specification of a three-way comparison                                                     *)
(* ------------------------------------------------------------------------------------------ *)

Record CmpSpec {K : Type} (cmp : K -> K -> comparison) : Prop := {
  cmp_eq : forall a b, cmp a b = Eq <-> a = b;
  cmp_lt_gt : forall a b, cmp a b = Lt -> cmp b a = Gt;
  cmp_gt_lt : forall a b, cmp a b = Gt -> cmp b a = Lt;
  cmp_lt_trans : forall a b c, cmp a b = Lt -> cmp b c = Lt -> cmp a c = Lt }.

Section CmpFacts.
  Context {K : Type} (cmp : K -> K -> comparison) (CS : CmpSpec cmp).

  Lemma cmp_refl a : cmp a a = Eq.
  Proof. apply (cmp_eq _ CS). reflexivity. Qed.

  Lemma is_eq_true a b : is_eq (cmp a b) = true <-> a = b.
  Proof.
    rewrite <- (cmp_eq _ CS). destruct (cmp a b); cbn; split; intro H; auto; discriminate.
  Qed.

  Lemma is_eq_false a b : is_eq (cmp a b) = false <-> a <> b.
  Proof.
    rewrite <- is_eq_true. destruct (is_eq (cmp a b)); split; intro H; auto; try discriminate.
    exfalso; apply H; reflexivity.
  Qed.

  Lemma is_eq_refl a : is_eq (cmp a a) = true.
  Proof. rewrite cmp_refl. reflexivity. Qed.

  Lemma is_eq_sym a b : is_eq (cmp a b) = is_eq (cmp b a).
  Proof.
    destruct (is_eq (cmp b a)) eqn:E.
    - apply is_eq_true in E. apply is_eq_true. auto.
    - apply is_eq_false in E. apply is_eq_false. auto.
  Qed.

  Lemma cmp_lt_neq a b : cmp a b = Lt -> a <> b.
  Proof. intros H E. subst. rewrite cmp_refl in H. discriminate. Qed.

  Lemma cmp_gt_neq a b : cmp a b = Gt -> a <> b.
  Proof. intros H E. subst. rewrite cmp_refl in H. discriminate. Qed.

  Lemma cmp_dec (a b : K) : {a = b} + {a <> b}.
  Proof.
    destruct (cmp a b) eqn:E.
    - left. apply (cmp_eq _ CS). auto.
    - right. apply cmp_lt_neq; auto.
    - right. apply cmp_gt_neq; auto.
  Qed.
End CmpFacts.

(* ---- instances ---- *)

Lemma CmpSpec_N : CmpSpec N.compare.
Proof.
  split.
  - intros a b. apply N.compare_eq_iff.
  - intros a b H. rewrite N.compare_lt_iff in H. rewrite N.compare_gt_iff. lia.
  - intros a b H. rewrite N.compare_gt_iff in H. rewrite N.compare_lt_iff. lia.
  - intros a b c H1 H2. rewrite N.compare_lt_iff in H1. rewrite N.compare_lt_iff in H2.
    rewrite N.compare_lt_iff. lia.
Qed.

Lemma CmpSpec_pair {A B} (ca : A -> A -> comparison) (cb : B -> B -> comparison) :
  CmpSpec ca -> CmpSpec cb -> CmpSpec (cmp_pair ca cb).
Proof.
  intros SA SB. split.
  - intros [a1 b1] [a2 b2]. unfold cmp_pair. cbn [fst snd].
    destruct (ca a1 a2) eqn:E.
    + apply (cmp_eq _ SA) in E. subst. rewrite (cmp_eq _ SB). split; intro H.
      * subst; auto.
      * inversion H; auto.
    + split; intro H; try discriminate. inversion H; subst.
      rewrite (cmp_refl _ SA) in E. discriminate.
    + split; intro H; try discriminate. inversion H; subst.
      rewrite (cmp_refl _ SA) in E. discriminate.
  - intros [a1 b1] [a2 b2]. unfold cmp_pair. cbn [fst snd].
    destruct (ca a1 a2) eqn:E; intros H; try discriminate.
    + apply (cmp_eq _ SA) in E. subst. rewrite (cmp_refl _ SA). apply (cmp_lt_gt _ SB); auto.
    + rewrite (cmp_lt_gt _ SA _ _ E). reflexivity.
  - intros [a1 b1] [a2 b2]. unfold cmp_pair. cbn [fst snd].
    destruct (ca a1 a2) eqn:E; intros H; try discriminate.
    + apply (cmp_eq _ SA) in E. subst. rewrite (cmp_refl _ SA). apply (cmp_gt_lt _ SB); auto.
    + rewrite (cmp_gt_lt _ SA _ _ E). reflexivity.
  - intros [a1 b1] [a2 b2] [a3 b3]. unfold cmp_pair. cbn [fst snd].
    destruct (ca a1 a2) eqn:E1; intros H1; try discriminate.
    + apply (cmp_eq _ SA) in E1. subst.
      destruct (ca a2 a3) eqn:E2; intros H2; try discriminate; auto.
      eapply (cmp_lt_trans _ SB); eauto.
    + destruct (ca a2 a3) eqn:E2; intros H2; try discriminate.
      * apply (cmp_eq _ SA) in E2. subst. rewrite E1. reflexivity.
      * rewrite (cmp_lt_trans _ SA _ _ _ E1 E2). reflexivity.
Qed.

Lemma CmpSpec_list {A} (c : A -> A -> comparison) : CmpSpec c -> CmpSpec (cmp_list c).
Proof.
  intros SA. split.
  - intros x. induction x as [|a x IH]; intros [|b y]; cbn; try (split; intro H; [auto|]; discriminate).
    + split; auto.
    + destruct (c a b) eqn:E.
      * apply (cmp_eq _ SA) in E. subst. rewrite IH. split; intro H.
        -- subst; auto.
        -- inversion H; auto.
      * split; intro H; try discriminate. inversion H; subst.
        rewrite (cmp_refl _ SA) in E. discriminate.
      * split; intro H; try discriminate. inversion H; subst.
        rewrite (cmp_refl _ SA) in E. discriminate.
  - intros x. induction x as [|a x IH]; intros [|b y]; cbn; intros H; try discriminate; auto.
    destruct (c a b) eqn:E; try discriminate.
    + apply (cmp_eq _ SA) in E. subst. rewrite (cmp_refl _ SA). auto.
    + rewrite (cmp_lt_gt _ SA _ _ E). reflexivity.
  - intros x. induction x as [|a x IH]; intros [|b y]; cbn; intros H; try discriminate; auto.
    destruct (c a b) eqn:E; try discriminate.
    + apply (cmp_eq _ SA) in E. subst. rewrite (cmp_refl _ SA). auto.
    + rewrite (cmp_gt_lt _ SA _ _ E). reflexivity.
  - intros x. induction x as [|a x IH]; intros [|b y] [|d z]; cbn; intros H1 H2; try discriminate; auto.
    destruct (c a b) eqn:E1; try discriminate.
    + apply (cmp_eq _ SA) in E1. subst.
      destruct (c b d) eqn:E2; try discriminate; auto.
      eapply IH; eauto.
    + destruct (c b d) eqn:E2; try discriminate.
      * apply (cmp_eq _ SA) in E2. subst. rewrite E1. reflexivity.
      * rewrite (cmp_lt_trans _ SA _ _ _ E1 E2). reflexivity.
Qed.

Lemma CmpSpec_str : CmpSpec str_cmp.
Proof. apply CmpSpec_list, CmpSpec_N. Qed.

Lemma msg_cmp_pair a b :
  msg_cmp a b = cmp_pair str_cmp str_cmp (tip a, data a) (tip b, data b).
Proof. reflexivity. Qed.

Lemma CmpSpec_msg : CmpSpec msg_cmp.
Proof.
  pose proof (CmpSpec_pair _ _ CmpSpec_str CmpSpec_str) as P.
  split.
  - intros [t1 d1] [t2 d2]. rewrite msg_cmp_pair. rewrite (cmp_eq _ P). cbn.
    split; intro H; inversion H; auto.
  - intros a b. rewrite !msg_cmp_pair. apply (cmp_lt_gt _ P).
  - intros a b. rewrite !msg_cmp_pair. apply (cmp_gt_lt _ P).
  - intros a b c. rewrite !msg_cmp_pair. apply (cmp_lt_trans _ P).
Qed.

Lemma CmpSpec_tkey : CmpSpec tkey_cmp.
Proof. apply CmpSpec_pair; apply CmpSpec_N. Qed.

Lemma CmpSpec_mkey : CmpSpec mkey_cmp.
Proof. apply CmpSpec_pair; [apply CmpSpec_msg | apply CmpSpec_tkey]. Qed.

Lemma msg_eqb_true a b : msg_eqb a b = true <-> a = b.
Proof. apply (is_eq_true _ CmpSpec_msg). Qed.

(* ------------------------------------------------------------------------------------------ *)
(* association lists sorted by key                                                             *)
(* ------------------------------------------------------------------------------------------ *)

Section SMapP.
  Context {K V : Type} (cmp : K -> K -> comparison) (CS : CmpSpec cmp).
  Notation sins := (sins cmp).
  Notation sget := (sget cmp).
  Notation srem := (srem cmp).
  Notation shas := (shas cmp).

  (* strictly sorted by key *)
  Inductive ssorted : list (K * V) -> Prop :=
  | ss_nil : ssorted []
  | ss_cons : forall k v r, Forall (fun q => cmp k (fst q) = Lt) r -> ssorted r -> ssorted ((k, v) :: r).

  Lemma ssorted_inv k v r : ssorted ((k, v) :: r) -> Forall (fun q => cmp k (fst q) = Lt) r /\ ssorted r.
  Proof. intros H. inversion H; subst. auto. Qed.

  (* --- sget after sins / srem: no sortedness needed --- *)
  Lemma sget_sins_eq k v (l : list (K * V)) : sget k (sins k v l) = Some v.
  Proof.
    induction l as [|[k' v'] r IH]; cbn.
    - rewrite (cmp_refl _ CS). reflexivity.
    - destruct (cmp k k') eqn:E; cbn.
      + rewrite (cmp_refl _ CS). reflexivity.
      + rewrite (cmp_refl _ CS). reflexivity.
      + rewrite E. cbn. apply IH.
  Qed.

  Lemma sget_sins_neq k k' v (l : list (K * V)) : k <> k' -> sget k' (sins k v l) = sget k' l.
  Proof.
    intros Hne. assert (Hf : is_eq (cmp k' k) = false) by (apply (is_eq_false _ CS); auto).
    induction l as [|[k0 v0] r IH]; cbn.
    - rewrite Hf. reflexivity.
    - destruct (cmp k k0) eqn:E; cbn.
      + apply (cmp_eq _ CS) in E. subst k0. rewrite Hf. reflexivity.
      + rewrite Hf. reflexivity.
      + rewrite IH. reflexivity.
  Qed.

  Lemma sget_sins k k' v (l : list (K * V)) :
    sget k' (sins k v l) = if is_eq (cmp k' k) then Some v else sget k' l.
  Proof.
    destruct (is_eq (cmp k' k)) eqn:E.
    - apply (is_eq_true _ CS) in E. subst. apply sget_sins_eq.
    - apply (is_eq_false _ CS) in E. apply sget_sins_neq. auto.
  Qed.

  Lemma sget_srem_eq k (l : list (K * V)) : sget k (srem k l) = None.
  Proof.
    induction l as [|[k0 v0] r IH]; cbn; auto.
    destruct (is_eq (cmp k k0)) eqn:E; cbn; auto.
    rewrite E. apply IH.
  Qed.

  Lemma sget_srem_neq k k' (l : list (K * V)) : k <> k' -> sget k' (srem k l) = sget k' l.
  Proof.
    intros Hne. unfold Util.srem.
    induction l as [|[k0 v0] r IH]; cbn; auto.
    destruct (is_eq (cmp k k0)) eqn:E; cbn.
    - apply (is_eq_true _ CS) in E. subst k0.
      assert (Hf : is_eq (cmp k' k) = false) by (apply (is_eq_false _ CS); auto).
      rewrite Hf. apply IH.
    - rewrite IH. reflexivity.
  Qed.

  Lemma sget_srem k k' (l : list (K * V)) :
    sget k' (srem k l) = if is_eq (cmp k' k) then None else sget k' l.
  Proof.
    destruct (is_eq (cmp k' k)) eqn:E.
    - apply (is_eq_true _ CS) in E. subst. apply sget_srem_eq.
    - apply (is_eq_false _ CS) in E. apply sget_srem_neq. auto.
  Qed.

  (* --- membership --- *)
  Lemma in_sins q k v (l : list (K * V)) : In q (sins k v l) -> q = (k, v) \/ In q l.
  Proof.
    induction l as [|[k0 v0] r IH]; cbn.
    - intros [H|[]]; auto.
    - destruct (cmp k k0); cbn; intros H.
      + destruct H as [H|H]; auto.
      + destruct H as [H|[H|H]]; auto.
      + destruct H as [H|H]; auto. apply IH in H. tauto.
  Qed.

  Lemma sget_lt_none k (r : list (K * V)) : Forall (fun q => cmp k (fst q) = Lt) r -> sget k r = None.
  Proof.
    induction r as [|[k0 v0] r IH]; cbn; auto.
    intros H. inversion H as [|? ? H1 H2]; subst. cbn in H1. rewrite H1. cbn. auto.
  Qed.

  Lemma sget_in k v (l : list (K * V)) : ssorted l -> (sget k l = Some v <-> In (k, v) l).
  Proof.
    induction l as [|[k0 v0] r IH]; cbn; intros Hs.
    - split; [discriminate | contradiction].
    - apply ssorted_inv in Hs. destruct Hs as [Hf Hs].
      destruct (is_eq (cmp k k0)) eqn:E.
      + apply (is_eq_true _ CS) in E. subst k0. split.
        * intros H. inversion H; auto.
        * intros [H|H]; [inversion H; auto|].
          rewrite Forall_forall in Hf. apply Hf in H. cbn in H.
          rewrite (cmp_refl _ CS) in H. discriminate.
      + apply (is_eq_false _ CS) in E. rewrite IH by auto. split; auto.
        intros [H|H]; auto. inversion H; subst. exfalso; apply E; auto.
  Qed.

  Lemma sget_some_in k v (l : list (K * V)) : sget k l = Some v -> In (k, v) l.
  Proof.
    induction l as [|[k0 v0] r IH]; cbn; try discriminate.
    destruct (is_eq (cmp k k0)) eqn:E; auto.
    apply (is_eq_true _ CS) in E. subst. intros H; inversion H; auto.
  Qed.

  Lemma sget_none_iff k (l : list (K * V)) : sget k l = None <-> ~ In k (map fst l).
  Proof.
    induction l as [|[k0 v0] r IH]; cbn.
    - tauto.
    - destruct (is_eq (cmp k k0)) eqn:E.
      + apply (is_eq_true _ CS) in E. subst. split; [discriminate|]. intros H; exfalso; apply H; auto.
      + apply (is_eq_false _ CS) in E. rewrite IH. split.
        * intros H [H1|H1]; auto.
        * intros H H1. apply H; auto.
  Qed.

  Lemma shas_in k (l : list (K * V)) : shas k l = true <-> In k (map fst l).
  Proof.
    unfold Util.shas. pose proof (sget_none_iff k l) as H.
    destruct (sget k l).
    - split; auto. intros _.
      destruct (in_dec (cmp_dec _ CS) k (map fst l)) as [Hi|Hi]; auto.
      apply H in Hi. discriminate.
    - split; [discriminate|]. intros Hi. exfalso. apply H; auto.
  Qed.

  (* --- sortedness preserved --- *)
  Lemma ssorted_sins k v (l : list (K * V)) : ssorted l -> ssorted (sins k v l).
  Proof.
    induction l as [|[k0 v0] r IH]; cbn; intros Hs.
    - constructor; auto; constructor.
    - apply ssorted_inv in Hs. destruct Hs as [Hf Hs].
      destruct (cmp k k0) eqn:E.
      + apply (cmp_eq _ CS) in E. subst. constructor; auto.
      + constructor; [|constructor; auto].
        constructor; auto.
        rewrite Forall_forall in *. intros q Hq. eapply (cmp_lt_trans _ CS); eauto.
      + constructor; auto.
        rewrite Forall_forall in *. intros q Hq. apply in_sins in Hq. destruct Hq as [Hq|Hq].
        * subst. cbn. apply (cmp_gt_lt _ CS). auto.
        * auto.
  Qed.

  Lemma ssorted_filter (f : K * V -> bool) l : ssorted l -> ssorted (filter f l).
  Proof.
    induction l as [|[k0 v0] r IH]; cbn; intros Hs; auto.
    apply ssorted_inv in Hs. destruct Hs as [Hf Hs].
    destruct (f (k0, v0)); auto.
    constructor; auto.
    rewrite Forall_forall in *. intros q Hq. apply filter_In in Hq. apply Hf, Hq.
  Qed.

  Lemma ssorted_srem k (l : list (K * V)) : ssorted l -> ssorted (srem k l).
  Proof. apply ssorted_filter. Qed.

  Lemma ssorted_NoDup (l : list (K * V)) : ssorted l -> NoDup (map fst l).
  Proof.
    induction l as [|[k0 v0] r IH]; cbn; intros Hs.
    - constructor.
    - apply ssorted_inv in Hs. destruct Hs as [Hf Hs]. constructor; auto.
      intros Hin. apply in_map_iff in Hin. destruct Hin as [q [Hq1 Hq2]].
      rewrite Forall_forall in Hf. apply Hf in Hq2. rewrite Hq1 in Hq2.
      rewrite (cmp_refl _ CS) in Hq2. discriminate.
  Qed.

  (* --- membership characterisations (sorted lists) --- *)
  Lemma in_sins_iff k v k' v' (l : list (K * V)) : ssorted l ->
    (In (k', v') (sins k v l) <-> (k' = k /\ v' = v) \/ (k' <> k /\ In (k', v') l)).
  Proof.
    intros Hs. rewrite <- sget_in by (apply ssorted_sins; auto). rewrite sget_sins.
    destruct (is_eq (cmp k' k)) eqn:E.
    - apply (is_eq_true _ CS) in E. subst. split.
      + intros H; inversion H; auto.
      + intros [[_ ->]|[H _]]; auto. exfalso; apply H; auto.
    - apply (is_eq_false _ CS) in E. rewrite sget_in by auto. split; auto.
      intros [[H _]|[_ H]]; auto. contradiction.
  Qed.

  Lemma in_srem_iff k k' v' (l : list (K * V)) :
    (In (k', v') (srem k l) <-> k' <> k /\ In (k', v') l).
  Proof.
    unfold Util.srem. rewrite filter_In. cbn [fst]. rewrite negb_true_iff.
    rewrite (is_eq_false _ CS). split; intros [H1 H2]; split; auto.
  Qed.

  (* --- uniqueness of the sorted representation --- *)
  Theorem ssorted_ext (l1 l2 : list (K * V)) :
    ssorted l1 -> ssorted l2 -> (forall k, sget k l1 = sget k l2) -> l1 = l2.
  Proof.
    revert l2. induction l1 as [|[k1 v1] r1 IH]; intros [|[k2 v2] r2] H1 H2 Hg; auto.
    - specialize (Hg k2). cbn in Hg. rewrite (cmp_refl _ CS) in Hg. discriminate.
    - specialize (Hg k1). cbn in Hg. rewrite (cmp_refl _ CS) in Hg. discriminate.
    - apply ssorted_inv in H1. destruct H1 as [Hf1 Hs1].
      apply ssorted_inv in H2. destruct H2 as [Hf2 Hs2].
      destruct (cmp k1 k2) eqn:E.
      + apply (cmp_eq _ CS) in E. subst k2.
        pose proof (Hg k1) as Hk. cbn in Hk. rewrite (cmp_refl _ CS) in Hk. cbn in Hk.
        inversion Hk; subst v2. f_equal.
        apply IH; auto. intros k.
        destruct (is_eq (cmp k k1)) eqn:Ek.
        * apply (is_eq_true _ CS) in Ek. subst. rewrite !sget_lt_none; auto.
        * specialize (Hg k). cbn in Hg. rewrite Ek in Hg. auto.
      + exfalso. specialize (Hg k1). cbn in Hg. rewrite (cmp_refl _ CS), E in Hg. cbn in Hg.
        rewrite sget_lt_none in Hg; [discriminate|].
        rewrite Forall_forall in *. intros q Hq. eapply (cmp_lt_trans _ CS); eauto.
      + exfalso. apply (cmp_gt_lt _ CS) in E.
        specialize (Hg k2). cbn in Hg. rewrite (cmp_refl _ CS), E in Hg. cbn in Hg.
        rewrite sget_lt_none in Hg; [discriminate|].
        rewrite Forall_forall in *. intros q Hq. eapply (cmp_lt_trans _ CS); eauto.
  Qed.

  (* --- value maps that keep the keys --- *)
  Lemma sget_map_val (g : K -> V -> V) k (l : list (K * V)) :
    sget k (map (fun p => (fst p, g (fst p) (snd p))) l) =
    match sget k l with Some v => Some (g k v) | None => None end.
  Proof.
    induction l as [|[k0 v0] r IH]; cbn; auto.
    destruct (is_eq (cmp k k0)) eqn:E; auto.
    apply (is_eq_true _ CS) in E. subst. reflexivity.
  Qed.

  Lemma ssorted_map_val (g : K -> V -> V) (l : list (K * V)) :
    ssorted l -> ssorted (map (fun p => (fst p, g (fst p) (snd p))) l).
  Proof.
    induction l as [|[k0 v0] r IH]; cbn; intros Hs; auto.
    apply ssorted_inv in Hs. destruct Hs as [Hf Hs]. constructor; auto.
    rewrite Forall_forall in *. intros q Hq. apply in_map_iff in Hq.
    destruct Hq as [q0 [<- Hq0]]. cbn. auto.
  Qed.

  Lemma ssorted_empty : ssorted [].
  Proof. constructor. Qed.
End SMapP.

Arguments ssorted {K V} cmp l.

(* ------------------------------------------------------------------------------------------ *)
(* sorted sets of N                                                                            *)
(* ------------------------------------------------------------------------------------------ *)

Inductive nsorted : list N -> Prop :=
| ns_nil : nsorted []
| ns_cons : forall x r, Forall (N.lt x) r -> nsorted r -> nsorted (x :: r).

Lemma nsorted_inv x r : nsorted (x :: r) -> Forall (N.lt x) r /\ nsorted r.
Proof. intros H; inversion H; auto. Qed.

Lemma in_nins x y l : In x (nins y l) <-> x = y \/ In x l.
Proof.
  induction l as [|z r IH]; cbn.
  - split; intros [H|H]; auto.
  - destruct (N.compare y z) eqn:E; cbn.
    + apply N.compare_eq_iff in E. subst. split; auto. intros [H|H]; auto.
    + intuition (subst; auto).
    + rewrite IH. intuition (subst; auto).
Qed.

Lemma nsorted_nins y l : nsorted l -> nsorted (nins y l).
Proof.
  induction l as [|z r IH]; cbn; intros Hs.
  - constructor; auto; constructor.
  - apply nsorted_inv in Hs. destruct Hs as [Hf Hs].
    destruct (N.compare y z) eqn:E.
    + constructor; auto.
    + rewrite N.compare_lt_iff in E. constructor; [|constructor; auto].
      constructor; auto. rewrite Forall_forall in *. intros q Hq. apply Hf in Hq. lia.
    + rewrite N.compare_gt_iff in E. constructor; auto.
      rewrite Forall_forall in *. intros q Hq. apply in_nins in Hq. destruct Hq as [->|Hq]; auto.
Qed.

Lemma nsorted_filter f l : nsorted l -> nsorted (filter f l).
Proof.
  induction l as [|z r IH]; cbn; intros Hs; auto.
  apply nsorted_inv in Hs. destruct Hs as [Hf Hs].
  destruct (f z); auto. constructor; auto.
  rewrite Forall_forall in *. intros q Hq. apply filter_In in Hq. apply Hf, Hq.
Qed.

Lemma in_nrem x y l : In x (nrem y l) <-> In x l /\ x <> y.
Proof.
  unfold nrem. rewrite filter_In, negb_true_iff, N.eqb_neq. split; intros [H1 H2]; split; auto.
Qed.

Lemma nsorted_nrem y l : nsorted l -> nsorted (nrem y l).
Proof. apply nsorted_filter. Qed.

Lemma nmem_iff x l : nmem x l = true <-> In x l.
Proof.
  unfold nmem. rewrite existsb_exists. split.
  - intros [y [H1 H2]]. apply N.eqb_eq in H2. subst; auto.
  - intros H. exists x. split; auto. apply N.eqb_refl.
Qed.

Lemma nmem_false_iff x l : nmem x l = false <-> ~ In x l.
Proof.
  rewrite <- nmem_iff. destruct (nmem x l); split; intro H; auto; try discriminate.
  exfalso; apply H; auto.
Qed.

Lemma in_fold_nins x b : forall a, In x (fold_left (fun acc y => nins y acc) b a) <-> In x a \/ In x b.
Proof.
  induction b as [|y r IH]; cbn; intros a.
  - tauto.
  - rewrite IH, in_nins. split; intros H; intuition auto.
Qed.

Lemma nsorted_fold_nins b : forall a, nsorted a -> nsorted (fold_left (fun acc y => nins y acc) b a).
Proof.
  induction b as [|y r IH]; cbn; intros a Ha; auto.
  apply IH. apply nsorted_nins. auto.
Qed.

Lemma in_nunion x a b : In x (nunion a b) <-> In x a \/ In x b.
Proof. apply in_fold_nins. Qed.

Lemma nsorted_nunion a b : nsorted a -> nsorted (nunion a b).
Proof. apply nsorted_fold_nins. Qed.

Lemma in_nsort x l : In x (nsort l) <-> In x l.
Proof. unfold nsort. rewrite in_fold_nins. cbn. tauto. Qed.

Lemma nsorted_nsort l : nsorted (nsort l).
Proof. apply nsorted_fold_nins. constructor. Qed.

Lemma nsort_snoc l x : nsort (l ++ [x]) = nins x (nsort l).
Proof. unfold nsort. rewrite fold_left_app. reflexivity. Qed.

Lemma nsorted_NoDup l : nsorted l -> NoDup l.
Proof.
  induction l as [|z r IH]; intros Hs.
  - constructor.
  - apply nsorted_inv in Hs. destruct Hs as [Hf Hs]. constructor; auto.
    intros Hin. rewrite Forall_forall in Hf. apply Hf in Hin. lia.
Qed.

(* uniqueness of the sorted representation of a set *)
Theorem nsorted_ext l1 l2 :
  nsorted l1 -> nsorted l2 -> (forall x, In x l1 <-> In x l2) -> l1 = l2.
Proof.
  revert l2. induction l1 as [|x1 r1 IH]; intros [|x2 r2] H1 H2 Hi; auto.
  - exfalso. apply (Hi x2). left; auto.
  - exfalso. apply (Hi x1). left; auto.
  - apply nsorted_inv in H1. destruct H1 as [Hf1 Hs1].
    apply nsorted_inv in H2. destruct H2 as [Hf2 Hs2].
    rewrite Forall_forall in Hf1, Hf2.
    assert (x1 = x2) as ->.
    { pose proof (proj1 (Hi x1) (or_introl eq_refl)) as A.
      pose proof (proj2 (Hi x2) (or_introl eq_refl)) as B.
      destruct A as [A|A]; auto. destruct B as [B|B]; auto.
      apply Hf2 in A. apply Hf1 in B. lia. }
    f_equal. apply IH; auto.
    intros x. split; intros Hx.
    + pose proof (proj1 (Hi x) (or_intror Hx)) as A. destruct A as [A|A]; auto.
      subst. apply Hf1 in Hx. lia.
    + pose proof (proj2 (Hi x) (or_intror Hx)) as A. destruct A as [A|A]; auto.
      subst. apply Hf2 in Hx. lia.
Qed.

Lemma isnil_nsort l : isnil (nsort l) = isnil l.
Proof.
  destruct l as [|x r]; auto. cbn [isnil].
  destruct (nsort (x :: r)) eqn:E; auto.
  exfalso. assert (H : In x (nsort (x :: r))) by (apply in_nsort; left; auto).
  rewrite E in H. contradiction.
Qed.

Lemma nsort_nsorted_id l : nsorted l -> nsort l = l.
Proof.
  intros H. apply nsorted_ext; auto using nsorted_nsort. intros x. apply in_nsort.
Qed.

Print Assumptions ssorted_ext.
Print Assumptions nsorted_ext.
Print Assumptions CmpSpec_mkey.
Print Assumptions sget_sins.
Print Assumptions sget_srem.
Print Assumptions ssorted_sins.
Print Assumptions nsorted_nsort.
