(* C04, last sentence: the hypotheses of Proofs/HandoffSafe.v (C04_safe) are jointly satisfiable, with a checker run that
   really returns ROk, a non-trivial invariant and a goal predicate.
   Two nodes over integer time; process 5 (node 1) forwards a local message to process 6 (node 2), whose state counts
   the messages it has received.  The hand-off is taken with the forwarded message in flight.
     invariant: process 6 has received fewer than two messages;  goal: process 6 has received exactly one. *)
From Coq Require Import List NArith ZArith Bool Lia.
From ASV Require Import Base.Util Base.Msg Base.Log Model.Store Spec.StoreSpec Model.McSys Spec.RefSys Model.Search Model.McRun
     Model.Sim Spec.TimeLaws Spec.SimSpec Model.Snapshot
     Proofs.UtilP Proofs.StoreSpecP Proofs.StoreRefine Proofs.SysLift Proofs.RefWf Proofs.Restore
     Proofs.SearchCorrect Proofs.EqBisim Proofs.McSearch
     Proofs.SimTimeP Proofs.SimBaseP Proofs.SnapshotP Proofs.FateAgree
     Proofs.HandoffSimBase Proofs.HandoffSim Proofs.HandoffSim2 Proofs.HandoffSim2Ex Proofs.HandoffSafe.
Import ListNotations.
Open Scope N_scope.

Module HandoffSafeEx.
  Definition m0 : msg := {| tip := [1]; data := [] |}.
  Definition hS (p : N) (st : N) (i : input) (t : Z) (r : nat -> Z) : N * list (action Z) * nat :=
    match i with
    | InLocal m => (st, [ASend m 6], O)
    | InMsg m from => (st + 1, [], O)
    | InTimer n => (st, [], O)
    end.
  Definition hM (p : N) (st : N) (i : input) (t : Z) (r : nat -> Z) : N * list (action Z) :=
    fst (hS p st i 0%Z (fun _ => 0%Z)).
  Definition dr : nat -> Z := fun _ => 0%Z.
  Definition ini : N -> N := fun _ => 0.
  Definition script : list (@sop Z) := [YAddNode 1; YAddNode 2; YAddProcess 5 1; YAddProcess 6 2; YSendLocal 5 m0].
  Definition rets : list sret := [RetUnit; RetUnit; RetUnit; RetUnit; RetUnit].
  Definition s0 : @simsys Z N :=
    match run_ops z_ops hS ini dr (fun l => l) 5 (sys0 z_ops) script with Ok (s, _) => s | Panic _ => sys0 z_ops end.
  Definition soC := concrete_ops (tleb z_ops) (@store_eqb Z).
  Definition sysC : @mcsys Z (store Z) N :=
    match snapshot z_ops soC s0 with
    | Ok m => m
    | Panic _ => {| s_nodes := []; s_net := snap_net s0; s_events := Store.empty; s_depth := 0; s_mf := false; s_trace := [] |}
    end.

  (* the predicates: functions of the equality-visible projection *)
  Definition st6 (c : core_projection (PS := N)) : option N :=
    match sget N.compare 2 c with
    | Some (_, ps) => match sget N.compare 6 ps with Some (st, _) => Some st | None => None end
    | None => None
    end.
  Definition ci (c : core_projection (PS := N)) : option N :=
    match st6 c with Some n => if N.leb 2 n then Some 7 else None | None => None end.
  Definition cg (c : core_projection (PS := N)) : option N :=
    match st6 c with Some n => if N.eqb n 1 then Some 1 else None | None => None end.
  Definition cp (c : core_projection (PS := N)) : option N := None.
  Definition pr : @preds Z (store Z) N :=
    {| pr_collect := fun _ => false;
       pr_inv := fun st => ci (core_of (proj_of_mc st));
       pr_goal := fun st => cg (core_of (proj_of_mc st));
       pr_prune := fun st => cp (core_of (proj_of_mc st)) |}.
  Definition cf : config := {| cf_strategy := Bfs; cf_vm := VFull; cf_debug := false; cf_fuel := 10 |}.

  Notation runC := (run soC Z.eqb (mc_gt0 z_ops) (mc_eq0 z_ops) 0%Z (fun _ sk => sk) N.eqb hM unit (fun _ _ => 0%Z) (fun _ => tt)).

  Lemma s0_run : run_ops z_ops hS ini dr (fun l => l) 5 (sys0 z_ops) script = Ok (s0, rets).
  Proof. vm_compute. reflexivity. Qed.
  Lemma s0_reachable : Reachable z_ops hS ini dr (fun l => l) s0.
  Proof. exists 5%nat, script, rets. exact s0_run. Qed.
  Lemma s0_installed : Installed s0.
  Proof.
    apply (registered_no_recover z_ops hS ini dr (fun l => l) 5 script s0 _ s0_run).
    intros n H. cbn [script In] in H. repeat (destruct H as [H|H]; [discriminate|]). exact H.
  Qed.
  Lemma s0_snapshot : snapshot z_ops soC s0 = Ok sysC.
  Proof. vm_compute. reflexivity. Qed.
  Lemma s0_routed : Routed s0.
  Proof.
    intros e mid m src sn dst dn He Hd.
    assert (F : forallb (fun e => match q_data e with
                                  | QMsg _ _ _ _ dst dn => match sget N.compare dst (sn_loc (y_net s0)) with
                                                           | Some x => N.eqb x dn
                                                           | None => false
                                                           end
                                  | QTimer _ _ => true
                                  end) (q_live (y_q s0)) = true) by (vm_compute; reflexivity).
    rewrite forallb_forall in F. specialize (F e He). cbv beta in F. rewrite Hd in F.
    destruct (sget N.compare dst (sn_loc (y_net s0))) as [x|]; [|discriminate].
    apply N.eqb_eq in F. subst x. reflexivity.
  Qed.
  Lemma s0_no_corruption : sn_corrupt (y_net s0) = tz z_ops.
  Proof. vm_compute. reflexivity. Qed.
  (* the message is in flight: the hand-off state has something left to do *)
  Lemma s0_live : map (fun e => c_of_q e) (q_live (y_q s0)) = [CMsg m0 5 6].
  Proof. vm_compute. reflexivity. Qed.

  Lemma handler_agree : forall proc st inp (t1 : Z) (r1 : nat -> Z) t2 r2, hM proc st inp t1 r1 = fst (hS proc st inp t2 r2).
  Proof. intros proc st inp t1 r1 t2 r2. unfold hM. destruct inp; reflexivity. Qed.
  Lemma handler_closed : forall proc st inp (time : Z) (rand : nat -> Z) m dst,
    In (ASend m dst) (snd (hM proc st inp time rand)) -> In dst (known_of s0).
  Proof.
    intros proc st inp time rand m dst Hin.
    assert (K : known_of s0 = [5; 6]) by (vm_compute; reflexivity). rewrite K.
    unfold hM in Hin. destruct inp; cbn [hS fst snd In] in Hin; try contradiction.
    destruct Hin as [Hin|[]]. inversion Hin; subst. cbn [In]. tauto.
  Qed.
  Lemma hM_once : once_only hM.
  Proof.
    intros proc st inp t r n d Hin. unfold hM in Hin. destruct inp; cbn [hS fst snd In] in Hin; try contradiction.
    destruct Hin as [Hin|[]]. discriminate Hin.
  Qed.
  Lemma N_eqb_spec' : forall a b : N, N.eqb a b = true <-> a = b.
  Proof. exact N.eqb_eq. Qed.
  Lemma Z_eqb_spec' : forall a b : Z, Z.eqb a b = true <-> a = b.
  Proof. exact Z.eqb_eq. Qed.

  Lemma pr_based :
    state_based (tleb z_ops) Z.eqb N.eqb pr /\
    pv_based pr (fun p => ci (core_of p)) (fun p => cg (core_of p)) (fun p => cp (core_of p)).
  Proof.
    apply (core_based_state_based (tleb z_ops) Z.eqb N.eqb Z_eqb_spec' N_eqb_spec' pr ci cg cp); reflexivity.
  Qed.

  (* the checker explores the two states and says Ok *)
  Definition is_rok (r : result (@mcsys Z (store Z) N * @mcresult Z (store Z) N * sstate (@mcstate Z (store Z) N))) : bool :=
    match r with Ok (_, ROk _ _, _) => true | _ => false end.
  Lemma checker_ok : CheckerSaysOk z_ops Z.eqb (mc_gt0 z_ops) (mc_eq0 z_ops) 0%Z (fun _ sk => sk) N.eqb hM unit (fun _ _ => 0%Z)
                       (fun _ => tt) sysC pr.
  Proof.
    assert (H : is_rok (runC cf pr sysC []) = true) by (vm_compute; reflexivity).
    exists cf. destruct (runC cf pr sysC []) as [[[sys' [stat coll|m tr| |t]] ss']|t] eqn:E; try discriminate H.
    exists sys', stat, coll, ss'. exact E.
  Qed.
  (* ... and it did explore: both states were handed to check_state *)
  Lemma checker_checked_two :
    match runC cf pr sysC [] with Ok (_, _, ss) => length (ss_checked _ ss) | Panic _ => O end = 2%nat.
  Proof. vm_compute. reflexivity. Qed.

  (* C04_safe applies: every state of every continuation of the simulation satisfies the invariant (process 6 never
     counts two messages), up to the first state in which the goal holds *)
  Theorem example_safe :
    forall l, SimRunOF z_ops hS dr hM s0 l ->
    forall l1 x l2, s0 :: l = l1 ++ x :: l2 ->
      ci (core_of (proj_of_sim x)) = None
      \/ exists y, In y l1 /\ ci (core_of (proj_of_sim y)) = None /\
                   (cg (core_of (proj_of_sim y)) <> None \/ cp (core_of (proj_of_sim y)) <> None).
  Proof.
    destruct pr_based as [Hsb Hpv].
    apply (C04_safe z_ops hS ini dr (fun l => l) Z.eqb (mc_gt0 z_ops) (mc_eq0 z_ops) 0%Z (fun _ sk => sk) N.eqb hM unit
             (fun _ _ => 0%Z) (fun _ => tt) (fun _ => tt) z_laws (proj2 z_sub_laws)) with (s0 := s0) (sysC := sysC) (pr := pr)
             (inv_pv := fun p => ci (core_of p)) (goal_pv := fun p => cg (core_of p)) (prune_pv := fun p => cp (core_of p)).
    - intros i. split; reflexivity.
    - intros r0 x H1 H2. apply (below_rate_nonzero z_ops z_laws r0 x H1 H2).
    - exact handler_agree.
    - exact s0_reachable.
    - exact s0_installed.
    - left. exact s0_routed.
    - exact s0_no_corruption.
    - exact s0_snapshot.
    - exact handler_closed.
    - intros st1 st2 _. reflexivity.
    - exact Z_eqb_spec'.
    - exact N_eqb_spec'.
    - intros a b _. reflexivity.
    - exact Hsb.
    - exact Hpv.
    - apply OverrideFree_On. apply once_only_OverrideFree. exact hM_once.
    - exact checker_ok.
  Qed.

  (* the statement is not vacuous: the simulation does continue, and delivers the message to process 6 *)
  Lemma example_run : exists s1, SimRunOF z_ops hS dr hM s0 [s1] /\ st6 (core_of (proj_of_sim s1)) = Some 1.
  Proof.
    destruct (step z_ops hS dr s0) as [[s1 b]|t] eqn:E; [|vm_compute in E; discriminate E].
    exists s1. split.
    - econstructor; [|exact E|constructor].
      apply stepof_once. intros proc st inp t r n d once Hin. unfold hM in Hin.
      destruct inp; cbn [hS fst snd In] in Hin; try contradiction. destruct Hin as [Hin|[]]. discriminate Hin.
    - vm_compute in E. injection E as <- _. vm_compute. reflexivity.
  Qed.
End HandoffSafeEx.

Print Assumptions HandoffSafeEx.example_safe.
Print Assumptions HandoffSafeEx.example_run.
