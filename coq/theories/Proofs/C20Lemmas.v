(* Composition of the refinement (StoreRefine) with the specification-level facts (StoreSpecP) into statements
   about the MODEL of PendingEvents, for Props/C20.v and Props/C13.v. *)
From ASV Require Import Base.Util Base.Msg Model.Store Spec.StoreSpec Proofs.UtilP Proofs.StoreSpecP Proofs.StoreRefine.
From Coq Require Import Lia.

Section C20.
  Context {T : Type} (tleb : T -> T -> bool).
  Notation store := (store T).
  Notation astore := (astore T).

  (* the model state reached by a legal sequence, together with the specification state it implements *)
  Definition Reached (s : store) (a : astore) : Prop :=
    exists ops outs, arun tleb aempty ops = Some (a, outs) /\ run tleb empty ops = Ok (s, outs).

  Lemma reached_R s a : Reached s a -> R tleb s a.
  Proof.
    intros (ops & outs & Ha & Hs).
    destruct (store_refines_R tleb ops a outs Ha) as (s' & Hs' & HR).
    rewrite Hs in Hs'. injection Hs' as <-. exact HR.
  Qed.

  Lemma legal_run_ok ops a outs :
    arun tleb aempty ops = Some (a, outs) -> exists s, run tleb empty ops = Ok (s, outs) /\ Reached s a.
  Proof.
    intros Ha. destruct (store_refines tleb ops a outs Ha) as (s & Hs).
    exists s. split; [exact Hs|]. exists ops, outs. auto.
  Qed.

  Lemma no_panic ops a outs : arun tleb aempty ops = Some (a, outs) -> is_ok (run tleb empty ops) = true.
  Proof. intros Ha. destruct (store_refines tleb ops a outs Ha) as (s & ->). reflexivity. Qed.

  (* offered = oldest of each group of identical messages + timers with no earlier pending timer of the process
     of less-or-equal delay; in MessagesFirst mode the offered messages if any *)
  Lemma offered_model s a : Reached s a ->
    offered s false = Ok (aoffered_set tleb a) /\ offered s true = Ok (aoffered tleb a true) /\
    evs s = alive a /\ next s = anext a /\
    forall i, In i (aoffered_set tleb a) <->
              exists e pre post, pend a = pre ++ (i, e) :: post /\
                                 forallb (fun o => negb (withheld_by tleb (snd o) e)) pre = true.
  Proof.
    intros H. pose proof (reached_R _ _ H) as HR.
    pose proof (observe_R tleb s a HR) as Ho.
    unfold observe, aobserve in Ho. injection Ho as H1 H2 H3 H4.
    repeat split; auto.
    - intros Hi. apply (offered_exact tleb a i (R_ainv tleb _ _ HR)). exact Hi.
    - intros Hi. apply (offered_exact tleb a i (R_ainv tleb _ _ HR)). exact Hi.
  Qed.

  Lemma live_model s a mf : Reached s a -> evs s <> [] -> exists l, offered s mf = Ok l /\ l <> [].
  Proof.
    intros H Hne. destruct (offered_model s a H) as (H1 & H2 & H3 & _).
    assert (Hp : pend a <> []).
    { intros E. apply Hne. rewrite H3. unfold alive. rewrite E. reflexivity. }
    destruct mf.
    - eexists. split; [exact H2|]. apply (offered_live tleb a true Hp).
    - eexists. split; [exact H1|]. apply (offered_live tleb a false Hp).
  Qed.
End C20.

Print Assumptions legal_run_ok.
Print Assumptions offered_model.
Print Assumptions live_model.
