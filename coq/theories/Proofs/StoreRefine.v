(* Refinement: the model Model/Store.v (PendingEvents + DependencyResolver with redundant indexes, every
   unwrap/assert/index a Panic) refines the spec Spec/StoreSpec.v (one insertion-ordered list `pend`)
   on every LEGAL operation sequence from the empty store.

   Main theorem (end of file):
     store_refines : arun tleb aempty ops = Some (a, outs) -> exists s, run tleb empty ops = Ok (s, outs)
   i.e. the model never panics and returns exactly the spec's outputs and observations (live list,
   offered set in both ordering modes, id counter) after every operation.
   store_refines_R additionally gives R for the final states.

   Simulation relation R s a (a Record, below):
     - ids of pend a are NoDup and all < anext a                                  (R_nodup, R_lt)
     - evs s = alive a, tmap s = amap a, next s = anext a, avail s = aoffered_set a
     - r_timers s is strictly sorted and  sget j (r_timers s) = tinfo_of (pend a) j :
         exactly the pending timers, with proc/delay and
         blockers = sorted set of ids of timers EARLIER in pend, same proc, tleb d_earlier d_this
     - r_msgs s is strictly sorted and  sget k (r_msgs s) = nonempty (mq k (pend a)) :
         the deque of group k is the ids of the pending messages of that group in pend order;
         groups without pending message are absent
     - r_ptimers s is strictly sorted and sget p (r_ptimers s) = nonempty (pt p (pend a)) :
         sorted set of pending timer ids of p, absent when empty.
   The abstraction functions (mq, pt, blk, tinfo_of) use nsort, so no "timers are in id order"
   invariant is needed; equalities of index contents are obtained from the uniqueness of sorted
   representations (UtilP.ssorted_ext, UtilP.nsorted_ext).

   Per-operation lemmas: add_timer_ok, remove_timer_ok (resolver functions, explicit results, no panic),
   push_fixed_R, push_R, push_fixed_step_R, pop_R, cancel_timer_R, pops_R, cancel_proc_R, then
   observe_R (R s a -> observe s = aobserve tleb a; note `observe` does not take tleb), step_R, run_R. *)
From Coq Require Import List NArith Bool Lia.
From ASV Require Import Base.Util Base.Msg Model.Store Spec.StoreSpec Proofs.UtilP Proofs.StoreSpecP.
Import ListNotations.
Open Scope N_scope.

Definition nonempty {A} (l : list A) : option (list A) := match l with [] => None | _ => Some l end.

Lemma unnonempty {A} (l : list A) : match nonempty l with Some x => x | None => [] end = l.
Proof. destruct l; reflexivity. Qed.

Lemma nonempty_snoc {A} (l : list A) x : nonempty (l ++ [x]) = Some (l ++ [x]).
Proof. destruct l; reflexivity. Qed.

Lemma nrem_notin i l : ~ In i l -> nrem i l = l.
Proof.
  unfold nrem. induction l as [|x r IH]; cbn [filter In]; intros H; auto.
  destruct (N.eqb i x) eqn:E; nb.
  - exfalso; apply H; auto.
  - cbn [negb]. rewrite IH; auto.
Qed.

Lemma nrem_filter_swap i l : nrem i l = filter (fun j => negb (N.eqb j i)) l.
Proof. unfold nrem. apply filter_ext. intros a. rewrite N.eqb_sym. reflexivity. Qed.

(* "set k to the list v, or delete k if v is empty" *)
Section Upd.
  Context {K : Type} (cmp : K -> K -> comparison) (CS : CmpSpec cmp).
  Definition supd (k : K) (v : list N) (M : list (K * list N)) : list (K * list N) :=
    match v with [] => srem cmp k M | _ => sins cmp k v M end.
  Lemma sget_supd k v M k' :
    sget cmp k' (supd k v M) = if is_eq (cmp k' k) then nonempty v else sget cmp k' M.
  Proof.
    unfold supd. destruct v as [|x r]; cbn [nonempty].
    - apply (sget_srem _ CS).
    - apply (sget_sins _ CS).
  Qed.
  Lemma ssorted_supd k v M : ssorted cmp M -> ssorted cmp (supd k v M).
  Proof.
    unfold supd. destruct v.
    - apply ssorted_srem.
    - apply ssorted_sins; auto.
  Qed.
End Upd.

Section Refine.
  Context {T : Type} (tleb : T -> T -> bool).
  Notation sevent := (sevent T).
  Notation pendl := (list (id * sevent)).
  Notation astore := (astore T).
  Notation store := (store T).
  Notation wb := (wb tleb).
  Notation offset := (offset tleb).

  Ltac sproj := cbn [evs tmap avail r_timers r_msgs r_ptimers next set_evs set_tmap set_avail set_next
                     pend amap anext ti_proc ti_delay ti_blockers fst snd bind].

  (* ---------------------------------------------------------------------------------------- *)
  (* abstraction functions: what each index of the model must contain                          *)
  (* ---------------------------------------------------------------------------------------- *)
  Definition has_key (k : mkey) (o : id * sevent) : bool :=
    match snd o with EMsg m s d _ => is_eq (mkey_cmp k (m, (s, d))) | ETimer _ _ _ => false end.
  (* the deque of message group k: ids in insertion order *)
  Definition mq (k : mkey) (L : pendl) : list id := map fst (filter (has_key k) L).
  Definition is_ptimer (p : N) (o : id * sevent) : bool :=
    match snd o with ETimer q _ _ => N.eqb q p | EMsg _ _ _ _ => false end.
  (* the set of pending timers of process p *)
  Definition pt (p : N) (L : pendl) : list id := nsort (map fst (filter (is_ptimer p) L)).
  Definition tblocks (p : N) (d : T) (o : id * sevent) : bool :=
    match snd o with ETimer q _ d1 => N.eqb q p && tleb d1 d | EMsg _ _ _ _ => false end.
  (* the blockers of a timer (p, d) among the events `pre` inserted before it *)
  Definition blk (pre : pendl) (p : N) (d : T) : list id := nsort (map fst (filter (tblocks p d) pre)).
  Definition tinfo_of (L : pendl) (j : id) : option (tinfo T) :=
    match lookup L j with
    | Some (ETimer p _ d) => Some {| ti_proc := p; ti_delay := d; ti_blockers := blk (before j L) p d |}
    | _ => None
    end.

  (* the simulation relation *)
  Record R (s : store) (a : astore) : Prop := {
    R_nodup : NoDup (ids (pend a));
    R_lt : Forall (fun p => fst p < anext a) (pend a);
    R_evs : evs s = alive a;
    R_tmap : tmap s = amap a;
    R_next : next s = anext a;
    R_avail : avail s = aoffered_set tleb a;
    R_tsorted : ssorted N.compare (r_timers s);
    R_timers : forall j, sget N.compare j (r_timers s) = tinfo_of (pend a) j;
    R_msorted : ssorted mkey_cmp (r_msgs s);
    R_msgs : forall k, sget mkey_cmp k (r_msgs s) = nonempty (mq k (pend a));
    R_psorted : ssorted N.compare (r_ptimers s);
    R_ptimers : forall p, sget N.compare p (r_ptimers s) = nonempty (pt p (pend a)) }.

  Lemma R_ainv s a : R s a -> AInv a.
  Proof. intros H. split; [apply (R_nodup _ _ H) | apply (R_lt _ _ H)]. Qed.

  Lemma R_empty : R empty aempty.
  Proof.
    constructor; cbn; try reflexivity; try constructor.
  Qed.

  (* ---------------------------------------------------------------------------------------- *)
  (* pointwise facts about withheld_by                                                         *)
  (* ---------------------------------------------------------------------------------------- *)
  Lemma mkey_eqb m s d m1 s1 d1 :
    is_eq (mkey_cmp (m, (s, d)) (m1, (s1, d1))) = msg_eqb m1 m && N.eqb s1 s && N.eqb d1 d.
  Proof.
    apply eq_true_iff_eq.
    rewrite (is_eq_true _ CmpSpec_mkey), !andb_true_iff, msg_eqb_true, !N.eqb_eq. split.
    - intros H; inversion H; auto.
    - intros [[-> ->] ->]; auto.
  Qed.

  Lemma wb_timer p n d o : wb (ETimer p n d) o = tblocks p d o.
  Proof.
    destruct o as [j [m s d' op|q n' d']]; reflexivity.
  Qed.

  Lemma wb_msg m s d op o : wb (EMsg m s d op) o = has_key (m, (s, d)) o.
  Proof.
    destruct o as [j [m1 s1 d1 op1|q n' d']]; [|reflexivity].
    unfold StoreSpecP.wb, withheld_by, has_key. cbn [snd same_group blocks].
    rewrite orb_false_r. symmetry. apply mkey_eqb.
  Qed.

  Lemma has_key_iff k o :
    has_key k o = true <-> exists m s d op, snd o = EMsg m s d op /\ k = (m, (s, d)).
  Proof.
    unfold has_key. destruct o as [j [m s d op|q n d]]; cbn [snd].
    - rewrite (is_eq_true _ CmpSpec_mkey). split.
      + intros ->. exists m, s, d, op. auto.
      + intros (m' & s' & d' & op' & H1 & H2). inversion H1; subst. reflexivity.
    - split; [discriminate|]. intros (m' & s' & d' & op' & H1 & _). discriminate.
  Qed.

  Lemma has_key_self j m s d op : has_key (m, (s, d)) (j, EMsg m s d op) = true.
  Proof. apply has_key_iff. exists m, s, d, op. auto. Qed.

  (* ---------------------------------------------------------------------------------------- *)
  (* membership in the abstraction functions                                                   *)
  (* ---------------------------------------------------------------------------------------- *)
  Lemma in_blk x (X : pendl) p d :
    In x (blk X p d) <-> exists n d', In (x, ETimer p n d') X /\ tleb d' d = true.
  Proof.
    unfold blk. rewrite in_nsort, in_map_iff. split.
    - intros [[j e] [H1 H2]]. cbn in H1. subst j. apply filter_In in H2. destruct H2 as [H2 H3].
      unfold tblocks in H3. cbn [snd] in H3. destruct e as [|q n d']; [discriminate|].
      apply andb_true_iff in H3. destruct H3 as [H3 H4]. nb. subst. eauto.
    - intros (n & d' & H1 & H2). exists (x, ETimer p n d'). split; auto.
      apply filter_In. split; auto. unfold tblocks. cbn [snd]. rewrite N.eqb_refl, H2. reflexivity.
  Qed.

  Lemma in_pt x p (L : pendl) : In x (pt p L) <-> exists n d, In (x, ETimer p n d) L.
  Proof.
    unfold pt. rewrite in_nsort, in_map_iff. split.
    - intros [[j e] [H1 H2]]. cbn in H1. subst j. apply filter_In in H2. destruct H2 as [H2 H3].
      unfold is_ptimer in H3. cbn [snd] in H3. destruct e as [|q n d']; [discriminate|].
      nb. subst. eauto.
    - intros (n & d' & H1). exists (x, ETimer p n d'). split; auto.
      apply filter_In. split; auto. unfold is_ptimer. cbn [snd]. apply N.eqb_refl.
  Qed.

  Lemma in_mq x k (L : pendl) : In x (mq k L) <-> exists m s d op, k = (m, (s, d)) /\ In (x, EMsg m s d op) L.
  Proof.
    unfold mq. rewrite in_map_iff. split.
    - intros [[j e] [H1 H2]]. cbn in H1. subst j. apply filter_In in H2. destruct H2 as [H2 H3].
      apply has_key_iff in H3. destruct H3 as (m & s & d & op & H3 & H4). cbn in H3. subst.
      exists m, s, d, op. auto.
    - intros (m & s & d & op & H1 & H2). subst. exists (x, EMsg m s d op). split; auto.
      apply filter_In. split; auto. apply has_key_self.
  Qed.

  Lemma isnil_blk (X : pendl) p n d : isnil (blk X p d) = negb (existsb (wb (ETimer p n d)) X).
  Proof.
    unfold blk. rewrite isnil_nsort, isnil_map, isnil_filter. f_equal.
    apply existsb_ext_in. intros o _. symmetry. apply wb_timer.
  Qed.

  Lemma isnil_mq (X : pendl) m s d op : isnil (mq (m, (s, d)) X) = negb (existsb (wb (EMsg m s d op)) X).
  Proof.
    unfold mq. rewrite isnil_map, isnil_filter. f_equal.
    apply existsb_ext_in. intros o _. symmetry. apply wb_msg.
  Qed.

  Lemma tinfo_timer (L : pendl) j p n d : NoDup (ids L) -> In (j, ETimer p n d) L ->
    tinfo_of L j = Some {| ti_proc := p; ti_delay := d; ti_blockers := blk (before j L) p d |}.
  Proof. intros Hn Hi. unfold tinfo_of. rewrite (in_lookup _ _ _ Hn Hi). reflexivity. Qed.

  Lemma tinfo_msg (L : pendl) j m s d op : NoDup (ids L) -> In (j, EMsg m s d op) L -> tinfo_of L j = None.
  Proof. intros Hn Hi. unfold tinfo_of. rewrite (in_lookup _ _ _ Hn Hi). reflexivity. Qed.

  Lemma tinfo_none (L : pendl) j : ~ In j (ids L) -> tinfo_of L j = None.
  Proof. intros H. apply lookup_none_iff in H. unfold tinfo_of. rewrite H. reflexivity. Qed.

  Lemma tinfo_some (L : pendl) j t : tinfo_of L j = Some t ->
    exists n, In (j, ETimer (ti_proc t) n (ti_delay t)) L /\
              ti_blockers t = blk (before j L) (ti_proc t) (ti_delay t).
  Proof.
    unfold tinfo_of. destruct (lookup L j) as [[|p n d]|] eqn:E; try discriminate.
    intros H. inversion H; subst; clear H. cbn. exists n. split; auto. apply lookup_in; auto.
  Qed.

  Lemma same_id (L : pendl) i ei o : NoDup (ids L) -> In (i, ei) L -> In o L -> fst o = i -> o = (i, ei).
  Proof.
    intros Hn H1 H2 H3. destruct o as [j e]. cbn in H3. subst j. f_equal.
    eapply nodup_inj; eauto.
  Qed.

  (* ---------------------------------------------------------------------------------------- *)
  (* insertion at the back                                                                     *)
  (* ---------------------------------------------------------------------------------------- *)
  Lemma mq_snoc k (L : pendl) i e : mq k (L ++ [(i, e)]) = mq k L ++ (if has_key k (i, e) then [i] else []).
  Proof.
    unfold mq. rewrite filter_app, map_app. cbn [filter]. destruct (has_key k (i, e)); reflexivity.
  Qed.

  Lemma pt_snoc p (L : pendl) i e : pt p (L ++ [(i, e)]) = if is_ptimer p (i, e) then nins i (pt p L) else pt p L.
  Proof.
    unfold pt. rewrite filter_app, map_app. cbn [filter]. destruct (is_ptimer p (i, e)); cbn [map fst].
    - apply nsort_snoc.
    - rewrite app_nil_r. reflexivity.
  Qed.

  Lemma tinfo_snoc (L : pendl) i e j : ~ In i (ids L) ->
    tinfo_of (L ++ [(i, e)]) j =
    if N.eqb j i then
      match e with
      | ETimer p _ d => Some {| ti_proc := p; ti_delay := d; ti_blockers := blk L p d |}
      | EMsg _ _ _ _ => None
      end
    else tinfo_of L j.
  Proof.
    intros Hi. unfold tinfo_of. rewrite lookup_snoc.
    destruct (N.eqb j i) eqn:E; nb.
    - subst j. pose proof Hi as Hi'. apply lookup_none_iff in Hi'. rewrite Hi', N.eqb_refl.
      rewrite before_split by auto. reflexivity.
    - destruct (lookup L j) as [e'|] eqn:El.
      + rewrite before_app_in; auto. apply in_ids. exists e'. apply lookup_in; auto.
      + destruct (N.eqb i j) eqn:E2; nb; auto. congruence.
  Qed.

  (* the blockers the model computes for a new timer *)
  Lemma blockers_eq TM (L : pendl) p d : NoDup (ids L) ->
    (forall j, sget N.compare j TM = tinfo_of L j) ->
    filter (fun j => match sget N.compare j TM with
                     | Some t => tleb (ti_delay t) d
                     | None => false
                     end) (pt p L) = blk L p d.
  Proof.
    intros Hn Htm. apply nsorted_ext.
    - apply nsorted_filter, nsorted_nsort.
    - apply nsorted_nsort.
    - intros x. rewrite filter_In, in_pt, in_blk. split.
      + intros [(n' & d' & Hin) Hf]. rewrite Htm, (tinfo_timer _ _ _ _ _ Hn Hin) in Hf.
        cbn in Hf. eauto.
      + intros (n' & d' & Hin & Hle). split; [eauto|].
        rewrite Htm, (tinfo_timer _ _ _ _ _ Hn Hin). cbn. auto.
  Qed.

  Lemma all_pt_have_info TM (L : pendl) p : NoDup (ids L) ->
    (forall j, sget N.compare j TM = tinfo_of L j) ->
    forallb (fun j => shas N.compare j TM) (pt p L) = true.
  Proof.
    intros Hn Htm. apply forallb_forall. intros x Hx. apply in_pt in Hx.
    destruct Hx as (n & d & Hin). unfold shas. rewrite Htm, (tinfo_timer _ _ _ _ _ Hn Hin). reflexivity.
  Qed.

  (* ---------------------------------------------------------------------------------------- *)
  (* removal                                                                                   *)
  (* ---------------------------------------------------------------------------------------- *)
  Lemma filter_aremove_unaff (f : id * sevent -> bool) i (X : pendl) :
    (forall o, In o X -> fst o = i -> f o = false) -> filter f (aremove i X) = filter f X.
  Proof.
    intros H. unfold aremove. rewrite filter_filter. apply filter_ext_in. intros o Ho. cbn beta.
    match goal with |- context [N.eqb ?a i] => destruct (N.eqb a i) eqn:E end; nb; cbn [negb andb]; auto.
    symmetry. apply H; auto.
  Qed.

  Lemma existsb_aremove_unaff (f : id * sevent -> bool) i (X : pendl) :
    (forall o, In o X -> fst o = i -> f o = false) -> existsb f (aremove i X) = existsb f X.
  Proof.
    intros H. apply eq_true_iff_eq. rewrite !existsb_exists. split.
    - intros [o [H1 H2]]. apply in_aremove in H1. exists o. tauto.
    - intros [o [H1 H2]]. exists o. split; auto. apply in_aremove. split; auto.
      intros Hi. rewrite (H o H1 Hi) in H2. discriminate.
  Qed.

  Lemma mapfst_filter_aremove (f : id * sevent -> bool) i (X : pendl) :
    map fst (filter f (aremove i X)) = filter (fun j => negb (N.eqb j i)) (map fst (filter f X)).
  Proof. symmetry. apply (map_filter_fst_comm (fun j => negb (N.eqb j i))). Qed.

  Lemma nsort_aremove (f : id * sevent -> bool) i (X : pendl) :
    nsort (map fst (filter f (aremove i X))) = nrem i (nsort (map fst (filter f X))).
  Proof.
    apply nsorted_ext.
    - apply nsorted_nsort.
    - apply nsorted_nrem, nsorted_nsort.
    - intros x. rewrite in_nrem, !in_nsort, mapfst_filter_aremove, filter_In, negb_true_iff, N.eqb_neq.
      tauto.
  Qed.

  Lemma mq_aremove k i (L : pendl) : mq k (aremove i L) = filter (fun j => negb (N.eqb j i)) (mq k L).
  Proof. apply mapfst_filter_aremove. Qed.

  Lemma mq_aremove_other k i ei (L : pendl) : NoDup (ids L) -> In (i, ei) L -> has_key k (i, ei) = false ->
    mq k (aremove i L) = mq k L.
  Proof.
    intros Hn Hi Hk. unfold mq. rewrite filter_aremove_unaff; auto.
    intros o Ho Hf. rewrite (same_id _ _ _ _ Hn Hi Ho Hf). auto.
  Qed.

  Lemma pt_aremove p i (L : pendl) : pt p (aremove i L) = nrem i (pt p L).
  Proof. apply nsort_aremove. Qed.

  Lemma blk_aremove (X : pendl) i p d : blk (aremove i X) p d = nrem i (blk X p d).
  Proof. apply nsort_aremove. Qed.

  Lemma rm_blocker_notin i (t : tinfo T) : ~ In i (ti_blockers t) -> rm_blocker i t = t.
  Proof.
    destruct t as [p d b]. unfold rm_blocker. cbn [ti_proc ti_delay ti_blockers]. intros H. rewrite nrem_notin; auto.
  Qed.

  Lemma tinfo_aremove (L : pendl) i j :
    tinfo_of (aremove i L) j =
    if N.eqb j i then None
    else match tinfo_of L j with Some t => Some (rm_blocker i t) | None => None end.
  Proof.
    unfold tinfo_of. rewrite lookup_aremove.
    destruct (N.eqb j i) eqn:E; nb; auto.
    destruct (lookup L j) as [[|p n d]|]; auto.
    rewrite before_aremove by auto. rewrite blk_aremove. reflexivity.
  Qed.

  (* ---------------------------------------------------------------------------------------- *)
  (* who is offered                                                                            *)
  (* ---------------------------------------------------------------------------------------- *)
  (* a message is offered iff it is the front of its group *)
  Lemma free_msg (L : pendl) j m s d op : NoDup (ids L) -> In (j, EMsg m s d op) L ->
    (existsb (wb (EMsg m s d op)) (before j L) = false <-> hd_error (mq (m, (s, d)) L) = Some j).
  Proof.
    intros Hn Hi. destruct (split_at _ _ _ Hn Hi) as [post Hp].
    assert (Hq : mq (m, (s, d)) L = mq (m, (s, d)) (before j L) ++ j :: mq (m, (s, d)) post).
    { rewrite Hp at 1. unfold mq. rewrite filter_app, map_app. cbn [filter].
      rewrite has_key_self. reflexivity. }
    rewrite Hq. rewrite <- (negb_involutive (existsb _ _)), <- isnil_mq, negb_false_iff, isnil_true.
    split.
    - intros ->. reflexivity.
    - intros H. destruct (mq (m, (s, d)) (before j L)) as [|h t] eqn:E; auto.
      cbn in H. inversion H; subst h. exfalso.
      assert (Hin : In j (mq (m, (s, d)) (before j L))) by (rewrite E; left; auto).
      apply in_mq in Hin. destruct Hin as (m' & s' & d' & op' & _ & Hin).
      apply (not_in_before j L). apply in_ids. eauto.
  Qed.

  Lemma offset_aremove_keep (L : pendl) i x : NoDup (ids L) -> In x (offset L) -> x <> i -> In x (offset (aremove i L)).
  Proof.
    intros Hn Hx Hne. apply offset_iff in Hx; auto. destruct Hx as (e & H1 & H2).
    apply offset_iff; [apply nodup_aremove; auto|]. exists e. split.
    - apply in_aremove. auto.
    - rewrite before_aremove by auto. apply existsb_filter_false. auto.
  Qed.

  Lemma offset_aremove_timer (L : pendl) i p n d : NoDup (ids L) -> In (i, ETimer p n d) L ->
    forall x, In x (offset (aremove i L)) <->
      (In x (offset L) /\ x <> i) \/
      (In x (pt p (aremove i L)) /\
       match tinfo_of (aremove i L) x with Some t => isnil (ti_blockers t) | None => false end = true).
  Proof.
    intros Hn Hi x. pose proof (nodup_aremove i L Hn) as Hn'. split.
    - intros Hx. apply offset_iff in Hx; auto. destruct Hx as (e & H1 & H2).
      pose proof H1 as H1'. apply in_aremove in H1'. cbn [fst] in H1'. destruct H1' as [H1' Hne].
      assert (Hcase : (exists n' d', e = ETimer p n' d') \/
                      wb e (i, ETimer p n d) = false).
      { destruct e as [m s d' op|p' n' d']; [right; reflexivity|].
        destruct (N.eqb p p') eqn:E.
        - apply N.eqb_eq in E. subst. left; eauto.
        - right. unfold StoreSpecP.wb, withheld_by. cbn [snd same_group blocks]. rewrite E. reflexivity. }
      destruct Hcase as [(n' & d' & ->)|Hw].
      + right. split; [apply in_pt; eauto|].
        rewrite (tinfo_timer _ _ _ _ _ Hn' H1). cbn [ti_blockers].
        rewrite (isnil_blk _ _ n'), H2. reflexivity.
      + left. split; auto. apply offset_iff; auto. exists e. split; auto.
        rewrite before_aremove in H2 by auto.
        rewrite existsb_aremove_unaff in H2; auto.
        intros o Ho Hf. apply before_incl in Ho. rewrite (same_id _ _ _ _ Hn Hi Ho Hf). auto.
    - intros [[Hx Hne]|[Hx Hb]].
      + apply offset_aremove_keep; auto.
      + apply in_pt in Hx. destruct Hx as (n' & d' & Hx).
        rewrite (tinfo_timer _ _ _ _ _ Hn' Hx) in Hb. cbn [ti_blockers] in Hb.
        rewrite (isnil_blk _ _ n'), negb_true_iff in Hb.
        apply offset_iff; auto. eauto.
  Qed.

  Lemma offset_aremove_msg (L : pendl) i m s d op : NoDup (ids L) -> In (i, EMsg m s d op) L ->
    forall x, In x (offset (aremove i L)) <->
      (In x (offset L) /\ x <> i) \/
      (hd_error (mq (m, (s, d)) L) = Some i /\ hd_error (mq (m, (s, d)) (aremove i L)) = Some x).
  Proof.
    intros Hn Hi x. pose proof (nodup_aremove i L Hn) as Hn'. split.
    - intros Hx. apply offset_iff in Hx; auto. destruct Hx as (e & H1 & H2).
      pose proof H1 as H1'. apply in_aremove in H1'. cbn [fst] in H1'. destruct H1' as [H1' Hne].
      assert (Hcase : (exists op', e = EMsg m s d op') \/ wb e (i, EMsg m s d op) = false).
      { destruct e as [m' s' d' op'|p' n' d']; [|right; reflexivity].
        destruct (cmp_dec _ CmpSpec_mkey (m', (s', d')) (m, (s, d))) as [E|E].
        - inversion E; subst. left; eauto.
        - right. rewrite wb_msg. unfold has_key. cbn [snd]. apply (is_eq_false _ CmpSpec_mkey). auto. }
      destruct Hcase as [(op' & ->)|Hw].
      + apply (free_msg _ _ _ _ _ _ Hn' H1) in H2.
        rewrite mq_aremove in H2 |- *.
        destruct (mq (m, (s, d)) L) as [|h t] eqn:E; [discriminate|].
        destruct (N.eq_dec h i) as [Hh|Hh].
        * subst h. right. split; auto.
        * left. split; auto. cbn [filter] in H2.
          assert (Eh : N.eqb h i = false) by (apply N.eqb_neq; auto).
          rewrite Eh in H2. cbn in H2. inversion H2; subst h.
          apply offset_iff; auto. exists (EMsg m s d op'). split; auto.
          apply (free_msg _ _ _ _ _ _ Hn H1'). rewrite E. reflexivity.
      + left. split; auto. apply offset_iff; auto. exists e. split; auto.
        rewrite before_aremove in H2 by auto.
        rewrite existsb_aremove_unaff in H2; auto.
        intros o Ho Hf. apply before_incl in Ho. rewrite (same_id _ _ _ _ Hn Hi Ho Hf). auto.
    - intros [[Hx Hne]|[_ Hx]].
      + apply offset_aremove_keep; auto.
      + assert (Hin : In x (mq (m, (s, d)) (aremove i L))).
        { destruct (mq (m, (s, d)) (aremove i L)); [discriminate|]. inversion Hx. left; auto. }
        apply in_mq in Hin. destruct Hin as (m' & s' & d' & op' & Hk & Hin). inversion Hk; subst m' s' d'.
        apply offset_iff; auto. exists (EMsg m s d op'). split; auto.
        apply (free_msg _ _ _ _ _ _ Hn' Hin). auto.
  Qed.

  (* ---------------------------------------------------------------------------------------- *)
  (* DependencyResolver functions                                                              *)
  (* ---------------------------------------------------------------------------------------- *)
  Lemma nonempty_in {A} (l : list A) x : In x l -> nonempty l = Some l.
  Proof. destruct l; [contradiction|reflexivity]. Qed.

  Lemma add_timer_ok s0 (L : pendl) p d i :
    NoDup (ids L) -> ~ In i (ids L) ->
    (forall j, sget N.compare j (r_timers s0) = tinfo_of L j) ->
    (forall q, sget N.compare q (r_ptimers s0) = nonempty (pt q L)) ->
    add_timer tleb s0 p d i =
    Ok ({| evs := evs s0; tmap := tmap s0; avail := avail s0;
           r_timers := sins N.compare i {| ti_proc := p; ti_delay := d; ti_blockers := blk L p d |}
                            (r_timers s0);
           r_msgs := r_msgs s0;
           r_ptimers := sins N.compare p (nins i (pt p L)) (r_ptimers s0);
           next := next s0 |}, isnil (blk L p d)).
  Proof.
    intros Hn Hi Htm Hpt. unfold add_timer. cbv zeta.
    rewrite Hpt, unnonempty.
    rewrite (all_pt_have_info _ _ _ Hn Htm). cbn [negb].
    rewrite Htm, (tinfo_none _ _ Hi).
    rewrite (blockers_eq _ _ _ _ Hn Htm). reflexivity.
  Qed.

  Definition tm_rm (i : id) (pts' : list id) (TM : list (id * tinfo T)) : list (id * tinfo T) :=
    map (fun q => if nmem (fst q) pts' then (fst q, rm_blocker i (snd q)) else q) (srem N.compare i TM).

  Definition rm_g (i : id) (pts' : list id) (k : id) (v : tinfo T) : tinfo T :=
    if nmem k pts' then rm_blocker i v else v.

  Lemma tm_rm_alt i pts' TM :
    tm_rm i pts' TM = map (fun q => (fst q, rm_g i pts' (fst q) (snd q))) (srem N.compare i TM).
  Proof.
    unfold tm_rm, rm_g. apply map_ext. intros [k v]. cbn [fst snd]. destruct (nmem k pts'); reflexivity.
  Qed.

  Lemma tm_rm_sorted i pts' TM : ssorted N.compare TM -> ssorted N.compare (tm_rm i pts' TM).
  Proof.
    intros H. rewrite tm_rm_alt. apply ssorted_map_val with (g := rm_g i pts'). apply ssorted_srem. auto.
  Qed.

  Lemma tm_rm_sget TM (L : pendl) i p n d : NoDup (ids L) -> In (i, ETimer p n d) L ->
    (forall j, sget N.compare j TM = tinfo_of L j) ->
    forall j, sget N.compare j (tm_rm i (nrem i (pt p L)) TM) = tinfo_of (aremove i L) j.
  Proof.
    intros Hn Hi Htm j. rewrite tm_rm_alt, (sget_map_val _ CmpSpec_N), (sget_srem _ CmpSpec_N).
    rewrite Htm, tinfo_aremove, is_eq_ncmp.
    destruct (N.eqb j i) eqn:E; auto. apply N.eqb_neq in E.
    destruct (tinfo_of L j) as [t|] eqn:Et; auto. f_equal. unfold rm_g.
    destruct (nmem j (nrem i (pt p L))) eqn:Em; auto.
    symmetry. apply rm_blocker_notin. intros Hin.
    apply tinfo_some in Et. destruct Et as (n' & Hj & Hb). rewrite Hb in Hin.
    apply in_blk in Hin. destruct Hin as (n2 & d2 & Hin & _). apply before_incl in Hin.
    pose proof (nodup_inj _ _ _ _ Hn Hi Hin) as Heq. inversion Heq; subst.
    apply nmem_false_iff in Em. apply Em. apply in_nrem. split; auto. apply in_pt. eauto.
  Qed.

  Lemma remove_timer_ok s0 (L : pendl) i p n d :
    NoDup (ids L) -> In (i, ETimer p n d) L ->
    (forall j, sget N.compare j (r_timers s0) = tinfo_of L j) ->
    (forall q, sget N.compare q (r_ptimers s0) = nonempty (pt q L)) ->
    remove_timer s0 i =
    Ok ({| evs := evs s0; tmap := tmap s0; avail := avail s0;
           r_timers := tm_rm i (nrem i (pt p L)) (r_timers s0);
           r_msgs := r_msgs s0;
           r_ptimers := supd N.compare p (nrem i (pt p L)) (r_ptimers s0);
           next := next s0 |},
        filter (fun j => match sget N.compare j (tm_rm i (nrem i (pt p L)) (r_timers s0)) with
                         | Some t' => isnil (ti_blockers t')
                         | None => false
                         end) (nrem i (pt p L))).
  Proof.
    intros Hn Hi Htm Hpt. unfold remove_timer.
    rewrite Htm, (tinfo_timer _ _ _ _ _ Hn Hi). cbn [ti_proc].
    assert (Hin : In i (pt p L)) by (apply in_pt; eauto).
    rewrite Hpt, (nonempty_in _ _ Hin).
    rewrite (proj2 (nmem_iff i (pt p L)) Hin). cbn [negb]. cbv zeta.
    assert (Hall : forallb (fun j => shas N.compare j (srem N.compare i (r_timers s0))) (nrem i (pt p L)) = true).
    { apply forallb_forall. intros x Hx. apply in_nrem in Hx. destruct Hx as [Hx Hne].
      apply in_pt in Hx. destruct Hx as (n' & d' & Hx). unfold shas.
      rewrite (sget_srem_neq _ CmpSpec_N) by auto. rewrite Htm, (tinfo_timer _ _ _ _ _ Hn Hx). reflexivity. }
    rewrite Hall. cbn [negb]. reflexivity.
  Qed.

  (* ---------------------------------------------------------------------------------------- *)
  (* push_fixed / push                                                                         *)
  (* ---------------------------------------------------------------------------------------- *)
  Lemma push_fixed_R s a e i nx :
    R s a -> ~ In i (ids (pend a)) -> i < nx -> anext a <= nx ->
    exists s', push_fixed tleb (set_next s nx) e i = Ok s' /\
      R s' {| pend := pend a ++ [(i, e)];
              amap := match e with ETimer p n _ => sins tkey_cmp (p, n) i (amap a) | _ => amap a end;
              anext := nx |}.
  Proof.
    intros HR Hi Hlt Hle.
    destruct (ainv_snoc a i e (match e with ETimer p n _ => sins tkey_cmp (p, n) i (amap a) | _ => amap a end)
                nx (R_ainv _ _ HR) Hi Hlt Hle) as [Hn' Hlt']. cbn [pend anext] in Hn', Hlt'.
    destruct HR as [Hn Hlt0 Hevs Htmap Hnext Havail Hts Htm Hms Hmsg Hps Hpt].
    pose proof Hi as Hi0. apply lookup_none_iff in Hi0.
    assert (Hevs' : sins N.compare i e (evs s) = alive' (pend a ++ [(i, e)])).
    { rewrite alive'_snoc, Hevs. reflexivity. }
    assert (Hav' : (if negb (existsb (wb e) (pend a)) then nins i (avail s) else avail s) =
                   offset (pend a ++ [(i, e)])).
    { rewrite offset_snoc, Havail. destruct (existsb (wb e) (pend a)); reflexivity. }
    unfold push_fixed. sproj. rewrite Hevs, alive_alive', alive'_sget, Hi0 by auto.
    destruct e as [m src dst op|p n d].
    - unfold add_message. sproj. rewrite Hmsg, unnonempty.
      change (match mq (m, (src, dst)) (pend a) with [] => true | _ => false end)
        with (isnil (mq (m, (src, dst)) (pend a))).
      rewrite (isnil_mq _ m src dst op).
      assert (Htm' : forall j, sget N.compare j (r_timers s) = tinfo_of (pend a ++ [(i, EMsg m src dst op)]) j).
      { intros j. rewrite tinfo_snoc by auto. destruct (N.eqb j i) eqn:E; auto.
        apply N.eqb_eq in E. subst j. rewrite Htm. apply tinfo_none; auto. }
      assert (Hms' : ssorted mkey_cmp (sins mkey_cmp (m, (src, dst)) (mq (m, (src, dst)) (pend a) ++ [i]) (r_msgs s))).
      { apply ssorted_sins; auto. apply CmpSpec_mkey. }
      assert (Hmsg' : forall k, sget mkey_cmp k (sins mkey_cmp (m, (src, dst)) (mq (m, (src, dst)) (pend a) ++ [i]) (r_msgs s))
                               = nonempty (mq k (pend a ++ [(i, EMsg m src dst op)]))).
      { intros k. rewrite (sget_sins _ CmpSpec_mkey), mq_snoc. unfold has_key at 1. cbn [snd].
        destruct (is_eq (mkey_cmp k (m, (src, dst)))) eqn:E.
        - apply (is_eq_true _ CmpSpec_mkey) in E. subst k. rewrite nonempty_snoc. reflexivity.
        - rewrite app_nil_r. apply Hmsg. }
      assert (Hpt' : forall q, sget N.compare q (r_ptimers s) = nonempty (pt q (pend a ++ [(i, EMsg m src dst op)]))).
      { intros q. rewrite pt_snoc. cbn. apply Hpt. }
      destruct (existsb (wb (EMsg m src dst op)) (pend a)) eqn:Ex; cbn [negb] in *; sproj;
        (eexists; split; [reflexivity|]); apply Build_R; sproj; auto.
    - rewrite (add_timer_ok (set_tmap (set_next s nx) (sins tkey_cmp (p, n) i (tmap s))) (pend a) p d i Hn Hi Htm Hpt).
      sproj. rewrite (isnil_blk _ _ n).
      assert (Hts' : ssorted N.compare (sins N.compare i {| ti_proc := p; ti_delay := d; ti_blockers := blk (pend a) p d |} (r_timers s))).
      { apply ssorted_sins; auto. apply CmpSpec_N. }
      assert (Htm' : forall j, sget N.compare j (sins N.compare i {| ti_proc := p; ti_delay := d; ti_blockers := blk (pend a) p d |} (r_timers s))
                               = tinfo_of (pend a ++ [(i, ETimer p n d)]) j).
      { intros j. rewrite tinfo_snoc by auto. rewrite (sget_sins _ CmpSpec_N), is_eq_ncmp.
        destruct (N.eqb j i) eqn:E; auto. }
      assert (Hmsg' : forall k, sget mkey_cmp k (r_msgs s) = nonempty (mq k (pend a ++ [(i, ETimer p n d)]))).
      { intros k. rewrite mq_snoc. cbn. rewrite app_nil_r. apply Hmsg. }
      assert (Hps' : ssorted N.compare (sins N.compare p (nins i (pt p (pend a))) (r_ptimers s))).
      { apply ssorted_sins; auto. apply CmpSpec_N. }
      assert (Hpt' : forall q, sget N.compare q (sins N.compare p (nins i (pt p (pend a))) (r_ptimers s))
                               = nonempty (pt q (pend a ++ [(i, ETimer p n d)]))).
      { intros q. rewrite pt_snoc, (sget_sins _ CmpSpec_N), is_eq_ncmp. unfold is_ptimer. cbn [snd].
        rewrite (N.eqb_sym p q).
        destruct (N.eqb q p) eqn:E; auto.
        apply N.eqb_eq in E. subst q. symmetry. apply nonempty_in with (x := i). apply in_nins. auto. }
      destruct (existsb (wb (ETimer p n d)) (pend a)) eqn:Ex; cbn [negb] in *; sproj;
        (eexists; split; [reflexivity|]); apply Build_R; sproj; auto; rewrite Htmap; reflexivity.
  Qed.

  Lemma set_next_same (s : store) : set_next s (next s) = s.
  Proof. destruct s; reflexivity. Qed.

  Lemma push_R s a e : R s a ->
    exists s', push tleb s e = Ok (s', anext a) /\ R s' (fst (astep a (OPush e))).
  Proof.
    intros HR. unfold push. rewrite (R_next _ _ HR).
    destruct (push_fixed_R s a e (anext a) (anext a + 1) HR) as (s' & H1 & H2).
    - apply ainv_fresh. apply (R_ainv _ _ HR).
    - lia.
    - lia.
    - exists s'. rewrite H1. cbn [bind]. split; auto.
  Qed.

  Lemma push_fixed_step_R s a e i : R s a -> legal a (OPushFixed e i) = true ->
    exists s', push_fixed tleb s e i = Ok s' /\ R s' (fst (astep a (OPushFixed e i))).
  Proof.
    intros HR Hl. cbn [legal] in Hl. rewrite !andb_true_iff, negb_true_iff, N.ltb_lt in Hl.
    destruct Hl as [[_ Hp] Hlt]. apply pending_false_iff in Hp.
    destruct (push_fixed_R s a e i (anext a) HR Hp Hlt) as (s' & H1 & H2); [lia|].
    rewrite <- (R_next _ _ HR), set_next_same in H1. exists s'. split; auto.
  Qed.

  (* ---------------------------------------------------------------------------------------- *)
  (* pop                                                                                       *)
  (* ---------------------------------------------------------------------------------------- *)
  Lemma pop_R s a i e : R s a -> In (i, e) (pend a) ->
    exists s', pop s i = Ok (s', e) /\
               R s' {| pend := aremove i (pend a); amap := amap a; anext := anext a |}.
  Proof.
    intros HR Hi.
    destruct HR as [Hn Hlt Hevs Htmap Hnext Havail Hts Htm Hms Hmsg Hps Hpt].
    assert (Hn' : NoDup (ids (aremove i (pend a)))) by (apply nodup_aremove; auto).
    assert (Hlt' : Forall (fun p => fst p < anext a) (aremove i (pend a))).
    { rewrite Forall_forall in *. intros q Hq. apply in_aremove in Hq. apply Hlt, Hq. }
    assert (Hevs' : srem N.compare i (alive' (pend a)) = alive' (aremove i (pend a))).
    { symmetry. apply alive'_aremove; auto. }
    unfold pop. rewrite Hevs, alive_alive', alive'_sget, (in_lookup _ _ _ Hn Hi) by auto.
    destruct e as [m src dst op|p n d].
    - unfold remove_message_by_id. sproj. rewrite Hmsg.
      assert (Hiq : In i (mq (m, (src, dst)) (pend a))).
      { apply in_mq. exists m, src, dst, op. auto. }
      rewrite (nonempty_in _ _ Hiq). sproj.
      rewrite <- !mq_aremove.
      assert (Hnt : forall j t, tinfo_of (pend a) j = Some t -> ~ In i (ti_blockers t)).
      { intros j t Ht Hin. apply tinfo_some in Ht. destruct Ht as (n' & _ & Hb). rewrite Hb in Hin.
        apply in_blk in Hin. destruct Hin as (n2 & d2 & Hin & _). apply before_incl in Hin.
        pose proof (nodup_inj _ _ _ _ Hn Hi Hin) as Heq. discriminate. }
      assert (Htm' : forall j, sget N.compare j (r_timers s) = tinfo_of (aremove i (pend a)) j).
      { intros j. rewrite tinfo_aremove, Htm. destruct (N.eqb j i) eqn:E.
        - apply N.eqb_eq in E. subst j. eapply tinfo_msg; eauto.
        - destruct (tinfo_of (pend a) j) as [t|] eqn:Et; auto.
          rewrite rm_blocker_notin; eauto. }
      assert (Hms' : ssorted mkey_cmp (supd mkey_cmp (m, (src, dst)) (mq (m, (src, dst)) (aremove i (pend a))) (r_msgs s))).
      { apply ssorted_supd; auto. apply CmpSpec_mkey. }
      assert (Hmsg' : forall k, sget mkey_cmp k (supd mkey_cmp (m, (src, dst)) (mq (m, (src, dst)) (aremove i (pend a))) (r_msgs s))
                                = nonempty (mq k (aremove i (pend a)))).
      { intros k. rewrite (sget_supd _ CmpSpec_mkey).
        destruct (is_eq (mkey_cmp k (m, (src, dst)))) eqn:E.
        - apply (is_eq_true _ CmpSpec_mkey) in E. subst k. reflexivity.
        - rewrite (mq_aremove_other k i _ _ Hn Hi); auto. }
      assert (Hpt' : forall q, sget N.compare q (r_ptimers s) = nonempty (pt q (aremove i (pend a)))).
      { intros q. rewrite pt_aremove, nrem_notin; auto.
        intros Hin. apply in_pt in Hin. destruct Hin as (n2 & d2 & Hin).
        pose proof (nodup_inj _ _ _ _ Hn Hi Hin) as Heq. discriminate. }
      pose proof (offset_aremove_msg _ _ _ _ _ _ Hn Hi) as Hav.
      unfold supd in Hms', Hmsg'.
      remember (mq (m, (src, dst)) (pend a)) as q eqn:Eq.
      remember (mq (m, (src, dst)) (aremove i (pend a))) as q' eqn:Eq'.
      assert (Hq' : q' = filter (fun j => negb (N.eqb j i)) q) by (subst; apply mq_aremove).
      clear Eq Eq'.
      destruct q' as [|j t].
      + eexists; split; [reflexivity|]. apply Build_R; sproj; auto.
        rewrite Havail. change (nrem i (offset (pend a)) = offset (aremove i (pend a))).
        apply nsorted_ext; [apply nsorted_nrem, offset_nsorted | apply offset_nsorted |].
        intros x. rewrite in_nrem, Hav. cbn [hd_error]. split.
        * intros [H1 H2]. left; auto.
        * intros [H|[_ H]]; [tauto | discriminate].
      + destruct q as [|h tq]; [discriminate|].
        destruct (N.eqb h i) eqn:Eh.
        * apply N.eqb_eq in Eh. subst h.
          eexists; split; [reflexivity|]. apply Build_R; sproj; auto.
          rewrite Havail. change (nins j (nrem i (offset (pend a))) = offset (aremove i (pend a))).
          apply nsorted_ext; [apply nsorted_nins, nsorted_nrem, offset_nsorted | apply offset_nsorted |].
          intros x. rewrite in_nins, in_nrem, Hav. cbn [hd_error]. split.
          -- intros [H|H]; [right; subst; auto | left; auto].
          -- intros [H|[_ H]]; [right; auto | left; inversion H; auto].
        * apply N.eqb_neq in Eh.
          eexists; split; [reflexivity|]. apply Build_R; sproj; auto.
          rewrite Havail. change (nrem i (offset (pend a)) = offset (aremove i (pend a))).
          apply nsorted_ext; [apply nsorted_nrem, offset_nsorted | apply offset_nsorted |].
          intros x. rewrite in_nrem, Hav. cbn [hd_error]. split.
          -- intros [H1 H2]. left; auto.
          -- intros [H|[H _]]; [tauto | inversion H; contradiction].
    - rewrite (remove_timer_ok (set_avail (set_evs s (srem N.compare i (alive' (pend a)))) (nrem i (avail s)))
                 (pend a) i p n d Hn Hi Htm Hpt).
      sproj.
      pose proof (tm_rm_sget (r_timers s) (pend a) i p n d Hn Hi Htm) as Htm'.
      assert (Hmsg' : forall k, sget mkey_cmp k (r_msgs s) = nonempty (mq k (aremove i (pend a)))).
      { intros k. rewrite (mq_aremove_other k i _ _ Hn Hi); auto. }
      assert (Hpt' : forall q, sget N.compare q (supd N.compare p (nrem i (pt p (pend a))) (r_ptimers s))
                               = nonempty (pt q (aremove i (pend a)))).
      { intros q. rewrite (sget_supd _ CmpSpec_N), is_eq_ncmp, pt_aremove.
        destruct (N.eqb q p) eqn:E.
        - apply N.eqb_eq in E. subst q. reflexivity.
        - apply N.eqb_neq in E. rewrite nrem_notin; auto.
          intros Hin. apply in_pt in Hin. destruct Hin as (n2 & d2 & Hin).
          pose proof (nodup_inj _ _ _ _ Hn Hi Hin) as Heq. inversion Heq. congruence. }
      eexists; split; [reflexivity|]. apply Build_R; sproj; auto.
      + rewrite Havail.
        match goal with |- nunion _ ?u = _ =>
          change (nunion (nrem i (offset (pend a))) u = offset (aremove i (pend a))) end.
        apply nsorted_ext; [apply nsorted_nunion, nsorted_nrem, offset_nsorted | apply offset_nsorted |].
        intros x. rewrite in_nunion, in_nrem, filter_In, (offset_aremove_timer _ _ _ _ _ Hn Hi).
        rewrite Htm', pt_aremove. reflexivity.
      + apply tm_rm_sorted; auto.
      + apply ssorted_supd; auto. apply CmpSpec_N.
  Qed.

  (* ---------------------------------------------------------------------------------------- *)
  (* cancel_timer                                                                              *)
  (* ---------------------------------------------------------------------------------------- *)
  Lemma R_set_tmap s a x : R s a -> R (set_tmap s x) {| pend := pend a; amap := x; anext := anext a |}.
  Proof.
    intros [Hn Hlt Hevs Htmap Hnext Havail Hts Htm Hms Hmsg Hps Hpt].
    apply Build_R; sproj; auto.
  Qed.

  Lemma cancel_timer_R s a p n : R s a -> legal a (OCancelTimer p n) = true ->
    exists s', cancel_timer s p n = Ok s' /\ R s' (fst (astep a (OCancelTimer p n))).
  Proof.
    intros HR Hl. cbn [legal] in Hl. unfold cancel_timer. cbn [astep].
    rewrite (R_tmap _ _ HR).
    destruct (sget tkey_cmp (p, n) (amap a)) as [i|] eqn:E; cbn [fst].
    - apply pending_iff in Hl. apply in_ids in Hl. destruct Hl as [e Hi].
      pose proof (R_set_tmap s a (srem tkey_cmp (p, n) (amap a)) HR) as HR'.
      destruct (pop_R _ _ i e HR' Hi) as (s' & H1 & H2). cbn [pend amap anext] in H2.
      rewrite H1. cbn [bind]. exists s'. split; auto.
    - exists s. split; auto.
  Qed.

  (* ---------------------------------------------------------------------------------------- *)
  (* cancel_proc                                                                               *)
  (* ---------------------------------------------------------------------------------------- *)
  Definition remove_all (idl : list id) (L : pendl) : pendl := fold_left (fun l i => aremove i l) idl L.

  Lemma pops_R evl : forall s a acc,
    R s a -> NoDup (map fst evl) -> (forall p, In p evl -> In p (pend a)) ->
    exists s', pops s (map fst evl) acc = Ok (s', rev acc ++ filter (fun ie => is_msg (snd ie)) evl) /\
               R s' {| pend := remove_all (map fst evl) (pend a); amap := amap a; anext := anext a |}.
  Proof.
    induction evl as [|[i e] r IH]; intros s a acc HR Hnd Hin; cbn [map fst pops].
    - exists s. rewrite app_nil_r. split; auto. destruct a; exact HR.
    - inversion Hnd as [|? ? Hni Hnd']; subst.
      destruct (pop_R s a i e HR (Hin _ (or_introl eq_refl))) as (s1 & H1 & H2).
      rewrite H1. cbn [bind].
      destruct (IH s1 _ (match e with EMsg _ _ _ _ => (i, e) :: acc | ETimer _ _ _ => acc end) H2 Hnd')
        as (s' & H3 & H4).
      + cbn [pend]. intros [j ej] Hp. apply in_aremove. split; [apply Hin; right; auto|].
        cbn [fst]. intros ->. apply Hni. apply in_map_iff. exists (i, ej). auto.
      + exists s'. cbn [pend amap anext] in H4. split; [|exact H4].
        rewrite H3. f_equal. f_equal. cbn [filter snd].
        destruct e; cbn [is_msg rev]; auto. rewrite <- app_assoc. reflexivity.
  Qed.

  Lemma remove_all_filter idl : forall (L : pendl),
    remove_all idl L = filter (fun o => negb (existsb (N.eqb (fst o)) idl)) L.
  Proof.
    unfold remove_all. induction idl as [|i r IH]; intros L; cbn [fold_left existsb].
    - symmetry. rewrite <- (filter_ext (fun _ => true)) by reflexivity.
      induction L as [|x l IHl]; cbn; [auto|rewrite IHl; auto].
    - rewrite IH. unfold aremove. rewrite filter_filter. apply filter_ext. intros o.
      rewrite negb_orb. reflexivity.
  Qed.

  Lemma cancel_proc_R s a p : R s a ->
    exists s', cancel_proc s p = Ok (s', match snd (astep a (OCancelProc p)) with RDropped l => l | _ => [] end)
               /\ R s' (fst (astep a (OCancelProc p))).
  Proof.
    intros HR. pose proof (R_nodup _ _ HR) as Hn. unfold cancel_proc. rewrite (R_evs _ _ HR), alive_alive'.
    set (evl := filter (fun ie => touches p (snd ie)) (alive' (pend a))).
    destruct (pops_R evl s a [] HR) as (s' & H1 & H2).
    - apply NoDup_map_filter. apply (ssorted_NoDup _ CmpSpec_N). apply alive'_sorted.
    - intros [j e] Hp. apply filter_In in Hp. apply (alive'_in _ _ _ Hn), Hp.
    - exists s'. cbn [astep fst snd rev app] in *. split.
      + rewrite H1. f_equal. f_equal. unfold evl. rewrite filter_filter. reflexivity.
      + replace (filter (fun ie => negb (touches p (snd ie))) (pend a))
          with (remove_all (map fst evl) (pend a)); auto.
        rewrite remove_all_filter. apply filter_ext_in. intros [j e] Ho. cbn [fst snd]. f_equal.
        apply eq_true_iff_eq. rewrite existsb_exists. split.
        * intros [x [Hx1 Hx2]]. apply N.eqb_eq in Hx2. subst x.
          apply in_map_iff in Hx1. destruct Hx1 as [[j' e'] [Hj Hx1]]. cbn in Hj. subst j'.
          apply filter_In in Hx1. destruct Hx1 as [Hx1 Hx2]. cbn [snd] in Hx2.
          apply (alive'_in _ _ _ Hn) in Hx1. rewrite (nodup_inj _ _ _ _ Hn Ho Hx1). auto.
        * intros Ht. exists j. split; [|apply N.eqb_refl].
          apply in_map_iff. exists (j, e). split; auto. apply filter_In. split; auto.
          apply (alive'_in _ _ _ Hn). auto.
  Qed.

  (* ---------------------------------------------------------------------------------------- *)
  (* observations                                                                              *)
  (* ---------------------------------------------------------------------------------------- *)
  Lemma msg_id_spec (L : pendl) i : NoDup (ids L) ->
    existsb (fun p => N.eqb (fst p) i && is_msg (snd p)) L =
    match lookup L i with Some (EMsg _ _ _ _) => true | _ => false end.
  Proof.
    intros Hn. apply eq_true_iff_eq. rewrite existsb_exists. split.
    - intros [[j e] [H1 H2]]. cbn [fst snd] in H2. apply andb_true_iff in H2. destruct H2 as [H2 H3].
      apply N.eqb_eq in H2. subst j. rewrite (in_lookup _ _ _ Hn H1). destruct e; auto.
    - destruct (lookup L i) as [[m s d op|]|] eqn:E; try discriminate. intros _.
      exists (i, EMsg m s d op). split; [apply lookup_in; auto|].
      cbn [fst snd is_msg]. rewrite N.eqb_refl. reflexivity.
  Qed.

  Lemma is_msg_id_R s a : R s a -> forall i,
    is_msg_id s i = existsb (fun p => N.eqb (fst p) i && is_msg (snd p)) (pend a).
  Proof.
    intros HR i. unfold is_msg_id. rewrite (R_evs _ _ HR), alive_alive', alive'_sget by apply (R_nodup _ _ HR).
    rewrite msg_id_spec by apply (R_nodup _ _ HR). reflexivity.
  Qed.

  Lemma offered_R s a mf : R s a -> offered s mf = Ok (aoffered tleb a mf).
  Proof.
    intros HR. unfold offered, aoffered.
    rewrite (filter_ext _ _ (is_msg_id_R s a HR)).
    rewrite (R_avail _ _ HR), (R_evs _ _ HR).
    destruct (pend a) as [|x l] eqn:Ep.
    - unfold aoffered_set, alive. rewrite Ep. cbn. destruct mf; reflexivity.
    - destruct (aoffered_set tleb a) as [|y r] eqn:Eo.
      + exfalso. apply (offset_nonempty tleb (pend a)); [rewrite Ep; discriminate|exact Eo].
      + destruct mf; auto.
        match goal with
        | |- match ?X with [] => _ | _ :: _ => _ end = Ok (match ?Y with [] => _ | _ :: _ => _ end) =>
          change X with Y; destruct Y; reflexivity
        end.
  Qed.

  Theorem observe_R s a : R s a -> observe s = aobserve tleb a.
  Proof.
    intros HR. unfold observe, aobserve.
    rewrite !(offered_R _ _ _ HR), (R_evs _ _ HR), (R_next _ _ HR). reflexivity.
  Qed.

  (* ---------------------------------------------------------------------------------------- *)
  (* one step, and runs                                                                        *)
  (* ---------------------------------------------------------------------------------------- *)
  Theorem step_R s a o : R s a -> legal a o = true ->
    exists s', step tleb s o = Ok (s', snd (astep a o)) /\ R s' (fst (astep a o)).
  Proof.
    intros HR Hl. destruct o as [e|e i|i|p n|p]; cbn [step].
    - destruct (push_R s a e HR) as (s' & H1 & H2). rewrite H1. cbn [bind]. exists s'. split; auto.
    - destruct (push_fixed_step_R s a e i HR Hl) as (s' & H1 & H2). rewrite H1. cbn [bind].
      exists s'. split; auto.
    - cbn [legal] in Hl. apply pending_iff in Hl. apply in_ids in Hl. destruct Hl as [e Hi].
      destruct (pop_R s a i e HR Hi) as (s' & H1 & H2). rewrite H1. cbn [bind].
      exists s'. cbn [astep fst snd]. rewrite aget_lookup, (in_lookup _ _ _ (R_nodup _ _ HR) Hi).
      split; auto.
    - destruct (cancel_timer_R s a p n HR Hl) as (s' & H1 & H2). rewrite H1. cbn [bind].
      exists s'. split; auto. cbn [astep]. destruct (sget tkey_cmp (p, n) (amap a)); reflexivity.
    - destruct (cancel_proc_R s a p HR) as (s' & H1 & H2). rewrite H1. cbn [bind].
      exists s'. split; auto.
  Qed.

  Theorem run_R ops : forall s a a' outs,
    R s a -> arun tleb a ops = Some (a', outs) ->
    exists s', run tleb s ops = Ok (s', outs) /\ R s' a'.
  Proof.
    induction ops as [|o r IH]; intros s a a' outs HR Hr; cbn [arun run] in *.
    - inversion Hr; subst. exists s. auto.
    - destruct (legal a o) eqn:Hl; [|discriminate].
      destruct (step_R s a o HR Hl) as (s1 & H1 & HR1).
      destruct (astep a o) as [a1 out]. cbn [fst snd] in *.
      destruct (arun tleb a1 r) as [[a2 outs2]|] eqn:Hr2; [|discriminate].
      inversion Hr; subst; clear Hr.
      destruct (IH s1 a1 a' outs2 HR1 Hr2) as (s2 & H2 & HR2).
      exists s2. rewrite H1. cbn [bind]. rewrite H2. cbn [bind].
      rewrite (observe_R _ _ HR1). split; auto.
  Qed.

  Theorem store_refines : forall ops a outs,
    arun tleb aempty ops = Some (a, outs) -> exists s, run tleb empty ops = Ok (s, outs).
  Proof.
    intros ops a outs H. destruct (run_R ops empty aempty a outs R_empty H) as (s & H1 & _).
    exists s. exact H1.
  Qed.

  (* the final states are related as well *)
  Theorem store_refines_R : forall ops a outs,
    arun tleb aempty ops = Some (a, outs) -> exists s, run tleb empty ops = Ok (s, outs) /\ R s a.
  Proof. intros ops a outs H. apply (run_R ops empty aempty a outs R_empty H). Qed.

End Refine.

Print Assumptions store_refines.
Print Assumptions store_refines_R.
Print Assumptions step_R.
Print Assumptions observe_R.
Print Assumptions R_empty.
